(* C13: the two-pointer scan of MaximumDealingIntervalFeature (Model/Window.v) equals the
   naive exhaustive search, for every non-decreasing clock list and every L > 0; the fuel is
   never exhausted on ANY input; L <= 0 on a non-empty list raises IndexError. *)
From Coq Require Import ZArith List Lia Bool Arith.
From V.Lib Require Import PyLoop.
From V.Model Require Import Window.
Import ListNotations.
Open Scope Z_scope.

Definition sorted (l : damage_seq_t) : Prop :=
  forall i j, (i <= j < length l)%nat -> clk l i <= clk l j.
Definition nonneg (l : damage_seq_t) : Prop := Forall (fun it => 0 <= snd it) l.

(* a window [s, e) (entries s .. e-1; e is the index whose clock closes the window) *)
Definition reaches (L : Z) (l : damage_seq_t) (s e : nat) : Prop :=
  (s <= e < length l)%nat /\ L <= clk l e - clk l s.
Definition shortest (L : Z) (l : damage_seq_t) (s e : nat) : Prop :=
  reaches L l s e /\ forall e', (s <= e' < e)%nat -> clk l e' - clk l s < L.

Section Window.
  Variable L : Z.
  Variable l : damage_seq_t.
  Let n := length l.

  Lemma nth_error_clk i : (i < n)%nat -> exists a, nth_error l i = Some a /\ fst a = clk l i.
  Proof.
    intros Hi. destruct (nth_error l i) as [a|] eqn:E.
    - exists a. split; [reflexivity|]. unfold clk. rewrite (nth_error_nth l i (0, 0) E). reflexivity.
    - apply nth_error_None in E. unfold n in Hi. lia.
  Qed.

  Lemma compute_dealing_in s e : (s < n)%nat -> (e < n)%nat ->
    compute_dealing l s e =
    Some (if clk l e - clk l s =? 0 then (0, 0) else (clk l e - clk l s, slice_sum l s e)).
  Proof.
    intros Hs He. unfold compute_dealing.
    destruct (nth_error_clk s Hs) as (a & -> & <-). destruct (nth_error_clk e He) as (b & -> & <-).
    cbv zeta. destruct (fst b - fst a =? 0); reflexivity.
  Qed.

  Lemma compute_dealing_out s e : (n <= s)%nat -> compute_dealing l s e = None.
  Proof.
    intros Hs. unfold compute_dealing. replace (nth_error l s) with (@None (Z * Z)); [reflexivity|].
    symmetry. apply nth_error_None. exact Hs.
  Qed.

  (* ------------------------------------------------------------ one step, case by case *)
  Lemma step_break s e b bs be : (n <= e)%nat -> step L l (s, e, b, bs, be) = Break (s, e, b, bs, be).
  Proof. intros He. unfold step. fold n. apply Nat.leb_le in He. rewrite He. reflexivity. Qed.

  Definition rest_of (s e : nat) (b : Z) (bs be : nat) : outcome st :=
    match compute_dealing l s e with
    | None => Raise
    | Some (interval, dealing) =>
      if interval <? L then Continue (s, (e + 1)%nat, b, bs, be) else
      if b <? dealing then Continue ((s + 1)%nat, e, dealing, s, e)
      else Continue ((s + 1)%nat, e, b, bs, be)
    end.

  Lemma step_in s e b bs be : (e < n)%nat -> (s < n)%nat ->
    step L l (s, e, b, bs, be) =
    if ((e + 1 <? n)%nat && (clk l (e + 1) =? clk l s))%bool
    then Continue (s, (e + 1)%nat, b, bs, be) else rest_of s e b bs be.
  Proof.
    intros He Hs. unfold step. fold n. replace (n <=? e)%nat with false by (symmetry; apply Nat.leb_gt; lia).
    fold (rest_of s e b bs be).
    destruct (e + 1 <? n)%nat eqn:E1; cbn [andb]; [|reflexivity].
    apply Nat.ltb_lt in E1.
    destruct (nth_error_clk (e + 1)%nat E1) as (a & -> & <-). destruct (nth_error_clk s Hs) as (c & -> & <-).
    reflexivity.
  Qed.

  Lemma step_out e b bs be : (e < n)%nat -> (e + 1 = n)%nat ->
    step L l (n, e, b, bs, be) = Raise.
  Proof.
    intros He Hn. unfold step. fold n. replace (n <=? e)%nat with false by (symmetry; apply Nat.leb_gt; lia).
    replace (e + 1 <? n)%nat with false by (symmetry; apply Nat.ltb_ge; lia).
    rewrite compute_dealing_out by lia. reflexivity.
  Qed.

  (* ------------------------------------------------------------ fuel: never exhausted *)
  Definition wf (x : st) : Prop := (st_start x <= st_end x + 1)%nat /\ (st_end x <= n)%nat.

  Lemma step_progress x : wf x -> (st_end x < n)%nat ->
    step L l x = Raise \/
    exists y, step L l x = Continue y /\ wf y /\ (st_start y + st_end y = st_start x + st_end x + 1)%nat.
  Proof.
    destruct x as [[[[s e] b] bs] be]. unfold wf. cbn [st_start st_end]. intros [W1 W2] He.
    destruct (Nat.eq_dec s (e + 1)) as [Hse|Hse].
    - (* start ran past end (only possible for L <= 0) *)
      destruct (Nat.eq_dec (e + 1) n) as [Hn|Hn].
      + left. subst s. rewrite Hn. apply step_out; assumption.
      + right. rewrite step_in by lia. subst s.
        replace (e + 1 <? n)%nat with true by (symmetry; apply Nat.ltb_lt; lia).
        rewrite Z.eqb_refl. cbn [andb]. eexists. split; [reflexivity|]. cbn [st_start st_end]. lia.
    - assert (Hs : (s <= e)%nat) by lia. right. rewrite step_in by lia.
      destruct ((e + 1 <? n)%nat && (clk l (e + 1) =? clk l s))%bool eqn:EA.
      + apply andb_true_iff in EA. destruct EA as [EA _]. apply Nat.ltb_lt in EA.
        eexists. split; [reflexivity|]. cbn [st_start st_end]. lia.
      + unfold rest_of. rewrite compute_dealing_in by lia.
        destruct (clk l e - clk l s =? 0) eqn:E0.
        * destruct (0 <? L); [|destruct (b <? 0)]; eexists; (split; [reflexivity|]); cbn [st_start st_end]; lia.
        * assert (s <> e) by (intros ->; rewrite Z.sub_diag in E0; discriminate).
          destruct (clk l e - clk l s <? L); [|destruct (b <? slice_sum l s e)];
            eexists; (split; [reflexivity|]); cbn [st_start st_end]; lia.
  Qed.

  Lemma fuel_enough_from : forall fuel x, wf x ->
    (2 * n + 2 <= fuel + st_start x + st_end x)%nat -> while_true (step L l) fuel x <> OutOfFuel.
  Proof.
    induction fuel as [|f IH]; intros x Hwf Hf.
    - destruct Hwf. lia.
    - cbn [while_true]. destruct (Nat.lt_ge_cases (st_end x) n) as [He|He].
      + destruct (step_progress x Hwf He) as [->|(y & -> & Hy & Hm)]; [discriminate|].
        apply IH; [assumption|lia].
      + destruct x as [[[[s e] b] bs] be]. cbn [st_end] in He. rewrite step_break by assumption. discriminate.
  Qed.

  (* ------------------------------------------------------------ naive search: find_end *)
  Lemma find_end_none s e k :
    find_end L l s e k = None <-> forall e', (e <= e' < e + k)%nat -> clk l e' - clk l s < L.
  Proof.
    revert e. induction k as [|k IH]; intros e; cbn [find_end].
    - split; auto. intros; lia.
    - destruct (L <=? clk l e - clk l s) eqn:E.
      + split; [discriminate|]. intros Hall. specialize (Hall e ltac:(lia)). lia.
      + rewrite IH. split; intros Hall e' He'.
        * destruct (Nat.eq_dec e' e) as [->|]; [lia|]. apply Hall. lia.
        * apply Hall. lia.
  Qed.

  Lemma find_end_some s e k r : find_end L l s e k = Some r ->
    (e <= r < e + k)%nat /\ L <= clk l r - clk l s /\ forall e', (e <= e' < r)%nat -> clk l e' - clk l s < L.
  Proof.
    revert e. induction k as [|k IH]; intros e; cbn [find_end]; [discriminate|].
    destruct (L <=? clk l e - clk l s) eqn:E.
    - intros X; inversion X; subst. repeat split; try lia.
    - intros X. destruct (IH _ X) as (A & B & C). repeat split; try lia.
      intros e' He'. destruct (Nat.eq_dec e' e) as [->|]; [lia|]. apply C. lia.
  Qed.

  Lemma find_end_intro s e k r : (e <= r < e + k)%nat -> L <= clk l r - clk l s ->
    (forall e', (e <= e' < r)%nat -> clk l e' - clk l s < L) -> find_end L l s e k = Some r.
  Proof.
    revert e. induction k as [|k IH]; intros e Hr Hv Hm; [lia|]. cbn [find_end].
    destruct (L <=? clk l e - clk l s) eqn:E.
    - destruct (Nat.eq_dec e r) as [->|]; [reflexivity|]. specialize (Hm e ltac:(lia)). lia.
    - apply IH; try lia.
      + destruct (Nat.eq_dec e r) as [->|]; [lia|]. lia.
      + intros e' He'. apply Hm. lia.
  Qed.

  (* e_of is exactly "the shortest window from s that reaches L" *)
  Lemma e_of_shortest s e : e_of L l s = Some e <-> shortest L l s e.
  Proof.
    unfold e_of, shortest, reaches. fold n. split.
    - intros H. apply find_end_some in H. destruct H as (A & B & C). repeat split; try lia; auto.
    - intros [[A B] C]. apply find_end_intro; try lia; auto.
  Qed.

  Lemma e_of_none s : e_of L l s = None <-> forall e, ~ reaches L l s e.
  Proof.
    unfold e_of, reaches. fold n. rewrite find_end_none. split.
    - intros H e [A B]. specialize (H e ltac:(lia)). lia.
    - intros H e' He'. destruct (Z_lt_ge_dec (clk l e' - clk l s) L) as [|G]; [assumption|].
      exfalso. apply (H e'). split; lia.
  Qed.

  (* ------------------------------------------------------------ naive_from algebra *)
  Lemma naive_from_snoc b s k : naive_from L l b s (S k) = upd L l (naive_from L l b s k) (s + k).
  Proof.
    revert b s. induction k as [|k IH]; intros b s.
    - cbn. rewrite Nat.add_0_r. reflexivity.
    - change (naive_from L l b s (S (S k))) with (naive_from L l (upd L l b s) (S s) (S k)). rewrite IH. cbn [naive_from].
      replace (S s + k)%nat with (s + S k)%nat by lia. reflexivity.
  Qed.

  Lemma naive_from_app b a k1 k2 :
    naive_from L l b a (k1 + k2) = naive_from L l (naive_from L l b a k1) (a + k1) k2.
  Proof.
    revert b a. induction k1 as [|k1 IHk]; intros b a; cbn [naive_from Nat.add].
    - rewrite Nat.add_0_r. reflexivity.
    - rewrite IHk. replace (S a + k1)%nat with (a + S k1)%nat by lia. reflexivity.
  Qed.

  Lemma naive_tail_none b s k : (forall s', (s <= s' < s + k)%nat -> e_of L l s' = None) -> naive_from L l b s k = b.
  Proof.
    revert b s. induction k as [|k IH]; intros b s Hn; cbn [naive_from]; [reflexivity|].
    unfold upd at 1. rewrite (Hn s) by lia. apply IH. intros s' Hs'. apply Hn. lia.
  Qed.

  (* ------------------------------------------------------------ L > 0, sorted: scan = naive *)
  Section Positive.
  Hypothesis Lpos : 0 < L.
  Hypothesis Hsorted : sorted l.

  Definition Inv (x : st) : Prop :=
    (st_start x <= st_end x)%nat /\ (st_end x <= n)%nat /\
    (forall e', (st_start x <= e' < st_end x)%nat -> clk l e' - clk l (st_start x) < L) /\
    st_best x = naive_from L l (0, 0%nat, 0%nat) 0 (st_start x).

  Lemma e_of_none_from x : Inv x -> st_end x = n -> forall s', (st_start x <= s' < n)%nat -> e_of L l s' = None.
  Proof.
    intros (I1 & I2 & I3 & _) He s' Hs'. unfold e_of. apply find_end_none. fold n. intros e' He'.
    assert (clk l e' - clk l (st_start x) < L) by (apply I3; lia).
    assert (clk l (st_start x) <= clk l s') by (apply Hsorted; fold n; lia). lia.
  Qed.

  Lemma loop_eq_naive : forall fuel x, Inv x -> (2 * n + 2 <= fuel + st_start x + st_end x)%nat ->
    exists r, while_true (step L l) fuel x = Ok r /\ st_best r = naive L l.
  Proof.
    induction fuel as [|f IH]; intros x Hinv Hf.
    - destruct Hinv as (I1 & I2 & _). lia.
    - pose proof Hinv as (I1 & I2 & I3 & I4). cbn [while_true].
      destruct x as [[[[s e] b] bs] be]. cbn [st_start st_end st_best] in *.
      destruct (Nat.lt_ge_cases e n) as [En|En].
      + rewrite step_in by lia.
        destruct ((e + 1 <? n)%nat && (clk l (e + 1) =? clk l s))%bool eqn:EA.
        * (* equal clocks ahead: end += 1 *)
          apply andb_true_iff in EA. destruct EA as [EA1 EA2]. apply Nat.ltb_lt in EA1. apply Z.eqb_eq in EA2.
          apply IH; [|cbn [st_start st_end]; lia]. repeat split; cbn [st_start st_end st_best]; try lia; auto.
          intros e' He'. destruct (Nat.eq_dec e' e) as [->|]; [|apply I3; lia].
          assert (clk l e <= clk l (e + 1)) by (apply Hsorted; fold n; lia). lia.
        * unfold rest_of. rewrite compute_dealing_in by lia.
          destruct (clk l e - clk l s =? 0) eqn:E0.
          -- (* interval 0 -> (0, 0); 0 < L: end += 1 *)
             destruct (0 <? L) eqn:EL; [|lia].
             apply IH; [|cbn [st_start st_end]; lia]. repeat split; cbn [st_start st_end st_best]; try lia; auto.
             intros e' He'. destruct (Nat.eq_dec e' e) as [->|]; [lia|apply I3; lia].
          -- destruct (clk l e - clk l s <? L) eqn:EL.
             ++ apply IH; [|cbn [st_start st_end]; lia]. repeat split; cbn [st_start st_end st_best]; try lia; auto.
                intros e' He'. destruct (Nat.eq_dec e' e) as [->|]; [lia|apply I3; lia].
             ++ (* window found: end = e_of start *)
                assert (Hne : s <> e) by (intro X; rewrite X in E0; lia).
                assert (Heo : e_of L l s = Some e).
                { unfold e_of. apply find_end_intro; fold n; try lia. intros e' He'. apply I3. lia. }
                assert (Hnext : forall e', (s + 1 <= e' < e)%nat -> clk l e' - clk l (s + 1) < L).
                { intros e' He'. assert (clk l e' - clk l s < L) by (apply I3; lia).
                  assert (clk l s <= clk l (s + 1)) by (apply Hsorted; fold n; lia). lia. }
                destruct (b <? slice_sum l s e) eqn:EB.
                ** apply IH; [|cbn [st_start st_end]; lia]. repeat split; cbn [st_start st_end st_best]; try lia; auto.
                   replace (s + 1)%nat with (S s) by lia.
                   rewrite (naive_from_snoc _ 0%nat s). cbn [Nat.add].
                   rewrite <- I4. unfold upd. rewrite Heo. cbv zeta. rewrite EB. reflexivity.
                ** apply IH; [|cbn [st_start st_end]; lia]. repeat split; cbn [st_start st_end st_best]; try lia; auto.
                   replace (s + 1)%nat with (S s) by lia.
                   rewrite (naive_from_snoc _ 0%nat s). cbn [Nat.add].
                   rewrite <- I4. unfold upd. rewrite Heo. cbv zeta. rewrite EB. reflexivity.
      + assert (Ee : e = n) by lia. rewrite step_break by lia.
        eexists. split; [reflexivity|]. cbn [st_best]. unfold naive. fold n.
        replace n with (s + (n - s))%nat at 1 by lia.
        rewrite naive_from_app. cbn [Nat.add]. rewrite <- I4. rewrite naive_tail_none; [reflexivity|].
        intros s' Hs'. apply (e_of_none_from (s, e, b, bs, be) Hinv Ee). cbn [st_start]. lia.
  Qed.

  Theorem two_pointer_eq_naive : find_maximum_dealing_interval L l = Ok (naive L l).
  Proof.
    unfold find_maximum_dealing_interval.
    destruct (loop_eq_naive (fuel_of l) init) as (r & -> & Hr).
    - unfold Inv, init. cbn [st_start st_end st_best naive_from]. repeat split; try lia.
    - unfold fuel_of, init. fold n. cbn [st_start st_end]. lia.
    - rewrite Hr. reflexivity.
  Qed.
  End Positive.

  (* ------------------------------------------------------------ L <= 0: IndexError *)
  Section NonPositive.
  Hypothesis Lnonpos : L <= 0.
  Hypothesis Hsorted : sorted l.

  Lemma nonpos_step x : wf x -> (st_end x < n)%nat ->
    step L l x = Raise \/
    exists y, step L l x = Continue y /\ wf y /\ (st_end y < n)%nat /\
              (st_start y + st_end y = st_start x + st_end x + 1)%nat.
  Proof.
    destruct x as [[[[s e] b] bs] be]. unfold wf. cbn [st_start st_end]. intros [W1 W2] He.
    destruct (Nat.eq_dec s (e + 1)) as [Hse|Hse].
    - destruct (Nat.eq_dec (e + 1) n) as [Hn|Hn].
      + left. subst s. rewrite Hn. apply step_out; assumption.
      + right. rewrite step_in by lia. subst s.
        replace (e + 1 <? n)%nat with true by (symmetry; apply Nat.ltb_lt; lia).
        rewrite Z.eqb_refl. cbn [andb]. eexists. split; [reflexivity|]. cbn [st_start st_end]. lia.
    - assert (Hs : (s <= e)%nat) by lia. right. rewrite step_in by lia.
      destruct ((e + 1 <? n)%nat && (clk l (e + 1) =? clk l s))%bool eqn:EA.
      + apply andb_true_iff in EA. destruct EA as [EA _]. apply Nat.ltb_lt in EA.
        eexists. split; [reflexivity|]. cbn [st_start st_end]. lia.
      + unfold rest_of. rewrite compute_dealing_in by lia.
        assert (Hc : clk l s <= clk l e) by (apply Hsorted; fold n; lia).
        destruct (clk l e - clk l s =? 0) eqn:E0.
        * replace (0 <? L) with false by (symmetry; apply Z.ltb_ge; lia).
          destruct (b <? 0); eexists; (split; [reflexivity|]); cbn [st_start st_end]; lia.
        * replace (clk l e - clk l s <? L) with false by (symmetry; apply Z.ltb_ge; lia).
          destruct (b <? slice_sum l s e); eexists; (split; [reflexivity|]); cbn [st_start st_end]; lia.
  Qed.

  Lemma nonpos_loop : forall fuel x, wf x -> (st_end x < n)%nat ->
    while_true (step L l) fuel x = IndexError \/ while_true (step L l) fuel x = OutOfFuel.
  Proof.
    induction fuel as [|f IH]; intros x Hwf He; cbn [while_true]; [right; reflexivity|].
    destruct (nonpos_step x Hwf He) as [->|(y & -> & Hy & Hey & _)]; [left; reflexivity|].
    apply IH; assumption.
  Qed.

  Theorem nonpositive_length_raises : l <> [] -> find_maximum_dealing_interval L l = IndexError.
  Proof.
    intros Hne. unfold find_maximum_dealing_interval.
    assert (Hn : (0 < n)%nat) by (unfold n; destruct l; [congruence|cbn; lia]).
    assert (Hwf : wf init) by (unfold wf, init; cbn [st_start st_end]; lia).
    destruct (nonpos_loop (fuel_of l) init Hwf) as [->| E]; [cbn [st_end init]; lia|reflexivity|].
    exfalso. revert E. apply fuel_enough_from; [assumption|]. unfold fuel_of, init. fold n. cbn [st_start st_end]. lia.
  Qed.
  End NonPositive.

  (* any input at all: the fuel 2*len+2 is enough *)
  Theorem fuel_enough : find_maximum_dealing_interval L l <> OutOfFuel.
  Proof.
    unfold find_maximum_dealing_interval.
    destruct (while_true (step L l) (fuel_of l) init) eqn:E; try discriminate.
    exfalso. revert E. apply fuel_enough_from.
    - unfold wf, init; cbn [st_start st_end]; lia.
    - unfold fuel_of, init. fold n. cbn [st_start st_end]. lia.
  Qed.
End Window.
