(* Non-vacuity of the C10 dispatch theorems, on the system of Proofs/DispatchExamples.v (atk, buff with a bind
   into atk's entity, combo with an addon; timer last), by vm_compute. *)
From Coq Require Import List Bool Arith String Ascii ZArith Lia Permutation.
From V.Model Require Import Router Play Dispatch DispatchViews.
From V.Proofs Require Import DispatchStore DispatchRouter DispatchPlay DispatchExamples DispatchViews.
Import ListNotations.
Local Open Scope string_scope.
Local Open Scope Z_scope.

(* initialisation = the store the other examples start from *)
Example init_is_st0 : initial_store Ent Pay 100 0 comps = st0.
Proof. vm_compute. reflexivity. Qed.
Example binds_are_closed : binds_closed Ent Pay comps = true.
Proof. vm_compute. reflexivity. Qed.

(* views: remaining cooldown of atk; buff's stack together with the entity it binds; a buff value *)
Definition v_cd : view_fn Ent Z := fun fs => fget fs "cooldown".
Definition v_stack : view_fn Ent Z := fun fs => fget fs "stack" + 1000 * fget fs "target_cd".
Example view_on_initial : view_call Ent Pay Z buff v_stack st0 = Some (st0, 0).
Proof. vm_compute. reflexivity. Qed.
Example view_after_use : view_call Ent Pay Z buff v_stack st_cd = Some (st_cd, 5000).
Proof. vm_compute. reflexivity. Qed.

(* presence is exactly the guard: a bind to an address nobody owns, no default -> the view raises, and the
   boolean proviso rejects the configuration *)
Definition orphan : component Ent Pay :=
  {| c_name := "orphan"; c_maps := []; c_default := [("own", 1)]; c_binds := [("ghost", ".nobody.ent")]; c_addons := [] |}.
Example orphan_view_raises : view_call Ent Pay Z orphan v_cd (initial_store Ent Pay 100 0 (comps ++ [orphan])) = None.
Proof. vm_compute. reflexivity. Qed.
Example orphan_not_closed : binds_closed Ent Pay (comps ++ [orphan]) = false.
Proof. vm_compute. reflexivity. Qed.
(* ... while a defaulted entity that is absent is CREATED by the view (setdefault): views are read-only only
   under the presence invariant *)
Example view_creates_missing_default :
  view_call Ent Pay Z atk v_cd [("global.dynamics", 100)] = Some ([("global.dynamics", 100); (".atk.cooldown", 0)], 0).
Proof. vm_compute. reflexivity. Qed.

(* after two plays (use, elapse 2) every view still evaluates and leaves the store alone *)
Definition st_after : Dispatch.store Ent :=
  [("global.dynamics", 100); ("global.time", 2); (".atk.cooldown", 3); (".buff.stack", 1)].
Example views_after_two_plays :
  (let '(_, _, _, st, _) := two_plays in st) = st_after /\
  view_call Ent Pay Z atk v_cd st_after = Some (st_after, 3) /\
  view_call Ent Pay Z buff v_stack st_after = Some (st_after, 3001) /\
  clock_view Ent 0 st_after = Some (st_after, 2).
Proof. vm_compute. repeat split; reflexivity. Qed.

(* aggregation: children = the registered names containing ".<kind>" (re.match of ".*\.<kind>"), in order;
   note that "x.buffer" matches the buff pattern too *)
Example children_by_pattern :
  agg_children ["clock"; "atk.validity"; "atk.buff"; "buff.validity"; "buff.buff"; "x.buffer"; "info"; "buff"] "buff"
  = ["atk.buff"; "buff.buff"; "x.buffer"].
Proof. vm_compute. reflexivity. Qed.

(* total buff = fold of add over the Some results, in installation order; any order gives the same *)
Definition b_atk : view_fn Ent (option Z) := fun fs => if 0 <? fget fs "cooldown" then Some 30 else None.
Definition b_buff : view_fn Ent (option Z) := fun fs => Some (fget fs "stack" + 4).
Definition b_combo : view_fn Ent (option Z) := fun _ => None.
Definition kids : list (cview Ent Pay (option Z)) :=
  [{| cv_comp := atk; cv_name := "buff"; cv_fn := b_atk |}; {| cv_comp := buff; cv_name := "buff"; cv_fn := b_buff |};
   {| cv_comp := combo; cv_name := "buff"; cv_fn := b_combo |}].
Example total_buff_example :
  agg_call Ent Pay (option Z) kids st_after = Some (st_after, [Some 30; Some 5; None]) /\
  buff_view Ent Pay Z Z.add 0 kids st_after = Some (st_after, 35) /\
  buff_view Ent Pay Z Z.add 0 (rev kids) st_after = Some (st_after, 35).
Proof. vm_compute. repeat split; reflexivity. Qed.
