(* C12: cooldown reduction.  `cooldown x r c` is the reference formula (rate r applied first,
   floor 1 s; flat c second with the below-10 s taper; final floor min(cd, 5 s)); the
   generated ActionStat_calculate_cooldown is proved equal to it, so every law below is a
   law of the code as translated on this run. *)
From Coq Require Import QArith Qminmax Lqa.
From G Require Import CoreQ.
Open Scope Q_scope.

Definition cd1 (x r : Q) : Q :=
  if Qle_bool (x * (1 - (1#100) * r)) 1000 then Qmin x 1000 else x * (1 - (1#100) * r).

Definition applied (c d : Q) : Q :=
  if Qle_bool (d - c) 10000 then
    let cap := Qmin 10000 d in
    let left := (c - (d - cap)) * (1#1000) in
    cap * (1 - left * (5#100))
  else d - c.

Definition cooldown (x r c : Q) : Q :=
  let d := cd1 x r in Qmax (applied c d) (Qmin d 5000).

Lemma Qmin_cases a b : (a <= b /\ Qmin a b == a) \/ (b <= a /\ Qmin a b == b).
Proof. destruct (Q.min_spec a b) as [[H E]|[H E]]; [left|right]; split; try rewrite E; try reflexivity; lra. Qed.
Lemma Qmax_cases a b : (a <= b /\ Qmax a b == b) \/ (b <= a /\ Qmax a b == a).
Proof. destruct (Q.max_spec a b) as [[H E]|[H E]]; [left|right]; split; try rewrite E; try reflexivity; lra. Qed.

Lemma applied_mono_c c c' d : 0 <= d -> c <= c' -> applied c' d <= applied c d.
Proof.
  intros Hd Hc. unfold applied.
  destruct (Qle_bool (d - c') 10000) eqn:E1; destruct (Qle_bool (d - c) 10000) eqn:E2;
  try (apply Qle_bool_iff in E1); try (apply Qle_bool_iff in E2);
  try (assert (~ d - c' <= 10000) by (intro X; apply Qle_bool_iff in X; congruence));
  try (assert (~ d - c <= 10000) by (intro X; apply Qle_bool_iff in X; congruence)).
  - destruct (Qmin_cases 10000 d) as [[H1 H2]|[H1 H2]]; rewrite !H2; nra.
  - destruct (Qmin_cases 10000 d) as [[H1 H2]|[H1 H2]]; rewrite !H2; nra.
  - lra.
  - lra.
Qed.

(* ---- the rest of C12's cooldown claims ---- *)
Lemma Qle_bool_false a b : Qle_bool a b = false -> b < a.
Proof. intros H. apply Qnot_le_lt. intro X. apply Qle_bool_iff in X. congruence. Qed.

Lemma cd1_mono_r x r r' : 0 <= x -> 0 <= r -> r <= r' -> r' <= 100 -> cd1 x r' <= cd1 x r.
Proof.
  intros Hx Hr Hrr Hr'. unfold cd1.
  destruct (Qle_bool (x * (1 - (1 # 100) * r')) 1000) eqn:E1; destruct (Qle_bool (x * (1 - (1 # 100) * r)) 1000) eqn:E2;
    try apply Qle_bool_iff in E1; try apply Qle_bool_iff in E2; try apply Qle_bool_false in E1; try apply Qle_bool_false in E2.
  - apply Qle_refl.
  - destruct (Qmin_cases x 1000) as [[H1 H2]|[H1 H2]]; rewrite H2; nra.
  - exfalso. nra.
  - nra.
Qed.
Lemma cd1_bounds x r : 0 <= x -> 0 <= r -> r <= 100 -> Qmin x 1000 <= cd1 x r /\ cd1 x r <= x.
Proof.
  intros Hx Hr Hr'. unfold cd1. destruct (Qle_bool (x * (1 - (1 # 100) * r)) 1000) eqn:E;
    [apply Qle_bool_iff in E|apply Qle_bool_false in E]; destruct (Qmin_cases x 1000) as [[H1 H2]|[H1 H2]]; rewrite ?H2; split; try nra; try lra.
Qed.

Lemma g_mono c d d' : 0 <= c -> 0 <= d -> d <= d' -> Qmax (applied c d) (Qmin d 5000) <= Qmax (applied c d') (Qmin d' 5000).
Proof.
  intros Hc Hd Hdd. unfold applied.
  destruct (Qle_bool (d - c) 10000) eqn:E1; destruct (Qle_bool (d' - c) 10000) eqn:E2;
    try apply Qle_bool_iff in E1; try apply Qle_bool_iff in E2; try apply Qle_bool_false in E1; try apply Qle_bool_false in E2;
    destruct (Qmin_cases 10000 d) as [[A1 A2]|[A1 A2]]; destruct (Qmin_cases 10000 d') as [[B1 B2]|[B1 B2]];
    destruct (Qmin_cases d 5000) as [[C1 C2]|[C1 C2]]; destruct (Qmin_cases d' 5000) as [[D1 D2]|[D1 D2]];
    rewrite ?A2, ?B2, ?C2, ?D2;
    match goal with |- Qmax ?a ?b <= Qmax ?a' ?b' =>
      destruct (Qmax_cases a' b') as [[F1 F2]|[F1 F2]]; rewrite F2; apply Q.max_lub; try nra end.
Qed.

Theorem cooldown_mono_rate x r r' c : 0 <= x -> 0 <= r -> r <= r' -> r' <= 100 -> 0 <= c -> cooldown x r' c <= cooldown x r c.
Proof.
  intros Hx Hr Hrr Hr' Hc. unfold cooldown. apply g_mono; auto.
  - destruct (cd1_bounds x r' Hx ltac:(lra) Hr') as [L _]. destruct (Qmin_cases x 1000) as [[H1 H2]|[H1 H2]]; rewrite H2 in L; lra.
  - apply cd1_mono_r; auto.
Qed.

Theorem cooldown_mono_flat x r c c' : 0 <= x -> 0 <= r -> r <= 100 -> 0 <= c -> c <= c' -> cooldown x r c' <= cooldown x r c.
Proof.
  intros Hx Hr Hr' Hc Hcc. unfold cooldown.
  assert (Hd : 0 <= cd1 x r).
  { destruct (cd1_bounds x r Hx Hr Hr') as [L _]. destruct (Qmin_cases x 1000) as [[H1 H2]|[H1 H2]]; rewrite H2 in L; lra. }
  apply Q.max_le_compat_r. apply applied_mono_c; auto.
Qed.

Theorem cooldown_le_base x r c : 0 <= x -> 0 <= r -> r <= 100 -> 0 <= c -> cooldown x r c <= x.
Proof.
  intros Hx Hr Hr' Hc. unfold cooldown. destruct (cd1_bounds x r Hx Hr Hr') as [L U].
  assert (Hd : 0 <= cd1 x r) by (destruct (Qmin_cases x 1000) as [[H1 H2]|[H1 H2]]; rewrite H2 in L; lra).
  apply Q.max_lub.
  - (* applied c d <= applied 0 d = d <= x *)
    eapply Qle_trans; [apply (applied_mono_c 0 c (cd1 x r)); auto|].
    unfold applied. destruct (Qle_bool (cd1 x r - 0) 10000) eqn:E; [apply Qle_bool_iff in E|apply Qle_bool_false in E].
    + destruct (Qmin_cases 10000 (cd1 x r)) as [[A1 A2]|[A1 A2]]; rewrite A2; nra.
    + lra.
  - eapply Qle_trans; [apply Q.le_min_l|exact U].
Qed.

Theorem cooldown_floor x r c : Qmin (cd1 x r) 5000 <= cooldown x r c.
Proof. unfold cooldown. apply Q.le_max_r. Qed.

(* ---- bridge to the generated definition ---- *)
Ltac qeq := first [ reflexivity | ring | (apply Q.max_compat; qeq) | (apply Q.min_compat; qeq) ].
Lemma calculate_cooldown_eq (s : ActionStat) x :
  ActionStat_calculate_cooldown s x == cooldown x (ActionStat_cooltime_reduce_rate s) (ActionStat_cooltime_reduce s).
Proof.
  unfold ActionStat_calculate_cooldown, cooldown, cd1, applied. cbv zeta.
  set (r := ActionStat_cooltime_reduce_rate s). set (c := ActionStat_cooltime_reduce s).
  destruct (Qle_bool (x * (1 - (1 # 100) * r)) 1000); cbv zeta;
  match goal with |- context[Qle_bool ?a 10000] => destruct (Qle_bool a 10000) end; cbv zeta; qeq.
Qed.

Definition cooldown_of (s : ActionStat) x := ActionStat_calculate_cooldown s x.
Definition with_rate (s : ActionStat) r := mkActionStat (ActionStat_cooltime_reduce s) (ActionStat_summon_duration s) (ActionStat_buff_duration s) r.
Definition with_flat (s : ActionStat) c := mkActionStat c (ActionStat_summon_duration s) (ActionStat_buff_duration s) (ActionStat_cooltime_reduce_rate s).

Definition wf_action (s : ActionStat) := 0 <= ActionStat_cooltime_reduce s /\ 0 <= ActionStat_cooltime_reduce_rate s <= 100.

Theorem calc_cooldown_mono_rate s x r' : 0 <= x -> wf_action s -> ActionStat_cooltime_reduce_rate s <= r' -> r' <= 100 ->
  cooldown_of (with_rate s r') x <= cooldown_of s x.
Proof.
  intros Hx (Hc & Hr0 & Hr1) Hrr Hr'. unfold cooldown_of. rewrite !calculate_cooldown_eq. cbn.
  apply cooldown_mono_rate; assumption.
Qed.
Theorem calc_cooldown_mono_flat s x c' : 0 <= x -> wf_action s -> ActionStat_cooltime_reduce s <= c' ->
  cooldown_of (with_flat s c') x <= cooldown_of s x.
Proof.
  intros Hx (Hc & Hr0 & Hr1) Hcc. unfold cooldown_of. rewrite !calculate_cooldown_eq. cbn.
  apply cooldown_mono_flat; assumption.
Qed.
Theorem calc_cooldown_le_base s x : 0 <= x -> wf_action s -> cooldown_of s x <= x.
Proof. intros Hx (Hc & Hr0 & Hr1). unfold cooldown_of. rewrite calculate_cooldown_eq. apply cooldown_le_base; assumption. Qed.
(* floors: never below min(cd after rate, 5 s), and the rate part never goes below min(x, 1 s) *)
Theorem calc_cooldown_floor s x : 0 <= x -> wf_action s -> Qmin (Qmin x 1000) 5000 <= cooldown_of s x.
Proof.
  intros Hx (Hc & Hr0 & Hr1). unfold cooldown_of. rewrite calculate_cooldown_eq.
  eapply Qle_trans; [|apply cooldown_floor].
  apply Q.min_le_compat_r. apply cd1_bounds; assumption.
Qed.
Theorem calc_cooldown_floor_5s s x : 0 <= x -> wf_action s -> Qmin x 1000 <= cooldown_of s x.
Proof.
  intros Hx Hwf. eapply Qle_trans; [|apply calc_cooldown_floor; assumption].
  apply Q.min_glb; [apply Qle_refl|]. eapply Qle_trans; [apply Q.le_min_r|]. discriminate.
Qed.
