(* The methods of SimulationHistory / OperationLog as GENERATED from simaple/simulate/policy/base.py (gen/HistorySrc.v, by
   tools/tr_history.py) equal the definitions the engine model (Model/Engine.v) is written with, and the generated
   get_hash_index locates every log of a chained history by its hash. *)
From Coq Require Import List ZArith Bool Lia.
Import ListNotations.
From V Require Import Lib.PyHist Model.Engine.
From G Require Import HistorySrc.

Section Tie.
  Variables Ev Act Ck H T D Name : Type.
  Variable H0 : H.
  Variable hashf : H -> cmd T Name -> list (T * Act * list Ev) -> H.
  Variable H_eqb : H -> H -> bool.
  Hypothesis H_eqb_spec : forall a b, H_eqb a b = true <-> a = b.

  Notation oplog := (oplog Ev Act Ck H T D Name).
  Notation playlog := (playlog Ev Act Ck T).
  Notation lplogs := (lplogs Ev Act Ck H T D Name).
  Notation lprev := (lprev Ev Act Ck H T D Name).
  Notation lhash := (lhash Ev Act Ck H T D Name hashf).
  Notation last_plog := (last_plog Ev Act Ck H T D Name).
  Notation all_plogs := (all_plogs Ev Act Ck H T D Name).
  Notation chain := (chain_from Ev Act Ck H T D Name hashf).

  Lemma last_some_app {A} (a b : list A) :
    last (map Some (a ++ b)) None = match b with [] => last (map Some a) None | _ :: _ => last (map Some b) None end.
  Proof.
    destruct b as [|x b]; [rewrite app_nil_r; reflexivity|].
    induction a as [|y a IH]; [reflexivity|].
    cbn [app map]. destruct (a ++ x :: b) eqn:E; [destruct a; discriminate|]. cbn [map] in *. exact IH.
  Qed.

  Lemma all_plogs_snoc (ls : list oplog) (x : oplog) : all_plogs (ls ++ [x]) = all_plogs ls ++ lplogs x.
  Proof. unfold Engine.all_plogs. rewrite map_app, concat_app. cbn. rewrite app_nil_r. reflexivity. Qed.

  Lemma last_plog_snoc (ls : list oplog) (x : oplog) :
    last_plog (ls ++ [x]) = match lplogs x with [] => last_plog ls | _ :: _ => py_last (lplogs x) end.
  Proof. unfold Engine.last_plog. rewrite all_plogs_snoc, last_some_app. reflexivity. Qed.

  (* ---- _last_playlog *)
  Theorem src_last_playlog_is_last_plog (ls : list oplog) : src_last_playlog Ev Act Ck H T D Name ls = last_plog ls.
  Proof.
    unfold src_last_playlog. cbn [bind].
    induction ls as [|x ls IH] using rev_ind; [reflexivity|].
    rewrite rev_unit, last_plog_snoc. cbn [py_for bind]. unfold f_playlogs, m_last. cbn [bind]. unfold f_playlogs.
    destruct (lplogs x) as [|p ps] eqn:E; cbn [py_truthy].
    - exact IH.
    - destruct (py_last (p :: ps)) eqn:L; [reflexivity|]. apply py_last_nil_iff in L. discriminate.
  Qed.

  (* ---- last_events *)
  Theorem src_last_events_is_last_events (ls : list oplog) :
    src_last_events Ev Act Ck H T D Name ls = Some (last_events Ev Act Ck H T D Name ls).
  Proof.
    unfold src_last_events, Engine.last_events. cbn [bind].
    induction ls as [|x ls IH] using rev_ind; [reflexivity|].
    rewrite rev_unit, last_plog_snoc. cbn [py_for bind]. unfold f_playlogs, m_last. cbn [bind]. unfold f_playlogs.
    destruct (lplogs x) as [|p ps] eqn:E; cbn [py_truthy].
    - exact IH.
    - destruct (py_last (p :: ps)) eqn:L; [reflexivity|]. apply py_last_nil_iff in L. discriminate.
  Qed.

  (* ---- _current_ckpt *)
  Theorem src_current_ckpt_is_last_checkpoint (ls : list oplog) :
    src_current_ckpt Ev Act Ck H T D Name ls = option_map (pck Ev Act Ck T) (last_plog ls).
  Proof. unfold src_current_ckpt. rewrite src_last_playlog_is_last_plog. destruct (last_plog ls); reflexivity. Qed.

  (* ---- commit *)
  Theorem src_commit_previous_hash_is_last_hash (ls : list oplog) :
    src_commit_previous_hash Ev Act Ck H T D Name H0 hashf ls = Some (last_hash Ev Act Ck H T D Name H0 hashf ls).
  Proof.
    unfold src_commit_previous_hash, Engine.last_hash, py_len, py_last, f_hash. cbn [bind].
    destruct ls as [|x ls] using rev_ind; [reflexivity|].
    rewrite app_length. cbn [length].
    replace (Z.of_nat (length ls + 1) =? 0)%Z with false by (symmetry; apply Z.eqb_neq; lia).
    fold (py_last (ls ++ [x])). rewrite py_last_app. reflexivity.
  Qed.

  Theorem src_commit_appends (ls : list oplog) c pls d :
    src_commit Ev Act Ck H T D Name H0 hashf ls c pls d =
    Some (ls ++ [Build_oplog Ev Act Ck H T D Name c pls d (last_hash Ev Act Ck H T D Name H0 hashf ls)]).
  Proof. unfold src_commit. rewrite src_commit_previous_hash_is_last_hash. reflexivity. Qed.

  (* ---- discard_after *)
  Theorem src_discard_after_is_firstn (ls : list oplog) (i : nat) :
    src_discard_after Ev Act Ck H T D Name ls (Z.of_nat i) = Some (firstn (S i) ls).
  Proof.
    unfold src_discard_after, py_slice_to. cbn [bind].
    replace (0 <=? Z.of_nat i + 1)%Z with true by (symmetry; apply Z.leb_le; lia).
    replace (Z.to_nat (Z.of_nat i + 1)) with (S i) by lia. reflexivity.
  Qed.

  (* ---- the chain invariant under the GENERATED commit / discard_after, one step and every sequence of them *)
  Theorem src_commit_keeps_chain (ls ls' : list oplog) c pls d : chain H0 ls ->
    src_commit Ev Act Ck H T D Name H0 hashf ls c pls d = Some ls' -> chain H0 ls'.
  Proof.
    intros Hc E. rewrite src_commit_appends in E. inversion E; subst ls'; clear E.
    apply chain_snoc; [exact Hc|]. cbn [Engine.lprev]. unfold Engine.last_hash. reflexivity.
  Qed.

  Theorem src_discard_after_keeps_chain (ls ls' : list oplog) (i : nat) : chain H0 ls ->
    src_discard_after Ev Act Ck H T D Name ls (Z.of_nat i) = Some ls' -> chain H0 ls'.
  Proof.
    intros Hc E. rewrite src_discard_after_is_firstn in E. assert (E' : ls' = firstn (S i) ls) by congruence. rewrite E'.
    apply (chain_firstn Ev Act Ck H T D Name hashf (S i)). exact Hc.
  Qed.

  Inductive hist_op : Type :=
  | HCommit (c : cmd T Name) (pls : list playlog) (d : option D)
  | HDiscard (i : nat).
  Definition src_hist_step (ls : list oplog) (o : hist_op) : option (list oplog) :=
    match o with
    | HCommit c pls d => src_commit Ev Act Ck H T D Name H0 hashf ls c pls d
    | HDiscard i => src_discard_after Ev Act Ck H T D Name ls (Z.of_nat i)
    end.
  Fixpoint src_hist_steps (ls : list oplog) (os : list hist_op) : option (list oplog) :=
    match os with
    | [] => Some ls
    | o :: r => match src_hist_step ls o with Some ls' => src_hist_steps ls' r | None => None end
    end.
  Theorem src_hist_steps_keep_chain : forall os ls ls', chain H0 ls -> src_hist_steps ls os = Some ls' -> chain H0 ls'.
  Proof.
    induction os as [|o os IH]; intros ls ls' Hc E; cbn [src_hist_steps] in E.
    - inversion E; subst; exact Hc.
    - destruct (src_hist_step ls o) as [m|] eqn:Em; [|discriminate]. apply (IH m ls'); [|exact E].
      destruct o as [c pls d|i]; cbn [src_hist_step] in Em.
      + eapply src_commit_keeps_chain; eauto.
      + eapply src_discard_after_keeps_chain; eauto.
  Qed.

  (* ---- get_hash_index *)
  Notation ghi := (src_get_hash_index Ev Act Ck H T D Name hashf H_eqb).

  Lemma H_eqb_false a b : a <> b -> H_eqb a b = false.
  Proof. intros N. destruct (H_eqb a b) eqn:E; [apply H_eqb_spec in E; contradiction|reflexivity]. Qed.
  Lemma H_eqb_refl a : H_eqb a a = true.
  Proof. apply H_eqb_spec. reflexivity. Qed.

  (* the loop of get_hash_index: first position whose previous hash is h *)
  Definition loop_body (h : H) : Z * oplog -> option (option Z) :=
    fun '(idx, log) => if H_eqb (lprev log) h then Some (Some (idx - 1)%Z) else Some None.

  Lemma ghi_unfold ls h :
    ghi ls h = py_for (loop_body h) (py_enumerate ls)
                 (match py_last ls with
                  | Some l => if H_eqb (lhash l) h then Some (py_len ls - 1)%Z else None
                  | None => None end).
  Proof.
    unfold src_get_hash_index. cbn [bind]. unfold f_previous_hash, f_hash.
    assert (E : forall (xs : list (Z * oplog)) rest,
      py_for (fun '(idx, log) =>
                bind (Some (H_eqb (lprev log) h))
                  (fun c14 => if c14 then bind (Some (idx - 1)%Z) (fun r15 => Some (Some r15)) else Some None)) xs rest
      = py_for (loop_body h) xs rest).
    { induction xs as [|[i l] xs IH]; intros rest; [reflexivity|]. cbn [py_for bind loop_body].
      destruct (H_eqb (lprev l) h); [reflexivity|]. apply IH. }
    rewrite E. f_equal. destruct (py_last ls); reflexivity.
  Qed.

  Lemma loop_skip h : forall (ls : list oplog) k rest,
    (forall l, In l ls -> lprev l <> h) -> py_for (loop_body h) (py_enumerate_from k ls) rest = rest.
  Proof.
    induction ls as [|x ls IH]; intros k rest Hn; [reflexivity|].
    cbn [py_enumerate_from py_for loop_body]. rewrite H_eqb_false by (apply Hn; left; reflexivity).
    apply IH. intros l Hl. apply Hn. right. exact Hl.
  Qed.

  Lemma loop_hit h : forall (pre : list oplog) x post k rest,
    (forall l, In l pre -> lprev l <> h) -> lprev x = h ->
    py_for (loop_body h) (py_enumerate_from k (pre ++ x :: post)) rest = Some (k + Z.of_nat (length pre) - 1)%Z.
  Proof.
    induction pre as [|y pre IH]; intros x post k rest Hn Hx.
    - cbn [app py_enumerate_from py_for loop_body length]. rewrite Hx, H_eqb_refl. f_equal. cbn. lia.
    - cbn [app py_enumerate_from py_for loop_body]. rewrite H_eqb_false by (apply Hn; left; reflexivity).
      rewrite IH by (try assumption; intros l Hl; apply Hn; right; exact Hl). f_equal. cbn [length]. lia.
  Qed.

  (* position-wise versions of the loop lemmas *)
  Lemma loop_none h : forall (ls : list oplog) k rest,
    (forall j lj, nth_error ls j = Some lj -> lprev lj <> h) -> py_for (loop_body h) (py_enumerate_from k ls) rest = rest.
  Proof.
    intros ls k rest Hn. apply loop_skip. intros l Hl. apply In_nth_error in Hl. destruct Hl as [j Hj]. exact (Hn j l Hj).
  Qed.

  Lemma loop_idx h : forall (ls : list oplog) k rest m lm,
    (forall j lj, (j < m)%nat -> nth_error ls j = Some lj -> lprev lj <> h) -> nth_error ls m = Some lm -> lprev lm = h ->
    py_for (loop_body h) (py_enumerate_from k ls) rest = Some (k + Z.of_nat m - 1)%Z.
  Proof.
    intros ls k rest m lm Hn Hm Hh. destruct (nth_error_split ls m Hm) as [pre [post [E Hlen]]]. subst ls.
    rewrite (loop_hit h pre lm post k rest); [rewrite Hlen; reflexivity| |exact Hh].
    intros l Hl. apply In_nth_error in Hl. destruct Hl as [j Hj].
    assert (Hjm : (j < m)%nat) by (rewrite <- Hlen; apply nth_error_Some; congruence).
    apply (Hn j l Hjm). rewrite nth_error_app1 by lia. exact Hj.
  Qed.

  Lemma loop_inv h : forall (ls : list oplog) k rest z,
    py_for (loop_body h) (py_enumerate_from k ls) rest = Some z ->
    (exists m lm, nth_error ls m = Some lm /\ lprev lm = h /\ z = (k + Z.of_nat m - 1)%Z) \/ rest = Some z.
  Proof.
    induction ls as [|x ls IH]; intros k rest z Hf; [right; exact Hf|].
    cbn [py_enumerate_from py_for loop_body] in Hf. destruct (H_eqb (lprev x) h) eqn:E.
    - left. exists 0%nat, x. apply H_eqb_spec in E. inversion Hf. repeat split; [exact E|lia].
    - destruct (IH _ _ _ Hf) as [[m [lm [Hm [Hh Hz]]]]|Hr]; [|right; exact Hr].
      left. exists (S m), lm. repeat split; [exact Hm|exact Hh|lia].
  Qed.

  (* sha1 is modelled as injective in the previous hash, and "" is not a digest *)
  Hypothesis hashf_inj_prev : forall p c x p' c' x', hashf p c x = hashf p' c' x' -> p = p'.
  Hypothesis H0_not_a_hash : forall p c x, hashf p c x <> H0.

  Lemma chain_nth0 : forall (ls : list oplog) p l, chain p ls -> nth_error ls 0 = Some l -> lprev l = p.
  Proof. intros [|x ls] p l Hc Hn; [discriminate|]. inversion Hn; subst. exact (proj1 Hc). Qed.

  Lemma chain_nth_succ : forall (ls : list oplog) p k a b,
    chain p ls -> nth_error ls k = Some a -> nth_error ls (S k) = Some b -> lprev b = lhash a.
  Proof.
    induction ls as [|x ls IH]; intros p k a b Hc Ha Hb; [destruct k; discriminate|].
    destruct Hc as [_ Hc]. destruct k as [|k].
    - inversion Ha; subst. cbn in Hb. eapply chain_nth0; eauto.
    - cbn in Ha, Hb. eapply IH; eauto.
  Qed.

  Lemma nth_pred_exists (ls : list oplog) k b : nth_error ls (S k) = Some b -> exists a, nth_error ls k = Some a.
  Proof.
    intros Hb. destruct (nth_error ls k) eqn:E; [eauto|]. apply nth_error_None in E.
    assert (nth_error ls (S k) <> None) by congruence. apply nth_error_Some in H1. lia.
  Qed.

  (* in a chain that starts from "" no two logs share a hash *)
  Lemma hash_distinct (ls : list oplog) : chain H0 ls ->
    forall a b la lb, (a < b)%nat -> nth_error ls a = Some la -> nth_error ls b = Some lb -> lhash la <> lhash lb.
  Proof.
    intros Hc. induction a as [|a IH]; intros b la lb Hab Ha Hb E; (destruct b as [|b]; [lia|]);
      destruct (nth_pred_exists _ _ _ Hb) as [zb Hzb]; pose proof (chain_nth_succ _ _ _ _ _ Hc Hzb Hb) as Pb;
      unfold Engine.lhash in E; apply hashf_inj_prev in E.
    - rewrite (chain_nth0 _ _ _ Hc Ha) in E. rewrite Pb in E. symmetry in E. revert E. apply H0_not_a_hash.
    - destruct (nth_pred_exists _ _ _ Ha) as [za Hza]. pose proof (chain_nth_succ _ _ _ _ _ Hc Hza Ha) as Pa.
      rewrite Pa, Pb in E. revert E. apply (IH b za zb); [lia|assumption|assumption].
  Qed.

  (* ... and no log's previous hash is the hash of that log or of a later one *)
  Lemma prev_not_later (ls : list oplog) : chain H0 ls ->
    forall j i lj li, (j <= i)%nat -> nth_error ls j = Some lj -> nth_error ls i = Some li -> lprev lj <> lhash li.
  Proof.
    intros Hc j i lj li Hji Hj Hi. destruct j as [|j].
    - rewrite (chain_nth0 _ _ _ Hc Hj). intros E. symmetry in E. revert E. apply H0_not_a_hash.
    - destruct (nth_pred_exists _ _ _ Hj) as [z Hz]. rewrite (chain_nth_succ _ _ _ _ _ Hc Hz Hj).
      apply (hash_distinct ls Hc j i z li); [lia|assumption|assumption].
  Qed.

  (* C03: "a hash locates its log" - for the get_hash_index GENERATED from the source *)
  Theorem get_hash_index_locates (ls : list oplog) : chain H0 ls ->
    forall i l, nth_error ls i = Some l -> ghi ls (lhash l) = Some (Z.of_nat i).
  Proof.
    intros Hc i l Hi. rewrite ghi_unfold. unfold py_enumerate.
    destruct (nth_error ls (S i)) as [l'|] eqn:Hs.
    - rewrite (loop_idx (lhash l) ls 0%Z _ (S i) l').
      + f_equal. lia.
      + intros j lj Hj Hlj. apply (prev_not_later ls Hc j i lj l); [lia|assumption|assumption].
      + exact Hs.
      + eapply chain_nth_succ; eauto.
    - rewrite loop_none.
      + destruct (nth_error_split ls i Hi) as [pre [post [E Hlen]]]. apply nth_error_None in Hs.
        assert (post = []) by (destruct post; [reflexivity|subst ls; rewrite app_length in Hs; cbn in Hs; lia]). subst post ls.
        rewrite py_last_app, H_eqb_refl. unfold py_len. rewrite app_length. cbn [length]. f_equal. lia.
      + intros j lj Hlj. assert (Hj : (j <= i)%nat).
        { apply nth_error_None in Hs. assert (nth_error ls j <> None) by congruence. apply nth_error_Some in H1. lia. }
        apply (prev_not_later ls Hc j i lj l); assumption.
  Qed.

  (* ... and whatever index it returns for a hash other than "" holds a log with that hash *)
  Theorem get_hash_index_sound (ls : list oplog) : chain H0 ls ->
    forall h z, h <> H0 -> ghi ls h = Some z ->
    (0 <= z)%Z /\ exists l, nth_error ls (Z.to_nat z) = Some l /\ lhash l = h.
  Proof.
    intros Hc h z Hh Hg. rewrite ghi_unfold in Hg. unfold py_enumerate in Hg. apply loop_inv in Hg.
    destruct Hg as [[m [lm [Hm [Hp Hz]]]]|Hr].
    - destruct m as [|m]; [rewrite (chain_nth0 _ _ _ Hc Hm) in Hp; congruence|].
      destruct (nth_pred_exists _ _ _ Hm) as [a Ha]. split; [lia|]. exists a.
      replace (Z.to_nat z) with m by lia. split; [exact Ha|]. rewrite <- (chain_nth_succ _ _ _ _ _ Hc Ha Hm). exact Hp.
    - destruct (py_last ls) as [l|] eqn:L; [|discriminate]. destruct (H_eqb (lhash l) h) eqn:E; [|discriminate].
      apply H_eqb_spec in E. inversion Hr; subst z. clear Hr.
      destruct ls as [|x ls] using rev_ind; [discriminate|]. rewrite py_last_app in L. inversion L; subst x.
      unfold py_len. rewrite app_length. cbn [length]. split; [lia|]. exists l.
      replace (Z.to_nat (Z.of_nat (length ls + 1) - 1)) with (length ls) by lia.
      rewrite nth_error_app2, Nat.sub_diag by lia. split; [reflexivity|exact E].
  Qed.

  (* ... and a hash that is neither "" nor the hash of a recorded log is refused (ValueError) *)
  Theorem get_hash_index_unknown_hash_raises (ls : list oplog) : chain H0 ls ->
    forall h, h <> H0 -> (forall l, In l ls -> lhash l <> h) -> ghi ls h = None.
  Proof.
    intros Hc h Hh Hn. destruct (ghi ls h) as [z|] eqn:G; [|reflexivity].
    destruct (get_hash_index_sound ls Hc h z Hh G) as [_ [l [Hl E]]]. apply nth_error_In in Hl. exfalso. exact (Hn l Hl E).
  Qed.

  (* the quirk outside the statement: "" is no log's hash, yet it is the previous hash of the first log: the answer is -1 *)
  Theorem get_hash_index_of_the_empty_string (ls : list oplog) x : chain H0 (x :: ls) -> ghi (x :: ls) H0 = Some (-1)%Z.
  Proof.
    intros [Hp _]. rewrite ghi_unfold. unfold py_enumerate. cbn [py_enumerate_from py_for loop_body].
    rewrite Hp, H_eqb_refl. reflexivity.
  Qed.
  (* rollback lands on the tip: after the generated discard_after(i) the i-th log is the last one, and its hash is located at i
     in the shortened history too (so a second rollback to the same hash changes nothing) *)
  Theorem src_discard_after_lands_on_tip (ls ls' : list oplog) : chain H0 ls ->
    forall i l, nth_error ls i = Some l ->
      src_discard_after Ev Act Ck H T D Name ls (Z.of_nat i) = Some ls' ->
      py_last ls' = Some l /\ length ls' = S i /\ ghi ls' (lhash l) = Some (Z.of_nat i) /\
      src_discard_after Ev Act Ck H T D Name ls' (Z.of_nat i) = Some ls'.
  Proof.
    intros Hc i l Hi E. rewrite src_discard_after_is_firstn in E. assert (E' : ls' = firstn (S i) ls) by congruence. rewrite E'; clear E E' ls'.
    destruct (nth_error_split ls i Hi) as [pre [post [Els Hlen]]]. subst ls.
    assert (Ef : firstn (S i) (pre ++ l :: post) = pre ++ [l]).
    { rewrite firstn_app. rewrite (firstn_all2 pre) by lia. replace (S i - length pre)%nat with 1%nat by lia. reflexivity. }
    rewrite Ef. split; [apply py_last_app|]. split; [rewrite app_length; cbn [length]; lia|]. split.
    - apply get_hash_index_locates.
      + rewrite <- Ef. apply (chain_firstn Ev Act Ck H T D Name hashf (S i)). exact Hc.
      + rewrite nth_error_app2 by lia. replace (i - length pre)%nat with 0%nat by lia. reflexivity.
    - rewrite src_discard_after_is_firstn. f_equal. apply firstn_all2. rewrite app_length. cbn [length]. lia.
  Qed.
End Tie.

(* non-vacuity: a concrete chained history (hashes = unary numerals, hash = successor of the previous hash, "" = 0) meets the
   hypotheses, and the generated get_hash_index answers 0, 1, 2 for its three hashes, refuses an unknown one and answers -1 for "" *)
Section Example.
  Let Hh := nat.
  Let hf (p : Hh) (c : cmd unit unit) (x : list (unit * unit * list unit)) : Hh := S p.
  Let mk (p : Hh) : oplog unit unit unit Hh unit unit unit :=
    Build_oplog unit unit unit Hh unit unit unit (Console unit unit tt) [] None p.
  Let hist := [mk 0; mk 1; mk 2].
  Example example_chain : chain_from unit unit unit Hh unit unit unit hf 0 hist.
  Proof. cbn. repeat split. Qed.
  Example example_hyps : (forall a b, Nat.eqb a b = true <-> a = b) /\
                         (forall p c x p' c' x', hf p c x = hf p' c' x' -> p = p') /\ (forall p c x, hf p c x <> 0).
  Proof. split; [apply Nat.eqb_eq|]. split; [intros p c x p' c' x' E; inversion E; reflexivity|intros p c x; discriminate]. Qed.
  Example example_answers :
    map (src_get_hash_index unit unit unit Hh unit unit unit hf Nat.eqb hist) [1; 2; 3; 7; 0]
    = [Some 0%Z; Some 1%Z; Some 2%Z; None; Some (-1)%Z].
  Proof. vm_compute. reflexivity. Qed.
  (* ... and a sequence of generated commits and discards on it: roll back to log 1, commit twice, roll back to log 2 *)
  Example example_hist_steps :
    option_map (map (lprev unit unit unit Hh unit unit unit))
      (src_hist_steps unit unit unit Hh unit unit unit 0 hf hist
         [HDiscard unit unit unit unit unit unit 1; HCommit unit unit unit unit unit unit (Console unit unit tt) [] None;
          HCommit unit unit unit unit unit unit (Console unit unit tt) [] None; HDiscard unit unit unit unit unit unit 2])
    = Some [0; 1; 2].
  Proof. vm_compute. reflexivity. Qed.
End Example.
