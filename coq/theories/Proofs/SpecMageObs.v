(* The observation xnorm is sound: forgetting the interval counter and the tick count of a
   schedule that is over changes no event and no observation of any later reducer, and no view.
   Hence "xnorm s2 = xnorm s3" in the chunk theorem means the two runs are indistinguishable
   from then on. *)
From Coq Require Import ZArith List Bool Lia.
From V.Model Require Import Comp SpecMage.
From V.Proofs Require Import CompChunk CompChunkHL SpecMageReject SpecMageChunk SpecMageLoop SpecMageField SpecMageC09.
Import ListNotations.
Open Scope Z_scope.

Arguments P.elapse : simpl never.
Arguments ticks : simpl never.
Arguments P.enabled : simpl never.

Definition xres_eq (a b : option xres) : Prop :=
  match a, b with
  | Some (r, e), Some (r', e') => xnorm r = xnorm r' /\ e = e'
  | None, None => True
  | _, _ => False
  end.

Lemma dnorm_idem q : dnorm (dnorm q) = dnorm q.
Proof. unfold dnorm. destruct (0 <? P.tl q) eqn:E; cbn; rewrite E; reflexivity. Qed.
Lemma xnorm_idem s : xnorm (xnorm s) = xnorm s.
Proof. unfold xnorm. apply xst_ext; xsimpl; try reflexivity. apply ust_ext; usimpl; try reflexivity. apply dnorm_idem. Qed.
Lemma xnorm_live s : 0 < P.tl (u_p1 (x_u s)) -> xnorm s = s.
Proof.
  intros L. unfold xnorm, dnorm. replace (0 <? P.tl (u_p1 (x_u s))) with true by (symmetry; apply Z.ltb_lt; exact L).
  destruct s as [u]; destruct u; reflexivity.
Qed.
Lemma xres_eq_refl a : xres_eq a a.
Proof. destruct a as [[r e]|]; cbn; auto. Qed.

Lemma ticks_same q : ticks q q = O.
Proof. unfold ticks. rewrite Z.sub_diag. reflexivity. Qed.

(* a reducer cannot tell a state from its observation *)
Lemma xreduce_xnorm c m p t s :
  0 <= P.tl (u_p1 (x_u s)) -> xres_eq (xreduce_spec c m p t s) (xreduce_spec c m p t (xnorm s)).
Proof.
  intros T. destruct (Z_lt_le_dec 0 (P.tl (u_p1 (x_u s)))) as [L|D].
  { rewrite xnorm_live by exact L. apply xres_eq_refl. }
  assert (T0 : P.tl (u_p1 (x_u s)) = 0) by lia. clear T.
  set (q := u_p1 (x_u s)) in *. set (qn := P.mkP (P.interval q) 0 (P.tl q) 0).
  assert (N : xnorm s = xset_u s (set_p1 (x_u s) qn)).
  { unfold xnorm, dnorm. fold q. replace (0 <? P.tl q) with false by (symmetry; apply Z.ltb_ge; lia). reflexivity. }
  rewrite N. clear N.
  assert (Dn : P.tl qn <= 0) by (cbn; lia).
  assert (E1 : P.elapse q t = q) by (apply elapse_dead; lia).
  assert (E2 : P.elapse qn t = qn) by (apply elapse_dead; exact Dn).
  assert (NQ : dnorm q = dnorm qn).
  { unfold dnorm, qn. cbn [P.tl P.interval]. replace (0 <? P.tl q) with false by (symmetry; apply Z.ltb_ge; lia). reflexivity. }
  destruct (xcapped c && match m with XElapse => true | _ => false end) eqn:Cc.
  - apply andb_prop in Cc. destruct Cc as [Cc Hm]. destruct m; try discriminate.
    rewrite !xcapped_elapse by exact Cc. xsimpl. fold q.
    assert (EM : cap_emit c p (xset_u s (set_p1 (x_u s) qn)) = cap_emit c p s) by (destruct c; reflexivity).
    rewrite EM. unfold P.fuel_of. rewrite !gloop_dead by (try exact Dn; lia). cbn [xres_eq]. split; [|reflexivity].
    apply xst_ext; xsimpl; try reflexivity. apply ust_ext; usimpl; try reflexivity.
    unfold gfin, cap_disable. destruct (p_maxcount (xp p) <=? P.cnt q); destruct (p_maxcount (xp p) <=? P.cnt qn);
      unfold dnorm, P.disable, qn; cbn [P.tl P.interval]; rewrite ?T0; reflexivity.
  - destruct c, m; cbn [xcapped andb] in Cc; try discriminate Cc; unfold xreduce_spec; cbn [xreduce xres_eq]; try exact I;
      unfold cd_elapse, lift, har_stack, tc_attack, use_buff_trait, elapse_buff_trait, elapse_simple_attack, use_simple_attack,
        use_periodic_with_simple, use_periodic, elapse_periodic_with, cf_elapse, avail, las_on, nova_can_trigger;
      xsimpl; fold q; rewrite ?E1, ?E2, ?ticks_same; cbn [chain_ticks];
      destruct (u_cd (x_u s) <=? 0) eqn:Ecd; destruct (use_frost (x_frost s)) as [f' m0] eqn:Efr;
      cbn [negb fst snd rejected existsb is_reject dealt orb map app];
      repeat match goal with
        | |- context [if ?b then _ else _] => destruct b eqn:?
        end;
      cbn [xres_eq fst snd]; (split; [|reflexivity]);
      apply xst_ext; xsimpl; try reflexivity; apply ust_ext; usimpl; try reflexivity; try exact NQ.
Qed.

Lemma xres_eq_sym a b : xres_eq a b -> xres_eq b a.
Proof. destruct a as [[r e]|], b as [[r' e']|]; cbn; intuition congruence. Qed.
Lemma xres_eq_trans a b c : xres_eq a b -> xres_eq b c -> xres_eq a c.
Proof. destruct a as [[r e]|], b as [[r' e']|], c as [[r'' e'']|]; cbn; intuition congruence. Qed.

(* two states with the same observation answer every reducer with the same events and states
   with the same observation, and show the same views *)
Theorem xnorm_sound c m p t s s' :
  0 <= P.tl (u_p1 (x_u s)) -> 0 <= P.tl (u_p1 (x_u s')) -> xnorm s = xnorm s' ->
  xres_eq (xreduce_spec c m p t s) (xreduce_spec c m p t s') /\
  xview_validity c p s = xview_validity c p s' /\ xview_running c p s = xview_running c p s' /\
  xview_buff c p s = xview_buff c p s'.
Proof.
  intros T T' N. split.
  - eapply xres_eq_trans; [apply xreduce_xnorm; exact T|]. rewrite N. apply xres_eq_sym. apply xreduce_xnorm. exact T'.
  - destruct (xviews_xnorm c p s) as (A1 & A2 & A3). destruct (xviews_xnorm c p s') as (B1 & B2 & B3).
    rewrite <- A1, <- A2, <- A3, <- B1, <- B2, <- B3, N. repeat split.
Qed.
