From Coq Require Import ZArith List Lia Bool.
Import ListNotations.
Open Scope Z_scope.
From V.Model Require Export EDot.
Lemma step_wf s t : wf s -> 0 < t -> wf (fst (fst (step s t))).
Proof. unfold wf, step. intros [H1 H2] Ht. destruct (t <? pl s) eqn:E; cbn; lia. Qed.
Lemma step_time s t : wf s -> 0 < t -> 0 <= snd (fst (step s t)) < t.
Proof. unfold wf, step. intros [H1 H2] Ht. destruct (t <? pl s) eqn:E; cbn; lia. Qed.

Lemma run_fuel : forall f1 f2 s t, wf s -> (Z.to_nat t < f1)%nat -> (Z.to_nat t < f2)%nat -> run f1 s t = run f2 s t.
Proof.
  induction f1 as [|f1 IH]; intros f2 s t W H1 H2; [lia|]. destruct f2 as [|f2]; [lia|]. cbn [run].
  destruct (t <=? 0) eqn:Et; [reflexivity|]. assert (Ht : 0 < t) by lia.
  pose proof (step_time s t W Ht) as T. pose proof (step_wf s t W Ht) as W'.
  destruct (step s t) as [[s' t'] e]. cbn in *. rewrite (IH f2 s' t'); auto; lia.
Qed.

Lemma age_age a b d : age b (age a d) = age (a + b) d.
Proof. destruct d as [[n dm] l]. cbn. f_equal. lia. Qed.
Lemma alive_age a b d : alive b (age a d) = alive (a + b) d.
Proof. destruct d as [[n dm] l]. cbn. f_equal. lia. Qed.
Lemma map_age_age a b l : map (age b) (map (age a) l) = map (age (a + b)) l.
Proof. rewrite map_map. apply map_ext. intros; apply age_age. Qed.
Lemma filter_alive_age a b l : filter (alive b) (map (age a) l) = map (age a) (filter (alive (a + b)) l).
Proof. induction l as [|d l IH]; cbn; [reflexivity|]. rewrite alive_age. destruct (alive (a + b) d); cbn; rewrite IH; reflexivity. Qed.

Definition shift (s : D) (a : Z) : D := mkD (map (age a) (cur s)) (pl s - a) (period s).

Lemma run_S f s t : 0 < t -> run (S f) s t = let '(s', t', e) := step s t in let '(s'', e') := run f s' t' in (s'', e ++ e').
Proof. intros H. cbn [run]. destruct (t <=? 0) eqn:E; [lia|reflexivity]. Qed.
Lemma run_0 f s : run f s 0 = (s, []). Proof. destruct f; reflexivity. Qed.

Lemma elapse_inside s a : wf s -> 0 < a -> a < pl s -> elapse s a = (shift s a, []).
Proof.
  intros [H1 H2] Ha Hl. unfold elapse, fuel_of. rewrite run_S by lia. unfold step.
  destruct (a <? pl s) eqn:E; [|lia]. rewrite run_0. reflexivity.
Qed.

(* a step on the shifted state with b = the step on the original with a + b *)
Lemma step_shift s a b : wf s -> 0 < a -> a < pl s -> 0 < b -> step (shift s a) b =
   let '(s', t', e) := step s (a + b) in (if a + b <? pl s then shift s (a + b) else s', t', e).
Proof.
  intros [H1 H2] Ha Hl Hb. unfold step, shift; cbn [cur pl period].
  destruct (b <? pl s - a) eqn:E1; destruct (a + b <? pl s) eqn:E2; try lia.
  - rewrite map_age_age. replace (pl s - a - b) with (pl s - (a + b)) by lia. reflexivity.
  - rewrite filter_alive_age, map_age_age. replace (a + (pl s - a)) with (pl s) by lia.
    replace (b - (pl s - a)) with (a + b - pl s) by lia. reflexivity.
Qed.

Theorem elapse_additive : forall s a b, wf s -> 0 <= a -> 0 <= b ->
  let '(s1, e1) := elapse s a in let '(s2, e2) := elapse s1 b in
  elapse s (a + b) = (s2, e1 ++ e2).
Proof.
  intros s a. revert s. remember (Z.to_nat a) as n eqn:En. revert a En.
  induction n as [n IH] using lt_wf_ind. intros a En s b W Ha Hb.
  destruct (Z.eq_dec a 0) as [->|Hne].
  { unfold elapse at 1. rewrite run_0. replace (0 + b) with b by lia. destruct (elapse s b). reflexivity. }
  assert (Ha' : 0 < a) by lia. pose proof W as [H1 H2].
  destruct (Z_lt_le_dec a (pl s)) as [Hin|Hout].
  - rewrite elapse_inside by auto.
    destruct (Z.eq_dec b 0) as [->|Hb0].
    { unfold elapse at 1. rewrite run_0. replace (a + 0) with a by lia. rewrite elapse_inside by auto. reflexivity. }
    assert (Hb' : 0 < b) by lia.
    unfold elapse, fuel_of. rewrite (run_S _ (shift s a) b) by lia. rewrite (run_S _ s (a + b)) by lia.
    rewrite (step_shift s a b W Ha' Hin Hb').
    unfold step. destruct (a + b <? pl s) eqn:E2.
    + rewrite !run_0. reflexivity.
    + set (s' := mkD _ _ _). assert (W' : wf s') by (unfold wf, s'; cbn; lia).
      rewrite (run_fuel (Z.to_nat b) (Z.to_nat (a + b)) s' (a + b - pl s)) by (auto; lia).
      destruct (run (Z.to_nat (a + b)) s' (a + b - pl s)). reflexivity.
  - (* first tick happens within a *)
    unfold elapse at 1. unfold fuel_of. rewrite run_S by lia.
    unfold elapse at 2. unfold fuel_of. rewrite (run_S _ s (a + b)) by lia.
    unfold step. destruct (a <? pl s) eqn:E1; [lia|]. destruct (a + b <? pl s) eqn:E2; [lia|].
    set (s' := mkD _ _ _). set (e0 := map name_dmg _). assert (W' : wf s') by (unfold wf, s'; cbn; lia).
    rewrite (run_fuel (Z.to_nat a) (fuel_of (a - pl s)) s' (a - pl s)) by (auto; unfold fuel_of; lia).
    rewrite (run_fuel (Z.to_nat (a + b)) (fuel_of (a - pl s + b)) s' (a + b - pl s)) by (auto; unfold fuel_of; lia).
    replace (a + b - pl s) with ((a - pl s) + b) by lia.
    pose proof (IH (Z.to_nat (a - pl s)) ltac:(lia) (a - pl s) eq_refl s' b W' ltac:(lia) Hb) as X.
    fold (elapse s' (a - pl s)). fold (elapse s' (a - pl s + b)).
    destruct (elapse s' (a - pl s)) as [s1 e1]. destruct (elapse s1 b) as [s2 e2].
    rewrite X. rewrite app_assoc. reflexivity.
Qed.
