(* C02 -- the obligations on the lists tools/tr_isolation.py generates from simaple's source
   (gen/Isolation.v), decided by vm_compute against the reviewed lists of Model/IsolationSpec.v and
   lifted to statements about every element.  A source change that adds an entropy source, a
   process-wide cache/singleton/mutable default, or changes what the spec repository hands out
   makes one of the `vm_compute; reflexivity` lines fail. *)
From Coq Require Import List String Bool.
From V.Model Require Import IsolationSpec.
From G Require Import Isolation.
Import ListNotations.
Open Scope string_scope.

Lemma imports_ok_true : forallb (fun mi => negb (entropy_import (snd mi))) iso_imports = true.
Proof. vm_compute. reflexivity. Qed.

Lemma uses_ok_true : forallb use_ok iso_uses = true.
Proof. vm_compute. reflexivity. Qed.

Lemma scope_ok_true : forallb (fun m => mem m iso_modules) required_modules = true.
Proof. vm_compute. reflexivity. Qed.

Lemma state_ok_true : states_eqb (nonbenign iso_state) reviewed_state = true.
Proof. vm_compute. reflexivity. Qed.

Lemma get_ok_true : forallb get_item_ok iso_repo_get && has_return iso_repo_get = true.
Proof. vm_compute. reflexivity. Qed.

Lemma get_all_ok_true : forallb get_all_item_ok iso_repo_get_all && has_return iso_repo_get_all = true.
Proof. vm_compute. reflexivity. Qed.

Lemma interpret_ok_true :
  forallb interpret_item_ok iso_interpret && interpret_copies_self_data iso_interpret && has_return iso_interpret = true.
Proof. vm_compute. reflexivity. Qed.

Lemma helpers_ok_true : forallb no_write iso_helpers = true.
Proof. vm_compute. reflexivity. Qed.

(* ------------------------------------------------------------------ lifted statements *)
Theorem no_entropy_imports :
  (forall m i, In (m, i) iso_imports -> entropy_import i = false) /\
  (forall m u, In (m, u) iso_uses -> use_ok (m, u) = true) /\
  (forall m, In m required_modules -> In m iso_modules).
Proof.
  split; [|split].
  - intros m i H. pose proof imports_ok_true as X. rewrite forallb_forall in X.
    specialize (X _ H). cbn in X. now apply negb_true_iff in X.
  - intros m u H. pose proof uses_ok_true as X. rewrite forallb_forall in X. exact (X _ H).
  - intros m H. pose proof scope_ok_true as X. rewrite forallb_forall in X. specialize (X _ H).
    unfold mem in X. apply existsb_exists in X. destruct X as [y [Hy E]].
    apply String.eqb_eq in E. now subst y.
Qed.

Lemma state_eqb_eq a b : state_eqb a b = true -> a = b.
Proof.
  destruct a as [[a1 a2] a3], b as [[b1 b2] b3]. unfold state_eqb. cbn.
  rewrite !andb_true_iff. intros [[E1 E2] E3].
  apply String.eqb_eq in E1, E2, E3. now subst.
Qed.

Lemma states_eqb_eq : forall a b, states_eqb a b = true -> a = b.
Proof.
  induction a as [|x a IH]; destruct b as [|y b]; cbn; try discriminate; [reflexivity|].
  rewrite andb_true_iff. intros [E1 E2]. apply state_eqb_eq in E1. apply IH in E2. now subst.
Qed.

Theorem process_wide_state_reviewed : nonbenign iso_state = reviewed_state.
Proof. apply states_eqb_eq, state_ok_true. Qed.

Corollary every_state_reviewed :
  forall e, In e iso_state -> mem (snd e) benign_kinds = true \/ In e reviewed_state.
Proof.
  intros e H. destruct (mem (snd e) benign_kinds) eqn:B; [now left|right].
  rewrite <- process_wide_state_reviewed. unfold nonbenign. apply filter_In. split; [exact H|now rewrite B].
Qed.

Theorem repository_hands_out_copies :
  (forall i, In i iso_repo_get -> get_item_ok i = true) /\
  (forall i, In i iso_repo_get_all -> get_all_item_ok i = true) /\
  (forall i, In i iso_interpret -> interpret_item_ok i = true) /\
  interpret_copies_self_data iso_interpret = true /\
  (forall i, In i iso_helpers -> no_write i = true) /\
  has_return iso_repo_get = true /\ has_return iso_repo_get_all = true /\ has_return iso_interpret = true.
Proof.
  pose proof get_ok_true as G. pose proof get_all_ok_true as GA. pose proof interpret_ok_true as IT.
  pose proof helpers_ok_true as Hh.
  apply andb_true_iff in G; destruct G as [G1 G2].
  apply andb_true_iff in GA; destruct GA as [GA1 GA2].
  apply andb_true_iff in IT; destruct IT as [IT1 I3]. apply andb_true_iff in IT1; destruct IT1 as [I1 I2].
  rewrite forallb_forall in G1, GA1, I1, Hh. repeat split; auto.
Qed.

(* non-vacuity: the generated lists are not empty and the blacklist does reject *)
Example isolation_lists_nonempty :
  Nat.leb 10 (List.length iso_modules) = true /\ Nat.leb 100 (List.length iso_imports) = true /\
  Nat.leb 20 (List.length iso_state) = true /\
  entropy_import "random" = true /\ entropy_import "time.time" = true /\ entropy_import "os.urandom" = true /\
  use_ok ("simaple.simulate.base", "builtin:hash") = false /\ use_ok ("simaple.spec.repository", "os.environ") = false /\
  get_item_ok ("return", "", "alias:spec") = false /\
  get_all_item_ok ("mutate", "fresh:specs.append", "alias:spec") = false /\
  interpret_item_ok ("bind", "data", "alias:self.data") = false /\
  interpret_item_ok ("mutate", "self.data.update", "literal") = false.
Proof. vm_compute. repeat split; reflexivity. Qed.

(* ------------------------------------------------------------------ directory order *)
Lemma enumerations_ok_true : pairs_eqb iso_unsorted_enumerations reviewed_unsorted_enumerations = true.
Proof. vm_compute. reflexivity. Qed.

Lemma pairs_eqb_eq : forall a b, pairs_eqb a b = true -> a = b.
Proof.
  induction a as [|[x1 x2] a IH]; destruct b as [|[y1 y2] b]; cbn; intros H; try discriminate; [reflexivity|].
  unfold pair_eqb in H. cbn in H. rewrite !andb_true_iff in H. destruct H as [[E1 E2] E3].
  apply String.eqb_eq in E1, E2. subst. f_equal. apply IH. exact E3.
Qed.

Theorem directory_order_not_observed : iso_unsorted_enumerations = reviewed_unsorted_enumerations.
Proof. apply pairs_eqb_eq. exact enumerations_ok_true. Qed.
