(* C09 for the modelled classes: elapsing a then b = elapsing a+b (same damage ticks as a
   multiset, same state up to the dead interval counter of an expired Periodic, hence the
   same views). *)
From Coq Require Import ZArith List Bool Lia Permutation.
From V.Model Require Import Comp.
From V.Proofs Require EPeriodicP EConsumableP EKeydownP.
Import ListNotations.
Open Scope Z_scope.

Module PP := EPeriodicP. Module CP := EConsumableP. Module KP := EKeydownP.
Arguments P.elapse : simpl never.
Arguments C.elapse : simpl never.
Arguments K.resolving : simpl never.
Arguments P.norm : simpl never.
Arguments ticks : simpl never.
Arguments P.enabled : simpl never.
Arguments K.running : simpl never.

(* ------------------------------------------------------------ Periodic *)
Lemma step_cnt s t : P.cnt s <= P.cnt (fst (P.step s t)).
Proof.
  unfold P.step. destruct (P.tl s <=? 0); cbn; [lia|].
  destruct (_ =? 0); cbn; [lia|]. destruct (_ =? 0); cbn; lia.
Qed.
Lemma run_cnt : forall f s t, P.cnt s <= P.cnt (P.run f s t).
Proof.
  induction f as [|f IH]; intros s t; cbn; [lia|].
  destruct (t <=? 0); [lia|]. pose proof (step_cnt s t) as X. destruct (P.step s t) as [s' t']. cbn in X.
  specialize (IH s' t'). lia.
Qed.
Lemma run_wf : forall f s t, P.wf s -> P.wf (P.run f s t).
Proof.
  induction f as [|f IH]; intros s t W; cbn; [exact W|].
  destruct (t <=? 0) eqn:E; [exact W|]. pose proof (PP.step_wf s t W ltac:(lia)) as X.
  destruct (P.step s t) as [s' t']. cbn in X. apply IH. exact X.
Qed.
Lemma elapse_wf s t : P.wf s -> P.wf (P.elapse s t).
Proof. apply run_wf. Qed.
Lemma elapse_cnt s t : P.cnt s <= P.cnt (P.elapse s t).
Proof. apply run_cnt. Qed.
Lemma elapse_dead s t : P.tl s <= 0 -> P.elapse s t = s.
Proof. intros. unfold P.elapse. apply PP.run_dead. exact H. Qed.

Lemma obs_eq_norm a b : P.obs_eq a b -> P.norm a = P.norm b.
Proof.
  unfold P.obs_eq, P.obs, P.norm. intros [H I]. injection H as H1 H2 H3. rewrite H3, H1, H2, I. reflexivity.
Qed.

Record pchunk (q q1 q2 q3 : P.P) : Prop := {
  pc_norm : P.norm q2 = P.norm q3;
  pc_ticks : (ticks q q1 + ticks q1 q2 = ticks q q3)%nat;
  pc_wf1 : P.wf q1;
  pc_tl : P.tl q2 = P.tl q3
}.
Lemma periodic_chunk q a b : P.wf q -> 0 <= a -> 0 <= b ->
  pchunk q (P.elapse q a) (P.elapse (P.elapse q a) b) (P.elapse q (a + b)).
Proof.
  intros W Ha Hb. pose proof (PP.elapse_additive q a b W Ha Hb) as E.
  pose proof (elapse_cnt q a). pose proof (elapse_cnt (P.elapse q a) b).
  split.
  - apply obs_eq_norm. exact E.
  - destruct E as [E _]. unfold P.obs in E. injection E as _ E _. unfold ticks. rewrite <- E. lia.
  - apply elapse_wf. exact W.
  - destruct E as [E _]. unfold P.obs in E. injection E as E _ _. exact E.
Qed.

(* ------------------------------------------------------------ whole states *)
Definition unorm (s : ust) : ust :=
  set_p3 (set_p2 (set_p1 s (P.norm (u_p1 s))) (P.norm (u_p2 s))) (P.norm (u_p3 s)).
Definition dealts (es : list ev) : list ev := filter is_dealt es.

Definition wf_ust (s : ust) : Prop :=
  P.wf (u_p1 s) /\ P.wf (u_p2 s) /\ P.wf (u_p3 s) /\ C.wf (u_cons s) /\ K.wf (u_kd s).

Lemma dealts_app a b : dealts (a ++ b) = dealts a ++ dealts b.
Proof. apply filter_app. Qed.
Lemma dealts_repeat x n : dealts (repeat (dealt x) n) = repeat (dealt x) n.
Proof. induction n; cbn; [reflexivity|]. f_equal. exact IHn. Qed.
Lemma repeat_add {A} (x : A) n m : repeat x n ++ repeat x m = repeat x (n + m).
Proof. symmetry. apply repeat_app. Qed.

Ltac usimpl := cbn [u_cd u_cd2 u_ltl u_lad u_cons u_p1 u_p2 u_p3 u_ic1 u_ic2 u_ic3 u_kd u_stk
                     set_cd set_cd2 set_las set_cons set_p1 set_p2 set_p3 set_kd set_stk fst snd unorm].
Lemma ust_ext (x y : ust) :
  u_cd x = u_cd y -> u_cd2 x = u_cd2 y -> u_ltl x = u_ltl y -> u_lad x = u_lad y -> u_cons x = u_cons y ->
  u_p1 x = u_p1 y -> u_p2 x = u_p2 y -> u_p3 x = u_p3 y -> u_ic1 x = u_ic1 y -> u_ic2 x = u_ic2 y ->
  u_ic3 x = u_ic3 y -> u_kd x = u_kd y -> u_stk x = u_stk y -> x = y.
Proof. destruct x, y; cbn; intros; subst; reflexivity. Qed.
Ltac ust_eq := apply ust_ext; usimpl; try reflexivity; try lia; try congruence.

(* classes whose elapse only moves linear timers *)
Definition linear_kind (c : comp) : bool :=
  match c with
  | AttackSkill | BuffSkill | DOTEmittingAttackSkill | MultipleAttackSkill | MultipleHitHexa
  | StackableBuff | Synergy | TemporalEnhancing | TriggableBuff => true
  | _ => false end.

Lemma chunk_linear c p a b s s1 e1 s2 e2 s3 e3 :
  linear_kind c = true ->
  reduce_spec c MElapse p a s = Some (s1, e1) -> reduce_spec c MElapse p b s1 = Some (s2, e2) ->
  reduce_spec c MElapse p (a + b) s = Some (s3, e3) ->
  s2 = s3 /\ dealts (e1 ++ e2) = dealts e3.
Proof.
  intros L H1 H2 H3. destruct c; try discriminate; cbn in H1, H2, H3;
    unfold elapse_simple_attack, elapse_buff_trait in *;
    injection H1 as <- <-; injection H2 as <- <-; injection H3 as <- <-; (split; [ust_eq | reflexivity]).
Qed.

Lemma chunk_consumable p a b s s1 e1 s2 e2 s3 e3 :
  wf_ust s -> 0 <= a -> 0 <= b ->
  reduce_spec ConsumableBuffSkill MElapse p a s = Some (s1, e1) ->
  reduce_spec ConsumableBuffSkill MElapse p b s1 = Some (s2, e2) ->
  reduce_spec ConsumableBuffSkill MElapse p (a + b) s = Some (s3, e3) ->
  s2 = s3 /\ dealts (e1 ++ e2) = dealts e3.
Proof.
  intros (_ & _ & _ & W & _) Ha Hb H1 H2 H3. cbn in H1, H2, H3. unfold elapse_consumable_buff_trait in *.
  injection H1 as <- <-; injection H2 as <- <-; injection H3 as <- <-. split; [|reflexivity].
  cbn. rewrite (CP.elapse_additive _ a b W Ha Hb). ust_eq.
Qed.

Lemma chunk_periodic c p a b s s1 e1 s2 e2 s3 e3 :
  (c = PeriodicAttack \/ c = PeriodicHexa) -> wf_ust s -> 0 <= a -> 0 <= b ->
  reduce_spec c MElapse p a s = Some (s1, e1) -> reduce_spec c MElapse p b s1 = Some (s2, e2) ->
  reduce_spec c MElapse p (a + b) s = Some (s3, e3) ->
  unorm s2 = unorm s3 /\ dealts (e1 ++ e2) = dealts e3.
Proof.
  intros Hc (W & _) Ha Hb H1 H2 H3.
  assert (X : elapse_periodic_with P.elapse p a s = (s1, e1) /\ elapse_periodic_with P.elapse p b s1 = (s2, e2)
              /\ elapse_periodic_with P.elapse p (a + b) s = (s3, e3)).
  { destruct Hc as [-> | ->]; cbn in H1, H2, H3; repeat split; congruence. }
  clear H1 H2 H3. destruct X as (H1 & H2 & H3). unfold elapse_periodic_with in *.
  injection H1 as <- <-; injection H2 as <- <-; injection H3 as <- <-. usimpl.
  destruct (periodic_chunk (u_p1 s) a b W Ha Hb) as [N T _ _]. split.
  - apply ust_ext; usimpl; rewrite ?N; try reflexivity; lia.
  - change (EElapsed ?t :: ?l) with ([EElapsed t] ++ l). rewrite !dealts_app, !dealts_repeat. cbn [dealts filter is_dealt app].
    rewrite repeat_add, T. reflexivity.
Qed.

Lemma enabled_false q : P.enabled q = false -> P.tl q <= 0.
Proof. unfold P.enabled. intros H. apply Z.ltb_ge in H. exact H. Qed.

Lemma chunk_finish p a b s s1 e1 s2 e2 s3 e3 :
  wf_ust s -> 0 <= a -> 0 <= b ->
  reduce_spec PeriodicWithFinish MElapse p a s = Some (s1, e1) ->
  reduce_spec PeriodicWithFinish MElapse p b s1 = Some (s2, e2) ->
  reduce_spec PeriodicWithFinish MElapse p (a + b) s = Some (s3, e3) ->
  unorm s2 = unorm s3 /\ dealts (e1 ++ e2) = dealts e3.
Proof.
  intros (W & _) Ha Hb H1 H2 H3. cbn in H1, H2, H3. unfold elapse_periodic_with in *. cbn [fst snd u_p1 set_p1] in *.
  destruct (periodic_chunk (u_p1 s) a b W Ha Hb) as [N T W1 TL].
  set (q := u_p1 s) in *. set (q1 := P.elapse q a) in *. set (q3 := P.elapse q (a + b)) in *.
  assert (S1 : u_p1 s1 = q1 /\ u_cd s1 = u_cd s - a).
  { destruct (P.enabled q && negb (P.enabled q1)); injection H1 as <- _; cbn; auto. }
  destruct S1 as [S1 S1c]. rewrite S1 in H2. set (q2 := P.elapse q1 b) in *.
  assert (E23 : P.enabled q2 = P.enabled q3) by (unfold P.enabled; rewrite TL; reflexivity).
  (* states *)
  assert (ST : unorm s2 = unorm s3).
  { destruct (P.enabled q && negb (P.enabled q1)); destruct (P.enabled q1 && negb (P.enabled q2));
      destruct (P.enabled q && negb (P.enabled q3));
      injection H1 as <- _; injection H2 as <- _; injection H3 as <- _; apply ust_ext; usimpl; fold q q1 q2 q3; rewrite ?N; try reflexivity; lia. }
  split; [exact ST|].
  (* events: exactly one finish overall, and no tick after the end *)
  destruct (P.enabled q) eqn:Eq.
  - destruct (P.enabled q1) eqn:Eq1; cbn [andb negb] in *.
    + injection H1 as _ <-. rewrite <- E23 in H3.
      destruct (P.enabled q2); cbn [negb] in *; injection H2 as _ <-; injection H3 as _ <-;
        cbn; rewrite !dealts_app, !dealts_repeat; cbn; rewrite ?dealts_app, !dealts_repeat; cbn;
        rewrite ?app_nil_r, ?app_assoc, repeat_add, T; reflexivity.
    + (* ended in the first chunk: the second chunk is dead *)
      pose proof (enabled_false _ Eq1) as D. assert (Q2 : q2 = q1) by (apply elapse_dead; exact D).
      assert (T2 : ticks q1 q2 = 0%nat) by (rewrite Q2; unfold ticks; lia).
      rewrite <- E23, Q2, Eq1 in H3. cbn in H3.
      injection H1 as _ <-; injection H2 as _ <-; injection H3 as _ <-.
      cbn. rewrite !dealts_app, !dealts_repeat. cbn. rewrite dealts_repeat. rewrite <- T, T2, Nat.add_0_r. cbn.
      rewrite app_nil_r. reflexivity.
  - (* never running *)
    pose proof (enabled_false _ Eq) as D. assert (Q1 : q1 = q) by (apply elapse_dead; exact D).
    assert (Q2 : q2 = q) by (unfold q2; rewrite Q1; apply elapse_dead; exact D).
    assert (Q3 : q3 = q) by (apply elapse_dead; exact D).
    rewrite Q1, ?Eq in *. cbn [andb] in *. rewrite Q3 in H3.
    injection H1 as _ <-; injection H2 as _ <-; injection H3 as _ <-.
    fold q2. rewrite Q2. unfold ticks. rewrite Z.sub_diag. reflexivity.
Qed.

Lemma perm_triple {A} (a1 b1 c1 a2 b2 c2 : list A) :
  Permutation ((a1 ++ b1 ++ c1) ++ (a2 ++ b2 ++ c2)) ((a1 ++ a2) ++ (b1 ++ b2) ++ (c1 ++ c2)).
Proof.
  rewrite <- !app_assoc. apply Permutation_app_head.
  transitivity (b1 ++ a2 ++ c1 ++ b2 ++ c2).
  { apply Permutation_app_head. apply Permutation_app_swap_app. }
  transitivity (a2 ++ b1 ++ c1 ++ b2 ++ c2).
  { apply Permutation_app_swap_app. }
  apply Permutation_app_head. apply Permutation_app_head. apply Permutation_app_swap_app.
Qed.

Lemma chunk_triple p a b s s1 e1 s2 e2 s3 e3 :
  wf_ust s -> 0 <= a -> 0 <= b ->
  reduce_spec TriplePeriodic MElapse p a s = Some (s1, e1) ->
  reduce_spec TriplePeriodic MElapse p b s1 = Some (s2, e2) ->
  reduce_spec TriplePeriodic MElapse p (a + b) s = Some (s3, e3) ->
  unorm s2 = unorm s3 /\ Permutation (dealts (e1 ++ e2)) (dealts e3).
Proof.
  intros (W1 & W2 & W3 & _) Ha Hb H1 H2 H3. cbn in H1, H2, H3. unfold triple_elapse in *.
  injection H1 as <- <-; injection H2 as <- <-; injection H3 as <- <-. cbn.
  destruct (periodic_chunk (u_p1 s) a b W1 Ha Hb) as [N1 T1 _ _].
  destruct (periodic_chunk (u_p2 s) a b W2 Ha Hb) as [N2 T2 _ _].
  destruct (periodic_chunk (u_p3 s) a b W3 Ha Hb) as [N3 T3 _ _]. split.
  - apply ust_ext; usimpl; rewrite ?N1, ?N2, ?N3; try reflexivity; lia.
  - cbn. rewrite !dealts_app, !dealts_repeat. cbn. rewrite !dealts_app, !dealts_repeat.
    rewrite <- T1, <- T2, <- T3, <- !repeat_add. apply perm_triple.
Qed.

Lemma dealts_kd d n (e : bool) fin x y :
  dealts ((repeat (dealt d) n ++ (if e then [dealt fin] else [])) ++ EDelay x :: EElapsed y :: (if e then [EKeydownEnd] else []))
  = repeat (dealt d) n ++ (if e then [dealt fin] else []).
Proof. destruct e; rewrite !dealts_app, dealts_repeat; cbn; rewrite ?app_nil_r; reflexivity. Qed.

Lemma chunk_keydown p a b s s1 e1 s2 e2 s3 e3 :
  wf_ust s -> 0 <= a -> 0 <= b ->
  reduce_spec KeydownSkill MElapse p a s = Some (s1, e1) ->
  reduce_spec KeydownSkill MElapse p b s1 = Some (s2, e2) ->
  reduce_spec KeydownSkill MElapse p (a + b) s = Some (s3, e3) ->
  s2 = s3 /\ Permutation (dealts (e1 ++ e2)) (dealts e3).
Proof.
  intros (_ & _ & _ & _ & W) Ha Hb H1 H2 H3. cbn in H1, H2, H3. unfold elapse_keydown_trait in *.
  pose proof (KP.resolving_additive (u_kd s) a b W Ha Hb) as ADD.
  pose proof (KP.resolving_spec (u_kd s) a W Ha) as SP1.
  pose proof (KP.resolving_wf (u_kd s) a W Ha) as W1.
  destruct (K.resolving (u_kd s) a) as [k1 n1]. cbn [fst] in W1.
  injection H1 as <- <-. cbn [u_kd set_kd set_cd u_cd] in H2.
  pose proof (KP.resolving_spec k1 b W1 Hb) as SP2.
  destruct (K.resolving k1 b) as [k2 n2]. rewrite ADD in H3. clear ADD.
  injection H2 as <- <-; injection H3 as <- <-.
  destruct SP1 as [[N1 _] K1]. destruct SP2 as [[N2 _] K2].
  split; [ust_eq|].
  assert (R1 : K.running k1 = (0 <? K.tl (u_kd s) - a)) by (rewrite K1; reflexivity).
  assert (R2 : K.running k2 = (0 <? K.tl (u_kd s) - a - b)) by (rewrite K2, K1; reflexivity).
  assert (R0 : K.running (u_kd s) = (0 <? K.tl (u_kd s))) by reflexivity.
  rewrite dealts_app, !dealts_kd.
  rewrite Z2Nat.inj_add by lia. rewrite <- repeat_add.
  rewrite R0, R1, R2.
  destruct (0 <? K.tl (u_kd s)) eqn:E0; destruct (0 <? K.tl (u_kd s) - a) eqn:E1; destruct (0 <? K.tl (u_kd s) - a - b) eqn:E2;
    cbn [andb negb];
    try (apply Z.ltb_lt in E0); try (apply Z.ltb_ge in E0); try (apply Z.ltb_lt in E1); try (apply Z.ltb_ge in E1);
    try (apply Z.ltb_lt in E2); try (apply Z.ltb_ge in E2); try lia;
    rewrite ?app_nil_r, <- ?app_assoc; try reflexivity.
  (* ended in the first chunk: the finish event sits between the two tick runs *)
  apply Permutation_app_head. apply Permutation_app_comm.
Qed.

(* ------------------------------------------------------------ summary *)
Definition chunk_proved (c : comp) : bool :=
  match c with HitLimitedPeriodic => false | _ => true end.

Theorem elapse_chunk c p a b s s1 e1 s2 e2 s3 e3 :
  chunk_proved c = true -> wf_ust s -> 0 <= a -> 0 <= b ->
  reduce_spec c MElapse p a s = Some (s1, e1) -> reduce_spec c MElapse p b s1 = Some (s2, e2) ->
  reduce_spec c MElapse p (a + b) s = Some (s3, e3) ->
  unorm s2 = unorm s3 /\ Permutation (dealts (e1 ++ e2)) (dealts e3).
Proof.
  intros C W Ha Hb H1 H2 H3.
  destruct (linear_kind c) eqn:L.
  { destruct (chunk_linear c p a b s s1 e1 s2 e2 s3 e3 L H1 H2 H3) as [-> ->]. split; reflexivity. }
  destruct c; try discriminate.
  - destruct (chunk_consumable p a b s s1 e1 s2 e2 s3 e3 W Ha Hb H1 H2 H3) as [-> ->]. split; reflexivity.
  - destruct (chunk_keydown p a b s s1 e1 s2 e2 s3 e3 W Ha Hb H1 H2 H3) as [-> X]. split; [reflexivity|exact X].
  - destruct (chunk_periodic PeriodicAttack p a b s s1 e1 s2 e2 s3 e3 (or_introl eq_refl) W Ha Hb H1 H2 H3) as [X ->]. split; [exact X|reflexivity].
  - destruct (chunk_periodic PeriodicHexa p a b s s1 e1 s2 e2 s3 e3 (or_intror eq_refl) W Ha Hb H1 H2 H3) as [X ->]. split; [exact X|reflexivity].
  - destruct (chunk_finish p a b s s1 e1 s2 e2 s3 e3 W Ha Hb H1 H2 H3) as [X ->]. split; [exact X|reflexivity].
  - apply (chunk_triple p a b s s1 e1 s2 e2 s3 e3 W Ha Hb H1 H2 H3).
Qed.

(* views only read the normalised state *)
Lemma views_unorm c p s :
  view_validity c p (unorm s) = view_validity c p s /\ view_running c p (unorm s) = view_running c p s /\
  view_buff c (unorm s) = view_buff c s /\ view_keydown c (unorm s) = view_keydown c s.
Proof. destruct c; repeat split. Qed.

Corollary elapse_chunk_views c p a b s s1 e1 s2 e2 s3 e3 :
  chunk_proved c = true -> wf_ust s -> 0 <= a -> 0 <= b ->
  reduce_spec c MElapse p a s = Some (s1, e1) -> reduce_spec c MElapse p b s1 = Some (s2, e2) ->
  reduce_spec c MElapse p (a + b) s = Some (s3, e3) ->
  view_validity c p s2 = view_validity c p s3 /\ view_running c p s2 = view_running c p s3 /\
  view_buff c s2 = view_buff c s3 /\ view_keydown c s2 = view_keydown c s3.
Proof.
  intros C W Ha Hb H1 H2 H3. destruct (elapse_chunk c p a b s s1 e1 s2 e2 s3 e3 C W Ha Hb H1 H2 H3) as [U _].
  destruct (views_unorm c p s2) as (A1 & A2 & A3 & A4). destruct (views_unorm c p s3) as (B1 & B2 & B3 & B4).
  rewrite <- A1, <- A2, <- A3, <- A4, <- B1, <- B2, <- B3, <- B4, U. repeat split.
Qed.

(* every elapsed notification carries the time of the elapse (C06 component clause) *)
Definition elapsed_times (es : list ev) : list Z :=
  flat_map (fun e => match e with EElapsed t => [t] | _ => [] end) es.
Lemma elapsed_times_app a b : elapsed_times (a ++ b) = elapsed_times a ++ elapsed_times b.
Proof. unfold elapsed_times. apply flat_map_app. Qed.
Lemma elapsed_times_repeat x n : elapsed_times (repeat (dealt x) n) = [].
Proof. induction n; cbn; auto. Qed.
Lemma elapsed_carries_time c p t s s' es :
  chunk_proved c = true -> reduce_spec c MElapse p t s = Some (s', es) -> elapsed_times es = [t].
Proof.
  intros Cp H. destruct c; try discriminate; cbn in H;
    unfold elapse_simple_attack, elapse_buff_trait, elapse_consumable_buff_trait, elapse_periodic_with, triple_elapse in H;
    try (injection H as <- <-; cbn; rewrite ?elapsed_times_app, ?elapsed_times_repeat; cbn;
         rewrite ?elapsed_times_app, ?elapsed_times_repeat; reflexivity).
  - (* keydown *)
    unfold elapse_keydown_trait in H. destruct (K.resolving (u_kd s) t) as [k n]. injection H as <- <-.
    destruct (K.running (u_kd s) && negb (K.running k)); cbn;
      rewrite !elapsed_times_app, elapsed_times_repeat; reflexivity.
  - (* periodic with finish *)
    destruct (P.enabled (u_p1 s) && negb _); injection H as <- <-; cbn;
      rewrite ?elapsed_times_app, ?elapsed_times_repeat; reflexivity.
Qed.

(* wf is an invariant of every reducer (so the chunk theorem applies in every reachable state) *)
Definition wf_par (p : par) (s : ust) : Prop :=
  0 <= p_prep p /\ (forall c, u_ic1 s = Some c -> 0 < c) /\ (forall c, u_ic2 s = Some c -> 0 < c) /\ (forall c, u_ic3 s = Some c -> 0 < c).

Lemma set_time_left_wf q ic t : P.wf q -> (forall c, ic = Some c -> 0 < c) -> P.wf (P.set_time_left q ic t).
Proof. unfold P.wf, P.set_time_left. intros [A B] I. cbn. split; [exact A|]. destruct ic; [apply I; reflexivity|exact A]. Qed.

Lemma wf_ust_intro s' : P.wf (u_p1 s') -> P.wf (u_p2 s') -> P.wf (u_p3 s') -> C.wf (u_cons s') -> K.wf (u_kd s') -> wf_ust s'.
Proof. unfold wf_ust. auto. Qed.

Lemma wf_preserved c m p t s s' es :
  chunk_proved c = true -> wf_ust s -> wf_par p s -> 0 <= t ->
  reduce_spec c m p t s = Some (s', es) -> wf_ust s' /\ u_ic1 s' = u_ic1 s /\ u_ic2 s' = u_ic2 s /\ u_ic3 s' = u_ic3 s.
Proof.
  intros Cp (W1 & W2 & W3 & WC & WK) (Hprep & I1 & I2 & I3) Ht H.
  destruct c, m; try discriminate; cbn in H;
    unfold use_simple_attack, elapse_simple_attack, use_multiple_damage, use_buff_trait, elapse_buff_trait,
      use_consumable_buff_trait, elapse_consumable_buff_trait, elapse_periodic_with, use_periodic_with_simple,
      use_periodic, use_keydown_trait, stop_keydown_trait, ignore_rejected, triple_elapse in H;
    try (unfold elapse_keydown_trait in H; pose proof (KP.resolving_wf (u_kd s) t WK Ht) as X;
         destruct (K.resolving (u_kd s) t) as [k n]; cbn [fst] in X);
    repeat match type of H with context [if ?b then _ else _] => destruct b eqn:? end;
    cbn [fst snd] in H; injection H as <- <-;
    (split; [apply wf_ust_intro | repeat split]); usimpl; try reflexivity; try assumption;
    try (apply elapse_wf; assumption); try (apply set_time_left_wf; assumption);
    try (destruct (u_ltl s <=? 0); usimpl; assumption).
  - (* consumable use *)
    destruct WC as (A & B & C0 & D). unfold C.available, C.wf, C.consume in *. cbn.
    apply Bool.negb_false_iff, Z.ltb_lt in Heqb. lia.
  - apply (CP.elapse_abs _ t WC Ht).
  - unfold K.start, K.wf in *. cbn. lia.
  - destruct WK as [A B]. unfold K.stop, K.running, K.wf in *. cbn. apply Bool.negb_false_iff, Z.ltb_lt in Heqb. split; [exact A|]. intros; lia.
Qed.
