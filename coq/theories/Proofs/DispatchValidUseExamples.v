(* The witness for C10 at engine level (known finding C10-validity-ignores-pending-callbacks), by vm_compute.
   Three components over integer entities, installed as kms.get_builder does (then the timer):
     gauge  own entity `amount` (default 1); listens "A.use.emitted.global.delay" -> take: amount := max 0 (amount - 1)
     A      `use` always succeeds and announces a delay (event tagged global.delay)
     B      binds gauge -> ".gauge.amount"; validity view: gauge > 0; `use`: gauge > 0 -> consume one, deal damage;
            else REJECT with the state untouched.   B satisfies the component-level law valid -> use not rejected.
   History: play A.use (its delay event's callbacks are now pending); the viewer shows amount = 1, B valid;
   play B.use first relays A.use.emitted.global.delay to gauge.take (amount := 0), then B.use is rejected. *)
From Coq Require Import List Bool Arith String Ascii ZArith Lia.
From V.Model Require Import Router Play Dispatch DispatchViews.
From V.Proofs Require Import RouterCache DispatchStore DispatchRouter DispatchPlay DispatchExamples DispatchViews DispatchValidUse.
Import ListNotations.
Local Open Scope string_scope.
Local Open Scope Z_scope.

Definition g_take : reducer Ent Pay := fun _ fs => Some (dset fs "amount" (Z.max 0 (fget fs "amount" - 1)), RNone).
Definition w_gauge : component Ent Pay :=
  {| c_name := "gauge";
     c_maps := [("gauge.take", mp "take" g_take); ("*.take", mp "take" g_take); ("A.use.emitted.global.delay", mp "take" g_take)];
     c_default := [("amount", 1)]; c_binds := []; c_addons := [] |}.
Definition a_use : reducer Ent Pay := fun _ fs => Some (fs, RList [mkev "A" (Some "global.delay") 3]).
Definition w_A : component Ent Pay :=
  {| c_name := "A"; c_maps := [("A.use", mp "use" a_use); ("*.use", mp "use" a_use)]; c_default := []; c_binds := []; c_addons := [] |}.
Definition b_use : reducer Ent Pay := fun _ fs =>
  if 0 <? fget fs "gauge" then Some (dset fs "gauge" (fget fs "gauge" - 1), RList [mkev "B" (Some "global.damage") 10])
  else Some (fs, RList [mkev "B" (Some REJECT) 0]).
Definition w_B : component Ent Pay :=
  {| c_name := "B"; c_maps := [("B.use", mp "use" b_use)]; c_default := []; c_binds := [("gauge", ".gauge.amount")]; c_addons := [] |}.
Definition v_B : fields Ent -> bool := fun fs => 0 <? fget fs "gauge".

Definition w_cs := [w_gauge; w_A; w_B].
Definition w_sys := shipped_system Ent Pay w_cs.
Definition w_ds := installed Ent Pay 0 0 xspent w_sys.
Notation wpstore := (Play.store (pst Ent Pay) Pay string string (option string)).
Definition w_ps0 : wpstore :=
  {| ent := {| p_cache := []; p_store := initial_store Ent Pay 100 0 w_cs; p_trace := []; p_ok := true |}; cbs := [] |}.
Definition w_play := pplay Ent Pay 0 (fun t => t) 5 w_ds.
Definition w_ps1 : wpstore := fst (fst (w_play w_ps0 (PA "A" "use" (PNone Pay)))).
Definition own_reject (who : string) (E : list (Play.event Pay string string (option string))) : bool :=
  existsb (fun e => String.eqb (ename _ _ _ _ e) who &&
                    match etag _ _ _ _ e with Some t => String.eqb t REJECT | None => false end) E.
Definition own_accept (who : string) (E : list (Play.event Pay string string (option string))) : bool :=
  existsb (fun e => String.eqb (ename _ _ _ _ e) who &&
                    match etag _ _ _ _ e with Some t => String.eqb t ACCEPT | None => false end) E.

(* B is a GOOD component: valid -> its use, on the same state, is not rejected (and it is total) *)
Lemma w_B_law : valid_accepts Ent Pay v_B b_use /\ forall p fs, exists out me, b_use p fs = Some (out, me).
Proof.
  split.
  - intros p fs V out me H. unfold b_use in H. unfold v_B in V. rewrite V in H. inversion H. reflexivity.
  - intros p fs. unfold b_use. destruct (0 <? fget fs "gauge"); eauto.
Qed.

(* C10 at engine level is FALSE of the composition: advertised valid on the current store, rejected by the play *)
Theorem engine_valid_accepts_refuted :
  exists (cs : list (component Ent Pay)) (B : component Ent Pay) (vB : fields Ent -> bool) (redB : reducer Ent Pay) (ps : wpstore),
    let ds := installed Ent Pay 0 0 xspent (shipped_system Ent Pay cs) in
    let st := p_store (ent _ _ _ _ _ ps) in
    In B cs /\ dget (c_maps B) "B.use" = Some {| m_method := Some "use"; m_red := Some redB |} /\
    (* the component-level law holds for B, and B's use never raises *)
    valid_accepts Ent Pay vB redB /\ (forall p fs, exists out me, redB p fs = Some (out, me)) /\
    (* a well-formed system and a reachable engine state (route cache coherent, nothing raised) *)
    binds_closed Ent Pay cs = true /\ names_distinct Ent Pay cs = true /\
    reachable Ent Pay 0 0 xspent 0 (fun t => t) (shipped_system Ent Pay cs) 5 (initial_store Ent Pay 100 0 cs) ps /\
    wf Ent Pay 0 0 xspent (shipped_system Ent Pay cs) (ent _ _ _ _ _ ps) /\ p_ok (ent _ _ _ _ _ ps) = true /\
    (* the validity view of B, evaluated on the current store, says usable ... *)
    view_call Ent Pay bool B vB st = Some (st, true) /\
    (* ... and play (store, B.use) answers with B's rejection (and no acknowledgement) *)
    let '(ps', E, _) := pplay Ent Pay 0 (fun t => t) 5 ds ps (PA "B" "use" (PNone Pay)) in
    p_ok (ent _ _ _ _ _ ps') = true /\ own_reject "B" E = true /\ own_accept "B" E = false.
Proof.
  exists w_cs, w_B, v_B, b_use, w_ps1. cbn zeta.
  split; [right; right; left; reflexivity|]. split; [reflexivity|].
  split; [apply w_B_law|]. split; [apply w_B_law|].
  split; [vm_compute; reflexivity|]. split; [vm_compute; reflexivity|].
  split; [unfold w_ps1, w_play; apply reach_play; apply reach_init; reflexivity|].
  split.
  { unfold w_ps1, w_play. apply pplay_wf. unfold DispatchPlay.wf. cbn. apply coh_nil. }
  split; [vm_compute; reflexivity|]. split; [vm_compute; reflexivity|].
  vm_compute. repeat split; reflexivity.
Qed.

(* the pending relay is exactly what breaks it: the SAME store with no pending callbacks accepts the use *)
Definition w_ps1_flushed : wpstore := {| ent := ent _ _ _ _ _ w_ps1; cbs := [] |}.
Theorem engine_refuted_needs_pending :
  p_store (ent _ _ _ _ _ w_ps1_flushed) = p_store (ent _ _ _ _ _ w_ps1) /\
  cbs _ _ _ _ _ w_ps1 <> [] /\
  view_call Ent Pay bool w_B v_B (p_store (ent _ _ _ _ _ w_ps1_flushed)) = Some (p_store (ent _ _ _ _ _ w_ps1_flushed), true) /\
  let '(ps', E, _) := w_play w_ps1_flushed (PA "B" "use" (PNone Pay)) in
  p_ok (ent _ _ _ _ _ ps') = true /\ own_reject "B" E = false /\ own_accept "B" E = true.
Proof. vm_compute. repeat split; try reflexivity. discriminate. Qed.

(* the finding's criterion: one `*.elapse` of payload 0 relays the pending callbacks; afterwards B is no longer advertised *)
Theorem engine_refuted_flush_by_elapse0 :
  let '(ps2, _, q) := w_play w_ps1 (PA "*" "elapse" (PTime Pay 0)) in
  List.length q = 5%nat /\ p_ok (ent _ _ _ _ _ ps2) = true /\
  view_call Ent Pay bool w_B v_B (p_store (ent _ _ _ _ _ ps2)) = Some (p_store (ent _ _ _ _ _ ps2), false).
Proof. vm_compute. repeat split; reflexivity. Qed.

(* which hypothesis of the partial theorem fails in the witness: a pending emitted callback can write B's bound address *)
Example witness_violates_hypothesis_1 :
  existsb (String.eqb ".gauge.amount") (bound_addrs Ent Pay w_B) = true /\
  existsb (String.eqb ".gauge.amount")
          (flat_map (fun q => touched Ent Pay 5 w_sys (sig_of (act_of Pay 0 (fun t => t) q)))
                    (emitted_of Pay (cbs _ _ _ _ _ w_ps1))) = true /\
  touched_part Ent Pay 4 w_sys [IComp w_gauge; IComp w_A] "B.use" = [].
Proof. vm_compute. repeat split; reflexivity. Qed.

(* the hypotheses of the partial theorem are satisfiable: it applies to the witness store once nothing is pending *)
Example partial_applies_to_flushed_witness :
  let '(ps1, E, _) := pplay Ent Pay 0 (fun t => t) 5
                        (installed Ent Pay 0 0 xspent ([IComp w_gauge; IComp w_A] ++ IComp w_B :: [ITimer]))
                        w_ps1_flushed (PA "B" "use" (PNone Pay)) in
  p_ok (ent _ _ _ _ _ ps1) = true ->
  exists own before after,
    E = (before ++ map (pev_of Pay) own ++ after)%list /\
    (exists fs out me, get_state Ent Pay w_B (p_store (ent _ _ _ _ _ w_ps1_flushed)) = Some (p_store (ent _ _ _ _ _ w_ps1_flushed), fs) /\
                       b_use (a_pay (act_of Pay 0 (fun t => t) (PA "B" "use" (PNone Pay)))) fs = Some (out, me) /\
                       own = tag_events Pay 0 (c_name w_B) "use" (regularize Pay me)) /\
    existsb (raw_reject Pay) own = false.
Proof.
  apply (valid_use_accepted_without_pending Ent Pay 0 0 xspent 0 (fun t => t) [IComp w_gauge; IComp w_A] [ITimer] w_B 4
           w_ps1_flushed (PA "B" "use" (PNone Pay)) "B.use" "use" b_use v_B).
  - reflexivity.
  - unfold w_ps1_flushed. cbn [ent]. unfold w_ps1, w_play. apply (pplay_wf Ent Pay 0 0 xspent 0 (fun t => t) w_sys).
    unfold DispatchPlay.wf. cbn. apply coh_nil.
  - vm_compute. reflexivity.
  - vm_compute. reflexivity.
  - discriminate.
  - intros x I. vm_compute in I. unfold present. destruct I as [E|[E|[]]]; subst x; vm_compute; discriminate.
  - intros x _. vm_compute. intros [].
  - apply w_B_law.
  - vm_compute. reflexivity.
Qed.
