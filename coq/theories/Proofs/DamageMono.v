(* C12: the damage factor of each generated damage logic is monotone in every stat field
   (on non-negative blocks, non-negative armour, where the armour term is non-negative)
   and the calculated damage is linear in skill damage% and hit count. *)
From Coq Require Import QArith Qround Qminmax ZArith List Lqa String.
From V.Lib Require Import PyNum.
From G Require Import CoreQ.
Import ListNotations.
Open Scope Q_scope.

Definition Stat_nonneg (s : Stat) : Prop := Forall (fun f => 0 <= f s) Stat_fields.
Definition Stat_le (s s' : Stat) : Prop := Forall (fun f => f s <= f s') Stat_fields.

Lemma prod_mono a a' b b' : 0 <= a -> a <= a' -> 0 <= b -> b <= b' -> 0 <= a * b /\ a * b <= a' * b'.
Proof. intros. split; nra. Qed.

Lemma Qmin_nonneg a b : 0 <= a -> 0 <= b -> 0 <= Qmin a b.
Proof. intros. destruct (Q.min_spec a b) as [[_ E]|[_ E]]; rewrite E; auto. Qed.
Lemma Qmin_mono_r a b c : b <= c -> Qmin a b <= Qmin a c.
Proof. intros. apply Q.min_le_compat_l; auto. Qed.

Ltac open_forall H :=
  unfold Stat_nonneg, Stat_le, Stat_fields in H;
  repeat (apply Forall_cons_iff in H; let X := fresh "F" in destruct H as [X H]; cbv beta in X);
  clear H.

(* nonneg /\ monotone for a product, peeling the right-most factor *)
Ltac peel := match goal with
  | |- 0 <= ?a * ?b /\ ?a * ?b <= ?a' * ?b' =>
      let Ha := fresh "Ha" in let Hb := fresh "Hb" in
      assert (Ha : 0 <= a /\ a <= a'); [ | assert (Hb : 0 <= b /\ b <= b');
        [ | destruct Ha, Hb; apply prod_mono; assumption ] ]
  end.

Ltac prune := repeat match goal with
  | H : 0 <= ?f ?s |- ?G => lazymatch G with context[f] => fail | _ => clear H end
  | H : ?f ?s <= ?f ?s' |- ?G => lazymatch G with context[f] => fail | _ => clear H end
  end.

Ltac qmin_facts := repeat match goal with
  | Hn : 0 <= ?f ?s, Hl : ?f ?s <= ?f ?s' |- context[Qmin ?c (?f ?s)] =>
      let m := fresh "m" in let m' := fresh "m" in
      pose proof (Qmin_nonneg c (f s) ltac:(lra) Hn); pose proof (Qmin_mono_r c (f s) (f s') Hl);
      set (m := Qmin c (f s)) in *; set (m' := Qmin c (f s')) in *; clearbody m m'
  end.

Ltac leaf unf := repeat match goal with H : _ /\ _ |- _ => clear H end; unf; prune; qmin_facts; split; first [lra | nra].
Ltac go unf := first [ peel; [ go unf | leaf unf ] | leaf unf ].

(* one statement shape for every logic: F is a (partially applied) factor function *)
Definition mono_on (F : Stat -> Q) (s s' : Stat) : Prop := 0 <= F s /\ F s <= F s'.

Ltac start :=
  intros Hk Hm0 Hm1 Hn Hle Harm Haf; open_forall Hn; open_forall Hle; unfold mono_on.

(* ---------------- STR ---------------- *)
Ltac unf_STR := unfold STRBasedDamageLogic_get_general_damage_factor, STRBasedDamageLogic_get_armor_factor,
  STRBasedDamageLogic_get_critical_factor, STRBasedDamageLogic_get_base_stat_factor,
  STRBasedDamageLogic_get_attack_type_factor, STRBasedDamageLogic_get_elemental_disadvantage,
  Stat_get_base_stat_coefficient_STR, Stat_get_base_stat_coefficient_DEX, Stat_get_base_stat_coefficient_INT,
  Stat_get_base_stat_coefficient_LUK, Stat_get_attack_coefficient_attack_power, Stat_get_attack_coefficient_magic_attack in *.
Lemma STR_damage_factor_mono (self : STRBasedDamageLogic) s s' armor :
  0 <= STRBasedDamageLogic_attack_range_constant self ->
  0 <= STRBasedDamageLogic_mastery self -> STRBasedDamageLogic_mastery self <= 1 ->
  Stat_nonneg s -> Stat_le s s' -> 0 <= armor -> 0 <= STRBasedDamageLogic_get_armor_factor self s armor ->
  mono_on (fun x => STRBasedDamageLogic_get_damage_factor self x armor) s s'.
Proof. start. unfold STRBasedDamageLogic_get_damage_factor. unfold STRBasedDamageLogic_get_armor_factor in Haf. go unf_STR. Qed.
Lemma STR_dot_factor_mono (self : STRBasedDamageLogic) s s' armor :
  0 <= STRBasedDamageLogic_attack_range_constant self ->
  0 <= STRBasedDamageLogic_mastery self -> STRBasedDamageLogic_mastery self <= 1 ->
  Stat_nonneg s -> Stat_le s s' -> 0 <= armor -> 0 <= STRBasedDamageLogic_get_armor_factor self s armor ->
  mono_on (fun x => STRBasedDamageLogic_get_dot_factor self x armor) s s'.
Proof. start. unfold STRBasedDamageLogic_get_dot_factor. go unf_STR. Qed.

(* ---------------- INT ---------------- *)
Ltac unf_INT := unfold INTBasedDamageLogic_get_general_damage_factor, INTBasedDamageLogic_get_armor_factor,
  INTBasedDamageLogic_get_critical_factor, INTBasedDamageLogic_get_base_stat_factor,
  INTBasedDamageLogic_get_attack_type_factor, INTBasedDamageLogic_get_elemental_disadvantage,
  Stat_get_base_stat_coefficient_STR, Stat_get_base_stat_coefficient_DEX, Stat_get_base_stat_coefficient_INT,
  Stat_get_base_stat_coefficient_LUK, Stat_get_attack_coefficient_attack_power, Stat_get_attack_coefficient_magic_attack in *.
Lemma INT_damage_factor_mono (self : INTBasedDamageLogic) s s' armor :
  0 <= INTBasedDamageLogic_attack_range_constant self ->
  0 <= INTBasedDamageLogic_mastery self -> INTBasedDamageLogic_mastery self <= 1 ->
  Stat_nonneg s -> Stat_le s s' -> 0 <= armor -> 0 <= INTBasedDamageLogic_get_armor_factor self s armor ->
  mono_on (fun x => INTBasedDamageLogic_get_damage_factor self x armor) s s'.
Proof. start. unfold INTBasedDamageLogic_get_damage_factor. unfold INTBasedDamageLogic_get_armor_factor in Haf. go unf_INT. Qed.
Lemma INT_dot_factor_mono (self : INTBasedDamageLogic) s s' armor :
  0 <= INTBasedDamageLogic_attack_range_constant self ->
  0 <= INTBasedDamageLogic_mastery self -> INTBasedDamageLogic_mastery self <= 1 ->
  Stat_nonneg s -> Stat_le s s' -> 0 <= armor -> 0 <= INTBasedDamageLogic_get_armor_factor self s armor ->
  mono_on (fun x => INTBasedDamageLogic_get_dot_factor self x armor) s s'.
Proof. start. unfold INTBasedDamageLogic_get_dot_factor. go unf_INT. Qed.

(* ---------------- DEX ---------------- *)
Ltac unf_DEX := unfold DEXBasedDamageLogic_get_general_damage_factor, DEXBasedDamageLogic_get_armor_factor,
  DEXBasedDamageLogic_get_critical_factor, DEXBasedDamageLogic_get_base_stat_factor,
  DEXBasedDamageLogic_get_attack_type_factor, DEXBasedDamageLogic_get_elemental_disadvantage,
  Stat_get_base_stat_coefficient_STR, Stat_get_base_stat_coefficient_DEX, Stat_get_base_stat_coefficient_INT,
  Stat_get_base_stat_coefficient_LUK, Stat_get_attack_coefficient_attack_power, Stat_get_attack_coefficient_magic_attack in *.
Lemma DEX_damage_factor_mono (self : DEXBasedDamageLogic) s s' armor :
  0 <= DEXBasedDamageLogic_attack_range_constant self ->
  0 <= DEXBasedDamageLogic_mastery self -> DEXBasedDamageLogic_mastery self <= 1 ->
  Stat_nonneg s -> Stat_le s s' -> 0 <= armor -> 0 <= DEXBasedDamageLogic_get_armor_factor self s armor ->
  mono_on (fun x => DEXBasedDamageLogic_get_damage_factor self x armor) s s'.
Proof. start. unfold DEXBasedDamageLogic_get_damage_factor. unfold DEXBasedDamageLogic_get_armor_factor in Haf. go unf_DEX. Qed.
Lemma DEX_dot_factor_mono (self : DEXBasedDamageLogic) s s' armor :
  0 <= DEXBasedDamageLogic_attack_range_constant self ->
  0 <= DEXBasedDamageLogic_mastery self -> DEXBasedDamageLogic_mastery self <= 1 ->
  Stat_nonneg s -> Stat_le s s' -> 0 <= armor -> 0 <= DEXBasedDamageLogic_get_armor_factor self s armor ->
  mono_on (fun x => DEXBasedDamageLogic_get_dot_factor self x armor) s s'.
Proof. start. unfold DEXBasedDamageLogic_get_dot_factor. go unf_DEX. Qed.

(* ---------------- LUK ---------------- *)
Ltac unf_LUK := unfold LUKBasedDamageLogic_get_general_damage_factor, LUKBasedDamageLogic_get_armor_factor,
  LUKBasedDamageLogic_get_critical_factor, LUKBasedDamageLogic_get_base_stat_factor,
  LUKBasedDamageLogic_get_attack_type_factor, LUKBasedDamageLogic_get_elemental_disadvantage,
  Stat_get_base_stat_coefficient_STR, Stat_get_base_stat_coefficient_DEX, Stat_get_base_stat_coefficient_INT,
  Stat_get_base_stat_coefficient_LUK, Stat_get_attack_coefficient_attack_power, Stat_get_attack_coefficient_magic_attack in *.
Lemma LUK_damage_factor_mono (self : LUKBasedDamageLogic) s s' armor :
  0 <= LUKBasedDamageLogic_attack_range_constant self ->
  0 <= LUKBasedDamageLogic_mastery self -> LUKBasedDamageLogic_mastery self <= 1 ->
  Stat_nonneg s -> Stat_le s s' -> 0 <= armor -> 0 <= LUKBasedDamageLogic_get_armor_factor self s armor ->
  mono_on (fun x => LUKBasedDamageLogic_get_damage_factor self x armor) s s'.
Proof. start. unfold LUKBasedDamageLogic_get_damage_factor. unfold LUKBasedDamageLogic_get_armor_factor in Haf. go unf_LUK. Qed.
Lemma LUK_dot_factor_mono (self : LUKBasedDamageLogic) s s' armor :
  0 <= LUKBasedDamageLogic_attack_range_constant self ->
  0 <= LUKBasedDamageLogic_mastery self -> LUKBasedDamageLogic_mastery self <= 1 ->
  Stat_nonneg s -> Stat_le s s' -> 0 <= armor -> 0 <= LUKBasedDamageLogic_get_armor_factor self s armor ->
  mono_on (fun x => LUKBasedDamageLogic_get_dot_factor self x armor) s s'.
Proof. start. unfold LUKBasedDamageLogic_get_dot_factor. go unf_LUK. Qed.

(* ---------------- LUK dual ---------------- *)
Ltac unf_Dual := unfold LUKBasedDualSubDamageLogic_get_general_damage_factor, LUKBasedDualSubDamageLogic_get_armor_factor,
  LUKBasedDualSubDamageLogic_get_critical_factor, LUKBasedDualSubDamageLogic_get_base_stat_factor,
  LUKBasedDualSubDamageLogic_get_attack_type_factor, LUKBasedDualSubDamageLogic_get_elemental_disadvantage,
  Stat_get_base_stat_coefficient_STR, Stat_get_base_stat_coefficient_DEX, Stat_get_base_stat_coefficient_INT,
  Stat_get_base_stat_coefficient_LUK, Stat_get_attack_coefficient_attack_power, Stat_get_attack_coefficient_magic_attack in *.
Lemma Dual_damage_factor_mono (self : LUKBasedDualSubDamageLogic) s s' armor :
  0 <= LUKBasedDualSubDamageLogic_attack_range_constant self ->
  0 <= LUKBasedDualSubDamageLogic_mastery self -> LUKBasedDualSubDamageLogic_mastery self <= 1 ->
  Stat_nonneg s -> Stat_le s s' -> 0 <= armor -> 0 <= LUKBasedDualSubDamageLogic_get_armor_factor self s armor ->
  mono_on (fun x => LUKBasedDualSubDamageLogic_get_damage_factor self x armor) s s'.
Proof. start. unfold LUKBasedDualSubDamageLogic_get_damage_factor. unfold LUKBasedDualSubDamageLogic_get_armor_factor in Haf. go unf_Dual. Qed.
Lemma Dual_dot_factor_mono (self : LUKBasedDualSubDamageLogic) s s' armor :
  0 <= LUKBasedDualSubDamageLogic_attack_range_constant self ->
  0 <= LUKBasedDualSubDamageLogic_mastery self -> LUKBasedDualSubDamageLogic_mastery self <= 1 ->
  Stat_nonneg s -> Stat_le s s' -> 0 <= armor -> 0 <= LUKBasedDualSubDamageLogic_get_armor_factor self s armor ->
  mono_on (fun x => LUKBasedDualSubDamageLogic_get_dot_factor self x armor) s s'.
Proof. start. unfold LUKBasedDualSubDamageLogic_get_dot_factor. go unf_Dual. Qed.

(* ---------------- linearity of the calculated damage in damage% and hit ---------------- *)
Definition scale_log (c h : Q) (l : DamageLog) : DamageLog :=
  mkDamageLog (DamageLog_name l) (DamageLog_damage l * c) (DamageLog_hit l * h) (DamageLog_buff l) (DamageLog_tag l).
Definition omap_close (k : Q) (a b : option Q) : Prop :=
  match a, b with Some x, Some y => x == k * y | None, None => True | _, _ => False end.

Ltac linear_tac f := intros self l c h; unfold f, scale_log, omap_close;
  cbn [DamageLog_name DamageLog_damage DamageLog_hit DamageLog_buff DamageLog_tag];
  repeat match goal with |- context[if ?b then _ else _] => destruct b end; try exact I; cbv zeta; ring.

Lemma STR_damage_linear : forall self l c h,
  omap_close (c * h) (DamageCalculator_STR_get_damage self (scale_log c h l)) (DamageCalculator_STR_get_damage self l).
Proof. linear_tac DamageCalculator_STR_get_damage. Qed.
Lemma INT_damage_linear : forall self l c h,
  omap_close (c * h) (DamageCalculator_INT_get_damage self (scale_log c h l)) (DamageCalculator_INT_get_damage self l).
Proof. linear_tac DamageCalculator_INT_get_damage. Qed.
Lemma DEX_damage_linear : forall self l c h,
  omap_close (c * h) (DamageCalculator_DEX_get_damage self (scale_log c h l)) (DamageCalculator_DEX_get_damage self l).
Proof. linear_tac DamageCalculator_DEX_get_damage. Qed.
Lemma LUK_damage_linear : forall self l c h,
  omap_close (c * h) (DamageCalculator_LUK_get_damage self (scale_log c h l)) (DamageCalculator_LUK_get_damage self l).
Proof. linear_tac DamageCalculator_LUK_get_damage. Qed.
Lemma Dual_damage_linear : forall self l c h,
  omap_close (c * h) (DamageCalculator_LUKDual_get_damage self (scale_log c h l)) (DamageCalculator_LUKDual_get_damage self l).
Proof. linear_tac DamageCalculator_LUKDual_get_damage. Qed.
