(* C16: theorems about the GENERATED tables (gen/Formulas.v, gen/Profiles.v, gen/CoreQ.v) through Model/LevelsBuilt.v.
   Finite facts are decided by vm_compute on the generated tables and lifted with forallb_forall. *)
From Coq Require Import QArith Qround Qminmax ZArith List String Bool Lia Lqa.
From V.Model Require Import Expr ExprParse Levels LevelsBuilt.
From V.Proofs Require Import ExprMono Levels.
From G Require Import CoreQ Formulas Profiles.
Import ListNotations.
Open Scope string_scope.

(* ------------------------------------------------------------------------------------------------ effective level *)
Definition opt_le (a b : option Z) : Prop :=
  match a, b with Some x, Some y => (x <= y)%Z | None, None => True | _, _ => False end.

(* SkillLevelPatch.get_skill_level never decreases when the explicit level, the passive level or the combat orders level grows *)
Theorem gen_skill_level_mono named d pon con m m' p p' c c' :
  opt_le m m' -> (p <= p')%Z -> (c <= c')%Z ->
  (gen_skill_level named m d pon con p c <= gen_skill_level named m' d pon con p' c')%Z.
Proof.
  unfold gen_skill_level, opt_le. intros Hm Hp Hc.
  destruct named, m as [x|], m' as [y|], d as [z|], pon, con; cbn in *; try contradiction; lia.
Qed.

(* an explicit level 0 IS level 0 (the repaired fall-back): the map entry decides, the specification's default does not *)
Theorem gen_skill_level_explicit d pon con v p c :
  gen_skill_level true (Some v) d pon con p c = (v + (if pon then p else 0) + (if con then c else 0))%Z.
Proof. unfold gen_skill_level. destruct pon, con; cbn; lia. Qed.

Theorem gen_skill_level_default named d pon con p c :
  gen_skill_level named None d pon con p c = ((match d with Some z => z | None => 0 end) + (if pon then p else 0) + (if con then c else 0))%Z.
Proof. unfold gen_skill_level. destruct named, d, pon, con; cbn; lia. Qed.

Definition cfg_le (c c' : config) : Prop :=
  levels_le (c_levels c) (c_levels c') /\ (c_passive c <= c_passive c')%Z /\ (c_co c <= c_co c')%Z
  /\ (c_v_improvement c <= c_v_improvement c')%Z /\ (c_hexa_improvement c <= c_hexa_improvement c')%Z
  /\ c_vars c = c_vars c'.

Lemma eff_level_mono_gen c c' f : levels_le (c_levels c) (c_levels c') -> (c_passive c <= c_passive c')%Z -> (c_co c <= c_co c')%Z ->
  (eff_level c f <= eff_level c' f)%Z.
Proof.
  intros Hl Hp Hc. unfold eff_level. apply gen_skill_level_mono; try assumption.
  pose proof (lookup_le _ _ Hl (f_skill f)) as H. unfold opt_le.
  destruct (lookup (f_skill f) (c_levels c)), (lookup (f_skill f) (c_levels c')); exact H.
Qed.

Lemma eff_level_mono c c' f : cfg_le c c' -> (eff_level c f <= eff_level c' f)%Z.
Proof. intros (Hl & Hp & Hc & _). apply eff_level_mono_gen; assumption. Qed.

(* ------------------------------------------------------------------------------------------------ formula table *)
Lemma all_damage_ok : forallb damage_ok formulas = true.
Proof. vm_compute. reflexivity. Qed.

Lemma all_parse : forallb parses_to formulas = true.
Proof. vm_compute. reflexivity. Qed.

Lemma ids_ok : ids_from 0 formulas = true.
Proof. vm_compute. reflexivity. Qed.

Theorem formulas_parse f : In f formulas -> parse (f_toks f) = Some (f_expr f).
Proof. intros H. apply parses_to_sound. exact (proj1 (forallb_forall _ _) all_parse f H). Qed.

Lemma damage_ok_inv f : In f formulas -> f_damage f = true ->
  range_ok f = true /\ level_ok level_var f = true /\ forall x, In x other_level_vars -> const_in x (f_expr f) = true.
Proof.
  intros Hin Hd. pose proof (proj1 (forallb_forall _ _) all_damage_ok f Hin) as H. unfold damage_ok in H. rewrite Hd in H. cbn [negb orb] in H.
  apply andb_prop in H. destruct H as [H H3]. apply andb_prop in H. destruct H as [H1 H2].
  repeat split; try assumption. intros x Hx. exact (proj1 (forallb_forall _ _) H3 x Hx).
Qed.

(* HEADLINE (formulas): every damage-figure formula is non-decreasing in the level over its documented range, in every
   non-negative binding of the other variables *)
Theorem damage_formula_mono f : In f formulas -> f_damage f = true ->
  forall r, env_nonneg r -> forall l1 l2, (f_lo f <= l1)%Z -> (l1 <= l2)%Z -> (l2 <= f_hi f)%Z ->
  forall v1 v2, eval (at_level r level_var l1) (f_expr f) = Some v1 -> eval (at_level r level_var l2) (f_expr f) = Some v2 -> v1 <= v2.
Proof.
  intros Hin Hd. destruct (damage_ok_inv f Hin Hd) as (Hr & Hl & _). unfold range_ok in Hr. apply andb_prop in Hr. destruct Hr as [Hr _].
  apply level_ok_sound; [exact Hl|]. apply Z.leb_le. exact Hr.
Qed.

(* ... and its definedness does not depend on the level inside the range *)
Theorem damage_formula_defined f : In f formulas -> f_damage f = true ->
  forall r l1 l2, (f_lo f <= l1 <= f_hi f)%Z -> (f_lo f <= l2 <= f_hi f)%Z ->
  eval (at_level r level_var l1) (f_expr f) <> None -> eval (at_level r level_var l2) (f_expr f) <> None.
Proof.
  intros Hin Hd r l1 l2 H1 H2 D. destruct (damage_ok_inv f Hin Hd) as (_ & Hl & _).
  destruct (const_in level_var (f_expr f)) eqn:Hc.
  - unfold at_level in *. rewrite (const_sound r level_var _ _ Hc) in D. rewrite (const_sound r level_var _ _ Hc). exact D.
  - exact (level_ok_defined level_var f Hl Hc r l1 l2 H1 H2 D).
Qed.

(* the formulas whose only variable is the level are DEFINED on their whole range (no other input needed) *)
Theorem closed_damage_formula_total f : In f formulas -> f_damage f = true -> only_var level_var (f_expr f) = true ->
  const_in level_var (f_expr f) = false ->
  forall r l, (f_lo f <= l <= f_hi f)%Z -> exists v, eval (at_level r level_var l) (f_expr f) = Some v.
Proof.
  intros Hin Hd Ho Hc r l Hl. destruct (damage_ok_inv f Hin Hd) as (_ & Hk & _). unfold level_ok in Hk. rewrite Hc, Ho in Hk.
  destruct (sweep_sound _ _ _ _ Hk l l) as (v & _ & E & _); try lia. exists v. unfold at_level in *.
  rewrite (only_var_eval _ _ Ho r no_env). exact E.
Qed.

(* substitute-then-evaluate = bind-then-evaluate, for every expression, level and binding *)
Theorem substitution_is_binding e r l : eval r (subst level_var (inject_Z l) e) = eval (at_level r level_var l) e.
Proof. apply subst_eval. Qed.

(* ------------------------------------------------------------------------------------------------ formula values of a configuration *)
Lemma nth_error_formulas_In fid f : nth_error formulas fid = Some f -> In f formulas.
Proof. apply nth_error_In. Qed.

Lemma env_of_eq c c' : c_vars c = c_vars c' -> env_of (c_vars c) = env_of (c_vars c').
Proof. intros ->. reflexivity. Qed.

Lemma fval_mono c c' fid f : nth_error formulas fid = Some f -> f_damage f = true -> cfg_le c c' ->
  env_nonneg (env_of (c_vars c)) -> in_range c f = true -> in_range c' f = true -> fval_le (fval c) (fval c') fid.
Proof.
  intros Hn Hd Hle Hr Hi Hi' a b Ea Eb. unfold fval in Ea, Eb. rewrite Hn in Ea, Eb.
  destruct Hle as (H1 & H2 & H3 & H4 & H5 & H6). rewrite <- (env_of_eq c c' H6) in Eb.
  unfold in_range in Hi, Hi'. apply andb_prop in Hi. apply andb_prop in Hi'. destruct Hi as [Hi _]. destruct Hi' as [_ Hi'].
  apply Z.leb_le in Hi. apply Z.leb_le in Hi'.
  eapply (damage_formula_mono f (nth_error_formulas_In _ _ Hn) Hd (env_of (c_vars c)) Hr (eff_level c f) (eff_level c' f)); try eassumption.
  apply eff_level_mono. repeat split; assumption.
Qed.

(* ------------------------------------------------------------------------------------------------ documented configurations *)
Record doc_levels := mkDoc { d_v : Z; d_h : Z; d_m : Z; d_p : Z; d_c : Z; d_vi : Z; d_hi : Z }.
Definition doc_ok (d : doc_levels) : Prop :=
  (0 <= d_v d <= max_skill_level)%Z /\ (0 <= d_h d <= max_skill_level)%Z /\ (0 <= d_m d <= max_skill_level)%Z
  /\ (0 <= d_p d <= max_offset)%Z /\ (0 <= d_c d <= max_offset)%Z
  /\ (0 <= d_vi d <= max_v_improvement)%Z /\ (0 <= d_hi d <= max_hexa_improvement)%Z.
Definition doc_le (d d' : doc_levels) : Prop :=
  (d_v d <= d_v d')%Z /\ (d_h d <= d_h d')%Z /\ (d_m d <= d_m d')%Z /\ (d_p d <= d_p d')%Z /\ (d_c d <= d_c d')%Z
  /\ (d_vi d <= d_vi d')%Z /\ (d_hi d <= d_hi d')%Z.
(* the environment MinimalEnvironmentProvider / BaselineEnvironmentProvider make from the seven level axes *)
Definition doc_cfg (p : profile) (d : doc_levels) (vars : list (string * Q)) : config :=
  mkCfg (skill_levels_of p (d_v d) (d_h d) (d_m d)) (d_p d) (d_c d) (d_vi d) (d_hi d) vars.

Lemma doc_cfg_le p d d' vars : doc_le d d' -> cfg_le (doc_cfg p d vars) (doc_cfg p d' vars).
Proof.
  intros (H1 & H2 & H3 & H4 & H5 & H6 & H7). unfold cfg_le, doc_cfg. cbn [c_levels c_passive c_co c_v_improvement c_hexa_improvement c_vars].
  repeat split; try assumption. apply skill_levels_of_le; assumption.
Qed.

Lemma all_hull_ok : forallb (fun p => forallb (hull_ok p) formulas) profiles = true.
Proof. vm_compute. reflexivity. Qed.

(* every formula of a profile's groups stays inside its hull [f_lo, f_hi] on the whole documented configuration space *)
Theorem documented_in_range p f d vars : In p profiles -> In f formulas -> uses p f = true -> doc_ok d ->
  in_range (doc_cfg p d vars) f = true.
Proof.
  intros Hp Hf Hu (Hv & Hh & Hm & Hpp & Hc & _).
  pose proof (proj1 (forallb_forall _ _) (proj1 (forallb_forall _ _) all_hull_ok p Hp) f Hf) as H.
  unfold hull_ok in H. rewrite Hu in H. cbn [negb orb] in H. apply andb_prop in H. destruct H as [Hlo Hhi].
  apply Z.leb_le in Hlo. apply Z.leb_le in Hhi.
  unfold in_range. apply andb_true_intro. split; apply Z.leb_le.
  - eapply Z.le_trans; [exact Hlo|]. apply eff_level_mono_gen; unfold corner_cfg, doc_cfg; cbn [c_levels c_passive c_co]; try lia.
    apply skill_levels_of_le; lia.
  - eapply Z.le_trans; [|exact Hhi]. apply eff_level_mono_gen; unfold corner_cfg, doc_cfg; cbn [c_levels c_passive c_co]; try lia.
    apply skill_levels_of_le; lia.
Qed.

(* ------------------------------------------------------------------------------------------------ built scalar figures *)
Lemma all_figures_ok : forallb figure_ok figures = true.
Proof. vm_compute. reflexivity. Qed.
Lemma all_figures_scoped : forallb figure_scoped figures = true.
Proof. vm_compute. reflexivity. Qed.

Lemma profile_of_In job p : profile_of job = Some p -> In p profiles.
Proof. unfold profile_of. intros H. apply find_some in H. tauto. Qed.

Lemma fid_mono p d d' vars fid : In p profiles -> fid_used p fid = true -> fid_damage fid = true ->
  doc_ok d -> doc_ok d' -> doc_le d d' -> env_nonneg (env_of vars) ->
  fval_le (fval (doc_cfg p d vars)) (fval (doc_cfg p d' vars)) fid.
Proof.
  intros Hp Hu Hfd Hok Hok' Hle Hr. unfold fid_used in Hu. unfold fid_damage in Hfd.
  destruct (nth_error formulas fid) as [f|] eqn:En; [|discriminate].
  apply (fval_mono _ _ fid f En Hfd (doc_cfg_le p d d' vars Hle)).
  - exact Hr.
  - apply documented_in_range; try assumption. eapply nth_error_In; eassumption.
  - apply documented_in_range; try assumption. eapply nth_error_In; eassumption.
Qed.

(* HEADLINE (built scalar fields): on the documented configuration space, raising any of the seven level axes (others
   fixed or raised as well) never lowers a damage figure of a built component: formula, then the hyper-skill
   additions / multiplications, then the additions of skill improvements *)
Theorem built_figure_mono p g d d' vars : profile_of (g_job g) = Some p -> In g figures -> g_damage g = true ->
  doc_ok d -> doc_ok d' -> doc_le d d' -> env_nonneg (env_of vars) ->
  forall v v', figure_value (doc_cfg p d vars) g = Some v -> figure_value (doc_cfg p d' vars) g = Some v' -> v <= v'.
Proof.
  intros Hp Hg Hd Hok Hok' Hle Hr v v' E E'.
  pose proof (proj1 (forallb_forall _ _) all_figures_ok g Hg) as Hk. unfold figure_ok in Hk. rewrite Hd in Hk. cbn [negb orb] in Hk.
  apply andb_prop in Hk. destruct Hk as [Hk Hpo]. apply andb_prop in Hk. destruct Hk as [Hn Hb].
  pose proof (proj1 (forallb_forall _ _) all_figures_scoped g Hg) as Hs. unfold figure_scoped in Hs. rewrite Hp in Hs.
  rewrite forallb_forall in Hs. rewrite forallb_forall in Hpo.
  pose proof (profile_of_In _ _ Hp) as Hin.
  unfold figure_value in *. eapply fig_value_le; [exact Hn| | |exact E|exact E'].
  - intros fid Hb'. rewrite Hb' in Hb. apply fid_mono; try assumption. apply Hs. unfold fig_fids. rewrite Hb'. left. reflexivity.
  - intros fid Hi. apply fid_mono; try assumption.
    + apply Hs. unfold fig_fids. apply in_or_app. right. apply in_flat_map. exists (PAddF fid). split; [exact Hi|left; reflexivity].
    + exact (Hpo (PAddF fid) Hi).
Qed.

(* ------------------------------------------------------------------------------------------------ hexa table, v improvement *)
Lemma hexa_sweep :
  (match gen_hexa_fdm 0 with Some a => Qle_bool 0 a | None => false end) && forallb (fstep_ok gen_hexa_fdm) (zspan 0 max_hexa_improvement) = true.
Proof. vm_compute. reflexivity. Qed.

(* the hexa improvement multiplier is defined on 0..30, non-negative and never decreases with the level *)
Theorem hexa_table_mono l1 l2 : (0 <= l1)%Z -> (l1 <= l2)%Z -> (l2 <= max_hexa_improvement)%Z ->
  exists a b, gen_hexa_fdm l1 = Some a /\ gen_hexa_fdm l2 = Some b /\ 0 <= a /\ a <= b.
Proof.
  intros H1 H12 H2. pose proof hexa_sweep as H. apply andb_prop in H. destruct H as [H0 Hs].
  destruct (gen_hexa_fdm 0) as [z|] eqn:Ez; [|discriminate].
  destruct (fsweep gen_hexa_fdm 0 max_hexa_improvement (ex_intro _ z Ez) Hs 0 l1) as (z' & a & E0 & Ea & Hza); try lia.
  destruct (fsweep gen_hexa_fdm 0 max_hexa_improvement (ex_intro _ z Ez) Hs l1 l2) as (a' & b & Ea' & Eb & Hab); try lia.
  rewrite Ea in Ea'. injection Ea' as <-. rewrite Ez in E0. injection E0 as <-.
  exists a, b. repeat split; try assumption. apply Qle_bool_le in H0. eapply Qle_trans; eassumption.
Qed.

Lemma all_blocks_ok : forallb block_ok sblocks = true.
Proof. vm_compute. reflexivity. Qed.
Lemma all_blocks_scoped : forallb block_scoped sblocks = true.
Proof. vm_compute. reflexivity. Qed.

Lemma gen_v_ied_bounds l : 0 <= gen_v_ied l /\ gen_v_ied l <= 100.
Proof.
  unfold gen_v_ied. repeat match goal with |- context [if ?c then _ else _] => destruct c end; split; unfold Qle; cbn; lia.
Qed.

(* the v improvement multiplier scale * level and its ignored-defence bonus never decrease with the level *)
Theorem v_improvement_mono scale l1 l2 : 0 <= scale -> (l1 <= l2)%Z ->
  gen_v_fdm scale l1 <= gen_v_fdm scale l2 /\ gen_v_ied l1 <= gen_v_ied l2.
Proof.
  intros Hs H. split.
  - unfold gen_v_fdm. pose proof (inject_Z_le _ _ H). nra.
  - unfold gen_v_ied.
    repeat match goal with |- context [if ?c then _ else _] => let E := fresh "E" in destruct c eqn:E end;
      try apply Qle_refl; try (unfold Qle; cbn; lia).
Qed.

(* ------------------------------------------------------------------------------------------------ Stat blocks (modifier, stat) *)
Definition stat_le (a b : Stat) : Prop := Forall (fun g : Stat -> Q => g a <= g b) Stat_fields.
(* the region in which simaple's Stat addition is monotone: final damage >= -100 %, ignored defence <= 100 % *)
Definition stat_ok (s : Stat) : Prop := -100 <= Stat_final_damage_multiplier s /\ Stat_ignored_defence s <= 100.

Ltac split_forall H :=
  repeat (let F := fresh "F" in pose proof (Forall_inv H) as F; cbn beta in F; apply Forall_inv_tail in H).

Lemma stat_le_refl a : stat_le a a.
Proof. unfold stat_le. apply Forall_forall. intros g _. apply Qle_refl. Qed.

Lemma Stat_add_ok a b : stat_ok a -> stat_ok b -> stat_ok (Stat_add a b).
Proof.
  unfold stat_ok, Stat_add. cbn. intros [A1 A2] [B1 B2]. split.
  - assert (0 <= (100 + Stat_final_damage_multiplier a) * (100 + Stat_final_damage_multiplier b)) by (apply Qmult_le_0_compat; lra). lra.
  - assert (0 <= (100 - Stat_ignored_defence a) * (100 - Stat_ignored_defence b)) by (apply Qmult_le_0_compat; lra). lra.
Qed.

(* simaple.core.Stat.__add__ (generated Stat_add) is monotone in both arguments, field by field, inside that region *)
Theorem Stat_add_le a a' b b' : stat_ok a -> stat_ok a' -> stat_ok b -> stat_ok b' ->
  stat_le a a' -> stat_le b b' -> stat_le (Stat_add a b) (Stat_add a' b').
Proof.
  unfold stat_ok, stat_le. intros [A1 A2] [A1' A2'] [B1 B2] [B1' B2'] Ha Hb.
  assert (Hfa : Stat_final_damage_multiplier a <= Stat_final_damage_multiplier a').
  { rewrite Forall_forall in Ha. apply Ha. unfold Stat_fields. cbn [In]. tauto. }
  assert (Hfb : Stat_final_damage_multiplier b <= Stat_final_damage_multiplier b').
  { rewrite Forall_forall in Hb. apply Hb. unfold Stat_fields. cbn [In]. tauto. }
  assert (Hia : Stat_ignored_defence a <= Stat_ignored_defence a').
  { rewrite Forall_forall in Ha. apply Ha. unfold Stat_fields. cbn [In]. tauto. }
  assert (Hib : Stat_ignored_defence b <= Stat_ignored_defence b').
  { rewrite Forall_forall in Hb. apply Hb. unfold Stat_fields. cbn [In]. tauto. }
  assert (P1 : 0 <= (Stat_final_damage_multiplier a' - Stat_final_damage_multiplier a) * (100 + Stat_final_damage_multiplier b)) by (apply Qmult_le_0_compat; lra).
  assert (P2 : 0 <= (Stat_final_damage_multiplier b' - Stat_final_damage_multiplier b) * (100 + Stat_final_damage_multiplier a')) by (apply Qmult_le_0_compat; lra).
  assert (P3 : 0 <= (Stat_ignored_defence a' - Stat_ignored_defence a) * (100 - Stat_ignored_defence b)) by (apply Qmult_le_0_compat; lra).
  assert (P4 : 0 <= (Stat_ignored_defence b' - Stat_ignored_defence b) * (100 - Stat_ignored_defence a')) by (apply Qmult_le_0_compat; lra).
  unfold Stat_fields in *. split_forall Ha. split_forall Hb.
  unfold Stat_add. repeat (apply Forall_cons; [cbn; lra|]). apply Forall_nil.
Qed.

Lemma stat_of_le l l' : (forall k, sget k l <= sget k l') -> stat_le (stat_of l) (stat_of l').
Proof. intros H. unfold stat_le, Stat_fields, stat_of. repeat (apply Forall_cons; [cbn; apply H|]). apply Forall_nil. Qed.

Lemma stat_of_ok l : -100 <= sget "final_damage_multiplier" l -> sget "ignored_defence" l <= 100 -> stat_ok (stat_of l).
Proof. intros H1 H2. split; [exact H1|exact H2]. Qed.

Lemma sget_single_le key q q' : q <= q' -> forall k, sget k [(key, q)] <= sget k [(key, q')].
Proof. intros H k. unfold sget, lookup. cbn [find fst snd]. destruct (String.eqb key k); [exact H|apply Qle_refl]. Qed.

Lemma fdm_stat_le q q' : q <= q' -> stat_le (fdm_stat q) (fdm_stat q').
Proof. intros H. apply stat_of_le. apply sget_single_le. exact H. Qed.
Lemma ied_stat_le q q' : q <= q' -> stat_le (ied_stat q) (ied_stat q').
Proof. intros H. apply stat_of_le. apply sget_single_le. exact H. Qed.
Lemma fdm_stat_ok q : -100 <= q -> stat_ok (fdm_stat q).
Proof. intros H. apply stat_of_ok; [exact H|]. unfold Qle. cbn. lia. Qed.
Lemma ied_stat_ok q : q <= 100 -> stat_ok (ied_stat q).
Proof. intros H. apply stat_of_ok; [|exact H]. unfold Qle. cbn. lia. Qed.

Definition pair_ok (s s' : Stat) : Prop := stat_ok s /\ stat_ok s' /\ stat_le s s'.

Lemma pair_add s s' a a' : pair_ok s s' -> pair_ok a a' -> pair_ok (Stat_add s a) (Stat_add s' a').
Proof.
  intros (H1 & H2 & H3) (A1 & A2 & A3). split; [|split]; try (apply Stat_add_ok; assumption). apply Stat_add_le; assumption.
Qed.

Lemma step_value_le c c' st s s' t t' : step_scale_ok st = true ->
  (0 <= c_v_improvement c)%Z -> (c_v_improvement c <= c_v_improvement c')%Z ->
  (0 <= c_hexa_improvement c)%Z -> (c_hexa_improvement c <= c_hexa_improvement c')%Z -> (c_hexa_improvement c' <= max_hexa_improvement)%Z ->
  pair_ok s s' -> step_value c (Some s) st = Some t -> step_value c' (Some s') st = Some t' -> pair_ok t t'.
Proof.
  intros Hk V0 V1 X0 X1 X2 Hp E E'. destruct st as [scale listed|listed|inc]; cbn [step_value step_scale_ok] in *.
  - injection E as <-. injection E' as <-. apply Qle_bool_le in Hk.
    assert (L0 : (0 <= v_level c listed)%Z) by (unfold v_level; destruct listed; lia).
    assert (L1 : (v_level c listed <= v_level c' listed)%Z) by (unfold v_level; destruct listed; lia).
    destruct (v_improvement_mono scale _ _ Hk L1) as [F1 F2].
    apply pair_add; [apply pair_add; [exact Hp|]|].
    + assert (0 <= gen_v_fdm scale (v_level c listed)).
      { unfold gen_v_fdm. apply Qmult_le_0_compat; [exact Hk|apply inject_Z_nonneg; exact L0]. }
      split; [|split]; [apply fdm_stat_ok; lra|apply fdm_stat_ok; lra|apply fdm_stat_le; exact F1].
    + split; [|split]; [apply ied_stat_ok; apply gen_v_ied_bounds|apply ied_stat_ok; apply gen_v_ied_bounds|apply ied_stat_le; exact F2].
  - assert (L0 : (0 <= hexa_level c listed)%Z) by (unfold hexa_level; destruct listed; lia).
    assert (L1 : (hexa_level c listed <= hexa_level c' listed)%Z) by (unfold hexa_level; destruct listed; lia).
    assert (L2 : (hexa_level c' listed <= max_hexa_improvement)%Z) by (unfold hexa_level; destruct listed; [lia|unfold max_hexa_improvement; lia]).
    destruct (hexa_table_mono _ _ L0 L1 L2) as (a & b & Ea & Eb & Ha & Hab).
    rewrite Ea in E. rewrite Eb in E'. injection E as <-. injection E' as <-.
    apply pair_add; [exact Hp|]. split; [|split]; [apply fdm_stat_ok; lra|apply fdm_stat_ok; lra|apply fdm_stat_le; exact Hab].
  - injection E as <-. injection E' as <-. apply andb_prop in Hk. destruct Hk as [K1 K2]. apply Qle_bool_le in K1. apply Qle_bool_le in K2.
    apply pair_add; [exact Hp|]. split; [|split]; try (apply stat_of_ok; assumption). apply stat_le_refl.
Qed.

Lemma fold_step_none c l : fold_left (step_value c) l None = None.
Proof. induction l as [|st r IH]; cbn [fold_left]; [reflexivity|exact IH]. Qed.

Lemma fold_step_le c c' l : forallb step_scale_ok l = true ->
  (0 <= c_v_improvement c)%Z -> (c_v_improvement c <= c_v_improvement c')%Z ->
  (0 <= c_hexa_improvement c)%Z -> (c_hexa_improvement c <= c_hexa_improvement c')%Z -> (c_hexa_improvement c' <= max_hexa_improvement)%Z ->
  forall s s' t t', pair_ok s s' -> fold_left (step_value c) l (Some s) = Some t -> fold_left (step_value c') l (Some s') = Some t' -> pair_ok t t'.
Proof.
  intros Hk V0 V1 X0 X1 X2. induction l as [|st r IH]; cbn [forallb fold_left] in *; intros s s' t t' Hp E E'.
  - injection E as <-. injection E' as <-. exact Hp.
  - apply andb_prop in Hk. destruct Hk as [Hst Hr].
    destruct (step_value c (Some s) st) as [u|] eqn:Eu; [|rewrite fold_step_none in E; discriminate].
    destruct (step_value c' (Some s') st) as [u'|] eqn:Eu'; [|rewrite fold_step_none in E'; discriminate].
    apply (IH Hr u u' t t'); try assumption. eapply step_value_le; eassumption.
Qed.

Lemma bounded_sound c fid f B v : bounded_above fid B = true -> nth_error formulas fid = Some f -> in_range c f = true ->
  fval c fid = Some v -> v <= B.
Proof.
  unfold bounded_above, fval. intros Hb En Hr Ev. rewrite En in Hb, Ev. apply andb_prop in Hb. destruct Hb as [Ho Hall].
  rewrite forallb_forall in Hall. unfold in_range in Hr. apply andb_prop in Hr. destruct Hr as [R1 R2].
  apply Z.leb_le in R1. apply Z.leb_le in R2.
  assert (Hin : In (eff_level c f) (zspan (f_lo f) (f_hi f + 1))) by (apply zspan_In; lia).
  specialize (Hall _ Hin). unfold at_level in *. rewrite (only_var_eval _ _ Ho (env_of (c_vars c)) no_env) in Ev. rewrite Ev in Hall.
  apply Qle_bool_le. exact Hall.
Qed.

(* HEADLINE (built stat blocks): on the documented configuration space, raising any level axis -- the skill's own level,
   the v-enhancement level 0..60, the hexa-enhancement level 0..30, passive, combat orders -- never lowers any field of the
   modifier / stat block of a built component (base block, + v improvement, + hexa improvement, + hyper skills) *)
Theorem built_block_mono p b d d' vars : profile_of (b_job b) = Some p -> In b sblocks ->
  doc_ok d -> doc_ok d' -> doc_le d d' -> env_nonneg (env_of vars) ->
  forall s s', block_value (doc_cfg p d vars) b = Some s -> block_value (doc_cfg p d' vars) b = Some s' -> stat_le s s'.
Proof.
  intros Hp Hb Hok Hok' Hle Hr s s' E E'.
  pose proof (proj1 (forallb_forall _ _) all_blocks_ok b Hb) as Hk. unfold block_ok in Hk.
  apply andb_prop in Hk. destruct Hk as [Hk Hnd]. apply andb_prop in Hk. destruct Hk as [Hst Hbase].
  pose proof (proj1 (forallb_forall _ _) all_blocks_scoped b Hb) as Hs. unfold block_scoped in Hs. rewrite Hp in Hs.
  rewrite forallb_forall in Hs. rewrite forallb_forall in Hbase. pose proof (profile_of_In _ _ Hp) as Hin.
  unfold block_value in E, E'.
  destruct (block_base (doc_cfg p d vars) b) as [s0|] eqn:E0; [|rewrite fold_step_none in E; discriminate].
  destruct (block_base (doc_cfg p d' vars) b) as [s0'|] eqn:E0'; [|rewrite fold_step_none in E'; discriminate].
  assert (Hused : forall k fid, In (k, BF fid) (b_base b) -> fid_used p fid = true).
  { intros k fid Hi. apply Hs. unfold blk_fids. apply in_flat_map. exists (k, BF fid). split; [exact Hi|left; reflexivity]. }
  assert (Hrange : forall c0, (c0 = d \/ c0 = d') -> forall k fid f, In (k, BF fid) (b_base b) -> nth_error formulas fid = Some f ->
            in_range (doc_cfg p c0 vars) f = true).
  { intros c0 Hc0 k fid f Hi En. pose proof (Hused k fid Hi) as Hu. unfold fid_used in Hu. rewrite En in Hu.
    apply documented_in_range; try assumption; [eapply nth_error_In; eassumption|destruct Hc0; subst; assumption]. }
  assert (Hbound : forall c0, (c0 = d \/ c0 = d') -> forall s1, block_base (doc_cfg p c0 vars) b = Some s1 -> stat_ok s1).
  { intros c0 Hc0 s1 E1. unfold block_base in E1.
    destruct (base_fields (fval (doc_cfg p c0 vars)) (b_base b)) as [kv|] eqn:Ekv; [|discriminate]. injection E1 as <-.
    apply stat_of_ok.
    - refine (base_fields_bound (fun x => -100 <= x) (fval (doc_cfg p c0 vars)) (b_base b) kv "final_damage_multiplier" _ _ Ekv);
        [unfold Qle; cbn; lia|].
      intros b0 Hi x Ex. pose proof (Hbase _ Hi) as Hc. unfold base_const_ok in Hc. cbn [fst snd] in Hc. destruct b0 as [fid|q]; cbn [base_value] in Ex.
      + rewrite String.eqb_refl in Hc. cbn in Hc. rewrite andb_false_r in Hc. discriminate.
      + rewrite String.eqb_refl in Hc. injection Ex as <-. apply Qle_bool_le. exact Hc.
    - refine (base_fields_bound (fun x => x <= 100) (fval (doc_cfg p c0 vars)) (b_base b) kv "ignored_defence" _ _ Ekv);
        [unfold Qle; cbn; lia|].
      intros b0 Hi x Ex. pose proof (Hbase _ Hi) as Hc. unfold base_const_ok in Hc. cbn [fst snd] in Hc. destruct b0 as [fid|q]; cbn [base_value] in Ex.
      + rewrite String.eqb_refl in Hc. apply andb_prop in Hc. destruct Hc as [_ Hbd].
        destruct (nth_error formulas fid) as [f|] eqn:En; [|unfold fval in Ex; rewrite En in Ex; discriminate].
        eapply bounded_sound; try eassumption. eapply Hrange; eassumption.
      + assert (Hne : String.eqb "ignored_defence" "final_damage_multiplier" = false) by reflexivity. rewrite Hne, String.eqb_refl in Hc.
        injection Ex as <-. apply Qle_bool_le. exact Hc. }
  assert (Hp0 : pair_ok s0 s0').
  { split; [|split]; [apply (Hbound d (or_introl eq_refl) _ E0)|apply (Hbound d' (or_intror eq_refl) _ E0')|].
    unfold block_base in E0, E0'.
    destruct (base_fields (fval (doc_cfg p d vars)) (b_base b)) as [kv|] eqn:Ekv; [|discriminate]. injection E0 as <-.
    destruct (base_fields (fval (doc_cfg p d' vars)) (b_base b)) as [kv'|] eqn:Ekv'; [|discriminate]. injection E0' as <-.
    apply stat_of_le. refine (base_fields_sget _ _ (b_base b) kv kv' _ Ekv Ekv').
    intros k b0 Hi x x' Ex Ex'. destruct b0 as [fid|q]; cbn [base_value] in Ex, Ex'.
    - pose proof (Hbase _ Hi) as Hc. unfold base_const_ok in Hc. cbn [fst snd] in Hc.
      apply andb_prop in Hc. destruct Hc as [Hc _]. apply andb_prop in Hc. destruct Hc as [Hfd _].
      exact (fid_mono p d d' vars fid Hin (Hused k fid Hi) Hfd Hok Hok' Hle Hr x x' Ex Ex').
    - injection Ex as <-. injection Ex' as <-. apply Qle_refl. }
  destruct Hok as (_ & _ & _ & _ & _ & Hvi & Hhi). destruct Hok' as (_ & _ & _ & _ & _ & Hvi' & Hhi').
  destruct Hle as (_ & _ & _ & _ & _ & Lvi & Lhi).
  refine (proj2 (proj2 (fold_step_le (doc_cfg p d vars) (doc_cfg p d' vars) (b_steps b) Hst _ _ _ _ _ s0 s0' s s' Hp0 E E')));
    unfold doc_cfg; cbn [c_v_improvement c_hexa_improvement]; lia.
Qed.

(* ------------------------------------------------------------------------------------------------ names and the replacement rule *)
Lemma gen_excl_is_shipped : gen_excl = shipped_excl.
Proof. reflexivity. Qed.

Lemma all_names_unique : forallb (fun p => nodupb (p_components p) && nodupb (map fst (p_mastery p)) && replacement_names_ok p) profiles = true.
Proof. vm_compute. reflexivity. Qed.

Theorem names_unique p levels : In p profiles -> NoDup (p_components p) /\ NoDup (built_names p levels).
Proof.
  intros Hp. pose proof (proj1 (forallb_forall _ _) all_names_unique p Hp) as H.
  apply andb_prop in H. destruct H as [H _]. apply andb_prop in H. destruct H as [H _]. apply nodupb_NoDup in H.
  split; [exact H|]. unfold built_names. apply exclude_hexa_NoDup. exact H.
Qed.

(* the replacement rule of the shipped profiles, for EVERY level map with non-negative levels *)
Theorem exclude_hexa_iff p levels low high : In p profiles -> In (low, high) (p_mastery p) -> (0 <= level_of levels 0 high)%Z ->
  In high (p_components p) /\ (In low (built_names p levels) <-> level_of levels 0 high = 0%Z).
Proof.
  intros Hp Hm Hl. pose proof (proj1 (forallb_forall _ _) all_names_unique p Hp) as H.
  apply andb_prop in H. destruct H as [H Hr]. apply andb_prop in H. destruct H as [_ Hk]. apply nodupb_NoDup in Hk.
  unfold replacement_names_ok in Hr. rewrite forallb_forall in Hr. specialize (Hr _ Hm). cbn [fst snd] in Hr.
  apply andb_prop in Hr. destruct Hr as [R1 R2]. apply mem_In in R1. apply mem_In in R2.
  split; [exact R2|]. unfold built_names. rewrite gen_excl_is_shipped. apply exclude_hexa_iff_shipped; assumption.
Qed.

(* everything that is not a replaced lower tier -- in particular every 6th-job replacement itself -- is always built *)
Theorem other_names_kept p levels n : In n (p_components p) -> ~ In n (map fst (p_mastery p)) -> In n (built_names p levels).
Proof. intros Hn Hk. unfold built_names. rewrite gen_excl_is_shipped. apply exclude_hexa_keeps_others; assumption. Qed.

(* the level map the providers build is monotone in each of its three axes, read key by key *)
Theorem provider_levels_mono p v v' h h' m m' k : (v <= v')%Z -> (h <= h')%Z -> (m <= m')%Z ->
  opt_le (lookup k (skill_levels_of p v h m)) (lookup k (skill_levels_of p v' h' m')).
Proof.
  intros Hv Hh Hm. pose proof (lookup_le _ _ (skill_levels_of_le p v v' h h' m m' Hv Hh Hm) k) as H. unfold opt_le.
  destruct (lookup k (skill_levels_of p v h m)), (lookup k (skill_levels_of p v' h' m')); exact H.
Qed.

(* ------------------------------------------------------------------------------------------------ non-vacuity *)
Open Scope Z_scope.
Example adele_profile_shipped : exists p, profile_of "adele" = Some p /\ In ("디바이드", "디바이드 VI") (p_mastery p).
Proof. eexists. split; [reflexivity|]. vm_compute. tauto. Qed.

(* a concrete figure really moves, and an explicit level 0 is level 0: adele 루인 (a v-skill, 250 + 10 * level) *)
Example ruin_level_0_is_level_0 :
  exists g, In g figures /\ g_damage g = true /\ profile_of (g_job g) = Some profile_adele /\ g_skill g = "루인" /\
    figure_value (doc_cfg profile_adele (mkDoc 0 1 0 0 0 60 0) []) g = Some 250%Q /\
    figure_value (doc_cfg profile_adele (mkDoc 1 1 0 0 0 60 0) []) g = Some 260%Q /\
    figure_value (doc_cfg profile_adele (mkDoc 30 1 0 0 2 60 0) []) g = Some 570%Q.
Proof.
  destruct (find (fun g => String.eqb (g_job g) "adele" && String.eqb (g_skill g) "루인") figures) as [g|] eqn:E; [|vm_compute in E; discriminate].
  destruct (find_some _ _ E) as [Hin _]. vm_compute in E. injection E as <-.
  eexists. split; [exact Hin|]. vm_compute. repeat split; reflexivity.
Qed.

(* the documented corner configurations satisfy the hypotheses of the headline theorems *)
Example doc_ok_corners : doc_ok (mkDoc 0 0 0 0 0 0 0) /\ doc_ok (mkDoc 30 30 30 2 2 60 30) /\ doc_le (mkDoc 0 0 0 0 0 0 0) (mkDoc 30 30 30 2 2 60 30).
Proof. unfold doc_ok, doc_le, max_skill_level, max_offset, max_v_improvement, max_hexa_improvement. cbn. lia. Qed.
