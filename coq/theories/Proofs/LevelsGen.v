(* C16: theorems about the GENERATED tables (gen/Formulas.v, gen/Profiles.v, gen/CoreQ.v) through Model/LevelsBuilt.v.
   Finite facts are decided by vm_compute on the generated tables and lifted with forallb_forall. *)
From Coq Require Import QArith Qround Qminmax ZArith List String Bool Lia Lqa.
From V.Model Require Import Expr ExprParse Levels LevelsBuilt.
From V.Proofs Require Import ExprMono Levels.
From G Require Import CoreQ Formulas Profiles.
Import ListNotations.
Open Scope string_scope.

(* ------------------------------------------------------------------------------------------------ effective level *)
Definition opt_le (a b : option Z) : Prop :=
  match a, b with Some x, Some y => (x <= y)%Z | None, None => True | _, _ => False end.

(* SkillLevelPatch.get_skill_level never decreases when the explicit level, the passive level or the combat orders level grows *)
Theorem gen_skill_level_mono named d pon con m m' p p' c c' :
  opt_le m m' -> (p <= p')%Z -> (c <= c')%Z ->
  (gen_skill_level named m d pon con p c <= gen_skill_level named m' d pon con p' c')%Z.
Proof.
  unfold gen_skill_level, opt_le. intros Hm Hp Hc.
  destruct named, m as [x|], m' as [y|], d as [z|], pon, con; cbn in *; try contradiction; lia.
Qed.

(* an explicit level 0 IS level 0 (the repaired fall-back): the map entry decides, the specification's default does not *)
Theorem gen_skill_level_explicit d pon con v p c :
  gen_skill_level true (Some v) d pon con p c = (v + (if pon then p else 0) + (if con then c else 0))%Z.
Proof. unfold gen_skill_level. destruct pon, con; cbn; lia. Qed.

Theorem gen_skill_level_default named d pon con p c :
  gen_skill_level named None d pon con p c = ((match d with Some z => z | None => 0 end) + (if pon then p else 0) + (if con then c else 0))%Z.
Proof. unfold gen_skill_level. destruct named, d, pon, con; cbn; lia. Qed.

Definition cfg_le (c c' : config) : Prop :=
  levels_le (c_levels c) (c_levels c') /\ (c_passive c <= c_passive c')%Z /\ (c_co c <= c_co c')%Z
  /\ (c_v_improvement c <= c_v_improvement c')%Z /\ (c_hexa_improvement c <= c_hexa_improvement c')%Z
  /\ c_vars c = c_vars c'.

Lemma eff_level_mono_gen c c' f : levels_le (c_levels c) (c_levels c') -> (c_passive c <= c_passive c')%Z -> (c_co c <= c_co c')%Z ->
  (eff_level c f <= eff_level c' f)%Z.
Proof.
  intros Hl Hp Hc. unfold eff_level. apply gen_skill_level_mono; try assumption.
  pose proof (lookup_le _ _ Hl (f_skill f)) as H. unfold opt_le.
  destruct (lookup (f_skill f) (c_levels c)), (lookup (f_skill f) (c_levels c')); exact H.
Qed.

Lemma eff_level_mono c c' f : cfg_le c c' -> (eff_level c f <= eff_level c' f)%Z.
Proof. intros (Hl & Hp & Hc & _). apply eff_level_mono_gen; assumption. Qed.

(* ------------------------------------------------------------------------------------------------ formula table *)
Lemma all_damage_ok : forallb damage_ok formulas = true.
Proof. vm_compute. reflexivity. Qed.

Lemma all_parse : forallb parses_to formulas = true.
Proof. vm_compute. reflexivity. Qed.

Lemma ids_ok : ids_from 0 formulas = true.
Proof. vm_compute. reflexivity. Qed.

Theorem formulas_parse f : In f formulas -> parse (f_toks f) = Some (f_expr f).
Proof. intros H. apply parses_to_sound. exact (proj1 (forallb_forall _ _) all_parse f H). Qed.

Lemma damage_ok_inv f : In f formulas -> f_damage f = true ->
  range_ok f = true /\ level_ok level_var f = true /\ forall x, In x other_level_vars -> const_in x (f_expr f) = true.
Proof.
  intros Hin Hd. pose proof (proj1 (forallb_forall _ _) all_damage_ok f Hin) as H. unfold damage_ok in H. rewrite Hd in H. cbn [negb orb] in H.
  apply andb_prop in H. destruct H as [H H3]. apply andb_prop in H. destruct H as [H1 H2].
  repeat split; try assumption. intros x Hx. exact (proj1 (forallb_forall _ _) H3 x Hx).
Qed.

(* HEADLINE (formulas): every damage-figure formula is non-decreasing in the level over its documented range, in every
   non-negative binding of the other variables *)
Theorem damage_formula_mono f : In f formulas -> f_damage f = true ->
  forall r, env_nonneg r -> forall l1 l2, (f_lo f <= l1)%Z -> (l1 <= l2)%Z -> (l2 <= f_hi f)%Z ->
  forall v1 v2, eval (at_level r level_var l1) (f_expr f) = Some v1 -> eval (at_level r level_var l2) (f_expr f) = Some v2 -> v1 <= v2.
Proof.
  intros Hin Hd. destruct (damage_ok_inv f Hin Hd) as (Hr & Hl & _). unfold range_ok in Hr. apply andb_prop in Hr. destruct Hr as [Hr _].
  apply level_ok_sound; [exact Hl|]. apply Z.leb_le. exact Hr.
Qed.

(* ... and its definedness does not depend on the level inside the range *)
Theorem damage_formula_defined f : In f formulas -> f_damage f = true ->
  forall r l1 l2, (f_lo f <= l1 <= f_hi f)%Z -> (f_lo f <= l2 <= f_hi f)%Z ->
  eval (at_level r level_var l1) (f_expr f) <> None -> eval (at_level r level_var l2) (f_expr f) <> None.
Proof.
  intros Hin Hd r l1 l2 H1 H2 D. destruct (damage_ok_inv f Hin Hd) as (_ & Hl & _).
  destruct (const_in level_var (f_expr f)) eqn:Hc.
  - unfold at_level in *. rewrite (const_sound r level_var _ _ Hc) in D. rewrite (const_sound r level_var _ _ Hc). exact D.
  - exact (level_ok_defined level_var f Hl Hc r l1 l2 H1 H2 D).
Qed.

(* the formulas whose only variable is the level are DEFINED on their whole range (no other input needed) *)
Theorem closed_damage_formula_total f : In f formulas -> f_damage f = true -> only_var level_var (f_expr f) = true ->
  const_in level_var (f_expr f) = false ->
  forall r l, (f_lo f <= l <= f_hi f)%Z -> exists v, eval (at_level r level_var l) (f_expr f) = Some v.
Proof.
  intros Hin Hd Ho Hc r l Hl. destruct (damage_ok_inv f Hin Hd) as (_ & Hk & _). unfold level_ok in Hk. rewrite Hc, Ho in Hk.
  destruct (sweep_sound _ _ _ _ Hk l l) as (v & _ & E & _); try lia. exists v. unfold at_level in *.
  rewrite (only_var_eval _ _ Ho r no_env). exact E.
Qed.

(* substitute-then-evaluate = bind-then-evaluate, for every expression, level and binding *)
Theorem substitution_is_binding e r l : eval r (subst level_var (inject_Z l) e) = eval (at_level r level_var l) e.
Proof. apply subst_eval. Qed.

(* ------------------------------------------------------------------------------------------------ formula values of a configuration *)
Lemma nth_error_formulas_In fid f : nth_error formulas fid = Some f -> In f formulas.
Proof. apply nth_error_In. Qed.

Lemma env_of_eq c c' : c_vars c = c_vars c' -> env_of (c_vars c) = env_of (c_vars c').
Proof. intros ->. reflexivity. Qed.

Lemma fval_mono c c' fid f : nth_error formulas fid = Some f -> f_damage f = true -> cfg_le c c' ->
  env_nonneg (env_of (c_vars c)) -> in_range c f = true -> in_range c' f = true -> fval_le (fval c) (fval c') fid.
Proof.
  intros Hn Hd Hle Hr Hi Hi' a b Ea Eb. unfold fval in Ea, Eb. rewrite Hn in Ea, Eb.
  destruct Hle as (H1 & H2 & H3 & H4 & H5 & H6). rewrite <- (env_of_eq c c' H6) in Eb.
  unfold in_range in Hi, Hi'. apply andb_prop in Hi. apply andb_prop in Hi'. destruct Hi as [Hi _]. destruct Hi' as [_ Hi'].
  apply Z.leb_le in Hi. apply Z.leb_le in Hi'.
  eapply (damage_formula_mono f (nth_error_formulas_In _ _ Hn) Hd (env_of (c_vars c)) Hr (eff_level c f) (eff_level c' f)); try eassumption.
  apply eff_level_mono. repeat split; assumption.
Qed.

(* ------------------------------------------------------------------------------------------------ documented configurations *)
Record doc_levels := mkDoc { d_v : Z; d_h : Z; d_m : Z; d_p : Z; d_c : Z; d_vi : Z; d_hi : Z }.
Definition doc_ok (d : doc_levels) : Prop :=
  (0 <= d_v d <= max_skill_level)%Z /\ (0 <= d_h d <= max_skill_level)%Z /\ (0 <= d_m d <= max_skill_level)%Z
  /\ (0 <= d_p d <= max_offset)%Z /\ (0 <= d_c d <= max_offset)%Z
  /\ (0 <= d_vi d <= max_v_improvement)%Z /\ (0 <= d_hi d <= max_hexa_improvement)%Z.
Definition doc_le (d d' : doc_levels) : Prop :=
  (d_v d <= d_v d')%Z /\ (d_h d <= d_h d')%Z /\ (d_m d <= d_m d')%Z /\ (d_p d <= d_p d')%Z /\ (d_c d <= d_c d')%Z
  /\ (d_vi d <= d_vi d')%Z /\ (d_hi d <= d_hi d')%Z.
(* the environment MinimalEnvironmentProvider / BaselineEnvironmentProvider make from the seven level axes *)
Definition doc_cfg (p : profile) (d : doc_levels) (vars : list (string * Q)) : config :=
  mkCfg (skill_levels_of p (d_v d) (d_h d) (d_m d)) (d_p d) (d_c d) (d_vi d) (d_hi d) vars.

Lemma doc_cfg_le p d d' vars : doc_le d d' -> cfg_le (doc_cfg p d vars) (doc_cfg p d' vars).
Proof.
  intros (H1 & H2 & H3 & H4 & H5 & H6 & H7). unfold cfg_le, doc_cfg. cbn [c_levels c_passive c_co c_v_improvement c_hexa_improvement c_vars].
  repeat split; try assumption. apply skill_levels_of_le; assumption.
Qed.

Lemma all_hull_ok : forallb (fun p => forallb (hull_ok p) formulas) profiles = true.
Proof. vm_compute. reflexivity. Qed.

(* every formula of a profile's groups stays inside its hull [f_lo, f_hi] on the whole documented configuration space *)
Theorem documented_in_range p f d vars : In p profiles -> In f formulas -> uses p f = true -> doc_ok d ->
  in_range (doc_cfg p d vars) f = true.
Proof.
  intros Hp Hf Hu (Hv & Hh & Hm & Hpp & Hc & _).
  pose proof (proj1 (forallb_forall _ _) (proj1 (forallb_forall _ _) all_hull_ok p Hp) f Hf) as H.
  unfold hull_ok in H. rewrite Hu in H. cbn [negb orb] in H. apply andb_prop in H. destruct H as [Hlo Hhi].
  apply Z.leb_le in Hlo. apply Z.leb_le in Hhi.
  unfold in_range. apply andb_true_intro. split; apply Z.leb_le.
  - eapply Z.le_trans; [exact Hlo|]. apply eff_level_mono_gen; unfold corner_cfg, doc_cfg; cbn [c_levels c_passive c_co]; try lia.
    apply skill_levels_of_le; lia.
  - eapply Z.le_trans; [|exact Hhi]. apply eff_level_mono_gen; unfold corner_cfg, doc_cfg; cbn [c_levels c_passive c_co]; try lia.
    apply skill_levels_of_le; lia.
Qed.

(* ------------------------------------------------------------------------------------------------ built scalar figures *)
Lemma all_figures_ok : forallb figure_ok figures = true.
Proof. vm_compute. reflexivity. Qed.
Lemma all_figures_scoped : forallb figure_scoped figures = true.
Proof. vm_compute. reflexivity. Qed.

Lemma profile_of_In job p : profile_of job = Some p -> In p profiles.
Proof. unfold profile_of. intros H. apply find_some in H. tauto. Qed.

Lemma fid_mono p d d' vars fid : In p profiles -> fid_used p fid = true -> fid_damage fid = true ->
  doc_ok d -> doc_ok d' -> doc_le d d' -> env_nonneg (env_of vars) ->
  fval_le (fval (doc_cfg p d vars)) (fval (doc_cfg p d' vars)) fid.
Proof.
  intros Hp Hu Hfd Hok Hok' Hle Hr. unfold fid_used in Hu. unfold fid_damage in Hfd.
  destruct (nth_error formulas fid) as [f|] eqn:En; [|discriminate].
  apply (fval_mono _ _ fid f En Hfd (doc_cfg_le p d d' vars Hle)).
  - exact Hr.
  - apply documented_in_range; try assumption. eapply nth_error_In; eassumption.
  - apply documented_in_range; try assumption. eapply nth_error_In; eassumption.
Qed.

(* HEADLINE (built scalar fields): on the documented configuration space, raising any of the seven level axes (others
   fixed or raised as well) never lowers a damage figure of a built component: formula, then the hyper-skill
   additions / multiplications, then the additions of skill improvements *)
Theorem built_figure_mono p g d d' vars : profile_of (g_job g) = Some p -> In g figures -> g_damage g = true ->
  doc_ok d -> doc_ok d' -> doc_le d d' -> env_nonneg (env_of vars) ->
  forall v v', figure_value (doc_cfg p d vars) g = Some v -> figure_value (doc_cfg p d' vars) g = Some v' -> v <= v'.
Proof.
  intros Hp Hg Hd Hok Hok' Hle Hr v v' E E'.
  pose proof (proj1 (forallb_forall _ _) all_figures_ok g Hg) as Hk. unfold figure_ok in Hk. rewrite Hd in Hk. cbn [negb orb] in Hk.
  apply andb_prop in Hk. destruct Hk as [Hk Hpo]. apply andb_prop in Hk. destruct Hk as [Hn Hb].
  pose proof (proj1 (forallb_forall _ _) all_figures_scoped g Hg) as Hs. unfold figure_scoped in Hs. rewrite Hp in Hs.
  rewrite forallb_forall in Hs. rewrite forallb_forall in Hpo.
  pose proof (profile_of_In _ _ Hp) as Hin.
  unfold figure_value in *. eapply fig_value_le; [exact Hn| | |exact E|exact E'].
  - intros fid Hb'. rewrite Hb' in Hb. apply fid_mono; try assumption. apply Hs. unfold fig_fids. rewrite Hb'. left. reflexivity.
  - intros fid Hi. apply fid_mono; try assumption.
    + apply Hs. unfold fig_fids. apply in_or_app. right. apply in_flat_map. exists (PAddF fid). split; [exact Hi|left; reflexivity].
    + exact (Hpo (PAddF fid) Hi).
Qed.

(* ------------------------------------------------------------------------------------------------ hexa table, v improvement *)
Lemma hexa_sweep :
  (match gen_hexa_fdm 0 with Some a => Qle_bool 0 a | None => false end) && forallb (fstep_ok gen_hexa_fdm) (zspan 0 max_hexa_improvement) = true.
Proof. vm_compute. reflexivity. Qed.

(* the hexa improvement multiplier is defined on 0..30, non-negative and never decreases with the level *)
Theorem hexa_table_mono l1 l2 : (0 <= l1)%Z -> (l1 <= l2)%Z -> (l2 <= max_hexa_improvement)%Z ->
  exists a b, gen_hexa_fdm l1 = Some a /\ gen_hexa_fdm l2 = Some b /\ 0 <= a /\ a <= b.
Proof.
  intros H1 H12 H2. pose proof hexa_sweep as H. apply andb_prop in H. destruct H as [H0 Hs].
  destruct (gen_hexa_fdm 0) as [z|] eqn:Ez; [|discriminate].
  destruct (fsweep gen_hexa_fdm 0 max_hexa_improvement (ex_intro _ z Ez) Hs 0 l1) as (z' & a & E0 & Ea & Hza); try lia.
  destruct (fsweep gen_hexa_fdm 0 max_hexa_improvement (ex_intro _ z Ez) Hs l1 l2) as (a' & b & Ea' & Eb & Hab); try lia.
  rewrite Ea in Ea'. injection Ea' as <-. rewrite Ez in E0. injection E0 as <-.
  exists a, b. repeat split; try assumption. apply Qle_bool_le in H0. eapply Qle_trans; eassumption.
Qed.

Lemma all_blocks_ok : forallb block_ok sblocks = true.
Proof. vm_compute. reflexivity. Qed.
Lemma all_blocks_scoped : forallb block_scoped sblocks = true.
Proof. vm_compute. reflexivity. Qed.

Lemma gen_v_ied_bounds l : 0 <= gen_v_ied l /\ gen_v_ied l <= 100.
Proof.
  unfold gen_v_ied. repeat match goal with |- context [if ?c then _ else _] => destruct c end; split; unfold Qle; cbn; lia.
Qed.

(* the v improvement multiplier scale * level and its ignored-defence bonus never decrease with the level *)
Theorem v_improvement_mono scale l1 l2 : 0 <= scale -> (l1 <= l2)%Z ->
  gen_v_fdm scale l1 <= gen_v_fdm scale l2 /\ gen_v_ied l1 <= gen_v_ied l2.
Proof.
  intros Hs H. split.
  - unfold gen_v_fdm. pose proof (inject_Z_le _ _ H). nra.
  - unfold gen_v_ied.
    repeat match goal with |- context [if ?c then _ else _] => let E := fresh "E" in destruct c eqn:E end;
      try apply Qle_refl; try (unfold Qle; cbn; lia).
Qed.
