(* C06: the engine of Model/Engine.v instantiated with the play() of Model/Play.v whose
   router is "all component dispatchers, then the timer": every command advances the
   clock by exactly the time it is documented to. Times are integer ticks (Z). *)
From Coq Require Import List ZArith Lia Bool.
From V.Model Require Import Engine Play.
Import ListNotations.
Open Scope Z_scope.

Section EngineClock.
  Variables S Pay Name Meth Tag Ck : Type.
  Notation event := (Play.event Pay Name Meth Tag).
  Notation action := (Play.action Pay Name Meth Tag).
  Notation store := (Play.store S Pay Name Meth Tag).

  Variable clock : S -> Z.
  Variable set_clock : S -> Z -> S.
  Hypothesis clock_set : forall s t, clock (set_clock s t) = t.
  Variable comp : action -> S -> S * list event.          (* every installed component dispatcher *)
  Hypothesis Hframe : forall a s, clock (fst (comp a s)) = clock s.   (* components never write the clock *)
  Variable is_star : Name -> bool.
  Variable is_elapse : Meth -> bool.
  Variable star : Name.
  Hypothesis star_is_star : is_star star = true.
  Variables m_use m_elapse m_stop : Meth.
  Hypothesis elapse_is_elapse : is_elapse m_elapse = true.
  Variable name_eqb : Name -> Name -> bool.
  Variable is_delay : Tag -> bool.
  Variable time_of : Pay -> Z.                              (* payload["time"] *)
  Variable save : store -> Ck.

  Definition rt := Play.router S Pay Name Meth Tag clock set_clock comp is_star is_elapse.
  Definition eplay (st : store) (a : action) : store * list event :=
    let '(st', ev, _) := Play.play S Pay Name Meth Tag rt st a in (st', ev).
  Definition sclock (st : store) : Z := clock (ent _ _ _ _ _ st).
  Definition mk_act (n : Name) (m : meth) (t : option Z) : action :=
    {| aname := n;
       am := Direct _ _ (match m with MUse => m_use | MElapse => m_elapse | MStop => m_stop end);
       ap := match t with Some t => PTime _ t | None => PNone _ end |}.
  Definition ev_delay (e : event) : option Z :=
    if is_delay (etag _ _ _ _ e) then Some (time_of (epay _ _ _ _ e)) else None.
  Definition ev_name (e : event) : Name := ename _ _ _ _ e.

  Notation exec_op := (Engine.exec_op store event action Ck Z Name eplay save sclock mk_act star ev_name ev_delay
                                       name_eqb 0 (fun t => 0 <? t) (fun t => t =? 0)).
  Notation next_elapse := (Engine.next_elapse event Z ev_delay 0 (fun t => 0 <? t)).

  (* stores reachable by play always hold callbacks of the relayed form *)
  Definition cb_wf (st : store) : Prop := exists E0, cbs _ _ _ _ _ st = map (callbacks Pay Name Meth Tag) E0.

  Lemma eplay_wf st a : cb_wf (fst (eplay st a)).
  Proof.
    unfold eplay, Play.play.
    destruct (run_queue S Pay Name Meth Tag rt (queue Pay Name Meth Tag (cbs _ _ _ _ _ st) a) (ent _ _ _ _ _ st)) as [[s' ev] tr].
    cbn. exists ev. reflexivity.
  Qed.

  Lemma eplay_clock st a : cb_wf st ->
    sclock (fst (eplay st a)) = sclock st + elapse_time Pay Name Meth Tag is_star is_elapse a.
  Proof.
    intros [E0 HE]. unfold sclock, eplay.
    pose proof (C06_play_clock S Pay Name Meth Tag clock set_clock clock_set comp Hframe is_star is_elapse st a E0 HE) as X.
    unfold rt. destruct (Play.play S Pay Name Meth Tag _ st a) as [[st' ev] tr]. exact X.
  Qed.

  Lemma elapse_time_mk_elapse t : elapse_time Pay Name Meth Tag is_star is_elapse (mk_act star MElapse (Some t)) = t.
  Proof. unfold elapse_time, mk_act; cbn. rewrite star_is_star, elapse_is_elapse. reflexivity. Qed.
  Lemma elapse_time_mk_none n m : elapse_time Pay Name Meth Tag is_star is_elapse (mk_act n m None) = 0.
  Proof. unfold elapse_time, mk_act; cbn. reflexivity. Qed.

  Notation advance := (Engine.advance event Z Name ev_name ev_delay name_eqb 0 (fun t => 0 <? t)).

  Lemma next_elapse_pos_or_0 l : next_elapse l = 0 \/ 0 < next_elapse l.
  Proof.
    induction l as [|e l IH]; cbn; [left; reflexivity|].
    destruct (ev_delay e) as [t|]; [|exact IH].
    destruct (0 <? t) eqn:E; [right; apply Z.ltb_lt; exact E|exact IH].
  Qed.

  Theorem C06_exec_op o st b : cb_wf st ->
    let '(st', pls, b') := exec_op o st b in
    cb_wf st' /\
    sclock st' = sclock st + advance o b (snd (eplay st (Engine.first_action event action Z Name mk_act star ev_name ev_delay name_eqb 0 (fun t => 0 <? t) o b))) /\
    (* every play log's clock is the clock of its checkpointed store and the logs' elapse payloads add up *)
    sclock st' = sclock st + fold_right (fun p acc => elapse_time Pay Name Meth Tag is_star is_elapse (pact _ _ _ _ p) + acc) 0 pls /\
    Forall (fun p => sclock st <= pclock _ _ _ _ p \/ exists q, In q pls /\ elapse_time Pay Name Meth Tag is_star is_elapse (pact _ _ _ _ q) < 0) pls.
  Proof.
    intros Hwf. unfold Engine.exec_op.
    set (a1 := Engine.first_action event action Z Name mk_act star ev_name ev_delay name_eqb 0 (fun t => 0 <? t) o b).
    pose proof (eplay_clock st a1 Hwf) as C1. pose proof (eplay_wf st a1) as W1.
    destruct (eplay st a1) as [st1 e1] eqn:P1. cbn [fst snd] in *.
    assert (A1 : elapse_time Pay Name Meth Tag is_star is_elapse a1 =
                 match o with ELAPSE _ _ t => t | RESOLVE _ _ n => next_elapse (filter (fun e => name_eqb (ev_name e) n) b) | _ => 0 end).
    { unfold a1, Engine.first_action. destruct o; try apply elapse_time_mk_none; apply elapse_time_mk_elapse. }
    unfold Engine.second_action.
    destruct o as [n|n|t|n|n]; cbn [Engine.advance].
    - (* CAST *)
      destruct (next_elapse e1 =? 0) eqn:E0.
      + apply Z.eqb_eq in E0. repeat split; auto; cbn [fold_right pact Engine.mkpl]; try lia.
        constructor; [|constructor]. left. cbn. lia.
      + pose proof (eplay_clock st1 (mk_act star MElapse (Some (next_elapse e1))) W1) as C2.
        pose proof (eplay_wf st1 (mk_act star MElapse (Some (next_elapse e1)))) as W2.
        destruct (eplay st1 (mk_act star MElapse (Some (next_elapse e1)))) as [st2 e2]. cbn [fst] in *.
        rewrite elapse_time_mk_elapse in C2.
        destruct (next_elapse_pos_or_0 e1) as [Z0|Zp]; [apply Z.eqb_neq in E0; contradiction|].
        repeat split; auto; cbn [fold_right pact Engine.mkpl]; try rewrite elapse_time_mk_elapse; try lia.
        constructor; [left; cbn; lia|constructor; [left; cbn; lia|constructor]].
    - repeat split; auto; cbn [fold_right pact Engine.mkpl]; try lia. constructor; [left; cbn; lia|constructor].
    - destruct (Z_le_gt_dec 0 t).
      + repeat split; auto; cbn [fold_right pact Engine.mkpl]; try lia. constructor; [left; cbn; lia|constructor].
      + repeat split; auto; cbn [fold_right pact Engine.mkpl]; try lia.
        constructor; [|constructor]. right. eexists; split; [left; reflexivity|]. cbn [pact Engine.mkpl]. lia.
    - repeat split; auto; cbn [fold_right pact Engine.mkpl]; try lia. constructor; [left; cbn; lia|constructor].
    - destruct (next_elapse_pos_or_0 (filter (fun e => name_eqb (ev_name e) n) b)) as [Z0|Zp];
      repeat split; auto; cbn [fold_right pact Engine.mkpl]; try lia; (constructor; [left; cbn; lia|constructor]).
  Qed.

  Lemma advance_nonneg o b e1 : (forall t, o = ELAPSE _ _ t -> 0 <= t) -> 0 <= advance o b e1.
  Proof.
    intros Ht. destruct o as [n|n|t|n|n]; cbn [Engine.advance]; try lia.
    - destruct (next_elapse_pos_or_0 e1); lia.
    - apply Ht; reflexivity.
    - destruct (next_elapse_pos_or_0 (filter (fun e => name_eqb (ev_name e) n) b)); lia.
  Qed.
  (* the clock never decreases under non-negative elapse requests *)
  Theorem C06_monotone o st b : cb_wf st -> (forall t, o = ELAPSE _ _ t -> 0 <= t) ->
    sclock st <= sclock (fst (fst (exec_op o st b))).
  Proof.
    intros Hwf Ht. pose proof (C06_exec_op o st b Hwf) as X.
    destruct (exec_op o st b) as [[st' pls] b']. destruct X as (_ & X & _). cbn [fst]. rewrite X.
    pose proof (advance_nonneg o b (snd (eplay st (Engine.first_action event action Z Name mk_act star ev_name ev_delay name_eqb 0 (fun t => 0 <? t) o b))) Ht). lia.
  Qed.
End EngineClock.
