(* TandemDispatcher.__call__, ContextDispatcher.__call__ and RouterDispatcher.__call__ as GENERATED from the source
   (gen/DispatchSrc.v, by tools/tr_dispatch.py) are the Tandem / Ctx branches of call_d and one unfolding of dispatch_c of
   Model/Router.v - the definitions the C02 router theorems (and, through Model/Dispatch.v, C05-C07 and C10) are about. *)
From Coq Require Import List Bool.
Import ListNotations.
From V Require Import Lib.PyDisp Model.Router.
From G Require Import DispatchSrc.

Section Tie.
  Variables Sig Act St Ev : Type.
  Variable sig_eqb : Sig -> Sig -> bool.
  Variable sig_of : Act -> Sig.
  Variable is_reject : Ev -> bool.
  Notation disp_ := (disp Sig Act St Ev).
  Notation call_d_ := (call_d Sig Act St Ev sig_eqb sig_of is_reject).

  Section Any.
    Variable X : Type.
    Variable router : X -> Act -> St -> X * option (St * list Ev).
    Let calld : disp_ -> Act -> M X St (list Ev) := fun d a x st => call_d_ X router d x a st.

    Lemma for_acc_run_next (a : Act) (nx : list disp_) : forall x st acc,
      for_acc nx (fun d => calld d a) acc x st
      = run_next Sig Act St Ev X (fun d' x' st' => call_d_ X router d' x' a st') nx x st acc.
    Proof.
      induction nx as [|d nx IH]; intros x st acc; [reflexivity|].
      cbn [for_acc run_next]. unfold bindM at 1. unfold calld at 1.
      destruct (call_d_ X router d x a st) as [x' [[st' ev']|]]; [apply IH|reflexivity].
    Qed.

    Theorem src_tandem_is_call_d (b : disp_) (nx : list disp_) (a : Act) (x : X) (st : St) :
      src_tandem_call Sig Act St Ev is_reject X calld b nx a x st = call_d_ X router (@Tandem Sig Act St Ev b nx) x a st.
    Proof.
      unfold src_tandem_call. cbn [call_d]. unfold bindM at 1. unfold calld at 1.
      destruct (call_d_ X router b x a st) as [x1 [[st1 ev1]|]]; [|reflexivity].
      destruct (existsb _ ev1); [reflexivity|].
      unfold bindM. rewrite for_acc_run_next.
      destruct (run_next _ _ _ _ _ _ nx x1 st1 ev1) as [x2 [[st2 ev2]|]]; reflexivity.
    Qed.

    Theorem src_context_is_call_d (w : Sig) (defined : Act) (a : Act) (x : X) (st : St) :
      src_context_call Sig Act St Ev sig_eqb sig_of X (fun a' x' st' => router x' a' st') w defined a x st
      = call_d_ X router (@Ctx Sig Act St Ev w defined) x a st.
    Proof. unfold src_context_call. cbn [call_d]. destruct (sig_eqb (sig_of a) w); reflexivity. Qed.
  End Any.

  (* ---- the router itself: X = the route cache *)
  Notation cache_ := (cache Sig).
  Variable rec : cache_ -> Act -> St -> cache_ * option (St * list Ev).      (* the router one level down (re-entrance) *)
  Let calld : disp_ -> Act -> M cache_ St (list Ev) := fun d a x st => call_d_ cache_ rec d x a st.

  Lemma for_acc_run_idx (ds : list disp_) (a : Act) (idx : list nat) : forall x st acc,
    for_acc idx (fun i => match nth_error ds i with Some d => calld d a | None => failM end) acc x st
    = run_idx Sig Act St Ev sig_eqb sig_of is_reject cache_ rec ds idx x a st acc.
  Proof.
    induction idx as [|i idx IH]; intros x st acc; [reflexivity|].
    cbn [for_acc run_idx]. unfold bindM at 1. destruct (nth_error ds i) as [d|]; [|reflexivity].
    unfold calld at 1. destruct (call_d_ cache_ rec d x a st) as [x' [[st' ev']|]]; [apply IH|reflexivity].
  Qed.

  Lemma for_st_run_scan (a : Act) (s : Sig) (ds : list disp_) : forall i x st acc hit,
    for_st (enum_from i ds) (fun '(i, dispatcher) '(events, cache) =>
        if includes Sig Act St Ev sig_eqb dispatcher s then
          let cache := cache ++ [i] in bindM (calld dispatcher a) (fun r => retM (events ++ r, cache))
        else retM (events, cache)) (acc, hit) x st
    = match run_scan Sig Act St Ev sig_eqb sig_of is_reject cache_ rec ds i s x a st acc hit with
      | (x', Some (st', evs, h)) => (x', Some (st', (evs, h)))
      | (x', None) => (x', None)
      end.
  Proof.
    induction ds as [|d ds IH]; intros i x st acc hit; [reflexivity|].
    cbn [enum_from for_st run_scan]. unfold bindM at 1.
    destruct (includes Sig Act St Ev sig_eqb d s).
    - cbv zeta. unfold bindM at 1. unfold calld at 1.
      destruct (call_d_ cache_ rec d x a st) as [x' [[st' ev']|]]; [|reflexivity].
      unfold retM at 1. apply IH.
    - unfold retM at 1. apply IH.
  Qed.

  Theorem src_router_is_dispatch_step (ds : list disp_) (a : Act) (c : cache_) (st : St) :
    src_router_call Sig Act St Ev sig_eqb sig_of calld ds a c st
    = match lookup Sig sig_eqb c (sig_of a) with
      | Some idx => run_idx Sig Act St Ev sig_eqb sig_of is_reject cache_ rec ds idx c a st []
      | None =>
          match run_scan Sig Act St Ev sig_eqb sig_of is_reject cache_ rec ds 0 (sig_of a) c a st [] [] with
          | (c', Some (st', evs, hit)) => (put Sig c' (sig_of a) hit, Some (st', evs))
          | (c', None) => (c', None)
          end
      end.
  Proof.
    unfold src_router_call. cbv zeta. unfold bindM at 1, getX at 1.
    destruct (lookup Sig sig_eqb c (sig_of a)) as [idx|].
    - unfold bindM. rewrite for_acc_run_idx.
      destruct (run_idx _ _ _ _ _ _ _ _ _ ds idx c a st []) as [x' [[st' ev']|]]; reflexivity.
    - unfold bindM at 1. rewrite for_st_run_scan.
      destruct (run_scan _ _ _ _ _ _ _ _ _ ds 0 (sig_of a) c a st [] []) as [c' [[[st' evs] hit]|]]; reflexivity.
  Qed.
End Tie.

(* one unfolding of the model's router is the generated __call__ applied to the router one level down *)
Theorem src_router_is_dispatch_c (Sig Act St Ev : Type) (sig_eqb : Sig -> Sig -> bool) (sig_of : Act -> Sig) (is_reject : Ev -> bool)
  (n : nat) (ds : list (disp Sig Act St Ev)) (a : Act) (c : cache Sig) (st : St) :
  dispatch_c Sig Act St Ev sig_eqb sig_of is_reject (S n) ds c a st
  = src_router_call Sig Act St Ev sig_eqb sig_of
      (fun d a' x st' => call_d Sig Act St Ev sig_eqb sig_of is_reject (cache Sig) (dispatch_c Sig Act St Ev sig_eqb sig_of is_reject n ds) d x a' st')
      ds a c st.
Proof. rewrite src_router_is_dispatch_step. reflexivity. Qed.
