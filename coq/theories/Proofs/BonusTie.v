(* C18: the tables the hand-written model computes are the tables the real code builds, and the
   real candidate table is complete.  Every conjunct is a finite fact decided by vm_compute. *)
From Coq Require Import ZArith List Bool.
From V.Model Require Import Bonus BonusTieDefs.
From G Require Import BonusTbl.

Theorem tables_are_real :
  constants_ok = true /\ lookup_ok = true /\ index_ok = true /\ sdil_tables_ok = true /\
  impr_ok = true /\ real_cands_ok = true /\
  (100 <=? length real_sdil_tables)%nat = true /\ (500 <=? length real_impr)%nat = true.
Proof. repeat match goal with |- _ /\ _ => split end; vm_cast_no_check (eq_refl true). Qed.
