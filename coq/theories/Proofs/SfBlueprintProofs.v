(* C17 -- the composition GeneralizedGearBlueprint.build performs (g_build, GENERATED from the
   function's AST) equals the specification "base + spell traces + scrolls + star force (on the
   scrolled stat) + bonuses + exceptional part, each exactly once", in every commutative monoid
   of stat blocks (laws up to an equivalence), hence in the generated 27-field Stat algebra. *)
From Coq Require Import ZArith QArith List Bool Lia Setoid Morphisms Permutation.
From V.Model Require Import SfBase SfBlueprint.
From V.Proofs Require Import SfProofs StatLaws.
From G Require Import SfGen CoreQ.
Import ListNotations.

Definition opt_rel {S} (R : S -> S -> Prop) (a b : option S) : Prop :=
  match a, b with Some x, Some y => R x y | None, None => True | _, _ => False end.

Section Monoid.
  Context {S : Type} (eqv : S -> S -> Prop) (add : S -> S -> S) (zero : S).
  Context (eqv_equiv : Equivalence eqv)
          (add_proper : Proper (eqv ==> eqv ==> eqv) add)
          (add_assoc : forall a b c, eqv (add (add a b) c) (add a (add b c)))
          (add_comm : forall a b, eqv (add a b) (add b a))
          (add_0_l : forall a, eqv (add zero a) a).
  Notation msum := (msum add zero).

  Lemma add_0_r a : eqv (add a zero) a.
  Proof. rewrite add_comm. apply add_0_l. Qed.

  Lemma fold_acc l : forall a, eqv (fold_left add l a) (add a (msum l)).
  Proof.
    induction l as [|x l IH]; intros a; unfold SfBlueprint.msum in *; cbn [fold_left].
    - symmetry. apply add_0_r.
    - rewrite (IH (add a x)). rewrite (IH (add zero x)). rewrite add_0_l. apply add_assoc.
  Qed.
  Lemma msum_nil : msum [] = zero.
  Proof. reflexivity. Qed.
  Lemma msum_cons x l : eqv (msum (x :: l)) (add x (msum l)).
  Proof. unfold SfBlueprint.msum at 1. cbn [fold_left]. rewrite fold_acc. rewrite add_0_l. reflexivity. Qed.
  Lemma msum_app l1 l2 : eqv (msum (l1 ++ l2)) (add (msum l1) (msum l2)).
  Proof.
    induction l1 as [|x l IH]; cbn [app].
    - rewrite msum_nil, add_0_l. reflexivity.
    - rewrite !msum_cons, IH. symmetry. apply add_assoc.
  Qed.
  Lemma msum_perm l l' : Permutation l l' -> eqv (msum l) (msum l').
  Proof.
    induction 1 as [|x l l' _ IH|x y l|l l' l'' _ IH1 _ IH2].
    - reflexivity.
    - rewrite !msum_cons, IH. reflexivity.
    - rewrite !msum_cons. rewrite <- !add_assoc. rewrite (add_comm y x). reflexivity.
    - etransitivity; eassumption.
  Qed.

  (* what build computes = the specification *)
  Theorem build_decomposes sf base traces scrolls bonuses exc :
    opt_rel eqv (g_build add zero sf base traces scrolls bonuses exc)
                (spec_build add zero sf base traces scrolls bonuses exc).
  Proof.
    unfold g_build, spec_build, scrolled.
    destruct (sf (add base (add (msum traces) (msum scrolls)))) as [s|]; [|exact I].
    destruct exc as [e|]; cbn [opt_rel opt_list].
    - rewrite msum_cons, !msum_app, msum_cons, msum_app, msum_cons, msum_nil, add_0_r.
      rewrite !add_assoc. reflexivity.
    - rewrite msum_cons, !msum_app, msum_cons, msum_app, msum_nil, add_0_r.
      rewrite !add_assoc. reflexivity.
  Qed.

  (* every part exactly once, in whatever order one adds them up *)
  Corollary build_any_order sf base traces scrolls bonuses exc s parts :
    sf (scrolled add zero base traces scrolls) = Some s ->
    Permutation parts (base :: traces ++ scrolls ++ s :: bonuses ++ opt_list exc) ->
    exists g, g_build add zero sf base traces scrolls bonuses exc = Some g /\ eqv g (msum parts).
  Proof.
    intros Hs Hp. pose proof (build_decomposes sf base traces scrolls bonuses exc) as D.
    unfold spec_build in D. rewrite Hs in D.
    destruct (g_build add zero sf base traces scrolls bonuses exc) as [g|]; [|contradiction].
    exists g. split; [reflexivity|]. cbn [opt_rel] in D. rewrite D. symmetry. apply msum_perm. exact Hp.
  Qed.

  (* star force refused <-> the build is refused *)
  Theorem build_refused_iff sf base traces scrolls bonuses exc :
    g_build add zero sf base traces scrolls bonuses exc = None <-> sf (scrolled add zero base traces scrolls) = None.
  Proof.
    unfold g_build, scrolled. destruct (sf _); [|tauto]. destruct exc; split; discriminate.
  Qed.
End Monoid.

(* ------------------------------------------------------------------ the practical blueprint *)
Theorem practical_translation {S} (m : Meta) (trace scroll : option S) (star : Z) :
  g_practical m trace scroll star =
  (match trace with Some t => repeat t (Z.to_nat (m_tuc m)) | None => [] end,
   match trace with Some _ => [] | None => match scroll with Some s => repeat s (Z.to_nat (m_tuc m)) | None => [] end end,
   Z.min star (g_max_star m)).
Proof. unfold g_practical. destruct trace, scroll; reflexivity. Qed.

(* over the eight star-force fields, with the generated star force as the oracle: a practical
   blueprint is never refused whatever star count is asked for, and its star force is the one of
   min(star, cap) stars on the scrolled stat *)
Theorem practical_build_defined (m : Meta) (trace scroll : option SStat) (star : Z) (base : SStat) (bonuses : list SStat) :
  (0 <= m_req_level m)%Z ->
  let '(tr, sc, st) := g_practical m trace scroll star in
  snonneg (scrolled sadd szero base tr sc) ->
  exists sfv g, g_calc m (scrolled sadd szero base tr sc) (Z.min star (g_max_star m)) = Some sfv /\ snonneg sfv /\
    g_build sadd szero (fun ref => g_calc m ref st) base tr sc bonuses None = Some g /\
    g = sadd (sadd (scrolled sadd szero base tr sc) sfv) (msum sadd szero bonuses).
Proof.
  intros Hl. rewrite practical_translation. intros Hn.
  destruct (cutoff_always_accepted m _ star Hl Hn) as (v & Ev & Nv). rewrite cutoff_is_min in Ev.
  exists v. eexists. split; [exact Ev|]. split; [exact Nv|].
  unfold g_build. unfold scrolled in Ev. rewrite Ev. split; reflexivity.
Qed.

(* a generalized blueprint asking for more stars than the cap does not build *)
Theorem generalized_build_refused_beyond_cap (m : Meta) (star : Z) (base : SStat) (traces scrolls bonuses : list SStat) exc :
  (g_max_star m < star)%Z ->
  g_build sadd szero (fun ref => g_calc m ref star) base traces scrolls bonuses exc = None.
Proof.
  intros H. apply build_refused_iff. apply calc_refused. exact H.
Qed.

(* ------------------------------------------------------------------ instance: the generated 27-field Stat algebra *)
Theorem build_decomposes_Stat sf base traces scrolls bonuses exc :
  opt_rel Stat_seq (g_build Stat_add Stat_zero sf base traces scrolls bonuses exc)
                   (spec_build Stat_add Stat_zero sf base traces scrolls bonuses exc).
Proof.
  apply (build_decomposes Stat_seq Stat_add Stat_zero Stat_seq_equiv Stat_add_mor Stat_add_assoc Stat_add_comm Stat_add_0_l).
Qed.

Example build_example :
  g_build Z.add 0%Z (fun ref => Some (ref * 2)%Z) 10%Z [1; 2]%Z [3]%Z [100; 200]%Z (Some 1000%Z) = Some 1348%Z.
Proof. reflexivity. Qed.
