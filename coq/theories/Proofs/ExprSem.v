(* What the operators of Model/Expr.v mean (floor, ceil, floor division), that the semantic-action table denotes
   exactly `eval`, and precedence / associativity as corollaries of the round trip. *)
From Coq Require Import QArith Qround Qminmax Lqa Lia List Bool ZArith String Arith.
From V.Model Require Import Expr ExprParse.
From V.Proofs Require Import ExprParseP.
Import ListNotations.

(* ---------------------------------------------------------------- floor / ceil / floor division *)
Lemma qfloor_spec x : qfloor x <= x /\ x < qfloor x + 1.
Proof.
  unfold qfloor. split; [apply Qfloor_le|]. pose proof (Qlt_floor x) as H. rewrite inject_Z_plus in H. exact H.
Qed.
Lemma qceil_spec x : qceil x - 1 < x /\ x <= qceil x.
Proof.
  unfold qceil. split; [|apply Qle_ceiling]. pose proof (Qceiling_lt x) as H.
  unfold Z.sub in H. rewrite inject_Z_plus in H. exact H.
Qed.
Lemma qfloor_unique x z : inject_Z z <= x -> x < inject_Z z + 1 -> qfloor x = inject_Z z.
Proof.
  intros H1 H2. unfold qfloor. f_equal. destruct (qfloor_spec x) as [F1 F2]. unfold qfloor in F1, F2.
  assert (A : (z < Qfloor x + 1)%Z).
  { rewrite Zlt_Qlt, inject_Z_plus. apply Qle_lt_trans with x; assumption. }
  assert (B : (Qfloor x < z + 1)%Z).
  { rewrite Zlt_Qlt, inject_Z_plus. apply Qle_lt_trans with x; assumption. }
  lia.
Qed.
Lemma qfloor_is_int x : exists z, qfloor x = inject_Z z.  Proof. eexists; reflexivity. Qed.
Lemma qceil_is_int x : exists z, qceil x = inject_Z z.  Proof. eexists; reflexivity. Qed.

(* x // y is the integer q with  q*y <= x < (q+1)*y  (y > 0), resp.  (q+1)*y < x <= q*y  (y < 0):
   the remainder x - q*y has the sign of the divisor, which is Python's definition *)
Lemma qidiv_spec_pos x y : 0 < y -> qidiv x y * y <= x /\ x < (qidiv x y + 1) * y.
Proof.
  intros Hy. unfold qidiv. destruct (qfloor_spec (x / y)) as [F1 F2].
  assert (E : x == (x / y) * y) by (field; lra).
  split.
  - rewrite E at 2. apply Qmult_le_compat_r; [exact F1|lra].
  - rewrite E at 1. apply Qmult_lt_compat_r; assumption.
Qed.
Lemma qidiv_spec_neg x y : y < 0 -> x <= qidiv x y * y /\ (qidiv x y + 1) * y < x.
Proof.
  intros Hy. unfold qidiv. destruct (qfloor_spec (x / y)) as [F1 F2].
  assert (E : x == (x / y) * y) by (field; lra).
  split.
  - rewrite E at 1. nra.
  - rewrite E at 2. nra.
Qed.

Lemma qdiv_int_pos a b : (0 < b)%Z ->
  inject_Z (a / b) <= inject_Z a / inject_Z b /\ inject_Z a / inject_Z b < inject_Z (a / b) + 1.
Proof.
  intros Hb. assert (Hq : 0 < inject_Z b) by (change 0 with (inject_Z 0); rewrite <- Zlt_Qlt; exact Hb).
  split.
  - apply Qle_shift_div_l; [exact Hq|]. rewrite <- inject_Z_mult, <- Zle_Qle.
    rewrite Z.mul_comm. apply Z.mul_div_le. exact Hb.
  - apply Qlt_shift_div_r; [exact Hq|]. change 1 with (inject_Z 1). rewrite <- inject_Z_plus, <- inject_Z_mult, <- Zlt_Qlt.
    rewrite Z.mul_comm. apply Z.mul_succ_div_gt. exact Hb.
Qed.

Lemma inject_Z_nonzero b : b <> 0%Z -> ~ inject_Z b == 0.
Proof. intros H X. unfold Qeq in X. cbn in X. lia. Qed.
Lemma qdiv_opp x y : ~ y == 0 -> x / y == - x / - y.
Proof. intros H. field. exact H. Qed.

(* on integers  //  is Coq's Z.div, i.e. floor division: the quotient is rounded towards minus infinity
   (7 // 2 = 3, -7 // 2 = -4, 7 // -2 = -4), exactly Python's int.__floordiv__ *)
Theorem qidiv_int a b : b <> 0%Z -> qidiv (inject_Z a) (inject_Z b) = inject_Z (a / b).
Proof.
  intros Hb. unfold qidiv. apply qfloor_unique.
  - destruct (Z_lt_ge_dec 0 b) as [Hp|Hn]; [apply (qdiv_int_pos a b Hp)|].
    assert (Hp : (0 < - b)%Z) by lia. destruct (qdiv_int_pos (- a) (- b) Hp) as [H1 _].
    rewrite Z.div_opp_opp in H1 by exact Hb. rewrite !inject_Z_opp in H1.
    pose proof (qdiv_opp (inject_Z a) (inject_Z b) (inject_Z_nonzero b Hb)) as E.
    rewrite E. exact H1.
  - destruct (Z_lt_ge_dec 0 b) as [Hp|Hn]; [apply (qdiv_int_pos a b Hp)|].
    assert (Hp : (0 < - b)%Z) by lia. destruct (qdiv_int_pos (- a) (- b) Hp) as [_ H2].
    rewrite Z.div_opp_opp in H2 by exact Hb. rewrite !inject_Z_opp in H2.
    pose proof (qdiv_opp (inject_Z a) (inject_Z b) (inject_Z_nonzero b Hb)) as E.
    rewrite E. exact H2.
Qed.

Example idiv_examples :
  eval (fun _ => None) (Bin IDiv (Num 7) (Num 2)) = Some 3 /\
  eval (fun _ => None) (Bin IDiv (Neg (Num 7)) (Num 2)) = Some (-4) /\
  eval (fun _ => None) (Bin IDiv (Num (15#2)) (Num 2)) = Some 3 /\
  eval (fun _ => None) (Bin IDiv (Num 7) (Num 0)) = None /\
  eval (fun _ => None) (Bin Div (Num 7) (Bin Sub (Num 2) (Num 2))) = None.
Proof. vm_compute. repeat split. Qed.

(* ---------------------------------------------------------------- the semantic-action table denotes eval *)
Theorem optable_sound : forall alias body es e r vs,
  In (alias, body) model_optable -> build alias es = Some e ->
  Forall2 (fun e v => eval r e = Some v) es vs -> eval r e = pyden body vs.
Proof.
  intros alias body es e r vs HIn Hb HF.
  cbv [model_optable In] in HIn.
  repeat (destruct HIn as [HIn|HIn]; [injection HIn as <- <-|]); try contradiction;
    (destruct es as [|a [|b [|c es]]]; try discriminate; cbn in Hb; injection Hb as <-);
    repeat match goal with H : Forall2 _ (_ :: _) _ |- _ => inversion H; subst; clear H end;
    repeat match goal with H : Forall2 _ [] _ |- _ => inversion H; subst; clear H end;
    cbn [eval];
    repeat match goal with H : eval _ _ = Some _ |- _ => rewrite H end;
    try reflexivity.
Qed.

(* every alias used by a production has a semantic action, and vice versa *)
Lemma aliases_covered :
  forallb (fun pr => let a := snd pr in (String.eqb a "") || existsb (fun ob => String.eqb (fst ob) a) model_optable) model_productions = true
  /\ forallb (fun ob => existsb (fun pr => String.eqb (snd pr) (fst ob)) model_productions) model_optable = true.
Proof. vm_compute. split; reflexivity. Qed.

(* ---------------------------------------------------------------- precedence and associativity *)
Local Open Scope nat_scope.

(* two operators of the same level group to the LEFT *)
Theorem same_level_left_assoc : forall o1 o2 e1 e2 e3, lvl o1 = lvl o2 ->
  parse (p (lvl o1) e1 ++ TOp o1 :: p (S (lvl o1)) e2 ++ TOp o2 :: p (S (lvl o1)) e3) = Some (Bin o2 (Bin o1 e1 e2) e3).
Proof.
  intros o1 o2 e1 e2 e3 H. rewrite <- (parse_print (Bin o2 (Bin o1 e1 e2) e3)). f_equal. unfold print. cbn [p].
  rewrite <- H. rewrite Nat.ltb_irrefl. destruct (lvl o1); cbn [Nat.ltb Nat.leb]; rewrite <- app_assoc; reflexivity.
Qed.

(* "*" "/" "//" (level 1) bind tighter than "+" "-" (level 0), on either side *)
Theorem tighter_on_the_right : forall o1 o2 e1 e2 e3, lvl o1 = 0 -> lvl o2 = 1 ->
  parse (p 0 e1 ++ TOp o1 :: p 1 e2 ++ TOp o2 :: p 2 e3) = Some (Bin o1 e1 (Bin o2 e2 e3)).
Proof.
  intros o1 o2 e1 e2 e3 H1 H2. rewrite <- (parse_print (Bin o1 e1 (Bin o2 e2 e3))). f_equal. unfold print. cbn [p].
  rewrite H1, H2. reflexivity.
Qed.
Theorem tighter_on_the_left : forall o1 o2 e1 e2 e3, lvl o1 = 1 -> lvl o2 = 0 ->
  parse (p 1 e1 ++ TOp o1 :: p 2 e2 ++ TOp o2 :: p 1 e3) = Some (Bin o2 (Bin o1 e1 e2) e3).
Proof.
  intros o1 o2 e1 e2 e3 H1 H2. rewrite <- (parse_print (Bin o2 (Bin o1 e1 e2) e3)). f_equal. unfold print. cbn [p].
  rewrite H1, H2. cbn [Nat.ltb Nat.leb]. rewrite <- app_assoc. reflexivity.
Qed.
(* unary minus binds tighter than every binary operator:  - a o b  =  (-a) o b *)
Theorem neg_binds_tightest : forall o e1 e2,
  parse (TOp Sub :: p 2 e1 ++ TOp o :: p (S (lvl o)) e2) = Some (Bin o (Neg e1) e2).
Proof.
  intros o e1 e2. rewrite <- (parse_print (Bin o (Neg e1) e2)). reflexivity.
Qed.
(* parentheses override:  ( e1 o1 e2 ) o2 e3  with o1 looser than o2 *)
Theorem parentheses_override : forall o1 o2 e1 e2 e3, lvl o1 = 0 -> lvl o2 = 1 ->
  parse (TLP :: (p 0 e1 ++ TOp o1 :: p 1 e2) ++ TRP :: TOp o2 :: p 2 e3) = Some (Bin o2 (Bin o1 e1 e2) e3).
Proof.
  intros o1 o2 e1 e2 e3 H1 H2. rewrite <- (parse_print (Bin o2 (Bin o1 e1 e2) e3)). f_equal. unfold print. cbn [p].
  rewrite H1, H2. cbn [Nat.ltb Nat.leb app]. rewrite <- !app_assoc. reflexivity.
Qed.
(* ... and on the right:  e1 o1 ( e2 o2 e3 )  with o1, o2 of the same level is NOT regrouped *)
Theorem parentheses_on_the_right : forall o1 o2 e1 e2 e3, lvl o1 = lvl o2 ->
  parse (p (lvl o1) e1 ++ TOp o1 :: TLP :: (p (lvl o1) e2 ++ TOp o2 :: p (S (lvl o1)) e3) ++ [TRP]) = Some (Bin o1 e1 (Bin o2 e2 e3)).
Proof.
  intros o1 o2 e1 e2 e3 H. rewrite <- (parse_print (Bin o1 e1 (Bin o2 e2 e3))). f_equal. unfold print. cbn [p].
  rewrite <- H. assert (L : (lvl o1 <? S (lvl o1)) = true) by (apply Nat.ltb_lt; lia). rewrite L.
  destruct (lvl o1); reflexivity.
Qed.

Local Open Scope Q_scope.
(* the same for concrete operators, as values:  a - b - c = (a - b) - c  etc., for ALL rationals a b c *)
Corollary sub_sub : forall r a b c, evalp r [TNum a; TOp Sub; TNum b; TOp Sub; TNum c] = Some ((a - b) - c).
Proof. intros. unfold evalp. pose proof (same_level_left_assoc Sub Sub (Num a) (Num b) (Num c) eq_refl) as X; cbn [p lvl app] in X; rewrite X; clear X. reflexivity. Qed.
Corollary sub_add : forall r a b c, evalp r [TNum a; TOp Sub; TNum b; TOp Add; TNum c] = Some ((a - b) + c).
Proof. intros. unfold evalp. pose proof (same_level_left_assoc Sub Add (Num a) (Num b) (Num c) eq_refl) as X; cbn [p lvl app] in X; rewrite X; clear X. reflexivity. Qed.
Corollary div_div : forall r a b c, Qeq_bool b 0 = false -> Qeq_bool c 0 = false ->
  evalp r [TNum a; TOp Div; TNum b; TOp Div; TNum c] = Some ((a / b) / c).
Proof. intros r a b c Hb Hc. unfold evalp. pose proof (same_level_left_assoc Div Div (Num a) (Num b) (Num c) eq_refl) as X; cbn [p lvl app] in X; rewrite X; clear X. cbn. rewrite Hb, Hc. reflexivity. Qed.
Corollary div_mul : forall r a b c, Qeq_bool b 0 = false ->
  evalp r [TNum a; TOp Div; TNum b; TOp Mul; TNum c] = Some ((a / b) * c).
Proof. intros r a b c Hb. unfold evalp. pose proof (same_level_left_assoc Div Mul (Num a) (Num b) (Num c) eq_refl) as X; cbn [p lvl app] in X; rewrite X; clear X. cbn. rewrite Hb. reflexivity. Qed.
Corollary idiv_mul : forall r a b c, Qeq_bool b 0 = false ->
  evalp r [TNum a; TOp IDiv; TNum b; TOp Mul; TNum c] = Some (qidiv a b * c).
Proof. intros r a b c Hb. unfold evalp. pose proof (same_level_left_assoc IDiv Mul (Num a) (Num b) (Num c) eq_refl) as X; cbn [p lvl app] in X; rewrite X; clear X. cbn. rewrite Hb. reflexivity. Qed.
Corollary add_mul : forall r a b c, evalp r [TNum a; TOp Add; TNum b; TOp Mul; TNum c] = Some (a + b * c).
Proof. intros. unfold evalp. pose proof (tighter_on_the_right Add Mul (Num a) (Num b) (Num c) eq_refl eq_refl) as X; cbn [p lvl app] in X; rewrite X; clear X. reflexivity. Qed.
Corollary mul_add : forall r a b c, evalp r [TNum a; TOp Mul; TNum b; TOp Add; TNum c] = Some (a * b + c).
Proof. intros. unfold evalp. pose proof (tighter_on_the_left Mul Add (Num a) (Num b) (Num c) eq_refl eq_refl) as X; cbn [p lvl app] in X; rewrite X; clear X. reflexivity. Qed.
Corollary sub_idiv : forall r a b c, Qeq_bool c 0 = false ->
  evalp r [TNum a; TOp Sub; TNum b; TOp IDiv; TNum c] = Some (a - qidiv b c).
Proof. intros r a b c Hc. unfold evalp. pose proof (tighter_on_the_right Sub IDiv (Num a) (Num b) (Num c) eq_refl eq_refl) as X; cbn [p lvl app] in X; rewrite X; clear X. cbn. rewrite Hc. reflexivity. Qed.
Corollary neg_mul : forall r a b, evalp r [TOp Sub; TNum a; TOp Mul; TNum b] = Some ((- a) * b).
Proof. intros. unfold evalp. pose proof (neg_binds_tightest Mul (Num a) (Num b)) as X; cbn [p lvl app] in X; rewrite X; clear X. reflexivity. Qed.
Corollary neg_sub : forall r a b, evalp r [TOp Sub; TNum a; TOp Sub; TNum b] = Some ((- a) - b).
Proof. intros. unfold evalp. pose proof (neg_binds_tightest Sub (Num a) (Num b)) as X; cbn [p lvl app] in X; rewrite X; clear X. reflexivity. Qed.
Corollary sub_neg : forall r a b, evalp r [TNum a; TOp Sub; TOp Sub; TNum b] = Some (a - (- b)).
Proof. intros. unfold evalp. pose proof (parse_print (Bin Sub (Num a) (Neg (Num b)))) as X; cbn [print p lvl app Nat.ltb Nat.leb] in X; rewrite X; clear X. reflexivity. Qed.
Corollary paren_mul : forall r a b c, evalp r [TLP; TNum a; TOp Add; TNum b; TRP; TOp Mul; TNum c] = Some ((a + b) * c).
Proof. intros. unfold evalp. pose proof (parentheses_override Add Mul (Num a) (Num b) (Num c) eq_refl eq_refl) as X; cbn [p lvl app] in X; rewrite X; clear X. reflexivity. Qed.
Corollary sub_paren : forall r a b c, evalp r [TNum a; TOp Sub; TLP; TNum b; TOp Sub; TNum c; TRP] = Some (a - (b - c)).
Proof. intros. unfold evalp. pose proof (parentheses_on_the_right Sub Sub (Num a) (Num b) (Num c) eq_refl) as X; cbn [p lvl app] in X; rewrite X; clear X. reflexivity. Qed.
(* redundant parentheses around a whole operand change nothing (concrete instance; the general case is tested) *)
Corollary redundant_paren : forall r a b, evalp r [TLP; TLP; TNum a; TRP; TOp Add; TLP; TNum b; TRP; TRP] = Some (a + b).
Proof. intros. reflexivity. Qed.
(* named variables and functions *)
Corollary var_lookup : forall r v, evalp r [TVar v] = r v.
Proof. intros. reflexivity. Qed.
Corollary min_max_ceil_floor : forall r a b,
  evalp r [TF2 Min; TNum a; TComma; TNum b; TRP] = Some (Qmin a b) /\
  evalp r [TF2 Max; TNum a; TComma; TNum b; TRP] = Some (Qmax a b) /\
  evalp r [TF1 Ceil; TNum a; TRP] = Some (qceil a) /\
  evalp r [TF1 Floor; TNum a; TRP] = Some (qfloor a).
Proof. intros. repeat split. Qed.
(* digit separators *)
Corollary separated_number : forall r l, has_digit l = true -> evalp r [TSep l] = Some (sepval l).
Proof. intros r l H. unfold evalp, parse. cbn. rewrite H. reflexivity. Qed.
Example one_thousand : evalp (fun _ => None) [TSep [SDig 1; SUnd; SDig 0; SDig 0; SDig 0]] = Some 1000.
Proof. reflexivity. Qed.
