(* regularize_returned_event, tag_events_by_method_name, message_signature, _resolve_address and local as GENERATED from the source
   (gen/WrapperSrc.v, by tools/tr_wrapper.py) are regularize, tag_events, msig, resolve and local_addr of Model/Dispatch.v. *)
From Coq Require Import List String Ascii Bool Arith.
Import ListNotations.
From V Require Import Model.Dispatch.
From G Require Import WrapperSrc.
Local Open Scope string_scope.

Section Tie.
  Variable Pay : Type.
  Variable empty_pay : Pay.
  Variable Ent : Type.
  Variable clock0 : Ent.
  Variable spent : Ent -> Pay -> option Ent.

  Theorem src_timer_includes_is_timer_includes (s : string) : src_timer_includes s = timer_includes s.
  Proof. reflexivity. Qed.

  Theorem src_timer_call_is_timer_call (a : action Pay) (s : rst Ent Pay) :
    src_timer_call Pay Ent clock0 spent a s = timer_call Ent Pay clock0 spent a s.
  Proof. destruct s as [st tr]. reflexivity. Qed.

  Theorem src_bound_names_is_bound_names (c : component Ent Pay) :
    src_get_bound_names Ent (c_default c) (src_adapter_binds (c_binds c)) = bound_names Ent Pay c.
  Proof. reflexivity. Qed.

  Theorem src_get_state_is_get_state (c : component Ent Pay) (st : store Ent) :
    src_get_state Ent (comp_addr Ent Pay c) (c_default c) (src_adapter_binds (c_binds c)) st = get_state Ent Pay c st.
  Proof. reflexivity. Qed.

  Theorem src_set_state_is_set_state (c : component Ent Pay) (st : store Ent) (out : list (string * Ent)) :
    src_set_state Ent (comp_addr Ent Pay c) (c_default c) (src_adapter_binds (c_binds c)) out st = set_state Ent Pay c st out.
  Proof. reflexivity. Qed.

  Theorem src_regularize_is_regularize (m : maybe_events Pay) : src_regularize Pay m = regularize Pay m.
  Proof. destruct m; reflexivity. Qed.

  Theorem src_tag_events_is_tag_events (name method : string) (raw : list (event Pay)) :
    src_tag_events Pay empty_pay name method raw = tag_events Pay empty_pay name method raw.
  Proof.
    unfold src_tag_events, tag_events, tag_event, is_rej_acc, accept_event. cbv zeta.
    destruct (forallb _ raw); [reflexivity|]. rewrite app_nil_r. reflexivity.
  Qed.

  Theorem src_message_signature_is_msig (name method : string) : src_message_signature name method = msig name method.
  Proof. unfold src_message_signature, msig. destruct method; reflexivity. Qed.

  Theorem src_resolve_address_is_resolve (cur name : string) : src_resolve_address cur name = resolve cur name.
  Proof. unfold src_resolve_address, resolve. destruct (has_dot name); reflexivity. Qed.

  Theorem src_local_is_local_addr (cur a : string) : src_local cur a = local_addr cur a.
  Proof. reflexivity. Qed.

  Theorem src_find_mapping_name_is_find_mapping_keys (keys : list string) (target : string) :
    src_find_mapping_name keys target = find_mapping_keys keys target.
  Proof.
    unfold src_find_mapping_name, find_mapping_keys. destruct (existsb _ keys); [reflexivity|].
    induction keys as [|k r IH]; [reflexivity|]. cbn [src_find_marked find_dollar]. destruct k as [|c k']; [reflexivity|].
    destruct (Ascii.eqb c "$"%char && substringb (remove_dollar (String c k')) target); [reflexivity|exact IH].
  Qed.

  (* C07 at the wrapper: a reducer answer that holds a rejection is passed on without an automatic ACCEPT, whatever shape it has *)
  Theorem src_rejected_answer_gets_no_accept (name method : string) (m : maybe_events Pay) :
    existsb (fun e => match ev_tag e with Some t => String.eqb t REJECT | None => false end) (src_regularize Pay m) = true ->
    src_tag_events Pay empty_pay name method (src_regularize Pay m)
    = map (tag_event Pay method) (src_regularize Pay m).
  Proof.
    intros Hr. rewrite src_tag_events_is_tag_events. unfold tag_events.
    assert (E : forallb (fun e => negb (is_rej_acc Pay e)) (src_regularize Pay m) = false).
    { apply existsb_exists in Hr. destruct Hr as [e [Hin He]].
      destruct (forallb _ _) eqn:F; [|reflexivity]. rewrite forallb_forall in F. specialize (F e Hin).
      unfold is_rej_acc in F. destruct (ev_tag e) as [t|]; [|discriminate]. rewrite He in F. discriminate. }
    rewrite E, app_nil_r. reflexivity.
  Qed.
End Tie.
