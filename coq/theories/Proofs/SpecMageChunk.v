(* C09 for the classes of the extension `mage`: elapsing a then b = elapsing a+b.
   This file: the observation (xnorm), well-formedness, and the classes whose elapse moves linear
   timers or runs the plain Periodic schedule.  The capped loops are in SpecMageLoop.v, the
   current fields of ChainLightningVI in SpecMageField.v. *)
From Coq Require Import ZArith List Bool Lia.
From V.Model Require Import Comp SpecMage.
From V.Proofs Require Import CompChunk SpecMageReject.
From V.Proofs Require EPeriodicP.
Import ListNotations.
Open Scope Z_scope.

Arguments P.elapse : simpl never.
Arguments ticks : simpl never.
Arguments P.enabled : simpl never.

(* ------------------------------------------------------------ observation of a state *)
(* A schedule that is over (time_left <= 0) never ticks again and is re-initialised by the next
   use: its interval counter and its tick count are dead data (no view and no reducer reads them;
   see xnorm_sound in SpecMageC09.v). *)
Definition dnorm (q : P.P) : P.P := if 0 <? P.tl q then q else P.mkP (P.interval q) 0 (P.tl q) 0.
Definition xnorm (s : xst) : xst := xset_u s (set_p1 (x_u s) (dnorm (u_p1 (x_u s)))).
Definition xdealts (es : list xev) : list xev := filter xis_dealt es.

Lemma norm_dnorm a b : P.norm a = P.norm b -> dnorm a = dnorm b.
Proof.
  unfold P.norm, dnorm. destruct a as [i c t n], b as [i' c' t' n']. cbn. intros H. injection H as -> H -> ->.
  destruct (0 <? t'); [rewrite H|]; reflexivity.
Qed.
Lemma dnorm_disable a b : P.interval a = P.interval b -> dnorm (P.disable a) = dnorm (P.disable b).
Proof. unfold dnorm, P.disable. cbn. intros ->. reflexivity. Qed.

Lemma xdealts_app a b : xdealts (a ++ b) = xdealts a ++ xdealts b.
Proof. apply filter_app. Qed.
Lemma xdealts_repeat x n : xdealts (repeat (xdealt x) n) = repeat (xdealt x) n.
Proof. induction n; cbn; [reflexivity|]. f_equal. exact IHn. Qed.
Lemma xdealts_map_repeat x n : xdealts (map XE (repeat (dealt x) n)) = repeat (xdealt x) n.
Proof. induction n; cbn; [reflexivity|]. f_equal. exact IHn. Qed.

Lemma xdealts_elapsed_map t x n : xdealts (XE (EElapsed t) :: map XE (repeat (dealt x) n)) = repeat (xdealt x) n.
Proof. cbn [xdealts filter xis_dealt]. apply xdealts_map_repeat. Qed.

(* ------------------------------------------------------------ well-formedness *)
Definition xwf (s : xst) : Prop :=
  P.wf (u_p1 (x_u s)) /\ 0 <= P.tl (u_p1 (x_u s)) /\ Forall P.wf (cf_per (x_cf s)) /\ 0 < cf_itv (x_cf s).
(* parameters: the durations Python refuses (set_time_left raises on a non-positive time) are
   outside the model *)
Definition xwf_par (p : xpar) (s : xst) : Prop :=
  0 < p_last (xp p) /\ (forall c, u_ic1 (x_u s) = Some c -> 0 < c).
(* the capped schedules: once the cap is reached the schedule is disabled *)
Definition xinv (c : xcomp) (p : xpar) (s : xst) : Prop :=
  match c with
  | JupyterThunder | ThunderBreak =>
      0 < p_maxcount (xp p) /\ (p_maxcount (xp p) <= P.cnt (u_p1 (x_u s)) -> P.tl (u_p1 (x_u s)) <= 0)
  | _ => True
  end.

Lemma xst_ext (x y : xst) :
  x_u x = x_u y -> x_stk x = x_stk y -> x_mark x = x_mark y -> x_frost x = x_frost y -> x_shock x = x_shock y ->
  x_drain x = x_drain y -> x_nova x = x_nova y -> x_cf x = x_cf y -> x = y.
Proof. destruct x, y; cbn; intros; subst; reflexivity. Qed.
Ltac xsimpl := cbn [x_u x_stk x_mark x_frost x_shock x_drain x_nova x_cf xset_u xset_stk xset_mark xset_frost xset_drain
                    xset_nova xset_cf xnorm fst snd]; usimpl.

(* ------------------------------------------------------------ linear classes *)
Definition xlinear (c : xcomp) : bool :=
  match c with
  | DotPunisher | Infinity | DivineAttack | HexaAngelRay | PoisonNova | InfernalVenom | ThunderAttack => true
  | _ => false end.

Lemma xchunk_linear c p a b s s1 e1 s2 e2 s3 e3 :
  xlinear c = true -> 0 <= a -> 0 <= b ->
  xreduce_spec c XElapse p a s = Some (s1, e1) -> xreduce_spec c XElapse p b s1 = Some (s2, e2) ->
  xreduce_spec c XElapse p (a + b) s = Some (s3, e3) ->
  s2 = s3 /\ xdealts (e1 ++ e2) = xdealts e3.
Proof.
  intros L Ha Hb H1 H2 H3. destruct c; try discriminate; cbn in H1, H2, H3;
    unfold cd_elapse, lift, elapse_simple_attack, elapse_buff_trait in *; cbn [fst snd map] in *.
  1-5: injection H1 as <- <-; injection H2 as <- <-; injection H3 as <- <-;
       (split; [apply xst_ext; xsimpl; try reflexivity; try (apply ust_ext; usimpl; try reflexivity; lia); f_equal; lia | reflexivity]).
  - (* InfernalVenom: the drain stack falls back exactly once, when the buff ends *)
    unfold las_on in *. cbn [u_ltl set_las set_cd] in H1, H3.
    destruct (0 <? u_ltl (x_u s)) eqn:E0; destruct (0 <? u_ltl (x_u s) - a) eqn:E1;
      cbn [andb negb] in H1; injection H1 as <- <-;
      cbn [x_u xset_u xset_drain u_ltl u_lad u_cd set_las set_cd] in H2; rewrite ?E1 in H2;
      destruct (0 <? u_ltl (x_u s) - a - b) eqn:E2; destruct (0 <? u_ltl (x_u s) - (a + b)) eqn:E3;
      cbn [andb negb] in H2, H3; injection H2 as <- <-; injection H3 as <- <-;
      try (apply Z.ltb_lt in E0); try (apply Z.ltb_ge in E0); try (apply Z.ltb_lt in E1); try (apply Z.ltb_ge in E1);
      try (apply Z.ltb_lt in E2); try (apply Z.ltb_ge in E2); try (apply Z.ltb_lt in E3); try (apply Z.ltb_ge in E3); try lia;
      (split; [apply xst_ext; xsimpl; try reflexivity; apply ust_ext; usimpl; try reflexivity; lia | reflexivity]).
  - injection H1 as <- <-; injection H2 as <- <-; injection H3 as <- <-;
       (split; [apply xst_ext; xsimpl; try reflexivity; try (apply ust_ext; usimpl; try reflexivity; lia); f_equal; lia | reflexivity]).
Qed.

(* ------------------------------------------------------------ plain periodic classes *)
Lemma chain_ticks_add (tbl : list Z) (h : Z) : forall (n1 n2 : nat) (k : stk),
  chain_ticks tbl h (n1 + n2)%nat k =
  let '(e1, k1) := chain_ticks tbl h n1 k in let '(e2, k2) := chain_ticks tbl h n2 k1 in (e1 ++ e2, k2).
Proof.
  induction n1 as [|n1 IH]; intros n2 k; cbn [chain_ticks Nat.add].
  - destruct (chain_ticks tbl h n2 k); reflexivity.
  - rewrite IH. destruct (chain_ticks tbl h n1 (stk_inc k 1)) as [e1 k1]. destruct (chain_ticks tbl h n2 k1) as [e2 k2]. reflexivity.
Qed.
Lemma chain_ticks_dealts (tbl : list Z) (h : Z) : forall (n : nat) (k : stk), xdealts (fst (chain_ticks tbl h n k)) = fst (chain_ticks tbl h n k).
Proof.
  induction n as [|n IH]; intros k; cbn; [reflexivity|].
  specialize (IH (stk_inc k 1)). destruct (chain_ticks tbl h n (stk_inc k 1)) as [es k']. cbn in *. f_equal. exact IH.
Qed.

Definition xperiodic (c : xcomp) : bool :=
  match c with DivineMinion | Ifritt | PoisonChain => true | _ => false end.

Lemma xchunk_periodic c p a b s s1 e1 s2 e2 s3 e3 :
  xperiodic c = true -> xwf s -> 0 <= a -> 0 <= b ->
  xreduce_spec c XElapse p a s = Some (s1, e1) -> xreduce_spec c XElapse p b s1 = Some (s2, e2) ->
  xreduce_spec c XElapse p (a + b) s = Some (s3, e3) ->
  xnorm s2 = xnorm s3 /\ xdealts (e1 ++ e2) = xdealts e3.
Proof.
  intros L (W & _) Ha Hb H1 H2 H3.
  destruct (periodic_chunk (u_p1 (x_u s)) a b W Ha Hb) as [N T _ _]. apply norm_dnorm in N.
  destruct c; try discriminate; cbn in H1, H2, H3; unfold lift, elapse_periodic_with in *; cbn [fst snd] in *.
  - (* DivineMinion *)
    injection H1 as <- <-. xsimpl. cbn [u_p1 set_p1 set_cd u_cd x_u xset_mark xset_u x_mark] in H2.
    injection H2 as <- <-; injection H3 as <- <-. xsimpl. split.
    + apply xst_ext; xsimpl; try reflexivity.
      * apply ust_ext; usimpl; rewrite ?N; try reflexivity; lia.
      * rewrite <- T.
        destruct (ticks (u_p1 (x_u s)) (P.elapse (u_p1 (x_u s)) a));
          destruct (ticks (P.elapse (u_p1 (x_u s)) a) (P.elapse (P.elapse (u_p1 (x_u s)) a) b)); reflexivity.
    + rewrite xdealts_app, !xdealts_elapsed_map, repeat_add, T. reflexivity.
  - (* Ifritt *)
    injection H1 as <- <-. xsimpl. cbn [u_p1 set_p1 set_cd u_cd x_u xset_u] in H2.
    injection H2 as <- <-; injection H3 as <- <-. xsimpl. split.
    + apply xst_ext; xsimpl; try reflexivity. apply ust_ext; usimpl; rewrite ?N; try reflexivity; lia.
    + rewrite xdealts_app, !xdealts_elapsed_map, repeat_add, T. reflexivity.
  - (* PoisonChain *)
    set (q := u_p1 (x_u s)) in *. set (q1 := P.elapse q a) in *. set (q3 := P.elapse q (a + b)) in *.
    rewrite <- T in H3. rewrite chain_ticks_add in H3.
    pose proof (chain_ticks_dealts (xp_tbl p) (snd (p_pd1 (xp p))) (ticks q q1) (x_stk s)) as D1.
    destruct (chain_ticks (xp_tbl p) (snd (p_pd1 (xp p))) (ticks q q1) (x_stk s)) as [l1 k1].
    injection H1 as <- <-. cbn [x_u xset_stk xset_u u_p1 set_p1 set_cd u_cd x_stk] in H2. fold q1 in H2.
    pose proof (chain_ticks_dealts (xp_tbl p) (snd (p_pd1 (xp p))) (ticks q1 (P.elapse q1 b)) k1) as D2.
    destruct (chain_ticks (xp_tbl p) (snd (p_pd1 (xp p))) (ticks q1 (P.elapse q1 b)) k1) as [l2 k2].
    injection H2 as <- <-; injection H3 as <- <-. cbn [fst] in D1, D2. split.
    + apply xst_ext; xsimpl; try reflexivity. apply ust_ext; usimpl; rewrite ?N; try reflexivity; lia.
    + change (XE (EElapsed ?t) :: ?l) with ([XE (EElapsed t)] ++ l). rewrite !xdealts_app. cbn [xdealts filter xis_dealt app].
      change (filter xis_dealt l1) with (xdealts l1). change (filter xis_dealt l2) with (xdealts l2). reflexivity.
Qed.
