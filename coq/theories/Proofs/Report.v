(* C13, reports add up (Model/Report.v): for every name type, buff type, damage function gd,
   every list of entries / events:
     damage_log_once        which events yield a log, how many, with which buff
     total_eq_sum_actions   total = sum over entries of the entry damage = sum over all logs
     total_eq_sum_skills    sum of the share table's values = total; each value = that skill's logs
     shares_nonneg, shares_sum_1, dpm_def *)
From Coq Require Import List QArith Qfield Lqa Bool.
From V.Model Require Import Report.
Import ListNotations.

Section ReportProofs.
  Variable Name : Type.
  Variable neqb : Name -> Name -> bool.
  Variable Buff : Type.
  Variable badd : Buff -> Buff -> Buff.
  Notation event := (event Name Buff).
  Notation dlog := (dlog Name Buff).
  Notation entry := (entry Name Buff).

  (* ------------------------------------------------------------ events -> logs *)
  Lemma contributes_false_iff (e : event) :
    contributes Name Buff e = false <->
    (is_damage_tag (ev_tag _ _ e) = false \/ ev_damage _ _ e == 0 \/ ev_hit _ _ e == 0).
  Proof.
    unfold contributes. rewrite !andb_false_iff, !negb_false_iff, !Qeq_bool_iff. tauto.
  Qed.

  Lemma create_none_iff (e : event) (b : Buff) :
    create_damage_log Name Buff badd e b = None <-> contributes Name Buff e = false.
  Proof.
    unfold create_damage_log, contributes.
    destruct (is_damage_tag (ev_tag _ _ e)); cbn [negb andb]; [|tauto].
    destruct (Qeq_bool (ev_damage _ _ e) 0); cbn [orb negb andb]; [tauto|].
    destruct (Qeq_bool (ev_hit _ _ e) 0); cbn [negb]; split; congruence.
  Qed.

  Lemma create_some (e : event) (b : Buff) :
    contributes Name Buff e = true -> create_damage_log Name Buff badd e b = Some (log_of Name Buff badd b e).
  Proof.
    unfold create_damage_log, contributes, log_of. intros H.
    apply andb_true_iff in H. destruct H as [H H3]. apply andb_true_iff in H. destruct H as [H1 H2].
    rewrite H1. apply negb_true_iff in H2, H3. rewrite H2, H3. reflexivity.
  Qed.

  Lemma build_logs_eq (evs : list event) (b : Buff) :
    build_logs Name Buff badd evs b = map (log_of Name Buff badd b) (filter (contributes Name Buff) evs).
  Proof.
    unfold build_logs. induction evs as [|e evs IH]; [reflexivity|]. cbn [flat_map filter].
    destruct (contributes Name Buff e) eqn:C.
    - rewrite (create_some e b C). cbn [app map]. rewrite IH. reflexivity.
    - apply (proj2 (create_none_iff e b)) in C. rewrite C. cbn [app]. exact IH.
  Qed.

  (* the property's sentence on events, in one statement *)
  Theorem damage_log_once_thm (evs : list event) (b : Buff) :
    (* an event yields no log iff tag not DAMAGE/DOT, or damage = 0, or hit = 0 *)
    (forall e, create_damage_log Name Buff badd e b = None <->
               (is_damage_tag (ev_tag _ _ e) = false \/ ev_damage _ _ e == 0 \/ ev_hit _ _ e == 0)) /\
    (* every other event yields exactly its own log, carrying the buff in force (+ its modifier) *)
    (forall e, create_damage_log Name Buff badd e b <> None ->
               create_damage_log Name Buff badd e b =
               Some (mk_dlog _ _ (ev_name _ _ e) (ev_damage _ _ e) (ev_hit _ _ e)
                             (match ev_modifier _ _ e with Some m => badd b m | None => b end) (ev_tag _ _ e))) /\
    (* an entry holds one log per contributing event, in order, and nothing else *)
    build_logs Name Buff badd evs b = map (log_of Name Buff badd b) (filter (contributes Name Buff) evs) /\
    length (build_logs Name Buff badd evs b) = length (filter (contributes Name Buff) evs) /\
    (* removing the non-contributing events changes nothing *)
    build_logs Name Buff badd (filter (contributes Name Buff) evs) b = build_logs Name Buff badd evs b.
  Proof.
    split; [|split; [|split; [|split]]].
    - intros e. rewrite create_none_iff. apply contributes_false_iff.
    - intros e H. destruct (contributes Name Buff e) eqn:C.
      + rewrite (create_some e b C). reflexivity.
      + apply (proj2 (create_none_iff e b)) in C. congruence.
    - apply build_logs_eq.
    - rewrite build_logs_eq. apply map_length.
    - rewrite !build_logs_eq. f_equal.
      induction evs as [|e r IH]; [reflexivity|]. cbn [filter].
      destruct (contributes Name Buff e) eqn:C; cbn [filter]; [rewrite C, IH; reflexivity|exact IH].
  Qed.

  (* ------------------------------------------------------------ sums *)
  Variable gd : dlog -> Q.

  Lemma qsum_nil : qsum [] = 0.
  Proof. reflexivity. Qed.
  Lemma qsum_cons x xs : qsum (x :: xs) = x + qsum xs.
  Proof. reflexivity. Qed.

  Lemma fold_left_acc {A} (f : A -> Q) (xs : list A) (a : Q) :
    fold_left (fun acc x => acc + f x) xs a == a + qsum (map f xs).
  Proof.
    revert a. induction xs as [|x xs IH]; intros a; cbn [fold_left map]; rewrite ?qsum_cons, ?qsum_nil; [ring|].
    rewrite IH. ring.
  Qed.

  Lemma fold_left_Qplus (xs : list Q) (a : Q) : fold_left Qplus xs a == a + qsum xs.
  Proof.
    revert a. induction xs as [|x xs IH]; intros a; cbn [fold_left]; rewrite ?qsum_cons, ?qsum_nil; [ring|].
    rewrite IH. ring.
  Qed.

  Lemma py_sum_qsum (xs : list Q) : py_sum xs == qsum xs.
  Proof. unfold py_sum. rewrite fold_left_Qplus. ring. Qed.

  Lemma calculate_damage_qsum (e : entry) : calculate_damage Name Buff gd e == qsum (map gd (e_logs _ _ e)).
  Proof. unfold calculate_damage. rewrite fold_left_acc. ring. Qed.

  Lemma qsum_app (xs ys : list Q) : qsum (xs ++ ys) == qsum xs + qsum ys.
  Proof.
    induction xs as [|x xs IH]; cbn [app]; rewrite ?qsum_cons, ?qsum_nil; [ring|].
    rewrite IH. ring.
  Qed.

  Lemma qsum_entries (es : list entry) :
    qsum (map (calculate_damage Name Buff gd) es) == qsum (map gd (all_logs Name Buff es)).
  Proof.
    unfold all_logs. induction es as [|e es IH]; cbn [map flat_map]; rewrite ?qsum_cons, ?qsum_nil; [ring|].
    rewrite map_app, qsum_app, calculate_damage_qsum, IH. ring.
  Qed.

  (* total = sum of the per-action (per-entry) damages = sum of all logs' damages *)
  Theorem total_eq_sum_actions_thm (es : list entry) :
    calculate_total_damage Name Buff gd es == qsum (map (calculate_damage Name Buff gd) es) /\
    calculate_total_damage Name Buff gd es == qsum (map gd (all_logs Name Buff es)).
  Proof.
    unfold calculate_total_damage. split; [apply py_sum_qsum|]. rewrite py_sum_qsum. apply qsum_entries.
  Qed.

  (* ------------------------------------------------------------ share table *)
  Notation vals acc := (qsum (map snd acc)).

  Lemma vals_acc_add (acc : list (Name * Q)) n d : vals (acc_add Name neqb acc n d) == vals acc + d.
  Proof.
    induction acc as [|[m v] r IH]; cbn [acc_add map snd]; rewrite ?qsum_cons, ?qsum_nil; [ring|].
    destruct (neqb m n); cbn [map snd]; rewrite ?qsum_cons; [ring|].
    rewrite IH. ring.
  Qed.

  Lemma vals_share_update (e : entry) : forall acc,
    vals (share_update Name neqb Buff gd acc e) == vals acc + calculate_damage Name Buff gd e.
  Proof.
    unfold share_update. intros acc. rewrite calculate_damage_qsum. revert acc.
    induction (e_logs _ _ e) as [|l ls IH]; intros acc; cbn [fold_left map]; rewrite ?qsum_cons, ?qsum_nil; [ring|].
    rewrite IH, vals_acc_add. ring.
  Qed.

  Lemma vals_share_acc_from (es : list entry) : forall acc,
    vals (fold_left (share_update Name neqb Buff gd) es acc) == vals acc + qsum (map (calculate_damage Name Buff gd) es).
  Proof.
    induction es as [|e es IH]; intros acc; cbn [fold_left map]; rewrite ?qsum_cons, ?qsum_nil; [ring|].
    rewrite IH, vals_share_update. ring.
  Qed.

  (* the per-skill damages add up to the total (Python's sum(values) on both sides) *)
  Theorem total_eq_sum_skills_thm (es : list entry) :
    py_sum (map snd (share_acc Name neqb Buff gd es)) == calculate_total_damage Name Buff gd es.
  Proof.
    unfold share_acc, calculate_total_damage. rewrite !py_sum_qsum, vals_share_acc_from.
    cbn [map]. rewrite qsum_nil. ring.
  Qed.

  (* ... and each value is the sum of that skill's own logs, when neqb is equality of names *)
  Section Keys.
    Hypothesis neqb_eq : forall a b, neqb a b = true <-> a = b.

    Definition lookup_val (acc : list (Name * Q)) (n : Name) : Q :=
      match lookup Name neqb acc n with Some v => v | None => 0 end.

    Lemma neqb_refl a : neqb a a = true.
    Proof. apply neqb_eq. reflexivity. Qed.

    Lemma lookup_val_acc_add acc n d m :
      lookup_val (acc_add Name neqb acc n d) m == (if neqb n m then d else 0) + lookup_val acc m.
    Proof.
      unfold lookup_val. induction acc as [|[k v] r IH]; cbn [acc_add lookup].
      - destruct (neqb n m); ring.
      - destruct (neqb k n) eqn:Ekn; cbn [lookup].
        + apply neqb_eq in Ekn. subst k. destruct (neqb n m); ring.
        + destruct (neqb k m) eqn:Ekm.
          * apply neqb_eq in Ekm. subst k.
            destruct (neqb n m) eqn:Enm; [apply neqb_eq in Enm; subst n; rewrite neqb_refl in Ekn; discriminate|ring].
          * exact IH.
    Qed.

    Lemma lookup_val_update (e : entry) m : forall acc,
      lookup_val (share_update Name neqb Buff gd acc e) m ==
      lookup_val acc m + qsum (map gd (filter (fun l => neqb (l_name _ _ l) m) (e_logs _ _ e))).
    Proof.
      unfold share_update.
      induction (e_logs _ _ e) as [|l ls IH]; intros acc; cbn [fold_left filter map]; rewrite ?qsum_nil; [ring|].
      rewrite IH, lookup_val_acc_add. destruct (neqb (l_name _ _ l) m); cbn [map]; rewrite ?qsum_cons; ring.
    Qed.

    Lemma filter_app' {A} (f : A -> bool) (xs ys : list A) : filter f (xs ++ ys) = filter f xs ++ filter f ys.
    Proof. induction xs as [|x xs IH]; cbn [app filter]; [reflexivity|]. destruct (f x); cbn [app]; rewrite IH; reflexivity. Qed.

    Lemma lookup_val_acc_from (es : list entry) m : forall acc,
      lookup_val (fold_left (share_update Name neqb Buff gd) es acc) m ==
      lookup_val acc m + skill_damage Name neqb Buff gd es m.
    Proof.
      unfold skill_damage, all_logs.
      induction es as [|e es IH]; intros acc; cbn [fold_left flat_map filter map]; rewrite ?qsum_nil; [ring|].
      rewrite IH, lookup_val_update, filter_app', map_app, qsum_app. ring.
    Qed.

    Theorem skill_value_thm (es : list entry) (n : Name) :
      lookup_val (share_acc Name neqb Buff gd es) n == skill_damage Name neqb Buff gd es n.
    Proof. unfold share_acc. rewrite lookup_val_acc_from. unfold lookup_val. cbn [lookup]. ring. Qed.
  End Keys.

  (* ------------------------------------------------------------ shares *)
  Lemma acc_add_nonneg acc n d : 0 <= d ->
    Forall (fun p : Name * Q => 0 <= snd p) acc -> Forall (fun p : Name * Q => 0 <= snd p) (acc_add Name neqb acc n d).
  Proof.
    intros Hd. induction acc as [|[m v] r IH]; intros Hf; cbn [acc_add].
    - constructor; [cbn [snd]; lra|constructor].
    - inversion Hf; subst. cbn [snd] in *. destruct (neqb m n); constructor; cbn [snd]; auto; lra.
  Qed.

  Lemma share_acc_nonneg (es : list entry) : (forall l, 0 <= gd l) ->
    Forall (fun p : Name * Q => 0 <= snd p) (share_acc Name neqb Buff gd es).
  Proof.
    intros Hgd. unfold share_acc.
    assert (G : forall acc, Forall (fun p : Name * Q => 0 <= snd p) acc ->
                 Forall (fun p : Name * Q => 0 <= snd p) (fold_left (share_update Name neqb Buff gd) es acc)).
    { induction es as [|e es IH]; intros acc Ha; cbn [fold_left]; [assumption|]. apply IH.
      unfold share_update. revert acc Ha. induction (e_logs _ _ e) as [|l ls IHl]; intros acc Ha; cbn [fold_left]; [assumption|].
      apply IHl, acc_add_nonneg; auto. }
    apply G. constructor.
  Qed.

  Lemma vals_nonneg (acc : list (Name * Q)) : Forall (fun p : Name * Q => 0 <= snd p) acc -> 0 <= vals acc.
  Proof.
    induction 1 as [|p r Hp _ IH]; cbn [map]; rewrite ?qsum_cons, ?qsum_nil; [lra|]. lra.
  Qed.

  Lemma share_compute_some (acc : list (Name * Q)) : ~ vals acc == 0 ->
    share_compute Name acc = Some (map (fun p => (fst p, snd p / py_sum (map snd acc))) acc).
  Proof.
    intros Ht. unfold share_compute. destruct acc as [|p r]; [exfalso; apply Ht; reflexivity|].
    destruct (Qeq_bool (py_sum (map snd (p :: r))) 0) eqn:E; [|reflexivity].
    apply Qeq_bool_iff in E. rewrite py_sum_qsum in E. contradiction.
  Qed.

  Lemma vals_div (acc : list (Name * Q)) t : ~ t == 0 ->
    vals (map (fun p : Name * Q => (fst p, snd p / t)) acc) == vals acc / t.
  Proof.
    intros Ht. induction acc as [|p r IH]; cbn [map fst snd]; rewrite ?qsum_cons, ?qsum_nil; [field; auto|].
    rewrite IH. field; auto.
  Qed.

  (* total <> 0: the shares are defined and sum to one *)
  Theorem shares_sum_1_thm (es : list entry) : ~ calculate_total_damage Name Buff gd es == 0 ->
    exists sh, shares Name neqb Buff gd es = Some sh /\ py_sum (map snd sh) == 1 /\
               map fst sh = map fst (share_acc Name neqb Buff gd es).
  Proof.
    intros Ht. unfold shares.
    assert (Hv : ~ vals (share_acc Name neqb Buff gd es) == 0).
    { rewrite <- py_sum_qsum, total_eq_sum_skills_thm. exact Ht. }
    rewrite (share_compute_some _ Hv). eexists. split; [reflexivity|]. split.
    - rewrite py_sum_qsum, vals_div; [|rewrite py_sum_qsum; exact Hv]. rewrite py_sum_qsum. field. exact Hv.
    - rewrite map_map. cbn [fst]. reflexivity.
  Qed.

  (* non-negative log damages: every share is non-negative (whenever shares are defined) *)
  Theorem shares_nonneg_thm (es : list entry) sh : (forall l, 0 <= gd l) ->
    shares Name neqb Buff gd es = Some sh -> Forall (fun p : Name * Q => 0 <= snd p) sh.
  Proof.
    intros Hgd. unfold shares, share_compute. pose proof (share_acc_nonneg es Hgd) as Hnn.
    destruct (share_acc Name neqb Buff gd es) as [|p r] eqn:Eacc; [intros X; inversion X; constructor|].
    destruct (Qeq_bool (py_sum (map snd (p :: r))) 0) eqn:E; [discriminate|]. intros X.
    assert (Hsh : sh = map (fun p0 : Name * Q => (fst p0, snd p0 / py_sum (map snd (p :: r)))) (p :: r)) by congruence.
    subst sh. clear X.
    assert (Hpos : 0 < py_sum (map snd (p :: r))).
    { pose proof (vals_nonneg _ Hnn) as H0. rewrite <- py_sum_qsum in H0.
      destruct (Qlt_le_dec 0 (py_sum (map snd (p :: r)))) as [|Hle]; [assumption|].
      exfalso. assert (Heq : py_sum (map snd (p :: r)) == 0) by lra. apply Qeq_bool_iff in Heq. congruence. }
    apply Forall_forall. intros q Hq. apply in_map_iff in Hq. destruct Hq as (p0 & <- & Hin). cbn [snd].
    rewrite Forall_forall in Hnn. specialize (Hnn p0 Hin).
    apply Qle_shift_div_l; [exact Hpos|]. lra.
  Qed.

  (* ------------------------------------------------------------ DPM *)
  Theorem dpm_def_thm (es : list entry) (last : entry) (front : list entry) :
    es = front ++ [last] -> ~ e_clock _ _ last == 0 ->
    exists d, calculate_dpm Name Buff gd es = Some d /\
              d == calculate_total_damage Name Buff gd es / e_clock _ _ last * 60000 /\
              (* damage per elapsed minute: the clock is in ms *)
              d * (e_clock _ _ last / 60000) == calculate_total_damage Name Buff gd es.
  Proof.
    intros -> Hc. unfold calculate_dpm. rewrite rev_app_distr. cbn [rev app].
    destruct (Qeq_bool (e_clock _ _ last) 0) eqn:E; [apply Qeq_bool_iff in E; contradiction|].
    eexists. split; [reflexivity|]. split; [reflexivity|]. field. exact Hc.
  Qed.

  Theorem dpm_undefined_thm (es : list entry) :
    calculate_dpm Name Buff gd es = None <->
    (es = [] \/ exists front last, es = front ++ [last] /\ e_clock _ _ last == 0).
  Proof.
    unfold calculate_dpm. destruct (rev es) as [|last r] eqn:Er.
    - split; [intros _; left|reflexivity]. apply (f_equal (@rev _)) in Er. rewrite rev_involutive in Er. exact Er.
    - assert (Hes : es = rev r ++ [last]).
      { apply (f_equal (@rev _)) in Er. rewrite rev_involutive in Er. exact Er. }
      destruct (Qeq_bool (e_clock _ _ last) 0) eqn:E.
      + split; [intros _; right|reflexivity]. exists (rev r), last. split; [exact Hes|apply Qeq_bool_iff, E].
      + split; [discriminate|]. intros [->|(f & l0 & Hf & Hz)]; [destruct (rev r); discriminate|].
        rewrite Hes in Hf. apply app_inj_tail in Hf. destruct Hf as [_ <-]. apply Qeq_bool_iff in Hz. congruence.
  Qed.
End ReportProofs.

(* ---------------------------------------------------------------- a concrete run (non-vacuity) *)
From Coq Require Import NArith.
Module Example.
  Definition ev := mk_event N Q.
  Definition evs : list (event N Q) :=
    [ ev 1%N TDamage 300 3 None; ev 2%N TOther 0 0 None; ev 1%N TDamage 0 5 None;
      ev 3%N TDot 120 1 (Some 7); ev 4%N TDamage 50 0 None ].
  Definition gd (l : dlog N Q) : Q := l_damage _ _ l * l_hit _ _ l.
  Definition e1 := build N Q Qplus 1000 evs 10.
  Definition e2 := build N Q Qplus 30000 [ev 3%N TDot 80 1 None] 0.
  Example logs_e1 : e_logs _ _ e1 = [mk_dlog _ _ 1%N 300 3 10 TDamage; mk_dlog _ _ 3%N 120 1 (10 + 7) TDot].
  Proof. reflexivity. Qed.
  Example total_ex : calculate_total_damage N Q gd [e1; e2] == 1100.
  Proof. vm_compute. reflexivity. Qed.
  Example dpm_ex : exists d, calculate_dpm N Q gd [e1; e2] = Some d /\ d == 2200.
  Proof. eexists. split; [reflexivity|vm_compute; reflexivity]. Qed.
  Example shares_ex : exists sh, shares N N.eqb Q gd [e1; e2] = Some sh /\
     Forall2 (fun p q => fst p = fst q /\ snd p == snd q) sh [(1%N, 9 # 11); (3%N, 2 # 11)].
  Proof. eexists. split; [reflexivity|]. repeat constructor. Qed.
End Example.
