(* AdeleOrderComponent after the repair 4d5f5f0 of the finding C09-adele-order-tick-cap (the model of the shipped
   code IS the repaired reducer: Model/SpecAdele.v order_elapse; the general theorem is xelapse_chunk in
   SpecAdeleChunk.v).  This file replays the two witnesses of the finding on the model as a regression:

   (1) right after an accepted use of an Order with interval 1020 lasting 45000: elapse 100 then 44800 versus 44900
       (the old code dealt 45 ticks / counter 1000 versus 44 ticks / counter -20: ticks of one call were capped by
       int(time_left // interval) taken at the start of the call);
   (2) 4 swords over a capacity of 6: elapse 100 then 9900 versus 10000 (the old code dealt 31 versus 40 ticks:
       the sword beyond the capacity was dropped at the END of the call, after ticking for all of it);

   and shows that both paths now agree.  Also: every accepted reducer of the class leaves the sword list within the
   capacity, and the executable instance used by the correspondence runs never runs out of fuel. *)
From Coq Require Import ZArith List Bool Lia Permutation.
From V.Model Require Import Comp SpecAdele.
From V.Proofs Require Import CompChunk SpecAdeleReject SpecAdeleOrder SpecAdeleChunk.
Import ListNotations.
Open Scope Z_scope.

Definition within_capacity (p : xpar) (s : xst) : Prop := sword_count s <= max_sw p s.

Lemma order_capacity_established m p t s s' es :
  0 <= max_sw p s -> xreduce_spec Order m p t s = Some (s', es) -> rejected es = false -> within_capacity p s'.
Proof.
  intros Hm H R. unfold within_capacity, sword_count. destruct m; try discriminate.
  - cbn [xreduce_spec xreduce] in H. destruct (negb _); injection H as <- <-; [discriminate|].
    cbn [x_sw setsw setu]. change (max_sw p (setsw _ _)) with (max_sw p s). apply sw_trunc_cap. exact Hm.
  - cbn [xreduce_spec xreduce] in H. unfold order_elapse in H.
    pose proof (sw_resolve_cap (max_sw p s) (xp_swi p) t (x_sw s) Hm) as C.
    destruct (sw_resolve _ _ _ _) as [sw n]. injection H as <- <-. cbn [x_sw setsw fst] in *.
    change (max_sw p (setsw _ _)) with (max_sw p s). exact C.
Qed.

(* the executable instance of the class (correspondence runs) answers, and answers what the specification does *)
Lemma order_exec_spec m p t s :
  0 < xp_swi p -> xexec_ok s t = true -> xreduce_exec Order m p t s = xreduce pe_exec pg_exec Order m p t s.
Proof.
  intros HI OK. unfold xreduce_exec. rewrite OK.
  replace (sw_exec_ok Order m p t s) with true; [reflexivity|].
  destruct m; try reflexivity. cbn [sw_exec_ok]. symmetry. apply sw_resolve_ok_true. exact HI.
Qed.

(* ------------------------------------------------------------ the witnesses of the repaired finding *)
Definition ord_par : par :=
  mkPar false (0, 0) 0 500 0 45000 45000 0%nat [] (7, 2) (0, 0) (0, 0) (0, 0) 0 (0, 0) 0 0 0 0 (0, 0).
Definition ord_p : xpar := mkXP ord_par 400 100 100 5 12 21 0 1020 6 8 (0, 0) 0 999999999 1 0 0 0.
Definition ord_s0 : xst := mkX x_u0 (PG.mk 1 [1] 0 0) 400 0 0 [].
Definition ord_s : xst := mkX (set_cd x_u0 500) (PG.mk 1 [1] 0 0) 400 0 0 [(0, 45000)].
(* four swords while the restore buff of another component has run out: capacity 8 -> 6 *)
Definition ord_s4 : xst :=
  mkX (set_cd x_u0 0) (PG.mk 1 [1] 0 0) 0 0 0 [(40, 43000); (540, 43500); (20, 44000); (520, 44500)].

Example order_witnesses_repaired :
  xreduce_spec Order XUse ord_p 0 ord_s0 = Some (ord_s, [dealt (p_pd1 (xp ord_p)); EDelay 0]) /\
  wf_x ord_p ord_s /\ wf_x ord_p ord_s4 /\ within_capacity ord_p ord_s /\ ~ within_capacity ord_p ord_s4 /\
  (* (1) 100 then 44800 versus 44900: 45 ticks on both paths, same sword *)
  (exists s1 e1 s2 e2 e3,
     xreduce_spec Order XElapse ord_p 100 ord_s = Some (s1, e1) /\ xreduce_spec Order XElapse ord_p 44800 s1 = Some (s2, e2) /\
     xreduce_spec Order XElapse ord_p 44900 ord_s = Some (s2, e3) /\
     dealts (e1 ++ e2) = dealts e3 /\ length (dealts e3) = 45%nat /\ x_sw s2 = [(1000, 100)]) /\
  (* (2) 4 swords over a capacity of 6, 100 then 9900 versus 10000: 30 ticks on both paths, same three swords *)
  (exists s1 e1 s2 e2 e3,
     xreduce_spec Order XElapse ord_p 100 ord_s4 = Some (s1, e1) /\ xreduce_spec Order XElapse ord_p 9900 s1 = Some (s2, e2) /\
     xreduce_spec Order XElapse ord_p 10000 ord_s4 = Some (s2, e3) /\
     dealts (e1 ++ e2) = dealts e3 /\ length (dealts e3) = 30%nat /\ length (x_sw s1) = 3%nat /\ length (x_sw s2) = 3%nat).
Proof.
  split; [vm_compute; reflexivity|].
  split; [repeat split; cbn; try lia; try discriminate; repeat constructor|].
  split; [repeat split; cbn; try lia; try discriminate; repeat constructor|].
  split; [vm_compute; discriminate|].
  split; [vm_compute; intros X; apply X; reflexivity|].
  split; do 5 eexists; do 5 (split; [vm_compute; reflexivity|]); [|split]; vm_compute; reflexivity.
Qed.

(* the executable instance agrees on the witnesses (and does not run out of fuel) *)
Example order_witnesses_exec :
  xreduce_exec Order XElapse ord_p 44900 ord_s = xreduce_spec Order XElapse ord_p 44900 ord_s /\
  xreduce_exec Order XElapse ord_p 10000 ord_s4 = xreduce_spec Order XElapse ord_p 10000 ord_s4 /\
  xreduce_exec Order XElapse ord_p 10000 ord_s4 <> None.
Proof. repeat split; vm_compute; try reflexivity; discriminate. Qed.
