(* NOT the shipped code: a model of the CANDIDATE REPAIR of OrderSword.resolving proposed for the known
   finding C09-adele-order-tick-cap, and the proof that with it AdeleOrderComponent.elapse is chunk
   independent for ALL states (no capacity, sortedness or cap hypothesis; only interval > 0):

       def resolving(self, time, max_sword_count):
           self._set_running_swords(self.running_swords, max_sword_count)      # (new) leave before ticking
           for each sword (counter, time_left):
               time_left -= time; counter -= time
               while counter <= 0 and counter < time_left:                     # (was: elapse_count < maximum_elapsed)
                   counter += self.interval; yield 1
               keep the sword if time_left > 0
           self._set_running_swords(result, max_sword_count)

   Nothing in Props refers to this file; when the repair is committed, Model/SpecAdele.v takes these
   definitions and fx_chunk becomes the C09 theorem of the class. *)
From Coq Require Import ZArith List Bool Lia.
From V.Model Require Import Comp SpecAdele.
From V.Proofs Require Import CompChunk SpecAdeleChunk SpecAdeleOrder.
Import ListNotations.
Open Scope Z_scope.

(* the repaired while loop; l = time_left after the subtraction; None = out of fuel *)
Fixpoint fx_loop (fuel : nat) (I c l : Z) : option (Z * nat) :=
  if (c <=? 0) && (c <? l) then
    match fuel with
    | O => None
    | S f => match fx_loop f I (c + I) l with Some (c', n) => Some (c', S n) | None => None end
    end
  else Some (c, O).
Definition fx_fuel (c : Z) : nat := Z.to_nat (1 - c).
Definition fx_one (I t : Z) (x : sword) : sword * nat :=
  let '(c, l) := x in
  match fx_loop (fx_fuel (c - t)) I (c - t) (l - t) with Some (c', n) => ((c', l - t), n) | None => ((c - t, l - t), O) end.
Fixpoint fx_map (I t : Z) (l : list sword) : list sword * nat :=
  match l with
  | [] => ([], O)
  | x :: r => let '(y, n) := fx_one I t x in let '(r', m) := fx_map I t r in
              ((if 0 <? snd y then [y] else []) ++ r', (n + m)%nat)
  end.
Definition fx_resolve (mx I t : Z) (l : list sword) : list sword * nat :=
  let '(r, n) := fx_map I t (sw_trunc mx l) in (sw_trunc mx r, n).
Definition fx_order_elapse (p : xpar) (t : Z) (s : xst) : xres :=
  let '(sw, n) := fx_resolve (max_sw p s) (xp_swi p) t (x_sw s) in
  (setsw (setu s (set_cd (x_u s) (u_cd (x_u s) - t))) sw, EElapsed t :: repeat (dealt (p_pd1 (xp p))) n).

(* ------------------------------------------------------------ the loop *)
Lemma fx_unfold f I c l :
  fx_loop f I c l =
  if (c <=? 0) && (c <? l) then
    match f with O => None | S f' => match fx_loop f' I (c + I) l with Some (c', n) => Some (c', S n) | None => None end end
  else Some (c, O).
Proof. destruct f; reflexivity. Qed.

Lemma fx_S : forall f I c l r, fx_loop f I c l = Some r -> fx_loop (S f) I c l = Some r.
Proof.
  induction f as [|f IH]; intros I c l r H; rewrite fx_unfold in H; rewrite fx_unfold;
    destruct ((c <=? 0) && (c <? l)); try discriminate; try exact H.
  destruct (fx_loop f I (c + I) l) as [[c' n]|] eqn:E; [|discriminate]. rewrite (IH _ _ _ _ E). exact H.
Qed.
Lemma fx_mono f f' I c l r : (f <= f')%nat -> fx_loop f I c l = Some r -> fx_loop f' I c l = Some r.
Proof. intros L; induction L; intros H0; [exact H0|]. apply fx_S. auto. Qed.

Lemma fx_enough I : 0 < I -> forall f c l, (fx_fuel c <= f)%nat -> exists r, fx_loop f I c l = Some r.
Proof.
  intros HI. unfold fx_fuel. induction f as [|f IH]; intros c l F; rewrite fx_unfold;
    destruct ((c <=? 0) && (c <? l)) eqn:G; try (eexists; reflexivity).
  - apply andb_prop in G. destruct G as [G _]. apply Z.leb_le in G. lia.
  - apply andb_prop in G. destruct G as [G _]. apply Z.leb_le in G.
    destruct (IH (c + I) l ltac:(lia)) as [[c' n] E]. rewrite E. eexists. reflexivity.
Qed.

(* elapsing d more first: the loop passes through the state in which it would have stopped *)
Lemma fx_shift : forall f f' I c l d c1 n1 c2 n2, 0 <= d ->
  fx_loop f I c l = Some (c1, n1) -> fx_loop f' I (c1 - d) (l - d) = Some (c2, n2) ->
  fx_loop (f + f') I (c - d) (l - d) = Some (c2, (n1 + n2)%nat).
Proof.
  induction f as [|f IH]; intros f' I c l d c1 n1 c2 n2 Hd H H'; rewrite fx_unfold in H.
  - destruct ((c <=? 0) && (c <? l)); [discriminate|]. injection H as <- <-. exact H'.
  - destruct ((c <=? 0) && (c <? l)) eqn:G.
    + destruct (fx_loop f I (c + I) l) as [[c0 n0]|] eqn:E; [|discriminate]. injection H as <- <-.
      rewrite fx_unfold. apply andb_prop in G. destruct G as [G1 G2]. apply Z.leb_le in G1. apply Z.ltb_lt in G2.
      replace ((c - d <=? 0) && (c - d <? l - d)) with true
        by (symmetry; apply andb_true_intro; split; [apply Z.leb_le|apply Z.ltb_lt]; lia).
      cbn [Nat.add]. replace (c - d + I) with (c + I - d) by lia.
      rewrite (IH f' I (c + I) l d c0 n0 c2 n2 Hd E H'). reflexivity.
    + injection H as <- <-. eapply fx_mono; [|exact H']. lia.
Qed.

Lemma fx_one_some I t c l : 0 < I -> exists c' n, fx_loop (fx_fuel (c - t)) I (c - t) (l - t) = Some (c', n) /\ fx_one I t (c, l) = ((c', l - t), n).
Proof.
  intros HI. destruct (fx_enough I HI (fx_fuel (c - t)) (c - t) (l - t) (Nat.le_refl _)) as [[c' n] E].
  exists c', n. split; [exact E|]. unfold fx_one. rewrite E. reflexivity.
Qed.

Lemma fx_det f f' I c l r r' : fx_loop f I c l = Some r -> fx_loop f' I c l = Some r' -> r = r'.
Proof.
  intros H H'. destruct (Nat.le_ge_cases f f') as [L|L].
  - rewrite (fx_mono _ _ _ _ _ _ L H) in H'. congruence.
  - rewrite (fx_mono _ _ _ _ _ _ L H') in H. congruence.
Qed.

(* one sword: a then b = a+b; a sword that expires in the first chunk does not tick later *)
Lemma fx_one_add I a b c l : 0 < I -> 0 <= a -> 0 <= b ->
  let '(y1, n1) := fx_one I a (c, l) in let '(y2, n2) := fx_one I b y1 in
  fx_one I (a + b) (c, l) = (y2, (n1 + n2)%nat) /\ (snd y1 <= 0 -> n2 = O).
Proof.
  intros HI Ha Hb.
  destruct (fx_one_some I a c l HI) as (c1 & n1 & L1 & E1). rewrite E1.
  destruct (fx_one_some I b c1 (l - a) HI) as (c2 & n2 & L2 & E2). rewrite E2.
  destruct (fx_one_some I (a + b) c l HI) as (c3 & n3 & L3 & E3). rewrite E3.
  pose proof (fx_shift _ _ I (c - a) (l - a) b c1 n1 c2 n2 Hb L1 L2) as X.
  replace (c - a - b) with (c - (a + b)) in X by lia. replace (l - a - b) with (l - (a + b)) in *  by lia.
  pose proof (fx_det _ _ _ _ _ _ _ L3 X) as Y. injection Y as -> ->. split; [reflexivity|].
  (* the stop condition of the first loop *)
  cbn [snd]. intros Hl. rewrite fx_unfold in L2.
  assert (STOP : (c1 <=? 0) && (c1 <? l - a) = false).
  { clear -L1. remember (fx_fuel (c - a)) as f eqn:Ef. clear Ef. revert L1. generalize (c - a) as c0. revert n1.
    induction f as [|f IH]; intros n1 c0 H; rewrite fx_unfold in H; destruct ((c0 <=? 0) && (c0 <? l - a)) eqn:G; try discriminate.
    - injection H as <- _. exact G.
    - destruct (fx_loop f I (c0 + I) (l - a)) as [[c' n]|] eqn:E; [|discriminate]. injection H as <- _. apply (IH _ _ E).
    - injection H as <- _. exact G. }
  replace ((c1 - b <=? 0) && (c1 - b <? l - (a + b))) with false in L2.
  - injection L2 as _ <-. reflexivity.
  - symmetry. apply andb_false_iff. apply andb_false_iff in STOP. destruct STOP as [S|S].
    + apply Z.leb_gt in S. right. apply Z.ltb_ge. lia.
    + apply Z.ltb_ge in S. right. apply Z.ltb_ge. lia.
Qed.

Lemma fx_map_cons I t x r :
  fx_map I t (x :: r) =
  ((if 0 <? snd (fst (fx_one I t x)) then [fst (fx_one I t x)] else []) ++ fst (fx_map I t r),
   (snd (fx_one I t x) + snd (fx_map I t r))%nat).
Proof. cbn [fx_map]. destruct (fx_one I t x) as [y n]. destruct (fx_map I t r) as [r' m]. reflexivity. Qed.

Lemma fx_one_snd I t c l : snd (fst (fx_one I t (c, l))) = l - t.
Proof. unfold fx_one. destruct (fx_loop _ _ _ _) as [[c' n]|]; reflexivity. Qed.

Lemma fx_map_add I a b l : 0 < I -> 0 <= a -> 0 <= b ->
  fst (fx_map I b (fst (fx_map I a l))) = fst (fx_map I (a + b) l) /\
  (snd (fx_map I a l) + snd (fx_map I b (fst (fx_map I a l))))%nat = snd (fx_map I (a + b) l).
Proof.
  intros HI Ha Hb. induction l as [|[c tl] r [IH1 IH2]]; [split; reflexivity|].
  rewrite (fx_map_cons I a), (fx_map_cons I (a + b)). cbn [fst snd].
  pose proof (fx_one_add I a b c tl HI Ha Hb) as X.
  destruct (fx_one I a (c, tl)) as [y1 n1] eqn:E1. destruct (fx_one I b y1) as [y2 n2] eqn:E2. destruct X as [X D].
  rewrite X. cbn [fst snd].
  assert (S1 : snd y1 = tl - a) by (rewrite <- (fx_one_snd I a c tl), E1; reflexivity).
  assert (S2 : snd y2 = tl - (a + b)) by (rewrite <- (fx_one_snd I (a + b) c tl), X; reflexivity).
  destruct (0 <? snd y1) eqn:G1.
  - cbn [app]. rewrite (fx_map_cons I b). cbn [fst snd]. rewrite E2. cbn [fst snd]. rewrite IH1. split; [reflexivity|]. lia.
  - cbn [app]. apply Z.ltb_ge in G1. rewrite (D G1). replace (0 <? snd y2) with false by (symmetry; apply Z.ltb_ge; lia).
    cbn [app]. split; [exact IH1|]. lia.
Qed.

Lemma fx_map_len I t l : (length (fst (fx_map I t l)) <= length l)%nat.
Proof. induction l as [|x r IH]; [cbn; lia|]. rewrite fx_map_cons. cbn [fst]. rewrite app_length. destruct (0 <? _); cbn [length]; lia. Qed.

(* a list no longer than an already truncated one is not truncated again *)
Lemma sw_trunc_sub mx l r : (length r <= length (sw_trunc mx l))%nat -> sw_trunc mx r = r.
Proof.
  intros H. destruct (sw_trunc mx l) as [|x0 r0] eqn:E.
  - destruct r; [reflexivity|cbn in H; lia].
  - apply sw_trunc_id.
    assert (C : 2 * Z.of_nat (length (x0 :: r0)) <= mx).
    { clear H. revert E. induction l as [|y l IH]; cbn [sw_trunc]; [discriminate|].
      destruct (mx <? 2 * Z.of_nat (length (y :: l))) eqn:G; [exact IH|]. intros E. rewrite <- E. apply Z.ltb_ge in G. exact G. }
    lia.
Qed.

Theorem fx_resolve_add mx I a b l : 0 < I -> 0 <= a -> 0 <= b ->
  fst (fx_resolve mx I b (fst (fx_resolve mx I a l))) = fst (fx_resolve mx I (a + b) l) /\
  (snd (fx_resolve mx I a l) + snd (fx_resolve mx I b (fst (fx_resolve mx I a l))))%nat = snd (fx_resolve mx I (a + b) l).
Proof.
  intros HI Ha Hb. unfold fx_resolve. set (l0 := sw_trunc mx l).
  destruct (fx_map_add I a b l0 HI Ha Hb) as [M1 M2].
  pose proof (fx_map_len I a l0) as L1. pose proof (fx_map_len I (a + b) l0) as L3.
  destruct (fx_map I a l0) as [r1 n1] eqn:E1. cbn [fst snd] in *.
  rewrite (sw_trunc_sub mx l r1 L1). cbn [fst snd]. rewrite (sw_trunc_sub mx l r1 L1).
  pose proof (fx_map_len I b r1) as L2.
  destruct (fx_map I b r1) as [r2 n2] eqn:E2. cbn [fst snd] in *.
  destruct (fx_map I (a + b) l0) as [r3 n3] eqn:E3. cbn [fst snd] in *.
  subst r3 n3. split; [|reflexivity].
  rewrite (sw_trunc_sub mx l r2) by (fold l0; lia). reflexivity.
Qed.

(* the repaired reducer: chunk independent in every state *)
Theorem fx_chunk p a b s : 0 < xp_swi p -> 0 <= a -> 0 <= b ->
  let '(s1, e1) := fx_order_elapse p a s in let '(s2, e2) := fx_order_elapse p b s1 in
  let '(s3, e3) := fx_order_elapse p (a + b) s in
  s2 = s3 /\ dealts (e1 ++ e2) = dealts e3.
Proof.
  intros HI Ha Hb. unfold fx_order_elapse.
  destruct (fx_resolve_add (max_sw p s) (xp_swi p) a b (x_sw s) HI Ha Hb) as [R1 R2].
  destruct (fx_resolve (max_sw p s) (xp_swi p) a (x_sw s)) as [sw1 n1] eqn:E1. cbn [x_sw x_u setsw setu].
  change (max_sw p (setsw _ sw1)) with (max_sw p s). cbn [fst snd] in R1, R2.
  destruct (fx_resolve (max_sw p s) (xp_swi p) b sw1) as [sw2 n2] eqn:E2.
  destruct (fx_resolve (max_sw p s) (xp_swi p) (a + b) (x_sw s)) as [sw3 n3] eqn:E3. cbn [fst snd] in R1, R2. subst sw3 n3.
  split.
  - apply xst_ext; cbn [x_u x_sw x_gauge x_rl x_rlad x_pg setsw setu]; try reflexivity. ust_eq.
  - rewrite dealts_app, !dealts_elapsed. apply repeat_add.
Qed.

(* on the two witnesses of the finding the repaired reducer gives 45 = 45 and 30 = 30 ticks *)
Example fx_witnesses :
  (let '(s1, e1) := fx_order_elapse ord_p 100 ord_s in let '(s2, e2) := fx_order_elapse ord_p 44800 s1 in
   let '(s3, e3) := fx_order_elapse ord_p 44900 ord_s in
   (length (dealts (e1 ++ e2)), length (dealts e3), x_sw s2, x_sw s3)) = (45%nat, 45%nat, [(1000, 100)], [(1000, 100)]) /\
  (let '(s1, e1) := fx_order_elapse ord_p 100 ord_s4 in let '(s2, e2) := fx_order_elapse ord_p 9900 s1 in
   let '(s3, e3) := fx_order_elapse ord_p 10000 ord_s4 in
   (length (dealts (e1 ++ e2)), length (dealts e3))) = (30%nat, 30%nat).
Proof. split; vm_compute; reflexivity. Qed.
