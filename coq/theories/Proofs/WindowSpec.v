(* C13: what the naive search (hence, by Proofs/Window.v, the two-pointer scan) returns:
   the reported indices reproduce the reported damage; the damage is the maximum over all
   start positions of the shortest window reaching L (first strict maximum, 0 when no window
   exists or none is positive); with non-negative damages the shortest window from a start is
   the least-damage one among all windows of at least L from that start; and the literal
   reading "maximum over ALL windows of at least L" is not what the function computes. *)
From Coq Require Import ZArith List Lia Bool Arith.
From V.Lib Require Import PyLoop.
From V.Model Require Import Window.
From V.Proofs Require Import Window.
Import ListNotations.
Open Scope Z_scope.

(* ---------------------------------------------------------------- sums of slices *)
Lemma fold_add_shift (xs : list (Z * Z)) a :
  fold_left (fun (acc : Z) (it : Z * Z) => acc + snd it) xs a =
  a + fold_left (fun (acc : Z) (it : Z * Z) => acc + snd it) xs 0.
Proof.
  revert a. induction xs as [|x xs IH]; intros a; cbn [fold_left]; [lia|].
  rewrite (IH (a + snd x)), (IH (0 + snd x)). lia.
Qed.

Lemma firstn_plus {A} (a b : nat) (m : list A) : firstn (a + b) m = firstn a m ++ firstn b (skipn a m).
Proof.
  revert m. induction a as [|a IH]; intros m; [reflexivity|].
  destruct m as [|x m]; cbn [Nat.add firstn skipn app].
  - rewrite firstn_nil. reflexivity.
  - rewrite IH. reflexivity.
Qed.

Lemma skipn_plus {A} (a b : nat) (m : list A) : skipn b (skipn a m) = skipn (a + b) m.
Proof.
  revert m. induction a as [|a IH]; intros m; [reflexivity|].
  destruct m as [|x m]; cbn [Nat.add skipn]; [apply skipn_nil|apply IH].
Qed.

Lemma slice_split {A} (l : list A) s e e' : (s <= e <= e')%nat -> slice l s e' = slice l s e ++ slice l e e'.
Proof.
  intros H. unfold slice. replace (e' - s)%nat with ((e - s) + (e' - e))%nat by lia.
  rewrite firstn_plus, skipn_plus. replace (s + (e - s))%nat with e by lia. reflexivity.
Qed.

Lemma slice_sum_empty l s : slice_sum l s s = 0.
Proof. unfold slice_sum, slice. rewrite Nat.sub_diag. reflexivity. Qed.

Lemma slice_sum_split l s e e' : (s <= e <= e')%nat -> slice_sum l s e' = slice_sum l s e + slice_sum l e e'.
Proof.
  intros H. unfold slice_sum. rewrite (slice_split l s e e' H), fold_left_app.
  rewrite fold_add_shift. reflexivity.
Qed.

Lemma Forall_firstn {A} (P : A -> Prop) k (m : list A) : Forall P m -> Forall P (firstn k m).
Proof.
  revert m. induction k as [|k IH]; intros m H; [constructor|].
  destruct m as [|x m]; [constructor|]. inversion H; subst. cbn [firstn]. constructor; auto.
Qed.
Lemma Forall_skipn {A} (P : A -> Prop) k (m : list A) : Forall P m -> Forall P (skipn k m).
Proof.
  revert m. induction k as [|k IH]; intros m H; [assumption|].
  destruct m as [|x m]; [constructor|]. inversion H; subst. cbn [skipn]. auto.
Qed.

Lemma slice_sum_nonneg l s e : nonneg l -> 0 <= slice_sum l s e.
Proof.
  intros H. unfold slice_sum, slice.
  assert (F : Forall (fun it : Z * Z => 0 <= snd it) (firstn (e - s) (skipn s l)))
    by (apply Forall_firstn, Forall_skipn, H).
  induction F as [|x xs Hx _ IH]; cbn [fold_left]; [lia|]. rewrite fold_add_shift. lia.
Qed.

(* ---------------------------------------------------------------- hypotheses, executable *)
Lemma sortedb_sound l : sortedb l = true -> sorted l.
Proof.
  induction l as [|a t IH]; intros H i j Hij; [cbn in Hij; lia|].
  destruct t as [|b t'].
  - cbn in Hij. assert (i = 0 /\ j = 0)%nat as [-> ->] by lia. lia.
  - cbn [sortedb] in H. apply andb_true_iff in H. destruct H as [H1 H2]. apply Z.leb_le in H1.
    specialize (IH H2).
    assert (Hhead : forall k, (k < length (b :: t'))%nat -> fst a <= clk (b :: t') k).
    { intros k Hk. transitivity (clk (b :: t') 0); [exact H1|]. apply IH. lia. }
    destruct i as [|i]; destruct j as [|j]; cbn [length] in Hij.
    + lia.
    + change (clk (a :: b :: t') 0) with (fst a). change (clk (a :: b :: t') (S j)) with (clk (b :: t') j).
      apply Hhead. cbn [length]. lia.
    + lia.
    + change (clk (a :: b :: t') (S i)) with (clk (b :: t') i). change (clk (a :: b :: t') (S j)) with (clk (b :: t') j).
      apply IH. cbn [length]. lia.
Qed.

Lemma nonnegb_sound l : nonnegb l = true -> nonneg l.
Proof.
  unfold nonnegb, nonneg. rewrite forallb_forall, Forall_forall. intros H x Hx. apply Z.leb_le, H, Hx.
Qed.

(* ---------------------------------------------------------------- what naive returns *)
Section Spec.
  Variable L : Z.
  Variable l : damage_seq_t.

  Lemma shortest_unique s e1 e2 : shortest L l s e1 -> shortest L l s e2 -> e1 = e2.
  Proof.
    intros H1 H2. apply e_of_shortest in H1. apply e_of_shortest in H2. congruence.
  Qed.

  (* state of the search after the starts 0 .. k-1 *)
  Definition good (k : nat) (r : Z * nat * nat) : Prop :=
    let '(w, bs, be) := r in
    0 <= w /\ slice_sum l bs be = w /\
    (forall s e, (s < k)%nat -> shortest L l s e -> slice_sum l s e <= w) /\
    ((w = 0 /\ bs = 0%nat /\ be = 0%nat) \/
     ((bs < k)%nat /\ shortest L l bs be /\ 0 < w /\
      forall s e, (s < bs)%nat -> shortest L l s e -> slice_sum l s e < w)).

  Lemma naive_good k : good k (naive_from L l (0, 0%nat, 0%nat) 0 k).
  Proof.
    induction k as [|k IH].
    - cbn [naive_from good]. split; [lia|]. split; [apply slice_sum_empty|]. split; [intros; lia|].
      left. repeat split.
    - rewrite naive_from_snoc. cbn [Nat.add].
      destruct (naive_from L l (0, 0%nat, 0%nat) 0 k) as [[w bs] be]. cbn [good] in IH.
      destruct IH as (W0 & Wsum & Wmax & Wwit). unfold upd.
      destruct (e_of L l k) as [e|] eqn:Ek.
      + apply e_of_shortest in Ek. cbv zeta. destruct (w <? slice_sum l k e) eqn:Cmp.
        * apply Z.ltb_lt in Cmp. cbn [good]. repeat split; try lia.
          -- intros s e' Hs Hsh. destruct (Nat.eq_dec s k) as [->|].
             ++ rewrite (shortest_unique _ _ _ Hsh Ek). lia.
             ++ specialize (Wmax s e' ltac:(lia) Hsh). lia.
          -- right. repeat split; try lia; try apply Ek.
             intros s e' Hs Hsh. specialize (Wmax s e' Hs Hsh). lia.
        * apply Z.ltb_ge in Cmp. cbn [good]. repeat split; try lia.
          -- intros s e' Hs Hsh. destruct (Nat.eq_dec s k) as [->|].
             ++ rewrite (shortest_unique _ _ _ Hsh Ek). lia.
             ++ apply Wmax; [lia|assumption].
          -- destruct Wwit as [Z0|(B1 & B2 & B3 & B4)]; [left; assumption|right]. repeat split; try lia; try apply B2. exact B4.
      + cbn [good]. repeat split; try lia.
        * intros s e' Hs Hsh. destruct (Nat.eq_dec s k) as [->|].
          -- apply e_of_shortest in Hsh. congruence.
          -- apply Wmax; [lia|assumption].
        * destruct Wwit as [Z0|(B1 & B2 & B3 & B4)]; [left; assumption|right]. repeat split; try lia; try apply B2. exact B4.
  Qed.

  Theorem naive_reproduces : let '(w, bs, be) := naive L l in slice_sum l bs be = w.
  Proof.
    pose proof (naive_good (length l)) as G. unfold naive.
    destruct (naive_from L l (0, 0%nat, 0%nat) 0 (length l)) as [[w bs] be]. apply G.
  Qed.

  Theorem naive_is_maximum :
    let '(w, bs, be) := naive L l in
    0 <= w /\
    (forall s e, shortest L l s e -> slice_sum l s e <= w) /\
    ((w = 0 /\ bs = 0%nat /\ be = 0%nat) \/
     (shortest L l bs be /\ 0 < w /\ forall s e, (s < bs)%nat -> shortest L l s e -> slice_sum l s e < w)).
  Proof.
    pose proof (naive_good (length l)) as G. unfold naive.
    destruct (naive_from L l (0, 0%nat, 0%nat) 0 (length l)) as [[w bs] be].
    destruct G as (G0 & _ & Gmax & Gwit). repeat split; [assumption| |].
    - intros s e Hsh. apply Gmax; [|assumption]. destruct Hsh as [[? _] _]. lia.
    - destruct Gwit as [?|(B1 & B2 & B3 & B4)]; [left; assumption|right; repeat split; try apply B2; assumption].
  Qed.

  (* with non-negative damages: any window of at least L from s contains the shortest one from
     s, and carries at least its damage *)
  Theorem shortest_is_least s e e' : nonneg l -> shortest L l s e -> reaches L l s e' ->
    (e <= e')%nat /\ slice_sum l s e <= slice_sum l s e'.
  Proof.
    intros Hnn [[[Hse He] Hr] Hmin] [[Hse' He'] Hr'].
    assert (Hle : (e <= e')%nat).
    { destruct (Nat.le_gt_cases e e') as [|Hlt]; [assumption|]. specialize (Hmin e' ltac:(lia)). lia. }
    split; [assumption|]. rewrite (slice_sum_split l s e e') by lia.
    pose proof (slice_sum_nonneg l e e' Hnn). lia.
  Qed.

  (* a window of at least L exists from s iff the shortest one does *)
  Theorem reaches_has_shortest s e' : reaches L l s e' -> exists e, shortest L l s e.
  Proof.
    intros Hr. destruct (e_of L l s) as [e|] eqn:E.
    - exists e. apply e_of_shortest. exact E.
    - exfalso. apply (proj1 (e_of_none L l s) E e'). exact Hr.
  Qed.
End Spec.

(* ---------------------------------------------------------------- concrete instances *)
(* non-vacuity: tests/simulate/report/test_maximum_dealing_interval.py::test_duplicated_maximum_interval *)
Definition ex_seq : damage_seq_t :=
  [(0, 100); (1, 100); (2, 100); (3, 300); (3, 300); (4, 200); (5, 400); (5, 300); (6, 100); (7, 100)].
Example ex_seq_in_domain : 0 < 3 /\ sorted ex_seq /\ nonneg ex_seq.
Proof. split; [lia|]. split; [apply sortedb_sound; reflexivity|apply nonnegb_sound; reflexivity]. Qed.
Example ex_seq_result : find_maximum_dealing_interval 3 ex_seq = Ok (1500, 3%nat, 8%nat) /\ naive 3 ex_seq = (1500, 3%nat, 8%nat).
Proof. split; vm_compute; reflexivity. Qed.

(* The literal reading "maximum damage over ALL windows of at least the requested length" is
   not what the function computes (nor what the unit tests expect): with non-negative damages
   that maximum is always attained by the longest window.  [0,1,2,3] x damage 1, L = 1:
   the function reports 1 (window [0,1)), the window [0,3) has span 3 >= 1 and damage 3. *)
Definition lit_seq : damage_seq_t := [(0, 1); (1, 1); (2, 1); (3, 1)].
Theorem literal_all_windows_reading_differs :
  exists L l s e w bs be,
    0 < L /\ sorted l /\ nonneg l /\ reaches L l s e /\
    find_maximum_dealing_interval L l = Ok (w, bs, be) /\ w < slice_sum l s e.
Proof.
  exists 1, lit_seq, 0%nat, 3%nat, 1, 0%nat, 1%nat.
  split; [lia|]. split; [apply sortedb_sound; reflexivity|]. split; [apply nonnegb_sound; reflexivity|].
  split; [|split; vm_compute; reflexivity].
  split; [cbn; lia|vm_compute; discriminate].
Qed.
