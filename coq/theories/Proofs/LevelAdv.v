(* C12: level-gap advantage, about the generated LevelAdvantage_get_advantage (the table
   is the literal list the translator read from simulate/report/dpm.py on this run). *)
From Coq Require Import ZArith QArith Qround Qminmax List Lia Bool Lqa.
From V.Lib Require Import PyNum.
From G Require Import CoreQ.
Import ListNotations.
Open Scope Q_scope.

Definition table := LevelAdvantage_advantage_table.
Definition tnth (i : nat) : Q := nth i table 0.
Definition adv (m c : Z) : option Q :=
  LevelAdvantage_get_advantage mkLevelAdvantage (inject_Z m) (inject_Z c).

Lemma table_len : length table = 46%nat. Proof. reflexivity. Qed.
Lemma table_range_b : forallb (fun q => Qle_bool 0 q && Qle_bool q (12#10)) table = true.
Proof. vm_compute. reflexivity. Qed.
Lemma table_sorted_b : forallb (fun i => Qle_bool (tnth (S i)) (tnth i)) (seq 0 45) = true.
Proof. vm_compute. reflexivity. Qed.

Lemma tnth_sorted_step i : (i < 45)%nat -> tnth (S i) <= tnth i.
Proof. intros H. pose proof table_sorted_b as B. rewrite forallb_forall in B. apply Qle_bool_iff, B, in_seq. lia. Qed.
Lemma tnth_antitone i j : (i <= j)%nat -> (j <= 45)%nat -> tnth j <= tnth i.
Proof. induction 1; intros Hj; [apply Qle_refl|]. eapply Qle_trans; [apply tnth_sorted_step; lia|apply IHle; lia]. Qed.
Lemma tnth_range i : (i < 46)%nat -> 0 <= tnth i <= 12#10.
Proof.
  intros H. pose proof table_range_b as B. rewrite forallb_forall in B.
  assert (Hin : In (tnth i) table) by (apply nth_In; rewrite table_len; exact H).
  specialize (B _ Hin). apply andb_true_iff in B. destruct B as [B1 B2].
  split; apply Qle_bool_iff; assumption.
Qed.

Lemma idx_eq m c : inject_Z m - inject_Z c + (5#1) == inject_Z (m - c + 5).
Proof. unfold Qeq, Qminus, Qplus, Qopp, inject_Z; cbn. ring. Qed.

Lemma Qle_bool_inj a b : Qle_bool (inject_Z a) (inject_Z b) = (a <=? b)%Z.
Proof. unfold Qle_bool, inject_Z; cbn. rewrite !Z.mul_1_r. reflexivity. Qed.

Lemma Qle_bool_comp a a' b b' : a == a' -> b == b' -> Qle_bool a b = Qle_bool a' b'.
Proof.
  intros Ha Hb. destruct (Qle_bool a b) eqn:E1; destruct (Qle_bool a' b') eqn:E2; try reflexivity.
  - apply Qle_bool_iff in E1. rewrite Ha, Hb in E1. apply Qle_bool_iff in E1. congruence.
  - apply Qle_bool_iff in E2. rewrite <- Ha, <- Hb in E2. apply Qle_bool_iff in E2. congruence.
Qed.

Lemma py_index_Z {A} (l : list A) (q : Q) (z : Z) : q == inject_Z z -> (0 <= z)%Z ->
  py_index l q = nth_error l (Z.to_nat z).
Proof.
  intros H Hz. unfold py_index. rewrite (Qfloor_comp _ _ H), Qfloor_Z.
  destruct (z <? 0)%Z eqn:E; [apply Z.ltb_lt in E; lia|reflexivity].
Qed.

Lemma get_adv_val m c : adv m c = Some
   (let idx := (m - c + 5)%Z in if (idx <? 0)%Z then tnth 0 else if (46 <=? idx)%Z then 0 else tnth (Z.to_nat idx)).
Proof.
  unfold adv, LevelAdvantage_get_advantage. cbv zeta.
  rewrite (Qle_bool_comp (0#1) (inject_Z 0) _ (inject_Z (m - c + 5)) ltac:(reflexivity) (idx_eq m c)).
  rewrite (Qle_bool_comp (46#1) (inject_Z 46) _ (inject_Z (m - c + 5)) ltac:(reflexivity) (idx_eq m c)).
  rewrite !Qle_bool_inj.
  destruct (m - c + 5 <? 0)%Z eqn:E1.
  - apply Z.ltb_lt in E1. destruct (0 <=? m - c + 5)%Z eqn:E0; [apply Z.leb_le in E0; lia|]. cbn [negb].
    rewrite (py_index_Z _ (0#1) 0%Z ltac:(reflexivity) ltac:(lia)). reflexivity.
  - apply Z.ltb_ge in E1. destruct (0 <=? m - c + 5)%Z eqn:E0; [|apply Z.leb_gt in E0; lia]. cbn [negb].
    destruct (46 <=? m - c + 5)%Z eqn:E2; [reflexivity|].
    apply Z.leb_gt in E2.
    rewrite (py_index_Z _ _ (m - c + 5)%Z (idx_eq m c) ltac:(lia)).
    apply nth_error_nth'. fold table. rewrite table_len. lia.
Qed.

Theorem level_adv_total m c : exists q, adv m c = Some q.
Proof. rewrite get_adv_val. eexists; reflexivity. Qed.

Theorem level_adv_range m c q : adv m c = Some q -> 0 <= q <= 12#10.
Proof.
  rewrite get_adv_val. intros X; inversion X; subst; clear X. cbv zeta.
  destruct (m - c + 5 <? 0)%Z eqn:E1; [apply tnth_range; lia|].
  destruct (46 <=? m - c + 5)%Z eqn:E2; [split; [apply Qle_refl|discriminate]|].
  apply Z.ltb_ge in E1. apply Z.leb_gt in E2. apply tnth_range. lia.
Qed.

(* never increases as the monster out-levels the character (and never decreases as the
   character out-levels the monster) *)
Theorem level_adv_antitone m1 m2 c q1 q2 : (m1 <= m2)%Z -> adv m1 c = Some q1 -> adv m2 c = Some q2 -> q2 <= q1.
Proof.
  intros Hm. rewrite !get_adv_val. intros X1 X2; inversion X1; inversion X2; subst; clear X1 X2. cbv zeta.
  destruct (m1 - c + 5 <? 0)%Z eqn:A1; destruct (m2 - c + 5 <? 0)%Z eqn:A2;
  destruct (46 <=? m1 - c + 5)%Z eqn:B1; destruct (46 <=? m2 - c + 5)%Z eqn:B2;
  try apply Z.ltb_lt in A1; try apply Z.ltb_ge in A1; try apply Z.ltb_lt in A2; try apply Z.ltb_ge in A2;
  try apply Z.leb_le in B1; try apply Z.leb_gt in B1; try apply Z.leb_le in B2; try apply Z.leb_gt in B2; try lia;
  try apply Qle_refl; try (apply tnth_range; lia); try (apply tnth_antitone; lia).
Qed.
Theorem level_adv_monotone_char m c1 c2 q1 q2 : (c1 <= c2)%Z -> adv m c1 = Some q1 -> adv m c2 = Some q2 -> q1 <= q2.
Proof.
  intros Hc. rewrite !get_adv_val. intros X1 X2; inversion X1; inversion X2; subst; clear X1 X2. cbv zeta.
  destruct (m - c1 + 5 <? 0)%Z eqn:A1; destruct (m - c2 + 5 <? 0)%Z eqn:A2;
  destruct (46 <=? m - c1 + 5)%Z eqn:B1; destruct (46 <=? m - c2 + 5)%Z eqn:B2;
  try apply Z.ltb_lt in A1; try apply Z.ltb_ge in A1; try apply Z.ltb_lt in A2; try apply Z.ltb_ge in A2;
  try apply Z.leb_le in B1; try apply Z.leb_gt in B1; try apply Z.leb_le in B2; try apply Z.leb_gt in B2; try lia;
  try apply Qle_refl; try (apply tnth_range; lia); try (apply tnth_antitone; lia).
Qed.
