(* C19 -- clone() preserves every objective-relevant attribute, for the classes as they are in /repo now
   (gen/CloneFields.v is regenerated from the source on every run). *)
From Coq Require Import List String Bool.
From V.Model Require Import GreedyClone.
From G Require Import CloneFields.
Import ListNotations.
Open Scope string_scope.

Lemma clone_keeps_reads (V : Type) (dflt : string -> V) (d : target_desc) :
  clone_ok d = true -> forall (t : obj V) a, In a (t_reads d) -> clone V dflt d t a = t a.
Proof.
  unfold clone_ok. intros H t a I. apply andb_true_iff in H. destruct H as [H _].
  rewrite forallb_forall in H. specialize (H a I). unfold attr_forwarded in H.
  unfold clone, init, clone_args. destruct (lookup a (t_assigns d)) as [p|]; [|discriminate].
  destruct (lookup p (t_clone_kwargs d)) as [a'|]; [|discriminate]. apply String.eqb_eq in H. subst. reflexivity.
Qed.

(* any objective that looks only at the attributes get_value/get_cost/get_result read *)
Definition depends_only_on {V R : Type} (reads : list string) (f : obj V -> R) : Prop :=
  forall t1 t2 : obj V, (forall a, In a reads -> t1 a = t2 a) -> f t1 = f t2.

Lemma clone_preserves (V R : Type) (dflt : string -> V) (d : target_desc) (f : obj V -> R) :
  clone_ok d = true -> depends_only_on (t_reads d) f -> forall t, f (clone V dflt d t) = f t.
Proof. intros H D t. apply D. intros a I. apply clone_keeps_reads; assumption. Qed.

Lemma clone_targets_ok : forallb clone_ok clone_targets = true.
Proof. vm_compute. reflexivity. Qed.

Lemma clone_targets_cover : covers_expected clone_targets = true.
Proof. vm_compute. reflexivity. Qed.

Lemma clone_targets_read_armor : forallb (reads_attr "armor") clone_targets = true.
Proof. vm_compute. reflexivity. Qed.

Lemma clone_preserves_objective_all :
  forall d, In d clone_targets ->
  forall (V R : Type) (dflt : string -> V) (f : obj V -> R), depends_only_on (t_reads d) f ->
  forall t, f (clone V dflt d t) = f t.
Proof.
  intros d I V R dflt f D t. apply clone_preserves; [|exact D].
  assert (H := clone_targets_ok). rewrite forallb_forall in H. apply H, I.
Qed.

(* non-vacuity, and the defect repaired by 28b8030 as a model: a clone() that does not pass `armor`
   yields an object whose armor is the default whatever the original's was *)
Definition desc_dropping_armor : target_desc := {|
  t_name := "HyperstatTarget";
  t_params := ["default_stat"; "damage_logic"; "hyperstat_prototype"; "armor"; "<state>"];
  t_assigns := [("default_stat", "default_stat"); ("damage_logic", "damage_logic"); ("armor", "armor");
                ("_hyperstat_prototype", "hyperstat_prototype"); ("state", "<state>")];
  t_clone_kwargs := [("default_stat", "default_stat"); ("damage_logic", "damage_logic");
                     ("hyperstat_prototype", "_hyperstat_prototype"); ("<state>", "state")];
  t_reads := ["_hyperstat_prototype"; "armor"; "damage_logic"; "default_stat"; "state"] |}.

Example dropping_armor_rejected : clone_ok desc_dropping_armor = false.
Proof. vm_compute. reflexivity. Qed.

Example dropping_armor_changes_objective :
  exists (t : obj nat), clone nat (fun _ => 300) desc_dropping_armor t "armor" <> t "armor".
Proof. exists (fun _ => 100). vm_compute. discriminate. Qed.
