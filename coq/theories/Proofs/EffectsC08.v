(* The obligations of C08 on the skeletons extracted from the current source (gen/Effects_skeletons.v),
   discharged by evaluation of the checker, and their consequences through the soundness theorems. *)
From Coq Require Import List Bool.
From V.Model Require Import Effects.
From V.Proofs Require Import EffectsSound.
From G Require Import Effects_skeletons.
Import ListNotations.

Lemma all_reducers_safe : forallb safe all_reducers = true.
Proof. vm_compute. reflexivity. Qed.

Lemma all_views_safe : forallb safe all_views = true.
Proof. vm_compute. reflexivity. Qed.

Lemma summaries_justified : forallb (fun ps => justified (fst ps) (snd ps)) all_summaries = true.
Proof. vm_compute. reflexivity. Qed.

Lemma counts : length all_reducers = n_reducers /\ length all_views = n_views /\ length all_summaries = n_summaries.
Proof. vm_compute. auto. Qed.

Lemma bad_examples_rejected : forallb (fun p => negb (safe p)) bad_examples = true.
Proof. vm_compute. reflexivity. Qed.

Lemma good_examples_accepted : forallb safe good_examples = true.
Proof. vm_compute. reflexivity. Qed.

Lemma prerepair_rejected : safe ex_fullmetalbarrage_elapse_prerepair = false.
Proof. vm_compute. reflexivity. Qed.

(* every extracted reducer / view: no execution reaches Violation *)
Lemma reducers_never_violate : forall p, In p all_reducers ->
  forall base d r, wfd base d -> steps base d p r -> r <> Violation.
Proof.
  intros p I. apply safe_sound. pose proof all_reducers_safe as H. rewrite forallb_forall in H. apply H, I.
Qed.

Lemma views_never_violate : forall p, In p all_views ->
  forall base d r, wfd base d -> steps base d p r -> r <> Violation.
Proof.
  intros p I. apply safe_sound. pose proof all_views_safe as H. rewrite forallb_forall in H. apply H, I.
Qed.

Lemma callees_conform : forall p sm, In (p, sm) all_summaries ->
  forall base d r, wfd base d ->
    (forall x, In x (s_mut sm) -> dfresh base d x) -> (forall x, In x (s_top sm) -> sfresh base d x) ->
    steps base d p r ->
    r <> Violation /\
    (forall d' rs, r = Ret d' rs -> forall x, In x (s_mut sm) -> dfresh base d' x) /\
    ((forall x, In x (s_top sm ++ s_src sm) -> dfresh base d x) ->
       forall d' rs, r = Ret d' rs -> forall x, In x (s_mut sm ++ s_top sm) -> dfresh base d' x) /\
    (forall k S, nth_error (s_rets sm) k = Some (Some S) -> (forall x, In x S -> dfresh base d x) ->
       forall d' rs, r = Ret d' rs -> rs = [] \/ exists v, nth_error rs k = Some v /\ dfresh base d' v).
Proof.
  intros p sm I. apply justified_sound. pose proof summaries_justified as H. rewrite forallb_forall in H.
  apply (H (p, sm) I).
Qed.
