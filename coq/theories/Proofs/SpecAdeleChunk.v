(* C09 for the classes of the `adele` extension (every class; AdeleOrderComponent joined after the repair
   4d5f5f0, its entity-level lemmas are in SpecAdeleOrder.v):
   elapsing a then b = elapsing a+b: the damage events of the two runs are a permutation of each other,
   the final states agree up to the dead interval counter of an expired Periodic, hence the views agree;
   well-formedness is preserved by every reducer. *)
From Coq Require Import ZArith List Bool Lia Permutation.
From V.Model Require Import Comp SpecAdele.
From V.Proofs Require EPeriodicP EConsumableP EKeydownP.
From V.Proofs Require Import CompChunk SpecAdelePG SpecAdeleReject SpecAdeleOrder.
Import ListNotations.
Open Scope Z_scope.

Arguments PG.resolving : simpl never.

Definition xnorm (s : xst) : xst := setu s (unorm (x_u s)).
(* entities well-formed; the two parameter conditions: stack_per_period >= 0 and OrderSword.interval > 0 *)
Definition wf_x (p : xpar) (s : xst) : Prop := wf_ust (x_u s) /\ PG.wf (x_pg s) /\ 0 <= xp_sper p /\ 0 < xp_swi p.

Lemma xst_ext (x y : xst) :
  x_u x = x_u y -> x_pg x = x_pg y -> x_gauge x = x_gauge y -> x_rl x = x_rl y -> x_rlad x = x_rlad y -> x_sw x = x_sw y -> x = y.
Proof. destruct x, y; cbn; intros; subst; reflexivity. Qed.

Ltac xsimpl := cbn [x_u x_pg x_gauge x_rl x_rlad x_sw setu setpg setgauge setrl setsw gauge_inc lift xnorm fst snd].

(* ------------------------------------------------------------ classes that are a common trait on their own entities *)
Definition lifted (c : xcomp) : option comp :=
  match c with
  | DarkSight | PenalizedBuff => Some BuffSkill
  | FullDrive => Some PeriodicAttack
  | CygnusBlessing => Some ConsumableBuffSkill
  | Creation | Gathering | Blossom => Some AttackSkill
  | _ => None
  end.

Lemma lifted_elapse c c' p t s : lifted c = Some c' ->
  exists r, reduce_spec c' MElapse (xp p) t (x_u s) = Some r /\ xreduce_spec c XElapse p t s = Some (lift s r).
Proof. destruct c; cbn; intros H; try discriminate; injection H as <-; eexists; split; reflexivity. Qed.

Lemma chunk_lifted c c' p a b s s1 e1 s2 e2 s3 e3 :
  lifted c = Some c' -> wf_x p s -> 0 <= a -> 0 <= b ->
  xreduce_spec c XElapse p a s = Some (s1, e1) -> xreduce_spec c XElapse p b s1 = Some (s2, e2) ->
  xreduce_spec c XElapse p (a + b) s = Some (s3, e3) ->
  xnorm s2 = xnorm s3 /\ Permutation (dealts (e1 ++ e2)) (dealts e3).
Proof.
  intros L (W & _) Ha Hb H1 H2 H3.
  destruct (lifted_elapse c c' p a s L) as ([u1 f1] & R1 & X1). rewrite X1 in H1. injection H1 as <- <-.
  destruct (lifted_elapse c c' p b (fst (lift s (u1, f1))) L) as ([u2 f2] & R2 & X2).
  unfold lift in X2, H2. cbn [fst snd] in X2, H2. rewrite X2 in H2. injection H2 as <- <-.
  destruct (lifted_elapse c c' p (a + b) s L) as ([u3 f3] & R3 & X3). rewrite X3 in H3. injection H3 as <- <-.
  cbn [x_u setu fst snd] in R2.
  assert (Cp : chunk_proved c' = true) by (destruct c; cbn in L; try discriminate; injection L as <-; reflexivity).
  destruct (elapse_chunk c' (xp p) a b (x_u s) u1 f1 u2 f2 u3 f3 Cp W Ha Hb R1 R2 R3) as [U E].
  split; [|exact E]. unfold lift. apply xst_ext; xsimpl; try reflexivity. exact U.
Qed.

(* ------------------------------------------------------------ ProgrammedPeriodic *)
Lemma dealts_elapsed t x n : dealts (EElapsed t :: repeat (dealt x) n) = repeat (dealt x) n.
Proof. change (EElapsed t :: ?l) with ([EElapsed t] ++ l). rewrite dealts_app, dealts_repeat. reflexivity. Qed.

Lemma chunk_programmed p a b s s1 e1 s2 e2 s3 e3 :
  wf_x p s -> 0 <= a -> 0 <= b ->
  xreduce_spec ProgrammedPeriodic XElapse p a s = Some (s1, e1) ->
  xreduce_spec ProgrammedPeriodic XElapse p b s1 = Some (s2, e2) ->
  xreduce_spec ProgrammedPeriodic XElapse p (a + b) s = Some (s3, e3) ->
  s2 = s3 /\ dealts (e1 ++ e2) = dealts e3.
Proof.
  intros (_ & W & _) Ha Hb H1 H2 H3. cbn [xreduce_spec xreduce] in H1, H2, H3.
  pose proof (resolving_additive (x_pg s) a b W Ha Hb) as ADD.
  destruct (PG.resolving (x_pg s) a) as [g1 n1]. injection H1 as <- <-. xsimpl. cbn [x_pg setpg setu] in H2.
  destruct (PG.resolving g1 b) as [g2 n2]. injection H2 as <- <-.
  rewrite ADD in H3. injection H3 as <- <-. split.
  - apply xst_ext; xsimpl; try reflexivity. ust_eq.
  - rewrite dealts_app, !dealts_elapsed. apply repeat_add.
Qed.

(* ------------------------------------------------------------ Ether: the gauge is capped additively *)
Lemma cap_add m g x y : 0 <= x -> 0 <= y -> Z.min m (Z.min m (g + x) + y) = Z.min m (g + (x + y)).
Proof. lia. Qed.

Lemma chunk_ether p a b s s1 e1 s2 e2 s3 e3 :
  wf_x p s -> 0 <= a -> 0 <= b ->
  xreduce_spec Ether XElapse p a s = Some (s1, e1) -> xreduce_spec Ether XElapse p b s1 = Some (s2, e2) ->
  xreduce_spec Ether XElapse p (a + b) s = Some (s3, e3) ->
  xnorm s2 = xnorm s3 /\ dealts (e1 ++ e2) = dealts e3.
Proof.
  intros ((W & _) & _ & Hk & _) Ha Hb H1 H2 H3. cbn [xreduce_spec xreduce] in H1, H2, H3.
  injection H1 as <- <-. xsimpl. cbn [x_u setu setgauge gauge_inc u_p1 set_p1 x_gauge] in H2.
  injection H2 as <- <-; injection H3 as <- <-.
  destruct (periodic_chunk (u_p1 (x_u s)) a b W Ha Hb) as [N T _ _]. split; [|reflexivity].
  apply xst_ext; xsimpl; try reflexivity.
  - apply ust_ext; usimpl; rewrite ?N; reflexivity.
  - rewrite cap_add by (apply Z.mul_nonneg_nonneg; lia). rewrite <- T. f_equal. lia.
Qed.

(* ------------------------------------------------------------ Ruin: two schedules *)
Lemma perm_double {A} (a1 b1 a2 b2 : list A) : Permutation ((a1 ++ b1) ++ (a2 ++ b2)) ((a1 ++ a2) ++ (b1 ++ b2)).
Proof.
  rewrite <- !app_assoc. apply Permutation_app_head. rewrite !app_assoc. apply Permutation_app_tail. apply Permutation_app_comm.
Qed.

Lemma chunk_ruin p a b s s1 e1 s2 e2 s3 e3 :
  wf_x p s -> 0 <= a -> 0 <= b ->
  xreduce_spec Ruin XElapse p a s = Some (s1, e1) -> xreduce_spec Ruin XElapse p b s1 = Some (s2, e2) ->
  xreduce_spec Ruin XElapse p (a + b) s = Some (s3, e3) ->
  xnorm s2 = xnorm s3 /\ Permutation (dealts (e1 ++ e2)) (dealts e3).
Proof.
  intros ((W1 & W2 & _) & _) Ha Hb H1 H2 H3. cbn [xreduce_spec xreduce] in H1, H2, H3.
  injection H1 as <- <-. cbn [x_u setu] in H2. usimpl. cbn [u_p1 u_p2 u_cd set_cd set_p1 set_p2] in H2.
  injection H2 as <- <-; injection H3 as <- <-.
  destruct (periodic_chunk (u_p1 (x_u s)) a b W1 Ha Hb) as [N1 T1 _ _].
  destruct (periodic_chunk (u_p2 (x_u s)) a b W2 Ha Hb) as [N2 T2 _ _]. split.
  - apply xst_ext; xsimpl; try reflexivity. apply ust_ext; usimpl; rewrite ?N1, ?N2; try reflexivity; lia.
  - change (EElapsed ?t :: ?l) with ([EElapsed t] ++ l). rewrite !dealts_app, !dealts_repeat. cbn [dealts filter is_dealt app].
    rewrite <- T1, <- T2, <- !repeat_add. apply perm_double.
Qed.

(* ------------------------------------------------------------ Restore: one linear timer *)
Lemma chunk_restore p a b s s1 e1 s2 e2 s3 e3 :
  xreduce_spec Restore XElapse p a s = Some (s1, e1) -> xreduce_spec Restore XElapse p b s1 = Some (s2, e2) ->
  xreduce_spec Restore XElapse p (a + b) s = Some (s3, e3) ->
  s2 = s3 /\ dealts (e1 ++ e2) = dealts e3.
Proof.
  cbn [xreduce_spec xreduce]. intros H1 H2 H3. injection H1 as <- <-; injection H2 as <- <-; injection H3 as <- <-.
  split; [|reflexivity]. apply xst_ext; xsimpl; try reflexivity. lia.
Qed.

(* ------------------------------------------------------------ Storm: the hit is multiplied by a stack the elapse does not touch *)
Lemma dealts_repeat_ev (e : ev) n : is_dealt e = true -> dealts (repeat e n) = repeat e n.
Proof. intros H. induction n; cbn; [reflexivity|]. rewrite H. f_equal. exact IHn. Qed.

Lemma chunk_storm p a b s s1 e1 s2 e2 s3 e3 :
  wf_x p s -> 0 <= a -> 0 <= b ->
  xreduce_spec Storm XElapse p a s = Some (s1, e1) -> xreduce_spec Storm XElapse p b s1 = Some (s2, e2) ->
  xreduce_spec Storm XElapse p (a + b) s = Some (s3, e3) ->
  xnorm s2 = xnorm s3 /\ dealts (e1 ++ e2) = dealts e3.
Proof.
  intros ((W & _) & _) Ha Hb H1 H2 H3. cbn [xreduce_spec xreduce] in H1, H2, H3.
  injection H1 as <- <-. cbn [x_u setu] in H2. unfold storm_tick in *. cbn [u_p1 u_cd u_stk set_cd set_p1] in H2.
  injection H2 as <- <-; injection H3 as <- <-.
  destruct (periodic_chunk (u_p1 (x_u s)) a b W Ha Hb) as [N T _ _]. split.
  - apply xst_ext; xsimpl; try reflexivity. apply ust_ext; usimpl; rewrite ?N; try reflexivity; lia.
  - change (EElapsed ?t :: ?l) with ([EElapsed t] ++ l). rewrite !dealts_app, !dealts_repeat_ev by reflexivity.
    cbn [dealts filter is_dealt app]. rewrite repeat_add, T. reflexivity.
Qed.

(* ------------------------------------------------------------ Order: every sword ticks while it is alive *)
Lemma order_chunk p a b s : 0 < xp_swi p -> 0 <= a -> 0 <= b ->
  let '(s1, e1) := order_elapse p a s in let '(s2, e2) := order_elapse p b s1 in
  let '(s3, e3) := order_elapse p (a + b) s in
  s2 = s3 /\ dealts (e1 ++ e2) = dealts e3.
Proof.
  intros HI Ha Hb. unfold order_elapse.
  destruct (sw_resolve_add (max_sw p s) (xp_swi p) a b (x_sw s) HI Ha Hb) as [R1 R2].
  destruct (sw_resolve (max_sw p s) (xp_swi p) a (x_sw s)) as [sw1 n1] eqn:E1. cbn [x_sw x_u setsw setu].
  change (max_sw p (setsw _ sw1)) with (max_sw p s). cbn [fst snd] in R1, R2.
  destruct (sw_resolve (max_sw p s) (xp_swi p) b sw1) as [sw2 n2] eqn:E2.
  destruct (sw_resolve (max_sw p s) (xp_swi p) (a + b) (x_sw s)) as [sw3 n3] eqn:E3. cbn [fst snd] in R1, R2. subst sw3 n3.
  split.
  - apply xst_ext; cbn [x_u x_sw x_gauge x_rl x_rlad x_pg setsw setu]; try reflexivity. ust_eq.
  - rewrite dealts_app, !dealts_elapsed. apply repeat_add.
Qed.

Lemma chunk_order p a b s s1 e1 s2 e2 s3 e3 :
  wf_x p s -> 0 <= a -> 0 <= b ->
  xreduce_spec Order XElapse p a s = Some (s1, e1) -> xreduce_spec Order XElapse p b s1 = Some (s2, e2) ->
  xreduce_spec Order XElapse p (a + b) s = Some (s3, e3) ->
  s2 = s3 /\ dealts (e1 ++ e2) = dealts e3.
Proof.
  intros (_ & _ & _ & HI) Ha Hb H1 H2 H3. cbn [xreduce_spec xreduce] in H1, H2, H3.
  assert (E1 : order_elapse p a s = (s1, e1)) by congruence.
  assert (E2 : order_elapse p b s1 = (s2, e2)) by congruence.
  assert (E3 : order_elapse p (a + b) s = (s3, e3)) by congruence.
  pose proof (order_chunk p a b s HI Ha Hb) as X. rewrite E1, E2, E3 in X. exact X.
Qed.

(* ------------------------------------------------------------ summary *)
Theorem xelapse_chunk c p a b s s1 e1 s2 e2 s3 e3 :
  wf_x p s -> 0 <= a -> 0 <= b ->
  xreduce_spec c XElapse p a s = Some (s1, e1) -> xreduce_spec c XElapse p b s1 = Some (s2, e2) ->
  xreduce_spec c XElapse p (a + b) s = Some (s3, e3) ->
  xnorm s2 = xnorm s3 /\ Permutation (dealts (e1 ++ e2)) (dealts e3).
Proof.
  intros W Ha Hb H1 H2 H3.
  destruct (lifted c) as [c'|] eqn:L.
  { apply (chunk_lifted c c' p a b s s1 e1 s2 e2 s3 e3 L W Ha Hb H1 H2 H3). }
  destruct c; try discriminate.
  - destruct (chunk_programmed p a b s s1 e1 s2 e2 s3 e3 W Ha Hb H1 H2 H3) as [-> ->]. split; reflexivity.
  - destruct (chunk_ether p a b s s1 e1 s2 e2 s3 e3 W Ha Hb H1 H2 H3) as [X ->]. split; [exact X|reflexivity].
  - destruct (chunk_order p a b s s1 e1 s2 e2 s3 e3 W Ha Hb H1 H2 H3) as [-> ->]. split; reflexivity.
  - apply (chunk_ruin p a b s s1 e1 s2 e2 s3 e3 W Ha Hb H1 H2 H3).
  - destruct (chunk_restore p a b s s1 e1 s2 e2 s3 e3 H1 H2 H3) as [-> ->]. split; reflexivity.
  - destruct (chunk_storm p a b s s1 e1 s2 e2 s3 e3 W Ha Hb H1 H2 H3) as [X ->]. split; [exact X|reflexivity].
Qed.

(* views only read the normalised state *)
Lemma xviews_xnorm c p s :
  xview_validity c p (xnorm s) = xview_validity c p s /\ xview_running c p (xnorm s) = xview_running c p s /\
  xview_buff c p (xnorm s) = xview_buff c p s.
Proof. destruct c; repeat split. Qed.

Corollary xelapse_chunk_views c p a b s s1 e1 s2 e2 s3 e3 :
  wf_x p s -> 0 <= a -> 0 <= b ->
  xreduce_spec c XElapse p a s = Some (s1, e1) -> xreduce_spec c XElapse p b s1 = Some (s2, e2) ->
  xreduce_spec c XElapse p (a + b) s = Some (s3, e3) ->
  xview_validity c p s2 = xview_validity c p s3 /\ xview_running c p s2 = xview_running c p s3 /\
  xview_buff c p s2 = xview_buff c p s3.
Proof.
  intros W Ha Hb H1 H2 H3. destruct (xelapse_chunk c p a b s s1 e1 s2 e2 s3 e3 W Ha Hb H1 H2 H3) as [U _].
  destruct (xviews_xnorm c p s2) as (A1 & A2 & A3). destruct (xviews_xnorm c p s3) as (B1 & B2 & B3).
  rewrite <- A1, <- A2, <- A3, <- B1, <- B2, <- B3, U. repeat split.
Qed.

(* every elapsed notification carries the time of the elapse (all classes, Order included) *)
Lemma xelapsed_carries_time c p t s s' es :
  xreduce_spec c XElapse p t s = Some (s', es) -> elapsed_times es = [t].
Proof.
  intros H. destruct c; cbn [xreduce_spec xreduce] in H; try discriminate;
    try (destruct (PG.resolving (x_pg s) t) as [g n]);
    unfold order_elapse in H; try (destruct (sw_resolve (max_sw p s) (xp_swi p) t (x_sw s)) as [sw k]);
    unfold lift, elapse_simple_attack, elapse_buff_trait, elapse_consumable_buff_trait, elapse_periodic_with, storm_tick in H;
    injection H as <- <-; cbn [fst snd];
    change (EElapsed t :: ?l) with ([EElapsed t] ++ l);
    rewrite ?elapsed_times_app, ?elapsed_times_repeat; cbn [elapsed_times flat_map app]; try reflexivity.
  (* storm: the tick is not literally `dealt x` *)
  induction (ticks _ _); cbn; auto.
Qed.

(* ------------------------------------------------------------ wf is an invariant of every reducer *)
Definition xwf_par (p : xpar) (s : xst) : Prop := wf_par (xp p) (x_u s).

Lemma xwf_preserved c m p t s s' es :
  wf_x p s -> xwf_par p s -> 0 <= t ->
  xreduce_spec c m p t s = Some (s', es) ->
  wf_x p s' /\ u_ic1 (x_u s') = u_ic1 (x_u s) /\ u_ic2 (x_u s') = u_ic2 (x_u s) /\ u_ic3 (x_u s') = u_ic3 (x_u s).
Proof.
  intros ((W1 & W2 & W3 & WC & WK) & WG & Hk & HI) (Hprep & I1 & I2 & I3) Ht H.
  pose proof (resolving_wf (x_pg s) t WG) as WG'.
  destruct c, m; cbn [xreduce_spec xreduce] in H; try discriminate;
    try (destruct (PG.resolving (x_pg s) t) as [g n]; cbn [fst] in WG');
    unfold order_elapse in H; try (destruct (sw_resolve (max_sw p s) (xp_swi p) t (x_sw s)) as [sw k]);
    unfold lift, use_simple_attack, elapse_simple_attack, use_multiple_damage, use_buff_trait, elapse_buff_trait,
      use_consumable_buff_trait, elapse_consumable_buff_trait, elapse_periodic_with, use_periodic_with_simple,
      use_periodic, use_multiple, ignore_rejected in H;
    repeat match type of H with context [if ?b then _ else _] => destruct b eqn:? end;
    cbn [fst snd] in H; injection H as <- <-;
    (split; [split; [apply wf_ust_intro|split; [|split]] | repeat split]); xsimpl; usimpl; try reflexivity; try assumption;
    try (apply elapse_wf; assumption); try (apply set_time_left_wf; assumption).
  - (* cygnus use *)
    destruct WC as (A & B & C0 & D). unfold C.available, C.wf, C.consume in *. cbn.
    apply Bool.negb_false_iff, Z.ltb_lt in Heqb. lia.
  - apply (EConsumableP.elapse_abs _ t WC Ht).
Qed.

(* the specification's programmed loop never runs out of fuel on a well-formed entity *)
Lemma xpg_fuel_enough g t : PG.wf g -> PG.resolving_fuel (PG.fuel_of g) g t <> None.
Proof. intros W. destruct (resolving_some g t W) as [r E]. rewrite E. discriminate. Qed.

(* ------------------------------------------------------------ non-vacuity *)
Definition x_s1 : xst := mkX (set_cd x_u0 250000) (PG.mk 0 [900; 850; 750; 650; 5730] 50000 0) 0 0 0 [].
Example xchunk_nonvacuous :
  wf_x x_p0 x_s1 /\
  xreduce_spec ProgrammedPeriodic XElapse x_p0 1000 x_s1 =
    Some (mkX (set_cd x_u0 249000) (PG.mk 750 [900; 850; 750; 650; 5730] 48250 2) 0 0 0 [], [EElapsed 1000; EDealt 3 4; EDealt 3 4]) /\
  xreduce_spec ProgrammedPeriodic XElapse x_p0 2000
    (mkX (set_cd x_u0 249000) (PG.mk 750 [900; 850; 750; 650; 5730] 48250 2) 0 0 0 []) =
    Some (mkX (set_cd x_u0 247000) (PG.mk 150 [900; 850; 750; 650; 5730] 46850 4) 0 0 0 [], [EElapsed 2000; EDealt 3 4; EDealt 3 4]) /\
  xreduce_spec ProgrammedPeriodic XElapse x_p0 3000 x_s1 =
    Some (mkX (set_cd x_u0 247000) (PG.mk 150 [900; 850; 750; 650; 5730] 46850 4) 0 0 0 [],
          [EElapsed 3000; EDealt 3 4; EDealt 3 4; EDealt 3 4; EDealt 3 4]).
Proof.
  split.
  - repeat split; cbn; try lia; try discriminate. repeat constructor.
  - repeat split; vm_compute; reflexivity.
Qed.
