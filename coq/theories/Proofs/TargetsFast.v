(* C19 (real targets) -- the fast evaluation used by the correspondence shards (Model/Targets.v: *_value_fast, fractions
   reduced after every addition) equals the GENERATED get_value of each target, for all inputs (== on the rational). *)
From Coq Require Import List ZArith QArith Qminmax Bool String Lia Lqa Arith Setoid Morphisms.
From V.Model Require Import Greedy TargetsRt Targets.
From V.Proofs Require Import DamageMono StatLaws TargetsLogic TargetsGen TargetsHyper TargetsMask.
From G Require Import CoreQ Targets.
Import ListNotations.
Open Scope Q_scope.

Lemma stat_red_seq s : Stat_seq (stat_red s) s.
Proof. unfold Stat_seq, stat_red, S_. cbn. repeat split; apply Qred_correct. Qed.

Lemma Stat_iadd_proper a a' b b' : Stat_seq a a' -> Stat_seq b b' -> Stat_seq (Stat_iadd a b) (Stat_iadd a' b').
Proof.
  intros Ha Hb. eapply Stat_seq_trans; [apply Stat_iadd_eq_add|].
  eapply Stat_seq_trans; [apply Stat_add_proper; eassumption|]. apply Stat_seq_sym, Stat_iadd_eq_add.
Qed.

Definition oseq (a b : option Stat) : Prop :=
  match a, b with Some x, Some y => Stat_seq x y | None, None => True | _, _ => False end.

Lemma sum_red_seq add : (forall a a' b b', Stat_seq a a' -> Stat_seq b b' -> Stat_seq (add a b) (add a' b')) ->
  forall ts a a', Stat_seq a a' -> oseq (sum_red add ts a) (sumM add ts a').
Proof.
  intros P. induction ts as [|t ts IH]; intros a a' H; unfold sum_red, sumM; cbn [py_foldM]; [exact H|].
  destruct t as [x|]; [|exact I]. apply IH.
  eapply Stat_seq_trans; [apply stat_red_seq|]. apply P; [exact H|apply Stat_seq_refl].
Qed.

Lemma objective_seq L default armor a b : oseq a b ->
  oqeq (objective L default armor a)
       (match b with Some t => Some (logic_df L (Stat_add default t) armor) | None => None end).
Proof.
  destruct a as [x|], b as [y|]; cbn; try tauto. intros H. apply logic_df_proper, Stat_add_proper; [apply Stat_seq_refl|exact H].
Qed.

Theorem hyper_fast_ok L default armor st : oqeq (hyper_value_fast L default armor st) (hyper_value_opt L default armor st).
Proof.
  rewrite hyper_value_opt_eq, hyper_len_ok. unfold hyper_value_fast.
  destruct (List.length st =? List.length hyper_opts)%nat; [|exact I].
  apply objective_seq, (sum_red_seq Stat_add Stat_add_proper), Stat_seq_refl.
Qed.

Theorem occ_fast_ok L default armor st : oqeq (occ_value_fast L default armor st) (occ_value_opt L default armor st).
Proof.
  rewrite occ_value_opt_eq. unfold occ_value_fast.
  destruct (List.length st =? List.length occ_rows)%nat; [|exact I].
  apply objective_seq, (sum_red_seq Stat_add Stat_add_proper), Stat_seq_refl.
Qed.

Theorem squad_fast_ok L default armor sizes st :
  oqeq (squad_value_fast L default armor sizes st) (squad_value_opt L default armor sizes st).
Proof.
  rewrite squad_value_opt_eq. unfold squad_value_fast.
  apply objective_seq, (sum_red_seq Stat_iadd Stat_iadd_proper), Stat_seq_refl.
Qed.

Theorem link_fast_ok L default armor levels st :
  oqeq (link_value_fast L default armor levels st) (link_value_opt L default armor levels st).
Proof.
  rewrite link_value_opt_eq. unfold link_value_fast.
  apply objective_seq, (sum_red_seq Stat_iadd Stat_iadd_proper), Stat_seq_refl.
Qed.

Theorem fast_eval_ok :
  (forall L default armor st, oqeq (hyper_value_fast L default armor st) (hyper_value_opt L default armor st)) /\
  (forall L default armor sizes st, oqeq (squad_value_fast L default armor sizes st) (squad_value_opt L default armor sizes st)) /\
  (forall L default armor st, oqeq (occ_value_fast L default armor st) (occ_value_opt L default armor st)) /\
  (forall L default armor levels st, oqeq (link_value_fast L default armor levels st) (link_value_opt L default armor levels st)).
Proof. split; [exact hyper_fast_ok|]. split; [exact squad_fast_ok|]. split; [exact occ_fast_ok|exact link_fast_ok]. Qed.

(* reading a comparison made on the fast value back on the generated one *)
Definition strictly_up (a b : option Q) : bool :=
  match a, b with Some v, Some v' => negb (qle v 0) && negb (qle v' v) | _, _ => false end.

Lemma strictly_up_spec a b : strictly_up a b = true -> exists v v', a = Some v /\ b = Some v' /\ 0 < v /\ v < v'.
Proof.
  unfold strictly_up. destruct a as [v|]; [|discriminate]. destruct b as [v'|]; [|discriminate]. intros H.
  apply andb_prop in H. destruct H as [H1 H2]. apply negb_true_iff in H1. apply negb_true_iff in H2.
  exists v, v'. split; [reflexivity|]. split; [reflexivity|].
  split; apply Qnot_le_lt; intros X; apply qle_iff in X; congruence.
Qed.

Lemma strictly_up_transfer a b a' b' : oqeq a a' -> oqeq b b' -> strictly_up a b = true ->
  exists v v', a' = Some v /\ b' = Some v' /\ 0 < v /\ v < v'.
Proof.
  intros Ha Hb H. destruct (strictly_up_spec _ _ H) as (v & v' & -> & -> & H1 & H2).
  destruct a' as [w|]; [|destruct Ha]. destruct b' as [w'|]; [|destruct Hb]. cbn in Ha, Hb.
  exists w, w'. split; [reflexivity|]. split; [reflexivity|]. rewrite <- Ha, <- Hb. auto.
Qed.
