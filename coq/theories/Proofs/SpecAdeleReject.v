(* C07 for the classes of the `adele` extension: a rejection is reported alone and changes nothing. *)
From Coq Require Import ZArith List Bool Lia.
From V.Model Require Import Comp SpecAdele.
From V.Proofs Require Import CompReject.
Import ListNotations.
Open Scope Z_scope.

Lemma setu_id s : setu s (x_u s) = s.
Proof. destruct s; reflexivity. Qed.

Lemma rejected_repeat_ev (e : ev) n : is_reject e = false -> rejected (repeat e n) = false.
Proof. intros H. induction n; cbn; [reflexivity|]. rewrite H. exact IHn. Qed.

Lemma rejected_filter l : rejected (filter (fun e => negb (is_reject e)) l) = false.
Proof. induction l as [|e l IH]; cbn; [reflexivity|]. destruct (is_reject e) eqn:E; cbn; rewrite ?E; exact IH. Qed.

Ltac xnorej :=
  repeat (rewrite ?rejected_filter, ?rejected_app, ?rejected_repeat_dealt, ?rejected_map_dealt, ?rejected_repeat_ev by reflexivity;
          cbn [rejected existsb is_reject orb dealt storm_tick app]);
  try reflexivity; try discriminate.

Ltac unfold_traits H :=
  unfold lift, use_simple_attack, elapse_simple_attack, use_multiple_damage, use_buff_trait, elapse_buff_trait,
    use_consumable_buff_trait, elapse_consumable_buff_trait, elapse_periodic_with, use_periodic_with_simple,
    use_periodic, use_multiple, ignore_rejected, gauge_inc in H.

(* Every reducer of every class of the extension, for any Periodic / ProgrammedPeriodic elapse function *)
Lemma xreject_alone pe pg c m p t s s' es :
  xreduce pe pg c m p t s = Some (s', es) -> rejected es = true -> es = [EReject] /\ s' = s.
Proof.
  intros H R.
  destruct c, m; cbn [xreduce] in H; try discriminate;
    try (destruct (pg (x_pg s) t) as [g n]);
    unfold order_elapse in H; try (destruct (sw_resolve (max_sw p s) (xp_swi p) t (x_sw s)) as [sw k]);
    unfold_traits H;
    repeat match type of H with
      | context [if ?b then _ else _] => destruct b eqn:?
      end;
    cbn [fst snd filter is_reject negb rejected existsb orb] in H;
    try (injection H as <- <-; rewrite ?setu_id; first [ split; reflexivity | exfalso; revert R; xnorej ]).
Qed.

Lemma xreject_alone_spec c m p t s s' es :
  xreduce_spec c m p t s = Some (s', es) -> rejected es = true -> es = [EReject] /\ s' = s.
Proof. apply xreject_alone. Qed.

(* AdeleCreationComponent.trigger is wrapped in ignore_rejected: it never reports a rejection, and while the
   skill is cooling down it returns no event and the unchanged state *)
Lemma creation_trigger_silent p t s s' es :
  xreduce_spec Creation XTrigger p t s = Some (s', es) ->
  rejected es = false /\ (0 < u_cd (x_u s) -> es = [] /\ s' = s).
Proof.
  cbn. unfold lift, use_multiple, ignore_rejected, avail. intros H.
  destruct (u_cd (x_u s) <=? 0) eqn:E; cbn in H; injection H as <- <-; split.
  - rewrite filter_app. cbn. unfold rejected. rewrite existsb_app. cbn.
    rewrite orb_false_r. induction (Z.to_nat _); cbn; auto.
  - apply Z.leb_le in E. intros; lia.
  - reflexivity.
  - intros _. rewrite setu_id. split; reflexivity.
Qed.

(* Using a skill that is not ready is a no-op reported as one rejection *)
Definition xcooldown_kind (c : xcomp) : bool :=
  match c with
  | ProgrammedPeriodic | DarkSight | PenalizedBuff | FullDrive | Order | Gathering | Blossom | Ruin | Storm => true
  | _ => false
  end.
Lemma xnot_ready_noop c p t s :
  xcooldown_kind c = true -> 0 < u_cd (x_u s) -> xreduce_spec c XUse p t s = Some (s, [EReject]).
Proof.
  intros Hc Hcd. assert (A : avail (x_u s) = false) by (unfold avail; apply Z.leb_gt; lia).
  destruct c; try discriminate; cbn;
    unfold lift, use_buff_trait, use_periodic_with_simple, use_multiple;
    rewrite ?A, ?andb_false_r; cbn; rewrite ?setu_id; try reflexivity.
  (* storm: the sword test comes first *)
  unfold sword_count. destruct (_ <=? 0); reflexivity.
Qed.

(* the resource tests of the adele skills: no ether / no sword => no-op *)
Lemma order_without_ether_noop p t s :
  x_gauge s < xp_ocons p -> xreduce_spec Order XUse p t s = Some (s, [EReject]).
Proof.
  intros H. cbn. unfold order_valid. replace (xp_ocons p <=? x_gauge s) with false by (symmetry; apply Z.leb_gt; lia).
  reflexivity.
Qed.
Lemma sword_skills_without_sword_noop c p t s :
  (c = Blossom \/ c = Storm) -> x_sw s = [] -> xreduce_spec c XUse p t s = Some (s, [EReject]).
Proof.
  intros [-> | ->] E; cbn; unfold sword_count; rewrite E; cbn; rewrite ?andb_false_r; reflexivity.
Qed.
Lemma cygnus_not_ready_noop p t s :
  C.stack (u_cons (x_u s)) <= 0 -> xreduce_spec CygnusBlessing XUse p t s = Some (s, [EReject]).
Proof.
  intros H. cbn. unfold lift, use_consumable_buff_trait, C.available.
  replace (0 <? C.stack (u_cons (x_u s))) with false by (symmetry; apply Z.ltb_ge; lia). cbn. rewrite setu_id. reflexivity.
Qed.

(* Non-vacuity: rejecting uses exist (a cooling-down programmed skill; an order without ether) *)
Definition x_u0 : ust :=
  mkU 0 0 0 0 (C.mkC 1 1 1 1) (P.mkP 1 1 0 0) (P.mkP 1 1 0 0) (P.mkP 1 1 0 0) None None None (K.mkK 1 0 (-1)) 0.
Definition x_s0 : xst := mkX x_u0 (PG.mk 0 [900; 850; 750; 650; 5730] 0 0) 0 0 0 [].
Definition x_par0 : par :=
  mkPar false (1, 2) 720 250000 0 50000 50000 0%nat [] (3, 4) (0, 0) (0, 0) (0, 0) 0 (0, 0) 0 0 0 0 (0, 0).
Definition x_p0 : xpar := mkXP x_par0 400 100 100 5 12 21 0 1020 6 8 (5, 2) 0 999999999 5000 30 6 120.
Example xreject_happens :
  (exists s1 e1, xreduce_spec ProgrammedPeriodic XUse x_p0 0 x_s0 = Some (s1, e1) /\ rejected e1 = false /\
                 xreduce_spec ProgrammedPeriodic XUse x_p0 0 s1 = Some (s1, [EReject])) /\
  xreduce_spec Order XUse x_p0 0 x_s0 = Some (x_s0, [EReject]).
Proof. split; [do 2 eexists; repeat split|]; vm_compute; reflexivity. Qed.
