(* C14 -- comments, blank lines, spacing; header/body split (layout-token level). *)
From Coq Require Import List NArith ZArith Bool Lia.
Import ListNotations.
From V.Model Require Import Dsl.
From V.Proofs Require Import DslP.
Open Scope Z_scope.

(* ------------------------------------------------------------------ shapes the gap grammar accepts *)
Lemma sp_ign n : forallb is_ign (sp n) = true.
Proof. induction n; [reflexivity|exact IHn]. Qed.
Lemma sp_gap n : gap (sp n).
Proof. apply gap_repeat. reflexivity. Qed.
Lemma nls_gap k : gap (nls k).
Proof. apply gap_repeat. reflexivity. Qed.
Lemma optcom_gap c : gap (optcom c).
Proof. destruct c; reflexivity. Qed.
Lemma nls_nl k : forallb is_nl (nls k) = true.
Proof. unfold nls. induction (S k); [reflexivity|exact IHn]. Qed.
Lemma nls_ne k : nls k <> [].
Proof. discriminate. Qed.
Lemma spc_ign a c : forallb is_ign (sp a ++ optcom c) = true.
Proof. rewrite forallb_app, sp_ign. destruct c; reflexivity. Qed.
Lemma ws_gap w : forallb is_ws w = true -> gap w.
Proof. unfold gap. induction w as [|t w IH]; [reflexivity|]. cbn. intros H. apply andb_true_iff in H as [H1 H2]. rewrite IH by exact H2. destruct t; try discriminate; reflexivity. Qed.

Lemma headless_sp p b : p TSp = false -> headless p (sp b).
Proof. intros H. destruct b; [exact I|exact H]. Qed.

(* the end of the text: trailing spaces and a trailing comment *)
Lemma trail_ok a c : gmatch g_ign (sp a ++ optcom c) = true.
Proof. rewrite <- (app_nil_r (sp a ++ optcom c)). apply gmatch_ign_skips; [apply spc_ign|reflexivity]. Qed.

Lemma lead_sp plain a : gmatch (g_lead plain) (sp a) = true.
Proof. rewrite <- (app_nil_r (sp a)). apply gmatch_ign_skips; [apply sp_ign|]. destruct plain; reflexivity. Qed.

(* after the line break: spaces only (any item) *)
Lemma lead_after plain b : gmatch (g_lead plain) (sp b) = true.
Proof. apply lead_sp. Qed.

(* Sp* [Com] NL+ Sp*  is a separator before every kind of item *)
Lemma sepA_ok plain a c k b : gmatch (g_sep plain) (sp a ++ optcom c ++ nls k ++ sp b) = true.
Proof.
  rewrite app_assoc. unfold g_sep. apply gmatch_ign_skips; [apply spc_ign|]. apply gmatch_ign_here.
  apply gmatch_nl_run; [apply nls_ne|apply nls_nl|apply headless_sp; reflexivity|apply lead_sp].
Qed.

(* a further line that holds only white space, or only a comment (then white space): accepted
   before a plain operation, through the `WS?` of `request` *)
Definition wsline (w : list tok) : Prop :=
  forallb is_ws w = true \/ exists b w', w = sp b ++ TCom :: TNL :: w' /\ forallb is_ws w' = true.

Lemma lead_wsline w : wsline w -> gmatch (g_lead true) w = true.
Proof.
  intros [H|(b & w' & -> & H)]; unfold g_lead.
  - destruct w as [|t w]; [reflexivity|]. apply gmatch_ign_here.
    rewrite <- (app_nil_r (t :: w)). apply gmatch_wsopt_run; [discriminate|exact H|exact I|reflexivity].
  - change (sp b ++ TCom :: TNL :: w') with (sp b ++ [TCom] ++ (TNL :: w')). rewrite app_assoc.
    apply gmatch_ign_skips. { rewrite forallb_app, sp_ign. reflexivity. }
    apply gmatch_ign_here. rewrite <- (app_nil_r (TNL :: w')).
    apply gmatch_wsopt_run; [discriminate|exact H|exact I|reflexivity].
Qed.
Lemma wsline_gap w : wsline w -> gap w.
Proof.
  intros [H|(b & w' & -> & H)]; [apply ws_gap; exact H|].
  apply gap_app; [apply sp_gap|]. change (gap ([TCom; TNL] ++ w')). apply gap_app; [reflexivity|apply ws_gap; exact H].
Qed.

Lemma sepB_ok a c k w : headless is_nl w -> wsline w -> gmatch (g_sep true) (sp a ++ optcom c ++ nls k ++ w) = true.
Proof.
  intros Hh Hw. rewrite app_assoc. unfold g_sep. apply gmatch_ign_skips; [apply spc_ign|]. apply gmatch_ign_here.
  apply gmatch_nl_run; [apply nls_ne|apply nls_nl|exact Hh|apply lead_wsline; exact Hw].
Qed.

Inductive good_sep : bool -> list tok -> Prop :=
| GsA plain a c k b : good_sep plain (sp a ++ optcom c ++ nls k ++ sp b)
| GsB a c k w : headless is_nl w -> wsline w -> good_sep true (sp a ++ optcom c ++ nls k ++ w).
Inductive good_lead : bool -> list tok -> Prop :=
| GlA plain a : good_lead plain (sp a)
| GlB w : wsline w -> good_lead true w.
Inductive good_trail : list tok -> Prop := Gt a c : good_trail (sp a ++ optcom c).

Lemma good_sep_ok plain g : good_sep plain g -> gap g /\ gmatch (g_sep plain) g = true.
Proof.
  intros [p a c k b|a c k w Hh Hw].
  - split; [|apply sepA_ok]. repeat apply gap_app; auto using sp_gap, optcom_gap, nls_gap.
  - split; [|apply sepB_ok; assumption]. repeat apply gap_app; auto using sp_gap, optcom_gap, nls_gap, wsline_gap.
Qed.
Lemma good_lead_ok plain g : good_lead plain g -> gap g /\ gmatch (g_lead plain) g = true.
Proof.
  intros [p a|w Hw]; [split; [apply sp_gap|apply lead_sp]|split; [apply wsline_gap|apply lead_wsline]; assumption].
Qed.
Lemma good_trail_ok g : good_trail g -> gap g /\ gmatch g_ign g = true.
Proof. intros [a c]. split; [apply gap_app; auto using sp_gap, optcom_gap|apply trail_ok]. Qed.

(* spacing inside a command: any non-empty run of spaces / tabs *)
Definition good_inner (g : list tok) : Prop := g <> [] /\ forallb is_blank g = true.
Lemma blank_ws g : forallb is_blank g = true -> forallb is_ws g = true.
Proof. induction g as [|t g IH]; [reflexivity|]. cbn. intros H. apply andb_true_iff in H as [H1 H2]. rewrite IH by exact H2. destruct t; try discriminate; reflexivity. Qed.
Lemma good_inner_ok g : good_inner g -> gap g /\ gmatch g_ws g = true.
Proof.
  intros [Hne Hb]. pose proof (blank_ws g Hb) as Hw. split; [apply ws_gap; exact Hw|].
  unfold g_ws. apply gmatch_ign_here. rewrite <- (app_nil_r g). apply gmatch_ws_run; auto. exact I.
Qed.

Definition lay_good (l : lay) : Prop :=
  good_inner (l_g1 l) /\ good_inner (l_g2 l) /\ cmd_finite (l_cmd l) /\
  match l_mult l with Some (_, g) => (g = [] \/ good_inner g) /\ is_op (l_cmd l) = true | None => True end.
Lemma lay_good_ok l : lay_good l -> lay_ok l.
Proof.
  intros (H1 & H2 & Hf & Hm). destruct (good_inner_ok _ H1) as [G1 M1]. destruct (good_inner_ok _ H2) as [G2 M2].
  unfold lay_ok. repeat split; auto.
  - destruct (l_cmd l) as [[| |]|]; auto.
  - destruct (l_mult l) as [[z g]|]; [|exact I]. destruct Hm as [[->|Hg] Hop].
    + repeat split; auto.
    + destruct (good_inner_ok _ Hg) as [Gg Mg]. repeat split; auto.
      destruct Hg as [Hne Hb]. unfold g_optws. apply gmatch_ign_here. rewrite <- (app_nil_r g).
      apply gmatch_wsopt_run; auto using blank_ws. exact I.
Qed.

(* ------------------------------------------------------------------ layout never changes the commands (what IS true) *)
Theorem layout_invariance it rest lead trail :
  good_lead (lay_plain it) lead -> lay_good it ->
  Forall (fun p => good_sep (lay_plain (snd p)) (fst p) /\ lay_good (snd p)) rest -> good_trail trail ->
  parse_body (lead ++ render_doc it rest trail) = Some (denote_lay it ++ flat_map (fun p => denote_lay (snd p)) rest).
Proof.
  intros Hl Hit Hrest Ht. destruct (good_lead_ok _ _ Hl). destruct (good_trail_ok _ Ht).
  apply parse_body_layout; auto using lay_good_ok.
  eapply Forall_impl; [|exact Hrest]. intros [g l] [Hs Hg]. destruct (good_sep_ok _ _ Hs).
  unfold sep_ok. cbn [fst snd] in *. auto using lay_good_ok.
Qed.

Lemma print_sep_render c rest trail :
  print_sep c rest trail = render_doc (canon c) (map (fun p => (fst p, canon (snd p))) rest) trail.
Proof.
  revert c. induction rest as [|[g c'] rest IH]; intros c; cbn [print_sep map render_doc fst snd].
  - now rewrite print_cmd_render.
  - now rewrite IH, print_cmd_render.
Qed.

Lemma denote_canon_sep (rest : list (list tok * cmd)) :
  flat_map (fun p : list tok * lay => denote_lay (snd p)) (map (fun p => (fst p, canon (snd p))) rest) = map snd rest.
Proof. induction rest as [|[g c'] rest IH]; [reflexivity|]. cbn [map flat_map fst snd]. rewrite IH. reflexivity. Qed.

Theorem ignorable_invariance_partial c rest lead trail :
  good_lead (is_op c) lead -> cmd_finite c ->
  Forall (fun p => good_sep (is_op (snd p)) (fst p) /\ cmd_finite (snd p)) rest -> good_trail trail ->
  parse_body (lead ++ print_sep c rest trail) = Some (c :: map snd rest).
Proof.
  intros Hl Hc Hrest Ht. rewrite print_sep_render.
  destruct (good_lead_ok _ _ Hl). destruct (good_trail_ok _ Ht).
  rewrite parse_body_layout; auto.
  - rewrite denote_canon_sep. reflexivity.
  - now apply canon_ok.
  - clear - Hrest. induction Hrest as [|[g c'] rest [Hs Hf] _ IH]; [constructor|]. cbn [map]. constructor; [|exact IH].
    destruct (good_sep_ok _ _ Hs). unfold sep_ok. cbn [fst snd] in *. rewrite canon_plain. auto using canon_ok.
Qed.

(* the same text as the canonical print: the layout does not change the parse *)
Corollary ignorable_same_as_canonical c rest lead trail :
  good_lead (is_op c) lead -> cmd_finite c ->
  Forall (fun p => good_sep (is_op (snd p)) (fst p) /\ cmd_finite (snd p)) rest -> good_trail trail ->
  parse_body (lead ++ print_sep c rest trail) = parse_body (print (c :: map snd rest)).
Proof.
  intros. rewrite ignorable_invariance_partial by assumption. symmetry. apply parse_print; [discriminate|].
  constructor; [assumption|]. clear - H1. induction H1 as [|[g c'] rest [_ Hf] _ IH]; constructor; auto.
Qed.

(* ------------------------------------------------------------------ ... and what is NOT true of the current grammar *)
Definition w_use : text := [85; 83; 69]%N.
Definition n_a : text := [97]%N.
Definition use_a : cmd := Op (SkillOp w_use n_a).
Definition dbg_a : cmd := Console n_a.

(* full statement of "comments, blank lines and spacing never change the parsed commands":
     forall c1 c2 g, is_filler g = true -> parse_body (print_cmd c1 ++ g ++ print_cmd c2) = Some [c1; c2]
   and  forall c g, (g only spaces, newlines, comments) -> parse_body (print_cmd c ++ g) = Some [c].   Both are false: *)
Theorem ignorable_invariance_refuted :
  (exists c1 c2 g, is_filler g = true /\ parse_body (print_cmd c1 ++ g ++ print_cmd c2) = None) /\
  (exists c g, forallb is_layout g = true /\ parse_body (print_cmd c ++ g) = None).
Proof.
  split.
  - exists use_a, use_a, [TNL; TCom; TNL; TCom; TNL]. split; reflexivity.
  - exists use_a, [TNL]. split; reflexivity.
Qed.

(* the individual failing layouts, each one checked by evaluation *)
Example two_comment_lines_fail : parse_body (print_cmd use_a ++ [TNL; TCom; TNL; TCom; TNL] ++ print_cmd use_a) = None.
Proof. reflexivity. Qed.
Example one_comment_line_ok : parse_body (print_cmd use_a ++ [TNL; TCom; TNL] ++ print_cmd use_a) = Some [use_a; use_a].
Proof. reflexivity. Qed.
Example comment_line_before_console_fails : parse_body (print_cmd use_a ++ [TNL; TCom; TNL] ++ print_cmd dbg_a) = None.
Proof. reflexivity. Qed.
Example comment_line_before_multiplier_fails :
  parse_body (print_cmd use_a ++ [TNL; TCom; TNL] ++ TX 2 :: TSp :: print_cmd use_a) = None.
Proof. reflexivity. Qed.
Example space_only_line_before_console_fails : parse_body (print_cmd use_a ++ [TNL; TSp; TNL] ++ print_cmd dbg_a) = None.
Proof. reflexivity. Qed.
Example trailing_newline_fails : parse_body (print_cmd use_a ++ [TNL]) = None.
Proof. reflexivity. Qed.
Example trailing_comment_line_fails : parse_body (print_cmd use_a ++ [TNL; TCom]) = None.
Proof. reflexivity. Qed.
Example trailing_comment_same_line_ok : parse_body (print_cmd use_a ++ [TSp; TCom]) = Some [use_a].
Proof. reflexivity. Qed.
(* parse_simaple_runtime strips the text first, so for it a trailing newline is harmless; a
   last line holding a comment still fails *)
Example runtime_trailing_newline_ok : parse_simaple (print_cmd use_a ++ [TNL]) = Some (None, [use_a]).
Proof. reflexivity. Qed.
Example runtime_trailing_comment_line_fails : parse_simaple (print_cmd use_a ++ [TNL; TCom; TNL]) = None.
Proof. reflexivity. Qed.

(* every trailing newline is rejected by parse_dsl_to_command, for every plan *)
Lemma gmatch_ign_no_nl g : existsb is_nl g = true -> gmatch g_ign g = false.
Proof.
  induction g as [|t g IH]; [discriminate|]. intros H. unfold g_ign in *. rewrite gmatch_ign_unfold.
  cbn [gmatch]. destruct t; cbn in H |- *; try reflexivity; apply IH; exact H.
Qed.

Lemma print_render_trail c cs trail :
  print (c :: cs) ++ trail = render_doc (canon c) (map (fun c' => ([TNL], canon c')) cs) trail.
Proof.
  revert c. induction cs as [|c2 cs IH]; intros c.
  - cbn [print map render_doc]. now rewrite print_cmd_render.
  - change (print (c :: c2 :: cs)) with (print_cmd c ++ TNL :: print (c2 :: cs)).
    rewrite <- app_assoc. cbn [app]. rewrite IH, print_cmd_render. reflexivity.
Qed.
Lemma canon_seps cs : Forall cmd_finite cs -> Forall sep_ok (map (fun c' => ([TNL], canon c')) cs).
Proof.
  induction 1 as [|c2 cs Hc _ IH]; [constructor|]. cbn [map]. constructor; auto.
  unfold sep_ok. cbn [fst snd]. split; [reflexivity|]. split; [|apply canon_ok; assumption].
  rewrite canon_plain. destruct c2; reflexivity.
Qed.
(* For EVERY plan: a line break after the last command (a trailing newline, a last line that is
   blank or holds a comment) makes parse_dsl_to_command / parse_dsl_to_operations reject the text *)
Theorem trailing_line_rejected cs trail :
  cs <> [] -> Forall cmd_finite cs -> gap trail -> existsb is_nl trail = true ->
  parse_body (print cs ++ trail) = None.
Proof.
  intros Hne Hf Gt Hnl. destruct cs as [|c cs]; [congruence|]. inversion Hf; subst.
  rewrite print_render_trail, <- (app_nil_l (render_doc _ _ _)).
  rewrite parse_body_trail; auto using canon_ok, canon_seps.
  - now rewrite gmatch_ign_no_nl.
  - reflexivity.
  - rewrite canon_plain. destruct c; reflexivity.
Qed.

(* ------------------------------------------------------------------ strip, header / body *)
Lemma dropws_app a l : forallb is_ws a = true -> dropws (a ++ l) = dropws l.
Proof. induction a as [|t a IH]; [reflexivity|]. cbn. intros H. apply andb_true_iff in H as [H1 H2]. rewrite H1. auto. Qed.
Lemma dropws_solid x l : is_ws x = false -> dropws (x :: l) = x :: l.
Proof. intros H. cbn. now rewrite H. Qed.
Lemma forallb_rev {A} (p : A -> bool) l : forallb p (rev l) = forallb p l.
Proof. induction l as [|x l IH]; [reflexivity|]. cbn. rewrite forallb_app, IH. cbn. rewrite andb_true_r. apply andb_comm. Qed.

Lemma strip_pad a x m y b :
  forallb is_ws a = true -> forallb is_ws b = true -> is_ws x = false -> is_ws y = false ->
  strip (a ++ (x :: m ++ [y]) ++ b) = x :: m ++ [y].
Proof.
  intros Ha Hb Hx Hy. unfold strip. rewrite dropws_app by exact Ha.
  cbn [app]. rewrite dropws_solid by exact Hx.
  change (x :: (m ++ [y]) ++ b) with ((x :: m ++ [y]) ++ b). rewrite rev_app_distr.
  rewrite dropws_app by (rewrite forallb_rev; exact Hb).
  change (x :: m ++ [y]) with ((x :: m) ++ [y]). rewrite rev_app_distr. cbn [rev app].
  rewrite dropws_solid by exact Hy. change (y :: rev m ++ [x]) with ([y] ++ rev (x :: m)).
  rewrite rev_app_distr, rev_involutive. reflexivity.
Qed.
Lemma strip_pad1 a x b :
  forallb is_ws a = true -> forallb is_ws b = true -> is_ws x = false -> strip (a ++ [x] ++ b) = [x].
Proof.
  intros Ha Hb Hx. unfold strip. rewrite dropws_app by exact Ha. cbn [app]. rewrite dropws_solid by exact Hx.
  change (x :: b) with ([x] ++ b). rewrite rev_app_distr. rewrite dropws_app by (rewrite forallb_rev; exact Hb).
  cbn. now rewrite Hx.
Qed.

Lemma print_cmd_ends c : cmd_finite c -> exists m y, print_cmd c = m ++ [y] /\ is_ws y = false /\ m <> [].
Proof.
  destruct c as [[cw n t|cw t|cw n]|s]; cbn; intros H; try rewrite (print_num_finite _ H); cbn.
  - exists [TW cw; TSp; TS n; TSp], (TN t). repeat split; discriminate.
  - exists [TW cw; TSp], (TN t). repeat split; discriminate.
  - exists [TW cw; TSp], (TS n). repeat split; discriminate.
  - exists [TDebug; TSp], (TS s). repeat split; discriminate.
Qed.
Lemma print_ends cs : cs <> [] -> Forall cmd_finite cs -> exists m y, print cs = m ++ [y] /\ is_ws y = false.
Proof.
  induction cs as [|c cs IH]; [congruence|]. intros _ Hf. inversion Hf as [|? ? Hc Hcs]; subst.
  destruct cs as [|c2 cs'].
  - destruct (print_cmd_ends c Hc) as (m & y & E & Hy & _). exists m, y. split; assumption.
  - destruct (IH ltac:(discriminate) Hcs) as (m & y & E & Hy).
    exists (print_cmd c ++ TNL :: m), y. split; [|exact Hy].
    change (print (c :: c2 :: cs')) with (print_cmd c ++ TNL :: print (c2 :: cs')). rewrite E.
    rewrite <- app_assoc. reflexivity.
Qed.
Lemma print_starts c cs : exists x r, print (c :: cs) = x :: r /\ is_ws x = false /\ match x with THeader _ => False | _ => True end.
Proof.
  assert (exists x r, print_cmd c = x :: r /\ is_ws x = false /\ match x with THeader _ => False | _ => True end) as (x & r & E & H).
  { destruct c as [[| |]|]; cbn; eexists _, _; (split; [reflexivity|split; [reflexivity|exact I]]). }
  destruct cs as [|c2 cs]; cbn [print]; rewrite E; eexists _, _; (split; [reflexivity|exact H]).
Qed.

Lemma head_nls plain k : gmatch (g_head plain) (nls k) = true.
Proof.
  unfold g_head. apply gmatch_ign_here. rewrite <- (app_nil_r (nls k)).
  apply gmatch_wsopt_run; [apply nls_ne| |exact I|destruct plain; reflexivity].
  unfold nls. induction (S k); [reflexivity|exact IHn].
Qed.

(* render header + body, then split: both come back (the text may be padded with white space) *)
Theorem header_body_split h cs a b k :
  cs <> [] -> Forall cmd_finite cs -> forallb is_ws a = true -> forallb is_ws b = true ->
  parse_simaple (a ++ (THeader h :: nls k ++ print cs) ++ b) = Some (Some h, cs).
Proof.
  intros Hne Hf Ha Hb. unfold parse_simaple.
  destruct (print_ends cs Hne Hf) as (m & y & E & Hy).
  assert (S1 : strip (a ++ (THeader h :: nls k ++ print cs) ++ b) = THeader h :: nls k ++ print cs).
  { rewrite E. change (THeader h :: nls k ++ m ++ [y]) with (THeader h :: (nls k ++ m ++ [y])).
    rewrite (app_assoc (nls k) m [y]). apply strip_pad; auto. }
  rewrite S1. destruct cs as [|c cs]; [congruence|]. rewrite print_render.
  inversion Hf as [|? ? Hc Hcs]; subst.
  assert (HS : Forall sep_ok (map (fun c' => ([TNL], canon c')) cs)).
  { clear - Hcs. induction cs as [|c2 cs IH]; [constructor|]. inversion Hcs; subst. cbn [map]. constructor; auto.
    unfold sep_ok. cbn [fst snd]. split; [reflexivity|]. split; [|apply canon_ok; assumption].
    rewrite canon_plain. destruct c2; reflexivity. }
  rewrite parse_items_layout; auto using nls_gap, canon_ok, head_nls.
  - rewrite denote_canon. reflexivity.
  - reflexivity.
  - pose proof (render_doc_length (canon c) (map (fun c' => ([TNL], canon c')) cs) [] (canon_ok c Hc) HS) as L.
    rewrite app_length. lia.
Qed.

Theorem no_header_split cs a b :
  cs <> [] -> Forall cmd_finite cs -> forallb is_ws a = true -> forallb is_ws b = true ->
  parse_simaple (a ++ print cs ++ b) = Some (None, cs).
Proof.
  intros Hne Hf Ha Hb. unfold parse_simaple.
  destruct cs as [|c cs]; [congruence|].
  destruct (print_ends (c :: cs) Hne Hf) as (m & y & E & Hy).
  destruct (print_starts c cs) as (x & r & E2 & Hx & Hh).
  assert (S1 : strip (a ++ print (c :: cs) ++ b) = print (c :: cs)).
  { destruct m as [|x' m'].
    - rewrite E. apply strip_pad1; auto.
    - rewrite E. cbn [app]. assert (x' = x) as -> by (rewrite E in E2; cbn in E2; congruence).
      apply strip_pad; auto. }
  rewrite S1, E2. destruct x; try (destruct Hh; fail); rewrite <- E2, parse_print by assumption; reflexivity.
Qed.

(* ------------------------------------------------------------------ non-vacuity: a plan with a trailing comment, blank
   lines, indentation, a full comment line before a plain operation, a console line, a trailing comment *)
Example ignorable_nonvacuous :
  parse_body (sp 1 ++ print_sep use_a
                [ (sp 1 ++ optcom true ++ nls 1 ++ sp 2, dbg_a);
                  (sp 0 ++ optcom false ++ nls 0 ++ (sp 1 ++ TCom :: TNL :: [TTab]), use_a) ]
                (sp 1 ++ optcom true))
  = Some [use_a; dbg_a; use_a].
Proof.
  apply (ignorable_invariance_partial use_a
           [ (sp 1 ++ optcom true ++ nls 1 ++ sp 2, dbg_a);
             (sp 0 ++ optcom false ++ nls 0 ++ (sp 1 ++ TCom :: TNL :: [TTab]), use_a) ]).
  - apply GlA.
  - exact I.
  - constructor; [split; [apply GsA|exact I]|]. constructor; [|constructor]. split; [|exact I].
    apply GsB; [reflexivity|]. right. exists 1%nat, [TTab]. split; reflexivity.
  - constructor.
Qed.
Example header_nonvacuous :
  parse_simaple ([TNL] ++ (THeader [45;45;45;10;97;58;32;49;10]%N :: nls 0 ++ print [use_a; dbg_a]) ++ [TNL; TSp])
  = Some (Some [45;45;45;10;97;58;32;49;10]%N, [use_a; dbg_a]).
Proof. apply header_body_split; try reflexivity; [discriminate|repeat constructor]. Qed.
