(* C19 (real targets) -- the statements of Props/C19_targets.v, assembled from TargetsGen / TargetsHyper / TargetsMask and the
   abstract optimizer theorems of GreedyP / GreedyCoded, plus non-vacuity examples evaluated on the generated tables. *)
From Coq Require Import List ZArith QArith Qminmax Bool String Lia Lqa Arith.
From V.Model Require Import Greedy TargetsRt Targets.
From V.Proofs Require Import DamageMono StatLaws TargetsGen TargetsHyper TargetsMask TargetsFast GreedyP GreedyCoded.
From G Require Import CoreQ Targets.
Import ListNotations.
Open Scope Q_scope.

(* what "the table is monotone" says, spelled out: entries at a <= b are field-wise ordered, every field of every entry is
   >= 0, ignored defence <= 100 *)
Definition table_monotone (l : list Stat) : Prop :=
  forall a b x y, (a <= b)%nat -> nth_error l a = Some x -> nth_error l b = Some y ->
    Stat_nonneg x /\ Stat_nonneg y /\ Stat_le x y /\ Stat_ignored_defence y <= 100.

Lemma table_ok_monotone l : table_ok l -> table_monotone l.
Proof. intros T a b x y H Ea Eb. destruct (T a b x y H Ea Eb) as ([N1 _] & [N2 I2] & Hle). auto. Qed.

(* the hypotheses on the reference block: C12's (non-negative, armour term >= 0, armour >= 0, well-formed logic) plus
   ignored defence <= 100, without which Stat.__add__ itself is not monotone *)
Definition reference_ok (L : logic) (default : Stat) (armor : Q) : Prop :=
  logic_wf L /\ Stat_nonneg default /\ Stat_ignored_defence default <= 100 /\ 0 <= armor /\
  0 <= logic_armor_factor L default armor.

Lemma reference_parts L default armor : reference_ok L default armor ->
  logic_wf L /\ good default /\ 0 <= armor /\ 0 <= logic_armor_factor L default armor.
Proof. intros (A & B & C & D & E). split; [exact A|]. split; [split; assumption|]. split; assumption. Qed.

(* ================================================================== hyper stat *)
Theorem T_hyper_tables_monotone :
  (forall p opts, In (p, opts) (Hyperstat_options get_kms_hyperstat) -> opts <> [] /\ table_monotone opts) /\
  (forall c, In c (Hyperstat_cost get_kms_hyperstat) -> (0 <= c)%Z) /\
  (forall n m, (n <= m)%nat ->
     (0 <= Hyperstat_get_cost_for_level get_kms_hyperstat (Z.of_nat n)
        <= Hyperstat_get_cost_for_level get_kms_hyperstat (Z.of_nat m))%Z) /\
  (forall st st', le_state st st' -> hyper_cost st <= hyper_cost st').
Proof.
  destruct hyper_tables as [T C]. split; [|split; [|split]].
  - intros p opts Hin. rewrite Forall_forall in T. destruct (T (p, opts) Hin) as [T1 T2]. cbn [snd] in *.
    split; [exact T2|apply table_ok_monotone, T1].
  - intros c Hc. rewrite Forall_forall in C. apply C, Hc.
  - intros n m H. pose proof (cfl_mono n m H) as M. unfold cfl in M.
    unfold Hyperstat_get_cost_for_level, py_slice_to. fold hyper_costs.
    destruct (Z.leb_spec 0 (Z.of_nat n)); [|lia]. destruct (Z.leb_spec 0 (Z.of_nat m)); [|lia].
    rewrite !Nat2Z.id. exact M.
  - apply hyper_cost_mono.
Qed.

Theorem T_hyper_value_monotone L default armor st st' :
  reference_ok L default armor -> le_state st st' -> within hyper_caps st' ->
  exists v v', hyper_value_opt L default armor st = Some v /\ hyper_value_opt L default armor st' = Some v' /\
               0 <= v /\ v <= v'.
Proof. intros R. destruct (reference_parts _ _ _ R) as (A & B & C & D). apply hyper_value_mono; assumption. Qed.

Theorem T_hyper_never_worse L default armor budget step_size max_iter st st' k :
  reference_ok L default armor -> budget < qz hyper_cost_beyond_tables ->
  optimize_coded (hyper_value L default armor) hyper_cost hyper_M budget step_size max_iter st = Done st' k ->
  hyper_value L default armor st <= hyper_value L default armor st'.
Proof. intros R. destruct (reference_parts _ _ _ R) as (A & B & C & D). apply hyper_never_worse; assumption. Qed.

Theorem T_hyper_budget_range :
  hyper_cost_beyond_tables = 1000549%Z /\
  forall lv, (lv <= 300)%nat -> qz (Hyperstat_get_maximum_cost_from_level (Z.of_nat lv)) < qz hyper_cost_beyond_tables.
Proof.
  split; [vm_compute; reflexivity|]. intros lv H. unfold qz. rewrite <- Zlt_Qlt. apply hyper_level_budget, H.
Qed.

Theorem T_hyper_result L default armor budget step_size max_iter st st' k :
  optimize_coded (hyper_value L default armor) hyper_cost hyper_M budget step_size max_iter st = Done st' k ->
  le_state st st' /\ (forall j, (nth j st' 0 <= Nat.max (nth j st 0) hyper_M)%nat) /\
  (st' = st /\ k = 0%nat \/ (0 < k)%nat /\ hyper_cost st' <= budget).
Proof. apply coded_result. Qed.

(* within the budgets the code uses the cost bound is the per-slot bound of the tables *)
Theorem T_hyper_result_within_tables L default armor budget step_size max_iter st st' k :
  budget < qz hyper_cost_beyond_tables -> List.length st = List.length (Hyperstat_options get_kms_hyperstat) ->
  optimize_coded (hyper_value L default armor) hyper_cost hyper_M budget step_size max_iter st = Done st' k ->
  (0 < k)%nat -> within hyper_caps st'.
Proof.
  intros Hb Hl R Hk. destruct (coded_result _ _ _ _ _ _ _ _ _ R) as ([L' _] & _ & [[_ E]|[_ Hc]]); [lia|].
  assert (E : List.length st' = List.length hyper_opts) by (unfold hyper_opts; congruence).
  apply hyper_cheap_within; [exact E|]. rewrite hyper_cost_total in Hc. apply Nat.eqb_eq in E. rewrite E in Hc.
  unfold qz in *. rewrite Zlt_Qlt. lra.
Qed.

Theorem T_hyper_locally_optimal L default armor budget step_size max_iter st st' k :
  optimize_coded (hyper_value L default armor) hyper_cost hyper_M budget step_size max_iter st = Done st' k ->
  0 < hyper_value L default armor st' ->
  forall m s2, candidate step_size st' m -> stepped (fun _ => hyper_M) st' m = Some s2 ->
    hyper_cost s2 <= budget -> hyper_cost st' < hyper_cost s2 ->
    hyper_value L default armor s2 <= hyper_value L default armor st' * (1 - (hyper_cost s2 - hyper_cost st')) /\
    hyper_value L default armor s2 < hyper_value L default armor st'.
Proof. apply coded_locally_optimal. Qed.

(* ================================================================== union squad *)
Theorem T_squad_tables_monotone :
  (forall b, In b data_all_blocks -> table_monotone (UnionBlock_options b)) /\
  NoDup (map UnionBlock_job data_all_blocks) /\
  (forall sizes st st', le_state st st' -> squad_cost sizes st <= squad_cost sizes st') /\
  (forall jobs, sizes_ok (UnionSquad_block_size (create_with_some_large_blocks jobs 4 5)) = true).
Proof.
  split; [|split; [|split]].
  - intros b Hb. pose proof squad_tables as T. rewrite Forall_forall in T. apply table_ok_monotone, T, Hb.
  - apply squad_jobs_NoDup.
  - intros sizes st st' [L H]. rewrite !squad_cost_eq. apply inject_Z_le, sum_zs_le; assumption.
  - apply preset_sizes_ok.
Qed.

Theorem T_squad_value_monotone L default armor sizes st st' :
  reference_ok L default armor -> sizes_ok sizes = true -> le_state st st' ->
  exists v v', squad_value_opt L default armor sizes st = Some v /\ squad_value_opt L default armor sizes st' = Some v' /\
               0 <= v /\ v <= v'.
Proof. intros R. destruct (reference_parts _ _ _ R) as (A & B & C & D). apply squad_value_mono; assumption. Qed.

Theorem T_squad_never_worse L default armor sizes budget step_size max_iter st st' k :
  reference_ok L default armor -> sizes_ok sizes = true ->
  optimize_coded (squad_value L default armor sizes) (squad_cost sizes) (squad_M sizes) budget step_size max_iter st = Done st' k ->
  squad_value L default armor sizes st <= squad_value L default armor sizes st'.
Proof. intros R. destruct (reference_parts _ _ _ R) as (A & B & C & D). apply squad_never_worse; assumption. Qed.

Theorem T_squad_result L default armor sizes budget step_size max_iter st st' k :
  optimize_coded (squad_value L default armor sizes) (squad_cost sizes) (squad_M sizes) budget step_size max_iter st = Done st' k ->
  le_state st st' /\ (forall j, (nth j st' 0 <= Nat.max (nth j st 0) 1)%nat) /\
  (st' = st /\ k = 0%nat \/ (0 < k)%nat /\ qz (py_sum_Z (zs st')) <= budget).
Proof. apply (coded_result (squad_value L default armor sizes) (squad_cost sizes) 1). Qed.

Theorem T_squad_locally_optimal L default armor sizes budget step_size max_iter st st' k :
  optimize_coded (squad_value L default armor sizes) (squad_cost sizes) (squad_M sizes) budget step_size max_iter st = Done st' k ->
  0 < squad_value L default armor sizes st' ->
  forall m s2, candidate step_size st' m -> stepped (fun _ => 1%nat) st' m = Some s2 ->
    squad_cost sizes s2 <= budget -> squad_cost sizes st' < squad_cost sizes s2 ->
    squad_value L default armor sizes s2 <= squad_value L default armor sizes st' * (1 - (squad_cost sizes s2 - squad_cost sizes st')) /\
    squad_value L default armor sizes s2 < squad_value L default armor sizes st'.
Proof. apply (coded_locally_optimal (squad_value L default armor sizes) (squad_cost sizes) 1). Qed.

(* ================================================================== union occupation *)
Theorem T_occ_tables_monotone :
  (forall row, In row data_union_occupation_values -> row <> [] /\ table_monotone (map fst row)) /\
  Forall (fun c => (occ_M <= c)%nat) occ_caps /\
  (forall st st', le_state st st' -> occ_cost st <= occ_cost st').
Proof.
  split; [|split].
  - intros row Hr. pose proof occ_tables as T. rewrite Forall_forall in T. destruct (T row Hr) as [T1 T2].
    split; [|apply table_ok_monotone, T1]. intros E. apply T2. unfold occ_tab. rewrite E. reflexivity.
  - apply Forall_forall. intros c Hc. pose proof occ_caps_ge_M as U. rewrite forallb_forall in U. apply Nat.leb_le, U, Hc.
  - intros st st' [L H]. rewrite !occ_cost_eq. apply inject_Z_le, sum_zs_le; assumption.
Qed.

Theorem T_occ_value_monotone L default armor st st' :
  reference_ok L default armor -> le_state st st' -> within occ_caps st' ->
  exists v v', occ_value_opt L default armor st = Some v /\ occ_value_opt L default armor st' = Some v' /\
               0 <= v /\ v <= v'.
Proof. intros R. destruct (reference_parts _ _ _ R) as (A & B & C & D). apply occ_value_mono; assumption. Qed.

Theorem T_occ_never_worse L default armor budget step_size max_iter st st' k :
  reference_ok L default armor ->
  optimize_coded (occ_value L default armor) occ_cost occ_M budget step_size max_iter st = Done st' k ->
  occ_value L default armor st <= occ_value L default armor st'.
Proof. intros R. destruct (reference_parts _ _ _ R) as (A & B & C & D). apply occ_never_worse; assumption. Qed.

Lemma occ_M_eq : occ_M = 40%nat.
Proof. reflexivity. Qed.

Theorem T_occ_result L default armor budget step_size max_iter st st' k :
  optimize_coded (occ_value L default armor) occ_cost occ_M budget step_size max_iter st = Done st' k ->
  le_state st st' /\ (forall j, (nth j st' 0 <= Nat.max (nth j st 0) 40)%nat) /\
  (st' = st /\ k = 0%nat \/ (0 < k)%nat /\ qz (py_sum_Z (zs st')) <= budget).
Proof. apply (coded_result (occ_value L default armor) occ_cost 40). Qed.

Theorem T_occ_locally_optimal L default armor budget step_size max_iter st st' k :
  optimize_coded (occ_value L default armor) occ_cost occ_M budget step_size max_iter st = Done st' k ->
  0 < occ_value L default armor st' ->
  forall m s2, candidate step_size st' m -> stepped (fun _ => 40%nat) st' m = Some s2 ->
    occ_cost s2 <= budget -> occ_cost st' < occ_cost s2 ->
    occ_value L default armor s2 <= occ_value L default armor st' * (1 - (occ_cost s2 - occ_cost st')) /\
    occ_value L default armor s2 < occ_value L default armor st'.
Proof. apply (coded_locally_optimal (occ_value L default armor) occ_cost 40). Qed.

(* ================================================================== link skills *)
Theorem T_link_tables_monotone :
  (forall l, In l data_all_linkskills -> table_monotone (LinkSkill_options l)) /\
  levels_ok (LinkSkillset_link_levels get_kms_link_skill_set) = true /\
  (forall levels st st', le_state st st' -> link_cost levels st <= link_cost levels st').
Proof.
  split; [|split].
  - intros l Hl. pose proof link_tables as T. rewrite Forall_forall in T. apply table_ok_monotone, T, Hl.
  - apply kms_levels_ok.
  - intros levels st st' [L H]. rewrite !link_cost_eq. apply inject_Z_le, sum_zs_le; assumption.
Qed.

Theorem T_link_value_monotone L default armor levels st st' :
  reference_ok L default armor -> levels_ok levels = true -> le_state st st' ->
  exists v v', link_value_opt L default armor levels st = Some v /\ link_value_opt L default armor levels st' = Some v' /\
               0 <= v /\ v <= v'.
Proof. intros R. destruct (reference_parts _ _ _ R) as (A & B & C & D). apply link_value_mono; assumption. Qed.

Theorem T_link_never_worse L default armor levels budget step_size max_iter st st' k :
  reference_ok L default armor -> levels_ok levels = true ->
  optimize_coded (link_value L default armor levels) (link_cost levels) (link_M levels) budget step_size max_iter st = Done st' k ->
  link_value L default armor levels st <= link_value L default armor levels st'.
Proof. intros R. destruct (reference_parts _ _ _ R) as (A & B & C & D). apply link_never_worse; assumption. Qed.

Theorem T_link_result L default armor levels budget step_size max_iter st st' k :
  optimize_coded (link_value L default armor levels) (link_cost levels) (link_M levels) budget step_size max_iter st = Done st' k ->
  le_state st st' /\ (forall j, (nth j st' 0 <= Nat.max (nth j st 0) 1)%nat) /\
  (st' = st /\ k = 0%nat \/ (0 < k)%nat /\ qz (py_sum_Z (zs st')) <= budget).
Proof. apply (coded_result (link_value L default armor levels) (link_cost levels) 1). Qed.

Theorem T_link_locally_optimal L default armor levels budget step_size max_iter st st' k :
  optimize_coded (link_value L default armor levels) (link_cost levels) (link_M levels) budget step_size max_iter st = Done st' k ->
  0 < link_value L default armor levels st' ->
  forall m s2, candidate step_size st' m -> stepped (fun _ => 1%nat) st' m = Some s2 ->
    link_cost levels s2 <= budget -> link_cost levels st' < link_cost levels s2 ->
    link_value L default armor levels s2 <= link_value L default armor levels st' * (1 - (link_cost levels s2 - link_cost levels st')) /\
    link_value L default armor levels s2 < link_value L default armor levels st'.
Proof. apply (coded_locally_optimal (link_value L default armor levels) (link_cost levels) 1). Qed.

(* ================================================================== examples (non-vacuity) and a limit of the statement *)
(* the reference block of C12's example: an ordinary character *)
Definition exS : Stat :=
  Stat_add (Stat_all_stat 1000) (mkStat 0 0 0 0 10 0 0 0 0 0 0 0 500 0 20 0 50 30 100 50 20 90 0 0 0 0 0).
Definition exL : logic := LSTR (mkSTRBasedDamageLogic (13#10) (9#10)).

Definition reference_ok_b (L : logic) (default : Stat) (armor : Q) : bool :=
  qle 0 (logic_constant L) && qle 0 (logic_mastery L) && qle (logic_mastery L) 1 && good_b default && qle 0 armor
  && qle 0 (logic_armor_factor L default armor).

Lemma reference_ok_b_sound L default armor : reference_ok_b L default armor = true -> reference_ok L default armor.
Proof.
  unfold reference_ok_b. intros H. repeat (apply andb_prop in H; let X := fresh "X" in destruct H as [H X]).
  apply good_b_sound in X1. destruct X1 as [N I].
  unfold reference_ok, logic_wf. repeat split; try (apply qle_iff; assumption); assumption.
Qed.

Lemma ex_reference_ok : reference_ok exL exS 300.
Proof. apply reference_ok_b_sound. vm_compute. reflexivity. Qed.

(* "both defined, the first positive, the second strictly larger" *)
Definition up (a b : option Q) : Prop := exists v v', a = Some v /\ b = Some v' /\ 0 < v /\ v < v'.

Example T_hyper_example :
  reference_ok exL exS 300 /\
  within hyper_caps [0; 0; 0; 3; 2; 5; 0; 0; 1; 15]%nat /\
  up (hyper_value_opt exL exS 300 [0; 0; 0; 0; 0; 0; 0; 0; 0; 0]%nat)
     (hyper_value_opt exL exS 300 [0; 0; 0; 3; 2; 5; 0; 0; 1; 15]%nat) /\
  hyper_cost_opt [0; 0; 0; 3; 2; 5; 0; 0; 1; 15]%nat = Some 586%Z.
Proof.
  split; [exact ex_reference_ok|]. split; [apply within_b_iff; vm_compute; reflexivity|].
  split; [|vm_compute; reflexivity].
  eapply strictly_up_transfer; [apply hyper_fast_ok|apply hyper_fast_ok|]. vm_compute. reflexivity.
Qed.

Definition ones (n : nat) (on : list nat) : state := map (fun i => if existsb (Nat.eqb i) on then 1%nat else 0%nat) (seq 0 n).

Example T_squad_example :
  let sizes := UnionSquad_block_size (create_with_some_large_blocks ["archmagefb"%string] 4%Z 5%Z) in
  sizes_ok sizes = true /\
  up (squad_value_opt exL exS 300 sizes (ones 47 [4]%nat)) (squad_value_opt exL exS 300 sizes (ones 47 [0; 4; 6; 21; 45]%nat)) /\
  squad_cost_opt sizes (ones 47 [0; 4; 6; 21; 45]%nat) = Some 5%Z /\
  (* the constructor puts the pre-assigned job into the start state *)
  match UnionSquadTarget_init exS (fun _ _ => 0) (create_with_some_large_blocks ["archmagefb"%string] 4%Z 5%Z)
          ["archmagefb"%string] 300 with
  | Some t => UnionSquadTarget_state t = zs (ones 47 [4]%nat) /\ UnionSquadTarget_maximum_step t = 1%Z
  | None => False
  end.
Proof.
  cbv zeta. split; [apply preset_sizes_ok|].
  split; [eapply strictly_up_transfer; [apply squad_fast_ok|apply squad_fast_ok|]; vm_compute; reflexivity|].
  split; [vm_compute; reflexivity|]. vm_compute. split; reflexivity.
Qed.

Example T_occ_example :
  within occ_caps [40; 0; 13; 7; 40]%nat /\
  up (occ_value_opt exL exS 300 [0; 0; 0; 0; 40]%nat) (occ_value_opt exL exS 300 [40; 0; 13; 7; 40]%nat) /\
  occ_cost [40; 0; 13; 7; 40]%nat == 100 /\
  (* one more cell in a full slot is outside the table: the Python call raises IndexError *)
  occ_value_opt exL exS 300 [41; 0; 0; 0; 0]%nat = None.
Proof.
  split; [apply within_b_iff; vm_compute; reflexivity|].
  split; [eapply strictly_up_transfer; [apply occ_fast_ok|apply occ_fast_ok|]; vm_compute; reflexivity|].
  split; [vm_compute; reflexivity|].
  pose proof (occ_fast_ok exL exS 300 [41; 0; 0; 0; 0]%nat) as H.
  assert (E : occ_value_fast exL exS 300 [41; 0; 0; 0; 0]%nat = None) by (vm_compute; reflexivity).
  rewrite E in H. destruct (occ_value_opt exL exS 300 [41; 0; 0; 0; 0]%nat); [destruct H|reflexivity].
Qed.

Example T_link_example :
  let levels := LinkSkillset_link_levels get_kms_link_skill_set in
  levels_ok levels = true /\
  up (link_value_opt exL exS 300 levels (ones 27 [3]%nat)) (link_value_opt exL exS 300 levels (ones 27 [3; 5; 7; 24]%nat)) /\
  link_cost_opt levels (ones 27 [3; 5; 7; 24]%nat) = Some 4%Z /\
  match LinkSkillTarget_init exS (fun _ _ => 0) get_kms_link_skill_set ["archmagefb"%string] 300 with
  | Some t => LinkSkillTarget_state t = zs (ones 27 [3]%nat) /\ LinkSkillTarget_maximum_step t = 1%Z
  | None => False
  end.
Proof.
  cbv zeta. split; [apply kms_levels_ok|].
  split; [eapply strictly_up_transfer; [apply link_fast_ok|apply link_fast_ok|]; vm_compute; reflexivity|].
  split; [vm_compute; reflexivity|]. vm_compute. split; reflexivity.
Qed.

(* A limit of the statement, not of the code's domain: with ignored defence ABOVE 100 % in the reference block the
   objective is not monotone -- Stat.__add__ combines ignored defence as 100 - (100-a)(100-b)/100, which FALLS when
   a > 100.  All of C12's hypotheses hold for this block; one more level of the ignored-defence hyper stat lowers the
   value.  Hence the extra hypothesis `Stat_ignored_defence default <= 100` in reference_ok. *)
Definition exS_over : Stat :=
  Stat_add (Stat_all_stat 1000) (mkStat 0 0 0 0 10 0 0 0 0 0 0 0 500 0 20 0 50 30 100 50 20 150 0 0 0 0 0).

Example T_ied_above_100_not_monotone :
  exists st st',
    logic_wf exL /\ Stat_nonneg exS_over /\ 0 <= logic_armor_factor exL exS_over 300 /\
    le_state st st' /\ within hyper_caps st' /\
    exists v v', hyper_value_opt exL exS_over 300 st = Some v /\ hyper_value_opt exL exS_over 300 st' = Some v' /\ v' < v.
Proof.
  exists [0; 0; 0; 0; 0; 0; 0; 0; 0; 0]%nat, [0; 0; 0; 0; 0; 0; 0; 0; 0; 1]%nat.
  assert (G : forallb (fun f : Stat -> Q => qle 0 (f exS_over)) Stat_fields = true) by (vm_compute; reflexivity).
  split; [unfold logic_wf; cbn; repeat split; discriminate|].
  split; [unfold Stat_nonneg; apply Forall_forall; intros g Hg; rewrite forallb_forall in G; apply qle_iff, G, Hg|].
  split; [vm_compute; discriminate|].
  split; [split; [reflexivity|]; intros [|[|[|[|[|[|[|[|[|[|[|i]]]]]]]]]]]; cbn; lia|].
  split; [apply within_b_iff; vm_compute; reflexivity|].
  assert (U : strictly_up (hyper_value_fast exL exS_over 300 [0; 0; 0; 0; 0; 0; 0; 0; 0; 1]%nat)
                          (hyper_value_fast exL exS_over 300 [0; 0; 0; 0; 0; 0; 0; 0; 0; 0]%nat) = true) by (vm_compute; reflexivity).
  destruct (strictly_up_transfer _ _ _ _ (hyper_fast_ok _ _ _ _) (hyper_fast_ok _ _ _ _) U) as (v' & v & E' & E & _ & H).
  exists v, v'. auto.
Qed.
