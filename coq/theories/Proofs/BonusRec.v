(* C18, recursive phase: soundness and completeness of Model.Bonus.rec, generic in the kind
   type, the contribution table and the candidate table (from notes/Bonus.v). *)
From Coq Require Import ZArith List Lia Bool.
From V.Model Require Import Bonus.
Import ListNotations.
Open Scope Z_scope.

Definition vnonneg (a : vec) : Prop := let '(a1,a2,a3,a4) := a in 0 <= a1 /\ 0 <= a2 /\ 0 <= a3 /\ 0 <= a4.
Definition vle (a b : vec) : Prop :=
  let '(a1,a2,a3,a4) := a in let '(b1,b2,b3,b4) := b in a1 <= b1 /\ a2 <= b2 /\ a3 <= b3 /\ a4 <= b4.

Lemma find_some_some {A B} (f : A -> option B) l y :
  find_some f l = Some y -> exists x, In x l /\ f x = Some y.
Proof.
  induction l as [|x r IH]; cbn; [discriminate|].
  destruct (f x) eqn:E; [intros X; inversion X; subst; eauto|].
  intros X. destruct (IH X) as [z [Hz Fz]]. eauto.
Qed.
Lemma find_some_complete {A B} (f : A -> option B) l x :
  In x l -> f x <> None -> find_some f l <> None.
Proof.
  induction l as [|z r IH]; cbn; [tauto|]. intros [->|Hin] Hf.
  - destruct (f x); [discriminate|congruence].
  - destruct (f z); [discriminate|]. apply IH; auto.
Qed.
Lemma find_some_none {A B} (f : A -> option B) l :
  (forall x, In x l -> f x = None) -> find_some f l = None.
Proof.
  induction l as [|z r IH]; cbn; [reflexivity|]. intros H.
  rewrite (H z (or_introl eq_refl)). apply IH. intros x Hx. apply H. right; exact Hx.
Qed.

Lemma NoDup_snoc {A} (l : list A) x : NoDup l -> ~ In x l -> NoDup (l ++ [x]).
Proof.
  induction l as [|y l IH]; cbn; intros Hn Hx; [constructor; auto; constructor|].
  inversion Hn; subst. constructor; [|apply IH; auto].
  intro Hin. apply in_app_or in Hin. destruct Hin as [Hin|[->|[]]]; auto.
Qed.

Lemma is_zero_spec a : is_zero a = true <-> a = vzero.
Proof.
  destruct a as [[[a1 a2] a3] a4]. unfold is_zero, vzero. rewrite !andb_true_iff, !Z.eqb_eq.
  split; [intros [[[-> ->] ->] ->]; reflexivity|intros X; inversion X; auto].
Qed.
Lemma vadd_0_l x : vadd vzero x = x.
Proof. destruct x as [[[? ?] ?] ?]. reflexivity. Qed.
Lemma vadd_0_r x : vadd x vzero = x.
Proof. destruct x as [[[? ?] ?] ?]. cbn. f_equal; [f_equal; [f_equal|]|]; lia. Qed.
Lemma vadd_assoc x y z : vadd (vadd x y) z = vadd x (vadd y z).
Proof.
  destruct x as [[[? ?] ?] ?], y as [[[? ?] ?] ?], z as [[[? ?] ?] ?]. cbn.
  f_equal; [f_equal; [f_equal|]|]; lia.
Qed.
Lemma vadd_comm x y : vadd x y = vadd y x.
Proof.
  destruct x as [[[? ?] ?] ?], y as [[[? ?] ?] ?]. cbn. f_equal; [f_equal; [f_equal|]|]; lia.
Qed.
Lemma vsub_add rem x r : r = vsub rem x -> vadd r (vadd x vzero) = rem.
Proof.
  intros ->. destruct rem as [[[? ?] ?] ?], x as [[[? ?] ?] ?]. cbn.
  f_equal; [f_equal; [f_equal|]|]; lia.
Qed.
Lemma nonneg_no_neg a : vnonneg a -> has_neg a = false.
Proof.
  destruct a as [[[? ?] ?] ?]. cbn. intros (?&?&?&?). rewrite !orb_false_iff, !Z.ltb_ge. auto.
Qed.

Section Search.
  Variable K : Type.
  Variable keq : K -> K -> bool.
  Hypothesis keq_spec : forall a b, keq a b = true <-> a = b.
  Variable sdK : K -> Z -> vec.
  Variable grades : list Z.
  Variable candsK : vec -> list K.

  Notation recK := (rec K keq sdK grades candsK).

  Lemma memG_spec k l : memG K keq k l = true <-> In k l.
  Proof.
    unfold memG. rewrite existsb_exists.
    split; [intros [x [H E]]; apply keq_spec in E; subst; auto
           | intros H; exists k; split; auto; apply keq_spec; auto].
  Qed.

  Definition vsum (l : list (K * Z)) : vec :=
    fold_right (fun kg acc => vadd (sdK (fst kg) (snd kg)) acc) vzero l.

  Lemma vsum_cons x a : vsum (x :: a) = vadd (sdK (fst x) (snd x)) (vsum a).
  Proof. reflexivity. Qed.
  Lemma vsum_app a b : vsum (a ++ b) = vadd (vsum a) (vsum b).
  Proof.
    induction a as [|x a IH].
    - cbn [app]. change (vsum []) with vzero. rewrite vadd_0_l. reflexivity.
    - rewrite <- app_comm_cons, !vsum_cons, IH, vadd_assoc. reflexivity.
  Qed.

  (* ---- soundness ---- *)
  Theorem rec_sound : forall left rem forb l, recK left rem forb = Some l ->
    vsum l = rem /\ NoDup (map fst l) /\ (forall k, In k (map fst l) -> ~ In k forb) /\
    (length l <= left)%nat /\ (forall kg, In kg l -> In (snd kg) grades).
  Proof.
    induction left as [|n IH]; intros rem forb l; cbn [rec].
    - destruct (is_zero rem) eqn:Z0; [|discriminate]. intros X; inversion X; subst.
      apply is_zero_spec in Z0. subst rem. split; [reflexivity|]. split; [constructor|].
      split; [intros ? []|]. split; [cbn; lia|intros ? []].
    - destruct (is_zero rem) eqn:Z0.
      + intros X; inversion X; subst. apply is_zero_spec in Z0. subst rem.
        split; [reflexivity|]. split; [constructor|]. split; [intros ? []|].
        split; [cbn; lia|intros ? []].
      + destruct (has_neg rem); [discriminate|]. intros X.
        apply find_some_some in X. destruct X as [k [_ Xk]].
        destruct (memG K keq k forb) eqn:Mk; [discriminate|].
        apply find_some_some in Xk. destruct Xk as [g [Hg Xg]].
        destruct (recK n (vsub rem (sdK k g)) (k :: forb)) as [r|] eqn:Er; [|discriminate].
        inversion Xg; subst l; clear Xg.
        destruct (IH _ _ _ Er) as (S1 & S2 & S3 & S4 & S5).
        assert (Hnk : ~ In k forb) by (intro H; apply memG_spec in H; congruence).
        repeat split.
        * rewrite vsum_app. cbn [vsum fold_right fst snd]. apply vsub_add. exact S1.
        * rewrite map_app. cbn. apply NoDup_snoc; auto. intro Hin. apply (S3 k Hin). left; reflexivity.
        * intros k' Hin. rewrite map_app in Hin. apply in_app_or in Hin.
          destruct Hin as [Hin|[<-|[]]]; [|exact Hnk].
          intro Hf. apply (S3 k' Hin). right; exact Hf.
        * rewrite app_length. cbn. lia.
        * intros kg Hin. apply in_app_or in Hin. destruct Hin as [Hin|[<-|[]]]; [apply S5; auto|exact Hg].
  Qed.

  (* every kind of a returned decomposition was offered by the candidate table *)
  Lemma rec_kinds (P : K -> Prop) : (forall rem k, In k (candsK rem) -> P k) ->
    forall left rem forb l, recK left rem forb = Some l -> forall kg, In kg l -> P (fst kg).
  Proof.
    intros HP. induction left as [|n IH]; intros rem forb l; cbn [rec].
    - destruct (is_zero rem); [|discriminate]. intros X; inversion X; subst. intros ? [].
    - destruct (is_zero rem).
      + intros X; inversion X; subst. intros ? [].
      + destruct (has_neg rem); [discriminate|]. intros X.
        apply find_some_some in X. destruct X as [k [Hk Xk]].
        destruct (memG K keq k forb); [discriminate|].
        apply find_some_some in Xk. destruct Xk as [g [Hg Xg]].
        destruct (recK n (vsub rem (sdK k g)) (k :: forb)) as [r|] eqn:Er; [|discriminate].
        inversion Xg; subst l; clear Xg.
        intros kg Hin. apply in_app_or in Hin. destruct Hin as [Hin|[<-|[]]].
        * eapply IH; eauto.
        * cbn. eapply HP; eauto.
  Qed.

  (* a remainder with a negative coordinate is never decomposed *)
  Lemma rec_neg_none left rem forb : has_neg rem = true -> recK left rem forb = None.
  Proof.
    intros Hn. destruct left; cbn [rec].
    - destruct (is_zero rem) eqn:Z0; [|reflexivity]. apply is_zero_spec in Z0. subst rem. discriminate.
    - destruct (is_zero rem) eqn:Z0; [|rewrite Hn; reflexivity]. apply is_zero_spec in Z0. subst rem. discriminate.
  Qed.

  (* ---- completeness ---- *)
  Hypothesis sd_nonneg : forall k g, In g grades -> vnonneg (sdK k g).
  (* the candidate table offers every kind whose contribution fits under the remainder and is not zero *)
  Hypothesis cands_complete :
    forall rem k g, In g grades -> vle (sdK k g) rem -> sdK k g <> vzero -> In k (candsK rem).

  Definition valid (l : list (K * Z)) (forb : list K) (left : nat) : Prop :=
    NoDup (map fst l) /\ (forall k, In k (map fst l) -> ~ In k forb) /\ (length l <= left)%nat /\
    (forall kg, In kg l -> In (snd kg) grades).

  Lemma vsum_nonneg l : (forall kg, In kg l -> In (snd kg) grades) -> vnonneg (vsum l).
  Proof.
    induction l as [|x l IH]; intros Hg; [cbn; lia|]. rewrite vsum_cons.
    pose proof (sd_nonneg (fst x) (snd x) (Hg x (or_introl eq_refl))) as N1.
    pose proof (IH (fun kg H => Hg kg (or_intror H))) as N2.
    destruct (sdK (fst x) (snd x)) as [[[? ?] ?] ?], (vsum l) as [[[? ?] ?] ?]. cbn in *. lia.
  Qed.

  Theorem rec_complete : forall left rem forb l, valid l forb left -> vsum l = rem ->
    (forall kg, In kg l -> sdK (fst kg) (snd kg) <> vzero) -> recK left rem forb <> None.
  Proof.
    induction left as [|n IH]; intros rem forb l (Hnd & Hforb & Hlen & Hg) Hsum Hnz; cbn [rec].
    - destruct l; [|cbn in Hlen; lia]. cbn in Hsum. subst rem. cbn. discriminate.
    - destruct (is_zero rem) eqn:Z0; [discriminate|].
      assert (Hnn : vnonneg rem) by (rewrite <- Hsum; apply vsum_nonneg; auto).
      rewrite (nonneg_no_neg _ Hnn).
      destruct l as [|[k g] l'].
      { cbn in Hsum. subst rem. cbn in Z0. discriminate. }
      assert (Hgk : In g grades) by (apply (Hg (k, g)); left; reflexivity).
      assert (Hle : vle (sdK k g) rem).
      { rewrite <- Hsum, vsum_cons. cbn [fst snd].
        pose proof (vsum_nonneg l' (fun kg H => Hg kg (or_intror H))) as N2.
        destruct (sdK k g) as [[[? ?] ?] ?], (vsum l') as [[[? ?] ?] ?]. cbn in *. lia. }
      apply (find_some_complete _ (candsK rem) k).
      + apply (cands_complete rem k g); auto. apply (Hnz (k, g)). left; reflexivity.
      + assert (Hkf : memG K keq k forb = false).
        { destruct (memG K keq k forb) eqn:M; auto. apply memG_spec in M. exfalso.
          apply (Hforb k); [left; reflexivity|exact M]. }
        rewrite Hkf. apply (find_some_complete _ grades g Hgk).
        assert (Hrec : recK n (vsub rem (sdK k g)) (k :: forb) <> None).
        { apply (IH _ _ l').
          - inversion Hnd; subst. repeat split; auto.
            + intros k' Hin [<-|Hf]; [contradiction|]. apply (Hforb k'); [right; exact Hin|exact Hf].
            + cbn in Hlen. lia.
            + intros kg H. apply Hg. right; exact H.
          - rewrite <- Hsum, vsum_cons. cbn [fst snd].
            destruct (sdK k g) as [[[? ?] ?] ?], (vsum l') as [[[? ?] ?] ?]. cbn.
            f_equal; [f_equal; [f_equal|]|]; lia.
          - intros kg H. apply Hnz. right; exact H. }
        destruct (recK n (vsub rem (sdK k g)) (k :: forb)); [discriminate|congruence].
  Qed.
End Search.
