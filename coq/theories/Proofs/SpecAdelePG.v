(* ProgrammedPeriodic (specific/common_v.py): the resolving loop is fuel-independent, never runs out of the
   specification fuel on a well-formed entity, and resolving a then b = resolving a+b (same entity, tick
   counts add up). *)
From Coq Require Import ZArith List Bool Lia.
From V.Model Require Import Comp SpecAdele.
Import ListNotations.
Open Scope Z_scope.

Import PG.

Lemma nth_iv_pos l c : l <> [] -> Forall (fun x => 0 < x) l -> 0 < nth_iv l c.
Proof.
  intros Hne Hall. unfold nth_iv.
  assert (L : 0 < Z.of_nat (length l)) by (destruct l; [congruence|cbn [length]; lia]).
  pose proof (Z.mod_pos_bound c _ L) as B.
  rewrite Forall_forall in Hall. apply Hall. apply nth_In. lia.
Qed.

Lemma loop_unfold f l i t c n :
  loop f l i t c n =
  if (i <=? 0) && (0 <? t) then
    match f with O => None | S f' => loop f' l (i + nth_iv l c) (t - nth_iv l c) (c + 1) (S n) end
  else Some (i, t, c, n).
Proof. destruct f; reflexivity. Qed.

Lemma loop_S : forall f l i t c n r, loop f l i t c n = Some r -> loop (S f) l i t c n = Some r.
Proof.
  induction f as [|f IH]; intros l i t c n r H; rewrite loop_unfold in H; rewrite loop_unfold;
    destruct ((i <=? 0) && (0 <? t)); try discriminate; try exact H.
  apply IH. exact H.
Qed.

Lemma loop_mono f f' l i t c n r : (f <= f')%nat -> loop f l i t c n = Some r -> loop f' l i t c n = Some r.
Proof. intros L; induction L; intros H0; [exact H0|]. apply loop_S. auto. Qed.

Lemma loop_det f f' l i t c n r r' : loop f l i t c n = Some r -> loop f' l i t c n = Some r' -> r = r'.
Proof.
  intros H H'. destruct (Nat.le_ge_cases f f') as [L|L].
  - rewrite (loop_mono _ _ _ _ _ _ _ _ L H) in H'. congruence.
  - rewrite (loop_mono _ _ _ _ _ _ _ _ L H') in H. congruence.
Qed.

Lemma loop_fuel l : l <> [] -> Forall (fun x => 0 < x) l ->
  forall f i t c n, (Z.to_nat t <= f)%nat -> exists r, loop f l i t c n = Some r.
Proof.
  intros Hne Hall. induction f as [|f IH]; intros i t c n F; rewrite loop_unfold;
    destruct ((i <=? 0) && (0 <? t)) eqn:G; try (eexists; reflexivity).
  - apply andb_prop in G. destruct G as [_ G]. apply Z.ltb_lt in G. lia.
  - apply andb_prop in G. destruct G as [_ G]. apply Z.ltb_lt in G.
    pose proof (nth_iv_pos l c Hne Hall). apply IH. lia.
Qed.

(* the accumulator only counts *)
Lemma loop_acc : forall f l i t c n i' t' c' k,
  loop f l i t c 0 = Some (i', t', c', k) -> loop f l i t c n = Some (i', t', c', (k + n)%nat).
Proof.
  assert (G : forall f l i t c n m i' t' c' k,
    loop f l i t c m = Some (i', t', c', k) -> loop f l i t c (n + m) = Some (i', t', c', (n + k)%nat)).
  { induction f as [|f IH]; intros l i t c n m i' t' c' k H; rewrite loop_unfold in H; rewrite loop_unfold;
      destruct ((i <=? 0) && (0 <? t)); try discriminate.
    - injection H as <- <- <- <-. reflexivity.
    - replace (S (n + m)) with (n + S m)%nat by lia. apply IH. exact H.
    - injection H as <- <- <- <-. reflexivity. }
  intros f l i t c n i' t' c' k H. specialize (G f l i t c n O i' t' c' k H).
  rewrite Nat.add_0_r in G. rewrite Nat.add_comm. exact G.
Qed.

(* taking d more ticks of time first: the loop passes through the state it would have stopped in *)
Lemma loop_shift : forall f f' l i t c n d i1 t1 c1 n1 r, 0 <= d ->
  loop f l i t c n = Some (i1, t1, c1, n1) ->
  loop f' l (i1 - d) t1 c1 n1 = Some r ->
  loop (f + f') l (i - d) t c n = Some r.
Proof.
  induction f as [|f IH]; intros f' l i t c n d i1 t1 c1 n1 r Hd H H'; rewrite loop_unfold in H.
  - destruct ((i <=? 0) && (0 <? t)); [discriminate|]. injection H as <- <- <- <-. exact H'.
  - destruct ((i <=? 0) && (0 <? t)) eqn:G.
    + rewrite loop_unfold. apply andb_prop in G. destruct G as [G1 G2]. apply Z.leb_le in G1.
      replace ((i - d <=? 0) && (0 <? t)) with true
        by (symmetry; apply andb_true_intro; split; [apply Z.leb_le; lia|exact G2]).
      cbn [Nat.add]. replace (i - d + nth_iv l c) with (i + nth_iv l c - d) by lia.
      eapply IH; eassumption.
    + injection H as <- <- <- <-. eapply loop_mono; [|exact H']. lia.
Qed.

Lemma resolving_some s time : wf s -> exists r, resolving_fuel (fuel_of s) s time = Some r.
Proof.
  intros [Hne Hall]. unfold resolving_fuel, fuel_of.
  destruct (loop_fuel (ivs s) Hne Hall (S (Z.to_nat (tl s))) (ic s - time) (tl s) (cnt s) O ltac:(lia)) as [[[[i t] c] n] E].
  rewrite E. eexists. reflexivity.
Qed.

Lemma resolving_ivs s time : ivs (fst (resolving s time)) = ivs s.
Proof.
  unfold resolving, resolving_fuel. destruct (loop _ _ _ _ _ _) as [[[[i t] c] n]|]; reflexivity.
Qed.
Lemma resolving_wf s time : wf s -> wf (fst (resolving s time)).
Proof. unfold wf. rewrite resolving_ivs. auto. Qed.

(* any sufficient fuel computes the specification's answer (ties resolving_exec to resolving) *)
Lemma resolving_fuel_spec f s time r : wf s -> resolving_fuel f s time = Some r -> resolving s time = r.
Proof.
  intros W H. unfold resolving. destruct (resolving_some s time W) as [r' E]. rewrite E.
  unfold resolving_fuel in *.
  destruct (loop f _ _ _ _ _) as [[[[i t] c] n]|] eqn:A; [|discriminate].
  destruct (loop (fuel_of s) _ _ _ _ _) as [[[[i' t'] c'] n']|] eqn:B; [|discriminate].
  pose proof (loop_det _ _ _ _ _ _ _ _ _ A B) as X. injection X as -> -> -> ->. congruence.
Qed.

Theorem resolving_additive s a b : wf s -> 0 <= a -> 0 <= b ->
  let '(s1, n1) := resolving s a in let '(s2, n2) := resolving s1 b in
  resolving s (a + b) = (s2, (n1 + n2)%nat).
Proof.
  intros W Ha Hb.
  pose proof (resolving_wf s a W) as W1.
  unfold resolving at 1. unfold resolving in W1.
  destruct (resolving_some s a W) as [[s1 n1] E1]. rewrite E1 in *. cbn [fst] in W1.
  unfold resolving at 1. destruct (resolving_some s1 b W1) as [[s2 n2] E2]. rewrite E2.
  unfold resolving. destruct (resolving_some s (a + b) W) as [[s3 n3] E3]. rewrite E3.
  unfold resolving_fuel in *.
  destruct (loop (fuel_of s) (ivs s) (ic s - a) _ _ _) as [[[[i1 t1] c1] k1]|] eqn:A1; [|discriminate].
  injection E1 as <- <-. cbn [ivs ic tl cnt] in E2.
  destruct (loop (fuel_of _) (ivs s) (i1 - b) _ _ _) as [[[[i2 t2] c2] k2]|] eqn:A2; [|discriminate].
  injection E2 as <- <-.
  destruct (loop (fuel_of s) (ivs s) (ic s - (a + b)) _ _ _) as [[[[i3 t3] c3] k3]|] eqn:A3; [|discriminate].
  injection E3 as <- <-.
  apply (loop_acc _ _ _ _ _ k1) in A2.
  pose proof (loop_shift _ _ _ _ _ _ _ b _ _ _ _ _ Hb A1 A2) as X.
  replace (ic s - a - b) with (ic s - (a + b)) in X by lia.
  pose proof (loop_det _ _ _ _ _ _ _ _ _ A3 X) as Y. injection Y as -> -> -> ->.
  f_equal. lia.
Qed.

(* non-vacuity: the shipped interval program, mid-run *)
Example pg_example :
  let s := mk 0 [900; 850; 750; 650; 5730] 50000 0 in
  wf s /\ resolving s 1000 = (mk 750 [900; 850; 750; 650; 5730] 48250 2, 2%nat) /\
  resolving (fst (resolving s 1000)) 2000 = (mk 150 [900; 850; 750; 650; 5730] 46850 4, 2%nat) /\
  resolving s 3000 = (mk 150 [900; 850; 750; 650; 5730] 46850 4, 4%nat).
Proof.
  cbn zeta. split; [split; [discriminate|repeat constructor]|].
  repeat split; vm_compute; reflexivity.
Qed.
