(* C09 for AdeleOrderComponent (specific/adele.py).  OrderSword.resolving bounds the ticks of one call by
   maximum_elapsed = int(time_left // interval), computed from the time_left at the START of the call; a
   sword whose first tick is due immediately (counter 0 right after `use`) has one more tick due over its
   life than this bound allows in a single call, so the number of ticks depends on how the time is chunked.

   order_chunk_refuted: the witness (the shipped parameters of "오더 VI": interval 1020, lasting 45000, the
   state right after an accepted use; 100 then 44800 gives 45 ticks, 44900 at once gives 44).
   order_chunk_partial: the largest sub-statement found true: the cooldown and the remaining time of every
   surviving sword (hence the views) never depend on the chunking; the interval counters and the ticks agree
   as well whenever no sword runs into the bound in any of the three elapses. *)
From Coq Require Import ZArith List Bool Lia Permutation.
From V.Model Require Import Comp SpecAdele.
From V.Proofs Require Import CompChunk SpecAdeleReject SpecAdeleChunk.
Import ListNotations.
Open Scope Z_scope.

(* ------------------------------------------------------------ one sword *)
Lemma sw_loop_spec I : 0 < I -> forall mx c c' n, sw_loop mx I c = (c', n) ->
  c' = c + Z.of_nat n * I /\ (n <= mx)%nat /\ (n <> O -> c' - I <= 0) /\ (n = O -> c' = c) /\ ((n < mx)%nat -> 0 < c').
Proof.
  intros HI. induction mx as [|f IH]; intros c c' n H; cbn [sw_loop] in H.
  - injection H as <- <-. repeat split; try lia.
  - destruct (c <=? 0) eqn:E.
    + destruct (sw_loop f I (c + I)) as [c'' n0] eqn:R. injection H as <- <-.
      destruct (IH _ _ _ R) as (A & B & C0 & D & F). apply Z.leb_le in E. repeat split; try lia.
      all: try (intros _; destruct n0; [rewrite (D eq_refl); lia|apply C0; discriminate]).
      all: try (intros L; apply F; lia).
    + injection H as <- <-. apply Z.leb_gt in E. repeat split; try lia.
Qed.

Lemma sw_one_shape I t c l : exists c' n, sw_one I t (c, l) = ((c', l - t), n) /\ sw_loop (sw_cap I l) I (c - t) = (c', n).
Proof. unfold sw_one. destruct (sw_loop _ I (c - t)) as [c' n]. do 2 eexists. split; reflexivity. Qed.

(* the number of due ticks is determined by the counter *)
Lemma due_unique I c (n m : nat) : 0 < I ->
  0 < c + Z.of_nat n * I -> (n <> O -> c + Z.of_nat n * I - I <= 0) ->
  0 < c + Z.of_nat m * I -> (m <> O -> c + Z.of_nat m * I - I <= 0) -> n = m.
Proof.
  intros HI A1 A2 B1 B2.
  destruct (Nat.lt_trichotomy n m) as [L|[E|L]]; [exfalso| exact E |exfalso].
  - assert (X : Z.of_nat n * I <= (Z.of_nat m - 1) * I) by (apply Z.mul_le_mono_nonneg_r; lia).
    specialize (B2 ltac:(lia)). lia.
  - assert (X : Z.of_nat m * I <= (Z.of_nat n - 1) * I) by (apply Z.mul_le_mono_nonneg_r; lia).
    specialize (A2 ltac:(lia)). lia.
Qed.

Definition uncapped (I t : Z) (x : sword) : Prop := 0 < fst (fst (sw_one I t x)).

Lemma sw_one_add I a b c l c1 n1 c2 n2 c3 n3 : 0 < I -> 0 <= a -> 0 <= b ->
  sw_one I a (c, l) = ((c1, l - a), n1) -> sw_one I b (c1, l - a) = ((c2, l - a - b), n2) ->
  sw_one I (a + b) (c, l) = ((c3, l - (a + b)), n3) ->
  0 < c1 -> 0 < c2 -> 0 < c3 -> c2 = c3 /\ (n1 + n2)%nat = n3.
Proof.
  intros HI Ha Hb H1 H2 H3 P1 P2 P3.
  destruct (sw_one_shape I a c l) as (x1 & y1 & E1 & L1). rewrite E1 in H1. injection H1 as -> ->.
  destruct (sw_one_shape I b c1 (l - a)) as (x2 & y2 & E2 & L2). rewrite E2 in H2. injection H2 as -> ->.
  destruct (sw_one_shape I (a + b) c l) as (x3 & y3 & E3 & L3). rewrite E3 in H3. injection H3 as -> ->.
  destruct (sw_loop_spec I HI _ _ _ _ L1) as (A1 & _ & C1 & D1 & _).
  destruct (sw_loop_spec I HI _ _ _ _ L2) as (A2 & _ & C2 & D2 & _).
  destruct (sw_loop_spec I HI _ _ _ _ L3) as (A3 & _ & C3 & D3 & _).
  assert (N : (n1 + n2)%nat = n3).
  { apply (due_unique I (c - (a + b))); try assumption; try lia. }
  split; [|exact N]. subst n3. rewrite Nat2Z.inj_add in A3. lia.
Qed.

(* a sword that expires in the first chunk: all its remaining ticks are emitted there *)
Lemma sw_one_dropped I a b c l c1 n1 c3 n3 : 0 < I -> c <= I -> 0 <= a -> 0 <= b -> l - a <= 0 ->
  sw_one I a (c, l) = ((c1, l - a), n1) -> sw_one I (a + b) (c, l) = ((c3, l - (a + b)), n3) ->
  0 < c1 -> 0 < c3 -> n1 = n3.
Proof.
  intros HI Hc Ha Hb Hl H1 H3 P1 P3.
  destruct (sw_one_shape I a c l) as (x1 & y1 & E1 & L1). rewrite E1 in H1. injection H1 as -> ->.
  destruct (sw_one_shape I (a + b) c l) as (x3 & y3 & E3 & L3). rewrite E3 in H3. injection H3 as -> ->.
  destruct (sw_loop_spec I HI _ _ _ _ L1) as (A1 & _ & C1 & D1 & _).
  destruct (sw_loop_spec I HI _ _ _ _ L3) as (A3 & B3 & C3 & D3 & _).
  (* n3 <= l / I <= n1 <= n3 *)
  assert (LE : (n1 <= n3)%nat).
  { destruct (Nat.le_gt_cases n1 n3) as [|G]; [assumption|exfalso].
    assert (X : Z.of_nat n3 * I <= (Z.of_nat n1 - 1) * I) by (apply Z.mul_le_mono_nonneg_r; lia).
    specialize (C1 ltac:(lia)). lia. }
  assert (GE : (n3 <= n1)%nat).
  { unfold sw_cap in B3. destruct (Z.max_spec 0 (l / I)) as [[M1 M2]|[M1 M2]]; rewrite M2 in B3.
    - pose proof (Z.mul_div_le l I HI) as D. assert (Q : l / I <= Z.of_nat n1).
      { destruct (Z.le_gt_cases (l / I) (Z.of_nat n1)) as [|G]; [assumption|exfalso].
        assert (X : (Z.of_nat n1 + 1) * I <= (l / I) * I) by (apply Z.mul_le_mono_nonneg_r; lia). lia. }
      lia.
    - cbn in B3. lia. }
  lia.
Qed.

(* ------------------------------------------------------------ the sword list *)
Lemma sw_resolve_cons I t x r :
  sw_resolve I t (x :: r) =
  ((if 0 <? snd (fst (sw_one I t x)) then [fst (sw_one I t x)] else []) ++ fst (sw_resolve I t r),
   (snd (sw_one I t x) + snd (sw_resolve I t r))%nat).
Proof. cbn [sw_resolve]. destruct (sw_one I t x) as [y n]. destruct (sw_resolve I t r) as [r' m]. reflexivity. Qed.

Lemma sw_one_snd I t c l : snd (fst (sw_one I t (c, l))) = l - t.
Proof. destruct (sw_one_shape I t c l) as (c' & n & E & _). rewrite E. reflexivity. Qed.

Lemma sw_resolve_add I a b l : 0 < I -> 0 <= a -> 0 <= b ->
  Forall (fun x => fst x <= I) l ->
  Forall (uncapped I a) l -> Forall (uncapped I b) (fst (sw_resolve I a l)) -> Forall (uncapped I (a + b)) l ->
  fst (sw_resolve I b (fst (sw_resolve I a l))) = fst (sw_resolve I (a + b) l) /\
  (snd (sw_resolve I a l) + snd (sw_resolve I b (fst (sw_resolve I a l))))%nat = snd (sw_resolve I (a + b) l).
Proof.
  intros HI Ha Hb. induction l as [|[c tl] r IH]; intros Hc U1 U2 U3.
  - split; reflexivity.
  - inversion Hc as [|? ? Hc1 Hc2]; subst. inversion U1 as [|? ? U11 U12]; subst. inversion U3 as [|? ? U31 U32]; subst.
    rewrite (sw_resolve_cons I a) in U2 |- *. rewrite (sw_resolve_cons I (a + b)). cbn [fst snd] in *.
    unfold uncapped in U11, U31.
    destruct (sw_one_shape I a c tl) as (c1 & n1 & E1 & _). destruct (sw_one_shape I (a + b) c tl) as (c3 & n3 & E3 & _).
    rewrite E1 in *. rewrite E3 in *. cbn [fst snd] in *.
    destruct (0 <? tl - a) eqn:S1.
    + (* survives the first chunk *)
      cbn [app] in U2 |- *. inversion U2 as [|? ? U21 U22]; subst. specialize (IH Hc2 U12 U22 U32). destruct IH as [IH1 IH2].
      rewrite (sw_resolve_cons I b). cbn [fst snd]. unfold uncapped in U21.
      destruct (sw_one_shape I b c1 (tl - a)) as (c2 & n2 & E2 & _). rewrite E2 in *. cbn [fst snd] in *.
      destruct (sw_one_add I a b c tl c1 n1 c2 n2 c3 n3 HI Ha Hb E1 E2 E3 U11 U21 U31) as [-> <-].
      replace (tl - a - b) with (tl - (a + b)) by lia. rewrite IH1. split; [reflexivity|]. lia.
    + (* expires in the first chunk *)
      cbn [app] in U2 |- *. specialize (IH Hc2 U12 U2 U32). destruct IH as [IH1 IH2].
      apply Z.ltb_ge in S1. replace (0 <? tl - (a + b)) with false by (symmetry; apply Z.ltb_ge; lia).
      cbn [app]. rewrite (sw_one_dropped I a b c tl c1 n1 c3 n3 HI Hc1 Ha Hb S1 E1 E3 U11 U31).
      split; [exact IH1|]. lia.
Qed.

(* remaining times never depend on the chunking *)
Definition age_tl (t : Z) (L : list Z) : list Z := filter (fun x => 0 <? x) (map (fun x => x - t) L).
Lemma sw_resolve_tls I t l : map snd (fst (sw_resolve I t l)) = age_tl t (map snd l).
Proof.
  induction l as [|[c tl] r IH]; [reflexivity|]. rewrite sw_resolve_cons. cbn [fst snd map]. unfold age_tl in *. cbn [map filter].
  rewrite sw_one_snd. rewrite map_app.
  destruct (0 <? tl - t); cbn [map app]; rewrite ?sw_one_snd; [f_equal|]; exact IH.
Qed.
Lemma age_tl_add a b L : 0 <= b -> age_tl b (age_tl a L) = age_tl (a + b) L.
Proof.
  intros Hb. unfold age_tl. induction L as [|x L IH]; [reflexivity|]. cbn [map filter].
  destruct (0 <? x - a) eqn:E1; cbn [map filter]; rewrite IH.
  - replace (x - a - b) with (x - (a + b)) by lia. reflexivity.
  - apply Z.ltb_ge in E1. replace (0 <? x - (a + b)) with false by (symmetry; apply Z.ltb_ge; lia). reflexivity.
Qed.

Lemma sw_trunc_id m l : 2 * Z.of_nat (length l) <= m -> sw_trunc m l = l.
Proof. destruct l; [reflexivity|]. intros H. cbn [sw_trunc]. replace (m <? _) with false by (symmetry; apply Z.ltb_ge; exact H). reflexivity. Qed.
Lemma sw_trunc_cap m l : 0 <= m -> 2 * Z.of_nat (length (sw_trunc m l)) <= m.
Proof.
  intros Hm. induction l as [|x r IH]; [cbn; lia|]. cbn [sw_trunc]. destruct (m <? _) eqn:E; [exact IH|]. apply Z.ltb_ge in E. exact E.
Qed.
Lemma sw_trunc_forall (Q : sword -> Prop) m l : Forall Q l -> Forall Q (sw_trunc m l).
Proof. induction 1 as [|x r Hx Hr IH]; [constructor|]. cbn [sw_trunc]. destruct (m <? _); [exact IH|constructor; assumption]. Qed.
Lemma sw_resolve_len I t l : (length (fst (sw_resolve I t l)) <= length l)%nat.
Proof. induction l as [|x r IH]; [cbn; lia|]. rewrite sw_resolve_cons. cbn [fst]. rewrite app_length. destruct (0 <? _); cbn [length]; lia. Qed.

Lemma sw_time_left_tls l : sw_time_left l = last (map snd l) 0.
Proof.
  unfold sw_time_left. induction l as [|x r IH]; [reflexivity|]. destruct r as [|y r']; [reflexivity|].
  change (last (x :: y :: r') (0, 0)) with (last (y :: r') (0, 0)). rewrite IH. reflexivity.
Qed.

(* ------------------------------------------------------------ the component *)
Definition order_inv (p : xpar) (s : xst) : Prop :=
  0 < xp_swi p /\ Forall (fun x => fst x <= xp_swi p) (x_sw s).
Definition within_capacity (p : xpar) (s : xst) : Prop := sword_count s <= max_sw p s.
Definition tls (s : xst) : list Z := map snd (x_sw s).

Lemma order_elapse_unfold p t s :
  xreduce_spec Order XElapse p t s =
  Some (setsw (setu s (set_cd (x_u s) (u_cd (x_u s) - t))) (sw_trunc (max_sw p s) (fst (sw_resolve (xp_swi p) t (x_sw s)))),
        EElapsed t :: repeat (dealt (p_pd1 (xp p))) (snd (sw_resolve (xp_swi p) t (x_sw s)))).
Proof. cbn [xreduce_spec xreduce]. destruct (sw_resolve _ _ _) as [sw n]. reflexivity. Qed.

Theorem order_chunk_partial p a b s s1 e1 s2 e2 s3 e3 :
  0 <= a -> 0 <= b -> within_capacity p s ->
  xreduce_spec Order XElapse p a s = Some (s1, e1) -> xreduce_spec Order XElapse p b s1 = Some (s2, e2) ->
  xreduce_spec Order XElapse p (a + b) s = Some (s3, e3) ->
  (* (i) cooldown, remaining sword times and everything the elapse does not own *)
  (x_u s2 = x_u s3 /\ tls s2 = tls s3 /\ x_gauge s2 = x_gauge s3 /\ x_rl s2 = x_rl s3 /\ x_pg s2 = x_pg s3 /\ x_rlad s2 = x_rlad s3) /\
  (* (ii) counters and ticks, when the bound maximum_elapsed is not reached *)
  (order_inv p s -> Forall (uncapped (xp_swi p) a) (x_sw s) -> Forall (uncapped (xp_swi p) b) (x_sw s1) ->
   Forall (uncapped (xp_swi p) (a + b)) (x_sw s) -> s2 = s3 /\ dealts (e1 ++ e2) = dealts e3).
Proof.
  intros Ha Hb Cap H1 H2 H3. rewrite order_elapse_unfold in H1, H2, H3.
  unfold within_capacity, sword_count in Cap.
  set (I := xp_swi p) in *. set (M := max_sw p s) in *.
  pose proof (sw_resolve_len I a (x_sw s)) as Len1. pose proof (sw_resolve_len I (a + b) (x_sw s)) as Len3.
  rewrite (sw_trunc_id M (fst (sw_resolve I a (x_sw s)))) in H1 by lia.
  rewrite (sw_trunc_id M (fst (sw_resolve I (a + b) (x_sw s)))) in H3 by lia.
  injection H1 as <- <-. cbn [x_sw x_u setsw setu u_cd set_cd] in H2.
  assert (M1 : max_sw p (setsw (setu s (set_cd (x_u s) (u_cd (x_u s) - a))) (fst (sw_resolve I a (x_sw s)))) = M) by reflexivity.
  rewrite M1 in H2.
  pose proof (sw_resolve_len I b (fst (sw_resolve I a (x_sw s)))) as Len2.
  rewrite sw_trunc_id in H2 by lia.
  injection H2 as <- <-; injection H3 as <- <-. split.
  - unfold tls. cbn [x_u x_sw x_gauge x_rl x_rlad x_pg setsw setu]. repeat split.
    + ust_eq.
    + rewrite !sw_resolve_tls. apply age_tl_add. exact Hb.
  - intros [HI Hc] U1 U2 U3. cbn [x_sw setsw] in U2.
    destruct (sw_resolve_add I a b (x_sw s) HI Ha Hb Hc U1 U2 U3) as [E N]. split.
    + apply xst_ext; cbn [x_u x_sw x_gauge x_rl x_rlad x_pg setsw setu]; try reflexivity; [ust_eq|exact E].
    + rewrite dealts_app, !dealts_elapsed, repeat_add, N. reflexivity.
Qed.

(* hence the views agree whatever the chunking (within capacity) *)
Corollary order_chunk_views p a b s s1 e1 s2 e2 s3 e3 :
  0 <= a -> 0 <= b -> within_capacity p s ->
  xreduce_spec Order XElapse p a s = Some (s1, e1) -> xreduce_spec Order XElapse p b s1 = Some (s2, e2) ->
  xreduce_spec Order XElapse p (a + b) s = Some (s3, e3) ->
  xview_validity Order p s2 = xview_validity Order p s3 /\ xview_running Order p s2 = xview_running Order p s3 /\
  xview_buff Order p s2 = xview_buff Order p s3.
Proof.
  intros Ha Hb Cap H1 H2 H3.
  destruct (order_chunk_partial p a b s s1 e1 s2 e2 s3 e3 Ha Hb Cap H1 H2 H3) as [(U & T & G & _) _].
  cbn [xview_validity xview_running xview_buff]. unfold order_valid, sword_count. rewrite U, G, !sw_time_left_tls.
  unfold tls in T. rewrite T.
  assert (LL : length (x_sw s2) = length (x_sw s3)).
  { apply (f_equal (@length Z)) in T. rewrite !map_length in T. exact T. }
  repeat split. do 5 f_equal. exact LL.
Qed.

(* the invariants: preserved by the two reducers of the class; capacity is re-established by each of them *)
Lemma order_inv_preserved m p t s s' es :
  order_inv p s -> 0 <= t -> xreduce_spec Order m p t s = Some (s', es) -> order_inv p s'.
Proof.
  intros [HI Hc] Ht H. split; [exact HI|].
  destruct m; try discriminate.
  - (* use *)
    cbn [xreduce_spec xreduce] in H. destruct (negb _); injection H as <- <-; [exact Hc|]. cbn [x_sw setsw setu].
    apply sw_trunc_forall. apply Forall_app. split; [exact Hc|]. repeat constructor. cbn. lia.
  - (* elapse *)
    rewrite order_elapse_unfold in H. injection H as <- <-. cbn [x_sw setsw]. apply sw_trunc_forall.
    clear -HI Hc Ht. induction (x_sw s) as [|[c tl] r IH]; [constructor|]. inversion Hc as [|? ? Hc1 Hc2]; subst.
    rewrite sw_resolve_cons. cbn [fst]. apply Forall_app. split; [|apply IH; exact Hc2].
    destruct (0 <? _); [|constructor]. repeat constructor.
    destruct (sw_one_shape (xp_swi p) t c tl) as (c' & n & E & L). rewrite E. cbn [fst].
    destruct (sw_loop_spec _ HI _ _ _ _ L) as (_ & _ & C1 & D1 & _). destruct n; [rewrite (D1 eq_refl); cbn in Hc1; lia|].
    specialize (C1 ltac:(discriminate)). lia.
Qed.

Lemma order_capacity_established m p t s s' es :
  0 <= max_sw p s -> xreduce_spec Order m p t s = Some (s', es) -> rejected es = false -> within_capacity p s'.
Proof.
  intros Hm H R. unfold within_capacity, sword_count. destruct m; try discriminate.
  - cbn [xreduce_spec xreduce] in H. destruct (negb _); injection H as <- <-; [discriminate|].
    cbn [x_sw setsw setu]. change (max_sw p (setsw _ _)) with (max_sw p s). apply sw_trunc_cap. exact Hm.
  - rewrite order_elapse_unfold in H. injection H as <- <-. cbn [x_sw setsw].
    change (max_sw p (setsw _ _)) with (max_sw p s). apply sw_trunc_cap. exact Hm.
Qed.

(* ------------------------------------------------------------ the witness *)
Definition ord_par : par :=
  mkPar false (0, 0) 0 500 0 45000 45000 0%nat [] (7, 2) (0, 0) (0, 0) (0, 0) 0 (0, 0) 0 0 0 0 (0, 0).
Definition ord_p : xpar := mkXP ord_par 400 100 100 5 12 21 0 1020 6 8 (0, 0) 0 999999999 1 0 0 0.
Definition ord_s0 : xst := mkX x_u0 (PG.mk 1 [1] 0 0) 400 0 0 [].
Definition ord_s : xst := mkX (set_cd x_u0 500) (PG.mk 1 [1] 0 0) 400 0 0 [(0, 45000)].

Theorem order_chunk_refuted :
  exists p s0 s s1 e1 s2 e2 s3 e3 a b,
    xreduce_spec Order XUse p 0 s0 = Some (s, [dealt (p_pd1 (xp p)); EDelay 0]) /\
    wf_x p s /\ order_inv p s /\ within_capacity p s /\ 0 <= a /\ 0 <= b /\
    xreduce_spec Order XElapse p a s = Some (s1, e1) /\ xreduce_spec Order XElapse p b s1 = Some (s2, e2) /\
    xreduce_spec Order XElapse p (a + b) s = Some (s3, e3) /\
    length (dealts (e1 ++ e2)) = 45%nat /\ length (dealts e3) = 44%nat /\
    ~ Permutation (dealts (e1 ++ e2)) (dealts e3) /\ x_sw s2 = [(1000, 100)] /\ x_sw s3 = [(-20, 100)].
Proof.
  exists ord_p, ord_s0, ord_s.
  eexists. eexists. eexists. eexists. eexists. eexists. exists 100, 44800.
  split; [vm_compute; reflexivity|].
  split; [repeat split; cbn; try lia; try discriminate; repeat constructor|].
  split; [split; [reflexivity|repeat constructor; cbn; lia]|].
  split; [vm_compute; discriminate|].
  split; [lia|]. split; [lia|].
  split; [vm_compute; reflexivity|]. split; [vm_compute; reflexivity|]. split; [vm_compute; reflexivity|].
  split; [vm_compute; reflexivity|]. split; [vm_compute; reflexivity|].
  split; [|split; vm_compute; reflexivity].
  intros X. apply Permutation_length in X. vm_compute in X. discriminate.
Qed.

(* second facet: a sword beyond the capacity (the restore buff of another component has run out: capacity 8 -> 6)
   is dropped only at the END of the next elapse call, after it has ticked for the whole call *)
Definition ord_s4 : xst :=
  mkX (set_cd x_u0 0) (PG.mk 1 [1] 0 0) 0 0 0 [(40, 43000); (540, 43500); (20, 44000); (520, 44500)].
Theorem order_chunk_refuted_capacity :
  exists p s s1 e1 s2 e2 s3 e3 a b,
    order_inv p s /\ ~ within_capacity p s /\ 0 <= a /\ 0 <= b /\
    xreduce_spec Order XElapse p a s = Some (s1, e1) /\ xreduce_spec Order XElapse p b s1 = Some (s2, e2) /\
    xreduce_spec Order XElapse p (a + b) s = Some (s3, e3) /\
    Forall (uncapped (xp_swi p) a) (x_sw s) /\ Forall (uncapped (xp_swi p) b) (x_sw s1) /\ Forall (uncapped (xp_swi p) (a + b)) (x_sw s) /\
    length (dealts (e1 ++ e2)) = 31%nat /\ length (dealts e3) = 40%nat /\ s2 = s3.
Proof.
  exists ord_p, ord_s4. eexists. eexists. eexists. eexists. eexists. eexists. exists 100, 9900.
  split; [split; [reflexivity|repeat constructor; cbn; lia]|].
  split; [vm_compute; intros X; apply X; reflexivity|].
  split; [lia|]. split; [lia|].
  split; [vm_compute; reflexivity|]. split; [vm_compute; reflexivity|]. split; [vm_compute; reflexivity|].
  split; [repeat constructor; vm_compute; reflexivity|].
  split; [repeat constructor; vm_compute; reflexivity|].
  split; [repeat constructor; vm_compute; reflexivity|].
  split; [vm_compute; reflexivity|]. split; vm_compute; reflexivity.
Qed.
