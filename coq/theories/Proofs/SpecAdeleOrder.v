(* C09 for the entity OrderSword (specific/adele.py), as repaired by 4d5f5f0 after this check found that the
   ticks of AdeleOrderComponent.elapse depended on how the time was chunked:

       def resolving(self, time, max_sword_count):
           self._set_running_swords(self.running_swords, max_sword_count)      # leave before ticking
           for each sword (counter, time_left):
               time_left -= time; counter -= time
               while counter <= 0 and counter < time_left:                     # tick while alive
                   counter += self.interval; yield 1
               keep the sword if time_left > 0
           self._set_running_swords(result, max_sword_count)

   sw_enough / sw_resolve_ok_true: with a positive interval the count-based fuel of the model suffices (the executable
   reducer never answers `out of fuel`).  sw_resolve_add: resolving a then b = resolving a+b, for EVERY sword list (no
   capacity, sortedness or counter hypothesis; only interval > 0): same surviving swords with the same counters, tick
   counts add.  The component-level theorem is chunk_order / xelapse_chunk in SpecAdeleChunk.v. *)
From Coq Require Import ZArith List Bool Lia.
From V.Model Require Import Comp SpecAdele.
Import ListNotations.
Open Scope Z_scope.

(* ------------------------------------------------------------ the loop *)
Lemma sw_unfold f I c l :
  sw_loop f I c l =
  if (c <=? 0) && (c <? l) then
    match f with O => None | S f' => match sw_loop f' I (c + I) l with Some (c', n) => Some (c', S n) | None => None end end
  else Some (c, O).
Proof. destruct f; reflexivity. Qed.

Lemma sw_S : forall f I c l r, sw_loop f I c l = Some r -> sw_loop (S f) I c l = Some r.
Proof.
  induction f as [|f IH]; intros I c l r H; rewrite sw_unfold in H; rewrite sw_unfold;
    destruct ((c <=? 0) && (c <? l)); try discriminate; try exact H.
  destruct (sw_loop f I (c + I) l) as [[c' n]|] eqn:E; [|discriminate]. rewrite (IH _ _ _ _ E). exact H.
Qed.
Lemma sw_mono f f' I c l r : (f <= f')%nat -> sw_loop f I c l = Some r -> sw_loop f' I c l = Some r.
Proof. intros L; induction L; intros H0; [exact H0|]. apply sw_S. auto. Qed.

(* the fuel of the model: one unit per counter value c, c + I, ... that is <= 0 *)
Lemma sw_fuel_pos I c : 0 < I -> sw_fuel I c = Z.to_nat ((- c) / I + 2).
Proof. intros HI. unfold sw_fuel. replace (0 <? I) with true by (symmetry; apply Z.ltb_lt; exact HI). reflexivity. Qed.

Lemma sw_fuel_step I c : 0 < I -> c <= 0 -> sw_fuel I c = S (sw_fuel I (c + I)).
Proof.
  intros HI Hc. rewrite !sw_fuel_pos by exact HI.
  replace (- (c + I)) with (- c + (-1) * I) by lia. rewrite Z.div_add by lia.
  assert (0 <= (- c) / I) by (apply Z.div_pos; lia).
  rewrite <- Z2Nat.inj_succ by lia. f_equal. lia.
Qed.

Lemma sw_enough I : 0 < I -> forall f c l, (sw_fuel I c <= f)%nat -> exists r, sw_loop f I c l = Some r.
Proof.
  intros HI. induction f as [|f IH]; intros c l F; rewrite sw_unfold;
    destruct ((c <=? 0) && (c <? l)) eqn:G; try (eexists; reflexivity);
    apply andb_prop in G; destruct G as [G _]; apply Z.leb_le in G; rewrite (sw_fuel_step I c HI G) in F.
  - lia.
  - destruct (IH (c + I) l ltac:(lia)) as [[c' n] E]. rewrite E. eexists. reflexivity.
Qed.

(* elapsing d more first: the loop passes through the state in which it would have stopped *)
Lemma sw_shift : forall f f' I c l d c1 n1 c2 n2, 0 <= d ->
  sw_loop f I c l = Some (c1, n1) -> sw_loop f' I (c1 - d) (l - d) = Some (c2, n2) ->
  sw_loop (f + f') I (c - d) (l - d) = Some (c2, (n1 + n2)%nat).
Proof.
  induction f as [|f IH]; intros f' I c l d c1 n1 c2 n2 Hd H H'; rewrite sw_unfold in H.
  - destruct ((c <=? 0) && (c <? l)); [discriminate|]. injection H as <- <-. exact H'.
  - destruct ((c <=? 0) && (c <? l)) eqn:G.
    + destruct (sw_loop f I (c + I) l) as [[c0 n0]|] eqn:E; [|discriminate]. injection H as <- <-.
      rewrite sw_unfold. apply andb_prop in G. destruct G as [G1 G2]. apply Z.leb_le in G1. apply Z.ltb_lt in G2.
      replace ((c - d <=? 0) && (c - d <? l - d)) with true
        by (symmetry; apply andb_true_intro; split; [apply Z.leb_le|apply Z.ltb_lt]; lia).
      cbn [Nat.add]. replace (c - d + I) with (c + I - d) by lia.
      rewrite (IH f' I (c + I) l d c0 n0 c2 n2 Hd E H'). reflexivity.
    + injection H as <- <-. eapply sw_mono; [|exact H']. lia.
Qed.

Lemma sw_det f f' I c l r r' : sw_loop f I c l = Some r -> sw_loop f' I c l = Some r' -> r = r'.
Proof.
  intros H H'. destruct (Nat.le_ge_cases f f') as [L|L].
  - rewrite (sw_mono _ _ _ _ _ _ L H) in H'. congruence.
  - rewrite (sw_mono _ _ _ _ _ _ L H') in H. congruence.
Qed.

(* where the loop stops its condition is false *)
Lemma sw_stop : forall f I c l c' n, sw_loop f I c l = Some (c', n) -> (c' <=? 0) && (c' <? l) = false.
Proof.
  induction f as [|f IH]; intros I c l c' n H; rewrite sw_unfold in H; destruct ((c <=? 0) && (c <? l)) eqn:G; try discriminate.
  - injection H as <- _. exact G.
  - destruct (sw_loop f I (c + I) l) as [[c0 n0]|] eqn:E; [|discriminate]. injection H as <- _. apply (IH _ _ _ _ _ E).
  - injection H as <- _. exact G.
Qed.

(* ------------------------------------------------------------ one sword *)
Lemma sw_one_some I t c l : 0 < I ->
  exists c' n, sw_loop (sw_fuel I (c - t)) I (c - t) (l - t) = Some (c', n) /\ sw_one I t (c, l) = ((c', l - t), n).
Proof.
  intros HI. destruct (sw_enough I HI (sw_fuel I (c - t)) (c - t) (l - t) (Nat.le_refl _)) as [[c' n] E].
  exists c', n. split; [exact E|]. unfold sw_one. rewrite E. reflexivity.
Qed.

Lemma sw_one_ok_true I t x : 0 < I -> sw_one_ok I t x = true.
Proof. intros HI. destruct x as [c l]. destruct (sw_one_some I t c l HI) as (c' & n & E & _). unfold sw_one_ok. rewrite E. reflexivity. Qed.

(* a then b = a+b; a sword that expires in the first chunk does not tick later *)
Lemma sw_one_add I a b c l : 0 < I -> 0 <= a -> 0 <= b ->
  let '(y1, n1) := sw_one I a (c, l) in let '(y2, n2) := sw_one I b y1 in
  sw_one I (a + b) (c, l) = (y2, (n1 + n2)%nat) /\ (snd y1 <= 0 -> n2 = O).
Proof.
  intros HI Ha Hb.
  destruct (sw_one_some I a c l HI) as (c1 & n1 & L1 & E1). rewrite E1.
  destruct (sw_one_some I b c1 (l - a) HI) as (c2 & n2 & L2 & E2). rewrite E2.
  destruct (sw_one_some I (a + b) c l HI) as (c3 & n3 & L3 & E3). rewrite E3.
  pose proof (sw_shift _ _ I (c - a) (l - a) b c1 n1 c2 n2 Hb L1 L2) as X.
  replace (c - a - b) with (c - (a + b)) in X by lia. replace (l - a - b) with (l - (a + b)) in * by lia.
  pose proof (sw_det _ _ _ _ _ _ _ L3 X) as Y. injection Y as -> ->. split; [reflexivity|].
  cbn [snd]. intros Hl. rewrite sw_unfold in L2.
  pose proof (sw_stop _ _ _ _ _ _ L1) as STOP.
  replace ((c1 - b <=? 0) && (c1 - b <? l - (a + b))) with false in L2.
  - injection L2 as _ <-. reflexivity.
  - symmetry. apply andb_false_iff. apply andb_false_iff in STOP. destruct STOP as [S|S].
    + apply Z.leb_gt in S. right. apply Z.ltb_ge. lia.
    + apply Z.ltb_ge in S. right. apply Z.ltb_ge. lia.
Qed.

Lemma sw_one_snd I t c l : snd (fst (sw_one I t (c, l))) = l - t.
Proof. unfold sw_one. destruct (sw_loop _ _ _ _) as [[c' n]|]; reflexivity. Qed.

(* ------------------------------------------------------------ the sword list *)
Lemma sw_map_cons I t x r :
  sw_map I t (x :: r) =
  ((if 0 <? snd (fst (sw_one I t x)) then [fst (sw_one I t x)] else []) ++ fst (sw_map I t r),
   (snd (sw_one I t x) + snd (sw_map I t r))%nat).
Proof. cbn [sw_map]. destruct (sw_one I t x) as [y n]. destruct (sw_map I t r) as [r' m]. reflexivity. Qed.

Lemma sw_map_add I a b l : 0 < I -> 0 <= a -> 0 <= b ->
  fst (sw_map I b (fst (sw_map I a l))) = fst (sw_map I (a + b) l) /\
  (snd (sw_map I a l) + snd (sw_map I b (fst (sw_map I a l))))%nat = snd (sw_map I (a + b) l).
Proof.
  intros HI Ha Hb. induction l as [|[c tl] r [IH1 IH2]]; [split; reflexivity|].
  rewrite (sw_map_cons I a), (sw_map_cons I (a + b)). cbn [fst snd].
  pose proof (sw_one_add I a b c tl HI Ha Hb) as X.
  destruct (sw_one I a (c, tl)) as [y1 n1] eqn:E1. destruct (sw_one I b y1) as [y2 n2] eqn:E2. destruct X as [X D].
  rewrite X. cbn [fst snd].
  assert (S1 : snd y1 = tl - a) by (rewrite <- (sw_one_snd I a c tl), E1; reflexivity).
  assert (S2 : snd y2 = tl - (a + b)) by (rewrite <- (sw_one_snd I (a + b) c tl), X; reflexivity).
  destruct (0 <? snd y1) eqn:G1.
  - cbn [app]. rewrite (sw_map_cons I b). cbn [fst snd]. rewrite E2. cbn [fst snd]. rewrite IH1. split; [reflexivity|]. lia.
  - cbn [app]. apply Z.ltb_ge in G1. rewrite (D G1). replace (0 <? snd y2) with false by (symmetry; apply Z.ltb_ge; lia).
    cbn [app]. split; [exact IH1|]. lia.
Qed.

Lemma sw_map_len I t l : (length (fst (sw_map I t l)) <= length l)%nat.
Proof. induction l as [|x r IH]; [cbn; lia|]. rewrite sw_map_cons. cbn [fst]. rewrite app_length. destruct (0 <? _); cbn [length]; lia. Qed.

(* ------------------------------------------------------------ the capacity *)
Lemma sw_trunc_id m l : 2 * Z.of_nat (length l) <= m -> sw_trunc m l = l.
Proof. destruct l; [reflexivity|]. intros H. cbn [sw_trunc]. replace (m <? _) with false by (symmetry; apply Z.ltb_ge; exact H). reflexivity. Qed.
Lemma sw_trunc_cap m l : 0 <= m -> 2 * Z.of_nat (length (sw_trunc m l)) <= m.
Proof.
  intros Hm. induction l as [|x r IH]; [cbn; lia|]. cbn [sw_trunc]. destruct (m <? _) eqn:E; [exact IH|]. apply Z.ltb_ge in E. exact E.
Qed.

(* a list no longer than an already truncated one is not truncated again *)
Lemma sw_trunc_sub mx l r : (length r <= length (sw_trunc mx l))%nat -> sw_trunc mx r = r.
Proof.
  intros H. destruct (sw_trunc mx l) as [|x0 r0] eqn:E.
  - destruct r; [reflexivity|cbn in H; lia].
  - apply sw_trunc_id.
    assert (C : 2 * Z.of_nat (length (x0 :: r0)) <= mx).
    { clear H. revert E. induction l as [|y l IH]; cbn [sw_trunc]; [discriminate|].
      destruct (mx <? 2 * Z.of_nat (length (y :: l))) eqn:G; [exact IH|]. intros E. rewrite <- E. apply Z.ltb_ge in G. exact G. }
    lia.
Qed.

(* ------------------------------------------------------------ OrderSword.resolving *)
Theorem sw_resolve_add mx I a b l : 0 < I -> 0 <= a -> 0 <= b ->
  fst (sw_resolve mx I b (fst (sw_resolve mx I a l))) = fst (sw_resolve mx I (a + b) l) /\
  (snd (sw_resolve mx I a l) + snd (sw_resolve mx I b (fst (sw_resolve mx I a l))))%nat = snd (sw_resolve mx I (a + b) l).
Proof.
  intros HI Ha Hb. unfold sw_resolve. set (l0 := sw_trunc mx l).
  destruct (sw_map_add I a b l0 HI Ha Hb) as [M1 M2].
  pose proof (sw_map_len I a l0) as L1. pose proof (sw_map_len I (a + b) l0) as L3.
  destruct (sw_map I a l0) as [r1 n1] eqn:E1. cbn [fst snd] in *.
  rewrite (sw_trunc_sub mx l r1 L1). cbn [fst snd]. rewrite (sw_trunc_sub mx l r1 L1).
  pose proof (sw_map_len I b r1) as L2.
  destruct (sw_map I b r1) as [r2 n2] eqn:E2. cbn [fst snd] in *.
  destruct (sw_map I (a + b) l0) as [r3 n3] eqn:E3. cbn [fst snd] in *.
  subst r3 n3. split; [|reflexivity].
  rewrite (sw_trunc_sub mx l r2) by (fold l0; lia). reflexivity.
Qed.

(* the executable reducer never runs out of fuel when the interval is positive *)
Lemma sw_resolve_ok_true mx I t l : 0 < I -> sw_resolve_ok mx I t l = true.
Proof. intros HI. unfold sw_resolve_ok. apply forallb_forall. intros x _. apply sw_one_ok_true. exact HI. Qed.

(* after resolving the sword list respects the capacity *)
Lemma sw_resolve_cap mx I t l : 0 <= mx -> 2 * Z.of_nat (length (fst (sw_resolve mx I t l))) <= mx.
Proof. intros Hm. unfold sw_resolve. destruct (sw_map I t (sw_trunc mx l)) as [r n]. cbn [fst]. apply sw_trunc_cap. exact Hm. Qed.
