(* C10 at the ENGINE level: "whenever the validity view reports a skill as usable, using that skill at that
   moment is accepted", observed on the current store right before play() of `B.use`.
   play() relays the pending `emitted` callbacks of the previous action's events BEFORE it handles the action
   (C05), the viewer shows the store before that relay: a listener of such a callback can write an entity the
   advertised skill depends on (known finding C10-validity-ignores-pending-callbacks; adele 에테르.order /
   오더 VI, soulmaster 코스믹 버스트.trigger / 코스믹 샤워).
   * general part (any system): if nothing that runs before B's reducer in play (store, B.use) writes a bound
     address of B -- the pending emitted callbacks, and the dispatchers installed before B that include the
     signature -- then B's reducer receives exactly the state B's view received on `store`; hence for every
     view / reducer pair with "valid -> use not rejected on the SAME state" the use is not rejected.
   * the witness: a three-component system in which the component-level law holds and the engine-level
     statement fails, and fails only because of the pending relay. *)
From Coq Require Import List Bool Arith String Ascii ZArith Lia.
From V.Model Require Import Router Play Dispatch DispatchViews.
From V.Proofs Require Import RouterCache DispatchStore DispatchRouter DispatchPlay DispatchViews.
Import ListNotations.
Local Open Scope string_scope.

(* ------------------------------------------------------------------ generic facts about the scan *)
Section ScanFacts.
  Variables Sig Act St Ev : Type.
  Variable sig_eqb : Sig -> Sig -> bool.
  Variable sig_of : Act -> Sig.
  Variable is_reject : Ev -> bool.
  Notation disp := (Router.disp Sig Act St Ev).
  Notation result := (Router.result St Ev).
  Notation call_d := (Router.call_d Sig Act St Ev sig_eqb sig_of is_reject).
  Notation run_next := (Router.run_next Sig Act St Ev).
  Notation run_scan := (Router.run_scan Sig Act St Ev sig_eqb sig_of is_reject).
  Variable X : Type.
  Variable rt : X -> Act -> St -> X * result.

  Lemma run_scan_acc (a : Act) (sg : Sig) : forall ds i x st acc hit x' st' evs hit',
    run_scan X rt ds i sg x a st acc hit = (x', Some (st', evs, hit')) -> exists more, evs = (acc ++ more)%list.
  Proof.
    induction ds as [|d r IH]; intros i x st acc hit x' st' evs hit' H; cbn [Router.run_scan] in H.
    - inversion H; subst. exists []. symmetry. apply app_nil_r.
    - destruct (Router.includes Sig Act St Ev sig_eqb d sg).
      + destruct (call_d X rt d x a st) as [x1 [[s1 ev1]|]]; [|inversion H].
        apply IH in H. destruct H as (more & E). exists (ev1 ++ more)%list. rewrite E. symmetry. apply app_assoc.
      + eapply IH; exact H.
  Qed.

  Lemma run_scan_app (a : Act) (sg : Sig) : forall l1 l2 i x st acc hit,
    run_scan X rt (l1 ++ l2) i sg x a st acc hit =
    match run_scan X rt l1 i sg x a st acc hit with
    | (x1, Some (st1, acc1, hit1)) => run_scan X rt l2 (i + List.length l1) sg x1 a st1 acc1 hit1
    | (x1, None) => (x1, None)
    end.
  Proof.
    induction l1 as [|d r IH]; intros l2 i x st acc hit; cbn [app Router.run_scan List.length].
    - rewrite Nat.add_0_r. reflexivity.
    - destruct (Router.includes Sig Act St Ev sig_eqb d sg).
      + destruct (call_d X rt d x a st) as [x1 [[s1 ev1]|]]; [|reflexivity].
        rewrite IH. rewrite <- Nat.add_succ_comm. reflexivity.
      + rewrite IH. rewrite <- Nat.add_succ_comm. reflexivity.
  Qed.

  Lemma run_next_acc (f : disp -> X -> St -> X * result) : forall l x st acc x' st' evs,
    run_next X f l x st acc = (x', Some (st', evs)) -> exists more, evs = (acc ++ more)%list.
  Proof.
    induction l as [|d r IH]; intros x st acc x' st' evs H; cbn [Router.run_next] in H.
    - inversion H; subst. exists []. symmetry. apply app_nil_r.
    - destruct (f d x st) as [x1 [[s1 ev1]|]]; [|inversion H].
      apply IH in H. destruct H as (more & E). exists (ev1 ++ more)%list. rewrite E. symmetry. apply app_assoc.
  Qed.
End ScanFacts.

Section ValidUse.
  Variables Ent Pay : Type.
  Variable empty_pay : Pay.
  Variable clock0 : Ent.
  Variable spent : Ent -> Pay -> option Ent.
  Variable pnone : Pay.
  Variable ptime : Z -> Pay.

  Notation component := (Dispatch.component Ent Pay).
  Notation store := (Dispatch.store Ent).
  Notation inst := (Dispatch.inst Ent Pay).
  Notation rst := (Dispatch.rst Ent Pay).
  Notation action := (Dispatch.action Pay).
  Notation event := (Dispatch.event Pay).
  Notation reducer := (Dispatch.reducer Ent Pay).
  Notation bound_addrs := (Dispatch.bound_addrs Ent Pay).
  Notation bound_names := (Dispatch.bound_names Ent Pay).
  Notation comp_addr := (Dispatch.comp_addr Ent Pay).
  Notation touched := (Dispatch.touched Ent Pay).
  Notation inst_includes := (Dispatch.inst_includes Ent Pay).
  Notation present := (DispatchStore.present Ent).
  Notation agree_outside := (DispatchStore.agree_outside Ent).
  Notation call_comp := (Dispatch.call_comp Ent Pay empty_pay).
  Notation disp_of := (Dispatch.disp_of Ent Pay empty_pay clock0 spent).
  Notation installed := (Dispatch.installed Ent Pay empty_pay clock0 spent).
  Notation dispatch_c := (Dispatch.dispatch_c Ent Pay).
  Notation dispatch_nc := (Dispatch.dispatch_nc Ent Pay).
  Notation tag_events := (Dispatch.tag_events Pay empty_pay).
  Notation run_scan := (Router.run_scan string action rst event String.eqb sig_of ev_is_reject).
  Notation call_d := (Router.call_d string action rst event String.eqb sig_of ev_is_reject).
  Notation Coh := (Router.Coh string action rst event String.eqb).
  Notation pst := (Dispatch.pst Ent Pay).
  Notation prouter := (Dispatch.prouter Ent Pay pnone ptime).
  Notation pplay := (Dispatch.pplay Ent Pay pnone ptime).
  Notation act_of := (Dispatch.act_of Pay pnone ptime).
  Notation paction := (Play.action Pay string string (option string)).
  Notation pevent := (Play.event Pay string string (option string)).
  Notation pstore := (Play.store pst Pay string string (option string)).
  Notation run_queue := (Play.run_queue pst Pay string string (option string)).
  Notation wf := (DispatchPlay.wf Ent Pay empty_pay clock0 spent).

  (* two stores that agree on the bound addresses of a component, all present: get_state reads the same state *)
  Definition agree_on (B : list string) (st st' : store) : Prop := forall x, In x B -> dget st' x = dget st x.

  Lemma read_all_same_fields cur defs : forall names st st' fs fs',
    (forall x, In x (addrs_of cur names) -> present st x) ->
    (forall x, In x (addrs_of cur names) -> dget st' x = dget st x) ->
    read_all Ent cur defs names st = Some (st, fs) -> read_all Ent cur defs names st' = Some (st', fs') -> fs' = fs.
  Proof.
    intros names st st' fs fs' HP HA R R'.
    assert (HP' : forall x, In x (addrs_of cur names) -> present st' x).
    { intros x I. unfold DispatchStore.present. rewrite (HA x I). apply HP. exact I. }
    apply read_all_spec in R. destruct R as (_ & _ & _ & S). destruct (S HP) as [_ F].
    apply read_all_spec in R'. destruct R' as (_ & _ & _ & S'). destruct (S' HP') as [_ F'].
    clear S S' HP HP'. revert fs' F' HA. induction F as [|[n e] [n2 a2] fs0 names0 [Hn Hg] F IH]; intros fs' F' HA.
    - inversion F'. reflexivity.
    - inversion F' as [|[n' e'] na fs0' names0' [Hn' Hg'] F0']; subst. cbn in *. subst.
      f_equal.
      + f_equal. rewrite HA in Hg'; [|left; reflexivity]. rewrite Hg in Hg'. inversion Hg'. reflexivity.
      + apply IH; [exact F0'|]. intros x I. apply HA. right. exact I.
  Qed.

  Lemma get_state_agree (c : component) (st st' : store) :
    (forall x, In x (bound_addrs c) -> present st x) -> agree_on (bound_addrs c) st st' ->
    exists fs, get_state Ent Pay c st = Some (st, fs) /\ get_state Ent Pay c st' = Some (st', fs).
  Proof.
    intros HP HA.
    destruct (view_present_read_only Ent Pay unit c (fun _ => tt) st HP) as (fs & G & _).
    assert (HP' : forall x, In x (bound_addrs c) -> present st' x).
    { intros x I. unfold DispatchStore.present. rewrite (HA x I). apply HP. exact I. }
    destruct (view_present_read_only Ent Pay unit c (fun _ => tt) st' HP') as (fs' & G' & _).
    exists fs. split; [exact G|]. rewrite G'. f_equal. f_equal.
    unfold get_state in G, G'. rewrite bound_addrs_eq in HP, HA.
    exact (read_all_same_fields _ _ _ st st' fs fs' HP HA G G').
  Qed.

  (* what the dispatchers in `l` (a part of the installed system) can write for a signature *)
  Definition touched_part (n : nat) (sys l : list inst) (s : string) : list string :=
    flat_map (fun i =>
      if inst_includes i s then
        match i with
        | ITimer => [resolve root_addr clock_addr]
        | IComp c =>
            (bound_addrs c ++
             flat_map (fun ad => if String.eqb s (msig (c_name c) (ad_when ad))
                                 then touched n sys (sig_of (ad_action ad)) else []) (c_addons c))%list
        end
      else []) l.

  Lemma scan_part_frame (sys : list inst) (n : nat) (a : action) (l : list inst) :
    forall i x s acc hit x' s' evs hit',
      run_scan unit (dispatch_nc n (installed sys)) (map disp_of l) i (sig_of a) x a s acc hit = (x', Some (s', evs, hit')) ->
      agree_outside (touched_part n sys l (sig_of a)) (fst s) (fst s').
  Proof.
    intros i x s acc hit x' s' evs hit' H.
    pose proof (scan_inv Ent Pay empty_pay clock0 spent unit
                 (fun _ s s' => agree_outside (touched_part n sys l (sig_of a)) (fst s) (fst s'))
                 (fun s => agree_refl Ent _ _)
                 (fun l1 l2 s s1 s2 A B => agree_trans Ent _ _ _ _ A B) unit
                 (dispatch_nc n (installed sys)) a (fun _ => []) l) as SI.
    eapply SI; [| | |apply incl_refl|exact H]; clear SI H.
    - intros c [st tr] [st1 tr1] ev Ic Inc H. apply call_comp_frame in H. destruct H as (A & _). cbn.
      eapply agree_weaken; [|exact A]. intros y Iy. unfold touched_part. apply in_flat_map.
      exists (IComp c). split; [exact Ic|]. cbn [Dispatch.inst_includes]. rewrite Inc. apply in_or_app. left. exact Iy.
    - intros [st tr] s1 ev It Inc H. apply timer_call_spec in H. destruct H as (_ & _ & A & _).
      eapply agree_weaken; [|exact A]. intros y [E|[]]. subst y. unfold touched_part. apply in_flat_map.
      exists ITimer. split; [exact It|]. cbn [Dispatch.inst_includes]. rewrite Inc. left. reflexivity.
    - intros c ad x0 s0 x1 s1 ev Ic Inc Iad E H. destruct x0, x1.
      apply (nc_frame_fine Ent Pay empty_pay clock0 spent) in H.
      eapply agree_weaken; [|exact H]. intros y Iy. unfold touched_part. apply in_flat_map.
      exists (IComp c). split; [exact Ic|]. cbn [Dispatch.inst_includes]. rewrite Inc. apply in_or_app. right.
      apply in_flat_map. exists ad. split; [exact Iad|]. rewrite E. exact Iy.
  Qed.

  (* ---- one dispatch of B.use: B's reducer gets the state its view got *)
  Theorem dispatch_gives_view_state (pre post : list inst) (B : component) (n : nat) (a : action)
          (key method : string) (red : reducer) (st0 st : store) (tr : list (invocation Pay)) u s' evs :
    find_mapping Ent Pay B (sig_of a) = FFound key ->
    dget (c_maps B) key = Some {| m_method := Some method; m_red := Some red |} ->
    (forall x, In x (bound_addrs B) -> present st0 x) ->
    agree_on (bound_addrs B) st0 st ->
    (forall x, In x (bound_addrs B) -> ~ In x (touched_part n (pre ++ IComp B :: post) pre (sig_of a))) ->
    dispatch_nc (S n) (installed (pre ++ IComp B :: post)) tt a (st, tr) = (u, Some (s', evs)) ->
    exists fs out me before after,
      get_state Ent Pay B st0 = Some (st0, fs) /\
      red (a_pay a) fs = Some (out, me) /\
      evs = (before ++ tag_events (c_name B) method (regularize Pay me) ++ after)%list.
  Proof.
    intros F G HP HA HD H. set (sys := (pre ++ IComp B :: post)%list) in *.
    apply (nc_unfold Ent Pay) in H. destruct H as (x' & hit' & H).
    set (rt := dispatch_nc n (installed sys)) in H.
    unfold Dispatch.installed in H. unfold sys in H. rewrite map_app in H. cbn [map] in H.
    rewrite run_scan_app in H.
    destruct (run_scan unit rt (map disp_of pre) 0 (sig_of a) tt a (st, tr) [] [])
      as [x1 [[[s1 acc1] hit1]|]] eqn:E1; [|inversion H].
    pose proof (scan_part_frame sys n a pre _ _ _ _ _ _ _ _ _ E1) as A1. cbn [fst] in A1.
    cbn [Router.run_scan] in H. rewrite includes_disp_of in H. cbn [Dispatch.inst_includes] in H.
    unfold Dispatch.includes_b in H. rewrite F in H.
    destruct (call_d unit rt (disp_of (IComp B)) x1 a s1) as [x2 [[s2 ev2]|]] eqn:E2; [|inversion H].
    apply run_scan_acc in H. destruct H as (after & EV). subst evs.
    (* B's own call *)
    cbn [Dispatch.disp_of] in E2. unfold Dispatch.comp_disp in E2. cbn [Router.call_d] in E2.
    destruct (call_comp B a s1) as [[s1' evB]|] eqn:CB; [|inversion E2].
    assert (E2' : exists more, ev2 = (evB ++ more)%list).
    { destruct (existsb ev_is_reject evB); [inversion E2; subst; exists []; symmetry; apply app_nil_r|].
      apply run_next_acc in E2. exact E2. }
    clear E2. destruct E2' as (more & E2). subst ev2.
    destruct s1 as [st1 tr1]. cbn [fst] in A1. apply call_comp_cases in CB.
    destruct CB as (key' & mp & F' & _ & G' & [CB|CB]).
    - destruct CB as (red' & method' & st1' & fs & out & me & R & Mt & GS & RR & _ & EV).
      rewrite F in F'. inversion F'; subst key'. rewrite G in G'. inversion G'; subst mp. cbn in R, Mt.
      inversion R; subst red'. inversion Mt; subst method'.
      (* the state read at st1 is the state read at st0 *)
      assert (HA1 : agree_on (bound_addrs B) st0 st1).
      { intros x I. rewrite (A1 x (HD x I)). apply HA. exact I. }
      destruct (get_state_agree B st0 st1 HP HA1) as (fs0 & G0 & G1).
      rewrite GS in G1. inversion G1; subst st1' fs0.
      exists fs, out, me, acc1, (more ++ after)%list. split; [exact G0|]. split; [exact RR|].
      subst evB. rewrite <- !app_assoc. reflexivity.
    - destruct CB as (N & _). rewrite F in F'. inversion F'; subst key'. rewrite G in G'. inversion G'; subst mp. cbn in N.
      destruct N; discriminate.
  Qed.

  (* no raw rejection -> no event tagged REJECT comes out of the dispatcher (the method is not called "global.reject") *)
  Definition raw_reject (e : event) : bool :=
    match ev_tag e with Some t => String.eqb t REJECT | None => false end.
  Lemma no_reject_out (name method : string) (raw : list event) : method <> REJECT ->
    existsb raw_reject raw = false -> existsb raw_reject (tag_events name method raw) = false.
  Proof.
    intros NM H. unfold Dispatch.tag_events. rewrite existsb_app. apply orb_false_iff. split.
    - induction raw as [|e r IH]; cbn; [reflexivity|]. cbn in H. apply orb_false_iff in H. destruct H as [He Hr].
      apply orb_false_iff. split; [|apply IH; exact Hr].
      unfold raw_reject, tag_event in *. cbn. destruct (ev_tag e) as [[|c t]|]; cbn.
      + apply String.eqb_neq. exact NM.
      + exact He.
      + apply String.eqb_neq. exact NM.
    - destruct (forallb (fun e => negb (is_rej_acc Pay e)) raw); reflexivity.
  Qed.

  (* ---- play() *)
  Lemma run_queue_app (rt : paction -> pst -> pst * list pevent) : forall q1 q2 s,
    run_queue rt (q1 ++ q2) s =
    let '(s1, e1, t1) := run_queue rt q1 s in
    let '(s2, e2, t2) := run_queue rt q2 s1 in (s2, (e1 ++ e2)%list, (t1 ++ t2)%list).
  Proof.
    induction q1 as [|a r IH]; intros q2 s; cbn [app Play.run_queue].
    - destruct (run_queue rt q2 s) as [[s2 e2] t2]. reflexivity.
    - destruct (rt a s) as [s1 e1]. rewrite IH.
      destruct (run_queue rt r s1) as [[s1' e1'] t1']. destruct (run_queue rt q2 s1') as [[s2 e2] t2].
      rewrite app_assoc. reflexivity.
  Qed.

  Lemma prouter_success_ev (sys : list inst) fuel (a : paction) (s s' : pst) evs :
    prouter fuel (installed sys) a s = (s', evs) -> p_ok s' = true ->
    exists evs0, dispatch_c fuel (installed sys) (p_cache s) (act_of a) (p_store s, p_trace s) =
                 (p_cache s', Some ((p_store s', p_trace s'), evs0)) /\ evs = map (pev_of Pay) evs0.
  Proof.
    unfold Dispatch.prouter. destruct (p_ok s) eqn:O.
    - destruct (dispatch_c fuel (installed sys) (p_cache s) (act_of a) (p_store s, p_trace s)) as [c' [[[st' tr'] evs0]|]];
        intros H; inversion H; subst; cbn; intros Ok; [|discriminate]. exists evs0. split; reflexivity.
    - intros H; inversion H; subst. congruence.
  Qed.

  Lemma pplay_wf (sys : list inst) fuel (ps : pstore) (a : paction) : wf sys (ent _ _ _ _ _ ps) ->
    wf sys (ent _ _ _ _ _ (fst (fst (pplay fuel (installed sys) ps a)))).
  Proof.
    intros W. unfold Dispatch.pplay, Play.play.
    pose proof (run_queue_wf Ent Pay empty_pay clock0 spent pnone ptime sys fuel
                  (queue Pay string string (option string) (cbs _ _ _ _ _ ps) a) (ent _ _ _ _ _ ps) W) as X.
    destruct (run_queue (prouter fuel (installed sys)) (queue Pay string string (option string) (cbs _ _ _ _ _ ps) a) (ent _ _ _ _ _ ps))
      as [[s1 E1] t1]. exact X.
  Qed.

  Definition emitted_of (cb : list (paction * paction)) : list paction := rev (map fst cb).

  (* C10 at engine level, the true part.  `ps` is the engine's store with its pending callbacks; B is installed,
     `B.use` is mapped to (method, red); all bound addresses of B are present; the route cache is coherent.
     IF (1) no pending emitted callback can write a bound address of B (statically: `touched`), and
        (2) no dispatcher installed before B that includes the signature can write one,
     THEN in play (ps, B.use) B's reducer is called on exactly the state `fs` that get_state -- hence every view of
     B -- sees on the current store, and the play's events contain B's tagged answer to that state. *)
  Theorem play_gives_view_state (pre post : list inst) (B : component) (n : nat) (ps : pstore) (a : paction)
          (key method : string) (red : reducer) :
    let sys := (pre ++ IComp B :: post)%list in
    let st := p_store (ent _ _ _ _ _ ps) in
    wf sys (ent _ _ _ _ _ ps) ->
    find_mapping Ent Pay B (sig_of (act_of a)) = FFound key ->
    dget (c_maps B) key = Some {| m_method := Some method; m_red := Some red |} ->
    (forall x, In x (bound_addrs B) -> present st x) ->
    (forall x, In x (bound_addrs B) ->
       ~ In x (flat_map (fun q => touched (S n) sys (sig_of (act_of q))) (emitted_of (cbs _ _ _ _ _ ps)))) ->
    (forall x, In x (bound_addrs B) -> ~ In x (touched_part n sys pre (sig_of (act_of a)))) ->
    let '(ps1, E, _) := pplay (S n) (installed sys) ps a in
    p_ok (ent _ _ _ _ _ ps1) = true ->
    exists fs out me before after,
      get_state Ent Pay B st = Some (st, fs) /\
      red (a_pay (act_of a)) fs = Some (out, me) /\
      E = (before ++ map (pev_of Pay) (tag_events (c_name B) method (regularize Pay me)) ++ after)%list.
  Proof.
    intros sys st W F G HP HCB HPRE. unfold Dispatch.pplay, Play.play.
    rewrite queue_spec. fold (emitted_of (cbs _ _ _ _ _ ps)).
    set (q1 := emitted_of (cbs _ _ _ _ _ ps)) in *. set (q2 := map snd (cbs _ _ _ _ _ ps)).
    rewrite run_queue_app.
    pose proof (queue_frame Ent Pay empty_pay clock0 spent pnone ptime sys (S n) q1 (ent _ _ _ _ _ ps) W) as QF.
    pose proof (run_queue_wf Ent Pay empty_pay clock0 spent pnone ptime sys (S n) q1 (ent _ _ _ _ _ ps) W) as W1.
    destruct (run_queue (prouter (S n) (installed sys)) q1 (ent _ _ _ _ _ ps)) as [[s1 e1] t1] eqn:RQ1. cbn [fst] in QF, W1.
    cbn [app Play.run_queue].
    destruct (prouter (S n) (installed sys) a s1) as [s2 e2] eqn:PR.
    pose proof (run_queue_ok Ent Pay empty_pay clock0 spent pnone ptime sys (S n) q2 s2) as OK2.
    destruct (run_queue (prouter (S n) (installed sys)) q2 s2) as [[s3 e3] t3]. cbn [fst] in OK2. cbn [ent].
    intros Ok. specialize (OK2 Ok).
    assert (OK1 : p_ok s1 = true).
    { pose proof (prouter_ok Ent Pay empty_pay clock0 spent pnone ptime sys (S n) a s1) as X. rewrite PR in X. apply X. exact OK2. }
    specialize (QF OK1).
    destruct (prouter_success_ev sys (S n) a s1 s2 e2 PR OK2) as (evs0 & D & Ee). subst e2.
    apply (c_to_nc Ent Pay) in D; [|exact W1]. destruct D as [_ D].
    destruct (dispatch_nc (S n) (installed sys) tt (act_of a) (p_store s1, p_trace s1)) as [[] r] eqn:DN. cbn in D. subst r.
    assert (HA : agree_on (bound_addrs B) st (p_store s1)).
    { intros x I. apply QF. apply HCB. exact I. }
    destruct (dispatch_gives_view_state pre post B n (act_of a) key method red st (p_store s1) (p_trace s1) tt _ _ F G HP HA HPRE DN)
      as (fs & out & me & before & after & GS & RR & EV).
    exists fs, out, me, (e1 ++ map (pev_of Pay) before)%list, (map (pev_of Pay) after ++ e3)%list.
    split; [exact GS|]. split; [exact RR|].
    subst evs0. rewrite !map_app. rewrite <- !app_assoc. reflexivity.
  Qed.

  (* the component-level law (what C10_valid_accepts proves of every modelled class): valid -> the use, on the SAME
     state, is not rejected *)
  Definition valid_accepts (vf : fields Ent -> bool) (red : reducer) : Prop :=
    forall p fs, vf fs = true -> forall out me, red p fs = Some (out, me) -> existsb raw_reject (regularize Pay me) = false.

  Theorem valid_use_accepted_when_nothing_interferes (pre post : list inst) (B : component) (n : nat) (ps : pstore) (a : paction)
          (key method : string) (red : reducer) (vf : fields Ent -> bool) :
    let sys := (pre ++ IComp B :: post)%list in
    let st := p_store (ent _ _ _ _ _ ps) in
    wf sys (ent _ _ _ _ _ ps) ->
    find_mapping Ent Pay B (sig_of (act_of a)) = FFound key ->
    dget (c_maps B) key = Some {| m_method := Some method; m_red := Some red |} -> method <> REJECT ->
    (forall x, In x (bound_addrs B) -> present st x) ->
    (forall x, In x (bound_addrs B) ->
       ~ In x (flat_map (fun q => touched (S n) sys (sig_of (act_of q))) (emitted_of (cbs _ _ _ _ _ ps)))) ->
    (forall x, In x (bound_addrs B) -> ~ In x (touched_part n sys pre (sig_of (act_of a)))) ->
    valid_accepts vf red ->
    view_call Ent Pay bool B vf st = Some (st, true) ->
    let '(ps1, E, _) := pplay (S n) (installed sys) ps a in
    p_ok (ent _ _ _ _ _ ps1) = true ->
    exists own before after,
      E = (before ++ map (pev_of Pay) own ++ after)%list /\
      (exists fs out me, get_state Ent Pay B st = Some (st, fs) /\ red (a_pay (act_of a)) fs = Some (out, me) /\
                         own = tag_events (c_name B) method (regularize Pay me)) /\
      existsb raw_reject own = false.
  Proof.
    intros sys st W F G NM HP HCB HPRE LAW V.
    pose proof (play_gives_view_state pre post B n ps a key method red W F G HP HCB HPRE) as P.
    fold sys in P. destruct (pplay (S n) (installed sys) ps a) as [[ps1 E] q]. intros Ok. specialize (P Ok).
    destruct P as (fs & out & me & before & after & GS & RR & EE).
    exists (tag_events (c_name B) method (regularize Pay me)), before, after. split; [exact EE|]. split.
    - exists fs, out, me. auto.
    - apply no_reject_out; [exact NM|]. eapply LAW; [|exact RR].
      unfold DispatchViews.view_call in V. fold st in GS. rewrite GS in V. inversion V. reflexivity.
  Qed.

  (* special case of the finding's criterion: with NO pending callbacks hypothesis (1) is void *)
  Corollary valid_use_accepted_without_pending (pre post : list inst) (B : component) (n : nat) (ps : pstore) (a : paction)
          (key method : string) (red : reducer) (vf : fields Ent -> bool) :
    let sys := (pre ++ IComp B :: post)%list in
    let st := p_store (ent _ _ _ _ _ ps) in
    cbs _ _ _ _ _ ps = [] ->
    wf sys (ent _ _ _ _ _ ps) ->
    find_mapping Ent Pay B (sig_of (act_of a)) = FFound key ->
    dget (c_maps B) key = Some {| m_method := Some method; m_red := Some red |} -> method <> REJECT ->
    (forall x, In x (bound_addrs B) -> present st x) ->
    (forall x, In x (bound_addrs B) -> ~ In x (touched_part n sys pre (sig_of (act_of a)))) ->
    valid_accepts vf red ->
    view_call Ent Pay bool B vf st = Some (st, true) ->
    let '(ps1, E, _) := pplay (S n) (installed sys) ps a in
    p_ok (ent _ _ _ _ _ ps1) = true ->
    exists own before after,
      E = (before ++ map (pev_of Pay) own ++ after)%list /\
      (exists fs out me, get_state Ent Pay B st = Some (st, fs) /\ red (a_pay (act_of a)) fs = Some (out, me) /\
                         own = tag_events (c_name B) method (regularize Pay me)) /\
      existsb raw_reject own = false.
  Proof.
    intros sys st HC W F G NM HP HPRE LAW V.
    apply (valid_use_accepted_when_nothing_interferes pre post B n ps a key method red vf W F G NM HP); auto.
    intros x _. rewrite HC. cbn. intros [].
  Qed.

  (* what is pending after ANY play (in particular after the `*.elapse` of payload 0 that `ELAPSE 0` plays) are the
     callbacks of that play's own events only: everything that was pending before has been relayed *)
  Theorem pending_after_play (ds : list (Dispatch.disp Ent Pay)) fuel (ps : pstore) (a : paction) :
    let '(ps1, E1, q) := pplay fuel ds ps a in
    cbs _ _ _ _ _ ps1 = map (callbacks Pay string string (option string)) E1 /\
    emitted_of (cbs _ _ _ _ _ ps1) = rev (map (emitted Pay string string (option string)) E1) /\
    q = (emitted_of (cbs _ _ _ _ _ ps) ++ [a] ++ map snd (cbs _ _ _ _ _ ps))%list.
  Proof.
    unfold Dispatch.pplay, Play.play.
    pose proof (run_queue_trace pst Pay string string (option string) (prouter fuel ds)
                  (queue Pay string string (option string) (cbs _ _ _ _ _ ps) a) (ent _ _ _ _ _ ps)) as TQ.
    destruct (run_queue (prouter fuel ds) (queue Pay string string (option string) (cbs _ _ _ _ _ ps) a) (ent _ _ _ _ _ ps))
      as [[s1 E1] t1]. cbn [snd] in TQ. cbn [cbs]. split; [reflexivity|]. split.
    - unfold emitted_of. rewrite map_map. reflexivity.
    - subst t1. apply queue_spec.
  Qed.
End ValidUse.
