(* C07 at the level of the INSTALLED dispatcher (component + addons) and of the ROUTER.
   F2 (repaired): TandemDispatcher returns a rejected base answer as it is -- the addons do not run.
   F1 (recorded, C07-raw-action-listeners): a `listening_actions` key that is matched by the RAW signature
   "<owner>.<method>" of another component makes the router hand the player's action to that listener too;
   "using a skill that is not ready is a no-op" then fails at router level although every dispatcher behaves.
   True part: without raw-action listeners the router answers a rejected player action with exactly the one
   tagged reject and leaves the store extensionally unchanged. *)
From Coq Require Import List Bool Arith String Ascii ZArith Lia.
From V.Model Require Import Router Play Dispatch DispatchViews DispatchReviewed.
From V.Proofs Require Import RouterCache DispatchStore DispatchRouter DispatchPlay DispatchViews DispatchValidUse.
Import ListNotations.
Local Open Scope string_scope.

Section Noop.
  Variables Ent Pay : Type.
  Variable empty_pay : Pay.
  Variable clock0 : Ent.
  Variable spent : Ent -> Pay -> option Ent.

  Notation component := (Dispatch.component Ent Pay).
  Notation store := (Dispatch.store Ent).
  Notation inst := (Dispatch.inst Ent Pay).
  Notation rst := (Dispatch.rst Ent Pay).
  Notation action := (Dispatch.action Pay).
  Notation event := (Dispatch.event Pay).
  Notation reducer := (Dispatch.reducer Ent Pay).
  Notation bound_addrs := (Dispatch.bound_addrs Ent Pay).
  Notation includes_b := (Dispatch.includes_b Ent Pay).
  Notation present := (DispatchStore.present Ent).
  Notation ext_eq := (DispatchStore.ext_eq Ent).
  Notation call_comp := (Dispatch.call_comp Ent Pay empty_pay).
  Notation comp_disp := (Dispatch.comp_disp Ent Pay empty_pay).
  Notation timer_disp := (Dispatch.timer_disp Ent Pay clock0 spent).
  Notation disp_of := (Dispatch.disp_of Ent Pay empty_pay clock0 spent).
  Notation installed := (Dispatch.installed Ent Pay empty_pay clock0 spent).
  Notation dispatch_c := (Dispatch.dispatch_c Ent Pay).
  Notation dispatch_nc := (Dispatch.dispatch_nc Ent Pay).
  Notation run_scan := (Router.run_scan string action rst event String.eqb sig_of ev_is_reject).
  Notation call_d := (Router.call_d string action rst event String.eqb sig_of ev_is_reject).
  Notation Coh := (Router.Coh string action rst event String.eqb).
  Notation result := (Router.result rst event).
  Notation own_sigs := (DispatchReviewed.own_sigs Ent Pay).
  Notation raw_action_listeners := (DispatchReviewed.raw_action_listeners Ent Pay).
  Notation no_raw_listeners := (DispatchReviewed.no_raw_listeners Ent Pay).

  (* ---------------------------------------------------------------- F2: the installed dispatcher *)
  (* if the component's own answer contains a reject, the installed dispatcher (component + addons) returns
     exactly that answer and the store the component left -- relative to ANY router, i.e. at any nesting depth *)
  Theorem rejected_base_skips_addons (X : Type) (rt : X -> action -> rst -> X * result)
          (c : component) (x : X) (a : action) (s s1 : rst) (ev1 : list event) :
    call_comp c a s = Some (s1, ev1) -> existsb ev_is_reject ev1 = true ->
    call_d X rt (comp_disp c) x a s = (x, Some (s1, ev1)).
  Proof.
    intros H R. unfold Dispatch.comp_disp. cbn [Router.call_d]. rewrite H, R. reflexivity.
  Qed.

  (* with C07_store_unchanged: a component whose reducer answers (input state, [reject]) -- the installed
     dispatcher answers with that one tagged reject, no ACCEPT, no addon event, store extensionally unchanged *)
  Theorem rejected_installed_dispatcher_noop (X : Type) (rt : X -> action -> rst -> X * result)
          (c : component) (x : X) (a : action) st tr key red method st1 fs me e :
    find_mapping Ent Pay c (sig_of a) = FFound key -> key <> "" ->
    dget (c_maps c) key = Some {| m_method := Some method; m_red := Some red |} ->
    (forall y, In y (bound_addrs c) -> present st y) ->
    get_state Ent Pay c st = Some (st1, fs) ->
    red (a_pay a) fs = Some (fs, me) -> regularize Pay me = [e] -> ev_tag e = Some REJECT ->
    exists st',
      call_d X rt (comp_disp c) x a (st, tr) =
        (x, Some ((st', (tr ++ [{| i_comp := c_name c; i_key := key; i_method := method; i_pay := a_pay a; i_addon := a_addon a |}])%list),
                  [{| ev_name := ev_name e; ev_pay := ev_pay e; ev_method := method; ev_tag := Some REJECT; ev_handler := ev_handler e |}])) /\
      ext_eq st st'.
  Proof.
    intros F NE G HP GS R RG TG.
    destruct (store_unchanged_on_reject Ent Pay empty_pay c a st tr key red method st1 fs me e F NE G HP GS R RG TG) as (st' & C & E).
    exists st'. split; [|exact E]. apply rejected_base_skips_addons; [exact C|reflexivity].
  Qed.

  (* ---------------------------------------------------------------- F1: the router *)
  Lemma scan_skip (X : Type) (rt : X -> action -> rst -> X * result) (sg : string) (a : action) :
    forall ds, Forall (fun d => Router.includes string action rst event String.eqb d sg = false) ds ->
    forall i x st acc hit, run_scan X rt ds i sg x a st acc hit = (x, Some (st, acc, hit)).
  Proof.
    induction 1 as [|d r Hd Hr IH]; intros i x st acc hit; cbn [Router.run_scan]; [reflexivity|].
    rewrite Hd. apply IH.
  Qed.

  Lemma find_exact_key (c : component) (key : string) (mp : mapping Ent Pay) :
    dget (c_maps c) key = Some mp -> find_mapping Ent Pay c key = FFound key.
  Proof.
    intros G. unfold find_mapping, find_mapping_keys.
    replace (existsb (String.eqb key) (map fst (c_maps c))) with true; [reflexivity|].
    symmetry. apply existsb_exists. exists key. split; [|apply String.eqb_refl].
    apply dget_in in G. apply (in_map fst) in G. exact G.
  Qed.

  Lemma own_sig_in (c : component) (key method : string) (red : option reducer) :
    dget (c_maps c) key = Some {| m_method := Some method; m_red := red |} -> key = c_name c ++ "." ++ method ->
    In key (own_sigs c).
  Proof.
    intros G E. subst key. apply dget_in in G. unfold DispatchReviewed.own_sigs. apply in_flat_map.
    eexists. split; [exact G|]. cbn [fst snd m_method]. rewrite String.eqb_refl. left. reflexivity.
  Qed.

  Lemma no_raw_not_included (cs : list component) (o l : component) (s : string) :
    raw_action_listeners cs = [] -> In o cs -> In s (own_sigs o) -> In l cs -> c_name l <> c_name o ->
    includes_b l s = false.
  Proof.
    intros NR Io Is Il Nn. unfold Dispatch.includes_b.
    destruct (find_mapping Ent Pay l s) as [k| |] eqn:F; [|reflexivity|reflexivity].
    exfalso. assert (X : In (c_name l, k, c_name o) (raw_action_listeners cs)).
    { unfold DispatchReviewed.raw_action_listeners. apply in_flat_map. exists o. split; [exact Io|].
      apply in_flat_map. exists s. split; [exact Is|]. apply in_flat_map. exists l. split; [exact Il|].
      destruct (String.eqb_spec (c_name l) (c_name o)) as [E|_]; [contradiction|]. rewrite F. left. reflexivity. }
    rewrite NR in X. exact X.
  Qed.

  Lemma distinct_nodup (l : list string) : distinctb l = true -> NoDup l.
  Proof.
    induction l as [|x r IH]; cbn; [constructor|]. intros H. apply andb_true_iff in H. destruct H as [H1 H2].
    constructor; [|auto]. intros I. apply negb_true_iff in H1.
    assert (X : existsb (String.eqb x) r = true) by (apply existsb_exists; exists x; split; [exact I|apply String.eqb_refl]).
    congruence.
  Qed.

  (* C07 at ROUTER level, the true part: a system without raw-action listeners, distinct names, coherent route cache;
     the player's action (X, m, payload) goes to X's own default key; X's reducer answers (input state, [reject])
     and all bound addresses of X are present.  Then the router (components, then the timer) answers with exactly
     that one tagged reject, the store is extensionally unchanged, and the only reducer invoked is X's. *)
  Theorem router_rejected_is_noop (cs : list component) (c : component) (n : nat) (cache : Router.cache string)
          (a : action) st tr key method red st1 fs me e :
    names_distinct Ent Pay cs = true -> no_raw_listeners cs = true -> In c cs ->
    Coh (installed (shipped_system Ent Pay cs)) cache ->
    sig_of a = key -> key = c_name c ++ "." ++ method -> key <> "*.elapse" ->
    dget (c_maps c) key = Some {| m_method := Some method; m_red := Some red |} ->
    (forall y, In y (bound_addrs c) -> present st y) ->
    get_state Ent Pay c st = Some (st1, fs) ->
    red (a_pay a) fs = Some (fs, me) -> regularize Pay me = [e] -> ev_tag e = Some REJECT ->
    exists st' cache',
      dispatch_c (S n) (installed (shipped_system Ent Pay cs)) cache a (st, tr) =
        (cache', Some ((st', (tr ++ [{| i_comp := c_name c; i_key := key; i_method := method; i_pay := a_pay a; i_addon := a_addon a |}])%list),
                       [{| ev_name := ev_name e; ev_pay := ev_pay e; ev_method := method; ev_tag := Some REJECT; ev_handler := ev_handler e |}])) /\
      ext_eq st st' /\ Coh (installed (shipped_system Ent Pay cs)) cache'.
  Proof.
    intros ND NR Ic HC Sa Ek NT G HP GS R RG TG.
    assert (NR' : raw_action_listeners cs = []).
    { unfold DispatchReviewed.no_raw_listeners in NR. destruct (raw_action_listeners cs); [reflexivity|discriminate]. }
    assert (NE : key <> "").
    { rewrite Ek. destruct (c_name c); cbn; discriminate. }
    assert (F : find_mapping Ent Pay c (sig_of a) = FFound key) by (rewrite Sa; eapply find_exact_key; exact G).
    assert (OS : In key (own_sigs c)) by (eapply own_sig_in; eauto).
    apply in_split in Ic. destruct Ic as (l1 & l2 & Ecs).
    assert (NN : forall l, In l (l1 ++ l2) -> c_name l <> c_name c).
    { unfold names_distinct in ND. apply distinct_nodup in ND. rewrite Ecs, map_app in ND. cbn [map] in ND.
      apply NoDup_remove_2 in ND. intros l Il E. apply ND. rewrite <- E.
      apply in_app_or in Il. apply in_or_app. destruct Il as [I|I]; [left|right]; apply in_map; exact I. }
    assert (SK : forall l, In l (l1 ++ l2) -> Router.includes string action rst event String.eqb (comp_disp l) key = false).
    { intros l Il. cbn. apply (no_raw_not_included cs c l key NR'); [rewrite Ecs; apply in_or_app; right; left; reflexivity|exact OS| |apply NN; exact Il].
      rewrite Ecs. apply in_app_or in Il. apply in_or_app. destruct Il as [I|I]; [left; exact I|right; right; exact I]. }
    destruct (rejected_installed_dispatcher_noop unit (dispatch_nc n (installed (shipped_system Ent Pay cs))) c tt a st tr key red method st1 fs me e
                F NE G HP GS R RG TG) as (st' & CD & EE).
    (* the scan: everything before c is skipped, c answers, everything after (components, timer) is skipped *)
    assert (NC : dispatch_nc (S n) (installed (shipped_system Ent Pay cs)) tt a (st, tr) =
                 (tt, Some ((st', (tr ++ [{| i_comp := c_name c; i_key := key; i_method := method; i_pay := a_pay a; i_addon := a_addon a |}])%list),
                            [{| ev_name := ev_name e; ev_pay := ev_pay e; ev_method := method; ev_tag := Some REJECT; ev_handler := ev_handler e |}]))).
    { unfold Dispatch.dispatch_nc. cbn [Router.dispatch_nc]. fold (dispatch_nc n (installed (shipped_system Ent Pay cs))).
      set (rt := dispatch_nc n (installed (shipped_system Ent Pay cs))) in *.
      unfold Dispatch.installed, shipped_system. rewrite Ecs. rewrite !map_app. cbn [map]. rewrite <- app_assoc. cbn [app].
      rewrite Sa. rewrite run_scan_app. rewrite scan_skip.
      2:{ apply Forall_forall. intros d Id. apply in_map_iff in Id. destruct Id as (i & Ei & Ii). subst d.
          apply in_map_iff in Ii. destruct Ii as (l & El & Il). subst i. cbn [Dispatch.disp_of]. apply SK. apply in_or_app. left. exact Il. }
      cbn [Router.run_scan Dispatch.disp_of].
      replace (Router.includes string action rst event String.eqb (comp_disp c) key) with true.
      2:{ cbn. unfold Dispatch.includes_b. rewrite <- Sa, F. reflexivity. }
      rewrite CD. rewrite scan_skip; [reflexivity|].
      apply Forall_app. split.
      - apply Forall_forall. intros d Id. apply in_map_iff in Id. destruct Id as (i & Ei & Ii). subst d.
        apply in_map_iff in Ii. destruct Ii as (l & El & Il). subst i. cbn [Dispatch.disp_of]. apply SK. apply in_or_app. right. exact Il.
      - constructor; [|constructor]. cbn. unfold timer_includes. apply String.eqb_neq. exact NT. }
    destruct (dispatch_c (S n) (installed (shipped_system Ent Pay cs)) cache a (st, tr)) as [c' r] eqn:DC.
    apply (c_to_nc Ent Pay) in DC; [|exact HC]. destruct DC as [C1 E1]. rewrite NC in E1. cbn in E1. subst r.
    exists st', c'. repeat split; assumption.
  Qed.
End Noop.
