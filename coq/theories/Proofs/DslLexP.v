(* C14 -- character level: strings, words, numbers re-lex to themselves; header separator. *)
From Coq Require Import List NArith Bool Lia.
Import ListNotations.
From V.Model Require Import DslLex.
Open Scope N_scope.

(* ------------------------------------------------------------------ ESCAPED_STRING *)
Lemma scan_print esc n rest : name_ok_from esc n = true -> scan_str esc (n ++ c_quote :: rest) = Some (n, rest).
Proof.
  revert esc. induction n as [|c n IH]; intros esc H; cbn [app scan_str name_ok_from] in *.
  - destruct esc; [discriminate|]. reflexivity.
  - destruct (c =? c_lf); [discriminate|]. destruct (c =? c_quote).
    + apply andb_true_iff in H as [-> H]. now rewrite (IH _ H).
    + destruct (c =? c_bslash); now rewrite (IH _ H).
Qed.

Lemma scan_sound esc t n rest : scan_str esc t = Some (n, rest) -> name_ok_from esc n = true /\ t = n ++ c_quote :: rest.
Proof.
  revert esc n. induction t as [|c t IH]; intros esc n H; cbn [scan_str] in H; [discriminate|].
  destruct (c =? c_lf) eqn:E1; [discriminate|]. destruct (c =? c_quote) eqn:E2.
  - destruct esc.
    + destruct (scan_str false t) as [[b r]|] eqn:S; [|discriminate]. cbn in H. inversion H; subst.
      destruct (IH _ _ S) as [Hok ->]. cbn [name_ok_from app]. rewrite E1, E2, Hok. auto.
    + inversion H; subst. apply N.eqb_eq in E2. subst c. auto.
  - destruct (c =? c_bslash) eqn:E3.
    + destruct (scan_str (negb esc) t) as [[b r]|] eqn:S; [|discriminate]. cbn in H. inversion H; subst.
      destruct (IH _ _ S) as [Hok ->]. cbn [name_ok_from app]. rewrite E1, E2, E3, Hok. auto.
    + destruct (scan_str false t) as [[b r]|] eqn:S; [|discriminate]. cbn in H. inversion H; subst.
      destruct (IH _ _ S) as [Hok ->]. cbn [name_ok_from app]. rewrite E1, E2, E3, Hok. auto.
Qed.

(* a well-formed name, printed in quotes, is read back as exactly that name *)
Theorem string_print_lex n rest : name_ok n = true -> lex_string (print_string n ++ rest) = Some (n, rest).
Proof.
  intros H. unfold print_string, lex_string. cbn [app]. rewrite N.eqb_refl. rewrite <- app_assoc. cbn [app].
  apply scan_print. exact H.
Qed.
(* every name the lexer produces is well formed: so every skill name / console text the parser
   hands out prints to a text that is read back as itself *)
Theorem string_lex_closed t n rest : lex_string t = Some (n, rest) -> name_ok n = true /\ t = print_string n ++ rest.
Proof.
  unfold lex_string. destruct t as [|c t]; [discriminate|]. destruct (c =? c_quote) eqn:E; [|discriminate].
  intros H. destruct (scan_sound _ _ _ _ H) as [Hok ->]. apply N.eqb_eq in E. subst c. split; [exact Hok|].
  unfold print_string. cbn [app]. rewrite <- app_assoc. reflexivity.
Qed.
Corollary string_roundtrip t n rest rest' :
  lex_string t = Some (n, rest) -> lex_string (print_string n ++ rest') = Some (n, rest').
Proof. intros H. apply string_print_lex. exact (proj1 (string_lex_closed _ _ _ H)). Qed.

(* names that do not print: an unescaped quote, a trailing backslash, a line break *)
Example name_bad_quote : name_ok [97; 34; 98] = false.   Proof. reflexivity. Qed.
Example name_bad_bslash : name_ok [97; 92] = false.       Proof. reflexivity. Qed.
Example name_bad_newline : name_ok [97; 10; 98] = false.  Proof. reflexivity. Qed.
Example name_escaped_quote : name_ok [97; 92; 34; 98] = true.  Proof. reflexivity. Qed.
Example name_hash_unicode : lex_string ([34; 54540; 32; 35; 98; 34] ++ [32; 35]) = Some ([54540; 32; 35; 98], [32; 35]).
Proof. reflexivity. Qed.

(* ------------------------------------------------------------------ spans of characters *)
Definition headless (p : N -> bool) (r : chars) : Prop := match r with c :: _ => p c = false | [] => True end.
Lemma spanc_app p a r : forallb p a = true -> headless p r -> spanc p (a ++ r) = (a, r).
Proof.
  induction a as [|c a IH]; intros Ha Hr.
  - destruct r as [|y r]; [reflexivity|]. cbn in *. now rewrite Hr.
  - cbn in Ha. apply andb_true_iff in Ha as [Hc Ha]. cbn. now rewrite Hc, (IH Ha Hr).
Qed.
Lemma spanc_sound p s a r : spanc p s = (a, r) -> forallb p a = true /\ s = a ++ r /\ headless p r.
Proof.
  revert a r. induction s as [|c s IH]; intros a r H; cbn in H.
  - inversion H; subst. repeat split.
  - destruct (p c) eqn:E.
    + destruct (spanc p s) as [a' r'] eqn:S. inversion H; subst. destruct (IH _ _ eq_refl) as (Ha & -> & Hr).
      cbn. rewrite E, Ha. auto.
    + inversion H; subst. cbn. auto.
Qed.

(* ------------------------------------------------------------------ WORD *)
Theorem word_print_lex w rest : w <> [] -> forallb is_letter w = true -> headless is_letter rest -> lex_word (w ++ rest) = Some (w, rest).
Proof. intros Hne Hw Hr. unfold lex_word. rewrite (spanc_app _ _ _ Hw Hr). destruct w; [congruence|reflexivity]. Qed.
Theorem word_lex_closed t w rest : lex_word t = Some (w, rest) -> w <> [] /\ forallb is_letter w = true /\ t = w ++ rest /\ headless is_letter rest.
Proof.
  unfold lex_word. destruct (spanc is_letter t) as [a r] eqn:S. destruct a as [|c a]; [discriminate|].
  intros H. inversion H; subst. destruct (spanc_sound _ _ _ _ S) as (Ha & E & Hr). repeat split; auto. discriminate.
Qed.

(* ------------------------------------------------------------------ SIGNED_NUMBER *)
Lemma stops_digit rest : stops rest -> headless is_digit rest.
Proof. destruct rest; [auto|]. intros (H & _). exact H. Qed.
Lemma lex_exp_stops rest : stops rest -> lex_exp rest = None.
Proof. destruct rest as [|c r]; [reflexivity|]. intros (_ & _ & H). cbn. now rewrite H. Qed.

Lemma lex_exp_print c eneg ed rest :
  is_e c = true -> ed <> [] -> all_digits ed = true -> stops rest ->
  lex_exp (c :: (if eneg : bool then c_minus else c_plus) :: ed ++ rest) = Some (c :: (if eneg then c_minus else c_plus) :: ed, rest).
Proof.
  intros Hc Hne Hd Hs. unfold lex_exp. rewrite Hc.
  assert (is_sign (if eneg then c_minus else c_plus) = true) as -> by (destruct eneg; reflexivity).
  unfold digits. rewrite (spanc_app _ _ _ Hd (stops_digit _ Hs)). destruct ed; [congruence|reflexivity].
Qed.

Lemma digit_not_sign c : is_digit c = true -> is_sign c = false.
Proof.
  unfold is_digit, is_sign, c_plus, c_minus. intros H. apply andb_true_iff in H as [H1 H2].
  apply N.leb_le in H1, H2. destruct (c =? 43) eqn:E1; [apply N.eqb_eq in E1; lia|].
  destruct (c =? 45) eqn:E2; [apply N.eqb_eq in E2; lia|]. reflexivity.
Qed.
Lemma digit_not_dot c : is_digit c = true -> (c =? c_dot) = false.
Proof.
  unfold is_digit, c_dot. intros H. apply andb_true_iff in H as [H1 H2]. apply N.leb_le in H1, H2.
  destruct (c =? 46) eqn:E; [apply N.eqb_eq in E; lia|reflexivity].
Qed.

(* repr of a float in positional notation: [-]D+.D+ *)
Theorem num_fixed_lex neg ip fp rest :
  ip <> [] -> all_digits ip = true -> fp <> [] -> all_digits fp = true -> stops rest ->
  lex_num (repr_fixed neg ip fp ++ rest) = Some (repr_fixed neg ip fp, rest).
Proof.
  intros Hi Di Hf Df Hs.
  assert (U : lex_unsigned (ip ++ c_dot :: fp ++ rest) = Some (ip ++ c_dot :: fp, rest)).
  { unfold lex_unsigned, digits.
    rewrite (spanc_app is_digit ip (c_dot :: fp ++ rest) Di eq_refl).
    destruct ip as [|i0 ip']; [congruence|]. cbn [N.eqb]. rewrite N.eqb_refl.
    rewrite (spanc_app is_digit fp rest Df (stops_digit _ Hs)). unfold opt_exp. now rewrite (lex_exp_stops _ Hs). }
  unfold repr_fixed. destruct neg.
  - cbn [app lex_num]. change (is_sign c_minus) with true. cbv iota. rewrite <- app_assoc. cbn [app]. now rewrite U.
  - cbn [app]. rewrite <- app_assoc. cbn [app]. destruct ip as [|i0 ip']; [congruence|].
    cbn [app lex_num]. cbn [all_digits forallb] in Di. apply andb_true_iff in Di as [D0 Di'].
    rewrite (digit_not_sign _ D0). exact U.
Qed.

(* repr of a float in scientific notation: [-]D[.D+]e[+-]D+ *)
Definition frac (fp : chars) : chars := match fp with [] => [] | _ => c_dot :: fp end.
Lemma sci_unsigned d fp ex rest :
  is_digit d = true -> all_digits fp = true -> headless is_digit (ex ++ rest) ->
  (match ex ++ rest with c :: _ => (c =? c_dot) = false | [] => True end) ->
  lex_exp (ex ++ rest) = Some (ex, rest) ->
  lex_unsigned (d :: frac fp ++ ex ++ rest) = Some (d :: frac fp ++ ex, rest).
Proof.
  intros Dd Df Hh Hdot X. unfold lex_unsigned, digits. destruct fp as [|f0 fp']; cbn [frac app].
  - change (d :: ex ++ rest) with ([d] ++ ex ++ rest).
    rewrite (spanc_app is_digit [d] (ex ++ rest)); [|cbn; now rewrite Dd|exact Hh].
    destruct (ex ++ rest) as [|c r] eqn:E; [discriminate|]. rewrite Hdot, X. reflexivity.
  - change (d :: c_dot :: f0 :: fp' ++ ex ++ rest) with ([d] ++ c_dot :: (f0 :: fp') ++ ex ++ rest).
    rewrite (spanc_app is_digit [d] (c_dot :: (f0 :: fp') ++ ex ++ rest)); [|cbn; now rewrite Dd|reflexivity].
    rewrite N.eqb_refl. rewrite (spanc_app is_digit (f0 :: fp') (ex ++ rest) Df Hh).
    unfold opt_exp. rewrite X. reflexivity.
Qed.

Theorem num_sci_lex neg d fp eneg ed rest :
  is_digit d = true -> all_digits fp = true -> ed <> [] -> all_digits ed = true -> stops rest ->
  lex_num (repr_sci neg d fp eneg ed ++ rest) = Some (repr_sci neg d fp eneg ed, rest).
Proof.
  intros Dd Df He De Hs.
  pose (ex := 101 :: (if eneg then c_minus else c_plus) :: ed).
  assert (X : lex_exp (ex ++ rest) = Some (ex, rest)) by (apply lex_exp_print; auto).
  pose proof (sci_unsigned d fp ex rest Dd Df eq_refl eq_refl X) as U.
  assert (E : repr_sci neg d fp eneg ed = (if neg then [c_minus] else []) ++ d :: frac fp ++ ex) by reflexivity.
  rewrite E. destruct neg.
  - cbn [app lex_num]. change (is_sign c_minus) with true. cbv iota.
    rewrite <- app_assoc. now rewrite U.
  - cbn [app lex_num]. rewrite (digit_not_sign _ Dd). rewrite <- app_assoc. exact U.
Qed.

(* what a non-finite time prints as is not a number *)
Example inf_not_number : lex_num [105; 110; 102] = None.        Proof. reflexivity. Qed.
Example minf_not_number : lex_num [45; 105; 110; 102] = None.   Proof. reflexivity. Qed.
Example nan_not_number : lex_num [110; 97; 110] = None.         Proof. reflexivity. Qed.
Example huge_is_number : lex_num [49; 101; 52; 48; 48] = Some ([49; 101; 52; 48; 48], []).   (* "1e400" *)
Proof. reflexivity. Qed.
Example repr_example : lex_num (repr_sci true 49 [53] true [48; 55] ++ [10]) = Some ([45; 49; 46; 53; 101; 45; 48; 55], [10]).  (* -1.5e-07 *)
Proof. reflexivity. Qed.

(* ------------------------------------------------------------------ header separator *)
Lemma split_first_app hs s bs :
  forallb (fun l => negb (is_sep_line l)) hs = true -> is_sep_line s = true ->
  split_first (hs ++ s :: bs) = Some (hs, s, bs).
Proof.
  induction hs as [|l hs IH]; intros Hh Hs; cbn [app split_first].
  - now rewrite Hs.
  - cbn in Hh. apply andb_true_iff in Hh as [Hl Hh]. apply negb_true_iff in Hl. now rewrite Hl, IH.
Qed.
Lemma split_last_none bs : forallb (fun l => negb (is_sep_line l)) bs = true -> split_last bs = None.
Proof.
  induction bs as [|l bs IH]; [reflexivity|]. cbn. intros H. apply andb_true_iff in H as [Hl H].
  apply negb_true_iff in Hl. now rewrite (IH H), Hl.
Qed.
Lemma split_last_app hs s bs :
  forallb (fun l => negb (is_sep_line l)) bs = true -> is_sep_line s = true ->
  split_last (hs ++ s :: bs) = Some (hs, s, bs).
Proof.
  intros Hb Hs. induction hs as [|l hs IH]; cbn [app split_last].
  - now rewrite (split_last_none _ Hb), Hs.
  - now rewrite IH.
Qed.
(* the header the API renders (no line of the metadata and no line of the body starts with
   '---') is found at the same place by Lark's greedy regex and by the API's split *)
Theorem header_split_lines first hs s bs :
  forallb (fun l => negb (is_sep_line l)) hs = true -> forallb (fun l => negb (is_sep_line l)) bs = true ->
  is_sep_line s = true ->
  lark_header first (hs ++ s :: bs) = Some (hs, s, bs) /\ api_header first (hs ++ s :: bs) = Some (hs, s, bs).
Proof. intros. split; [apply split_last_app|apply split_first_app]; assumption. Qed.
(* and they differ as soon as the metadata itself contains such a line *)
Example header_split_differs :
  lark_header [] [[97]; [45;45;45]; [98]; [45;45;45]; [99]] <> api_header [] [[97]; [45;45;45]; [98]; [45;45;45]; [99]].
Proof. discriminate. Qed.
