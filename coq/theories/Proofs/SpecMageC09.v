(* C09 for the extension `mage`, summary: one chunk theorem for every class that has an elapse
   reducer, the views, and the invariants (well-formedness, capped-schedule invariant) that make
   the theorem applicable in every reachable state. *)
From Coq Require Import ZArith List Bool Lia.
From V.Model Require Import Comp SpecMage.
From V.Proofs Require Import CompChunk CompChunkHL SpecMageReject SpecMageChunk SpecMageLoop SpecMageField.
From V.Proofs Require EPeriodicP.
Import ListNotations.
Open Scope Z_scope.

Arguments P.elapse : simpl never.
Arguments ticks : simpl never.
Arguments P.enabled : simpl never.

Definition xhas_elapse (c : xcomp) : bool :=
  match c with FlameSwipVI | FerventDrain | FrostEffect => false | _ => true end.

Theorem xelapse_chunk c p a b s s1 e1 s2 e2 s3 e3 :
  xhas_elapse c = true -> xwf s -> xinv c p s -> 0 <= a -> 0 <= b ->
  xreduce_spec c XElapse p a s = Some (s1, e1) -> xreduce_spec c XElapse p b s1 = Some (s2, e2) ->
  xreduce_spec c XElapse p (a + b) s = Some (s3, e3) ->
  xnorm s2 = xnorm s3 /\ xdealts (e1 ++ e2) = xdealts e3.
Proof.
  intros E W I Ha Hb H1 H2 H3.
  destruct (xlinear c) eqn:L.
  { destruct (xchunk_linear c p a b s s1 e1 s2 e2 s3 e3 L Ha Hb H1 H2 H3) as [-> ->]. split; reflexivity. }
  destruct (xperiodic c) eqn:Pc.
  { apply (xchunk_periodic c p a b s s1 e1 s2 e2 s3 e3 Pc W Ha Hb H1 H2 H3). }
  destruct (xcapped c) eqn:Cc.
  { apply (xchunk_capped c p a b s s1 e1 s2 e2 s3 e3 Cc W I Ha Hb H1 H2 H3). }
  destruct c; try discriminate.
  destruct (xchunk_field p a b s s1 e1 s2 e2 s3 e3 W Ha Hb H1 H2 H3) as [-> ->]. split; reflexivity.
Qed.

(* the views only read the observation *)
Lemma xviews_xnorm c p s :
  xview_validity c p (xnorm s) = xview_validity c p s /\ xview_running c p (xnorm s) = xview_running c p s /\
  xview_buff c p (xnorm s) = xview_buff c p s.
Proof.
  assert (T : P.tl (dnorm (u_p1 (x_u s))) = P.tl (u_p1 (x_u s))) by (unfold dnorm; destruct (0 <? P.tl (u_p1 (x_u s))); reflexivity).
  destruct c; repeat split; cbn; unfold P.enabled; rewrite ?T; reflexivity.
Qed.

Corollary xelapse_chunk_views c p a b s s1 e1 s2 e2 s3 e3 :
  xhas_elapse c = true -> xwf s -> xinv c p s -> 0 <= a -> 0 <= b ->
  xreduce_spec c XElapse p a s = Some (s1, e1) -> xreduce_spec c XElapse p b s1 = Some (s2, e2) ->
  xreduce_spec c XElapse p (a + b) s = Some (s3, e3) ->
  xview_validity c p s2 = xview_validity c p s3 /\ xview_running c p s2 = xview_running c p s3 /\
  xview_buff c p s2 = xview_buff c p s3.
Proof.
  intros E W I Ha Hb H1 H2 H3. destruct (xelapse_chunk c p a b s s1 e1 s2 e2 s3 e3 E W I Ha Hb H1 H2 H3) as [U _].
  destruct (xviews_xnorm c p s2) as (A1 & A2 & A3). destruct (xviews_xnorm c p s3) as (B1 & B2 & B3).
  rewrite <- A1, <- A2, <- A3, <- B1, <- B2, <- B3, U. repeat split.
Qed.

(* every class with an elapse reducer answers (the specification never runs out of fuel) *)
Lemma xelapse_total c p t s :
  xhas_elapse c = true -> xwf s -> 0 <= t -> xreduce_spec c XElapse p t s <> None.
Proof.
  intros E (W & _) Ht. destruct (xcapped c) eqn:Cc; [apply xcapped_total; assumption|].
  destruct c; try discriminate; cbn; try discriminate.
  destruct (chain_ticks _ _ _ _); discriminate.
Qed.

(* every elapsed notification carries the time of the elapse (C06's component clause) *)
Definition xelapsed_times (es : list xev) : list Z :=
  flat_map (fun e => match e with XE (EElapsed t) => [t] | _ => [] end) es.
Lemma xelapsed_times_dealts es : Forall (fun e => xis_dealt e = true) es -> xelapsed_times es = [].
Proof.
  induction 1 as [|e l H _ IH]; [reflexivity|].
  change (xelapsed_times (e :: l)) with ((match e with XE (EElapsed t) => [t] | _ => [] end) ++ xelapsed_times l).
  rewrite IH. destruct e as [[]|]; try discriminate; reflexivity.
Qed.
Lemma Forall_map_repeat_dealt x n : Forall (fun e => xis_dealt e = true) (map XE (repeat (dealt x) n)).
Proof. induction n; cbn; constructor; auto. Qed.
Lemma Forall_repeat_xdealt x n : Forall (fun e => xis_dealt e = true) (repeat (xdealt x) n).
Proof. induction n; cbn; constructor; auto. Qed.
Lemma chain_ticks_all_dealt tbl h : forall n k, Forall (fun e => xis_dealt e = true) (fst (chain_ticks tbl h n k)).
Proof.
  induction n as [|n IH]; intros k; cbn; [constructor|].
  specialize (IH (stk_inc k 1)). destruct (chain_ticks tbl h n (stk_inc k 1)) as [es k']. cbn in *. constructor; auto.
Qed.
Lemma gevs_all_dealt emit (He : forall c f, xis_dealt (snd (emit c f)) = true) :
  forall n c f, Forall (fun e => xis_dealt e = true) (fst (gevs emit n c f)).
Proof.
  induction n as [|n IH]; intros c f; cbn; [constructor|].
  pose proof (He (c + 1) f) as X. destruct (emit (c + 1) f) as [f' e]. specialize (IH (c + 1) f').
  destruct (gevs emit n (c + 1) f') as [es f'']. cbn in *. constructor; auto.
Qed.
Lemma cap_emit_dealt c p s k f : xis_dealt (snd (cap_emit c p s k f)) = true.
Proof.
  destruct c; cbn; unfold jt_emit, tb_emit;
    try (destruct (if (k + 1) mod 5 =? 0 then use_frost f else (f, sk f)); reflexivity);
    destruct (use_frost f); reflexivity.
Qed.

Lemma xelapsed_carries_time c p t s s' es :
  xhas_elapse c = true -> xwf s -> xinv c p s -> 0 <= t ->
  xreduce_spec c XElapse p t s = Some (s', es) -> xelapsed_times es = [t].
Proof.
  intros E (W & _) I Ht H. destruct (xcapped c) eqn:Cc.
  - assert (D : p_maxcount (xp p) <= P.cnt (u_p1 (x_u s)) -> P.tl (u_p1 (x_u s)) <= 0) by (destruct c; try discriminate; apply I).
    assert (HB : cap_B c p = p_maxcount (xp p) \/ cap_B c p = p_maxcount (xp p) + 1) by (destruct c; try discriminate; cbn; auto).
    rewrite xcapped_elapse in H by exact Cc.
    destruct (gloop_char (cap_B c p) (cap_emit c p s) (p_maxcount (xp p)) (u_p1 (x_u s)) t (x_frost s) HB W Ht D) as (q1 & G & _).
    rewrite G in H. injection H as _ <-. cbn [xelapsed_times flat_map app].
    change (flat_map _ ?l) with (xelapsed_times l). rewrite xelapsed_times_dealts; [reflexivity|].
    apply gevs_all_dealt. apply cap_emit_dealt.
  - destruct c; try discriminate; cbn in H; unfold cd_elapse, lift, elapse_simple_attack, elapse_buff_trait, elapse_periodic_with in H;
      cbn [fst snd map] in H;
      repeat match type of H with
        | context [if ?b then _ else _] => destruct b
        | context [let '(_, _) := ?x in _] => destruct x eqn:?
        end;
      injection H as _ <-; cbn [xelapsed_times flat_map app]; try reflexivity;
      change (flat_map _ ?l) with (xelapsed_times l); (rewrite xelapsed_times_dealts; [reflexivity|]);
      try apply Forall_map_repeat_dealt; try apply Forall_repeat_xdealt.
    match goal with H : chain_ticks ?a ?b ?c ?d = (?l, _) |- _ => pose proof (chain_ticks_all_dealt a b c d) as X; rewrite H in X; exact X end.
Qed.

(* ------------------------------------------------------------ well-formedness is an invariant *)
Lemma step_tl_nonneg q t : P.wf q -> 0 < t -> 0 <= P.tl q -> 0 <= P.tl (fst (P.step q t)).
Proof.
  intros [A B] Ht T. unfold P.step. cbv zeta. destruct (P.tl q <=? 0) eqn:E; [exact T|]. apply Z.leb_gt in E.
  set (m := Z.min (P.counter q) (Z.min (P.tl q) t)). assert (Hm : m <= P.tl q) by (unfold m; lia).
  destruct (P.tl q - m =? 0); [cbn; lia|]. destruct (P.counter q - m =? 0); cbn [fst P.tl]; lia.
Qed.
Lemma run_tl_nonneg : forall f q t, P.wf q -> 0 <= P.tl q -> 0 <= P.tl (P.run f q t).
Proof.
  induction f as [|f IH]; intros q t W T; cbn; [exact T|].
  destruct (t <=? 0) eqn:E; [exact T|].
  pose proof (PP.step_wf q t W ltac:(lia)) as W'. pose proof (step_tl_nonneg q t W ltac:(lia) T) as T'.
  destruct (P.step q t) as [q1 t1]. cbn [fst] in *. apply IH; assumption.
Qed.
Lemma elapse_tl_nonneg q t : P.wf q -> 0 <= P.tl q -> 0 <= P.tl (P.elapse q t).
Proof. apply run_tl_nonneg. Qed.
Lemma gloop_tl_nonneg B emit : forall fuel q t prev f acc q' f' es,
  P.wf q -> 0 <= P.tl q -> gloop B emit fuel q t prev f acc = Some (q', f', es) -> 0 <= P.tl q'.
Proof.
  induction fuel as [|fl IH]; intros q t prev f acc q' f' es W T H.
  - rewrite gloop_O in H. destruct (t <=? 0); [|discriminate]. injection H as <- _ _. exact T.
  - rewrite gloop_S in H. destruct (t <=? 0) eqn:Et; [injection H as <- _ _; exact T|].
    pose proof (PP.step_wf q t W ltac:(lia)) as W'. pose proof (step_tl_nonneg q t W ltac:(lia) T) as T'.
    destruct (P.step q t) as [q1 t1]. cbn [fst] in *.
    destruct (B <=? P.cnt q1); [injection H as <- _ _; exact T'|].
    destruct (P.cnt q1 =? prev); [eapply IH; eauto|].
    destruct (emit (P.cnt q1) f) as [f1 e]. eapply IH; eauto.
Qed.

Lemma xwf_intro s' :
  P.wf (u_p1 (x_u s')) -> 0 <= P.tl (u_p1 (x_u s')) -> Forall P.wf (cf_per (x_cf s')) -> 0 < cf_itv (x_cf s') -> xwf s'.
Proof. unfold xwf. auto. Qed.

Lemma xwf_preserved c m p t s s' es :
  xwf s -> xwf_par p s -> 0 <= t ->
  xreduce_spec c m p t s = Some (s', es) -> xwf s' /\ u_ic1 (x_u s') = u_ic1 (x_u s).
Proof.
  intros (W & T & WF & WI) (PL & IC) Ht H.
  pose proof (set_time_left_wf (u_p1 (x_u s)) (u_ic1 (x_u s)) (p_last (xp p)) W IC) as WS.
  pose proof (elapse_wf (u_p1 (x_u s)) t W) as WE. pose proof (elapse_tl_nonneg (u_p1 (x_u s)) t W T) as TE.
  destruct (cf_stack_rng_wf (xp_one p) (xp_prob p) (x_cf s) WF WI) as [RW RI].
  destruct (cf_elapse_wf t (x_cf s) WF) as [EW EI].
  destruct (xcapped c && match m with XElapse => true | _ => false end) eqn:Cc.
  - apply andb_prop in Cc. destruct Cc as [Cc Hm]. destruct m; try discriminate.
    rewrite xcapped_elapse in H by exact Cc.
    destruct (gloop _ _ _ _ _ _ _ _) as [[[q1 f1] l1]|] eqn:G; [|discriminate]. injection H as <- _.
    split; [apply xwf_intro|]; xsimpl; try assumption; try reflexivity.
    + apply gfin_wf. eapply gloop_wf; [exact W|exact G].
    + apply gfin_tl. eapply gloop_tl_nonneg; [exact W|exact T|exact G].
  - destruct c, m; cbn [xcapped andb] in Cc; try discriminate Cc; cbn [xreduce_spec xreduce] in H; unfold xreduce_spec in H; cbn [xreduce] in H;
      try discriminate H;
      unfold cd_elapse, lift, har_stack, tc_attack, use_buff_trait, elapse_buff_trait, elapse_simple_attack, use_simple_attack,
        use_periodic_with_simple, use_periodic, elapse_periodic_with in H;
      cbn [fst snd] in H;
      repeat match type of H with
        | context [if ?b then _ else _] => destruct b eqn:?
        | context [let '(_, _) := ?x in _] => destruct x eqn:?
        end;
      cbn [fst snd map] in H; try discriminate H;
      try (injection H as <- _; (split; [apply xwf_intro|]); xsimpl; try assumption; try reflexivity; try (cbn [P.tl P.set_time_left]; lia)).
    all: try (destruct (use_frost (x_frost s)) as [f' m0]; injection Heqx as <- _; xsimpl; try assumption; reflexivity).
    cbn [fst] in EI. rewrite EI. exact WI.
Qed.
