(* C19 -- weapon potential: the brute force returns the arg-max over all legal combinations of the useful
   candidates (or nothing when no combination has a positive reward); the pruning of
   get_useful_candidates does not lose the optimum when a useless line can be replaced, at no loss, by a
   useful line of the same tier that is neither a boss-damage nor an ignored-defence line. *)
From Coq Require Import List QArith Bool Arith Lia.
From V.Model Require Import Greedy.
Import ListNotations.
Close Scope Q_scope.
Open Scope nat_scope.

Lemma Qgt_true a b : Qgt_bool a b = true <-> (b < a)%Q.
Proof.
  unfold Qgt_bool. rewrite negb_true_iff. split; intros H.
  - apply Qnot_le_lt. intros X. apply Qle_bool_iff in X. congruence.
  - destruct (Qle_bool a b) eqn:E; [|reflexivity]. apply Qle_bool_iff in E. exfalso. eapply Qlt_not_le; eauto.
Qed.
Lemma Qgt_false a b : Qgt_bool a b = false <-> (a <= b)%Q.
Proof. unfold Qgt_bool. rewrite negb_false_iff. apply Qle_bool_iff. Qed.

Section ArgMaxP.
  Context {A : Type}.
  Variable f : A -> Q.

  Lemma argmax_spec : forall l acc,
    let res := argmax_from f l acc in
    (snd acc <= snd res)%Q /\
    (forall x, In x l -> (f x <= snd res)%Q) /\
    (res = acc \/ (In (fst res) l /\ snd res = f (fst res) /\ (snd acc < snd res)%Q)).
  Proof.
    induction l as [|x l IH]; intros acc; cbn [argmax_from].
    - split; [apply Qle_refl|]. split; [intros ? []|left; reflexivity].
    - destruct (Qgt_bool (f x) (snd acc)) eqn:E.
      + apply Qgt_true in E. destruct (IH (x, f x)) as (A1 & A2 & A3). cbn [fst snd] in *.
        split; [eapply Qle_trans; [apply Qlt_le_weak, E|exact A1]|]. split.
        * intros y [<-|I]; [exact A1|apply A2, I].
        * right. destruct A3 as [->|(I & R & L)]; cbn [fst snd].
          -- split; [left; reflexivity|]. split; [reflexivity|exact E].
          -- split; [right; exact I|]. split; [exact R|]. eapply Qlt_trans; eauto.
      + apply Qgt_false in E. destruct (IH acc) as (A1 & A2 & A3). split; [exact A1|]. split.
        * intros y [<-|I]; [eapply Qle_trans; eauto|apply A2, I].
        * destruct A3 as [->|(I & R & L)]; [left; reflexivity|right; split; [right; exact I|split; auto]].
  Qed.
End ArgMaxP.

Lemma in_product {A : Type} : forall (ls : list (list A)) (c : list A),
  In c (product ls) <-> Forall2 (fun x l => In x l) c ls.
Proof.
  induction ls as [|l r IH]; intros c; cbn [product].
  - split; [intros [<-|[]]; constructor|intros H; inversion H; left; reflexivity].
  - rewrite in_flat_map. split.
    + intros (x & Ix & Ic). apply in_map_iff in Ic. destruct Ic as (c' & <- & Ic'). constructor; [exact Ix|apply IH, Ic'].
    + intros H. inversion H as [|x ? c' ? Ix Ic']; subst. exists x. split; [exact Ix|]. apply in_map, IH, Ic'.
Qed.

Section WPP.
  Variable opt : Type.
  Variable useful : opt -> bool.
  Variables is_boss is_ied : opt -> bool.
  Variable value : list opt -> Q.

  Notation wp_legal := (wp_legal opt is_boss is_ied).
  Notation wp_candidates_of := (wp_candidates_of opt is_boss is_ied).
  Notation wp_candidates := (wp_candidates opt useful is_boss is_ied).
  Notation wp_triples := (wp_triples opt).
  Notation triple_value := (triple_value opt value).
  Notation wp_full_optimal := (wp_full_optimal opt useful is_boss is_ied value).
  Notation wp_full_unpruned := (wp_full_unpruned opt is_boss is_ied).
  Notation wp_optimal := (wp_optimal opt useful is_boss is_ied value).
  Notation count := (count opt).

  (* one potential (three lines for the code's tiers): a line of every tier, the two count limits *)
  Definition combination (tiers : list (list opt)) (emblem : bool) (c : list opt) : Prop :=
    Forall2 (fun x l => In x l) c tiers /\ wp_legal emblem c = true.

  Lemma legal_spec emblem c : wp_legal emblem c = true <->
    (emblem = true -> count is_boss c = 0) /\ count is_boss c <= 2 /\ count is_ied c <= 2.
  Proof.
    unfold Greedy.wp_legal. rewrite andb_true_iff, !negb_true_iff, orb_false_iff, andb_false_iff, !Nat.ltb_ge.
    split.
    - intros [[E|E] [B I]]; (split; [|split; assumption]); intros X; [congruence|lia].
    - intros (E & B & I). split; [|split; assumption]. destruct emblem; [right; specialize (E eq_refl); lia|left; reflexivity].
  Qed.

  Lemma in_candidates_of tiers emblem c : In c (wp_candidates_of tiers emblem) <-> combination tiers emblem c.
  Proof. unfold Greedy.wp_candidates_of, combination. rewrite filter_In, in_product. reflexivity. Qed.

  Definition useful_tiers (tiers : list (list opt)) : list (list opt) := map (filter useful) tiers.

  Lemma in_candidates tiers emblem c :
    In c (wp_candidates tiers emblem) <-> combination (useful_tiers tiers) emblem c.
  Proof. apply in_candidates_of. Qed.

  Lemma in_triples cw cs ce w s e : In (w, s, e) (wp_triples cw cs ce) <-> In w cw /\ In s cs /\ In e ce.
  Proof.
    unfold Greedy.wp_triples. rewrite in_flat_map. split.
    - intros (w' & Iw & H). apply in_flat_map in H. destruct H as (s' & Is & H). apply in_map_iff in H.
      destruct H as (e' & E & Ie). inversion E; subst. auto.
    - intros (Iw & Is & Ie). exists w. split; [exact Iw|]. apply in_flat_map. exists s. split; [exact Is|].
      apply in_map_iff. exists e. auto.
  Qed.

  (* weapon, secondary weapon and emblem potentials that get_full_optimal_potential may return *)
  Definition legal_triple (tiers : list (list opt)) (t : list opt * list opt * list opt) : Prop :=
    combination tiers false (fst (fst t)) /\ combination tiers false (snd (fst t)) /\ combination tiers true (snd t).

  Lemma in_full_pruned tiers t :
    In t (wp_triples (wp_candidates tiers false) (wp_candidates tiers false) (wp_candidates tiers true))
    <-> legal_triple (useful_tiers tiers) t.
  Proof. destruct t as [[w s] e]. rewrite in_triples, !in_candidates. reflexivity. Qed.

  Lemma in_full_unpruned tiers t : In t (wp_full_unpruned tiers) <-> legal_triple tiers t.
  Proof. destruct t as [[w s] e]. unfold Greedy.wp_full_unpruned. rewrite in_triples, !in_candidates_of. reflexivity. Qed.

  (* result = arg-max over all legal combinations of the pruned candidates *)
  Theorem wp_full_is_argmax tiers :
    let res := wp_full_optimal tiers in
    (0 <= snd res)%Q /\
    (forall t, legal_triple (useful_tiers tiers) t -> (triple_value t <= snd res)%Q) /\
    ((res = (([], [], []), 0%Q)) \/
     (legal_triple (useful_tiers tiers) (fst res) /\ snd res = triple_value (fst res) /\ (0 < snd res)%Q)).
  Proof.
    unfold Greedy.wp_full_optimal.
    destruct (argmax_spec triple_value
               (wp_triples (wp_candidates tiers false) (wp_candidates tiers false) (wp_candidates tiers true))
               (([], [], []), 0%Q)) as (A1 & A2 & A3).
    cbn [snd] in A1. split; [exact A1|]. split.
    - intros t L. apply A2, in_full_pruned, L.
    - destruct A3 as [E|(I & R & L)]; [left; exact E|right]. split; [apply in_full_pruned, I|split; assumption].
  Qed.

  Theorem wp_single_is_argmax tiers :
    let res := wp_optimal tiers in
    (0 <= snd res)%Q /\
    (forall c, combination (useful_tiers tiers) false c -> (value c <= snd res)%Q) /\
    ((res = ([], 0%Q)) \/
     (combination (useful_tiers tiers) false (fst res) /\ snd res = value (fst res) /\ (0 < snd res)%Q)).
  Proof.
    unfold Greedy.wp_optimal.
    destruct (argmax_spec value (wp_candidates tiers false) ([], 0%Q)) as (A1 & A2 & A3).
    cbn [snd] in A1. split; [exact A1|]. split.
    - intros c L. apply A2, in_candidates, L.
    - destruct A3 as [E|(I & R & L)]; [left; exact E|right]. split; [apply in_candidates, I|split; assumption].
  Qed.

  (* ---------------------------------------------------------------- pruning *)
  (* replace every useless line by the free useful line of its tier *)
  Fixpoint repair (c free : list opt) : list opt :=
    match c, free with
    | o :: c', u :: f' => (if useful o then o else u) :: repair c' f'
    | _, _ => c
    end.

  Definition repair3 free (t : list opt * list opt * list opt) :=
    (repair (fst (fst t)) free, repair (snd (fst t)) free, repair (snd t) free).

  Lemma count_cons p (x : opt) l : count p (x :: l) = (if p x then 1 else 0) + count p l.
  Proof. unfold Greedy.count. cbn [filter]. destruct (p x); reflexivity. Qed.

  Lemma repair_count p : forall c free, Forall (fun u => p u = false) free -> count p (repair c free) <= count p c.
  Proof.
    induction c as [|o c IH]; intros free F; [destruct free; cbn; lia|].
    destruct free as [|u f']; [cbn [repair]; lia|]. inversion F as [|? ? Fu Ff]; subst.
    cbn [repair]. rewrite !count_cons. specialize (IH f' Ff). destruct (useful o); [lia|]. rewrite Fu. lia.
  Qed.

  Lemma repair_in_useful : forall tiers c free,
    Forall2 (fun x l => In x l) c tiers -> Forall2 (fun u l => In u l /\ useful u = true) free tiers ->
    Forall2 (fun x l => In x l) (repair c free) (useful_tiers tiers).
  Proof.
    induction tiers as [|l tiers IH]; intros c free Hc Hf; inversion Hc; inversion Hf; subst; cbn [repair useful_tiers map].
    - constructor.
    - constructor; [|apply IH; assumption].
      destruct (useful x) eqn:U; apply filter_In; [split; assumption|]. tauto.
  Qed.

  Lemma repair_combination tiers free emblem c :
    Forall2 (fun u l => In u l /\ useful u = true) free tiers ->
    Forall (fun u => is_boss u = false) free -> Forall (fun u => is_ied u = false) free ->
    combination tiers emblem c -> combination (useful_tiers tiers) emblem (repair c free).
  Proof.
    intros Hf Hb Hi [Hc Hl]. split; [apply repair_in_useful; assumption|].
    apply legal_spec in Hl. destruct Hl as (E & B & I). apply legal_spec.
    assert (B' := repair_count is_boss c free Hb). assert (I' := repair_count is_ied c free Hi).
    split; [intros X; specialize (E X); lia|lia].
  Qed.

  (* prune_safe: no legal combination of the UNPRUNED candidates beats the result *)
  Theorem wp_prune_safe tiers free :
    Forall2 (fun u l => In u l /\ useful u = true) free tiers ->
    Forall (fun u => is_boss u = false) free -> Forall (fun u => is_ied u = false) free ->
    (forall t, legal_triple tiers t -> (triple_value t <= triple_value (repair3 free t))%Q) ->
    forall t, legal_triple tiers t -> (triple_value t <= snd (wp_full_optimal tiers))%Q.
  Proof.
    intros Hf Hb Hi Hm t L. eapply Qle_trans; [apply Hm, L|].
    destruct (wp_full_is_argmax tiers) as (_ & A & _). apply A.
    destruct t as [[w s] e]. destruct L as (Lw & Ls & Le). unfold repair3, legal_triple. cbn [fst snd] in *.
    split; [|split]; apply repair_combination; assumption.
  Qed.
End WPP.
