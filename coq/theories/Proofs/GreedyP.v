(* C19 -- lemmas about the step-wise optimizer model (Model/Greedy.v):
   invariants along the run, local optimality, never-worse, termination, totality. *)
From Coq Require Import List QArith Bool Arith Lia Lqa.
From V.Model Require Import Greedy.
Import ListNotations.
Close Scope Q_scope.
Open Scope nat_scope.

(* b is a with some slots raised (same slots, none lowered) *)
Definition le_state (a b : state) : Prop :=
  length a = length b /\ forall i, nth i a 0 <= nth i b 0.

Lemma le_state_refl a : le_state a a.
Proof. split; auto. Qed.
Lemma le_state_trans a b c : le_state a b -> le_state b c -> le_state a c.
Proof. intros [L1 H1] [L2 H2]. split; [congruence|]. intros i. specialize (H1 i). specialize (H2 i). lia. Qed.

Inductive chain {A : Type} (R : A -> A -> Prop) : A -> list A -> Prop :=
| chain_nil a : chain R a []
| chain_cons a b l : R a b -> chain R b l -> chain R a (b :: l).

Lemma chain_impl {A} (R R' : A -> A -> Prop) : (forall a b, R a b -> R' a b) ->
  forall l a, chain R a l -> chain R' a l.
Proof. intros H l a C. induction C; constructor; auto. Qed.

Lemma last_indep {A} (l : list A) y d d' : last (y :: l) d = last (y :: l) d'.
Proof. revert y; induction l as [|z l IH]; intros y; [reflexivity|]. change (last (z :: l) d = last (z :: l) d'). apply IH. Qed.

Lemma chain_pred {A} (R : A -> A -> Prop) : forall l a, chain R a l -> Forall (fun s => exists p, R p s) l.
Proof. intros l a C. induction C; constructor; eauto. Qed.

(* a transitive-reflexive consequence of the steps holds between the start and every visited state *)
Lemma chain_Forall {A} (R : A -> A -> Prop) (P : A -> A -> Prop) :
  (forall a, P a a) -> (forall a b c, P a b -> R b c -> P a c) ->
  forall l a, chain R a l -> Forall (P a) l /\ P a (last l a).
Proof.
  intros Prefl Pstep l a C.
  assert (G : forall b, P a b -> chain R b l -> Forall (P a) l /\ P a (last l b)).
  { clear C. induction l as [|x l IH]; intros b Hb Cb.
    - split; [constructor|exact Hb].
    - inversion Cb as [|? ? ? Rbx Cx]; subst.
      assert (Hx : P a x) by (eapply Pstep; eauto).
      destruct (IH x Hx Cx) as [F L]. split; [constructor; auto|].
      destruct l as [|z l]; [exact Hx|]. change (P a (last (z :: l) b)). rewrite (last_indep l z b x). exact L. }
  apply G; auto.
Qed.

(* ------------------------------------------------------------------ bump *)
Lemma bump_length st i : length (bump st i) = length st.
Proof. revert i; induction st as [|x r IH]; intros [|i]; cbn; auto. Qed.

Lemma bump_nth_same st i : i < length st -> nth i (bump st i) 0 = S (nth i st 0).
Proof. revert i; induction st as [|x r IH]; intros [|i] H; cbn in *; try lia. apply IH; lia. Qed.

Lemma bump_nth_other st i j : j <> i -> nth j (bump st i) 0 = nth j st 0.
Proof.
  revert i j; induction st as [|x r IH]; intros [|i] [|j] H; cbn; try reflexivity; try lia.
  apply IH; lia.
Qed.

Lemma bump_oob st i : length st <= i -> bump st i = st.
Proof. revert i; induction st as [|x r IH]; intros [|i] H; cbn in *; try reflexivity; try lia. f_equal. apply IH; lia. Qed.

Lemma bump_nth_le st i j : nth j st 0 <= nth j (bump st i) 0.
Proof.
  destruct (Nat.eq_dec j i) as [->|N]; [|rewrite bump_nth_other; auto].
  destruct (Nat.lt_ge_cases i (length st)); [rewrite bump_nth_same; lia|rewrite bump_oob; auto].
Qed.

Lemma bump_le st i : le_state st (bump st i).
Proof. split; [symmetry; apply bump_length|intros; apply bump_nth_le]. Qed.

(* ------------------------------------------------------------------ the loop *)
Section GreedyP.
  Variables value cost : state -> Q.
  Variable mx : nat -> nat.
  Variable budget : Q.
  Variable incs : list (list nat).

  Notation stepped := (stepped mx).
  Notation reward := (reward value cost mx budget).
  Notation best := (best value cost mx budget).
  Notation optimal_increment := (optimal_increment value cost mx budget incs).
  Notation run := (run value cost mx budget incs).
  Notation trace := (trace value cost mx budget incs).

  Lemma stepped_cons st i r :
    stepped st (i :: r) = if mx i <? nth i (bump st i) 0 then None else stepped (bump st i) r.
  Proof. reflexivity. Qed.

  Lemma stepped_le : forall inc st st', stepped st inc = Some st' -> le_state st st'.
  Proof.
    induction inc as [|i r IH]; intros st st' X.
    - inversion X. apply le_state_refl.
    - rewrite stepped_cons in X. destruct (mx i <? nth i (bump st i) 0); [discriminate|].
      eapply le_state_trans; [apply bump_le|apply IH, X].
  Qed.

  (* a slot never goes above its maximum unless it started there (and then it is never raised) *)
  Lemma stepped_bound : forall inc st st', stepped st inc = Some st' ->
    forall j, nth j st' 0 <= Nat.max (nth j st 0) (mx j).
  Proof.
    induction inc as [|i r IH]; intros st st' X j.
    - inversion X; subst. lia.
    - rewrite stepped_cons in X. destruct (mx i <? nth i (bump st i) 0) eqn:E; [discriminate|].
      apply Nat.ltb_ge in E. specialize (IH _ _ X j).
      destruct (Nat.eq_dec j i) as [->|N]; [lia|]. rewrite bump_nth_other in IH; auto.
  Qed.

  Lemma stepped_nil_inv : forall st st', stepped st [] = Some st' -> st' = st.
  Proof. intros st st' X; inversion X; reflexivity. Qed.

  (* potential: how many more raises the maxima allow *)
  Fixpoint pot (off : nat) (st : state) : nat :=
    match st with
    | [] => 0
    | x :: r => (mx off - x) + pot (S off) r
    end.

  Lemma pot_bump : forall st off i, i < length st -> nth i (bump st i) 0 <= mx (off + i) ->
    S (pot off (bump st i)) = pot off st.
  Proof.
    induction st as [|x r IH]; intros off [|i] L H; cbn in *; try lia.
    - rewrite Nat.add_0_r in H. lia.
    - rewrite <- (IH (S off) i); [lia|lia|]. replace (S off + i) with (off + S i) by lia. exact H.
  Qed.

  Lemma stepped_pot : forall inc st st', Forall (fun i => i < length st) inc ->
    stepped st inc = Some st' -> pot 0 st' + length inc = pot 0 st.
  Proof.
    induction inc as [|i r IH]; intros st st' F X.
    - inversion X; subst. cbn. lia.
    - rewrite stepped_cons in X. destruct (mx i <? nth i (bump st i) 0) eqn:E; [discriminate|].
      apply Nat.ltb_ge in E. inversion F as [|? ? Fi Fr]; subst.
      assert (P := pot_bump st 0 i Fi E).
      assert (Q := IH (bump st i) st'). rewrite bump_length in Q. specialize (Q Fr X). cbn [length]. lia.
  Qed.

  (* ---------------------------------------------------------------- reward *)
  Lemma Qgt_bool_true a b : Qgt_bool a b = true <-> (b < a)%Q.
  Proof.
    unfold Qgt_bool. rewrite negb_true_iff. split; intros H.
    - apply Qnot_le_lt. intros X. apply Qle_bool_iff in X. congruence.
    - destruct (Qle_bool a b) eqn:E; [|reflexivity]. apply Qle_bool_iff in E. exfalso. eapply Qlt_not_le; eauto.
  Qed.
  Lemma Qgt_bool_false a b : Qgt_bool a b = false <-> (a <= b)%Q.
  Proof.
    unfold Qgt_bool. rewrite negb_false_iff. apply Qle_bool_iff.
  Qed.

  (* what a reward above the initial best (-1) means *)
  Lemma reward_accept st inc q : reward st inc = Some q -> (INITIAL_REWARD < q)%Q ->
    exists st', stepped st inc = Some st' /\ (cost st' <= budget)%Q /\ ~ (value st == 0)%Q /\
                ~ (cost st' - cost st == 0)%Q /\ q = ((value st' / value st - 1) / (cost st' - cost st))%Q.
  Proof.
    unfold Greedy.reward. intros R H. destruct (stepped st inc) as [st'|].
    - destruct (Qgt_bool (cost st') budget) eqn:Eb.
      + inversion R; subst. exfalso. revert H. unfold COST_EXCEED, INITIAL_REWARD. apply Qle_not_lt. discriminate.
      + destruct (Qeq_bool (value st) 0) eqn:Ev; [discriminate|].
        destruct (Qeq_bool (cost st' - cost st) 0) eqn:Ec; [discriminate|].
        inversion R; subst. exists st'. split; [reflexivity|]. split; [apply Qgt_bool_false, Eb|].
        split; [intros X; apply Qeq_bool_iff in X; congruence|]. split; [intros X; apply Qeq_bool_iff in X; congruence|reflexivity].
    - inversion R; subst. exfalso. revert H. unfold NO_TARGET_REWARD, INITIAL_REWARD. apply Qle_not_lt. discriminate.
  Qed.

  (* a legal affordable increment gets its ratio as reward (or the division fails) *)
  Lemma reward_legal st inc st' q : stepped st inc = Some st' -> (cost st' <= budget)%Q ->
    reward st inc = Some q ->
    ~ (value st == 0)%Q /\ ~ (cost st' - cost st == 0)%Q /\ q = ((value st' / value st - 1) / (cost st' - cost st))%Q.
  Proof.
    unfold Greedy.reward. intros S C R. rewrite S in R.
    apply Qgt_bool_false in C. rewrite C in R.
    destruct (Qeq_bool (value st) 0) eqn:Ev; [discriminate|].
    destruct (Qeq_bool (cost st' - cost st) 0) eqn:Ec; [discriminate|].
    inversion R; subst. split; [intros X; apply Qeq_bool_iff in X; congruence|].
    split; [intros X; apply Qeq_bool_iff in X; congruence|reflexivity].
  Qed.

  (* ---------------------------------------------------------------- best / optimal increment *)
  Lemma best_spec st : forall l acc res, best st l acc = Some res ->
    (snd acc <= snd res)%Q /\
    (forall inc, In inc l -> exists q, reward st inc = Some q /\ (q <= snd res)%Q) /\
    (res = acc \/ (In (fst res) l /\ reward st (fst res) = Some (snd res) /\ (snd acc < snd res)%Q)).
  Proof.
    induction l as [|x l IH]; intros acc res B; cbn [Greedy.best] in B.
    - inversion B; subst. split; [apply Qle_refl|]. split; [intros ? []|left; reflexivity].
    - destruct (reward st x) as [q|] eqn:Rx; [|discriminate].
      unfold pick in B. destruct (Qgt_bool q (snd acc)) eqn:E.
      + apply Qgt_bool_true in E. destruct (IH _ _ B) as (A1 & A2 & A3). cbn [fst snd] in *.
        split; [eapply Qle_trans; [apply Qlt_le_weak, E|exact A1]|]. split.
        * intros inc [<-|Hin]; [exists q; split; auto|apply A2, Hin].
        * right. destruct A3 as [->|(I & R & L)]; cbn [fst snd].
          -- split; [left; reflexivity|]. split; [exact Rx|exact E].
          -- split; [right; exact I|]. split; [exact R|]. eapply Qlt_trans; eauto.
      + apply Qgt_bool_false in E. destruct (IH _ _ B) as (A1 & A2 & A3).
        split; [exact A1|]. split.
        * intros inc [<-|Hin]; [exists q; split; auto; eapply Qle_trans; eauto|apply A2, Hin].
        * destruct A3 as [->|(I & R & L)]; [left; reflexivity|right; split; [right; exact I|split; auto]].
  Qed.

  Lemma best_none_iff st : forall l acc, best st l acc = None <-> exists inc, In inc l /\ reward st inc = None.
  Proof.
    induction l as [|x l IH]; intros acc; cbn [Greedy.best].
    - split; [discriminate|intros (? & [] & _)].
    - destruct (reward st x) as [q|] eqn:Rx.
      + rewrite IH. split; intros (inc & I & R); exists inc; [split; [right|]; auto|].
        destruct I as [<-|I]; [congruence|split; auto].
      + split; [intros _; exists x; split; [left|]; auto|reflexivity].
  Qed.

  Definition all_rejected (st : state) : Prop :=
    forall inc, In inc incs -> exists q, reward st inc = Some q /\ (q <= INITIAL_REWARD)%Q.

  (* the increment chosen at st: it is in the iterator's list, legal, affordable, its reward is
     above -1 and no other increment's reward is higher *)
  Definition chosen (st : state) (inc : list nat) (st' : state) : Prop :=
    In inc incs /\ inc <> [] /\ stepped st inc = Some st' /\ (cost st' <= budget)%Q /\
    ~ (value st == 0)%Q /\ ~ (cost st' - cost st == 0)%Q /\
    (INITIAL_REWARD < (value st' / value st - 1) / (cost st' - cost st))%Q /\
    (forall inc2, In inc2 incs -> exists q2, reward st inc2 = Some q2 /\
                                  (q2 <= (value st' / value st - 1) / (cost st' - cost st))%Q).

  Lemma optimal_increment_spec st inc : optimal_increment st = Some inc ->
    (inc = [] /\ all_rejected st) \/ (exists st', chosen st inc st').
  Proof.
    unfold Greedy.optimal_increment. destruct (best st incs ([], INITIAL_REWARD)) as [res|] eqn:B; [|discriminate].
    intros X; inversion X; subst; clear X.
    destruct (best_spec _ _ _ _ B) as (A1 & A2 & A3). cbn [fst snd] in *.
    destruct A3 as [->|(I & R & L)].
    - left. split; [reflexivity|]. intros inc Hin. apply A2, Hin.
    - right. destruct (reward_accept _ _ _ R L) as (st' & S & C & V & D & Eq).
      exists st'. split; [exact I|]. split.
      { intros N. rewrite N in S. inversion S; subst. apply D. ring. }
      split; [exact S|]. split; [exact C|]. split; [exact V|]. split; [exact D|].
      rewrite <- Eq. split; [exact L|exact A2].
  Qed.

  Lemma optimal_increment_none st : optimal_increment st = None <-> exists inc, In inc incs /\ reward st inc = None.
  Proof.
    unfold Greedy.optimal_increment. destruct (best st incs ([], INITIAL_REWARD)) as [res|] eqn:B.
    - split; [discriminate|]. intros H. apply best_none_iff with (acc := ([], INITIAL_REWARD)) in H. congruence.
    - split; [intros _; eapply best_none_iff; eauto|reflexivity].
  Qed.

  Definition step_rel (a b : state) : Prop := exists inc, chosen a inc b.

  (* ---------------------------------------------------------------- run and trace *)
  Lemma trace_chain : forall fuel st, chain step_rel st (trace fuel st).
  Proof.
    induction fuel as [|f IH]; intros st; cbn [Greedy.trace];
      destruct (optimal_increment st) as [[|i r]|] eqn:O; try constructor.
    - destruct (stepped st (i :: r)); constructor.
    - destruct (optimal_increment_spec _ _ O) as [[N _]|(st' & C)]; [discriminate|].
      assert (S := C). destruct S as (_ & _ & S & _). rewrite S. constructor; [exists (i :: r); exact C|apply IH].
  Qed.

  Lemma run_trace : forall fuel st k st' k', run fuel st k = Done st' k' ->
    st' = last (trace fuel st) st /\ k' = k + length (trace fuel st) /\ all_rejected st'.
  Proof.
    induction fuel as [|f IH]; intros st k st' k'; cbn [Greedy.run Greedy.trace];
      destruct (optimal_increment st) as [[|i r]|] eqn:O; try discriminate.
    - intros X; inversion X; subst. split; [reflexivity|]. split; [cbn; lia|].
      destruct (optimal_increment_spec _ _ O) as [[_ A]|(s & C)]; [exact A|]. destruct C as (_ & N & _). congruence.
    - destruct (stepped st (i :: r)); discriminate.
    - intros X; inversion X; subst. split; [reflexivity|]. split; [cbn; lia|].
      destruct (optimal_increment_spec _ _ O) as [[_ A]|(s & C)]; [exact A|]. destruct C as (_ & N & _). congruence.
    - destruct (stepped st (i :: r)) as [st1|]; [|discriminate]. intros X.
      destruct (IH _ _ _ _ X) as (A & B & C). split.
      + rewrite A. cbn [last]. destruct (trace f st1) as [|z l]; [reflexivity|apply last_indep].
      + split; [cbn [length]; lia|exact C].
  Qed.

  Lemma run_not_impossible : forall fuel st k, run fuel st k <> Impossible.
  Proof.
    induction fuel as [|f IH]; intros st k; cbn [Greedy.run];
      destruct (optimal_increment st) as [[|i r]|] eqn:O; try discriminate.
    - destruct (optimal_increment_spec _ _ O) as [[N _]|(st' & C)]; [discriminate|].
      destruct C as (_ & _ & S & _). rewrite S. discriminate.
    - destruct (optimal_increment_spec _ _ O) as [[N _]|(st' & C)]; [discriminate|].
      destruct C as (_ & _ & S & _). rewrite S. apply IH.
  Qed.

  (* every visited state: at least the start state slot by slot, within the maxima (or where the
     start was), and within budget *)
  Definition visited_ok (st s : state) : Prop :=
    le_state st s /\ (forall j, nth j s 0 <= Nat.max (nth j st 0) (mx j)).

  Lemma step_rel_ok a b : step_rel a b -> visited_ok a b /\ (cost b <= budget)%Q.
  Proof.
    intros (inc & _ & _ & S & C & _). split; [split|exact C].
    - eapply stepped_le; eauto.
    - eapply stepped_bound; eauto.
  Qed.

  Lemma trace_inv fuel st :
    Forall (fun s => visited_ok st s /\ (cost s <= budget)%Q) (trace fuel st).
  Proof.
    assert (C := trace_chain fuel st).
    destruct (chain_Forall step_rel (fun a b => visited_ok a b)) with (l := trace fuel st) (a := st) as [F _]; auto.
    - intros a. split; [apply le_state_refl|intros; lia].
    - intros a b c [L B] R. destruct (step_rel_ok _ _ R) as [[L' B'] _]. split; [eapply le_state_trans; eauto|].
      intros j. specialize (B j). specialize (B' j). lia.
    - assert (P := chain_pred _ _ _ C). rewrite Forall_forall in *. intros s I. split; [apply F, I|].
      destruct (P s I) as (p & R). apply (step_rel_ok _ _ R).
  Qed.

  Lemma Forall_last {A} (P : A -> Prop) l d : Forall P l -> P d -> P (last l d).
  Proof. induction 1 as [|x l Hx Hl IH]; intros Hd; [exact Hd|]. cbn [last]. destruct l; [exact Hx|apply IH, Hd]. Qed.

  Lemma last_cases {A} (l : list A) d : (l = [] /\ last l d = d) \/ (l <> [] /\ In (last l d) l).
  Proof.
    induction l as [|x l IH]; [left; auto|right]. split; [discriminate|].
    cbn [last]. destruct l as [|y l]; [left; reflexivity|]. right. destruct IH as [[N _]|[_ I]]; [discriminate|exact I].
  Qed.

  (* the result of a finished run *)
  Theorem run_result fuel st k st' k' : run fuel st k = Done st' k' ->
    le_state st st' /\
    (forall j, nth j st' 0 <= Nat.max (nth j st 0) (mx j)) /\
    ((st' = st /\ k' = k) \/ (k < k' /\ (cost st' <= budget)%Q)) /\
    all_rejected st'.
  Proof.
    intros R. destruct (run_trace _ _ _ _ _ R) as (E & K & A).
    assert (F := trace_inv fuel st).
    destruct (last_cases (trace fuel st) st) as [[N L]|[N I]].
    - rewrite N in *. cbn in E, K. subst. split; [apply le_state_refl|]. split; [intros; lia|]. split; [left; split; [reflexivity|lia]|exact A].
    - rewrite <- E in I. rewrite Forall_forall in F. destruct (F _ I) as [[L B] C].
      split; [exact L|]. split; [exact B|]. split; [|exact A]. right. split; [|exact C].
      destruct (trace fuel st); [congruence|cbn in K; lia].
  Qed.

  (* ---------------------------------------------------------------- what a rejection / acceptance means for the value *)
  Lemma ratio_le_m1 (v v2 dc : Q) : (0 < v)%Q -> (0 < dc)%Q -> ((v2 / v - 1) / dc <= -1 # 1)%Q ->
    (v2 <= v * (1 - dc))%Q.
  Proof.
    intros Hv Hd H.
    assert (Hv' : ~ (v == 0)%Q) by (intros X; rewrite X in Hv; revert Hv; apply Qlt_irrefl).
    assert (Hd' : ~ (dc == 0)%Q) by (intros X; rewrite X in Hd; revert Hd; apply Qlt_irrefl).
    set (a := (v2 / v)%Q) in *. assert (Ea : (a * v == v2)%Q) by (unfold a; field; exact Hv').
    set (r := ((a - 1) / dc)%Q) in *. assert (Er : (r * dc == a - 1)%Q) by (unfold r; field; exact Hd').
    clearbody r a. assert (X : (a <= 1 - dc)%Q) by nra. rewrite <- Ea. nra.
  Qed.

  Lemma ratio_gt_m1 (v v2 dc : Q) : (0 < v)%Q -> (0 < dc)%Q -> (-1 # 1 < (v2 / v - 1) / dc)%Q ->
    (v * (1 - dc) < v2)%Q.
  Proof.
    intros Hv Hd H.
    assert (Hv' : ~ (v == 0)%Q) by (intros X; rewrite X in Hv; revert Hv; apply Qlt_irrefl).
    assert (Hd' : ~ (dc == 0)%Q) by (intros X; rewrite X in Hd; revert Hd; apply Qlt_irrefl).
    set (a := (v2 / v)%Q) in *. assert (Ea : (a * v == v2)%Q) by (unfold a; field; exact Hv').
    set (r := ((a - 1) / dc)%Q) in *. assert (Er : (r * dc == a - 1)%Q) by (unfold r; field; exact Hd').
    clearbody r a. assert (X : (1 - dc < a)%Q) by nra. rewrite <- Ea. nra.
  Qed.

  (* local optimality: at a state where every increment is rejected, an increment of the
     iterator that is legal, affordable and costs something does not raise the value
     (it lowers it by at least the factor 1 - extra cost) *)
  Theorem rejected_no_gain st : all_rejected st -> (0 < value st)%Q ->
    forall inc st2, In inc incs -> stepped st inc = Some st2 -> (cost st2 <= budget)%Q ->
                    (cost st < cost st2)%Q ->
    (value st2 <= value st * (1 - (cost st2 - cost st)))%Q /\ (value st2 < value st)%Q.
  Proof.
    intros A Hv inc st2 I S C D. destruct (A inc I) as (q & R & L).
    destruct (reward_legal _ _ _ _ S C R) as (_ & _ & ->).
    assert (Hd : (0 < cost st2 - cost st)%Q) by lra.
    assert (G := ratio_le_m1 _ _ _ Hv Hd L). split; [exact G|]. nra.
  Qed.

  (* never worse: as coded, an increment is accepted when its reward exceeds -1 (not 0), so the
     value is only guaranteed not to fall when the objective itself is monotone along accepted
     steps; `chain` shows the values along the run *)
  Theorem trace_values_mono :
    (forall s inc s', chosen s inc s' -> (value s <= value s')%Q) ->
    forall fuel st, chain (fun a b => (value a <= value b)%Q) st (trace fuel st) /\
                    (value st <= value (last (trace fuel st) st))%Q.
  Proof.
    intros H fuel st. assert (C := trace_chain fuel st). split.
    - eapply chain_impl; [|exact C]. intros a b (inc & Ch). eapply H; eauto.
    - destruct (chain_Forall step_rel (fun a b => (value a <= value b)%Q)) with (l := trace fuel st) (a := st) as [_ L]; auto.
      + intros; apply Qle_refl.
      + intros a b c Hab (inc & Ch). eapply Qle_trans; [exact Hab|eapply H; eauto].
  Qed.

  Theorem run_never_worse :
    (forall s inc s', chosen s inc s' -> (value s <= value s')%Q) ->
    forall fuel st k st' k', run fuel st k = Done st' k' -> (value st <= value st')%Q.
  Proof.
    intros H fuel st k st' k' R. destruct (run_trace _ _ _ _ _ R) as (E & _ & _). rewrite E.
    apply (trace_values_mono H).
  Qed.

  (* the gain every accepted step does guarantee (for a positive value and a rising cost) *)
  Theorem chosen_gain s inc s' : chosen s inc s' -> (0 < value s)%Q -> (cost s < cost s')%Q ->
    (value s * (1 - (cost s' - cost s)) < value s')%Q.
  Proof.
    intros (_ & _ & _ & _ & _ & _ & L & _) Hv Hc. apply ratio_gt_m1; auto. lra.
  Qed.

  (* ---------------------------------------------------------------- start state already over budget *)
  Theorem over_budget_start_unchanged :
    (forall s inc s', stepped s inc = Some s' -> (cost s <= cost s')%Q) ->
    forall fuel st k, (budget < cost st)%Q -> run fuel st k = Done st k.
  Proof.
    intros Hm fuel st k Hb.
    assert (Hr : forall inc, reward st inc = Some ((-999) # 1)%Q).
    { intros inc. unfold Greedy.reward. destruct (stepped st inc) as [s'|] eqn:S; [|reflexivity].
      assert (G : Qgt_bool (cost s') budget = true).
      { apply Qgt_bool_true. eapply Qlt_le_trans; [exact Hb|eapply Hm; eauto]. }
      rewrite G. reflexivity. }
    assert (Hbest : forall l, best st l ([], INITIAL_REWARD) = Some ([], INITIAL_REWARD)).
    { induction l as [|x l IH]; [reflexivity|]. cbn [Greedy.best]. rewrite Hr. unfold pick. cbn [snd].
      replace (Qgt_bool ((-999) # 1) INITIAL_REWARD) with false by reflexivity. exact IH. }
    destruct fuel; cbn [Greedy.run]; unfold Greedy.optimal_increment; rewrite Hbest; reflexivity.
  Qed.

  (* ---------------------------------------------------------------- termination, totality *)
  (* every increment of the iterator names slots of the state *)
  Definition in_range (n : nat) : Prop := forall inc, In inc incs -> Forall (fun i => i < n) inc.

  Lemma chosen_pot s inc s' : in_range (length s) -> chosen s inc s' ->
    pot 0 s' < pot 0 s /\ length s' = length s.
  Proof.
    intros IR (I & N & S & _). assert (P := stepped_pot _ _ _ (IR _ I) S).
    destruct (stepped_le _ _ _ S) as [L _]. destruct inc; [congruence|]. cbn [length] in P. split; [lia|auto].
  Qed.

  Theorem run_fuel_enough : forall fuel st k, in_range (length st) -> pot 0 st <= fuel ->
    run fuel st k <> IterExceeded.
  Proof.
    induction fuel as [|f IH]; intros st k IR P; cbn [Greedy.run];
      destruct (optimal_increment st) as [[|i r]|] eqn:O; try discriminate;
      destruct (optimal_increment_spec _ _ O) as [[N _]|(st' & C)]; try discriminate;
      destruct (chosen_pot _ _ _ IR C) as [Pl Ll]; destruct C as (_ & _ & S & _); rewrite S.
    - lia.
    - apply IH; [rewrite Ll; exact IR|lia].
  Qed.

  (* the same with any measure that every accepted step lowers (e.g. remaining integer budget for a
     target without a maximum step whose integer cost rises with every step) *)
  Theorem run_fuel_enough_measure (mu : state -> nat) :
    (forall s inc s', chosen s inc s' -> mu s' < mu s) ->
    forall fuel st k, mu st <= fuel -> run fuel st k <> IterExceeded.
  Proof.
    intros Hmu. induction fuel as [|f IH]; intros st k P; cbn [Greedy.run];
      destruct (optimal_increment st) as [[|i r]|] eqn:O; try discriminate;
      destruct (optimal_increment_spec _ _ O) as [[N _]|(st' & C)]; try discriminate;
      assert (L := Hmu _ _ _ C); destruct C as (_ & _ & S & _); rewrite S.
    - lia.
    - apply IH. lia.
  Qed.

  Theorem run_steps_bound : forall fuel st k st' k', in_range (length st) ->
    run fuel st k = Done st' k' -> k' + pot 0 st' <= k + pot 0 st.
  Proof.
    induction fuel as [|f IH]; intros st k st' k' IR; cbn [Greedy.run];
      destruct (optimal_increment st) as [[|i r]|] eqn:O; try discriminate;
      try (intros X; inversion X; subst; lia);
      destruct (optimal_increment_spec _ _ O) as [[N _]|(s1 & C)]; try discriminate;
      destruct (chosen_pot _ _ _ IR C) as [Pl Ll]; destruct C as (_ & _ & S & _); rewrite S; try discriminate.
    intros X. rewrite <- Ll in IR. specialize (IH _ _ _ _ IR X). lia.
  Qed.

  (* no ZeroDivisionError when the value never vanishes and every legal increment changes the cost *)
  Lemma reward_some st inc : ~ (value st == 0)%Q ->
    (forall s', stepped st inc = Some s' -> ~ (cost s' - cost st == 0)%Q) -> reward st inc <> None.
  Proof.
    intros Hv Hc. unfold Greedy.reward. destruct (stepped st inc) as [s'|]; [|discriminate].
    destruct (Qgt_bool (cost s') budget); [discriminate|].
    destruct (Qeq_bool (value st) 0) eqn:Ev; [apply Qeq_bool_iff in Ev; contradiction|].
    destruct (Qeq_bool (cost s' - cost st) 0) eqn:Ec; [apply Qeq_bool_iff in Ec; exfalso; eapply Hc; eauto|discriminate].
  Qed.

  Theorem run_no_crash :
    (forall s, ~ (value s == 0)%Q) ->
    (forall s inc s', In inc incs -> stepped s inc = Some s' -> ~ (cost s' - cost s == 0)%Q) ->
    forall fuel st k, run fuel st k <> Crash.
  Proof.
    intros Hv Hc. induction fuel as [|f IH]; intros st k; cbn [Greedy.run];
      destruct (optimal_increment st) as [[|i r]|] eqn:O; try discriminate;
      try (destruct (stepped st (i :: r)); try discriminate; apply IH).
    - apply optimal_increment_none in O. destruct O as (inc & I & R). exfalso. revert R. apply reward_some; eauto.
    - apply optimal_increment_none in O. destruct O as (inc & I & R). exfalso. revert R. apply reward_some; eauto.
  Qed.

  Theorem run_total :
    (forall s, ~ (value s == 0)%Q) ->
    (forall s inc s', In inc incs -> stepped s inc = Some s' -> ~ (cost s' - cost s == 0)%Q) ->
    forall fuel st k, in_range (length st) -> pot 0 st <= fuel ->
    exists st' k', run fuel st k = Done st' k'.
  Proof.
    intros Hv Hc fuel st k IR P. destruct (run fuel st k) as [st' k'| | |] eqn:R.
    - eauto.
    - exfalso. revert R. apply run_no_crash; auto.
    - exfalso. revert R. apply run_not_impossible.
    - exfalso. revert R. apply run_fuel_enough; auto.
  Qed.
End GreedyP.

(* ------------------------------------------------------------------ the result depends on value, cost and budget only up to == *)
Section Ext.
  Variables value cost value' cost' : state -> Q.
  Variables mx mx' : nat -> nat.
  Variables budget budget' : Q.
  Variable incs : list (list nat).
  Hypothesis Hv : forall s, (value s == value' s)%Q.
  Hypothesis Hc : forall s, (cost s == cost' s)%Q.
  Hypothesis Hm : forall i, mx i = mx' i.
  Hypothesis Hb : (budget == budget')%Q.

  Definition oq_eq (a b : option Q) : Prop :=
    match a, b with Some x, Some y => (x == y)%Q | None, None => True | _, _ => False end.

  Lemma stepped_ext : forall inc st, stepped mx st inc = stepped mx' st inc.
  Proof. induction inc as [|i r IH]; intros st; cbn [stepped]; [reflexivity|]. rewrite Hm, IH. reflexivity. Qed.

  Lemma Qle_bool_ext a b a' b' : (a == a')%Q -> (b == b')%Q -> Qle_bool a b = Qle_bool a' b'.
  Proof.
    intros Ea Eb. destruct (Qle_bool a b) eqn:E1, (Qle_bool a' b') eqn:E2; try reflexivity.
    - apply Qle_bool_iff in E1. rewrite Ea, Eb in E1. apply Qle_bool_iff in E1. congruence.
    - apply Qle_bool_iff in E2. rewrite <- Ea, <- Eb in E2. apply Qle_bool_iff in E2. congruence.
  Qed.
  Lemma Qeq_bool_ext a a' : (a == a')%Q -> Qeq_bool a 0 = Qeq_bool a' 0.
  Proof.
    intros Ea. destruct (Qeq_bool a 0) eqn:E1, (Qeq_bool a' 0) eqn:E2; try reflexivity.
    - apply Qeq_bool_iff in E1. rewrite Ea in E1. apply Qeq_bool_iff in E1. congruence.
    - apply Qeq_bool_iff in E2. rewrite <- Ea in E2. apply Qeq_bool_iff in E2. congruence.
  Qed.

  Lemma reward_ext st inc : oq_eq (reward value cost mx budget st inc) (reward value' cost' mx' budget' st inc).
  Proof.
    unfold reward. rewrite stepped_ext. destruct (stepped mx' st inc) as [s'|]; [|cbn; reflexivity].
    unfold Qgt_bool. rewrite (Qle_bool_ext (cost s') budget (cost' s') budget' (Hc s') Hb).
    destruct (Qle_bool (cost' s') budget'); cbn [negb]; [|cbn; reflexivity].
    rewrite (Qeq_bool_ext (value st) (value' st) (Hv st)). destruct (Qeq_bool (value' st) 0) eqn:Ev; [exact I|].
    assert (Ed : (cost s' - cost st == cost' s' - cost' st)%Q) by (rewrite (Hc s'), (Hc st); reflexivity).
    rewrite (Qeq_bool_ext _ _ Ed). destruct (Qeq_bool (cost' s' - cost' st) 0) eqn:Ec; [exact I|].
    cbn. rewrite Ed, (Hv s'), (Hv st). reflexivity.
  Qed.

  Lemma best_ext st : forall l a a', fst a = fst a' -> (snd a == snd a')%Q ->
    match best value cost mx budget st l a, best value' cost' mx' budget' st l a' with
    | Some r, Some r' => fst r = fst r' /\ (snd r == snd r')%Q
    | None, None => True
    | _, _ => False
    end.
  Proof.
    induction l as [|x l IH]; intros a a' Ef Es; cbn [best]; [split; assumption|].
    assert (R := reward_ext st x).
    destruct (reward value cost mx budget st x) as [q|], (reward value' cost' mx' budget' st x) as [q'|]; cbn in R; try contradiction; [|exact I].
    apply IH; unfold pick, Qgt_bool; rewrite (Qle_bool_ext q (snd a) q' (snd a') R Es);
      destruct (Qle_bool q' (snd a')); cbn [negb fst snd]; auto.
  Qed.

  Lemma optimal_increment_ext st :
    optimal_increment value cost mx budget incs st = optimal_increment value' cost' mx' budget' incs st.
  Proof.
    unfold optimal_increment. assert (B := best_ext st incs ([], INITIAL_REWARD) ([], INITIAL_REWARD) eq_refl (Qeq_refl _)).
    destruct (best value cost mx budget st incs ([], INITIAL_REWARD)), (best value' cost' mx' budget' st incs ([], INITIAL_REWARD));
      try contradiction; [destruct B as [-> _]|]; reflexivity.
  Qed.

  Theorem run_ext : forall fuel st k, run value cost mx budget incs fuel st k = run value' cost' mx' budget' incs fuel st k.
  Proof.
    induction fuel as [|f IH]; intros st k; cbn [run]; rewrite optimal_increment_ext;
      destruct (optimal_increment value' cost' mx' budget' incs st) as [[|i r]|]; try reflexivity; rewrite stepped_ext;
      destruct (stepped mx' st (i :: r)); try reflexivity. apply IH.
  Qed.
End Ext.
