(* C02 -- the route cache of RouterDispatcher never changes a result (Model/Router.v).

   Shape of the argument (the memo-coherence lemma of notes/Memo.v, with re-entrance):
   * `Coh ds c`: every entry of the cache is the filter of the CURRENT dispatcher list -- holds for
     the empty cache, is preserved by every dispatch (successful or raising, at every nesting
     depth), and a coherent hit runs exactly what the scan would run (`run_idx_scan`);
   * dispatchers, the Tandem loop, the hit loop, the scan loop and arbitrary clients are
     interpreted relative to a router; two routers that simulate each other (related hidden
     states -> related hidden states and EQUAL answers) stay in simulation through all of them
     (`call_sim`, `next_sim`, `scan_sim`, `client_sim`);
   * induction on the fuel (nesting depth of re-entrant dispatch) closes the knot.
   The only hypothesis is `sig_eqb a b = true -> a = b`: two signatures that the dict treats as
   the same key ARE the same signature (a cache keyed by less than the full signature breaks
   exactly this). *)
From Coq Require Import List Bool Arith Lia.
From V.Model Require Import Router.
Import ListNotations.

Section RouterProofs.
  Variables Sig Act St Ev : Type.
  Variable sig_eqb : Sig -> Sig -> bool.
  Variable sig_of : Act -> Sig.
  Variable is_reject : Ev -> bool.

  Notation disp := (disp Sig Act St Ev).
  Notation result := (result St Ev).
  Notation cache := (cache Sig).
  Notation includes := (includes Sig Act St Ev sig_eqb).
  Notation call_d := (call_d Sig Act St Ev sig_eqb sig_of is_reject).
  Notation run_next := (run_next Sig Act St Ev).
  Notation run_idx := (run_idx Sig Act St Ev sig_eqb sig_of is_reject).
  Notation run_scan := (run_scan Sig Act St Ev sig_eqb sig_of is_reject).
  Notation run_client := (run_client Act St Ev).
  Notation lookup := (lookup Sig sig_eqb).
  Notation put := (put Sig).
  Notation dispatch_c := (dispatch_c Sig Act St Ev sig_eqb sig_of is_reject).
  Notation dispatch_nc := (dispatch_nc Sig Act St Ev sig_eqb sig_of is_reject).
  Notation answer_nc := (answer_nc Sig Act St Ev sig_eqb sig_of is_reject).
  Notation filter_from := (filter_from Sig Act St Ev sig_eqb).
  Notation filter_idx := (filter_idx Sig Act St Ev sig_eqb).
  Notation Coh := (Coh Sig Act St Ev sig_eqb).
  Notation CohPrefix := (CohPrefix Sig Act St Ev sig_eqb).
  Notation router := (router Sig Act St Ev).
  Notation rop := (rop Sig Act St Ev).
  Notation install := (install Sig Act St Ev).
  Notation dispatch := (dispatch Sig Act St Ev sig_eqb sig_of is_reject).
  Notation run_ops := (run_ops Sig Act St Ev sig_eqb sig_of is_reject).
  Notation serve_c := (serve_c Sig Act St Ev sig_eqb sig_of is_reject).
  Notation serve_nc := (serve_nc Sig Act St Ev sig_eqb sig_of is_reject).
  Notation built := (built Sig Act St Ev).
  Notation calls := (calls Sig Act St Ev).
  Notation new_router := (new_router Sig Act St Ev).

  (* ------------------------------------------------------------ induction over nested dispatchers *)
  Section DispInd.
    Variable P : disp -> Prop.
    Hypothesis HP : forall inc call, P (Prim inc call).
    Hypothesis HC : forall w a, P (Ctx w a).
    Hypothesis HT : forall b nx, P b -> Forall P nx -> P (Tandem b nx).
    Fixpoint disp_ind' (d : disp) : P d :=
      match d with
      | Prim i c => HP i c
      | Ctx w a => HC w a
      | Tandem b nx =>
          HT b nx (disp_ind' b)
             ((fix go (l : list disp) : Forall P l :=
                 match l with
                 | [] => Forall_nil P
                 | x :: r => Forall_cons x (disp_ind' x) (go r)
                 end) nx)
      end.
  End DispInd.

  (* ------------------------------------------------------------ simulation between two routers *)
  Section Sim.
    Variables X1 X2 : Type.
    Variable rt1 : X1 -> Act -> St -> X1 * result.
    Variable rt2 : X2 -> Act -> St -> X2 * result.
    Variable Rel : X1 -> X2 -> Prop.
    Hypothesis Hsim : forall x1 x2 a st, Rel x1 x2 ->
      Rel (fst (rt1 x1 a st)) (fst (rt2 x2 a st)) /\ snd (rt1 x1 a st) = snd (rt2 x2 a st).

    Definition simd (d : disp) : Prop := forall x1 x2 a st, Rel x1 x2 ->
      Rel (fst (call_d X1 rt1 d x1 a st)) (fst (call_d X2 rt2 d x2 a st)) /\
      snd (call_d X1 rt1 d x1 a st) = snd (call_d X2 rt2 d x2 a st).

    Lemma next_sim (a : Act) (l : list disp) : Forall simd l -> forall x1 x2 st acc, Rel x1 x2 ->
      Rel (fst (run_next X1 (fun d x s => call_d X1 rt1 d x a s) l x1 st acc))
          (fst (run_next X2 (fun d x s => call_d X2 rt2 d x a s) l x2 st acc)) /\
      snd (run_next X1 (fun d x s => call_d X1 rt1 d x a s) l x1 st acc) =
      snd (run_next X2 (fun d x s => call_d X2 rt2 d x a s) l x2 st acc).
    Proof.
      induction 1 as [|d l Hd Hl IH]; intros x1 x2 st acc HR; cbn [Router.run_next].
      - split; [exact HR|reflexivity].
      - destruct (Hd x1 x2 a st HR) as [R' E].
        destruct (call_d X1 rt1 d x1 a st) as [y1 o1].
        destruct (call_d X2 rt2 d x2 a st) as [y2 o2]. cbn [fst snd] in R', E. subst o2.
        destruct o1 as [[st' ev']|].
        + apply IH. exact R'.
        + split; [exact R'|reflexivity].
    Qed.

    Lemma call_sim : forall d, simd d.
    Proof.
      induction d as [inc f|w defined|b nx IHb IHnx] using disp_ind'; intros x1 x2 a st HR.
      - cbn. split; [exact HR|reflexivity].
      - cbn [Router.call_d]. destruct (sig_eqb (sig_of a) w).
        + apply Hsim. exact HR.
        + cbn. split; [exact HR|reflexivity].
      - cbn [Router.call_d].
        destruct (IHb x1 x2 a st HR) as [R' E].
        destruct (call_d X1 rt1 b x1 a st) as [y1 o1].
        destruct (call_d X2 rt2 b x2 a st) as [y2 o2]. cbn [fst snd] in R', E. subst o2.
        destruct o1 as [[st1 ev1]|].
        + destruct (existsb is_reject ev1).
          * split; [exact R'|reflexivity].
          * apply next_sim; assumption.
        + split; [exact R'|reflexivity].
    Qed.

    Lemma scan_sim (a : Act) (s : Sig) : forall ds i x1 x2 st acc hit, Rel x1 x2 ->
      Rel (fst (run_scan X1 rt1 ds i s x1 a st acc hit)) (fst (run_scan X2 rt2 ds i s x2 a st acc hit)) /\
      snd (run_scan X1 rt1 ds i s x1 a st acc hit) = snd (run_scan X2 rt2 ds i s x2 a st acc hit).
    Proof.
      induction ds as [|d r IH]; intros i x1 x2 st acc hit HR; cbn [Router.run_scan].
      - split; [exact HR|reflexivity].
      - destruct (includes d s).
        + destruct (call_sim d x1 x2 a st HR) as [R' E].
          destruct (call_d X1 rt1 d x1 a st) as [y1 o1].
          destruct (call_d X2 rt2 d x2 a st) as [y2 o2]. cbn [fst snd] in R', E. subst o2.
          destruct o1 as [[st' ev']|].
          * apply IH. exact R'.
          * split; [exact R'|reflexivity].
        + apply IH. exact HR.
    Qed.

    Lemma idx_sim (a : Act) (ds : list disp) : forall idx x1 x2 st acc, Rel x1 x2 ->
      Rel (fst (run_idx X1 rt1 ds idx x1 a st acc)) (fst (run_idx X2 rt2 ds idx x2 a st acc)) /\
      snd (run_idx X1 rt1 ds idx x1 a st acc) = snd (run_idx X2 rt2 ds idx x2 a st acc).
    Proof.
      induction idx as [|i r IH]; intros x1 x2 st acc HR; cbn [Router.run_idx].
      - split; [exact HR|reflexivity].
      - destruct (nth_error ds i) as [d|]; [|split; [exact HR|reflexivity]].
        destruct (call_sim d x1 x2 a st HR) as [R' E].
        destruct (call_d X1 rt1 d x1 a st) as [y1 o1].
        destruct (call_d X2 rt2 d x2 a st) as [y2 o2]. cbn [fst snd] in R', E. subst o2.
        destruct o1 as [[st' ev']|].
        + apply IH. exact R'.
        + split; [exact R'|reflexivity].
    Qed.

    Lemma client_sim {R} (cl : client Act St Ev R) : forall x1 x2, Rel x1 x2 ->
      Rel (fst (run_client X1 rt1 cl x1)) (fst (run_client X2 rt2 cl x2)) /\
      snd (run_client X1 rt1 cl x1) = snd (run_client X2 rt2 cl x2).
    Proof.
      induction cl as [r|a st k IH]; intros x1 x2 HR; cbn [Router.run_client].
      - split; [exact HR|reflexivity].
      - destruct (Hsim x1 x2 a st HR) as [R' E].
        destruct (rt1 x1 a st) as [y1 o1]. destruct (rt2 x2 a st) as [y2 o2].
        cbn [fst snd] in R', E. subst o2. apply IH. exact R'.
    Qed.
  End Sim.

  (* ------------------------------------------------------------ hit loop = scan loop *)
  Definition drop_hit {X} (r : X * option (St * list Ev * list nat)) : X * result :=
    match r with
    | (x, Some (st, evs, _)) => (x, Some (st, evs))
    | (x, None) => (x, None)
    end.

  Section OneRouter.
    Variable X : Type.
    Variable rt : X -> Act -> St -> X * result.

    Lemma scan_hit (a : Act) (s : Sig) : forall ds i x st acc hit x' st' evs h',
      run_scan X rt ds i s x a st acc hit = (x', Some (st', evs, h')) ->
      h' = hit ++ filter_from i ds s.
    Proof.
      induction ds as [|d r IH]; intros i x st acc hit x' st' evs h' E; cbn in E |- *.
      - inversion E. now rewrite app_nil_r.
      - destruct (includes d s).
        + destruct (call_d X rt d x a st) as [y [[st1 ev1]|]]; [|discriminate].
          apply IH in E. rewrite E, <- app_assoc. reflexivity.
        + apply IH in E. exact E.
    Qed.

    Lemma run_idx_scan (a : Act) (s : Sig) : forall r pre x st acc hit,
      drop_hit (run_scan X rt r (length pre) s x a st acc hit) =
      run_idx X rt (pre ++ r) (filter_from (length pre) r s) x a st acc.
    Proof.
      induction r as [|d r IH]; intros pre x st acc hit; cbn [Router.run_scan Router.filter_from].
      - reflexivity.
      - assert (Hl : S (length pre) = length (pre ++ [d])) by (rewrite app_length; cbn; lia).
        assert (Ha : pre ++ d :: r = (pre ++ [d]) ++ r) by (rewrite <- app_assoc; reflexivity).
        destruct (includes d s).
        + cbn [Router.run_idx].
          rewrite nth_error_app2 by lia. rewrite Nat.sub_diag. cbn [nth_error].
          destruct (call_d X rt d x a st) as [y [[st1 ev1]|]]; [|reflexivity].
          rewrite Hl, Ha. apply IH.
        + rewrite Hl, Ha. apply IH.
    Qed.
  End OneRouter.

  (* ------------------------------------------------------------ the cache *)
  Hypothesis sig_eqb_sound : forall a b, sig_eqb a b = true -> a = b.

  Lemma coh_nil ds : Coh ds [].
  Proof. intros s idx E. discriminate. Qed.

  Lemma coh_put ds c s : Coh ds c -> Coh ds (put c s (filter_idx ds s)).
  Proof.
    intros HC s' idx. unfold Router.put. cbn [Router.lookup].
    destruct (sig_eqb s s') eqn:E.
    - apply sig_eqb_sound in E. subst s'. intros X; inversion X. reflexivity.
    - apply HC.
  Qed.

  (* one dispatch from a coherent cache: coherent afterwards (also when it raised), answer of the
     cache-free router *)
  Lemma dispatch_coh ds : forall fuel c a st, Coh ds c ->
    Coh ds (fst (dispatch_c fuel ds c a st)) /\
    snd (dispatch_c fuel ds c a st) = snd (dispatch_nc fuel ds tt a st).
  Proof.
    induction fuel as [|n IH]; intros c a st HC.
    - cbn. split; [exact HC|reflexivity].
    - assert (Hsim : forall (x1 : cache) (x2 : unit) a st, (fun c (_ : unit) => Coh ds c) x1 x2 ->
                (fun c (_ : unit) => Coh ds c) (fst (dispatch_c n ds x1 a st)) (fst (dispatch_nc n ds x2 a st)) /\
                snd (dispatch_c n ds x1 a st) = snd (dispatch_nc n ds x2 a st)).
      { intros x1 [] a' st' H1. apply IH. exact H1. }
      pose proof (scan_sim cache unit (dispatch_c n ds) (dispatch_nc n ds) (fun c _ => Coh ds c) Hsim
                           a (sig_of a) ds 0 c tt st [] [] HC) as [HR HE].
      cbn [Router.dispatch_c Router.dispatch_nc].
      destruct (run_scan unit (dispatch_nc n ds) ds 0 (sig_of a) tt a st [] []) as [u2 o2] eqn:E2.
      cbn [fst snd] in HR, HE.
      destruct (lookup c (sig_of a)) as [idx|] eqn:EL.
      + rewrite (HC _ _ EL). unfold Router.filter_idx.
        pose proof (run_idx_scan cache (dispatch_c n ds) a (sig_of a) ds [] c st [] []) as HI.
        cbn [length app] in HI. rewrite <- HI.
        destruct (run_scan cache (dispatch_c n ds) ds 0 (sig_of a) c a st [] []) as [c1 o1].
        cbn [fst snd] in HR, HE. subst o2.
        destruct o1 as [[[st' evs] h]|]; cbn; split; auto.
      + destruct (run_scan cache (dispatch_c n ds) ds 0 (sig_of a) c a st [] []) as [c1 o1] eqn:E1.
        cbn [fst snd] in HR, HE. subst o2.
        destruct o1 as [[[st' evs] h]|]; cbn [fst snd]; split; auto.
        apply scan_hit in E1. cbn [app] in E1. subst h. apply coh_put. exact HR.
    Qed.

  Lemma dispatch_answer ds fuel c a st : Coh ds c ->
    snd (dispatch_c fuel ds c a st) = answer_nc fuel ds a st.
  Proof. intros HC. apply dispatch_coh. exact HC. Qed.

  (* any client, from any coherent cache *)
  Lemma client_coh ds fuel {R} (cl : client Act St Ev R) c : Coh ds c ->
    Coh ds (fst (run_client cache (dispatch_c fuel ds) cl c)) /\
    snd (run_client cache (dispatch_c fuel ds) cl c) =
    snd (run_client unit (dispatch_nc fuel ds) cl tt).
  Proof.
    intros HC.
    apply (client_sim cache unit (dispatch_c fuel ds) (dispatch_nc fuel ds) (fun c _ => Coh ds c)); [|exact HC].
    intros x1 [] a st H1. apply dispatch_coh. exact H1.
  Qed.

  (* ------------------------------------------------------------ sequences of dispatches *)
  Lemma run_ops_calls ds fuel : forall l c, Coh ds c ->
    snd (run_ops fuel {| dsp := ds; rc := c |} (calls l)) =
    map (fun p => answer_nc fuel ds (fst p) (snd p)) l.
  Proof.
    induction l as [|[a st] l IH]; intros c HC; cbn; [reflexivity|].
    fold (calls l). unfold Router.dispatch. cbn [dsp rc].
    destruct (dispatch_coh ds fuel c a st HC) as [HC' HE].
    destruct (dispatch_c fuel ds c a st) as [c' o]. cbn [fst snd] in HC', HE.
    specialize (IH c' HC').
    destruct (run_ops fuel {| dsp := ds; rc := c' |} (calls l)) as [r'' os]. cbn [snd] in IH |- *.
    rewrite IH. f_equal. exact HE.
  Qed.

  Lemma built_from ds : forall r, fold_left install ds r = {| dsp := dsp r ++ ds; rc := rc r |}.
  Proof.
    induction ds as [|d ds IH]; intros [dd c]; cbn.
    - now rewrite app_nil_r.
    - rewrite IH. cbn. now rewrite <- app_assoc.
  Qed.

  Lemma built_eq ds : built ds = {| dsp := ds; rc := [] |}.
  Proof. unfold Router.built. rewrite built_from. reflexivity. Qed.

  Theorem route_cache fuel ds l :
    serve_c fuel (built ds) (calls l) = map (fun p => answer_nc fuel ds (fst p) (snd p)) l.
  Proof. unfold Router.serve_c. rewrite built_eq. apply run_ops_calls, coh_nil. Qed.

  Lemma serve_nc_calls fuel ds l :
    serve_nc fuel ds (calls l) = map (fun p => answer_nc fuel ds (fst p) (snd p)) l.
  Proof. induction l as [|[a st] l IH]; cbn; [reflexivity|]. fold (calls l). now rewrite IH. Qed.

  Lemma run_ops_app fuel : forall o1 o2 r,
    run_ops fuel r (o1 ++ o2) =
    (fst (run_ops fuel (fst (run_ops fuel r o1)) o2),
     snd (run_ops fuel r o1) ++ snd (run_ops fuel (fst (run_ops fuel r o1)) o2)).
  Proof.
    induction o1 as [|[d|a st] o1 IH]; intros o2 r; cbn [app Router.run_ops].
    - cbn. now destruct (run_ops fuel r o2).
    - apply IH.
    - destruct (dispatch fuel r a st) as [r' o]. rewrite IH.
      destruct (run_ops fuel r' o1) as [r1 os1]. cbn [fst snd].
      destruct (run_ops fuel r1 o2) as [r2 os2]. reflexivity.
  Qed.

  Lemma run_ops_installs fuel ds : forall r,
    run_ops fuel r (map Install ds) = ({| dsp := dsp r ++ ds; rc := rc r |}, []).
  Proof.
    induction ds as [|d ds IH]; intros [dd c]; cbn [map Router.run_ops].
    - cbn. now rewrite app_nil_r.
    - rewrite IH. cbn. now rewrite <- app_assoc.
  Qed.

  (* the form of the property text: install everything, then any sequence of dispatches *)
  Theorem route_cache_ops fuel ds l :
    serve_c fuel new_router (map Install ds ++ calls l) = serve_nc fuel [] (map Install ds ++ calls l).
  Proof.
    unfold Router.serve_c. rewrite run_ops_app, run_ops_installs. cbn [fst snd app dsp rc new_router].
    rewrite (run_ops_calls ds fuel l [] (coh_nil ds)).
    assert (forall ds0, serve_nc fuel ds0 (map Install ds ++ calls l) = serve_nc fuel (ds0 ++ ds) (calls l)) as H.
    { clear. induction ds as [|d ds IH]; intros ds0; cbn [map app Router.serve_nc].
      - now rewrite app_nil_r.
      - rewrite IH, <- app_assoc. reflexivity. }
    rewrite H. cbn [app]. now rewrite serve_nc_calls.
  Qed.

  (* coherence after any sequence of dispatches *)
  Lemma run_ops_coh ds fuel : forall l c, Coh ds c ->
    dsp (fst (run_ops fuel {| dsp := ds; rc := c |} (calls l))) = ds /\
    Coh ds (rc (fst (run_ops fuel {| dsp := ds; rc := c |} (calls l)))).
  Proof.
    induction l as [|[a st] l IH]; intros c HC; cbn; [split; [reflexivity|exact HC]|].
    fold (calls l). unfold Router.dispatch. cbn [dsp rc].
    destruct (dispatch_coh ds fuel c a st HC) as [HC' _].
    destruct (dispatch_c fuel ds c a st) as [c' o]. cbn [fst] in HC'.
    specialize (IH c' HC').
    destruct (run_ops fuel {| dsp := ds; rc := c' |} (calls l)) as [r'' os]. exact IH.
  Qed.

  (* history freedom: two routers built alike, each asked something else before, answer the same
     to whatever comes next *)
  Theorem history_free fuel ds h1 h2 l :
    snd (run_ops fuel (fst (run_ops fuel (built ds) (calls h1))) (calls l)) =
    snd (run_ops fuel (fst (run_ops fuel (built ds) (calls h2))) (calls l)).
  Proof.
    rewrite built_eq.
    destruct (run_ops_coh ds fuel h1 [] (coh_nil ds)) as [D1 C1].
    destruct (run_ops_coh ds fuel h2 [] (coh_nil ds)) as [D2 C2].
    destruct (fst (run_ops fuel {| dsp := ds; rc := [] |} (calls h1))) as [d1 c1].
    destruct (fst (run_ops fuel {| dsp := ds; rc := [] |} (calls h2))) as [d2 c2].
    cbn [dsp rc] in *. subst d1 d2.
    rewrite (run_ops_calls ds fuel l c1 C1), (run_ops_calls ds fuel l c2 C2). reflexivity.
  Qed.

  (* the same for interactive clients (the engine, `play`, a ContextDispatcher ... are clients):
     whatever client ran before, the next client gets the answers of the cache-free router *)
  Theorem any_client fuel ds {R1 R2} (before : client Act St Ev R1) (cl : client Act St Ev R2) :
    snd (run_client cache (dispatch_c fuel ds) cl
           (fst (run_client cache (dispatch_c fuel ds) before []))) =
    snd (run_client unit (dispatch_nc fuel ds) cl tt).
  Proof.
    apply client_coh. apply (client_coh ds fuel before []). apply coh_nil.
  Qed.

  (* ------------------------------------------------------------ install after dispatch *)
  Lemma filter_from_app s : forall ds i d,
    filter_from i (ds ++ [d]) s =
    filter_from i ds s ++ (if includes d s then [i + length ds] else []).
  Proof.
    induction ds as [|x ds IH]; intros i d; cbn [app Router.filter_from length].
    - rewrite Nat.add_0_r. destruct (includes d s); reflexivity.
    - rewrite IH. replace (S i + length ds) with (i + S (length ds)) by lia.
      destruct (includes x s); reflexivity.
  Qed.

  Lemma cohp_of_coh ds c : Coh ds c -> CohPrefix ds c.
  Proof.
    intros HC s idx E. exists (length ds). split; [lia|]. rewrite firstn_all. apply HC, E.
  Qed.

  Lemma cohp_install ds c d : CohPrefix ds c -> CohPrefix (ds ++ [d]) c.
  Proof.
    intros HC s idx E. destruct (HC s idx E) as [k [Hk Hi]]. exists k. split.
    - rewrite app_length. lia.
    - rewrite firstn_app. replace (k - length ds) with 0 by lia. cbn. now rewrite app_nil_r.
  Qed.

  Lemma cohp_put ds c s : CohPrefix ds c -> CohPrefix ds (put c s (filter_idx ds s)).
  Proof.
    intros HC s' idx. unfold Router.put. cbn [Router.lookup].
    destruct (sig_eqb s s') eqn:E.
    - apply sig_eqb_sound in E. subst s'. intros X; inversion X.
      exists (length ds). split; [lia|now rewrite firstn_all].
    - apply HC.
  Qed.

  (* whatever was installed when: a dispatch keeps every entry the filter over a prefix *)
  Lemma dispatch_cohp ds : forall fuel c a st, CohPrefix ds c ->
    CohPrefix ds (fst (dispatch_c fuel ds c a st)).
  Proof.
    induction fuel as [|n IH]; intros c a st HC; [exact HC|].
    set (Rel := fun c1 c2 : cache => c1 = c2 /\ CohPrefix ds c1).
    assert (Hsim : forall x1 x2 a st, Rel x1 x2 ->
                Rel (fst (dispatch_c n ds x1 a st)) (fst (dispatch_c n ds x2 a st)) /\
                snd (dispatch_c n ds x1 a st) = snd (dispatch_c n ds x2 a st)).
    { intros x1 x2 a' st' [E H1]. subst x2. repeat split. apply IH. exact H1. }
    cbn [Router.dispatch_c].
    destruct (lookup c (sig_of a)) as [idx|] eqn:EL.
    - apply (idx_sim cache cache (dispatch_c n ds) (dispatch_c n ds) Rel Hsim a ds idx c c st []).
      split; [reflexivity|exact HC].
    - pose proof (scan_sim cache cache (dispatch_c n ds) (dispatch_c n ds) Rel Hsim
                           a (sig_of a) ds 0 c c st [] [] (conj eq_refl HC)) as [[_ HR] _].
      destruct (run_scan cache (dispatch_c n ds) ds 0 (sig_of a) c a st [] []) as [c1 o1] eqn:E1.
      cbn [fst] in HR.
      destruct o1 as [[[st' evs] h]|]; cbn [fst]; [|exact HR].
      apply scan_hit in E1. cbn [app] in E1. subst h. apply cohp_put. exact HR.
  Qed.

  Theorem late_install_prefix fuel : forall ops r, CohPrefix (dsp r) (rc r) ->
    CohPrefix (dsp (fst (run_ops fuel r ops))) (rc (fst (run_ops fuel r ops))).
  Proof.
    induction ops as [|[d|a st] ops IH]; intros r HC; cbn [Router.run_ops].
    - exact HC.
    - apply IH. cbn. apply cohp_install. exact HC.
    - unfold Router.dispatch.
      pose proof (dispatch_cohp (dsp r) fuel (rc r) a st HC) as H1.
      destruct (dispatch_c fuel (dsp r) (rc r) a st) as [c' o]. cbn [fst] in H1.
      specialize (IH {| dsp := dsp r; rc := c' |} H1).
      destruct (run_ops fuel {| dsp := dsp r; rc := c' |} ops) as [r'' os]. exact IH.
  Qed.

  Corollary late_install_prefix_new fuel ops :
    CohPrefix (dsp (fst (run_ops fuel new_router ops))) (rc (fst (run_ops fuel new_router ops))).
  Proof. apply late_install_prefix. intros s idx E. discriminate. Qed.
End RouterProofs.

(* ------------------------------------------------------------------ non-vacuity and the stale entry *)
Module RouterExamples.
  (* signatures and actions are numbers, the store is the trace of primitive calls, one event per call *)
  Definition P (i : nat) (incl : list nat) : disp nat nat (list (nat * nat)) nat :=
    Prim (fun s => existsb (Nat.eqb s) incl) (fun a st => Some (st ++ [(i, a)], [i])).
  Definition sg (a : nat) : nat := a.
  Definition norej (e : nat) : bool := false.      (* no event is a rejection *)

  (* 0 listens to 1 and 7; 1 listens to 1, and whenever it handled 1 it makes the router dispatch 7;
     2 listens to 7 *)
  Definition ds3 := [P 0 [1; 7]; Tandem (P 1 [1]) [Ctx 1 7]; P 2 [7]].

  (* dispatching 1 runs 0, then 1, then (re-entrantly, signature 7) 0 and 2; 7 is cached by the
     nested dispatch before 1 is; the second dispatch of 1 is a hit *)
  Example nontrivial_dispatch :
    serve_c nat nat (list (nat * nat)) nat Nat.eqb sg norej 5 (built nat nat _ nat ds3)
            (calls nat nat _ nat [(1, []); (1, []); (7, [])]) =
    [Some ([(0, 1); (1, 1); (0, 7); (2, 7)], [0; 1; 0; 2]);
     Some ([(0, 1); (1, 1); (0, 7); (2, 7)], [0; 1; 0; 2]);
     Some ([(0, 7); (2, 7)], [0; 2])] /\
    rc (fst (run_ops nat nat _ nat Nat.eqb sg norej 5 (built nat nat _ nat ds3)
                                  (calls nat nat _ nat [(1, [])]))) = [(1, [0; 1]); (7, [0; 2])].
  Proof. vm_compute. split; reflexivity. Qed.

  (* install after the first dispatch: the code keeps the old entry, so the late dispatcher is NOT
     called for a signature dispatched before (and is called for every other one) -- the caching
     and the cache-free router differ; this is why the theorems require install-before-dispatch *)
  Example late_install_is_stale :
    let ops := [Install (P 0 [1; 7]); Dispatch 1 []; Install (P 3 [1; 7]); Dispatch 1 []; Dispatch 7 []] in
    serve_c nat nat (list (nat * nat)) nat Nat.eqb sg norej 5 (new_router nat nat _ nat) ops =
      [Some ([(0, 1)], [0]); Some ([(0, 1)], [0]); Some ([(0, 7); (3, 7)], [0; 3])] /\
    serve_nc nat nat (list (nat * nat)) nat Nat.eqb sg norej 5 [] ops =
      [Some ([(0, 1)], [0]); Some ([(0, 1); (3, 1)], [0; 3]); Some ([(0, 7); (3, 7)], [0; 3])].
  Proof. vm_compute. split; reflexivity. Qed.

  (* the same router when the event of dispatcher 1 counts as a rejection: its follower (the re-entrant
     dispatch of 7) does not run -- TandemDispatcher returns a rejected base answer as it is *)
  Example rejected_base_skips_followers :
    serve_c nat nat (list (nat * nat)) nat Nat.eqb sg (Nat.eqb 1) 5 (built nat nat _ nat ds3)
            (calls nat nat _ nat [(1, []); (7, [])]) =
    [Some ([(0, 1); (1, 1)], [0; 1]); Some ([(0, 7); (2, 7)], [0; 2])].
  Proof. vm_compute. reflexivity. Qed.

  (* out of fuel (unbounded re-entrance) both routers raise *)
  Example both_raise :
    let loop := [Tandem (P 0 [1]) [Ctx 1 1]] in
    serve_c nat nat (list (nat * nat)) nat Nat.eqb sg norej 9 (built nat nat _ nat loop) (calls nat nat _ nat [(1, [])]) = [None] /\
    serve_nc nat nat (list (nat * nat)) nat Nat.eqb sg norej 9 loop (calls nat nat _ nat [(1, [])]) = [None].
  Proof. vm_compute. split; reflexivity. Qed.
End RouterExamples.
