(* Dispatch / store glue lifted through Tandem / Context addons and the router (Model/Router.v reused):
   * a generic invariant lemma for the router of Model/Router.v (any cache, any nesting depth);
   * a signature-aware, graded scan lemma for systems built from component dispatchers and the timer;
   * the write frame (coarse: any cache; fine: the addresses `touched` statically from the signature),
     the clock theorem, and the shape of the reducer-invocation trace of one dispatch. *)
From Coq Require Import List Bool Arith String Ascii ZArith Lia.
From V.Model Require Import Router Play Dispatch.
From V.Proofs Require Import RouterCache DispatchStore.
Import ListNotations.
Local Open Scope string_scope.

(* ------------------------------------------------------------------ generic: invariants of the router *)
Section RouterInv.
  Variables Sig Act St Ev : Type.
  Variable sig_eqb : Sig -> Sig -> bool.
  Variable sig_of : Act -> Sig.
  Variable is_reject : Ev -> bool.
  Notation disp := (Router.disp Sig Act St Ev).
  Notation result := (Router.result St Ev).
  Notation call_d := (Router.call_d Sig Act St Ev sig_eqb sig_of is_reject).
  Notation run_next := (Router.run_next Sig Act St Ev).
  Notation run_idx := (Router.run_idx Sig Act St Ev sig_eqb sig_of is_reject).
  Notation run_scan := (Router.run_scan Sig Act St Ev sig_eqb sig_of is_reject).
  Notation dispatch_c := (Router.dispatch_c Sig Act St Ev sig_eqb sig_of is_reject).
  Notation dispatch_nc := (Router.dispatch_nc Sig Act St Ev sig_eqb sig_of is_reject).

  Variable M : Act -> Prop.              (* the actions for which the primitive dispatchers are known to keep Q *)
  Variable Q : St -> St -> Prop.
  Hypothesis Qrefl : forall s, Q s s.
  Hypothesis Qtrans : forall a b c, Q a b -> Q b c -> Q a c.

  Inductive ok_d : disp -> Prop :=
  | ok_prim inc call : (forall a s s' ev, M a -> call a s = Some (s', ev) -> Q s s') -> ok_d (Prim inc call)
  | ok_ctx w def : M def -> ok_d (Ctx w def)
  | ok_tandem b nx : ok_d b -> Forall ok_d nx -> ok_d (Tandem b nx).

  Section Rt.
    Variable X : Type.
    Variable rt : X -> Act -> St -> X * result.
    Hypothesis Hrt : forall x a s x' s' ev, M a -> rt x a s = (x', Some (s', ev)) -> Q s s'.

    Definition keeps (a : Act) (d : disp) : Prop :=
      forall x s x' s' ev, call_d X rt d x a s = (x', Some (s', ev)) -> Q s s'.

    Lemma run_next_inv (a : Act) (l : list disp) : Forall (keeps a) l ->
      forall x s acc x' s' ev,
        run_next X (fun d' x' st' => call_d X rt d' x' a st') l x s acc = (x', Some (s', ev)) -> Q s s'.
    Proof.
      induction 1 as [|d l Hd Hl IH]; intros x s acc x' s' ev H; cbn [Router.run_next] in H.
      - inversion H; subst. apply Qrefl.
      - destruct (call_d X rt d x a s) as [x1 [[s1 ev1]|]] eqn:E; [|inversion H].
        eapply Qtrans; [eapply Hd; exact E|eapply IH; exact H].
    Qed.

    Lemma call_d_inv : forall d, ok_d d -> forall a, M a -> keeps a d.
    Proof.
      induction d as [inc f|w defined|b nx IHb IHnx] using (disp_ind' Sig Act St Ev);
        intros OK a Ma x s x' s' ev H.
      - inversion OK; subst. cbn in H. inversion H; subst. eapply H1; eauto.
      - inversion OK; subst. cbn in H. destruct (sig_eqb (sig_of a) w).
        + eapply Hrt; eauto.
        + inversion H; subst. apply Qrefl.
      - inversion OK; subst. cbn [Router.call_d] in H.
        destruct (call_d X rt b x a s) as [x1 [[s1 ev1]|]] eqn:E; [|inversion H].
        destruct (existsb is_reject ev1); [inversion H; subst; eapply IHb; eauto|].
        eapply Qtrans; [eapply IHb; eauto|].
        eapply run_next_inv; [|exact H].
        rewrite Forall_forall in *. intros d I. apply IHnx; auto.
    Qed.

    Lemma run_idx_inv (a : Act) (ds : list disp) : Forall ok_d ds -> M a ->
      forall idx x s acc x' s' ev, run_idx X rt ds idx x a s acc = (x', Some (s', ev)) -> Q s s'.
    Proof.
      intros OK Ma. induction idx as [|i r IH]; intros x s acc x' s' ev H; cbn [Router.run_idx] in H.
      - inversion H; subst. apply Qrefl.
      - destruct (nth_error ds i) as [d|] eqn:N; [|inversion H].
        destruct (call_d X rt d x a s) as [x1 [[s1 ev1]|]] eqn:E; [|inversion H].
        eapply Qtrans; [|eapply IH; exact H].
        eapply call_d_inv; [|exact Ma|exact E]. rewrite Forall_forall in OK. apply OK. eapply nth_error_In; exact N.
    Qed.

    Lemma run_scan_inv (a : Act) (sg : Sig) : M a ->
      forall ds, Forall ok_d ds -> forall i x s acc hit x' s' evs hit',
        run_scan X rt ds i sg x a s acc hit = (x', Some (s', evs, hit')) -> Q s s'.
    Proof.
      intros Ma. induction ds as [|d r IH]; intros OK i x s acc hit x' s' evs hit' H; cbn [Router.run_scan] in H.
      - inversion H; subst. apply Qrefl.
      - inversion OK; subst. destruct (Router.includes Sig Act St Ev sig_eqb d sg).
        + destruct (call_d X rt d x a s) as [x1 [[s1 ev1]|]] eqn:E; [|inversion H].
          eapply Qtrans; [eapply call_d_inv; eauto|eapply IH; eauto].
        + eapply IH; eauto.
    Qed.
  End Rt.

  (* every dispatch of an M-action, from ANY route cache (coherent or not), keeps Q *)
  Theorem dispatch_c_inv (ds : list disp) : Forall ok_d ds ->
    forall fuel c a s c' s' evs, M a -> dispatch_c fuel ds c a s = (c', Some (s', evs)) -> Q s s'.
  Proof.
    intros OK. induction fuel as [|n IH]; intros c a s c' s' evs Ma H; cbn [Router.dispatch_c] in H; [inversion H|].
    assert (Hrt : forall x a s x' s' ev, M a -> dispatch_c n ds x a s = (x', Some (s', ev)) -> Q s s')
      by (intros; eapply IH; eauto).
    destruct (Router.lookup Sig sig_eqb c (sig_of a)) as [idx|].
    - eapply run_idx_inv; eauto.
    - destruct (run_scan (Router.cache Sig) (dispatch_c n ds) ds 0 (sig_of a) c a s [] []) as [c1 [[[s1 ev1] h1]|]] eqn:E;
        [|inversion H].
      inversion H; subst. eapply run_scan_inv; eauto.
  Qed.
  Theorem dispatch_nc_inv (ds : list disp) : Forall ok_d ds ->
    forall fuel u a s u' s' evs, M a -> dispatch_nc fuel ds u a s = (u', Some (s', evs)) -> Q s s'.
  Proof.
    intros OK. induction fuel as [|n IH]; intros u a s u' s' evs Ma H; cbn [Router.dispatch_nc] in H; [inversion H|].
    assert (Hrt : forall x a s x' s' ev, M a -> dispatch_nc n ds x a s = (x', Some (s', ev)) -> Q s s')
      by (intros; eapply IH; eauto).
    destruct (run_scan unit (dispatch_nc n ds) ds 0 (sig_of a) tt a s [] []) as [c1 [[[s1 ev1] h1]|]] eqn:E;
      [|inversion H].
    inversion H; subst. eapply run_scan_inv; eauto.
  Qed.
End RouterInv.

Lemma flat_map_filter_nil {A B} (f : A -> bool) (g : A -> list B) (l : list A) :
  (forall x, f x = false -> g x = []) -> flat_map g (filter f l) = flat_map g l.
Proof.
  intros H. induction l as [|x l IH]; cbn; [reflexivity|].
  destruct (f x) eqn:E; cbn; rewrite IH; [reflexivity|]. rewrite (H x E). reflexivity.
Qed.

Section Sys.
  Variables Ent Pay : Type.
  Variable empty_pay : Pay.
  Variable clock0 : Ent.
  Variable spent : Ent -> Pay -> option Ent.

  Notation store := (Dispatch.store Ent).
  Notation component := (Dispatch.component Ent Pay).
  Notation inst := (Dispatch.inst Ent Pay).
  Notation rst := (Dispatch.rst Ent Pay).
  Notation event := (Dispatch.event Pay).
  Notation action := (Dispatch.action Pay).
  Notation invocation := (Dispatch.invocation Pay).
  Notation disp := (Dispatch.disp Ent Pay).
  Notation result := (Router.result rst event).
  Notation call_comp := (Dispatch.call_comp Ent Pay empty_pay).
  Notation timer_call := (Dispatch.timer_call Ent Pay clock0 spent).
  Notation comp_disp := (Dispatch.comp_disp Ent Pay empty_pay).
  Notation timer_disp := (Dispatch.timer_disp Ent Pay clock0 spent).
  Notation disp_of := (Dispatch.disp_of Ent Pay empty_pay clock0 spent).
  Notation installed := (Dispatch.installed Ent Pay empty_pay clock0 spent).
  Notation dispatch_c := (Dispatch.dispatch_c Ent Pay).
  Notation dispatch_nc := (Dispatch.dispatch_nc Ent Pay).
  Notation call_d := (Router.call_d string action rst event String.eqb sig_of ev_is_reject).
  Notation run_next := (Router.run_next string action rst event).
  Notation run_scan := (Router.run_scan string action rst event String.eqb sig_of ev_is_reject).
  Notation includes_b := (Dispatch.includes_b Ent Pay).
  Notation inst_includes := (Dispatch.inst_includes Ent Pay).
  Notation bound_addrs := (Dispatch.bound_addrs Ent Pay).
  Notation touched := (Dispatch.touched Ent Pay).
  Notation comps_of := (Dispatch.comps_of Ent Pay).
  Notation all_bound := (Dispatch.all_bound Ent Pay).
  Notation direct := (Dispatch.direct Ent Pay).
  Notation top_only := (Dispatch.top_only Pay).
  Notation mark := (Dispatch.mark Pay).
  Notation agree_outside := (DispatchStore.agree_outside Ent).
  Notation pres_le := (DispatchStore.pres_le Ent).
  Notation Coh := (Router.Coh string action rst event String.eqb).

  Lemma eqb_sound : forall a b : string, String.eqb a b = true -> a = b.
  Proof. intros a b. apply String.eqb_eq. Qed.

  Lemma includes_disp_of (i : inst) (s : string) :
    Router.includes string action rst event String.eqb (disp_of i) s = inst_includes i s.
  Proof. destruct i; reflexivity. Qed.

  Lemma comps_of_in (sys : list inst) (c : component) : In c (comps_of sys) <-> In (IComp c) sys.
  Proof using.
    induction sys as [|[c'|] r IH]; cbn.
    - split; intros [].
    - rewrite IH. split; intros [E|I]; auto; left; congruence.
    - rewrite IH. split; [auto|]. intros [E|I]; [discriminate|auto].
  Qed.

  (* the cached router answers like the cache-free one (C02), so statements proved for the scan carry over *)
  Lemma c_to_nc (ds : list disp) fuel c a s c' r : Coh ds c -> dispatch_c fuel ds c a s = (c', r) ->
    Coh ds c' /\ snd (dispatch_nc fuel ds tt a s) = r.
  Proof.
    intros HC H. pose proof (dispatch_coh string action rst event String.eqb sig_of ev_is_reject eqb_sound ds fuel c a s HC) as [C1 E].
    unfold Dispatch.dispatch_c in H. unfold Dispatch.dispatch_nc. rewrite H in C1, E. cbn [fst snd] in C1, E.
    split; [exact C1|symmetry; exact E].
  Qed.

  (* ---------------------------------------------------------------- graded scan lemma *)
  Section Scan.
    Variable G : Type.
    Variable Q : list G -> rst -> rst -> Prop.
    Hypothesis Q0 : forall s, Q [] s s.
    Hypothesis Qapp : forall l1 l2 s s1 s2, Q l1 s s1 -> Q l2 s1 s2 -> Q (l1 ++ l2) s s2.
    Variable X : Type.
    Variable rt : X -> action -> rst -> X * result.
    Variable a : action.
    Variable g : inst -> list G.
    Variable sys : list inst.
    Hypothesis Hcomp : forall c s s' ev, In (IComp c) sys -> includes_b c (sig_of a) = true ->
      call_comp c a s = Some (s', ev) -> Q (g (IComp c)) s s'.
    Hypothesis Htimer : forall s s' ev, In ITimer sys -> timer_includes (sig_of a) = true ->
      timer_call a s = Some (s', ev) -> Q (g ITimer) s s'.
    Hypothesis Haddon : forall c ad x s x' s' ev, In (IComp c) sys -> includes_b c (sig_of a) = true ->
      In ad (c_addons c) -> String.eqb (sig_of a) (msig (c_name c) (ad_when ad)) = true ->
      rt x (mark (ad_action ad)) s = (x', Some (s', ev)) -> Q [] s s'.

    Lemma addons_inv (c : component) : In (IComp c) sys -> includes_b c (sig_of a) = true ->
      forall ads, incl ads (c_addons c) -> forall x s acc x' s' ev,
        run_next X (fun d' x' st' => call_d X rt d' x' a st')
                 (map (fun ad => Ctx (msig (c_name c) (ad_when ad)) (mark (ad_action ad))) ads) x s acc
        = (x', Some (s', ev)) -> Q [] s s'.
    Proof.
      intros Ic Inc. induction ads as [|ad r IH]; intros Hin x s acc x' s' ev H; cbn [map Router.run_next] in H.
      - inversion H; subst. apply Q0.
      - cbn [Router.call_d] in H.
        destruct (String.eqb (sig_of a) (msig (c_name c) (ad_when ad))) eqn:E.
        + destruct (rt x (mark (ad_action ad)) s) as [x1 [[s1 ev1]|]] eqn:R; [|inversion H].
          change (@nil G) with (@nil G ++ @nil G)%list. eapply Qapp.
          * eapply Haddon; eauto. apply Hin. left. reflexivity.
          * eapply IH; [|exact H]. intros y I. apply Hin. right. exact I.
        + eapply IH; [|exact H]. intros y I. apply Hin. right. exact I.
    Qed.

    Lemma inst_call_inv (i : inst) : In i sys -> inst_includes i (sig_of a) = true ->
      forall x s x' s' ev, call_d X rt (disp_of i) x a s = (x', Some (s', ev)) -> Q (g i) s s'.
    Proof.
      intros Ii Inc x s x' s' ev H. destruct i as [c|]; cbn [Dispatch.disp_of] in H.
      - unfold Dispatch.comp_disp in H. cbn [Router.call_d] in H.
        destruct (call_comp c a s) as [[s1 ev1]|] eqn:E; [|inversion H].
        destruct (existsb ev_is_reject ev1); [inversion H; subst; eapply Hcomp; eauto|].
        rewrite <- (app_nil_r (g (IComp c))). eapply Qapp.
        + eapply Hcomp; eauto.
        + eapply addons_inv; [exact Ii|exact Inc|apply incl_refl|exact H].
      - cbn in H. destruct (timer_call a s) as [[s1 ev1]|] eqn:E; inversion H; subst.
        eapply Htimer; eauto.
    Qed.

    Lemma scan_inv : forall sys', incl sys' sys -> forall i x s acc hit x' s' evs hit',
      run_scan X rt (map disp_of sys') i (sig_of a) x a s acc hit = (x', Some (s', evs, hit')) ->
      Q (flat_map g (filter (fun i => inst_includes i (sig_of a)) sys')) s s'.
    Proof.
      induction sys' as [|j r IH]; intros Hin i x s acc hit x' s' evs hit' H; cbn [map Router.run_scan] in H.
      - inversion H; subst. apply Q0.
      - rewrite includes_disp_of in H. cbn [filter]. destruct (inst_includes j (sig_of a)) eqn:Inc.
        + destruct (call_d X rt (disp_of j) x a s) as [x1 [[s1 ev1]|]] eqn:E; [|inversion H].
          cbn [flat_map]. eapply Qapp.
          * eapply inst_call_inv; [apply Hin; left; reflexivity|exact Inc|exact E].
          * eapply IH; [|exact H]. intros y I. apply Hin. right. exact I.
        + eapply IH; [|exact H]. intros y I. apply Hin. right. exact I.
    Qed.
  End Scan.

  Lemma nc_unfold (ds : list disp) n a s u s' evs :
    dispatch_nc (S n) ds tt a s = (u, Some (s', evs)) ->
    exists x' hit', run_scan unit (dispatch_nc n ds) ds 0 (sig_of a) tt a s [] [] = (x', Some (s', evs, hit')).
  Proof.
    unfold Dispatch.dispatch_nc. cbn [Router.dispatch_nc]. intros H.
    destruct (Router.run_scan string action rst event String.eqb sig_of ev_is_reject unit
                (Router.dispatch_nc string action rst event String.eqb sig_of ev_is_reject n ds) ds 0 (sig_of a) tt a s [] [])
      as [x1 [[[s1 ev1] h1]|]] eqn:E; inversion H; subst. eexists; eexists; reflexivity.
  Qed.

  (* ---------------------------------------------------------------- write frame *)
  (* coarse, from any cache: nothing outside the bound addresses of the installed components (and the
     clock address when a timer is installed) changes; nothing disappears *)
  Definition sys_addrs (sys : list inst) : list string := (all_bound (comps_of sys) ++ [clock_addr])%list.

  Lemma frame_ok_d (B : list string) (i : inst) :
    (forall c, i = IComp c -> incl (bound_addrs c) B) -> (i = ITimer -> In clock_addr B) ->
    ok_d string action rst event (fun _ => True)
         (fun s s' => agree_outside B (fst s) (fst s') /\ pres_le (fst s) (fst s')) (disp_of i).
  Proof.
    intros Hc Ht. destruct i as [c|]; cbn [Dispatch.disp_of].
    - unfold Dispatch.comp_disp. constructor.
      + constructor. intros a [st tr] [st' tr'] ev _ H. apply call_comp_frame in H. destruct H as (A & P & _). cbn. split; [|exact P].
        eapply agree_weaken; [|exact A]. apply Hc. reflexivity.
      + rewrite Forall_forall. intros d I. apply in_map_iff in I. destruct I as (ad & E & _). subst d. constructor. exact I.
    - constructor. intros a [st tr] s' ev _ H. apply timer_call_spec in H. destruct H as (_ & _ & A & P & _). split; [|exact P].
      eapply agree_weaken; [|exact A]. intros x [E|[]]. subst x. apply Ht. reflexivity.
  Qed.

  Theorem router_frame_coarse (sys : list inst) fuel c a s c' s' evs :
    dispatch_c fuel (installed sys) c a s = (c', Some (s', evs)) ->
    agree_outside (sys_addrs sys) (fst s) (fst s') /\ pres_le (fst s) (fst s').
  Proof.
    intros H. unfold Dispatch.dispatch_c in H.
    eapply (dispatch_c_inv string action rst event String.eqb sig_of ev_is_reject (fun _ => True)
              (fun s s' => agree_outside (sys_addrs sys) (fst s) (fst s') /\ pres_le (fst s) (fst s')));
      [| |apply Forall_forall|exact I|exact H].
    - intros x. split; [apply agree_refl|apply pres_refl].
    - intros x y z [A1 P1] [A2 P2]. split; [eapply agree_trans; eauto|eapply pres_trans; eauto].
    - intros d Id. unfold Dispatch.installed in Id. apply in_map_iff in Id. destruct Id as (i & E & Ii). subst d.
      apply frame_ok_d.
      + intros c0 E. subst i. intros x Ix. unfold sys_addrs. apply in_or_app. left. unfold Dispatch.all_bound.
        apply in_flat_map. exists c0. split; [apply comps_of_in; exact Ii|exact Ix].
      + intros _. unfold sys_addrs. apply in_or_app. right. left. reflexivity.
  Qed.

  (* fine, for the scan (hence for every coherent cache): only the addresses `touched` statically from
     the signature -- the bound addresses of the dispatchers that include it, transitively through
     the addons that fire on it, and the clock for "*.elapse" when a timer is installed *)
  Theorem nc_frame_fine (sys : list inst) : forall fuel a s u s' evs,
    dispatch_nc fuel (installed sys) tt a s = (u, Some (s', evs)) ->
    agree_outside (touched fuel sys (sig_of a)) (fst s) (fst s').
  Proof.
    induction fuel as [|n IH]; intros a s u s' evs H; [inversion H|].
    apply nc_unfold in H. destruct H as (x' & hit' & H).
    pose proof (scan_inv unit (fun _ s s' => agree_outside (touched (S n) sys (sig_of a)) (fst s) (fst s'))
                 (fun s => agree_refl Ent _ _)) as SI.
    specialize (SI (fun l1 l2 s s1 s2 A B => agree_trans Ent _ _ _ _ A B) unit
                   (dispatch_nc n (installed sys)) a (fun _ => []) sys).
    eapply SI; [| | |apply incl_refl|exact H]; clear SI H.
    - intros c [st tr] [st1 tr1] ev Ic Inc H. apply call_comp_frame in H. destruct H as (A & _). cbn.
      eapply agree_weaken; [|exact A]. intros x Ix. cbn [Dispatch.touched]. apply in_flat_map.
      exists (IComp c). split; [exact Ic|]. cbn [Dispatch.inst_includes]. rewrite Inc. apply in_or_app. left. exact Ix.
    - intros [st tr] s1 ev It Inc H. apply timer_call_spec in H. destruct H as (_ & _ & A & _).
      eapply agree_weaken; [|exact A]. intros x [E|[]]. subst x. cbn [Dispatch.touched]. apply in_flat_map.
      exists ITimer. split; [exact It|]. cbn [Dispatch.inst_includes]. rewrite Inc. left. reflexivity.
    - intros c ad x s0 x1 s1 ev Ic Inc Iad E H. destruct x, x1. apply IH in H.
      eapply agree_weaken; [|exact H]. intros y Iy. cbn [Dispatch.touched]. apply in_flat_map.
      exists (IComp c). split; [exact Ic|]. cbn [Dispatch.inst_includes]. rewrite Inc. apply in_or_app. right.
      apply in_flat_map. exists ad. split; [exact Iad|]. rewrite E. exact Iy.
  Qed.

  Theorem router_frame_fine (sys : list inst) fuel c a s c' s' evs :
    Coh (installed sys) c -> dispatch_c fuel (installed sys) c a s = (c', Some (s', evs)) ->
    Coh (installed sys) c' /\ agree_outside (touched fuel sys (sig_of a)) (fst s) (fst s').
  Proof.
    intros HC H. apply c_to_nc in H; [|exact HC]. destruct H as [C1 E]. split; [exact C1|].
    destruct (dispatch_nc fuel (installed sys) tt a s) as [[] r] eqn:D. cbn in E. subst r.
    eapply nc_frame_fine; exact D.
  Qed.

  (* ---------------------------------------------------------------- the clock *)
  Notation clock_unbound := (Dispatch.clock_unbound Ent Pay).
  Notation addons_no_elapse := (Dispatch.addons_no_elapse Ent Pay).

  Lemma clock_unbound_spec cs c : clock_unbound cs = true -> In c cs -> ~ In clock_addr (bound_addrs c).
  Proof.
    unfold Dispatch.clock_unbound, Dispatch.addr_unbound. rewrite forallb_forall. intros H Ic I. specialize (H c Ic).
    apply negb_true_iff in H. assert (X : existsb (String.eqb clock_addr) (bound_addrs c) = true).
    { apply existsb_exists. exists clock_addr. split; [exact I|apply String.eqb_refl]. }
    congruence.
  Qed.

  Definition clk (s : rst) : option Ent := dget (fst s) clock_addr.


  Lemma comps_of_map (cs : list component) : comps_of (map IComp cs) = cs.
  Proof. induction cs; cbn; congruence. Qed.

  (* a router made of components only (no timer), any cache: the clock entity is untouched *)
  Theorem comps_keep_clock (cs : list component) : clock_unbound cs = true ->
    forall fuel c a s c' s' evs,
      dispatch_c fuel (installed (map IComp cs)) c a s = (c', Some (s', evs)) -> clk s' = clk s.
  Proof.
    intros CU fuel c a s c' s' evs H. unfold Dispatch.dispatch_c in H.
    assert (X : agree_outside (all_bound cs) (fst s) (fst s') /\ pres_le (fst s) (fst s')).
    { eapply (dispatch_c_inv string action rst event String.eqb sig_of ev_is_reject (fun _ => True)
                (fun s s' => agree_outside (all_bound cs) (fst s) (fst s') /\ pres_le (fst s) (fst s')));
        [| |apply Forall_forall|exact I|exact H].
      - intros x. split; [apply agree_refl|apply pres_refl].
      - intros x y z [A1 P1] [A2 P2]. split; [eapply agree_trans; eauto|eapply pres_trans; eauto].
      - intros d Id. unfold Dispatch.installed in Id. apply in_map_iff in Id. destruct Id as (i & E & Ii). subst d.
        apply in_map_iff in Ii. destruct Ii as (c0 & E & Ic). subst i. apply frame_ok_d.
        + intros c1 E. inversion E; subst c1. intros x Ix. unfold Dispatch.all_bound. apply in_flat_map. exists c0. auto.
        + discriminate. }
    destruct X as [A _]. unfold clk. apply A. unfold Dispatch.all_bound. intros I. apply in_flat_map in I.
    destruct I as (c0 & Ic & I). eapply clock_unbound_spec; eauto.
  Qed.

  (* the full router: each installed timer that the action reaches adds the payload once *)
  Definition is_elapse_act (a : action) : bool := String.eqb (a_name a) "*" && String.eqb (a_method a) "elapse".
  Definition tstep (a : action) (o o' : option Ent) : Prop :=
    exists ck', spent (clock_in Ent clock0 o) (a_pay a) = Some ck' /\ o' = Some ck'.
  Fixpoint steps (a : action) (k : nat) (o o' : option Ent) : Prop :=
    match k with O => o' = o | S k' => exists o1, tstep a o o1 /\ steps a k' o1 o' end.
  Lemma steps_app a k1 : forall k2 o o1 o2, steps a k1 o o1 -> steps a k2 o1 o2 -> steps a (k1 + k2) o o2.
  Proof.
    induction k1 as [|k IH]; intros k2 o o1 o2 H1 H2; cbn in *.
    - subst o1. exact H2.
    - destruct H1 as (o' & T & H1). exists o'. split; [exact T|eapply IH; eauto].
  Qed.
  Definition timers_for (a : action) (i : inst) : list unit :=
    match i with ITimer => if is_elapse_act a then [tt] else [] | IComp _ => [] end.

  Lemma is_elapse_sig (a : action) : is_elapse_act a = true -> sig_of a = "*.elapse".
  Proof.
    unfold is_elapse_act. intros H. apply andb_true_iff in H. destruct H as [N Mt].
    apply String.eqb_eq in N. apply String.eqb_eq in Mt. destruct a as [n m p ad]. cbn in *. subst. reflexivity.
  Qed.

  Lemma no_timers (b : action) (sys : list inst) : is_elapse_act b = false -> flat_map (timers_for b) sys = [].
  Proof. intros X. induction sys as [|[c'|] r IHr]; cbn; [reflexivity|exact IHr|rewrite X; exact IHr]. Qed.

  Theorem nc_clock (sys : list inst) :
    clock_unbound (comps_of sys) = true -> addons_no_elapse (comps_of sys) = true ->
    forall fuel a s u s' evs,
      dispatch_nc fuel (installed sys) tt a s = (u, Some (s', evs)) ->
      steps a (List.length (flat_map (timers_for a) sys)) (clk s) (clk s').
  Proof.
    intros CU AN. induction fuel as [|n IH]; intros a s u s' evs H; [inversion H|].
    apply nc_unfold in H. destruct H as (x' & hit' & H).
    rewrite <- (flat_map_filter_nil (fun i => inst_includes i (sig_of a)) (timers_for a) sys).
    2:{ intros [c|] E; cbn; [reflexivity|]. destruct (is_elapse_act a) eqn:IE; [|reflexivity].
        apply is_elapse_sig in IE. cbn in E. rewrite IE in E. discriminate. }
    pose proof (scan_inv unit (fun l s s' => steps a (List.length l) (clk s) (clk s'))) as SI.
    eapply (SI (fun s => eq_refl)); [| | | |apply incl_refl|exact H]; clear SI H.
    - intros l1 l2 s0 s1 s2 A B. rewrite app_length. eapply steps_app; eauto.
    - intros c [st tr] [st1 tr1] ev Ic Inc H. apply call_comp_frame in H. destruct H as (A & _). cbn.
      unfold clk. cbn. apply A. apply clock_unbound_spec with (cs := comps_of sys); [exact CU|apply comps_of_in; exact Ic].
    - intros [st tr] s1 ev It Inc H. apply timer_call_spec in H. destruct H as (_ & _ & _ & _ & H).
      cbn [timers_for]. unfold is_elapse_act.
      destruct (negb (String.eqb (a_method a) "elapse") && negb (String.eqb (a_name a) "*")) eqn:Gd.
      + subst s1. apply andb_true_iff in Gd. destruct Gd as [_ Gn]. apply negb_true_iff in Gn. rewrite Gn. cbn. reflexivity.
      + apply String.eqb_eq in Inc. destruct (timer_effective _ _ Inc Gd) as [En Em]. rewrite En, Em. cbn.
        destruct H as (ck' & S1 & S2). exists (clk s1). split; [|reflexivity]. exists ck'. split; [exact S1|exact S2].
    - intros c ad x s0 x1 s1 ev Ic Inc Iad E H. destruct x, x1. apply IH in H.
      rewrite no_timers in H; [exact H|].
      apply not_true_is_false. intros T. apply is_elapse_sig in T.
      unfold Dispatch.addons_no_elapse in AN. rewrite forallb_forall in AN.
      specialize (AN c (proj2 (comps_of_in sys c) Ic)). rewrite forallb_forall in AN. specialize (AN ad Iad).
      change (sig_of (mark (ad_action ad))) with (sig_of (ad_action ad)) in T. rewrite T in AN. discriminate.
  Qed.

  (* ---------------------------------------------------------------- the reducer-invocation trace *)
  Lemma top_only_app (l1 l2 : list invocation) : top_only (l1 ++ l2) = (top_only l1 ++ top_only l2)%list.
  Proof. apply filter_app. Qed.

  (* an action that stems from an addon (ghost mark) contributes no unmarked invocation, at any depth *)
  Lemma marked_ok_d (i : inst) :
    ok_d string action rst event (fun a => a_addon a = true)
         (fun s s' => top_only (snd s') = top_only (snd s)) (disp_of i).
  Proof.
    destruct i as [c|]; cbn [Dispatch.disp_of].
    - unfold Dispatch.comp_disp. constructor.
      + constructor. intros a [st tr] s' ev Ma H. apply call_comp_cases in H.
        destruct H as (key & mp & _ & _ & _ & [H|H]).
        * destruct H as (red & method & st1 & fs & out & me & _ & _ & _ & _ & E & _). subst s'. cbn [snd].
          rewrite top_only_app. cbn. rewrite Ma. cbn. apply app_nil_r.
        * destruct H as (_ & E & _). subst s'. reflexivity.
      + rewrite Forall_forall. intros d I. apply in_map_iff in I. destruct I as (ad & E & _). subst d. constructor. reflexivity.
    - constructor. intros a [st tr] s' ev _ H. apply timer_call_spec in H. destruct H as (_ & E & _). cbn. rewrite E. reflexivity.
  Qed.
  Lemma marked_keeps_top (sys : list inst) fuel u a s u' s' evs : a_addon a = true ->
    dispatch_nc fuel (installed sys) u a s = (u', Some (s', evs)) -> top_only (snd s') = top_only (snd s).
  Proof.
    intros Ma H. unfold Dispatch.dispatch_nc in H.
    eapply (dispatch_nc_inv string action rst event String.eqb sig_of ev_is_reject (fun a => a_addon a = true)
              (fun s s' => top_only (snd s') = top_only (snd s))); [| |apply Forall_forall|exact Ma|exact H].
    - reflexivity.
    - intros x y z E1 E2. congruence.
    - intros d Id. unfold Dispatch.installed in Id. apply in_map_iff in Id. destruct Id as (i & E & _). subst d. apply marked_ok_d.
  Qed.

  Lemma direct_not_included (a : action) (i : inst) : inst_includes i (sig_of a) = false -> direct a i = [].
  Proof.
    destruct i as [c|]; cbn; [|reflexivity]. unfold Dispatch.includes_b.
    destruct (find_mapping Ent Pay c (sig_of a)); [discriminate|reflexivity|reflexivity].
  Qed.

  (* one dispatch of a top-level action: the unmarked invocations it adds are exactly one per installed
     component that has a reducer mapped for the signature, in installation order, with the action's
     payload; everything else it adds carries the addon mark *)
  Theorem nc_trace (sys : list inst) fuel a s u s' evs : a_addon a = false ->
    dispatch_nc fuel (installed sys) tt a s = (u, Some (s', evs)) ->
    top_only (snd s') = (top_only (snd s) ++ flat_map (direct a) sys)%list.
  Proof.
    intros Ta H. destruct fuel as [|n]; [inversion H|].
    apply nc_unfold in H. destruct H as (x' & hit' & H).
    rewrite <- (flat_map_filter_nil (fun i => inst_includes i (sig_of a)) (direct a) sys) by apply direct_not_included.
    pose proof (scan_inv invocation (fun l s s' => top_only (snd s') = (top_only (snd s) ++ l)%list)) as SI.
    eapply SI; [| | | | |apply incl_refl|exact H]; clear SI H.
    - intros s0. symmetry. apply app_nil_r.
    - intros l1 l2 s0 s1 s2 A B. rewrite B, A. symmetry. apply app_assoc.
    - intros c [st tr] s1 ev Ic Inc H. apply call_comp_cases in H.
      destruct H as (key & mp & F & _ & D & [H|H]).
      + destruct H as (red & method & st1 & fs & out & me & R & Mt & _ & _ & E & _). subst s1. cbn [snd].
        rewrite top_only_app. cbn [Dispatch.direct]. rewrite F, D. destruct mp as [mm mr]. cbn in R, Mt. subst mm mr.
        cbn. rewrite Ta. reflexivity.
      + destruct H as (N & E & _). subst s1. cbn [snd Dispatch.direct]. rewrite F, D. destruct mp as [mm mr]. cbn in N.
        destruct N; subst; [destruct mm|]; symmetry; apply app_nil_r.
    - intros [st tr] s1 ev It Inc H. apply timer_call_spec in H. destruct H as (_ & E & _). cbn. rewrite E. symmetry. apply app_nil_r.
    - intros c ad x s0 x1 s1 ev Ic Inc Iad E H. apply marked_keeps_top in H; [|reflexivity]. rewrite H. symmetry. apply app_nil_r.
  Qed.
End Sys.
