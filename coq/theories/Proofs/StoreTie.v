(* ConcreteStore.save / load as GENERATED from simaple/simulate/base.py (gen/StoreSrc.v, by tools/tr_store.py) are save_store /
   restore_store of Proofs/StoreRoundtrip.v; hence the round trip of the store follows from the round trip of one entity for the
   generated functions too. *)
From Coq Require Import List String.
Import ListNotations.
From V Require Import Model.Dispatch Proofs.StoreRoundtrip.
From G Require Import StoreSrc.

Section Tie.
  Variables Ent D : Type.
  Variable dump : Ent -> D.
  Variable parse : D -> Ent.

  Lemma map_pair_ext {A B C} (f : B -> C) (l : list (A * B)) :
    map (fun '(k, v) => (k, f v)) l = map (fun kv => (fst kv, f (snd kv))) l.
  Proof. apply map_ext. intros [k v]. reflexivity. Qed.

  Theorem src_save_is_save_store (s : store Ent) : src_save Ent D dump s = save_store Ent D dump s.
  Proof. apply map_pair_ext. Qed.

  Theorem src_load_is_restore_store (c : list (string * D)) : src_load Ent D parse c = restore_store Ent D parse c.
  Proof. apply map_pair_ext. Qed.

  Theorem src_load_save (s : store Ent) : (forall e, parse (dump e) = e) -> src_load Ent D parse (src_save Ent D dump s) = s.
  Proof. intros E. rewrite src_save_is_save_store, src_load_is_restore_store. apply restore_save. exact E. Qed.

  Theorem src_load_save_only_if : (forall s : store Ent, src_load Ent D parse (src_save Ent D dump s) = s) -> forall e, parse (dump e) = e.
  Proof. intros R. apply (restore_save_only_if Ent D dump parse). intros s. rewrite <- src_save_is_save_store, <- src_load_is_restore_store. apply R. Qed.
  (* checkpointing a store restored from a checkpoint reproduces that checkpoint (the bytes a resumed run hashes and hands on are
     the ones it was given), and a checkpoint survives any number of restore / save round trips *)
  Theorem src_save_load_save (s : store Ent) : (forall e, parse (dump e) = e) ->
    src_save Ent D dump (src_load Ent D parse (src_save Ent D dump s)) = src_save Ent D dump s.
  Proof. intros E. rewrite src_load_save by exact E. reflexivity. Qed.

  Theorem src_roundtrips_fix_checkpoint (s : store Ent) (n : nat) : (forall e, parse (dump e) = e) ->
    Nat.iter n (fun c => src_save Ent D dump (src_load Ent D parse c)) (src_save Ent D dump s) = src_save Ent D dump s.
  Proof. intros E. induction n as [|n IH]; [reflexivity|]. change (src_save Ent D dump (src_load Ent D parse (Nat.iter n (fun c => src_save Ent D dump (src_load Ent D parse c)) (src_save Ent D dump s))) = src_save Ent D dump s). rewrite IH. apply src_save_load_save. exact E. Qed.
End Tie.
