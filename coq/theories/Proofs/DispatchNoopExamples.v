(* vm_compute witnesses for Proofs/DispatchNoop.v (integer entities and payloads).
   (1) the audit witness of F2: attack skill A with an addon "when use -> B.use", buff skill B.  use A; elapse 2;
       use A again while it is cooling down: the answer is [A reject] alone and B is untouched.
   (2) F1: a raw-action listener.  X (cooldown skill), L listening to the RAW signature "X.use" (deals damage and
       consumes a stack), Y.  Every component obeys the component law (reject alone, state unchanged); the ROUTER's
       answer to a rejected `X.use` nevertheless contains L's damage and the store changes. *)
From Coq Require Import List Bool Arith String Ascii ZArith Lia.
From V.Model Require Import Router Play Dispatch DispatchViews DispatchReviewed.
From V.Proofs Require Import RouterCache DispatchStore DispatchRouter DispatchPlay DispatchExamples DispatchNoop.
Import ListNotations.
Local Open Scope string_scope.
Local Open Scope Z_scope.

(* ------------------------------------------------------------------ (1) addons after a rejected base *)
Definition ta_use : reducer Ent Pay := fun _ fs =>
  if 0 <? fget fs "cooldown" then Some (fs, RList [mkev "A" (Some REJECT) 0])
  else Some (dset fs "cooldown" 5, RList [mkev "A" (Some "global.damage") 40]).
Definition ta_elapse : reducer Ent Pay := fun t fs => Some (dset fs "cooldown" (Z.max 0 (fget fs "cooldown" - t)), RNone).
Definition tb_use : reducer Ent Pay := fun _ fs => Some (dset fs "lasting" 10, RList [mkev "B" (Some "global.delay") 0]).
Definition tb_elapse : reducer Ent Pay := fun t fs => Some (dset fs "lasting" (Z.max 0 (fget fs "lasting" - t)), RNone).
Definition t_A : component Ent Pay :=
  {| c_name := "A"; c_maps := [("A.use", mp "use" ta_use); ("A.elapse", mp "elapse" ta_elapse); ("*.use", mp "use" ta_use); ("*.elapse", mp "elapse" ta_elapse)];
     c_default := [("cooldown", 0)]; c_binds := [];
     c_addons := [{| ad_when := "use"; ad_action := {| a_name := "B"; a_method := "use"; a_pay := 0; a_addon := false |} |}] |}.
Definition t_B : component Ent Pay :=
  {| c_name := "B"; c_maps := [("B.use", mp "use" tb_use); ("B.elapse", mp "elapse" tb_elapse); ("*.use", mp "use" tb_use); ("*.elapse", mp "elapse" tb_elapse)];
     c_default := [("lasting", 0)]; c_binds := []; c_addons := [] |}.
Definition t_cs := [t_A; t_B].
Definition t_ds := installed Ent Pay 0 0 xspent (shipped_system Ent Pay t_cs).
Definition t_st0 := initial_store Ent Pay 100 0 t_cs.

(* three dispatches, threading route cache and store; returns (events 1, events 3, store after 2, store after 3) *)
Definition t_run :=
  match Dispatch.dispatch_c Ent Pay 5 t_ds [] (A "A" "use" 0) (t_st0, []) with
  | (c1, Some ((st1, _), ev1)) =>
      match Dispatch.dispatch_c Ent Pay 5 t_ds c1 (A "*" "elapse" 2) (st1, []) with
      | (c2, Some ((st2, _), _)) =>
          match Dispatch.dispatch_c Ent Pay 5 t_ds c2 (A "A" "use" 0) (st2, []) with
          | (_, Some ((st3, tr3), ev3)) => Some (ev1, ev3, st2, st3, tr3)
          | _ => None
          end
      | _ => None
      end
  | _ => None
  end.

Example rejected_use_does_not_run_addons :
  t_run = Some
    ([{| ev_name := "A"; ev_pay := 40; ev_method := "use"; ev_tag := Some "global.damage"; ev_handler := None |};
      {| ev_name := "A"; ev_pay := 0; ev_method := "use"; ev_tag := Some ACCEPT; ev_handler := None |};
      {| ev_name := "B"; ev_pay := 0; ev_method := "use"; ev_tag := Some "global.delay"; ev_handler := None |};
      {| ev_name := "B"; ev_pay := 0; ev_method := "use"; ev_tag := Some ACCEPT; ev_handler := None |}],
     (* the second use, while cooling down: the reject ALONE *)
     [{| ev_name := "A"; ev_pay := 0; ev_method := "use"; ev_tag := Some REJECT; ev_handler := None |}],
     [("global.dynamics", 100); ("global.time", 2); (".A.cooldown", 3); (".B.lasting", 8)],
     (* ... and nothing changed: B's buff was NOT renewed *)
     [("global.dynamics", 100); ("global.time", 2); (".A.cooldown", 3); (".B.lasting", 8)],
     [{| i_comp := "A"; i_key := "A.use"; i_method := "use"; i_pay := 0; i_addon := false |}]).
Proof. vm_compute. reflexivity. Qed.

(* ------------------------------------------------------------------ (2) a raw-action listener *)
Definition rx_use : reducer Ent Pay := fun _ fs =>
  if 0 <? fget fs "cooldown" then Some (fs, RList [mkev "X" (Some REJECT) 0])
  else Some (dset fs "cooldown" 5, RList [mkev "X" (Some "global.damage") 40]).
Definition rl_burst : reducer Ent Pay := fun _ fs =>
  Some (dset fs "stack" (fget fs "stack" - 1), RList [mkev "L" (Some "global.damage") 7]).
Definition ry_use : reducer Ent Pay := fun _ fs => Some (fs, RNone).
Definition r_X : component Ent Pay :=
  {| c_name := "X"; c_maps := [("X.use", mp "use" rx_use); ("*.use", mp "use" rx_use)]; c_default := [("cooldown", 0)]; c_binds := []; c_addons := [] |}.
Definition r_L : component Ent Pay :=
  {| c_name := "L"; c_maps := [("L.burst", mp "burst" rl_burst); ("*.burst", mp "burst" rl_burst); ("X.use", mp "burst" rl_burst)];
     c_default := [("stack", 3)]; c_binds := []; c_addons := [] |}.
Definition r_Y : component Ent Pay :=
  {| c_name := "Y"; c_maps := [("Y.use", mp "use" ry_use); ("*.use", mp "use" ry_use)]; c_default := []; c_binds := []; c_addons := [] |}.
Definition r_cs := [r_X; r_L; r_Y].
Definition r_ds := installed Ent Pay 0 0 xspent (shipped_system Ent Pay r_cs).
(* X is cooling down; nothing is pending (a plain router dispatch) *)
Definition r_st : Dispatch.store Ent := [("global.dynamics", 100); ("global.time", 0); (".X.cooldown", 5); (".L.stack", 3)].

Definition reject_alone (red : reducer Ent Pay) : Prop :=
  forall p fs out me, red p fs = Some (out, me) -> existsb ev_is_reject (regularize Pay me) = true ->
                      out = fs /\ exists e, regularize Pay me = [e].

Theorem router_rejected_refuted :
  exists (cs : list (component Ent Pay)) (st : Dispatch.store Ent),
    (* every component obeys the component law: a rejection is alone and returns the input state *)
    (forall c key m red, In c cs -> dget (c_maps c) key = Some {| m_method := Some m; m_red := Some red |} -> reject_alone red) /\
    names_distinct Ent Pay cs = true /\ binds_closed Ent Pay cs = true /\
    (forall c, In c cs -> forall x, In x (bound_addrs Ent Pay c) -> present Ent st x) /\
    (* the one raw-action listener *)
    raw_action_listeners Ent Pay cs = [("L", "X.use", "X")] /\
    (* the owner alone rejects and changes nothing ... *)
    call_comp Ent Pay 0 r_X (A "X" "use" 0) (st, []) =
      Some ((st, [{| i_comp := "X"; i_key := "X.use"; i_method := "use"; i_pay := 0; i_addon := false |}]),
            [{| ev_name := "X"; ev_pay := 0; ev_method := "use"; ev_tag := Some REJECT; ev_handler := None |}]) /\
    (* ... but the ROUTER's answer to the same action contains L's damage, and L's stack is consumed *)
    snd (Dispatch.dispatch_c Ent Pay 5 (installed Ent Pay 0 0 xspent (shipped_system Ent Pay cs)) [] (A "X" "use" 0) (st, [])) =
      Some (([("global.dynamics", 100); ("global.time", 0); (".X.cooldown", 5); (".L.stack", 2)],
             [{| i_comp := "X"; i_key := "X.use"; i_method := "use"; i_pay := 0; i_addon := false |};
              {| i_comp := "L"; i_key := "X.use"; i_method := "burst"; i_pay := 0; i_addon := false |}]),
            [{| ev_name := "X"; ev_pay := 0; ev_method := "use"; ev_tag := Some REJECT; ev_handler := None |};
             {| ev_name := "L"; ev_pay := 7; ev_method := "burst"; ev_tag := Some "global.damage"; ev_handler := None |};
             {| ev_name := "L"; ev_pay := 0; ev_method := "burst"; ev_tag := Some ACCEPT; ev_handler := None |}]).
Proof.
  exists r_cs, r_st. split.
  { intros c key m red Ic G. unfold reject_alone.
    assert (X : red = rx_use \/ red = rl_burst \/ red = ry_use).
    { destruct Ic as [E|[E|[E|[]]]]; subst c; cbn in G;
        repeat match type of G with
               | (if ?b then _ else _) = _ => destruct b
               | Some _ = Some _ => inversion G; subst; clear G
               | None = Some _ => discriminate
               end; auto. }
    destruct X as [E|[E|E]]; subst red; intros p fs out me H R.
    - unfold rx_use in H. destruct (0 <? fget fs "cooldown"); inversion H; subst; cbn in R; [|discriminate].
      split; [reflexivity|eexists; reflexivity].
    - unfold rl_burst in H. inversion H; subst. cbn in R. discriminate.
    - unfold ry_use in H. inversion H; subst. cbn in R. discriminate. }
  split; [vm_compute; reflexivity|]. split; [vm_compute; reflexivity|].
  split.
  { intros c Ic x Ix. unfold present.
    destruct Ic as [E|[E|[E|[]]]]; subst c; vm_compute in Ix;
      repeat (destruct Ix as [E|Ix]; [subst x; vm_compute; discriminate|]); destruct Ix. }
  split; [vm_compute; reflexivity|]. split; vm_compute; reflexivity.
Qed.

(* without the listener the true part applies: the same rejected use is a no-op at router level *)
Example router_noop_without_listener :
  no_raw_listeners Ent Pay [r_X; r_Y] = true /\
  snd (Dispatch.dispatch_c Ent Pay 5 (installed Ent Pay 0 0 xspent (shipped_system Ent Pay [r_X; r_Y])) [] (A "X" "use" 0)
         ([("global.dynamics", 100); ("global.time", 0); (".X.cooldown", 5)], [])) =
    Some (([("global.dynamics", 100); ("global.time", 0); (".X.cooldown", 5)],
           [{| i_comp := "X"; i_key := "X.use"; i_method := "use"; i_pay := 0; i_addon := false |}]),
          [{| ev_name := "X"; ev_pay := 0; ev_method := "use"; ev_tag := Some REJECT; ev_handler := None |}]).
Proof. vm_compute. split; reflexivity. Qed.
