(* Dispatch / store glue (Model/Dispatch.v): dict lemmas, the write frame of ONE dispatcher call
   (component dispatcher, timer), and the dispatcher-level C07 statements. *)
From Coq Require Import List Bool Arith String Ascii ZArith Lia.
From V.Model Require Import Router Play Dispatch.
Import ListNotations.
Local Open Scope string_scope.

(* ------------------------------------------------------------------ dicts *)
Section DictP.
  Context {V : Type}.
  Implicit Types d : list (string * V).

  Lemma dget_dset d k v k' : dget (dset d k v) k' = if String.eqb k k' then Some v else dget d k'.
  Proof.
    induction d as [|[k0 v0] r IH]; cbn.
    - reflexivity.
    - destruct (String.eqb_spec k0 k) as [E|N].
      + subst k0. cbn. destruct (String.eqb k k'); reflexivity.
      + cbn. rewrite IH. destruct (String.eqb_spec k0 k') as [E'|N'].
        * subst k'. destruct (String.eqb_spec k k0) as [E2|_]; [congruence|reflexivity].
        * reflexivity.
  Qed.
  Lemma dget_dset_same d k v : dget (dset d k v) k = Some v.
  Proof. rewrite dget_dset, String.eqb_refl. reflexivity. Qed.
  Lemma dget_dset_other d k v k' : k <> k' -> dget (dset d k v) k' = dget d k'.
  Proof. intros N. rewrite dget_dset. destruct (String.eqb_spec k k'); [contradiction|reflexivity]. Qed.
  Lemma dset_noop d k v : dget d k = Some v -> forall k', dget (dset d k v) k' = dget d k'.
  Proof. intros H k'. rewrite dget_dset. destruct (String.eqb_spec k k'); [subst; auto|reflexivity]. Qed.
  Lemma dget_in d k v : dget d k = Some v -> In (k, v) d.
  Proof.
    induction d as [|[k0 v0] r IH]; cbn; [discriminate|].
    destruct (String.eqb_spec k0 k); intros H.
    - inversion H; subst. left; reflexivity.
    - right; auto.
  Qed.
  Lemma in_dget_nodup d k v : NoDup (map fst d) -> In (k, v) d -> dget d k = Some v.
  Proof.
    induction d as [|[k0 v0] r IH]; cbn; [tauto|]. intros ND [E|I].
    - inversion E; subst. rewrite String.eqb_refl. reflexivity.
    - inversion ND; subst. destruct (String.eqb_spec k0 k) as [E|N].
      + subst. exfalso. apply H1. apply (in_map fst) in I. exact I.
      + auto.
  Qed.
  Lemma dset_keys d k v : forall x, In x (map fst (dset d k v)) <-> In x (map fst d) \/ x = k.
  Proof.
    induction d as [|[k0 v0] r IH]; intros x; cbn.
    - intuition.
    - destruct (String.eqb_spec k0 k); cbn.
      + subst. intuition.
      + rewrite IH. intuition.
  Qed.
  Lemma dset_nodup d k v : NoDup (map fst d) -> NoDup (map fst (dset d k v)).
  Proof.
    induction d as [|[k0 v0] r IH]; cbn; intros ND.
    - constructor; [intros []|constructor].
    - inversion ND; subst. destruct (String.eqb_spec k0 k); cbn.
      + constructor; assumption.
      + constructor; [|auto]. rewrite dset_keys. intros [I|E]; [contradiction|congruence].
  Qed.
  Lemma dupdate_nodup d2 : forall d, NoDup (map fst d) -> NoDup (map fst (dupdate d d2)).
  Proof.
    unfold dupdate. induction d2 as [|[k v] r IH]; intros d ND; cbn; [exact ND|].
    apply IH. apply dset_nodup. exact ND.
  Qed.
End DictP.

(* ------------------------------------------------------------------ strings *)
Lemma append_length (a b : string) : String.length (a ++ b) = String.length a + String.length b.
Proof. induction a; cbn; [reflexivity|]. rewrite IHa. reflexivity. Qed.
Lemma append_inj_l (a b c : string) : a ++ c = b ++ c -> a = b.
Proof.
  revert b. induction a as [|x a IH]; intros b H.
  - destruct b as [|y b]; [reflexivity|]. apply (f_equal String.length) in H. cbn in H.
    rewrite append_length in H. lia.
  - destruct b as [|y b].
    + apply (f_equal String.length) in H. cbn in H. rewrite append_length in H. lia.
    + cbn in H. inversion H; subst. f_equal. apply IH. assumption.
Qed.

(* the timer is effective under the router exactly for the action ("*", "elapse") *)
Lemma timer_effective (name method : string) :
  msig name method = "*.elapse" ->
  (negb (String.eqb method "elapse") && negb (String.eqb name "*")) = false ->
  name = "*" /\ method = "elapse".
Proof.
  intros Hs Hg. apply andb_false_iff in Hg. destruct Hg as [Hm|Hn].
  - apply negb_false_iff, String.eqb_eq in Hm. subst method. cbn in Hs. split; [|reflexivity].
    apply (append_inj_l name "*" ".elapse"). exact Hs.
  - apply negb_false_iff, String.eqb_eq in Hn. subst name. split; [reflexivity|].
    destruct method as [|c m]; cbn in Hs; [discriminate|]. inversion Hs. reflexivity.
Qed.

Section StoreP.
  Variables Ent Pay : Type.
  Variable empty_pay : Pay.
  Variable clock0 : Ent.
  Variable spent : Ent -> Pay -> option Ent.

  Notation store := (Dispatch.store Ent).
  Notation component := (Dispatch.component Ent Pay).
  Notation rst := (Dispatch.rst Ent Pay).
  Notation event := (Dispatch.event Pay).
  Notation action := (Dispatch.action Pay).
  Notation call_comp := (Dispatch.call_comp Ent Pay empty_pay).
  Notation timer_call := (Dispatch.timer_call Ent Pay clock0 spent).
  Notation tag_events := (Dispatch.tag_events Pay empty_pay).
  Notation accept_event := (Dispatch.accept_event Pay empty_pay).

  Definition present (st : store) (x : string) : Prop := dget st x <> None.
  Definition agree_outside (B : list string) (st st' : store) : Prop :=
    forall x, ~ In x B -> dget st' x = dget st x.
  Definition pres_le (st st' : store) : Prop := forall x, present st x -> present st' x.
  Definition ext_eq (st st' : store) : Prop := forall x, dget st' x = dget st x.

  Lemma agree_refl B st : agree_outside B st st.
  Proof. intros x _. reflexivity. Qed.
  Lemma agree_trans B st1 st2 st3 : agree_outside B st1 st2 -> agree_outside B st2 st3 -> agree_outside B st1 st3.
  Proof. intros H1 H2 x N. rewrite H2, H1; auto. Qed.
  Lemma agree_weaken B B' st st' : incl B B' -> agree_outside B st st' -> agree_outside B' st st'.
  Proof. intros I H x N. apply H. intros X. apply N, I, X. Qed.
  Lemma pres_refl st : pres_le st st.
  Proof. intros x H; exact H. Qed.
  Lemma pres_trans a b c : pres_le a b -> pres_le b c -> pres_le a c.
  Proof. intros H1 H2 x P. auto. Qed.
  Lemma pres_dset st k v : pres_le st (dset st k v).
  Proof. intros x P. unfold present in *. rewrite dget_dset. destruct (String.eqb k x); [discriminate|exact P]. Qed.

  (* ---- read_entity: reads, and writes only the asked address, only when it was missing *)
  Lemma read_entity_spec st addr d st' e : read_entity Ent st addr d = Some (st', e) ->
    agree_outside [addr] st st' /\ pres_le st st' /\ present st' addr /\ dget st' addr = Some e /\
    (present st addr -> st' = st).
  Proof.
    unfold read_entity. destruct (dget st addr) as [v|] eqn:G.
    - intros H; inversion H; subst. repeat split; auto using agree_refl, pres_refl; unfold present; congruence.
    - destruct d as [d|]; [|discriminate]. intros H; inversion H; subst. repeat split.
      + intros x N. apply dget_dset_other. intros E; apply N; left; exact E.
      + apply pres_dset.
      + unfold present. rewrite dget_dset_same. discriminate.
      + apply dget_dset_same.
      + intros P. exfalso. apply P. exact G.
  Qed.

  (* ---- get_state *)
  Definition addrs_of (cur : string) (names : list (string * string)) : list string :=
    map (fun kv => resolve cur (snd kv)) names.

  Lemma read_all_spec cur defs : forall names st st' fs,
    read_all Ent cur defs names st = Some (st', fs) ->
    agree_outside (addrs_of cur names) st st' /\ pres_le st st' /\
    map fst fs = map fst names /\
    ((forall x, In x (addrs_of cur names) -> present st x) ->
     st' = st /\ Forall2 (fun nf na => fst nf = fst na /\ dget st (resolve cur (snd na)) = Some (snd nf)) fs names).
  Proof.
    induction names as [|[n a] r IH]; intros st st' fs; cbn.
    - intros H; inversion H; subst. repeat split; auto using agree_refl, pres_refl.
    - destruct (read_entity Ent st (resolve cur a) (dget defs n)) as [[st1 e]|] eqn:R; [|discriminate].
      destruct (read_all Ent cur defs r st1) as [[st2 fs2]|] eqn:RA; [|discriminate].
      intros H; inversion H; subst.
      apply read_entity_spec in R. destruct R as (A1 & P1 & _ & G1 & S1).
      destruct (IH _ _ _ RA) as (A2 & P2 & M2 & S2).
      repeat split.
      + apply agree_trans with st1.
        * eapply agree_weaken; [|exact A1]. intros x [E|[]]. left. exact E.
        * eapply agree_weaken; [|exact A2]. intros x I. right. exact I.
      + eapply pres_trans; eassumption.
      + cbn. f_equal. exact M2.
      + assert (st1 = st) by (apply S1, H0; left; reflexivity). subst st1.
        destruct S2 as [E F]; [intros x I; apply H0; right; exact I|]. exact E.
      + assert (st1 = st) by (apply S1, H0; left; reflexivity). subst st1.
        destruct S2 as [E F]; [intros x I; apply H0; right; exact I|]. subst st'.
        constructor; [|exact F]. cbn. split; [reflexivity|exact G1].
  Qed.

  (* ---- set_state *)
  Lemma write_all_frame cur names : forall out st,
    agree_outside (addrs_of cur names) st (write_all Ent cur names out st) /\
    pres_le st (write_all Ent cur names out st).
  Proof.
    induction out as [|[n e] r IH]; intros st; cbn.
    - split; auto using agree_refl, pres_refl.
    - destruct (dget names n) as [a|] eqn:G; [|apply IH].
      destruct (IH (dset st (resolve cur a) e)) as [A P]. split.
      + eapply agree_trans; [|exact A]. intros x N. apply dget_dset_other. intros E. apply N. subst x.
        apply dget_in in G. unfold addrs_of. apply (in_map (fun kv => resolve cur (snd kv))) in G. exact G.
      + eapply pres_trans; [apply pres_dset|exact P].
  Qed.

  (* writing back what was read is extensionally a no-op *)
  Lemma write_all_same cur names st : NoDup (map fst names) -> forall out st1,
    ext_eq st st1 ->
    (forall n e a, In (n, e) out -> dget names n = Some a -> dget st (resolve cur a) = Some e) ->
    ext_eq st (write_all Ent cur names out st1).
  Proof.
    intros ND. induction out as [|[n e] r IH]; intros st1 E H; cbn; [exact E|].
    destruct (dget names n) as [a|] eqn:G.
    - apply IH.
      + intros x. rewrite dset_noop; [apply E|]. rewrite E. eapply H; [left; reflexivity|exact G].
      + intros n' e' a' I. apply H. right. exact I.
    - apply IH; [exact E|]. intros n' e' a' I. apply H. right. exact I.
  Qed.

  Lemma bound_names_nodup (c : component) : NoDup (map fst (bound_names Ent Pay c)).
  Proof. unfold bound_names. apply dupdate_nodup, dupdate_nodup. constructor. Qed.

  Lemma bound_addrs_eq (c : component) : bound_addrs Ent Pay c = addrs_of (comp_addr Ent Pay c) (bound_names Ent Pay c).
  Proof. reflexivity. Qed.

  (* ---------------------------------------------------------------- one component dispatcher call *)
  (* what a successful call did, in one place *)
  Lemma call_comp_cases (c : component) (a : action) st tr s' evs :
    call_comp c a (st, tr) = Some (s', evs) ->
    exists key mp, find_mapping Ent Pay c (sig_of a) = FFound key /\ key <> "" /\ dget (c_maps c) key = Some mp /\
      ((exists red method st1 fs out me,
          m_red mp = Some red /\ m_method mp = Some method /\
          get_state Ent Pay c st = Some (st1, fs) /\ red (a_pay a) fs = Some (out, me) /\
          s' = (set_state Ent Pay c st1 out,
                (tr ++ [{| i_comp := c_name c; i_key := key; i_method := method; i_pay := a_pay a; i_addon := a_addon a |}])%list) /\
          evs = tag_events (c_name c) method (regularize Pay me))
       \/ ((m_red mp = None \/ m_method mp = None) /\ s' = (st, tr) /\ evs = [])).
  Proof.
    unfold Dispatch.call_comp. destruct (find_mapping Ent Pay c (sig_of a)) as [key| |] eqn:F; try discriminate.
    destruct key as [|k0 kr]; [discriminate|].
    destruct (dget (c_maps c) (String k0 kr)) as [mp|] eqn:G; [|discriminate].
    intros H. exists (String k0 kr), mp. split; [first [exact F|reflexivity]|split; [discriminate|split; [first [exact G|reflexivity]|]]].
    destruct (m_red mp) as [red|] eqn:R.
    - destruct (m_method mp) as [method|] eqn:M.
      + destruct (get_state Ent Pay c st) as [[st1 fs]|] eqn:GS; [|discriminate].
        destruct (red (a_pay a) fs) as [[out me]|] eqn:RR; [|discriminate].
        inversion H; subst. left. exists red, method, st1, fs, out, me. repeat split; assumption.
      + inversion H; subst. right. repeat split. right; reflexivity.
    - inversion H; subst. right. repeat split. left; reflexivity.
  Qed.

  (* write frame: nothing outside the resolved bound names changes; nothing disappears; the ghost
     trace only grows *)
  Theorem call_comp_frame (c : component) (a : action) st tr st' tr' evs :
    call_comp c a (st, tr) = Some ((st', tr'), evs) ->
    agree_outside (bound_addrs Ent Pay c) st st' /\ pres_le st st' /\ exists l, tr' = (tr ++ l)%list.
  Proof.
    intros H. apply call_comp_cases in H. destruct H as (key & mp & _ & _ & _ & [H|H]).
    - destruct H as (red & method & st1 & fs & out & me & _ & _ & GS & _ & E & _). inversion E; subst.
      unfold get_state in GS. apply read_all_spec in GS. destruct GS as (A1 & P1 & _).
      destruct (write_all_frame (comp_addr Ent Pay c) (bound_names Ent Pay c) out st1) as [A2 P2].
      repeat split.
      + rewrite bound_addrs_eq. eapply agree_trans; [exact A1|exact A2].
      + eapply pres_trans; [exact P1|exact P2].
      + eexists; reflexivity.
    - destruct H as (_ & E & _). inversion E; subst. repeat split; auto using agree_refl, pres_refl.
      exists []. rewrite app_nil_r. reflexivity.
  Qed.

  (* if every bound address is present beforehand, the set of present addresses is unchanged *)
  Theorem call_comp_present (c : component) (a : action) st tr st' tr' evs :
    call_comp c a (st, tr) = Some ((st', tr'), evs) ->
    (forall x, In x (bound_addrs Ent Pay c) -> present st x) ->
    forall x, present st' x <-> present st x.
  Proof.
    intros H HP x. destruct (call_comp_frame _ _ _ _ _ _ _ H) as (A & P & _).
    split; [|apply P].
    destruct (in_dec string_dec x (bound_addrs Ent Pay c)) as [I|N].
    - intros _. apply HP, I.
    - unfold present. rewrite (A x N). auto.
  Qed.

  (* ---------------------------------------------------------------- the timer *)
  Lemma clock_resolved : resolve root_addr clock_addr = clock_addr.
  Proof. reflexivity. Qed.

  Definition clock_in (o : option Ent) : Ent := match o with Some ck => ck | None => clock0 end.

  Theorem timer_call_spec (a : action) st tr s' evs :
    timer_call a (st, tr) = Some (s', evs) ->
    evs = [] /\ snd s' = tr /\ agree_outside [clock_addr] st (fst s') /\ pres_le st (fst s') /\
    if negb (String.eqb (a_method a) "elapse") && negb (String.eqb (a_name a) "*") then s' = (st, tr)
    else exists ck', spent (clock_in (dget st clock_addr)) (a_pay a) = Some ck' /\ dget (fst s') clock_addr = Some ck'.
  Proof.
    unfold Dispatch.timer_call. rewrite clock_resolved.
    destruct (negb (String.eqb (a_method a) "elapse") && negb (String.eqb (a_name a) "*")).
    - intros H; inversion H; subst. cbn. repeat split; auto using agree_refl, pres_refl.
    - destruct (read_entity Ent st clock_addr (Some clock0)) as [[st1 ck]|] eqn:R; [|discriminate].
      destruct (spent ck (a_pay a)) as [ck'|] eqn:S; [|discriminate].
      intros H; inversion H; subst. cbn.
      assert (CK : ck = clock_in (dget st clock_addr)).
      { unfold read_entity in R. destruct (dget st clock_addr); inversion R; subst; reflexivity. }
      apply read_entity_spec in R. destruct R as (A1 & P1 & _).
      repeat split.
      + eapply agree_trans; [exact A1|]. intros x N. apply dget_dset_other. intros E; apply N; left; exact E.
      + eapply pres_trans; [exact P1|apply pres_dset].
      + exists ck'. split; [rewrite <- CK; exact S|apply dget_dset_same].
  Qed.

  (* ---------------------------------------------------------------- C07 at dispatcher level *)
  (* a reducer that answers (its input state, [one event tagged REJECT]) -- what C07_reject_alone proves
     of every modelled class -- leaves the whole store extensionally unchanged when all bound
     addresses exist, and the dispatcher returns exactly that event: name, payload and handler kept,
     method = the mapped method name, tag REJECT, and NO ACCEPT *)
  Theorem store_unchanged_on_reject (c : component) (a : action) st tr key red method st1 fs me e :
    find_mapping Ent Pay c (sig_of a) = FFound key -> key <> "" ->
    dget (c_maps c) key = Some {| m_method := Some method; m_red := Some red |} ->
    (forall x, In x (bound_addrs Ent Pay c) -> present st x) ->
    get_state Ent Pay c st = Some (st1, fs) ->
    red (a_pay a) fs = Some (fs, me) -> regularize Pay me = [e] -> ev_tag e = Some REJECT ->
    exists st',
      call_comp c a (st, tr) =
        Some ((st', (tr ++ [{| i_comp := c_name c; i_key := key; i_method := method; i_pay := a_pay a; i_addon := a_addon a |}])%list),
              [{| ev_name := ev_name e; ev_pay := ev_pay e; ev_method := method; ev_tag := Some REJECT; ev_handler := ev_handler e |}]) /\
      ext_eq st st'.
  Proof.
    intros F NE G HP GS R RG TG.
    exists (set_state Ent Pay c st1 fs). split.
    - unfold Dispatch.call_comp. rewrite F. destruct key as [|k0 kr]; [contradiction NE; reflexivity|].
      rewrite G. cbn [m_red m_method]. rewrite GS, R, RG. f_equal. f_equal.
      unfold Dispatch.tag_events. cbn. unfold is_rej_acc. rewrite TG. cbn. unfold tag_event. rewrite TG. reflexivity.
    - unfold get_state in GS. apply read_all_spec in GS. destruct GS as (_ & _ & _ & S).
      destruct S as [E F2]; [rewrite <- bound_addrs_eq; exact HP|]. subst st1.
      unfold set_state. apply write_all_same; [apply bound_names_nodup|intros x; reflexivity|].
      intros n e0 a0 I D.
      (* (n, e0) was read at the address bound to n *)
      clear - F2 I D. pose proof (bound_names_nodup c) as ND. revert F2 I D ND.
      generalize (bound_names Ent Pay c) as names. intros names F2.
      induction F2 as [|[n1 e1] [n2 a2] fs' names' [Hn Hg] F2 IH]; intros I D ND; [destruct I|].
      cbn in Hn, Hg. subst n2. destruct I as [E|I].
      + inversion E; subst. cbn in D. rewrite String.eqb_refl in D. inversion D; subst. exact Hg.
      + cbn in D. destruct (String.eqb_spec n1 n) as [E|N].
        * subst n1. exfalso. inversion ND; subst. apply H1.
          assert (X : In n (map fst fs')) by (apply (in_map fst) in I; exact I).
          clear - X F2. induction F2 as [|x y l l' [Hxy _] _ IH]; [destruct X|]. destruct X as [E|X]; [left; congruence|right; auto].
        * inversion ND; subst. apply IH; assumption.
  Qed.

  (* ACCEPT is appended exactly when no RAW event is tagged REJECT or ACCEPT *)
  Theorem accept_rule (name method : string) (raw : list event) :
    (forallb (fun e => negb (is_rej_acc Pay e)) raw = true ->
       tag_events name method raw = (map (tag_event Pay method) raw ++ [accept_event name method])%list) /\
    (forallb (fun e => negb (is_rej_acc Pay e)) raw = false ->
       tag_events name method raw = map (tag_event Pay method) raw).
  Proof.
    unfold Dispatch.tag_events. split; intros H; rewrite H; [reflexivity|apply app_nil_r].
  Qed.
  (* a silent answer (no events: `ignore_rejected` style, or a reducer that returns None) is
     acknowledged with an ACCEPT -- this is what the code does *)
  Theorem silent_answer_accepted (name method : string) : tag_events name method [] = [accept_event name method].
  Proof. reflexivity. Qed.
  (* tagging keeps name / payload / handler, sets the method, and fills an empty or missing tag with the method *)
  Theorem tag_event_fields (method : string) (e : event) :
    let e' := tag_event Pay method e in
    ev_name e' = ev_name e /\ ev_pay e' = ev_pay e /\ ev_handler e' = ev_handler e /\ ev_method e' = method /\
    ev_tag e' = Some (match ev_tag e with Some (String c r) => String c r | _ => method end).
  Proof. cbn. repeat split. Qed.

  (* a rejection among the raw events: nothing acknowledges it *)
  Theorem reject_not_accepted (name method : string) (raw : list event) :
    existsb (fun e => match ev_tag e with Some t => String.eqb t REJECT | None => false end) raw = true ->
    tag_events name method raw = map (tag_event Pay method) raw.
  Proof.
    intros H. apply accept_rule. apply existsb_exists in H. destruct H as (e & I & T).
    apply not_true_is_false. intros X. rewrite forallb_forall in X. specialize (X e I).
    unfold is_rej_acc in X. destruct (ev_tag e); [|discriminate]. rewrite T in X. discriminate.
  Qed.
End StoreP.
