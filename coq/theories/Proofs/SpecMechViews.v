(* C10 for the classes of Model/SpecMech.v: validity never reports a negative remaining time and a skill
   advertised as usable is accepted when used. *)
From Coq Require Import ZArith List Bool Lia.
From V.Model Require Import Comp SpecMech.
From V.Proofs Require Import CompReject CompViews SpecMechReject.
Import ListNotations.
Open Scope Z_scope.

Lemma xvalidity_time_left_nonneg c p s v : xview_validity c p s = Some v -> 0 <= v_time_left v.
Proof. destruct c; cbn; intros H; try discriminate; injection H as <-; cbn; lia. Qed.

(* valid -> accepted, every modelled class that has a validity view and a use reducer *)
Lemma xvalid_accepts c p t s v s' es :
  xview_validity c p s = Some v -> v_valid v = true ->
  xreduce_spec c XUse p t s = Some (s', es) -> rejected es = false.
Proof.
  intros Hv V H. destruct c; cbn in Hv, H; try discriminate; injection Hv as <-; cbn [v_valid] in V;
    apply some_inj in H; apply pair_eq in H; destruct H as [_ ->].
  all: try (unfold rs_use, bf_use, hm_use, fc_use, lift, use_periodic_with_simple, use_buff_trait, use_periodic, use_simple_attack;
            rewrite V; reflexivity).
  - (* full metal barrage *)
    apply andb_prop in V. destruct V as [A R]. apply negb_true_iff in R.
    unfold fmb_use, lift, use_keydown_trait. rewrite A, R. reflexivity.
  - unfold mo_use. rewrite V. reflexivity.
  - unfold mc_use. rewrite V. reflexivity.
  - (* cross the styx *) unfold styx_use. rewrite V. reflexivity.
  - (* cosmic shower *)
    apply andb_prop in V. destruct V as [A O]. apply Z.ltb_lt in O.
    unfold cs_use, orb_gate. rewrite A. replace (LS.stack (x_ls s) =? 0) with false by (symmetry; apply Z.eqb_neq; lia). reflexivity.
  - (* cosmos *)
    apply andb_prop in V. destruct V as [A O]. apply Z.ltb_lt in O.
    unfold cm_use, orb_gate. rewrite A. replace (LS.stack (x_ls s) =? 0) with false by (symmetry; apply Z.eqb_neq; lia). reflexivity.
  - (* blade storm *)
    apply andb_prop in V. destruct V as [A R]. apply negb_true_iff in R.
    unfold bs_use, lift, use_keydown_trait. rewrite A, R. reflexivity.
  - (* karma blade: use never rejects *) reflexivity.
  - (* howling gale *) unfold hg_use. rewrite V. reflexivity.
Qed.

(* the converse where validity is exactly the gate of use *)
Lemma xvalidity_mirrors_use c p t s v s' es :
  match c with FlareSlash | KarmaBlade | CosmicOrb | CosmicBurst => False | _ => True end ->
  0 <= LS.stack (x_ls s) ->
  xview_validity c p s = Some v -> xreduce_spec c XUse p t s = Some (s', es) ->
  v_valid v = negb (rejected es).
Proof.
  intros Hc Hs Hv H. destruct c; cbn in Hv, H, Hc; try discriminate; try contradiction; injection Hv as <-; cbn [v_valid];
    apply some_inj in H; apply pair_eq in H; destruct H as [_ ->].
  all: try (unfold rs_use, bf_use, hm_use, fc_use, mo_use, mc_use, styx_use, hg_use, lift, use_periodic_with_simple, use_buff_trait, use_periodic, use_simple_attack;
            match goal with |- context [if negb ?b then _ else _] => destruct b end; reflexivity).
  - unfold fmb_use, lift, use_keydown_trait. destruct (avail (x_u s)); destruct (K.running (u_kd (x_u s))); reflexivity.
  - unfold cs_use, orb_gate. destruct (avail (x_u s)); cbn; [|reflexivity].
    destruct (Z.eqb_spec (LS.stack (x_ls s)) 0) as [E|E]; [rewrite E; reflexivity|].
    replace (0 <? LS.stack (x_ls s)) with true by (symmetry; apply Z.ltb_lt; lia). reflexivity.
  - unfold cm_use, orb_gate. destruct (avail (x_u s)); cbn; [|reflexivity].
    destruct (Z.eqb_spec (LS.stack (x_ls s)) 0) as [E|E]; [rewrite E; reflexivity|].
    replace (0 <? LS.stack (x_ls s)) with true by (symmetry; apply Z.ltb_lt; lia). reflexivity.
  - unfold bs_use, lift, use_keydown_trait. destruct (avail (x_u s)); destruct (K.running (u_kd (x_u s))); reflexivity.
Qed.

(* FlareSlash is never advertised (it is fired by its triggers only) *)
Lemma flare_never_advertised p s v : xview_validity FlareSlash p s = Some v -> v_valid v = false.
Proof. cbn. intros H. injection H as <-. reflexivity. Qed.

(* MecaCarrier's running view reports stack 0 when the summon is over *)
Lemma meca_stack_hidden_when_off p s r :
  xview_running MecaCarrier p s = Some r -> DP.tl (x_dp s) <= 0 -> r_stack r = Some 0.
Proof.
  cbn. intros H Hl. injection H as <-. cbn. replace (0 <? DP.tl (x_dp s)) with false by (symmetry; apply Z.ltb_ge; lia). reflexivity.
Qed.

(* a running key-down is not advertised *)
Example barrage_running_not_advertised :
  exists s1 e1, xreduce_spec FullMetalBarrage XUse (mkXP kd0_par (0, 0) 0 2000 0 1 1 []) 0 (set_u x0 kd0_state) = Some (s1, e1) /\
    rejected e1 = false /\
    exists v, xview_validity FullMetalBarrage (mkXP kd0_par (0, 0) 0 2000 0 1 1 []) s1 = Some v /\ v_valid v = false.
Proof. do 2 eexists. repeat split; try (vm_compute; reflexivity). eexists. split; vm_compute; reflexivity. Qed.

Example xvalid_state_exists :
  exists v, xview_validity RobotSummon flare_par x0 = Some v /\ v_valid v = true.
Proof. eexists. split; reflexivity. Qed.
