(* C19 (real targets)  The four step-wise optimizer targets simaple ships -- hyper stat, union squad, union occupation,
   link skills -- never do worse, stay within budget and bounds and keep presets, with NO hypothesis left about the objective.

   Props/C19.v proves the optimizer theorems for abstract value/cost functions; "scores at least as well as the starting
   point" there needs "the value does not fall along a legal step".  Here that hypothesis is PROVED for the real objectives.
   Every definition named Hyperstat_*, UnionBlock_*, UnionSquad_*, UnionOccupation_*, LinkSkill_*, LinkSkillset_*, *Target_*,
   get_kms_hyperstat, create_with_some_large_blocks, get_kms_link_skill_set, data_* is GENERATED on every run by
   tools/tr_targets.py (gen/Targets.v): the tables by running the tree's own loaders, the arithmetic statement by statement
   from simaple/system/{hyperstat,union,link}.py, simaple/optimizer/*_optimizer.py, simaple/data/system/*.py.
   Model/Targets.v only builds the real target object (generated constructor `<T>Target_init`, generated `set_state`) and
   reads it with the generated `get_value` / `get_cost`:
     T_value_opt L default armor st = <T>Target(default, L, <shipped prototype>, armor=armor) in state st . get_value()
   (None where Python raises), T_value = the same with 0 for None, L : logic = any of the five damage logics of gen/CoreQ.v,
   state = Model/Greedy.v's list of per-slot step counts.

   reference_ok L default armor  :=  C12's hypotheses on the reference block (0 <= attack_range_constant, 0 <= mastery <= 1,
   every field of default >= 0, armor >= 0, armour term 1 - armor*(100 - ied)/10000 >= 0 at default)
   PLUS ignored_defence default <= 100.  The extra hypothesis is needed: C19_value_needs_ignored_defence_le_100 exhibits a
   block with ignored defence 150 satisfying all of C12's hypotheses on which one more level of the ignored-defence hyper stat
   LOWERS the value (Stat.__add__ combines ignored defence as 100 - (100-a)(100-b)/100, which falls for a > 100).  A limit of
   the statement (no real block has ignored defence above 100 %), not a defect of the code.

   For each target T:
   * C19_T_tables_monotone -- every shipped option table (hyper stat: per property by level 0..15; union block: by block size
     1..5; occupation: by occupied cells 0..40; link skill: by link level) is non-decreasing in the level in EVERY stat field,
     every entry has all fields >= 0 and ignored defence <= 100 (table_monotone; vm_compute over the generated table lifted
     with forallb_forall -- the bound is the table); costs: hyper stat cost entries >= 0 and the cumulative cost
     get_cost_for_level is non-decreasing, the cost of every target is non-decreasing in the state; union blocks belong to
     pairwise different jobs (so UnionSquad.get_stat's per-job dict is a plain sum); the squads PresetOptimizer builds (block
     sizes 4 and 5) and the shipped link set (every link at its maximum level) index inside their tables; occupation: the
     configured maximum step (40) is <= the last index of every row.
   * C19_T_value_monotone -- for every reference block with reference_ok, every logic, all states st <= st' (le_state: same
     slots, none lowered) inside the tables (within T_caps st'; for the two mask targets every state): get_value() is defined
     at both, non-negative, and value st <= value st'.  Via Stat.__add__/__iadd__ monotone on good blocks and C12's
     STR/INT/DEX/LUK/Dual_damage_factor_mono (Proofs/DamageMono.v = the C12 theorems).
   * C19_T_never_worse -- for every budget, step size, iteration limit and start state (presets included): if
     StepwizeOptimizer(target, budget, step_size, max_iter).optimize() returns (Done st' k) then value st <= value st'.
     Hyper stat: for budgets below hyper_cost_beyond_tables = 1000549, the cost of the cheapest state that leaves a table
     (C19_hyperstat_budget_range: every budget Hyperstat.get_maximum_cost_from_level yields for character levels 0..300 is
     below it; at or above it the REAL code raises IndexError in get_stat, the last cost entry 999999 being the only guard).
   * C19_T_result -- budget (cost of the result <= budget whenever a step was taken, with the target's concrete cost:
     sum(state), resp. the generated Hyperstat.get_current_cost), bounds (every slot <= max(start, maximum step) with the
     maximum step the generated constructor configures: 1, 40, resp. NO_MAXIMUM_STEP for the hyper stat, where
     C19_hyperstat_result_within_tables gives the real bound: inside the tables), presets kept (le_state st st').
   * C19_T_locally_optimal -- at termination no increment of the iterator that is legal, affordable and costs more reaches
     the result's value (for a positive value).
   * C19_T_example -- non-vacuity: a concrete reference block (C12's example character), states inside the tables, values
     computed by vm_compute strictly increasing; the generated constructors put pre-assigned jobs into the start state.
   * C19_targets_fast_eval_ok -- the evaluation order used by the correspondence shards (fractions reduced after each addition)
     equals the generated get_value for ALL inputs; so the checked correspondence is about the generated definitions.

   Not covered here (still as in Props/C19.v): weapon potential (arg-max theorems; prune-safety hypothesis checked by brute
   force), PresetOptimizer's orchestration of the five optimizers, float rounding (values are exact rationals). *)
From Coq Require Import List ZArith QArith Bool String.
From V.Model Require Import Greedy TargetsRt Targets.
From V.Proofs Require Import DamageMono TargetsGen GreedyP GreedyCoded TargetsFast Targets.
From G Require Import CoreQ Targets.
Import ListNotations.

Theorem C19_hyperstat_tables_monotone :
  (forall (p : string) (opts : list Stat),
         In (p, opts) (Hyperstat_options get_kms_hyperstat) -> opts <> [] /\ table_monotone opts) /\
        (forall c : Z, In c (Hyperstat_cost get_kms_hyperstat) -> 0 <= c) /\
        (forall n m : nat,
         (n <= m)%nat ->
         0 <= Hyperstat_get_cost_for_level get_kms_hyperstat (Z.of_nat n) <=
         Hyperstat_get_cost_for_level get_kms_hyperstat (Z.of_nat m)) /\
        (forall st st' : state, le_state st st' -> (hyper_cost st <= hyper_cost st')%Q).
Proof. exact @T_hyper_tables_monotone. Qed.

Theorem C19_hyperstat_value_monotone :
  forall (L : logic) (default : Stat) (armor : Q) (st st' : state),
        reference_ok L default armor ->
        le_state st st' ->
        within hyper_caps st' ->
        exists v v' : Q,
          hyper_value_opt L default armor st = Some v /\
          hyper_value_opt L default armor st' = Some v' /\ (0 <= v <= v')%Q.
Proof. exact @T_hyper_value_monotone. Qed.

Theorem C19_hyperstat_never_worse :
  forall (L : logic) (default : Stat) (armor budget : Q) (step_size max_iter : nat) 
          (st st' : state) (k : nat),
        reference_ok L default armor ->
        (budget < qz hyper_cost_beyond_tables)%Q ->
        optimize_coded (hyper_value L default armor) hyper_cost hyper_M budget step_size max_iter st =
        Done st' k -> (hyper_value L default armor st <= hyper_value L default armor st')%Q.
Proof. exact @T_hyper_never_worse. Qed.

Theorem C19_hyperstat_budget_range :
  hyper_cost_beyond_tables = 1000549 /\
        (forall lv : nat,
         (lv <= 300)%nat ->
         (qz (Hyperstat_get_maximum_cost_from_level (Z.of_nat lv)) < qz hyper_cost_beyond_tables)%Q).
Proof. exact @T_hyper_budget_range. Qed.

Theorem C19_hyperstat_result :
  forall (L : logic) (default : Stat) (armor budget : Q) (step_size max_iter : nat) 
          (st st' : state) (k : nat),
        optimize_coded (hyper_value L default armor) hyper_cost hyper_M budget step_size max_iter st =
        Done st' k ->
        le_state st st' /\
        (forall j : nat, (nth j st' 0 <= Nat.max (nth j st 0) hyper_M)%nat) /\
        (st' = st /\ k = 0%nat \/ (0 < k)%nat /\ (hyper_cost st' <= budget)%Q).
Proof. exact @T_hyper_result. Qed.

Theorem C19_hyperstat_result_within_tables :
  forall (L : logic) (default : Stat) (armor budget : Q) (step_size max_iter : nat) 
          (st : list nat) (st' : state) (k : nat),
        (budget < qz hyper_cost_beyond_tables)%Q ->
        Datatypes.length st = Datatypes.length (Hyperstat_options get_kms_hyperstat) ->
        optimize_coded (hyper_value L default armor) hyper_cost hyper_M budget step_size max_iter st =
        Done st' k -> (0 < k)%nat -> within hyper_caps st'.
Proof. exact @T_hyper_result_within_tables. Qed.

Theorem C19_hyperstat_locally_optimal :
  forall (L : logic) (default : Stat) (armor budget : Q) (step_size max_iter : nat) 
          (st st' : state) (k : nat),
        optimize_coded (hyper_value L default armor) hyper_cost hyper_M budget step_size max_iter st =
        Done st' k ->
        (0 < hyper_value L default armor st')%Q ->
        forall (m : list nat) (s2 : state),
        candidate step_size st' m ->
        stepped (fun _ : nat => hyper_M) st' m = Some s2 ->
        (hyper_cost s2 <= budget)%Q ->
        (hyper_cost st' < hyper_cost s2)%Q ->
        (hyper_value L default armor s2 <=
         hyper_value L default armor st' * (1 - (hyper_cost s2 - hyper_cost st')))%Q /\
        (hyper_value L default armor s2 < hyper_value L default armor st')%Q.
Proof. exact @T_hyper_locally_optimal. Qed.

Theorem C19_union_squad_tables_monotone :
  (forall b : UnionBlock, In b data_all_blocks -> table_monotone (UnionBlock_options b)) /\
        NoDup (map UnionBlock_job data_all_blocks) /\
        (forall (sizes : list Z) (st st' : state),
         le_state st st' -> (squad_cost sizes st <= squad_cost sizes st')%Q) /\
        (forall jobs : list string,
         sizes_ok (UnionSquad_block_size (create_with_some_large_blocks jobs 4 5)) = true).
Proof. exact @T_squad_tables_monotone. Qed.

Theorem C19_union_squad_value_monotone :
  forall (L : logic) (default : Stat) (armor : Q) (sizes : list Z) (st st' : state),
        reference_ok L default armor ->
        sizes_ok sizes = true ->
        le_state st st' ->
        exists v v' : Q,
          squad_value_opt L default armor sizes st = Some v /\
          squad_value_opt L default armor sizes st' = Some v' /\ (0 <= v <= v')%Q.
Proof. exact @T_squad_value_monotone. Qed.

Theorem C19_union_squad_never_worse :
  forall (L : logic) (default : Stat) (armor : Q) (sizes : list Z) (budget : Q)
          (step_size max_iter : nat) (st st' : state) (k : nat),
        reference_ok L default armor ->
        sizes_ok sizes = true ->
        optimize_coded (squad_value L default armor sizes) (squad_cost sizes) (squad_M sizes) budget step_size
          max_iter st = Done st' k ->
        (squad_value L default armor sizes st <= squad_value L default armor sizes st')%Q.
Proof. exact @T_squad_never_worse. Qed.

Theorem C19_union_squad_result :
  forall (L : logic) (default : Stat) (armor : Q) (sizes : list Z) (budget : Q)
          (step_size max_iter : nat) (st st' : state) (k : nat),
        optimize_coded (squad_value L default armor sizes) (squad_cost sizes) (squad_M sizes) budget step_size
          max_iter st = Done st' k ->
        le_state st st' /\
        (forall j : nat, (nth j st' 0 <= Nat.max (nth j st 0) 1)%nat) /\
        (st' = st /\ k = 0%nat \/ (0 < k)%nat /\ (qz (py_sum_Z (zs st')) <= budget)%Q).
Proof. exact @T_squad_result. Qed.

Theorem C19_union_squad_locally_optimal :
  forall (L : logic) (default : Stat) (armor : Q) (sizes : list Z) (budget : Q)
          (step_size max_iter : nat) (st st' : state) (k : nat),
        optimize_coded (squad_value L default armor sizes) (squad_cost sizes) (squad_M sizes) budget step_size
          max_iter st = Done st' k ->
        (0 < squad_value L default armor sizes st')%Q ->
        forall (m : list nat) (s2 : state),
        candidate step_size st' m ->
        stepped (fun _ : nat => 1%nat) st' m = Some s2 ->
        (squad_cost sizes s2 <= budget)%Q ->
        (squad_cost sizes st' < squad_cost sizes s2)%Q ->
        (squad_value L default armor sizes s2 <=
         squad_value L default armor sizes st' * (1 - (squad_cost sizes s2 - squad_cost sizes st')))%Q /\
        (squad_value L default armor sizes s2 < squad_value L default armor sizes st')%Q.
Proof. exact @T_squad_locally_optimal. Qed.

Theorem C19_union_occupation_tables_monotone :
  (forall row : list (Stat * ActionStat),
         In row data_union_occupation_values -> row <> [] /\ table_monotone (map fst row)) /\
        Forall (fun c : nat => (occ_M <= c)%nat) occ_caps /\
        (forall st st' : state, le_state st st' -> (occ_cost st <= occ_cost st')%Q).
Proof. exact @T_occ_tables_monotone. Qed.

Theorem C19_union_occupation_value_monotone :
  forall (L : logic) (default : Stat) (armor : Q) (st st' : state),
        reference_ok L default armor ->
        le_state st st' ->
        within occ_caps st' ->
        exists v v' : Q,
          occ_value_opt L default armor st = Some v /\
          occ_value_opt L default armor st' = Some v' /\ (0 <= v <= v')%Q.
Proof. exact @T_occ_value_monotone. Qed.

Theorem C19_union_occupation_never_worse :
  forall (L : logic) (default : Stat) (armor budget : Q) (step_size max_iter : nat) 
          (st st' : state) (k : nat),
        reference_ok L default armor ->
        optimize_coded (occ_value L default armor) occ_cost occ_M budget step_size max_iter st = Done st' k ->
        (occ_value L default armor st <= occ_value L default armor st')%Q.
Proof. exact @T_occ_never_worse. Qed.

Theorem C19_union_occupation_result :
  forall (L : logic) (default : Stat) (armor budget : Q) (step_size max_iter : nat) 
          (st st' : state) (k : nat),
        optimize_coded (occ_value L default armor) occ_cost occ_M budget step_size max_iter st = Done st' k ->
        le_state st st' /\
        (forall j : nat, (nth j st' 0 <= Nat.max (nth j st 0) 40)%nat) /\
        (st' = st /\ k = 0%nat \/ (0 < k)%nat /\ (qz (py_sum_Z (zs st')) <= budget)%Q).
Proof. exact @T_occ_result. Qed.

Theorem C19_union_occupation_locally_optimal :
  forall (L : logic) (default : Stat) (armor budget : Q) (step_size max_iter : nat) 
          (st st' : state) (k : nat),
        optimize_coded (occ_value L default armor) occ_cost occ_M budget step_size max_iter st = Done st' k ->
        (0 < occ_value L default armor st')%Q ->
        forall (m : list nat) (s2 : state),
        candidate step_size st' m ->
        stepped (fun _ : nat => 40%nat) st' m = Some s2 ->
        (occ_cost s2 <= budget)%Q ->
        (occ_cost st' < occ_cost s2)%Q ->
        (occ_value L default armor s2 <= occ_value L default armor st' * (1 - (occ_cost s2 - occ_cost st')))%Q /\
        (occ_value L default armor s2 < occ_value L default armor st')%Q.
Proof. exact @T_occ_locally_optimal. Qed.

Theorem C19_link_tables_monotone :
  (forall l : LinkSkill, In l data_all_linkskills -> table_monotone (LinkSkill_options l)) /\
        levels_ok (LinkSkillset_link_levels get_kms_link_skill_set) = true /\
        (forall (levels : list Z) (st st' : state),
         le_state st st' -> (link_cost levels st <= link_cost levels st')%Q).
Proof. exact @T_link_tables_monotone. Qed.

Theorem C19_link_value_monotone :
  forall (L : logic) (default : Stat) (armor : Q) (levels : list Z) (st st' : state),
        reference_ok L default armor ->
        levels_ok levels = true ->
        le_state st st' ->
        exists v v' : Q,
          link_value_opt L default armor levels st = Some v /\
          link_value_opt L default armor levels st' = Some v' /\ (0 <= v <= v')%Q.
Proof. exact @T_link_value_monotone. Qed.

Theorem C19_link_never_worse :
  forall (L : logic) (default : Stat) (armor : Q) (levels : list Z) (budget : Q)
          (step_size max_iter : nat) (st st' : state) (k : nat),
        reference_ok L default armor ->
        levels_ok levels = true ->
        optimize_coded (link_value L default armor levels) (link_cost levels) (link_M levels) budget step_size
          max_iter st = Done st' k ->
        (link_value L default armor levels st <= link_value L default armor levels st')%Q.
Proof. exact @T_link_never_worse. Qed.

Theorem C19_link_result :
  forall (L : logic) (default : Stat) (armor : Q) (levels : list Z) (budget : Q)
          (step_size max_iter : nat) (st st' : state) (k : nat),
        optimize_coded (link_value L default armor levels) (link_cost levels) (link_M levels) budget step_size
          max_iter st = Done st' k ->
        le_state st st' /\
        (forall j : nat, (nth j st' 0 <= Nat.max (nth j st 0) 1)%nat) /\
        (st' = st /\ k = 0%nat \/ (0 < k)%nat /\ (qz (py_sum_Z (zs st')) <= budget)%Q).
Proof. exact @T_link_result. Qed.

Theorem C19_link_locally_optimal :
  forall (L : logic) (default : Stat) (armor : Q) (levels : list Z) (budget : Q)
          (step_size max_iter : nat) (st st' : state) (k : nat),
        optimize_coded (link_value L default armor levels) (link_cost levels) (link_M levels) budget step_size
          max_iter st = Done st' k ->
        (0 < link_value L default armor levels st')%Q ->
        forall (m : list nat) (s2 : state),
        candidate step_size st' m ->
        stepped (fun _ : nat => 1%nat) st' m = Some s2 ->
        (link_cost levels s2 <= budget)%Q ->
        (link_cost levels st' < link_cost levels s2)%Q ->
        (link_value L default armor levels s2 <=
         link_value L default armor levels st' * (1 - (link_cost levels s2 - link_cost levels st')))%Q /\
        (link_value L default armor levels s2 < link_value L default armor levels st')%Q.
Proof. exact @T_link_locally_optimal. Qed.

Theorem C19_hyperstat_example :
  reference_ok exL exS 300 /\
        within hyper_caps [0%nat; 0%nat; 0%nat; 3%nat; 2%nat; 5%nat; 0%nat; 0%nat; 1%nat; 15%nat] /\
        up
          (hyper_value_opt exL exS 300 [0%nat; 0%nat; 0%nat; 0%nat; 0%nat; 0%nat; 0%nat; 0%nat; 0%nat; 0%nat])
          (hyper_value_opt exL exS 300 [0%nat; 0%nat; 0%nat; 3%nat; 2%nat; 5%nat; 0%nat; 0%nat; 1%nat; 15%nat]) /\
        hyper_cost_opt [0%nat; 0%nat; 0%nat; 3%nat; 2%nat; 5%nat; 0%nat; 0%nat; 1%nat; 15%nat] = Some 586.
Proof. exact @T_hyper_example. Qed.

Theorem C19_union_squad_example :
  let sizes := UnionSquad_block_size (create_with_some_large_blocks ["archmagefb"%string] 4 5) in
        sizes_ok sizes = true /\
        up (squad_value_opt exL exS 300 sizes (ones 47 [4%nat]))
          (squad_value_opt exL exS 300 sizes (ones 47 [0%nat; 4%nat; 6%nat; 21%nat; 45%nat])) /\
        squad_cost_opt sizes (ones 47 [0%nat; 4%nat; 6%nat; 21%nat; 45%nat]) = Some 5 /\
        match
          UnionSquadTarget_init exS (fun (_ : Stat) (_ : Q) => 0%Q)
            (create_with_some_large_blocks ["archmagefb"%string] 4 5) ["archmagefb"%string] 300
        with
        | Some t => UnionSquadTarget_state t = zs (ones 47 [4%nat]) /\ UnionSquadTarget_maximum_step t = 1
        | None => False
        end.
Proof. exact @T_squad_example. Qed.

Theorem C19_union_occupation_example :
  within occ_caps [40%nat; 0%nat; 13%nat; 7%nat; 40%nat] /\
        up (occ_value_opt exL exS 300 [0%nat; 0%nat; 0%nat; 0%nat; 40%nat])
          (occ_value_opt exL exS 300 [40%nat; 0%nat; 13%nat; 7%nat; 40%nat]) /\
        (occ_cost [40%nat; 0%nat; 13%nat; 7%nat; 40%nat] == 100)%Q /\
        occ_value_opt exL exS 300 [41%nat; 0%nat; 0%nat; 0%nat; 0%nat] = None.
Proof. exact @T_occ_example. Qed.

Theorem C19_link_example :
  let levels := LinkSkillset_link_levels get_kms_link_skill_set in
        levels_ok levels = true /\
        up (link_value_opt exL exS 300 levels (ones 27 [3%nat]))
          (link_value_opt exL exS 300 levels (ones 27 [3%nat; 5%nat; 7%nat; 24%nat])) /\
        link_cost_opt levels (ones 27 [3%nat; 5%nat; 7%nat; 24%nat]) = Some 4 /\
        match
          LinkSkillTarget_init exS (fun (_ : Stat) (_ : Q) => 0%Q) get_kms_link_skill_set
            ["archmagefb"%string] 300
        with
        | Some t => LinkSkillTarget_state t = zs (ones 27 [3%nat]) /\ LinkSkillTarget_maximum_step t = 1
        | None => False
        end.
Proof. exact @T_link_example. Qed.

Theorem C19_value_needs_ignored_defence_le_100 :
  exists st st' : state,
          logic_wf exL /\
          Stat_nonneg exS_over /\
          (0 <= logic_armor_factor exL exS_over 300)%Q /\
          le_state st st' /\
          within hyper_caps st' /\
          (exists v v' : Q,
             hyper_value_opt exL exS_over 300 st = Some v /\
             hyper_value_opt exL exS_over 300 st' = Some v' /\ (v' < v)%Q).
Proof. exact @T_ied_above_100_not_monotone. Qed.

Theorem C19_targets_fast_eval_ok :
  (forall (L : logic) (default : Stat) (armor : Q) (st : state),
         oqeq (hyper_value_fast L default armor st) (hyper_value_opt L default armor st)) /\
        (forall (L : logic) (default : Stat) (armor : Q) (sizes : list Z) (st : state),
         oqeq (squad_value_fast L default armor sizes st) (squad_value_opt L default armor sizes st)) /\
        (forall (L : logic) (default : Stat) (armor : Q) (st : state),
         oqeq (occ_value_fast L default armor st) (occ_value_opt L default armor st)) /\
        (forall (L : logic) (default : Stat) (armor : Q) (levels : list Z) (st : state),
         oqeq (link_value_fast L default armor levels st) (link_value_opt L default armor levels st)).
Proof. exact @fast_eval_ok. Qed.

Print Assumptions C19_hyperstat_tables_monotone.
Print Assumptions C19_hyperstat_value_monotone.
Print Assumptions C19_hyperstat_never_worse.
Print Assumptions C19_hyperstat_budget_range.
Print Assumptions C19_hyperstat_result.
Print Assumptions C19_hyperstat_result_within_tables.
Print Assumptions C19_hyperstat_locally_optimal.
Print Assumptions C19_union_squad_tables_monotone.
Print Assumptions C19_union_squad_value_monotone.
Print Assumptions C19_union_squad_never_worse.
Print Assumptions C19_union_squad_result.
Print Assumptions C19_union_squad_locally_optimal.
Print Assumptions C19_union_occupation_tables_monotone.
Print Assumptions C19_union_occupation_value_monotone.
Print Assumptions C19_union_occupation_never_worse.
Print Assumptions C19_union_occupation_result.
Print Assumptions C19_union_occupation_locally_optimal.
Print Assumptions C19_link_tables_monotone.
Print Assumptions C19_link_value_monotone.
Print Assumptions C19_link_never_worse.
Print Assumptions C19_link_result.
Print Assumptions C19_link_locally_optimal.
Print Assumptions C19_hyperstat_example.
Print Assumptions C19_union_squad_example.
Print Assumptions C19_union_occupation_example.
Print Assumptions C19_link_example.
Print Assumptions C19_value_needs_ignored_defence_le_100.
Print Assumptions C19_targets_fast_eval_ok.
