(* C05 at the dispatch / store level (Model/Dispatch.v composed with Model/Router.v and Model/Play.v).  The model is instrumented with a GHOST trace of reducer invocations (component, mapping key, method, payload, addon mark); the mark is set on the defined action of an addon, so invocations caused by re-entrant addon dispatch (at any depth) are counted apart: C05_addon_invocations_marked says they never add an unmarked record.  C05_dispatch_trace: one router dispatch of a top-level action (coherent route cache) adds as unmarked records exactly, in installation order, one invocation per installed component for which _find_mapping_name is defined on the signature and a reducer is mapped there, with the action payload (direct).  C05_listeners_offered_once: for plays k and k+1 (no dispatch raised), the queue of play k+1 is rev (emitted callbacks of E1) ++ [action] ++ done callbacks of E1 and the unmarked records play k+1 adds are exactly: for each emitted callback (newest event first) one invocation of each listening component with the event payload, THEN the invocations of the played action itself, THEN the same for each done callback -- once before, once after.  C05_one_invocation_per_listener: with pairwise distinct component names, a listening component occurs exactly once among what is offered for one callback.  C05_not_offered_later: what play k+2 offers is determined by the events of play k+1 and its own action: an event of play k causes no invocation in play k+2 (and by induction later).  C05_callbacks_agree: the callback actions of Model/Play.v read through act_of are the strings _get_event_callbacks builds (method.emitted.tag-or-empty).  Tested, not proved: the tie of the model to the code (H-dispatch: _find_mapping_name, callbacks, whole-play invocation traces compared with the real engines).  C05_one_invocation_per_listener_b: the same with the boolean guard names_distinct that gen/DispatchData.v evaluates on the installed components of the tree under test. *)
From Coq Require Import List String ZArith. From V.Model Require Import Router Play Engine Dispatch. From V.Proofs Require Import DispatchStore DispatchRouter DispatchPlay DispatchExamples.

Theorem C05_listeners_offered_once :
  forall (Ent Pay : Type) (empty_pay : Pay) (clock0 : Ent) (spent : Ent -> Pay -> option Ent)
          (pnone : Pay) (ptime : Z -> Pay) (sys : list (inst Ent Pay)) (fuel : nat)
          (st : Play.store (pst Ent Pay) Pay string string (option string))
          (a1 a2 : Play.action Pay string string (option string)),
        wf Ent Pay empty_pay clock0 spent sys (ent (pst Ent Pay) Pay string string (option string) st) ->
        let
        '(st1, E1, _) := pplay Ent Pay pnone ptime fuel (installed Ent Pay empty_pay clock0 spent sys) st a1
         in
         let
         '(st2, _, q2) := pplay Ent Pay pnone ptime fuel (installed Ent Pay empty_pay clock0 spent sys) st1 a2
          in
          p_ok (ent (pst Ent Pay) Pay string string (option string) st2) = true ->
          q2 =
          rev (map (emitted Pay string string (option string)) E1) ++
          (a2 :: nil) ++ map (done Pay string string (option string)) E1 /\
          top_only Pay (p_trace (ent (pst Ent Pay) Pay string string (option string) st2)) =
          top_only Pay (p_trace (ent (pst Ent Pay) Pay string string (option string) st1)) ++
          flat_map (offered Ent Pay pnone ptime sys)
            (rev (map (emitted Pay string string (option string)) E1)) ++
          offered Ent Pay pnone ptime sys a2 ++
          flat_map (offered Ent Pay pnone ptime sys) (map (done Pay string string (option string)) E1).
Proof. exact @listeners_offered_once. Qed.

Theorem C05_not_offered_later :
  forall (Ent Pay : Type) (empty_pay : Pay) (clock0 : Ent) (spent : Ent -> Pay -> option Ent)
          (pnone : Pay) (ptime : Z -> Pay) (sys : list (inst Ent Pay)) (fuel : nat)
          (st : Play.store (pst Ent Pay) Pay string string (option string))
          (a1 a2 a3 : Play.action Pay string string (option string)),
        wf Ent Pay empty_pay clock0 spent sys (ent (pst Ent Pay) Pay string string (option string) st) ->
        let
        '(st1, _, _) := pplay Ent Pay pnone ptime fuel (installed Ent Pay empty_pay clock0 spent sys) st a1 in
         let
         '(st2, E2, _) := pplay Ent Pay pnone ptime fuel (installed Ent Pay empty_pay clock0 spent sys) st1 a2
          in
          let
          '(st3, _, q3) :=
           pplay Ent Pay pnone ptime fuel (installed Ent Pay empty_pay clock0 spent sys) st2 a3 in
           p_ok (ent (pst Ent Pay) Pay string string (option string) st3) = true ->
           q3 =
           rev (map (emitted Pay string string (option string)) E2) ++
           (a3 :: nil) ++ map (done Pay string string (option string)) E2 /\
           top_only Pay (p_trace (ent (pst Ent Pay) Pay string string (option string) st3)) =
           top_only Pay (p_trace (ent (pst Ent Pay) Pay string string (option string) st2)) ++
           flat_map (offered Ent Pay pnone ptime sys)
             (rev (map (emitted Pay string string (option string)) E2)) ++
           offered Ent Pay pnone ptime sys a3 ++
           flat_map (offered Ent Pay pnone ptime sys) (map (done Pay string string (option string)) E2).
Proof. exact @not_offered_later. Qed.

Theorem C05_one_invocation_per_listener :
  forall (Ent Pay : Type) (pnone : Pay) (ptime : Z -> Pay) (sys : list (inst Ent Pay))
          (q : Play.action Pay string string (option string)) (c : component Ent Pay) 
          (i : invocation Pay),
        NoDup (map (fun c0 : component Ent Pay => c_name c0) (comps_of Ent Pay sys)) ->
        In (IComp c) sys ->
        direct Ent Pay (act_of Pay pnone ptime q) (IComp c) = i :: nil ->
        exactly_one (fun y : invocation Pay => i_comp y = c_name c) i (offered Ent Pay pnone ptime sys q).
Proof. exact @one_invocation_per_listener. Qed.

Theorem C05_one_invocation_per_listener_b :
  forall (Ent Pay : Type) (pnone : Pay) (ptime : Z -> Pay) (cs : list (component Ent Pay))
          (q : Play.action Pay string string (option string)) (c : component Ent Pay) 
          (i : invocation Pay),
        names_distinct Ent Pay cs = true ->
        In c cs ->
        direct Ent Pay (act_of Pay pnone ptime q) (IComp c) = i :: nil ->
        exactly_one (fun y : invocation Pay => i_comp y = c_name c) i
          (offered Ent Pay pnone ptime (shipped_system Ent Pay cs) q).
Proof. exact @one_invocation_per_listener_b. Qed.

Theorem C05_dispatch_trace :
  forall (Ent Pay : Type) (empty_pay : Pay) (clock0 : Ent) (spent : Ent -> Pay -> option Ent)
          (sys : list (inst Ent Pay)) (fuel : nat) (c : Router.cache string) (a : action Pay)
          (s : rst Ent Pay) (c' : Router.cache string) (s' : rst Ent Pay) (evs : list (event Pay)),
        Router.Coh string (action Pay) (rst Ent Pay) (event Pay) eqb
          (installed Ent Pay empty_pay clock0 spent sys) c ->
        a_addon a = false ->
        dispatch_c Ent Pay fuel (installed Ent Pay empty_pay clock0 spent sys) c a s = (c', Some (s', evs)) ->
        Router.Coh string (action Pay) (rst Ent Pay) (event Pay) eqb
          (installed Ent Pay empty_pay clock0 spent sys) c' /\
        top_only Pay (snd s') = top_only Pay (snd s) ++ flat_map (direct Ent Pay a) sys.
Proof. exact @router_trace. Qed.

Theorem C05_addon_invocations_marked :
  forall (Ent Pay : Type) (empty_pay : Pay) (clock0 : Ent) (spent : Ent -> Pay -> option Ent)
          (sys : list (inst Ent Pay)) (fuel : nat) (u : unit) (a : action Pay) (s : rst Ent Pay) 
          (u' : unit) (s' : rst Ent Pay) (evs : list (event Pay)),
        a_addon a = true ->
        dispatch_nc Ent Pay fuel (installed Ent Pay empty_pay clock0 spent sys) u a s = (u', Some (s', evs)) ->
        top_only Pay (snd s') = top_only Pay (snd s).
Proof. exact @marked_keeps_top. Qed.

Theorem C05_callbacks_agree :
  forall (Pay : Type) (pnone : Pay) (ptime : Z -> Pay) (e : event Pay),
        act_of Pay pnone ptime (emitted Pay string string (option string) (pev_of Pay e)) = emitted_cb Pay e /\
        act_of Pay pnone ptime (done Pay string string (option string) (pev_of Pay e)) = done_cb Pay e.
Proof. exact @callbacks_agree. Qed.

Theorem C05_callback_not_elapse :
  forall (Pay : Type) (pnone : Pay) (ptime : Z -> Pay)
          (e : Play.event Pay string string (option string)),
        is_elapse_act Pay (act_of Pay pnone ptime (emitted Pay string string (option string) e)) = false /\
        is_elapse_act Pay (act_of Pay pnone ptime (done Pay string string (option string) e)) = false.
Proof. exact @callback_not_elapse. Qed.

Theorem C05_dispatch_nonvacuous :
  two_plays =
        (3,
         {| i_comp := "atk"; i_key := "atk.use"; i_method := "use"; i_pay := 0%Z; i_addon := false |} :: nil,
         {| i_comp := "atk"; i_key := "atk.use"; i_method := "use"; i_pay := 0%Z; i_addon := false |}
         :: {|
              i_comp := "buff";
              i_key := "$.emitted.global.damage";
              i_method := "trigger";
              i_pay := 40%Z;
              i_addon := false
            |}
            :: {|
                 i_comp := "atk"; i_key := "*.elapse"; i_method := "elapse"; i_pay := 2%Z; i_addon := false
               |}
               :: {|
                    i_comp := "buff";
                    i_key := "*.elapse";
                    i_method := "elapse";
                    i_pay := 2%Z;
                    i_addon := false
                  |}
                  :: {|
                       i_comp := "atk";
                       i_key := "$.done.global.damage";
                       i_method := "after";
                       i_pay := 40%Z;
                       i_addon := false
                     |} :: nil,
         ("global.dynamics"%string, 100%Z)
         :: ("global.time"%string, 2%Z) :: (".atk.cooldown"%string, 3%Z) :: (".buff.stack"%string, 1%Z) :: nil,
         true).
Proof. exact @two_plays_trace. Qed.

Theorem C05_dollar_listener_example :
  find_mapping Ent Pay buff "atk.use.emitted.global.damage" = FFound "$.emitted.global.damage".
Proof. exact @find_dollar_listener. Qed.

Theorem C05_addon_marked_example :
  match run (A "combo" "use" 0%Z) st0 with
        | Some (_, tr, _) =>
            tr =
            {| i_comp := "combo"; i_key := "combo.use"; i_method := "use"; i_pay := 0%Z; i_addon := false |}
            :: {|
                 i_comp := "buff";
                 i_key := "buff.trigger";
                 i_method := "trigger";
                 i_pay := 7%Z;
                 i_addon := true
               |} :: nil /\ top_only Pay tr = flat_map (direct Ent Pay (A "combo" "use" 0%Z)) sys
        | None => False
        end.
Proof. exact @addon_invocation_marked. Qed.

Print Assumptions C05_listeners_offered_once.
Print Assumptions C05_not_offered_later.
Print Assumptions C05_one_invocation_per_listener.
Print Assumptions C05_one_invocation_per_listener_b.
Print Assumptions C05_dispatch_trace.
Print Assumptions C05_addon_invocations_marked.
Print Assumptions C05_callbacks_agree.
Print Assumptions C05_callback_not_elapse.
Print Assumptions C05_dispatch_nonvacuous.
Print Assumptions C05_dollar_listener_example.
Print Assumptions C05_addon_marked_example.
