(* C04 for run_plan_with_hint as GENERATED from simaple/api/base.py (tools/tr_hint.py -> gen/HintSrc.v): the generated function is
   the model's run_hint (prefix loop = common, step-back loop = stepback, slices), and it returns what a full run returns. *)
From Coq Require Import List ZArith.
Import ListNotations.
From V Require Import Lib.PyHist Model.Engine Proofs.HintTie.
From G Require Import HintSrc.

Theorem C04_src_cache_count_is_common_prefix :
  forall (Ev Act Ck H T D Name V : Type) (cmd_eqb : cmd T Name -> cmd T Name -> bool)
         (pcs cs : list (cmd T Name)) (ph : list (resp Ev Act Ck H T D Name V)),
    src_cache_count Ev Act Ck H T D Name V cmd_eqb pcs cs ph = Some (Z.of_nat (common Ev Act Ck H T D Name V cmd_eqb cs pcs (tl ph))).
Proof. exact @src_cache_count_is_common. Qed.

Theorem C04_src_runner_is_model_runner :
  forall (St Ev Act Ck H T D Name : Type) (play : St -> Act -> St * list Ev) (save : St -> Ck) (restore : Ck -> St) (clock : St -> T)
         (inspect : Name -> St -> D) (mk_act : Name -> meth -> option T -> Act) (star : Name) (ev_name : Ev -> Name)
         (ev_delay : Ev -> option T) (name_eqb : Name -> Name -> bool) (tzero : T) (tpos tis0 : T -> bool) (H0 : H)
         (hashf : H -> cmd T Name -> list (T * Act * list Ev) -> H) (V : Type) (view : St -> V) (dummy : Ck)
         (cmd_eqb : cmd T Name -> cmd T Name -> bool) (resp0 : resp Ev Act Ck H T D Name V)
         (pcs : list (cmd T Name)) (ph : list (resp Ev Act Ck H T D Name V)) (cs : list (cmd T Name)),
    src_run_plan_with_hint St Ev Act Ck H T D Name play save restore clock inspect mk_act star ev_name ev_delay name_eqb tzero tpos tis0
      H0 hashf V view dummy cmd_eqb pcs ph cs
    = run_hint St Ev Act Ck H T D Name play save restore clock inspect mk_act star ev_name ev_delay name_eqb tzero tpos tis0
      H0 hashf V view dummy cmd_eqb resp0 pcs ph cs.
Proof. exact @src_run_plan_with_hint_is_run_hint. Qed.

Theorem C04_src_hint_eq_full_run :
  forall (St Ev Act Ck H T D Name : Type) (play : St -> Act -> St * list Ev) (save : St -> Ck) (restore : Ck -> St) (clock : St -> T)
         (inspect : Name -> St -> D) (mk_act : Name -> meth -> option T -> Act) (star : Name) (ev_name : Ev -> Name)
         (ev_delay : Ev -> option T) (name_eqb : Name -> Name -> bool) (tzero : T) (tpos tis0 : T -> bool) (H0 : H)
         (hashf : H -> cmd T Name -> list (T * Act * list Ev) -> H) (V : Type) (view : St -> V) (dummy : Ck)
         (cmd_eqb : cmd T Name -> cmd T Name -> bool) (resp0 : resp Ev Act Ck H T D Name V),
    (forall s, restore (save s) = s) ->
    (forall a b : cmd T Name, cmd_eqb a b = true <-> a = b) ->
    forall (init : oplog Ev Act Ck H T D Name) (pcs cs : list (cmd T Name)) (ep ef : eng St Ev Act Ck H T D Name),
    lplogs Ev Act Ck H T D Name init <> [] ->
    run St Ev Act Ck H T D Name play save restore clock inspect mk_act star ev_name ev_delay name_eqb tzero tpos tis0 H0 hashf
      (of_logs St Ev Act Ck H T D Name [init]) pcs = Some ep ->
    run St Ev Act Ck H T D Name play save restore clock inspect mk_act star ev_name ev_delay name_eqb tzero tpos tis0 H0 hashf
      (of_logs St Ev Act Ck H T D Name [init]) cs = Some ef ->
    src_run_plan_with_hint St Ev Act Ck H T D Name play save restore clock inspect mk_act star ev_name ev_delay name_eqb tzero tpos tis0
      H0 hashf V view dummy cmd_eqb pcs (extract St Ev Act Ck H T D Name restore hashf V view ep 0) cs
    = Some (extract St Ev Act Ck H T D Name restore hashf V view ef 0).
Proof. exact @src_hint_eq_full_run. Qed.

(* what the generated prefix count means, without reference to the model: below it the new plan, the previous plan and the
   previous response hold the same command (nothing stale is reused); at it, when all three exist, they do not (nothing
   reusable is thrown away) *)
Theorem C04_src_cache_count_is_sound_and_maximal :
  forall (Ev Act Ck H T D Name V : Type) (cmd_eqb : cmd T Name -> cmd T Name -> bool),
    (forall a b : cmd T Name, cmd_eqb a b = true <-> a = b) ->
    forall (pcs cs : list (cmd T Name)) (ph : list (resp Ev Act Ck H T D Name V)),
    exists k : nat,
      src_cache_count Ev Act Ck H T D Name V cmd_eqb pcs cs ph = Some (Z.of_nat k) /\
      (forall j : nat, (j < k)%nat ->
         exists (c : cmd T Name) (h : resp Ev Act Ck H T D Name V),
           nth_error cs j = Some c /\ nth_error pcs j = Some c /\ nth_error (tl ph) j = Some h /\ rcmd Ev Act Ck H T D Name V h = c) /\
      (forall (c pc : cmd T Name) (h : resp Ev Act Ck H T D Name V),
         nth_error cs k = Some c -> nth_error pcs k = Some pc -> nth_error (tl ph) k = Some h ->
         ~ (pc = rcmd Ev Act Ck H T D Name V h /\ c = pc)).
Proof. exact @src_cache_count_spec. Qed.

Print Assumptions C04_src_cache_count_is_common_prefix.
Print Assumptions C04_src_runner_is_model_runner.
Print Assumptions C04_src_hint_eq_full_run.
Print Assumptions C04_src_cache_count_is_sound_and_maximal.
