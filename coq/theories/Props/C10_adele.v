(* C10 (extension adele)  Status views never advertise a skill that would be rejected, for the classes of Model/SpecAdele.v; views are total functions of the state by construction (Python exceptions are outside the model and are monitored on the implementation).  C10_adele_time_left_nonneg: every validity view reports a non-negative remaining time.  C10_adele_valid_accepts: for every modelled class that has a validity view and a use reducer, all parameters and states: whenever validity reports the skill usable, use returns no rejection.  C10_adele_validity_mirrors_use: for AdeleOrder / AdeleBlossom / AdeleStorm (cooldown AND ether or swords) validity is exactly 'use would not be rejected'.  C10_adele_gathering_accepts_without_swords: validity is sufficient, not necessary (AdeleGathering hides itself without swords although use would be accepted and deal nothing).  C10_adele_always_enabled_views: the views of the view-only class AlwaysEnabledComponent.  C10_adele_order_stack_nonneg, C10_adele_cygnus_buff_capped: well-formedness of the reported stack / multiplier.  C10_adele_nonvacuous*: usable states exist.  No hypotheses. *)
From Coq Require Import ZArith List Bool Permutation. From V.Model Require Import Comp SpecAdele. From V.Proofs Require Import CompReject CompChunk SpecAdelePG SpecAdeleReject SpecAdeleViews SpecAdeleChunk SpecAdeleOrder.

Theorem C10_adele_time_left_nonneg :
  forall (c : xcomp) (p : xpar) (s : xst) (v : validity),
        xview_validity c p s = Some v -> 0 <= v_time_left v.
Proof. exact @xvalidity_time_left_nonneg. Qed.

Theorem C10_adele_valid_accepts :
  forall (c : xcomp) (p : xpar) (t : Z) (s s' : xst) (es : list ev) (v : validity),
        xview_validity c p s = Some v ->
        v_valid v = true -> xreduce_spec c XUse p t s = Some (s', es) -> rejected es = false.
Proof. exact @xvalid_accepts. Qed.

Theorem C10_adele_validity_mirrors_use :
  forall (c : xcomp) (p : xpar) (t : Z) (s s' : xst) (es : list ev) (v : validity),
        c = Order \/ c = Blossom \/ c = Storm ->
        xview_validity c p s = Some v ->
        xreduce_spec c XUse p t s = Some (s', es) -> v_valid v = negb (rejected es).
Proof. exact @adele_validity_mirrors_use. Qed.

Theorem C10_adele_gathering_accepts_without_swords :
  exists (v : validity) (s' : xst) (es : list ev),
          xview_validity Gathering x_p0 x_s0 = Some v /\
          v_valid v = false /\
          xreduce_spec Gathering XUse x_p0 0 x_s0 = Some (s', es) /\ rejected es = false.
Proof. exact @gathering_accepts_without_swords. Qed.

Theorem C10_adele_always_enabled_views :
  forall (p : xpar) (s : xst),
        xview_validity AlwaysEnabled p s = None /\
        xview_buff AlwaysEnabled p s = Some 1 /\
        xview_running AlwaysEnabled p s =
        Some {| r_time_left := xp_inf p; r_duration := xp_inf p; r_stack := None |}.
Proof. exact @always_enabled_views. Qed.

Theorem C10_adele_order_stack_nonneg :
  forall (p : xpar) (s : xst) (r : running),
        xview_running Order p s = Some r -> exists k : Z, r_stack r = Some k /\ 0 <= k.
Proof. exact @order_running_stack_nonneg. Qed.

Theorem C10_adele_cygnus_buff_capped :
  forall (p : xpar) (s : xst) (b : Z),
        xview_buff CygnusBlessing p s = Some b -> b <= xp_bmax p.
Proof. exact @cygnus_buff_capped. Qed.

Theorem C10_adele_nonvacuous :
  exists v : validity,
          xview_validity ProgrammedPeriodic x_p0 x_s0 = Some v /\ v_valid v = true.
Proof. exact @xvalid_state_exists. Qed.

Theorem C10_adele_nonvacuous_order :
  exists v : validity,
          xview_validity Order x_p0 (setgauge x_s0 100) = Some v /\ v_valid v = true.
Proof. exact @xvalid_order_state_exists. Qed.

Print Assumptions C10_adele_time_left_nonneg.
Print Assumptions C10_adele_valid_accepts.
Print Assumptions C10_adele_validity_mirrors_use.
Print Assumptions C10_adele_gathering_accepts_without_swords.
Print Assumptions C10_adele_always_enabled_views.
Print Assumptions C10_adele_order_stack_nonneg.
Print Assumptions C10_adele_cygnus_buff_capped.
Print Assumptions C10_adele_nonvacuous.
Print Assumptions C10_adele_nonvacuous_order.
