(* C03  Rolling back and continuing equals never having run the discarded part.  steps = any interleaving of exec(command) / rollback(index); surv = the surviving commands; sim = same logs, same current store (hence every view), same buffered events, so every further result agrees (C01_state_in_log).  chain_from H0 = each log's previous-hash is the hash of the log before it.  For every instantiation of the engine parameters.  Proofs: Model/Engine.v. *)
From V.Model Require Import Engine.

Theorem C03_rollback_fresh_engine :
  forall (St Ev Act Ck H T D Name : Type) (play : St -> Act -> St * list Ev) 
          (save : St -> Ck) (restore : Ck -> St),
        (forall s : St, restore (save s) = s) ->
        forall (clock : St -> T) (inspect : Name -> St -> D)
          (mk_act : Name -> meth -> option T -> Act) (star : Name) (ev_name : Ev -> Name)
          (ev_delay : Ev -> option T) (name_eqb : Name -> Name -> bool) 
          (tzero : T) (tpos tis0 : T -> bool) (H0 : H)
          (hashf : H -> cmd T Name -> list (T * Act * list Ev) -> H)
          (init : oplog Ev Act Ck H T D Name) (ss : list (stepk T Name))
          (e : eng St Ev Act Ck H T D Name),
        last_plog Ev Act Ck H T D Name (init :: nil) <> None ->
        steps St Ev Act Ck H T D Name play save restore clock inspect mk_act star ev_name ev_delay
          name_eqb tzero tpos tis0 H0 hashf (of_logs St Ev Act Ck H T D Name (init :: nil)) ss =
        Some e ->
        exists e' : eng St Ev Act Ck H T D Name,
          run St Ev Act Ck H T D Name play save restore clock inspect mk_act star ev_name ev_delay
            name_eqb tzero tpos tis0 H0 hashf (of_logs St Ev Act Ck H T D Name (init :: nil))
            (surv T Name nil ss) = Some e' /\
          logs St Ev Act Ck H T D Name e = logs St Ev Act Ck H T D Name e' /\
          sim St Ev Act Ck H T D Name restore e e'.
Proof. exact @C03_fresh. Qed.

Theorem C03_rollback_any_coherent_engine :
  forall (St Ev Act Ck H T D Name : Type) (play : St -> Act -> St * list Ev) 
          (save : St -> Ck) (restore : Ck -> St),
        (forall s : St, restore (save s) = s) ->
        forall (clock : St -> T) (inspect : Name -> St -> D)
          (mk_act : Name -> meth -> option T -> Act) (star : Name) (ev_name : Ev -> Name)
          (ev_delay : Ev -> option T) (name_eqb : Name -> Name -> bool) 
          (tzero : T) (tpos tis0 : T -> bool) (H0 : H)
          (hashf : H -> cmd T Name -> list (T * Act * list Ev) -> H) (ss : list (stepk T Name))
          (e0 : eng St Ev Act Ck H T D Name) (acc : list (cmd T Name))
          (e_acc e : eng St Ev Act Ck H T D Name),
        Coh St Ev Act Ck H T D Name restore e0 ->
        length (logs St Ev Act Ck H T D Name e0) = 1 ->
        run St Ev Act Ck H T D Name play save restore clock inspect mk_act star ev_name ev_delay
          name_eqb tzero tpos tis0 H0 hashf e0 acc = Some e_acc ->
        forall e_cur : eng St Ev Act Ck H T D Name,
        sim St Ev Act Ck H T D Name restore e_cur e_acc ->
        steps St Ev Act Ck H T D Name play save restore clock inspect mk_act star ev_name ev_delay
          name_eqb tzero tpos tis0 H0 hashf e_cur ss = Some e ->
        exists e' : eng St Ev Act Ck H T D Name,
          run St Ev Act Ck H T D Name play save restore clock inspect mk_act star ev_name ev_delay
            name_eqb tzero tpos tis0 H0 hashf e0 (surv T Name acc ss) = 
          Some e' /\ sim St Ev Act Ck H T D Name restore e e'.
Proof. exact @C03_rollback_eq. Qed.

Theorem C03_hash_chain :
  forall (St Ev Act Ck H T D Name : Type) (play : St -> Act -> St * list Ev) 
          (save : St -> Ck) (restore : Ck -> St) (clock : St -> T) (inspect : Name -> St -> D)
          (mk_act : Name -> meth -> option T -> Act) (star : Name) (ev_name : Ev -> Name)
          (ev_delay : Ev -> option T) (name_eqb : Name -> Name -> bool) 
          (tzero : T) (tpos tis0 : T -> bool) (H0 : H)
          (hashf : H -> cmd T Name -> list (T * Act * list Ev) -> H) (ss : list (stepk T Name))
          (e e' : eng St Ev Act Ck H T D Name),
        chain_from Ev Act Ck H T D Name hashf H0 (logs St Ev Act Ck H T D Name e) ->
        steps St Ev Act Ck H T D Name play save restore clock inspect mk_act star ev_name ev_delay
          name_eqb tzero tpos tis0 H0 hashf e ss = Some e' ->
        chain_from Ev Act Ck H T D Name hashf H0 (logs St Ev Act Ck H T D Name e').
Proof. exact @C03_chain. Qed.

Theorem C03_hash_is_a_function :
  forall (Ev Act Ck H T D Name : Type)
          (hashf : H -> cmd T Name -> list (T * Act * list Ev) -> H)
          (l l' : oplog Ev Act Ck H T D Name),
        lprev Ev Act Ck H T D Name l = lprev Ev Act Ck H T D Name l' ->
        lcmd Ev Act Ck H T D Name l = lcmd Ev Act Ck H T D Name l' ->
        List.map (strip Ev Act Ck T) (lplogs Ev Act Ck H T D Name l) =
        List.map (strip Ev Act Ck T) (lplogs Ev Act Ck H T D Name l') ->
        lhash Ev Act Ck H T D Name hashf l = lhash Ev Act Ck H T D Name hashf l'.
Proof. exact @C03_hash_fun. Qed.

Print Assumptions C03_rollback_fresh_engine.
Print Assumptions C03_rollback_any_coherent_engine.
Print Assumptions C03_hash_chain.
Print Assumptions C03_hash_is_a_function.
