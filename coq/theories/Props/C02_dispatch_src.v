(* C02 (and the dispatch layer of C05-C07, C10): TandemDispatcher.__call__, ContextDispatcher.__call__ and RouterDispatcher.__call__ as
   GENERATED from the source (tools/tr_dispatch.py -> gen/DispatchSrc.v) are the model's call_d branches and one unfolding of its router. *)
From Coq Require Import List Bool.
Import ListNotations.
From V Require Import Lib.PyDisp Model.Router Proofs.DispatchTie.
From G Require Import DispatchSrc.

Theorem C02_src_tandem_is_model_tandem :
  forall (Sig Act St Ev : Type) (sig_eqb : Sig -> Sig -> bool) (sig_of : Act -> Sig) (is_reject : Ev -> bool) (X : Type)
         (router : X -> Act -> St -> X * option (St * list Ev)) (b : disp Sig Act St Ev) (nx : list (disp Sig Act St Ev))
         (a : Act) (x : X) (st : St),
    src_tandem_call Sig Act St Ev is_reject X (fun d a' x' st' => call_d Sig Act St Ev sig_eqb sig_of is_reject X router d x' a' st') b nx a x st
    = call_d Sig Act St Ev sig_eqb sig_of is_reject X router (@Tandem Sig Act St Ev b nx) x a st.
Proof. exact @src_tandem_is_call_d. Qed.

Theorem C02_src_context_is_model_context :
  forall (Sig Act St Ev : Type) (sig_eqb : Sig -> Sig -> bool) (sig_of : Act -> Sig) (is_reject : Ev -> bool) (X : Type)
         (router : X -> Act -> St -> X * option (St * list Ev)) (w : Sig) (defined a : Act) (x : X) (st : St),
    src_context_call Sig Act St Ev sig_eqb sig_of X (fun a' x' st' => router x' a' st') w defined a x st
    = call_d Sig Act St Ev sig_eqb sig_of is_reject X router (@Ctx Sig Act St Ev w defined) x a st.
Proof. exact @src_context_is_call_d. Qed.

Theorem C02_src_router_is_model_router :
  forall (Sig Act St Ev : Type) (sig_eqb : Sig -> Sig -> bool) (sig_of : Act -> Sig) (is_reject : Ev -> bool)
         (n : nat) (ds : list (disp Sig Act St Ev)) (a : Act) (c : cache Sig) (st : St),
    dispatch_c Sig Act St Ev sig_eqb sig_of is_reject (S n) ds c a st
    = src_router_call Sig Act St Ev sig_eqb sig_of
        (fun d a' x st' => call_d Sig Act St Ev sig_eqb sig_of is_reject (cache Sig) (dispatch_c Sig Act St Ev sig_eqb sig_of is_reject n ds) d x a' st')
        ds a c st.
Proof. exact @src_router_is_dispatch_c. Qed.

Print Assumptions C02_src_tandem_is_model_tandem.
Print Assumptions C02_src_context_is_model_context.
Print Assumptions C02_src_router_is_model_router.
