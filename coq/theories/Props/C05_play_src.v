(* C05 for play() as GENERATED from simaple/simulate/base.py (tools/tr_play.py -> gen/PlaySrc.v). *)
From Coq Require Import List.
Import ListNotations.
From V Require Import Model.Play Proofs.PlayTie.
From G Require Import PlaySrc.

Theorem C05_src_play_is_model_play :
  forall (S Pay Name Meth Tag : Type) (router : action Pay Name Meth Tag -> S -> S * list (event Pay Name Meth Tag))
         (st : store S Pay Name Meth Tag) (a : action Pay Name Meth Tag),
    src_play S Pay Name Meth Tag router st a = play S Pay Name Meth Tag router st a.
Proof. exact @src_play_is_play. Qed.

Theorem C05_src_callbacks_are_model_callbacks :
  forall (Pay Name Meth Tag : Type) (e : event Pay Name Meth Tag),
    src_get_event_callbacks Pay Name Meth Tag e = callbacks Pay Name Meth Tag e.
Proof. exact @src_callbacks_is_callbacks. Qed.

Theorem C05_src_relay_exactly_once :
  forall (S Pay Name Meth Tag : Type) (router : action Pay Name Meth Tag -> S -> S * list (event Pay Name Meth Tag))
         (st : store S Pay Name Meth Tag) (a1 a2 : action Pay Name Meth Tag),
    let '(st1, E1, _) := src_play S Pay Name Meth Tag router st a1 in
    let '(_, _, tr2) := src_play S Pay Name Meth Tag router st1 a2 in
    tr2 = rev (map (emitted Pay Name Meth Tag) E1) ++ [a2] ++ map (done Pay Name Meth Tag) E1.
Proof. exact @src_relay_exactly_once. Qed.

Theorem C05_src_never_replayed :
  forall (S Pay Name Meth Tag : Type) (router : action Pay Name Meth Tag -> S -> S * list (event Pay Name Meth Tag))
         (st : store S Pay Name Meth Tag) (a1 a2 : action Pay Name Meth Tag),
    let '(st1, _, _) := src_play S Pay Name Meth Tag router st a1 in
    let '(st2, E2, _) := src_play S Pay Name Meth Tag router st1 a2 in
    cbs S Pay Name Meth Tag st2 = map (callbacks Pay Name Meth Tag) E2.
Proof. exact @src_never_replayed. Qed.

Print Assumptions C05_src_play_is_model_play.
Print Assumptions C05_src_callbacks_are_model_callbacks.
Print Assumptions C05_src_relay_exactly_once.
Print Assumptions C05_src_never_replayed.
