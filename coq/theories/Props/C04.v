(* C04  Incremental re-run (with hint) returns exactly what a full run returns.  run_hint = api/base.py run_plan_with_hint for equal metadata (longest common prefix against previous commands and previous history, step back to a log carrying checkpoints, reload, execute the rest, re-extract); extract = response extraction keeping every 10th checkpoint.  For every instantiation of the engine parameters, every previous plan and every new plan.  Proofs: Model/Engine.v. *)
From V.Model Require Import Engine.

Theorem C04_hint_eq_full_run :
  forall (St Ev Act Ck H T D Name : Type) (play : St -> Act -> St * list Ev) 
          (save : St -> Ck) (restore : Ck -> St),
        (forall s : St, restore (save s) = s) ->
        forall (clock : St -> T) (inspect : Name -> St -> D)
          (mk_act : Name -> meth -> option T -> Act) (star : Name) (ev_name : Ev -> Name)
          (ev_delay : Ev -> option T) (name_eqb : Name -> Name -> bool) 
          (tzero : T) (tpos tis0 : T -> bool) (H0 : H)
          (hashf : H -> cmd T Name -> list (T * Act * list Ev) -> H) (V : Type) 
          (view : St -> V) (dummy : Ck) (cmd_eqb : cmd T Name -> cmd T Name -> bool),
        (forall a b : cmd T Name, cmd_eqb a b = true <-> a = b) ->
        forall (resp0 : resp Ev Act Ck H T D Name V) (init : oplog Ev Act Ck H T D Name)
          (pcs cs : list (cmd T Name)) (ep ef : eng St Ev Act Ck H T D Name),
        lplogs Ev Act Ck H T D Name init <> nil ->
        run St Ev Act Ck H T D Name play save restore clock inspect mk_act star ev_name ev_delay
          name_eqb tzero tpos tis0 H0 hashf (of_logs St Ev Act Ck H T D Name (init :: nil)) pcs =
        Some ep ->
        run St Ev Act Ck H T D Name play save restore clock inspect mk_act star ev_name ev_delay
          name_eqb tzero tpos tis0 H0 hashf (of_logs St Ev Act Ck H T D Name (init :: nil)) cs =
        Some ef ->
        run_hint St Ev Act Ck H T D Name play save restore clock inspect mk_act star ev_name
          ev_delay name_eqb tzero tpos tis0 H0 hashf V view dummy cmd_eqb resp0 pcs
          (extract St Ev Act Ck H T D Name restore hashf V view ep 0) cs =
        Some (extract St Ev Act Ck H T D Name restore hashf V view ef 0).
Proof. exact @C04_fresh. Qed.

Theorem C04_hint_chain :
  forall (St Ev Act Ck H T D Name : Type) (play : St -> Act -> St * list Ev) 
          (save : St -> Ck) (restore : Ck -> St),
        (forall s : St, restore (save s) = s) ->
        forall (clock : St -> T) (inspect : Name -> St -> D)
          (mk_act : Name -> meth -> option T -> Act) (star : Name) (ev_name : Ev -> Name)
          (ev_delay : Ev -> option T) (name_eqb : Name -> Name -> bool) 
          (tzero : T) (tpos tis0 : T -> bool) (H0 : H)
          (hashf : H -> cmd T Name -> list (T * Act * list Ev) -> H) (V : Type) 
          (view : St -> V) (dummy : Ck) (cmd_eqb : cmd T Name -> cmd T Name -> bool),
        (forall a b : cmd T Name, cmd_eqb a b = true <-> a = b) ->
        forall (resp0 : resp Ev Act Ck H T D Name V) (init : oplog Ev Act Ck H T D Name)
          (pcs0 pcs cs : list (cmd T Name)) (ep0 ep ef : eng St Ev Act Ck H T D Name),
        lplogs Ev Act Ck H T D Name init <> nil ->
        run St Ev Act Ck H T D Name play save restore clock inspect mk_act star ev_name ev_delay
          name_eqb tzero tpos tis0 H0 hashf (of_logs St Ev Act Ck H T D Name (init :: nil)) pcs0 =
        Some ep0 ->
        run St Ev Act Ck H T D Name play save restore clock inspect mk_act star ev_name ev_delay
          name_eqb tzero tpos tis0 H0 hashf (of_logs St Ev Act Ck H T D Name (init :: nil)) pcs =
        Some ep ->
        run St Ev Act Ck H T D Name play save restore clock inspect mk_act star ev_name ev_delay
          name_eqb tzero tpos tis0 H0 hashf (of_logs St Ev Act Ck H T D Name (init :: nil)) cs =
        Some ef ->
        match
          run_hint St Ev Act Ck H T D Name play save restore clock inspect mk_act star ev_name
            ev_delay name_eqb tzero tpos tis0 H0 hashf V view dummy cmd_eqb resp0 pcs0
            (extract St Ev Act Ck H T D Name restore hashf V view ep0 0) pcs
        with
        | Some h1 =>
            run_hint St Ev Act Ck H T D Name play save restore clock inspect mk_act star ev_name
              ev_delay name_eqb tzero tpos tis0 H0 hashf V view dummy cmd_eqb resp0 pcs h1 cs =
            Some (extract St Ev Act Ck H T D Name restore hashf V view ef 0)
        | None => False
        end.
Proof. exact @C04_chain. Qed.

Theorem C04_hint_any_coherent_engine :
  forall (St Ev Act Ck H T D Name : Type) (play : St -> Act -> St * list Ev) 
          (save : St -> Ck) (restore : Ck -> St),
        (forall s : St, restore (save s) = s) ->
        forall (clock : St -> T) (inspect : Name -> St -> D)
          (mk_act : Name -> meth -> option T -> Act) (star : Name) (ev_name : Ev -> Name)
          (ev_delay : Ev -> option T) (name_eqb : Name -> Name -> bool) 
          (tzero : T) (tpos tis0 : T -> bool) (H0 : H)
          (hashf : H -> cmd T Name -> list (T * Act * list Ev) -> H) (V : Type) 
          (view : St -> V) (dummy : Ck) (cmd_eqb : cmd T Name -> cmd T Name -> bool),
        (forall a b : cmd T Name, cmd_eqb a b = true <-> a = b) ->
        forall (resp0 : resp Ev Act Ck H T D Name V) (e0 : eng St Ev Act Ck H T D Name)
          (pcs cs : list (cmd T Name)) (ep ef : eng St Ev Act Ck H T D Name),
        Coh St Ev Act Ck H T D Name restore e0 ->
        length (logs St Ev Act Ck H T D Name e0) = 1 ->
        (forall l : oplog Ev Act Ck H T D Name,
         logs St Ev Act Ck H T D Name e0 = (l :: nil)%list -> lplogs Ev Act Ck H T D Name l <> nil) ->
        run St Ev Act Ck H T D Name play save restore clock inspect mk_act star ev_name ev_delay
          name_eqb tzero tpos tis0 H0 hashf e0 pcs = Some ep ->
        run St Ev Act Ck H T D Name play save restore clock inspect mk_act star ev_name ev_delay
          name_eqb tzero tpos tis0 H0 hashf e0 cs = Some ef ->
        run_hint St Ev Act Ck H T D Name play save restore clock inspect mk_act star ev_name
          ev_delay name_eqb tzero tpos tis0 H0 hashf V view dummy cmd_eqb resp0 pcs
          (extract St Ev Act Ck H T D Name restore hashf V view ep 0) cs =
        Some (extract St Ev Act Ck H T D Name restore hashf V view ef 0).
Proof. exact @C04_hint_eq. Qed.

Print Assumptions C04_hint_eq_full_run.
Print Assumptions C04_hint_chain.
Print Assumptions C04_hint_any_coherent_engine.
