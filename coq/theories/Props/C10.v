(* C10  Status views never fail and never advertise a skill that would be rejected.  Model: Model/Comp.v; views are total functions of the state by construction (Python exceptions are outside the model and are monitored on the implementation).  C10_time_left_nonneg: validity never reports a negative remaining time.  C10_valid_accepts: for every modelled class except the key-down one, whenever validity reports the skill usable, use returns no rejection.  Key-down skills: C10_keydown_valid_accepts under the invariant 'a running key-down implies a cooldown at least as long' (kd_inv), C10_keydown_invariant: kd_inv is preserved by use/elapse/stop whenever the applied cooldown is at least the maximum key-down time; C10_keydown_refuted: without that parameter condition the statement is false (a cooldown-free key-down skill is advertised while running and then rejected) - recorded as a known finding for the shipped skill that has such parameters.  C10_stack_hidden_when_off: the running view reports stack 0 when the buff is off. *)
From Coq Require Import ZArith List Bool. From V.Model Require Import Comp. From V.Proofs Require Import CompReject CompViews.

Theorem C10_time_left_nonneg :
  forall (c : comp) (p : par) (s : ust), 0 <= v_time_left (view_validity c p s).
Proof. exact @validity_time_left_nonneg. Qed.

Theorem C10_valid_accepts :
  forall (c : comp) (p : par) (t : Z) (s s' : ust) (es : list ev),
        c <> KeydownSkill ->
        v_valid (view_validity c p s) = true ->
        reduce_spec c MUse p t s = Some (s', es) -> rejected es = false.
Proof. exact @valid_accepts. Qed.

Theorem C10_keydown_valid_accepts :
  forall (p : par) (t : Z) (s s' : ust) (es : list ev),
        kd_inv s ->
        v_valid (view_validity KeydownSkill p s) = true ->
        reduce_spec KeydownSkill MUse p t s = Some (s', es) -> rejected es = false.
Proof. exact @keydown_valid_accepts. Qed.

Theorem C10_keydown_invariant :
  forall (m : meth) (p : par) (t : Z) (s s' : ust) (es : list ev),
        p_maxkd p <= p_cdA p ->
        0 <= t -> kd_inv s -> reduce_spec KeydownSkill m p t s = Some (s', es) -> kd_inv s'.
Proof. exact @kd_inv_preserved. Qed.

Theorem C10_keydown_refuted :
  exists (p : par) (s s1 : ust) (e1 : list ev) (s2 : ust) (e2 : list ev),
          reduce_spec KeydownSkill MUse p 0 s = Some (s1, e1) /\
          rejected e1 = false /\
          v_valid (view_validity KeydownSkill p s1) = true /\
          reduce_spec KeydownSkill MUse p 0 s1 = Some (s2, e2) /\ rejected e2 = true.
Proof. exact @keydown_valid_accepts_refuted. Qed.

Theorem C10_stack_hidden_when_off :
  forall (c : comp) (p : par) (s : ust) (r : running),
        view_running c p s = Some r -> u_ltl s <= 0 -> r_stack r = None \/ r_stack r = Some 0.
Proof. exact @running_stack_nonneg_when_off. Qed.

Theorem C10_nonvacuous :
  v_valid (view_validity AttackSkill kd0_par kd0_state) = true /\ kd_inv kd0_state.
Proof. exact @valid_state_exists. Qed.

Print Assumptions C10_time_left_nonneg.
Print Assumptions C10_valid_accepts.
Print Assumptions C10_keydown_valid_accepts.
Print Assumptions C10_keydown_invariant.
Print Assumptions C10_keydown_refuted.
Print Assumptions C10_stack_hidden_when_off.
Print Assumptions C10_nonvacuous.
