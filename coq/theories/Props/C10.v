(* C10  Status views never fail and never advertise a skill that would be rejected.  Model: Model/Comp.v; views are total functions of the state by construction (Python exceptions are outside the model and are monitored on the implementation).  C10_time_left_nonneg: validity never reports a negative remaining time.  C10_valid_accepts: for EVERY modelled class (including key-down skills, whose validity since the repair de960db also tests that the key-down is not running), all parameters and all states: whenever validity reports the skill usable, use returns no rejection.  C10_keydown_validity_mirrors_use: for key-down skills validity is exactly 'use would not be rejected'.  C10_keydown_running_not_advertised: the former finding's witness (a cooldown-free key-down skill) is not advertised while running.  C10_stack_hidden_when_off: the running view reports stack 0 when the buff is off. *)
From Coq Require Import ZArith List Bool. From V.Model Require Import Comp. From V.Proofs Require Import CompReject CompViews.

Theorem C10_time_left_nonneg :
  forall (c : comp) (p : par) (s : ust), 0 <= v_time_left (view_validity c p s).
Proof. exact @validity_time_left_nonneg. Qed.

Theorem C10_valid_accepts :
  forall (c : comp) (p : par) (t : Z) (s s' : ust) (es : list ev),
        v_valid (view_validity c p s) = true ->
        reduce_spec c MUse p t s = Some (s', es) -> rejected es = false.
Proof. exact @valid_accepts. Qed.

Theorem C10_keydown_validity_mirrors_use :
  forall (p : par) (s : ust),
        v_valid (view_validity KeydownSkill p s) = negb (rejected (snd (use_keydown_trait p s))).
Proof. exact @keydown_validity_mirrors_use. Qed.

Theorem C10_keydown_running_not_advertised :
  exists (s1 : ust) (e1 : list ev),
          reduce_spec KeydownSkill MUse kd0_par 0 kd0_state = Some (s1, e1) /\
          rejected e1 = false /\ v_valid (view_validity KeydownSkill kd0_par s1) = false.
Proof. exact @keydown_running_not_advertised. Qed.

Theorem C10_stack_hidden_when_off :
  forall (c : comp) (p : par) (s : ust) (r : running),
        view_running c p s = Some r -> u_ltl s <= 0 -> r_stack r = None \/ r_stack r = Some 0.
Proof. exact @running_stack_nonneg_when_off. Qed.

Theorem C10_nonvacuous :
  v_valid (view_validity AttackSkill kd0_par kd0_state) = true /\
        v_valid (view_validity KeydownSkill kd0_par kd0_state) = true.
Proof. exact @valid_state_exists. Qed.

Print Assumptions C10_time_left_nonneg.
Print Assumptions C10_valid_accepts.
Print Assumptions C10_keydown_validity_mirrors_use.
Print Assumptions C10_keydown_running_not_advertised.
Print Assumptions C10_stack_hidden_when_off.
Print Assumptions C10_nonvacuous.
