(* C08  State-transition functions are pure: no input mutation, same in same out.

   What is proved.  Model/Effects.v defines a small imperative language over object references
   ("effect skeletons"), a heap semantics in which every object that existed before the call
   -- the `state` and `payload` arguments, the component `self`, globals, and everything
   reachable from them -- is PROTECTED, and in which modifying a protected object (Mut / Store),
   assigning to an attribute of the component (WriteSelf) or an impure step (Impure: random,
   clock, IO, unknown function) is the observable outcome [Violation].  [safe] is a static
   ownership checker (deep-fresh / shallow-fresh / isolated variables, loop invariants by
   shrinking).
   - C08_effects_sound: a skeleton accepted by [safe] never reaches Violation -- for ALL
     heaps, all branch outcomes, all loop iteration counts, all allocation choices.
   - C08_all_reducers_safe / C08_all_views_safe: every one of the reducer and view skeletons
     that tools/tr_effects.py extracts from the CURRENT source of simaple/simulate/component
     (common, specific, skill.py; traits, entities and helpers as callees) is accepted.  These are
     re-generated and re-evaluated on every run: a reducer that mutates its input before copying,
     stores a borrowed entity into the returned state and mutates it, caches on self, or uses
     random/time makes the evaluation fail.
   - C08_reducers_never_violate / C08_views_never_violate: the two combined.
   - C08_summaries_justified, C08_summary_sound, C08_callees_conform: calls are desugared with the
     callee's summary (mutates parameter i deeply / only at top level, may store parameter j,
     returned leaf k is fresh or may be a part of parameters ps); each summary is an obligation on
     the callee's own skeleton, and a justified summary holds of every execution of the callee.
   - C08_prerepair_rejected, C08_bad_examples_rejected, C08_good_examples_accepted: the body
     FullMetalBarrageComponent.elapse had before /repo commit 5af86b7 and the other hand-written
     impure bodies of tools/tr_effects.py EXAMPLES are rejected, the unusual-but-pure ones are
     accepted (self-tests of translator + checker).
   "Same in, same out" is a corollary, not a separate theorem: a function that performs no Impure
   step, writes neither self nor any pre-existing object, has no source of nondeterminism left --
   its result is a function of the values of its arguments.  The harness additionally calls every
   reducer twice on equal arguments and compares.

   Trusted (stated in the evidence, validated on every run by the runtime monitor): the
   classification of Python statements into effects by tools/tr_effects.py, i.e. that each
   skeleton over-approximates the heap effects of the Python function it was extracted from
   (name-and-arity call resolution, annotations are truthful, immutable values behave like fresh
   copies, a call behaves as its justified summary says, `is_rejected(events)` holds of the events
   of a rejecting return). *)
From Coq Require Import List Bool.
From V.Model Require Import Effects.
From V.Proofs Require Import EffectsSound EffectsC08.
From G Require Import Effects_skeletons.
Import ListNotations.

Theorem C08_effects_sound : forall p : list stmt, safe p = true ->
  forall (base : nat) (d : dstate) (r : outcome), wfd base d -> steps base d p r -> r <> Violation.
Proof. exact safe_sound. Qed.

Theorem C08_all_reducers_safe : forallb safe all_reducers = true.
Proof. exact all_reducers_safe. Qed.

Theorem C08_all_views_safe : forallb safe all_views = true.
Proof. exact all_views_safe. Qed.

Theorem C08_reducers_never_violate : forall p, In p all_reducers ->
  forall base d r, wfd base d -> steps base d p r -> r <> Violation.
Proof. exact reducers_never_violate. Qed.

Theorem C08_views_never_violate : forall p, In p all_views ->
  forall base d r, wfd base d -> steps base d p r -> r <> Violation.
Proof. exact views_never_violate. Qed.

Theorem C08_summaries_justified : forallb (fun ps => justified (fst ps) (snd ps)) all_summaries = true.
Proof. exact summaries_justified. Qed.

Theorem C08_summary_sound : forall p sm, justified p sm = true ->
  forall base d r, wfd base d ->
    (forall x, In x (s_mut sm) -> dfresh base d x) -> (forall x, In x (s_top sm) -> sfresh base d x) ->
    steps base d p r ->
    r <> Violation /\
    (forall d' rs, r = Ret d' rs -> forall x, In x (s_mut sm) -> dfresh base d' x) /\
    ((forall x, In x (s_top sm ++ s_src sm) -> dfresh base d x) ->
       forall d' rs, r = Ret d' rs -> forall x, In x (s_mut sm ++ s_top sm) -> dfresh base d' x) /\
    (forall k S, nth_error (s_rets sm) k = Some (Some S) -> (forall x, In x S -> dfresh base d x) ->
       forall d' rs, r = Ret d' rs -> rs = [] \/ exists v, nth_error rs k = Some v /\ dfresh base d' v).
Proof. exact justified_sound. Qed.

Theorem C08_callees_conform : forall p sm, In (p, sm) all_summaries ->
  forall base d r, wfd base d ->
    (forall x, In x (s_mut sm) -> dfresh base d x) -> (forall x, In x (s_top sm) -> sfresh base d x) ->
    steps base d p r ->
    r <> Violation /\
    (forall d' rs, r = Ret d' rs -> forall x, In x (s_mut sm) -> dfresh base d' x) /\
    ((forall x, In x (s_top sm ++ s_src sm) -> dfresh base d x) ->
       forall d' rs, r = Ret d' rs -> forall x, In x (s_mut sm ++ s_top sm) -> dfresh base d' x) /\
    (forall k S, nth_error (s_rets sm) k = Some (Some S) -> (forall x, In x S -> dfresh base d x) ->
       forall d' rs, r = Ret d' rs -> rs = [] \/ exists v, nth_error rs k = Some v /\ dfresh base d' v).
Proof. exact callees_conform. Qed.

Theorem C08_extracted_counts :
  length all_reducers = n_reducers /\ length all_views = n_views /\ length all_summaries = n_summaries.
Proof. exact counts. Qed.

Theorem C08_prerepair_rejected : safe ex_fullmetalbarrage_elapse_prerepair = false.
Proof. exact prerepair_rejected. Qed.

Theorem C08_bad_examples_rejected : forallb (fun p => negb (safe p)) bad_examples = true.
Proof. exact bad_examples_rejected. Qed.

Theorem C08_good_examples_accepted : forallb safe good_examples = true.
Proof. exact good_examples_accepted. Qed.

(* the semantics is not vacuous: the pre-repair shape CAN go wrong, the repaired shape runs *)
Theorem C08_semantics_can_go_wrong : steps 2 d0 prog_bad Violation /\ safe prog_bad = false.
Proof. exact (conj bad_can_go_wrong bad_rejected). Qed.

Theorem C08_semantics_good_runs : safe prog_good = true /\ exists d' rs, steps 2 d0 prog_good (Ret d' rs).
Proof. exact (conj good_accepted good_runs). Qed.

Print Assumptions C08_effects_sound.
Print Assumptions C08_all_reducers_safe.
Print Assumptions C08_all_views_safe.
Print Assumptions C08_reducers_never_violate.
Print Assumptions C08_views_never_violate.
Print Assumptions C08_summaries_justified.
Print Assumptions C08_summary_sound.
Print Assumptions C08_callees_conform.
Print Assumptions C08_extracted_counts.
Print Assumptions C08_prerepair_rejected.
Print Assumptions C08_bad_examples_rejected.
Print Assumptions C08_good_examples_accepted.
Print Assumptions C08_semantics_can_go_wrong.
Print Assumptions C08_semantics_good_runs.
