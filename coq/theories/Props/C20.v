(* C20  Memoized environments equal freshly computed ones.

   Model (Model/Memo.v): a provider is a tagged finite map field -> value; key p = h (class name, proj K p),
   memo_part p = G (proj R p), indep_part p = H (proj I p), direct p = combine (indep_part p) (memo_part p);
   the memoizer is an association list key -> serialised (memo part, independent part); `memoize` /
   `memoize_file` are InMemoryMemoizer.memoize / PersistentStorageMemoizer.memoize (hit: stored memoizable part +
   independent part of the CURRENT request; miss: both computed, stored); a history `ops` is any list of requests
   interleaved with `Reopen` (in memory: export + import into a new memoizer; file: a new memoizer object, e.g.
   after a process restart, on the same path).

   Proved for EVERY history (induction over the list; invariant Inv: every stored entry is the serialised direct
   computation of a provider with that key):
     C20_memo_coherent, _from_consistent_store, _file, _existing_file : every environment returned through a
        memoizer equals the one the provider computes directly (hit or miss, in memory or file-backed, before or
        after export/import);
     C20_export_import_transparent, C20_file_refines_memory : re-imports change neither answers nor hits; the
        file-backed memoizer answers exactly like the in-memory one;
     C20_independent_from_current_request(_file) : the independent part of every answer is the one of the current
        request -- for ANY store content, no hypothesis at all;
     C20_kinds_never_share, C20_kinds_differ_keys_differ : a hit is always served by the entry of an earlier
        request of the same kind with the same key fields and the same memoizable part; different kinds never
        have equal keys.
   Hypotheses (record `hyps`, Model/Memo.v):
     R_sub_K, named_true  -- NOT assumed for simaple: C20_simaple_hypotheses derives them from gen/MemoFields.v,
        which tools/tr_memo.py regenerates from environment_provider.py / memoizer.py on every run
        (C20_memo_reads_are_key_fields, C20_key_fields_are_all_minus_excluded, C20_excluded_fields_not_read,
        C20_generated_obligations are those facts on the generated lists, by vm_compute);
     h_inj (sha256 of the canonical JSON is injective on (class name, key fields)), heqb_spec (string equality),
     de_ser / xde_xser / fde_fser (pydantic / json serialisation round-trips) -- trusted, tested by the harness;
     C20_hypotheses_satisfiable : a concrete signature on the generated field lists satisfies all of them
        (examples with hits and misses: the Examples of Proofs/MemoInst.v).
   PARTIAL: the file is a single value read and written atomically by one memoizer at a time: concurrent writers,
   partial writes and file-system errors are outside the model.  Exceptions raised by a provider are not modelled
   (the harness checks error parity). *)
From Coq Require Import List String NArith.
From V.Model Require Import Memo MemoExec.
From V.Proofs Require Import MemoCoherent MemoInst.
From G Require Import MemoFields.

Theorem C20_memo_coherent :
  forall M : sig,
        hyps M ->
        forall ops : list (op M),
        map (fun r : MemoEnv M * IndepEnv M * option nat => environment M (fst r)) (run_mem M nil ops) =
        map (direct M) (requests M ops).
Proof. exact @memo_coherent. Qed.

Theorem C20_memo_coherent_from_consistent_store :
  forall M : sig,
        hyps M ->
        forall (ops : list (op M)) (s : store M),
        Inv M s ->
        map (fun r : MemoEnv M * IndepEnv M * option nat => environment M (fst r)) (run_mem M s ops) =
        map (direct M) (requests M ops).
Proof. exact @memo_coherent_from. Qed.

Theorem C20_memo_coherent_file :
  forall M : sig,
        hyps M ->
        forall ops : list (op M),
        map (fun r : MemoEnv M * IndepEnv M * option nat => environment M (fst r))
          (run_file M (new_file M) ops) = map (direct M) (requests M ops).
Proof. exact @memo_coherent_new_file. Qed.

Theorem C20_memo_coherent_existing_file :
  forall M : sig,
        hyps M ->
        forall (ops : list (op M)) (s : store M),
        Inv M s ->
        map (fun r : MemoEnv M * IndepEnv M * option nat => environment M (fst r)) (run_file M (fser M s) ops) =
        map (direct M) (requests M ops).
Proof. exact @memo_coherent_file. Qed.

Theorem C20_file_refines_memory :
  forall M : sig,
        hyps M ->
        forall (ops : list (op M)) (s : list (Hash M * Ser M)), run_file M (fser M s) ops = run_mem M s ops.
Proof. exact @file_refines_memory. Qed.

Theorem C20_export_import_transparent :
  forall M : sig,
        hyps M ->
        forall (ops : list (op M)) (s : store M), run_mem M s ops = run_mem M s (map (Req M) (requests M ops)).
Proof. exact @export_import_transparent. Qed.

Theorem C20_independent_from_current_request :
  forall (M : sig) (ops : list (op M)) (s : store M),
        map (fun r : MemoEnv M * IndepEnv M * option nat => snd (fst r)) (run_mem M s ops) =
        map (indep_part M) (requests M ops).
Proof. exact @independent_from_current_request. Qed.

Theorem C20_independent_from_current_request_file :
  forall (M : sig) (ops : list (op M)) (f : FileC M),
        map (fun r : MemoEnv M * IndepEnv M * option nat => snd (fst r)) (run_file M f ops) =
        map (indep_part M) (requests M ops).
Proof. exact @independent_from_current_request_file. Qed.

Theorem C20_kinds_never_share :
  forall M : sig, hyps M -> forall ps : list (prov M), Forall (served_ok M ps) (run_owned M nil nil ps).
Proof. exact @kinds_never_share. Qed.

Theorem C20_kinds_differ_keys_differ :
  forall M : sig, hyps M -> forall p q : prov M, kind M p <> kind M q -> key M p <> key M q.
Proof. exact @kinds_differ_keys_differ. Qed.

Theorem C20_memo_reads_are_key_fields :
  forall (k : pkind) (f : string), In f (R_of k) -> In f (K_of k).
Proof. exact @memo_reads_are_key_fields. Qed.

Theorem C20_key_fields_are_all_minus_excluded :
  forall (k : pkind) (f : string), In f (K_of k) <-> In f (all_of k) /\ ~ In f (excluded_of k).
Proof. exact @key_fields_are_all_minus_excluded. Qed.

Theorem C20_excluded_fields_not_read :
  forall (k : pkind) (f : string), In f (excluded_of k) -> ~ In f (R_of k).
Proof. exact @excluded_fields_not_read. Qed.

Theorem C20_generated_obligations :
  fields_ok = true.
Proof. exact @fields_ok_true. Qed.

Theorem C20_simaple_hypotheses :
  forall (Val Hash MemoEnv IndepEnv Env Ser Exported FileC : Type) (heqb : Hash -> Hash -> bool)
         (h : option pkind * list (string * option Val) -> Hash)
         (G : pkind -> list (string * option Val) -> MemoEnv)
         (H : pkind -> list (string * option Val) -> IndepEnv) (combine : IndepEnv -> MemoEnv -> Env)
         (ser : MemoEnv * IndepEnv -> Ser) (de : Ser -> MemoEnv * IndepEnv)
         (xser : list (Hash * Ser) -> Exported) (xde : Exported -> list (Hash * Ser))
         (fser : list (Hash * Ser) -> FileC) (fde : FileC -> list (Hash * Ser)),
    let M := simaple_sig Val Hash MemoEnv IndepEnv Env Ser Exported FileC heqb h G H combine ser de xser xde fser fde in
    (forall a b : Hash, heqb a b = true <-> a = b) ->
    (forall a b : option pkind * list (string * option Val), h a = h b -> a = b) ->
    (forall c : MemoEnv * IndepEnv, de (ser c) = c) ->
    (forall s : list (Hash * Ser), xde (xser s) = s) ->
    (forall s : list (Hash * Ser), fde (fser s) = s) ->
    hyps M.
Proof. exact @simaple_hyps. Qed.

Theorem C20_simaple_memo_coherent :
  forall (Val Hash MemoEnv IndepEnv Env Ser Exported FileC : Type) (heqb : Hash -> Hash -> bool)
         (h : option pkind * list (string * option Val) -> Hash)
         (G : pkind -> list (string * option Val) -> MemoEnv)
         (H : pkind -> list (string * option Val) -> IndepEnv) (combine : IndepEnv -> MemoEnv -> Env)
         (ser : MemoEnv * IndepEnv -> Ser) (de : Ser -> MemoEnv * IndepEnv)
         (xser : list (Hash * Ser) -> Exported) (xde : Exported -> list (Hash * Ser))
         (fser : list (Hash * Ser) -> FileC) (fde : FileC -> list (Hash * Ser)),
    let M := simaple_sig Val Hash MemoEnv IndepEnv Env Ser Exported FileC heqb h G H combine ser de xser xde fser fde in
    (forall a b : Hash, heqb a b = true <-> a = b) ->
    (forall a b : option pkind * list (string * option Val), h a = h b -> a = b) ->
    (forall c : MemoEnv * IndepEnv, de (ser c) = c) ->
    (forall s : list (Hash * Ser), xde (xser s) = s) ->
    (forall s : list (Hash * Ser), fde (fser s) = s) ->
    forall ops : list (op M),
      map (fun r => environment M (fst r)) (run_mem M nil ops) = map (direct M) (requests M ops) /\
      map (fun r => environment M (fst r)) (run_file M (new_file M) ops) = map (direct M) (requests M ops) /\
      run_mem M nil ops = run_mem M nil (map (Req M) (requests M ops)) /\
      Forall (served_ok M (requests M ops)) (run_owned M nil nil (requests M ops)).
Proof. exact @simaple_all. Qed.

Theorem C20_hypotheses_satisfiable :
  forall gt ht : table, hyps (exec_sig gt ht).
Proof. exact @exec_hyps. Qed.

Print Assumptions C20_memo_coherent.
Print Assumptions C20_memo_coherent_from_consistent_store.
Print Assumptions C20_memo_coherent_file.
Print Assumptions C20_memo_coherent_existing_file.
Print Assumptions C20_file_refines_memory.
Print Assumptions C20_export_import_transparent.
Print Assumptions C20_independent_from_current_request.
Print Assumptions C20_independent_from_current_request_file.
Print Assumptions C20_kinds_never_share.
Print Assumptions C20_kinds_differ_keys_differ.
Print Assumptions C20_memo_reads_are_key_fields.
Print Assumptions C20_key_fields_are_all_minus_excluded.
Print Assumptions C20_excluded_fields_not_read.
Print Assumptions C20_generated_obligations.
Print Assumptions C20_simaple_hypotheses.
Print Assumptions C20_simaple_memo_coherent.
Print Assumptions C20_hypotheses_satisfiable.
