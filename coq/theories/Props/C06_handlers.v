(* C06 (and the engine model of C01, C03, C04): the operation handlers as GENERATED from simaple/simulate/policy/handlers.py
   (tools/tr_handlers.py -> gen/HandlersSrc.v), driven by the engine's loop, are the exec_op the engine theorems are about. *)
From Coq Require Import List.
Import ListNotations.
From V Require Import Lib.PyGen Model.Engine Proofs.HandlersTie.
From G Require Import HandlersSrc.

Theorem C06_src_next_elapse_time :
  forall (Ev T : Type) (ev_delay : Ev -> option T) (tzero : T) (tpos : T -> bool) (evs : list Ev),
    src_get_next_elapse_time Ev T ev_delay tzero tpos evs = next_elapse Ev T ev_delay tzero tpos evs.
Proof. exact @src_next_elapse_is_next_elapse. Qed.

Theorem C06_src_handlers_are_exec_op :
  forall (St Ev Act Ck T Name : Type) (play : St -> Act -> St * list Ev) (save : St -> Ck) (clock : St -> T)
         (mk_act : Name -> meth -> option T -> Act) (star : Name) (ev_name : Ev -> Name) (ev_delay : Ev -> option T)
         (name_eqb : Name -> Name -> bool) (tzero : T) (tpos tis0 : T -> bool) (o : op T Name) (st : St) (b : list Ev),
    exec_gen Ev Act St (playlog Ev Act Ck T) play (mkpl St Ev Act Ck T save clock)
      (src_handler Ev Act T Name mk_act star ev_name ev_delay name_eqb tzero tpos tis0 o b) st b
    = exec_op St Ev Act Ck T Name play save clock mk_act star ev_name ev_delay name_eqb tzero tpos tis0 o st b.
Proof. exact @handlers_drive_exec_op. Qed.

(* what RESOLVE and CAST elapse: the delay of the first event carrying a positive delay, zero exactly when there is none *)
Theorem C06_src_next_elapse_time_is_the_first_positive_delay :
  forall (Ev T : Type) (ev_delay : Ev -> option T) (tzero : T) (tpos : T -> bool) (evs : list Ev),
    (no_positive_delay Ev T ev_delay tpos evs /\ src_get_next_elapse_time Ev T ev_delay tzero tpos evs = tzero) \/
    (exists pre e post t, evs = pre ++ e :: post /\ no_positive_delay Ev T ev_delay tpos pre /\ ev_delay e = Some t /\ tpos t = true /\
                          src_get_next_elapse_time Ev T ev_delay tzero tpos evs = t).
Proof. exact @src_next_elapse_spec. Qed.

Print Assumptions C06_src_next_elapse_time.
Print Assumptions C06_src_handlers_are_exec_op.
Print Assumptions C06_src_next_elapse_time_is_the_first_positive_delay.
