(* C06 at the dispatch / store level (Model/Dispatch.v).  C06_frame_from_binds: the hypothesis Hframe of Props/C06.v FOLLOWS from the binds: for every list of components none of whose resolved bound addresses is the clock address global.time (a boolean test, discharged by vm_compute for the components of the tree under test in gen/DispatchData.v on every run), the router built from them (Tandem / Context addons, route cache, any nesting depth) leaves the clock unchanged for ANY action and ANY state -- exactly the form  forall a s, clock (fst (comp a s)) = clock s.  C06_play_dispatch, C06_command_dispatch, C06_monotone_dispatch: the theorems C06_play, C06_command, C06_monotone of Props/C06.v instantiated with that router, Hframe discharged (clock = any reading tm of the entity at global.time, set_clock writes mk t with tm (mk t) = t).  C06_router_clock: the concrete router with the timer INSTALLED AS A DISPATCHER (kms.get_builder layout: components, then the timer; re-entrant addon dispatch goes through the same router): if moreover no addon re-dispatches the signature *.elapse, a dispatch of (name *, method elapse, payload t) moves the clock entity by exactly one clock.spent(t) (from Clock() if the entity is missing: setdefault) and any other dispatch leaves it untouched; C06_router_clock_general: any layout, one spent per installed timer.  C06_concrete_play_clock: the same for a whole play() -- relayed callbacks never move the clock (a callback method contains .emitted. / .done. and is never elapse).  C06_timer_effective: the guard of timer.py uses AND, so called directly the timer also acts on (name *, any method) and (anything, elapse); under the router (signature = *.elapse) it is effective exactly for name * and method elapse.  Tested, not proved: the tie of Model/Dispatch.v to the code (H-dispatch correspondence), the two boolean guards on the shipped components (proved by vm_compute on the extracted data, extraction trusted). *)
From Coq Require Import List String ZArith. From V.Model Require Import Router Play Engine Dispatch. From V.Proofs Require Import DispatchStore DispatchRouter DispatchPlay DispatchExamples.

Theorem C06_frame_from_binds :
  forall (Ent Pay : Type) (empty_pay : Pay) (clock0 : Ent) (spent : Ent -> Pay -> option Ent)
          (pnone : Pay) (ptime : Z -> Pay) (tm : option Ent -> Z) (cs : list (component Ent Pay)),
        clock_unbound Ent Pay cs = true ->
        forall (fuel : nat) (a : Play.action Pay string string (option string)) (s : pst Ent Pay),
        pclock Ent Pay tm (fst (comp_router Ent Pay empty_pay clock0 spent pnone ptime cs fuel a s)) =
        pclock Ent Pay tm s.
Proof. exact @frame_from_binds. Qed.

Theorem C06_play_dispatch :
  forall (Ent Pay : Type) (empty_pay : Pay) (clock0 : Ent) (spent : Ent -> Pay -> option Ent)
          (pnone : Pay) (ptime : Z -> Pay) (tm : option Ent -> Z) (mk : Z -> Ent),
        (forall t : Z, tm (Some (mk t)) = t) ->
        forall cs : list (component Ent Pay),
        clock_unbound Ent Pay cs = true ->
        forall (fuel : nat) (st : Play.store (pst Ent Pay) Pay string string (option string))
          (a : Play.action Pay string string (option string))
          (E0 : list (Play.event Pay string string (option string))),
        cbs (pst Ent Pay) Pay string string (option string) st =
        map (callbacks Pay string string (option string)) E0 ->
        pclock Ent Pay tm
          (ent (pst Ent Pay) Pay string string (option string)
             (fst
                (fst
                   (play (pst Ent Pay) Pay string string (option string)
                      (router (pst Ent Pay) Pay string string (option string) (pclock Ent Pay tm)
                         (pset_clock Ent Pay mk)
                         (comp_router Ent Pay empty_pay clock0 spent pnone ptime cs fuel) star_b elapse_b) st
                      a)))) =
        (pclock Ent Pay tm (ent (pst Ent Pay) Pay string string (option string) st) +
         elapse_time Pay string string (option string) star_b elapse_b a)%Z.
Proof. exact @play_clock_from_binds. Qed.

Theorem C06_command_dispatch :
  forall (Ent Pay : Type) (empty_pay : Pay) (clock0 : Ent) (spent : Ent -> Pay -> option Ent)
          (pnone : Pay) (ptime : Z -> Pay) (tm : option Ent -> Z) (mk : Z -> Ent),
        (forall t : Z, tm (Some (mk t)) = t) ->
        forall cs : list (component Ent Pay),
        clock_unbound Ent Pay cs = true ->
        forall (fuel : nat) (Ck : Type) (m_use m_stop : string) (name_eqb : string -> string -> bool)
          (is_delay : option string -> bool) (time_of : Pay -> Z)
          (save : Play.store (pst Ent Pay) Pay string string (option string) -> Ck) 
          (o : op Z string) (st : Play.store (pst Ent Pay) Pay string string (option string))
          (b : list (Play.event Pay string string (option string))),
        EngineClock.cb_wf (pst Ent Pay) Pay string string (option string) st ->
        let
        '(st', pls, _) :=
         exec_op (Play.store (pst Ent Pay) Pay string string (option string))
           (Play.event Pay string string (option string)) (Play.action Pay string string (option string)) Ck Z
           string
           (EngineClock.eplay (pst Ent Pay) Pay string string (option string) (pclock Ent Pay tm)
              (pset_clock Ent Pay mk) (comp_router Ent Pay empty_pay clock0 spent pnone ptime cs fuel) star_b
              elapse_b) save
           (EngineClock.sclock (pst Ent Pay) Pay string string (option string) (pclock Ent Pay tm))
           (EngineClock.mk_act Pay string string (option string) m_use "elapse"%string m_stop) "*"%string
           (EngineClock.ev_name Pay string string (option string))
           (EngineClock.ev_delay Pay string string (option string) is_delay time_of) name_eqb 0%Z
           (fun t : Z => (0 <? t)%Z) (fun t : Z => (t =? 0)%Z) o st b in
         EngineClock.cb_wf (pst Ent Pay) Pay string string (option string) st' /\
         EngineClock.sclock (pst Ent Pay) Pay string string (option string) (pclock Ent Pay tm) st' =
         (EngineClock.sclock (pst Ent Pay) Pay string string (option string) (pclock Ent Pay tm) st +
          advance (Play.event Pay string string (option string)) Z string
            (EngineClock.ev_name Pay string string (option string))
            (EngineClock.ev_delay Pay string string (option string) is_delay time_of) name_eqb 0
            (fun t : Z => 0 <? t) o b
            (snd
               (EngineClock.eplay (pst Ent Pay) Pay string string (option string) 
                  (pclock Ent Pay tm) (pset_clock Ent Pay mk)
                  (comp_router Ent Pay empty_pay clock0 spent pnone ptime cs fuel) star_b elapse_b st
                  (first_action (Play.event Pay string string (option string))
                     (Play.action Pay string string (option string)) Z string
                     (EngineClock.mk_act Pay string string (option string) m_use "elapse"%string m_stop)
                     "*"%string (EngineClock.ev_name Pay string string (option string))
                     (EngineClock.ev_delay Pay string string (option string) is_delay time_of) name_eqb 0
                     (fun t : Z => 0 <? t) o b))))%Z /\
         EngineClock.sclock (pst Ent Pay) Pay string string (option string) (pclock Ent Pay tm) st' =
         (EngineClock.sclock (pst Ent Pay) Pay string string (option string) (pclock Ent Pay tm) st +
          fold_right
            (fun
               (p0 : playlog (Play.event Pay string string (option string))
                       (Play.action Pay string string (option string)) Ck Z) (acc : Z) =>
             elapse_time Pay string string (option string) star_b elapse_b
               (Engine.pact (Play.event Pay string string (option string))
                  (Play.action Pay string string (option string)) Ck Z p0) + acc) 0 pls)%Z /\
         Forall
           (fun
              p0 : playlog (Play.event Pay string string (option string))
                     (Play.action Pay string string (option string)) Ck Z =>
            (EngineClock.sclock (pst Ent Pay) Pay string string (option string) (pclock Ent Pay tm) st <=
             Engine.pclock (Play.event Pay string string (option string))
               (Play.action Pay string string (option string)) Ck Z p0)%Z \/
            (exists
               q : playlog (Play.event Pay string string (option string))
                     (Play.action Pay string string (option string)) Ck Z,
               In q pls /\
               (elapse_time Pay string string (option string) star_b elapse_b
                  (Engine.pact (Play.event Pay string string (option string))
                     (Play.action Pay string string (option string)) Ck Z q) < 0)%Z)) pls.
Proof. exact @command_clock_from_binds. Qed.

Theorem C06_monotone_dispatch :
  forall (Ent Pay : Type) (empty_pay : Pay) (clock0 : Ent) (spent : Ent -> Pay -> option Ent)
          (pnone : Pay) (ptime : Z -> Pay) (tm : option Ent -> Z) (mk : Z -> Ent),
        (forall t : Z, tm (Some (mk t)) = t) ->
        forall cs : list (component Ent Pay),
        clock_unbound Ent Pay cs = true ->
        forall (fuel : nat) (Ck : Type) (m_use m_stop : string) (name_eqb : string -> string -> bool)
          (is_delay : option string -> bool) (time_of : Pay -> Z)
          (save : Play.store (pst Ent Pay) Pay string string (option string) -> Ck) 
          (o : op Z string) (st : Play.store (pst Ent Pay) Pay string string (option string))
          (b : list (Play.event Pay string string (option string))),
        EngineClock.cb_wf (pst Ent Pay) Pay string string (option string) st ->
        (forall t : Z, o = ELAPSE Z string t -> (0 <= t)%Z) ->
        (EngineClock.sclock (pst Ent Pay) Pay string string (option string) (pclock Ent Pay tm) st <=
         EngineClock.sclock (pst Ent Pay) Pay string string (option string) (pclock Ent Pay tm)
           (fst
              (fst
                 (exec_op (Play.store (pst Ent Pay) Pay string string (option string))
                    (Play.event Pay string string (option string))
                    (Play.action Pay string string (option string)) Ck Z string
                    (EngineClock.eplay (pst Ent Pay) Pay string string (option string) 
                       (pclock Ent Pay tm) (pset_clock Ent Pay mk)
                       (comp_router Ent Pay empty_pay clock0 spent pnone ptime cs fuel) star_b elapse_b) save
                    (EngineClock.sclock (pst Ent Pay) Pay string string (option string) (pclock Ent Pay tm))
                    (EngineClock.mk_act Pay string string (option string) m_use "elapse"%string m_stop)
                    "*"%string (EngineClock.ev_name Pay string string (option string))
                    (EngineClock.ev_delay Pay string string (option string) is_delay time_of) name_eqb 0
                    (fun t : Z => 0 <? t) (fun t : Z => t =? 0) o st b))))%Z.
Proof. exact @monotone_from_binds. Qed.

Theorem C06_router_clock :
  forall (Ent Pay : Type) (empty_pay : Pay) (clock0 : Ent) (spent : Ent -> Pay -> option Ent)
          (cs : list (component Ent Pay)) (fuel : nat) (c : Router.cache string) (a : action Pay)
          (s : rst Ent Pay) (c' : Router.cache string) (s' : rst Ent Pay) (evs : list (event Pay)),
        clock_unbound Ent Pay cs = true ->
        addons_no_elapse Ent Pay cs = true ->
        Router.Coh string (action Pay) (rst Ent Pay) (event Pay) eqb
          (installed Ent Pay empty_pay clock0 spent (shipped_system Ent Pay cs)) c ->
        dispatch_c Ent Pay fuel (installed Ent Pay empty_pay clock0 spent (shipped_system Ent Pay cs)) c a s =
        (c', Some (s', evs)) ->
        if is_elapse_act Pay a
        then
         exists ck' : Ent,
           spent (clock_in Ent clock0 (clk Ent Pay s)) (a_pay a) = Some ck' /\ clk Ent Pay s' = Some ck'
        else clk Ent Pay s' = clk Ent Pay s.
Proof. exact @shipped_router_clock. Qed.

Theorem C06_router_clock_general :
  forall (Ent Pay : Type) (empty_pay : Pay) (clock0 : Ent) (spent : Ent -> Pay -> option Ent)
          (sys : list (inst Ent Pay)) (fuel : nat) (c : Router.cache string) (a : action Pay)
          (s : rst Ent Pay) (c' : Router.cache string) (s' : rst Ent Pay) (evs : list (event Pay)),
        clock_unbound Ent Pay (comps_of Ent Pay sys) = true ->
        addons_no_elapse Ent Pay (comps_of Ent Pay sys) = true ->
        Router.Coh string (action Pay) (rst Ent Pay) (event Pay) eqb
          (installed Ent Pay empty_pay clock0 spent sys) c ->
        dispatch_c Ent Pay fuel (installed Ent Pay empty_pay clock0 spent sys) c a s = (c', Some (s', evs)) ->
        Router.Coh string (action Pay) (rst Ent Pay) (event Pay) eqb
          (installed Ent Pay empty_pay clock0 spent sys) c' /\
        steps Ent Pay clock0 spent a (Datatypes.length (flat_map (timers_for Ent Pay a) sys)) 
          (clk Ent Pay s) (clk Ent Pay s').
Proof. exact @router_clock. Qed.

Theorem C06_concrete_play_clock :
  forall (Ent Pay : Type) (empty_pay : Pay) (clock0 : Ent) (spent : Ent -> Pay -> option Ent)
          (pnone : Pay) (ptime : Z -> Pay) (cs : list (component Ent Pay)),
        clock_unbound Ent Pay cs = true ->
        addons_no_elapse Ent Pay cs = true ->
        forall (fuel : nat) (st : Play.store (pst Ent Pay) Pay string string (option string))
          (a : Play.action Pay string string (option string))
          (E0 : list (Play.event Pay string string (option string))),
        wf Ent Pay empty_pay clock0 spent (shipped_system Ent Pay cs)
          (ent (pst Ent Pay) Pay string string (option string) st) ->
        cbs (pst Ent Pay) Pay string string (option string) st =
        map (callbacks Pay string string (option string)) E0 ->
        let
        '(st1, _, _) :=
         pplay Ent Pay pnone ptime fuel (installed Ent Pay empty_pay clock0 spent (shipped_system Ent Pay cs))
           st a in
         p_ok (ent (pst Ent Pay) Pay string string (option string) st1) = true ->
         if is_elapse_act Pay (act_of Pay pnone ptime a)
         then
          exists ck' : Ent,
            spent
              (clock_in Ent clock0 (sclk Ent Pay (ent (pst Ent Pay) Pay string string (option string) st)))
              (a_pay (act_of Pay pnone ptime a)) = Some ck' /\
            sclk Ent Pay (ent (pst Ent Pay) Pay string string (option string) st1) = Some ck'
         else
          sclk Ent Pay (ent (pst Ent Pay) Pay string string (option string) st1) =
          sclk Ent Pay (ent (pst Ent Pay) Pay string string (option string) st).
Proof. exact @shipped_play_clock. Qed.

Theorem C06_timer_effective :
  forall name method : string,
        msig name method = "*.elapse"%string ->
        (negb (method =? "elapse")%string && negb (name =? "*")%string)%bool = false ->
        name = "*"%string /\ method = "elapse"%string.
Proof. exact @timer_effective. Qed.

Theorem C06_components_keep_clock :
  forall (Ent Pay : Type) (empty_pay : Pay) (clock0 : Ent) (spent : Ent -> Pay -> option Ent)
          (cs : list (component Ent Pay)),
        clock_unbound Ent Pay cs = true ->
        forall (fuel : nat) (c : Router.cache string) (a : action Pay) (s : rst Ent Pay)
          (c' : Router.cache string) (s' : rst Ent Pay) (evs : list (event Pay)),
        dispatch_c Ent Pay fuel (installed Ent Pay empty_pay clock0 spent (map IComp cs)) c a s =
        (c', Some (s', evs)) -> clk Ent Pay s' = clk Ent Pay s.
Proof. exact @comps_keep_clock. Qed.

Theorem C06_dispatch_nonvacuous :
  two_plays =
        (3,
         {| i_comp := "atk"; i_key := "atk.use"; i_method := "use"; i_pay := 0%Z; i_addon := false |} :: nil,
         {| i_comp := "atk"; i_key := "atk.use"; i_method := "use"; i_pay := 0%Z; i_addon := false |}
         :: {|
              i_comp := "buff";
              i_key := "$.emitted.global.damage";
              i_method := "trigger";
              i_pay := 40%Z;
              i_addon := false
            |}
            :: {|
                 i_comp := "atk"; i_key := "*.elapse"; i_method := "elapse"; i_pay := 2%Z; i_addon := false
               |}
               :: {|
                    i_comp := "buff";
                    i_key := "*.elapse";
                    i_method := "elapse";
                    i_pay := 2%Z;
                    i_addon := false
                  |}
                  :: {|
                       i_comp := "atk";
                       i_key := "$.done.global.damage";
                       i_method := "after";
                       i_pay := 40%Z;
                       i_addon := false
                     |} :: nil,
         ("global.dynamics"%string, 100%Z)
         :: ("global.time"%string, 2%Z) :: (".atk.cooldown"%string, 3%Z) :: (".buff.stack"%string, 1%Z) :: nil,
         true).
Proof. exact @two_plays_trace. Qed.

Theorem C06_guards_nonvacuous :
  clock_unbound Ent Pay comps = true /\ addons_no_elapse Ent Pay comps = true.
Proof. exact @guards_hold. Qed.

Print Assumptions C06_frame_from_binds.
Print Assumptions C06_play_dispatch.
Print Assumptions C06_command_dispatch.
Print Assumptions C06_monotone_dispatch.
Print Assumptions C06_router_clock.
Print Assumptions C06_router_clock_general.
Print Assumptions C06_concrete_play_clock.
Print Assumptions C06_timer_effective.
Print Assumptions C06_components_keep_clock.
Print Assumptions C06_dispatch_nonvacuous.
Print Assumptions C06_guards_nonvacuous.
