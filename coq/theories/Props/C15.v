(* C15  Spec expressions mean ordinary arithmetic and interpretation is side-effect free.

   WHAT IS PROVED (all closed, no axioms).  Numbers are exact rationals (Q); an expression is a list of tokens of the
   Lark grammar of simaple/spec/_math.py (Model/ExprParse.v); `eval` (Model/Expr.v) is ordinary arithmetic:
   + - * / on Q, // = floor of the exact quotient, unary minus, ceil/floor = Qceiling/Qfloor, min/max = Qmin/Qmax,
   > < as 1/0, apply_attack_speed(x) = 30*ceil(x*((16-4)/16)/30), variables looked up in the binding, division by zero and
   an unbound variable = None (Python: exception).

   * Grammar.  C15_grammar_tie / C15_optable_tie: the production table, terminals, directives and the semantic-action
     table that tools/tr_mathgrammar.py extracts from the source ON THIS RUN are the ones the model implements.
     C15_source_grammar_roundtrip: for EVERY tree e, the tokens `print e` (minimal parentheses) derive e in the SOURCE
     grammar and the model's parser returns e.  C15_source_actions_denote_eval: the Python body of every CalcTransformer
     method, read over Q, is what `eval` computes at the node it builds.
   * Precedence and associativity are therefore theorems: C15_parse_print, C15_parse_redundant_parentheses (any amount of
     redundant parentheses), C15_print_injective, C15_same_level_left_assoc (a o1 b o2 c = (a o1 b) o2 c for o1,o2 of one
     level: + -  or  * / // > <), C15_tighter_on_the_right/_left (the operators of the term level bind tighter than + -),
     C15_unary_minus_binds_tightest, C15_parentheses_override/_on_the_right, for arbitrary subexpressions; and as values
     for all rationals: C15_sub_sub (a-b-c = (a-b)-c), C15_sub_add, C15_div_div, C15_div_mul, C15_idiv_mul, C15_add_mul,
     C15_mul_add, C15_sub_idiv, C15_neg_mul, C15_neg_sub, C15_sub_neg, C15_paren_mul, C15_sub_paren.
   * Operators: C15_floor_spec, C15_ceil_spec, C15_idiv_spec_pos/_neg (the remainder has the sign of the divisor: Python's
     definition of //), C15_idiv_int_is_floor_division (on integers // is Z.div: 7//2 = 3, -7//2 = -4),
     C15_min_max_ceil_floor, C15_var_lookup.  Digit separators: C15_digit_separators (a SEPERATED_NUMBER token can be
     replaced by the NUMBER token of its value anywhere), C15_separated_number.
   * Documents (Model/Doc.v: DFSTraversePatch._apply exactly as coded now, generic in the patch_value/patch_dict hook `ev`
     and the patch_key hook `evk`: 'exclude' lists, dict update order).  The FULL statement of the property is proved,
     with NO side condition:
         C15_apply_spec : forall r d, arith_apply r d = arith_ideal r d
     arith_ideal r d = d with every '{{e}}' string -- as a value, a list element, the key of a scalar-valued entry or the key
     of a dict-/list-valued entry, at any depth -- replaced by eval e; entries listed under "exclude" (and "exclude" itself)
     are dropped without being evaluated; an error anywhere (division by zero, unbound variable, syntax, "exclude" not a
     list) makes both sides None; the result of each dict is BUILT as a Python dict, in order (dict_of: when two interpreted
     keys are equal, 1 == 1.0 == True included, the later value replaces the earlier one, which keeps its place).
     That last point is the only place where "replaced" needs care, and it is part of the specification, not a hypothesis:
         C15_apply_spec_distinct_keys : arith_plain r d = Some d' -> distinct_all d' = true -> arith_apply r d = Some d'
     (arith_plain = the plain map without any dict building): whenever the interpreted keys of every dict of the result are
     pairwise different, apply IS the plain "replace every expression" map.  C15_dict_of_distinct is the lemma behind it.
     C15_apply_any_hook: for every pair of hooks apply = the same reading with evk on container-valued keys (the other
     DFSTraversePatch subclasses keep patch_key = identity).
     HISTORY: until /repo commit e5276b7 a '{{ }}' key in front of a dict or list was not interpreted (former finding
     C15-container-valued-key-not-interpreted, then C15_apply_spec_refuted/_partial); the commit added the patch_key hook
     and the full theorem replaced the pair.  Witness kept as Example witness_value (Proofs/DocP.v) and as the first
     regression case of the harness.  Before that, bd60c26 repaired `patch or raw` (a value 0 stayed a string).
     C15_list_element_replaced / C15_value_and_key_replaced / C15_container_key_replaced / C15_nested_value_replaced: each
     placement separately, for any expression and any value q (q == 0 included).
   * Spec.interpret = copy, then fold the patches.  The model is purely functional: the store is a value and CANNOT be
     mutated, so C15_interpret_store_unchanged / C15_interpret_twice_same hold by construction and say nothing about Python
     object mutation.  That clause of the property is carried by the correspondence harness (every shipped Spec x shipped
     patch chains interpreted twice, repository dumps before/after), not by a theorem.

   HYPOTHESES TESTED, NOT PROVED: Lark's lexer/Earley parser produce the tree the model's parser produces; binary64 results
   are within rounding noise of the exact ones (compared exactly where binary64 arithmetic is exact).
   Proofs: Proofs/ExprParseP.v, Proofs/ExprSem.v, Proofs/DocP.v, Proofs/MathGrammarTie.v. *)
From Coq Require Import QArith Qround Qminmax List Bool ZArith NArith String.
From V.Model Require Import Expr ExprParse Doc.
From V.Proofs Require Import ExprParseP ExprSem DocP MathGrammarTie.
From G Require MathGrammar.
Import ListNotations.

Theorem C15_parse_print :
  forall e : expr, parse (print e) = Some e.
Proof. exact @parse_print. Qed.

Theorem C15_parse_redundant_parentheses :
  forall d : dexpr, parse (dp 0 d) = Some (erase d).
Proof. exact @parse_dprint. Qed.

Theorem C15_print_injective :
  forall e1 e2 : expr, print e1 = print e2 -> e1 = e2.
Proof. exact @print_injective. Qed.

Theorem C15_digit_separators :
  forall ts : list tok, parse (map norm_tok ts) = parse ts.
Proof. exact @parse_norm. Qed.

Theorem C15_separated_number :
  forall (r : env) (l : list sepch), has_digit l = true -> evalp r [TSep l] = Some (sepval l).
Proof. exact @separated_number. Qed.

Theorem C15_same_level_left_assoc :
  forall (o1 o2 : bop) (e1 e2 e3 : expr),
        lvl o1 = lvl o2 ->
        parse (p (lvl o1) e1 ++ TOp o1 :: p (S (lvl o1)) e2 ++ TOp o2 :: p (S (lvl o1)) e3) =
        Some (Bin o2 (Bin o1 e1 e2) e3).
Proof. exact @same_level_left_assoc. Qed.

Theorem C15_tighter_on_the_right :
  forall (o1 o2 : bop) (e1 e2 e3 : expr),
        lvl o1 = 0%nat ->
        lvl o2 = 1%nat ->
        parse (p 0 e1 ++ TOp o1 :: p 1 e2 ++ TOp o2 :: p 2 e3) = Some (Bin o1 e1 (Bin o2 e2 e3)).
Proof. exact @tighter_on_the_right. Qed.

Theorem C15_tighter_on_the_left :
  forall (o1 o2 : bop) (e1 e2 e3 : expr),
        lvl o1 = 1%nat ->
        lvl o2 = 0%nat ->
        parse (p 1 e1 ++ TOp o1 :: p 2 e2 ++ TOp o2 :: p 1 e3) = Some (Bin o2 (Bin o1 e1 e2) e3).
Proof. exact @tighter_on_the_left. Qed.

Theorem C15_unary_minus_binds_tightest :
  forall (o : bop) (e1 e2 : expr),
        parse (TOp Sub :: p 2 e1 ++ TOp o :: p (S (lvl o)) e2) = Some (Bin o (Neg e1) e2).
Proof. exact @neg_binds_tightest. Qed.

Theorem C15_parentheses_override :
  forall (o1 o2 : bop) (e1 e2 e3 : expr),
        lvl o1 = 0%nat ->
        lvl o2 = 1%nat ->
        parse (TLP :: (p 0 e1 ++ TOp o1 :: p 1 e2) ++ TRP :: TOp o2 :: p 2 e3) =
        Some (Bin o2 (Bin o1 e1 e2) e3).
Proof. exact @parentheses_override. Qed.

Theorem C15_parentheses_on_the_right :
  forall (o1 o2 : bop) (e1 e2 e3 : expr),
        lvl o1 = lvl o2 ->
        parse (p (lvl o1) e1 ++ TOp o1 :: TLP :: (p (lvl o1) e2 ++ TOp o2 :: p (S (lvl o1)) e3) ++ [TRP]) =
        Some (Bin o1 e1 (Bin o2 e2 e3)).
Proof. exact @parentheses_on_the_right. Qed.

Theorem C15_sub_sub :
  forall (r : env) (a b c : Q), evalp r [TNum a; TOp Sub; TNum b; TOp Sub; TNum c] = Some (a - b - c).
Proof. exact @sub_sub. Qed.

Theorem C15_sub_add :
  forall (r : env) (a b c : Q), evalp r [TNum a; TOp Sub; TNum b; TOp Add; TNum c] = Some (a - b + c).
Proof. exact @sub_add. Qed.

Theorem C15_div_div :
  forall (r : env) (a b c : Q),
        Qeq_bool b 0 = false ->
        Qeq_bool c 0 = false -> evalp r [TNum a; TOp Div; TNum b; TOp Div; TNum c] = Some (a / b / c).
Proof. exact @div_div. Qed.

Theorem C15_div_mul :
  forall (r : env) (a b c : Q),
        Qeq_bool b 0 = false -> evalp r [TNum a; TOp Div; TNum b; TOp Mul; TNum c] = Some (a / b * c).
Proof. exact @div_mul. Qed.

Theorem C15_idiv_mul :
  forall (r : env) (a b c : Q),
        Qeq_bool b 0 = false -> evalp r [TNum a; TOp IDiv; TNum b; TOp Mul; TNum c] = Some (qidiv a b * c).
Proof. exact @idiv_mul. Qed.

Theorem C15_add_mul :
  forall (r : env) (a b c : Q), evalp r [TNum a; TOp Add; TNum b; TOp Mul; TNum c] = Some (a + b * c).
Proof. exact @add_mul. Qed.

Theorem C15_mul_add :
  forall (r : env) (a b c : Q), evalp r [TNum a; TOp Mul; TNum b; TOp Add; TNum c] = Some (a * b + c).
Proof. exact @mul_add. Qed.

Theorem C15_sub_idiv :
  forall (r : env) (a b c : Q),
        Qeq_bool c 0 = false -> evalp r [TNum a; TOp Sub; TNum b; TOp IDiv; TNum c] = Some (a - qidiv b c).
Proof. exact @sub_idiv. Qed.

Theorem C15_neg_mul :
  forall (r : env) (a b : Q), evalp r [TOp Sub; TNum a; TOp Mul; TNum b] = Some (- a * b).
Proof. exact @neg_mul. Qed.

Theorem C15_neg_sub :
  forall (r : env) (a b : Q), evalp r [TOp Sub; TNum a; TOp Sub; TNum b] = Some (- a - b).
Proof. exact @neg_sub. Qed.

Theorem C15_sub_neg :
  forall (r : env) (a b : Q), evalp r [TNum a; TOp Sub; TOp Sub; TNum b] = Some (a - - b).
Proof. exact @sub_neg. Qed.

Theorem C15_paren_mul :
  forall (r : env) (a b c : Q),
        evalp r [TLP; TNum a; TOp Add; TNum b; TRP; TOp Mul; TNum c] = Some ((a + b) * c).
Proof. exact @paren_mul. Qed.

Theorem C15_sub_paren :
  forall (r : env) (a b c : Q),
        evalp r [TNum a; TOp Sub; TLP; TNum b; TOp Sub; TNum c; TRP] = Some (a - (b - c)).
Proof. exact @sub_paren. Qed.

Theorem C15_var_lookup :
  forall (r : env) (v : var), evalp r [TVar v] = r v.
Proof. exact @var_lookup. Qed.

Theorem C15_min_max_ceil_floor :
  forall (r : env) (a b : Q),
        evalp r [TF2 Min; TNum a; TComma; TNum b; TRP] = Some (Qmin a b) /\
        evalp r [TF2 Max; TNum a; TComma; TNum b; TRP] = Some (Qmax a b) /\
        evalp r [TF1 Ceil; TNum a; TRP] = Some (qceil a) /\ evalp r [TF1 Floor; TNum a; TRP] = Some (qfloor a).
Proof. exact @min_max_ceil_floor. Qed.

Theorem C15_floor_spec :
  forall x : Q, qfloor x <= x < qfloor x + 1.
Proof. exact @qfloor_spec. Qed.

Theorem C15_ceil_spec :
  forall x : Q, qceil x - 1 < x <= qceil x.
Proof. exact @qceil_spec. Qed.

Theorem C15_idiv_spec_pos :
  forall x y : Q, 0 < y -> qidiv x y * y <= x < (qidiv x y + 1) * y.
Proof. exact @qidiv_spec_pos. Qed.

Theorem C15_idiv_spec_neg :
  forall x y : Q, y < 0 -> x <= qidiv x y * y /\ (qidiv x y + 1) * y < x.
Proof. exact @qidiv_spec_neg. Qed.

Theorem C15_idiv_int_is_floor_division :
  forall a b : Z, b <> 0%Z -> qidiv (inject_Z a) (inject_Z b) = inject_Z (a / b).
Proof. exact @qidiv_int. Qed.

Theorem C15_grammar_tie :
  MathGrammar.productions = model_productions /\
        MathGrammar.inlined_rules = model_inlined_rules /\
        MathGrammar.terminals = model_terminals /\
        MathGrammar.imports = model_imports /\
        MathGrammar.ignored = model_ignored /\ MathGrammar.lark_call = model_lark_call.
Proof. exact @grammar_tie. Qed.

Theorem C15_optable_tie :
  MathGrammar.optable = model_optable /\ MathGrammar.entry = model_entry.
Proof. exact @optable_tie. Qed.

Theorem C15_source_grammar_roundtrip :
  forall e : expr, der MathGrammar.productions "start" (print e) e /\ parse (print e) = Some e.
Proof. exact @source_grammar_roundtrip. Qed.

Theorem C15_source_actions_denote_eval :
  forall (alias : string) (body : pyexpr) (es : list expr) (e : expr) (r : env) (vs : list Q),
        In (alias, body) MathGrammar.optable ->
        build alias es = Some e ->
        Forall2 (fun (e0 : expr) (v : Q) => eval r e0 = Some v) es vs -> eval r e = pyden body vs.
Proof. exact @source_actions_denote_eval. Qed.

Theorem C15_apply_spec :
  forall (r : env) (d : sdoc), arith_apply r d = arith_ideal r d.
Proof. exact @arith_apply_spec. Qed.

Theorem C15_apply_spec_distinct_keys :
  forall (r : env) (d d' : sdoc),
        arith_plain r d = Some d' -> distinct_all leaf leaf_eqb d' = true -> arith_apply r d = Some d'.
Proof. exact @arith_apply_plain. Qed.

Theorem C15_apply_any_hook :
  forall (Leaf : Type) (leaf_eqb : Leaf -> Leaf -> bool) (ev evk : Leaf -> option Leaf)
          (exclude_key : Leaf) (d : doc Leaf),
        apply Leaf leaf_eqb ev evk exclude_key d = hooked Leaf leaf_eqb ev evk exclude_key d.
Proof. exact @apply_hooked. Qed.

Theorem C15_list_element_replaced :
  forall (r : env) (i : N) (ts : list tok) (q : Q),
        evalp r ts = Some q ->
        arith_apply r (DList [DLeaf (LStr i (Some ts))]) = Some (DList [DLeaf (LNum q)]).
Proof. exact @list_element_replaced. Qed.

Theorem C15_value_and_key_replaced :
  forall (r : env) (i : N) (tk : list tok) (qk : Q) (j : N) (tv : list tok) (qv : Q),
        i <> exclude_id ->
        evalp r tk = Some qk ->
        evalp r tv = Some qv ->
        arith_apply r (DDict [(LStr i (Some tk), DLeaf (LStr j (Some tv)))]) =
        Some (DDict [(LNum qk, DLeaf (LNum qv))]).
Proof. exact @value_and_key_replaced. Qed.

Theorem C15_container_key_replaced :
  forall (r : env) (i : N) (tk : list tok) (qk : Q) (j : N) (tv : list tok) (qv : Q),
        i <> exclude_id ->
        evalp r tk = Some qk ->
        evalp r tv = Some qv ->
        arith_apply r (DDict [(LStr i (Some tk), DList [DLeaf (LStr j (Some tv))])]) =
        Some (DDict [(LNum qk, DList [DLeaf (LNum qv)])]).
Proof. exact @container_key_replaced. Qed.

Theorem C15_nested_value_replaced :
  forall (r : env) (i k j : N) (ts : list tok) (q : Q),
        k <> exclude_id ->
        j <> exclude_id ->
        evalp r ts = Some q ->
        arith_apply r (DDict [(LStr k None, DList [DDict [(LStr j None, DLeaf (LStr i (Some ts)))]])]) =
        Some (DDict [(LStr k None, DList [DDict [(LStr j None, DLeaf (LNum q))]])]).
Proof. exact @nested_value_replaced. Qed.

Theorem C15_dict_of_distinct :
  forall (Leaf : Type) (leaf_eqb : Leaf -> Leaf -> bool) (l : list (Leaf * doc Leaf)),
        distinct_keys Leaf leaf_eqb l = true -> dict_of Leaf leaf_eqb l = l.
Proof. exact @dict_of_distinct. Qed.

Theorem C15_interpret_store_unchanged :
  forall (Leaf : Type) (s : store Leaf) (i : nat) (ps : list (patch Leaf)),
        fst (interpret_in Leaf s i ps) = s.
Proof. exact @interpret_store_unchanged. Qed.

Theorem C15_interpret_twice_same :
  forall (Leaf : Type) (s : store Leaf) (i : nat) (ps : list (patch Leaf)),
        snd (interpret_in Leaf (fst (interpret_in Leaf s i ps)) i ps) = snd (interpret_in Leaf s i ps).
Proof. exact @interpret_twice_same. Qed.

Print Assumptions C15_parse_print.
Print Assumptions C15_parse_redundant_parentheses.
Print Assumptions C15_print_injective.
Print Assumptions C15_digit_separators.
Print Assumptions C15_separated_number.
Print Assumptions C15_same_level_left_assoc.
Print Assumptions C15_tighter_on_the_right.
Print Assumptions C15_tighter_on_the_left.
Print Assumptions C15_unary_minus_binds_tightest.
Print Assumptions C15_parentheses_override.
Print Assumptions C15_parentheses_on_the_right.
Print Assumptions C15_sub_sub.
Print Assumptions C15_sub_add.
Print Assumptions C15_div_div.
Print Assumptions C15_div_mul.
Print Assumptions C15_idiv_mul.
Print Assumptions C15_add_mul.
Print Assumptions C15_mul_add.
Print Assumptions C15_sub_idiv.
Print Assumptions C15_neg_mul.
Print Assumptions C15_neg_sub.
Print Assumptions C15_sub_neg.
Print Assumptions C15_paren_mul.
Print Assumptions C15_sub_paren.
Print Assumptions C15_var_lookup.
Print Assumptions C15_min_max_ceil_floor.
Print Assumptions C15_floor_spec.
Print Assumptions C15_ceil_spec.
Print Assumptions C15_idiv_spec_pos.
Print Assumptions C15_idiv_spec_neg.
Print Assumptions C15_idiv_int_is_floor_division.
Print Assumptions C15_grammar_tie.
Print Assumptions C15_optable_tie.
Print Assumptions C15_source_grammar_roundtrip.
Print Assumptions C15_source_actions_denote_eval.
Print Assumptions C15_apply_spec.
Print Assumptions C15_apply_spec_distinct_keys.
Print Assumptions C15_apply_any_hook.
Print Assumptions C15_list_element_replaced.
Print Assumptions C15_value_and_key_replaced.
Print Assumptions C15_container_key_replaced.
Print Assumptions C15_nested_value_replaced.
Print Assumptions C15_dict_of_distinct.
Print Assumptions C15_interpret_store_unchanged.
Print Assumptions C15_interpret_twice_same.
