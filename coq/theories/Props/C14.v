(* C14  Plan text round-trips: printed operations re-parse to themselves.

   Model (Model/Dsl.v): a plan text as a list of layout-aware tokens -- WORD, ESCAPED_STRING, SIGNED_NUMBER (as the
   64 bits of the float it denotes), the multiplier "x" SIGNED_NUMBER, "!debug", the header, and the layout atoms
   space / other white space / newline / comment.  parse_body, parse_ops, parse_simaple are deterministic parsers for
   the Lark grammar of simaple/simulate/policy/parser.py (start = body / body + all-operations / strip + simaple),
   including WHERE the grammar allows white space and newlines (it names WS and NEWLINE explicitly and ignores only
   ' ' and COMMENT).  print_op is the three `expr` f-string templates of TreeToOperation.  Model/DslLex.v is the
   character level of one ESCAPED_STRING / WORD / SIGNED_NUMBER token and of the header separator line.

   What is proved, for ALL command lists / names / numbers / layouts (no size bound):
   - C14_parse_print, C14_parse_ops_print: parse (print cs) = Some cs for every non-empty list of commands whose
     times are finite floats.  "cs <> []": the grammar has no empty body.  "finite": see refuted below.
   - C14_multiplier_replicates(_nat, _nonpositive): `xN op` parses to N copies of op for EVERY integer N int() accepts
     (N <= 0: no copy, as range(N)), with any gap the grammar allows after the multiplier.
   - C14_gap_grammar_layout: every plan laid out with gaps the gap grammar accepts parses to the commands it denotes;
     C14_layout_invariance / C14_ignorable_invariance_partial / C14_ignorable_same_as_canonical: the parse does not
     depend on: spaces before the first command; any non-empty run of spaces/tabs inside a command; trailing spaces, a
     trailing comment, blank lines and space indentation between commands; additionally, before an operation WITHOUT
     multiplier, one comment line or white-space-only lines / tab indentation; trailing spaces and a trailing
     comment on the last line.
   - C14_header_body_split / C14_no_header_split: header + newline(s) + printed body, padded with white space, is split
     by parse_simaple into exactly that header and those commands; without header the metadata is empty.
   - character level: C14_string_print_lex / C14_string_lex_closed (a name the lexer produced is re-read as itself when
     printed in quotes -- any characters incl. '#', unicode, escaped quotes), C14_word_print_lex, C14_number_fixed_lex /
     C14_number_sci_lex (both shapes of repr(float) are one SIGNED_NUMBER), C14_header_split_lines (Lark's greedy
     header regex and api/base.py's split("\n---") agree when no metadata/body line starts with '---').
   - tie: C14_grammar_is_modelled, C14_transformer_is_modelled, C14_printer_is_templates, C14_words_and_strategy,
     C14_api_is_modelled: the productions, %ignore/%import lines, start symbols, transformer methods, expr templates,
     entry points, handled command words, the strategy layer's DSL texts and api/base.py's separator/render template
     extracted from /repo on this run (gen/DslGrammar.v) are the ones the model implements.

   What is FALSE of the current code and therefore proved refuted (full statements kept here):
   - "forall cs, cs <> [] -> parse (print cs) = Some cs" fails: C14_parse_print_refuted (ELAPSE with time +inf, which
     the parser produces from `ELAPSE 1e400`, prints as `ELAPSE inf`); C14_parse_print_nonfinite: it fails for every
     non-finite time.
   - "forall c1 c2 g, is_filler g = true -> parse (print c1 ++ g ++ print c2) = Some [c1; c2]" and
     "forall c g, g only layout -> parse (print c ++ g) = Some [c]" fail: C14_ignorable_invariance_refuted (two comment
     lines between two commands; a trailing newline); C14_trailing_line_rejected: for EVERY plan a line break after
     the last command (trailing newline, last line blank or a comment) is rejected by parse_dsl_to_command.
     (Proofs/DslLayout.v evaluates the other failing layouts: a comment line or a space-only line before a console
     line or before a multiplied operation.)

   Hypotheses tested, not proved: Lark's Earley parser + dynamic lexer accept exactly the token lists the model accepts
   (correspondence on generated plans); float(repr(t)) = t and repr's two shapes (CPython); the regexes of lark's
   common.lark are the ones DslLex.v implements (compared with `re` on generated strings); yaml.safe_load of the
   header text. *)

From Coq Require Import List NArith ZArith Bool.
Import ListNotations.
From V.Model Require Import Dsl DslEq DslLex DslSpec.
From V.Proofs Require Import DslP DslLayout DslLexP DslTie.
From G Require DslGrammar.
Open Scope Z_scope.

Theorem C14_parse_print :
  forall cs : list cmd, cs <> [] -> Forall cmd_finite cs -> parse_body (print cs) = Some cs.
Proof. exact @parse_print. Qed.

Theorem C14_parse_ops_print :
  forall cs : list cmd,
        cs <> [] -> Forall cmd_finite cs -> forallb is_op cs = true -> parse_ops (print cs) = Some cs.
Proof. exact @parse_ops_print. Qed.

Theorem C14_parse_print_refuted :
  exists c : cmd, parse_body (print [c]) <> Some [c].
Proof. exact @parse_print_refuted. Qed.

Theorem C14_parse_print_nonfinite :
  forall (c : text) (t : num), num_finite t = false -> parse_body (print [Op (TimeOp c t)]) = None.
Proof. exact @parse_print_nonfinite. Qed.

Theorem C14_multiplier_replicates :
  forall (z : Z) (g : list tok) (o : op),
        gap g ->
        gmatch g_optws g = true ->
        op_finite o -> parse_body (TX z :: g ++ print_op o) = Some (repeat (Op o) (Z.to_nat z)).
Proof. exact @multiplier_replicates. Qed.

Theorem C14_multiplier_replicates_nat :
  forall (n : nat) (o : op),
        op_finite o -> parse_body (TX (Z.of_nat n) :: TSp :: print_op o) = Some (repeat (Op o) n).
Proof. exact @multiplier_replicates_nat. Qed.

Theorem C14_multiplier_nonpositive :
  forall (z : Z) (o : op), (z <= 0)%Z -> op_finite o -> parse_body (TX z :: TSp :: print_op o) = Some [].
Proof. exact @multiplier_nonpositive. Qed.

Theorem C14_gap_grammar_layout :
  forall (it : lay) (rest : list (list tok * lay)) (lead trail : list tok),
        gap lead ->
        gmatch (g_lead (lay_plain it)) lead = true ->
        lay_ok it ->
        Forall sep_ok rest ->
        gap trail ->
        gmatch g_ign trail = true ->
        parse_body (lead ++ render_doc it rest trail) =
        Some (denote_lay it ++ flat_map (fun p : list tok * lay => denote_lay (snd p)) rest).
Proof. exact @parse_body_layout. Qed.

Theorem C14_layout_invariance :
  forall (it : lay) (rest : list (list tok * lay)) (lead trail : list tok),
        good_lead (lay_plain it) lead ->
        lay_good it ->
        Forall (fun p : list tok * lay => good_sep (lay_plain (snd p)) (fst p) /\ lay_good (snd p)) rest ->
        good_trail trail ->
        parse_body (lead ++ render_doc it rest trail) =
        Some (denote_lay it ++ flat_map (fun p : list tok * lay => denote_lay (snd p)) rest).
Proof. exact @layout_invariance. Qed.

Theorem C14_ignorable_invariance_partial :
  forall (c : cmd) (rest : list (list tok * cmd)) (lead trail : list tok),
        good_lead (is_op c) lead ->
        cmd_finite c ->
        Forall (fun p : list tok * cmd => good_sep (is_op (snd p)) (fst p) /\ cmd_finite (snd p)) rest ->
        good_trail trail -> parse_body (lead ++ print_sep c rest trail) = Some (c :: map snd rest).
Proof. exact @ignorable_invariance_partial. Qed.

Theorem C14_ignorable_same_as_canonical :
  forall (c : cmd) (rest : list (list tok * cmd)) (lead trail : list tok),
        good_lead (is_op c) lead ->
        cmd_finite c ->
        Forall (fun p : list tok * cmd => good_sep (is_op (snd p)) (fst p) /\ cmd_finite (snd p)) rest ->
        good_trail trail ->
        parse_body (lead ++ print_sep c rest trail) = parse_body (print (c :: map snd rest)).
Proof. exact @ignorable_same_as_canonical. Qed.

Theorem C14_ignorable_invariance_refuted :
  (exists (c1 c2 : cmd) (g : list tok),
           is_filler g = true /\ parse_body (print_cmd c1 ++ g ++ print_cmd c2) = None) /\
        (exists (c : cmd) (g : list tok), forallb is_layout g = true /\ parse_body (print_cmd c ++ g) = None).
Proof. exact @ignorable_invariance_refuted. Qed.

Theorem C14_trailing_line_rejected :
  forall (cs : list cmd) (trail : list tok),
        cs <> [] ->
        Forall cmd_finite cs ->
        gap trail -> existsb is_nl trail = true -> parse_body (print cs ++ trail) = None.
Proof. exact @trailing_line_rejected. Qed.

Theorem C14_header_body_split :
  forall (h : text) (cs : list cmd) (a b : list tok) (k : nat),
        cs <> [] ->
        Forall cmd_finite cs ->
        forallb is_ws a = true ->
        forallb is_ws b = true ->
        parse_simaple (a ++ (THeader h :: nls k ++ print cs) ++ b) = Some (Some h, cs).
Proof. exact @header_body_split. Qed.

Theorem C14_no_header_split :
  forall (cs : list cmd) (a b : list tok),
        cs <> [] ->
        Forall cmd_finite cs ->
        forallb is_ws a = true ->
        forallb is_ws b = true -> parse_simaple (a ++ print cs ++ b) = Some (None, cs).
Proof. exact @no_header_split. Qed.

Theorem C14_string_print_lex :
  forall (n : chars) (rest : list N),
        name_ok n = true -> lex_string (print_string n ++ rest) = Some (n, rest).
Proof. exact @string_print_lex. Qed.

Theorem C14_string_lex_closed :
  forall t n rest : chars,
        lex_string t = Some (n, rest) -> name_ok n = true /\ t = print_string n ++ rest.
Proof. exact @string_lex_closed. Qed.

Theorem C14_word_print_lex :
  forall (w : list N) (rest : chars),
        w <> [] ->
        forallb is_letter w = true -> headless is_letter rest -> lex_word (w ++ rest) = Some (w, rest).
Proof. exact @word_print_lex. Qed.

Theorem C14_number_fixed_lex :
  forall (neg : bool) (ip fp : list N) (rest : chars),
        ip <> [] ->
        all_digits ip = true ->
        fp <> [] ->
        all_digits fp = true ->
        stops rest -> lex_num (repr_fixed neg ip fp ++ rest) = Some (repr_fixed neg ip fp, rest).
Proof. exact @num_fixed_lex. Qed.

Theorem C14_number_sci_lex :
  forall (neg : bool) (d : N) (fp : chars) (eneg : bool) (ed : list N) (rest : chars),
        is_digit d = true ->
        all_digits fp = true ->
        ed <> [] ->
        all_digits ed = true ->
        stops rest -> lex_num (repr_sci neg d fp eneg ed ++ rest) = Some (repr_sci neg d fp eneg ed, rest).
Proof. exact @num_sci_lex. Qed.

Theorem C14_header_split_lines :
  forall (first : chars) (hs : list chars) (s : chars) (bs : list chars),
        forallb (fun l : chars => negb (is_sep_line l)) hs = true ->
        forallb (fun l : chars => negb (is_sep_line l)) bs = true ->
        is_sep_line s = true ->
        lark_header first (hs ++ s :: bs) = Some (hs, s, bs) /\
        api_header first (hs ++ s :: bs) = Some (hs, s, bs).
Proof. exact @header_split_lines. Qed.

Theorem C14_grammar_is_modelled :
  DslGrammar.rules = model_rules /\
        DslGrammar.terminals = model_terminals /\
        DslGrammar.imports = model_imports /\
        DslGrammar.ignores = model_ignores /\ DslGrammar.starts = model_starts.
Proof. exact @grammar_is_modelled. Qed.

Theorem C14_transformer_is_modelled :
  DslGrammar.transform = model_transform /\
        DslGrammar.op_kinds = model_op_kinds /\
        DslGrammar.entries = model_entries /\ kinds_follow_rules DslGrammar.rules DslGrammar.op_kinds = true.
Proof. exact @transformer_is_modelled. Qed.

Theorem C14_printer_is_templates :
  map (fun k : String.string * (list field * (bool * bool) * template) => snd (snd k))
          DslGrammar.op_kinds = [tmpl_full; tmpl_time; tmpl_skill] /\
        (forall (c n : text) (t : num), print_op (Full c n t) = [TW c; TSp; TS n; TSp] ++ print_num t) /\
        (forall (c : text) (t : num), print_op (TimeOp c t) = [TW c; TSp] ++ print_num t) /\
        (forall c n : text, print_op (SkillOp c n) = [TW c; TSp; TS n]).
Proof. exact @printer_is_templates. Qed.

Theorem C14_words_and_strategy :
  forallb word_ok DslGrammar.command_words = true /\
        forallb (strategy_ok DslGrammar.command_words) DslGrammar.strategy_templates = true /\
        DslGrammar.strategy_templates <> [].
Proof. exact @words_and_strategy. Qed.

Theorem C14_api_is_modelled :
  forallb (text_eqb model_api_separator) DslGrammar.api_separators = true /\
        DslGrammar.api_separators <> [] /\
        forallb (list_eqb rpart_eqb model_api_render) DslGrammar.api_renders = true /\
        DslGrammar.api_renders <> [].
Proof. exact @api_is_modelled. Qed.

Print Assumptions C14_parse_print.
Print Assumptions C14_parse_ops_print.
Print Assumptions C14_parse_print_refuted.
Print Assumptions C14_parse_print_nonfinite.
Print Assumptions C14_multiplier_replicates.
Print Assumptions C14_multiplier_replicates_nat.
Print Assumptions C14_multiplier_nonpositive.
Print Assumptions C14_gap_grammar_layout.
Print Assumptions C14_layout_invariance.
Print Assumptions C14_ignorable_invariance_partial.
Print Assumptions C14_ignorable_same_as_canonical.
Print Assumptions C14_ignorable_invariance_refuted.
Print Assumptions C14_trailing_line_rejected.
Print Assumptions C14_header_body_split.
Print Assumptions C14_no_header_split.
Print Assumptions C14_string_print_lex.
Print Assumptions C14_string_lex_closed.
Print Assumptions C14_word_print_lex.
Print Assumptions C14_number_fixed_lex.
Print Assumptions C14_number_sci_lex.
Print Assumptions C14_header_split_lines.
Print Assumptions C14_grammar_is_modelled.
Print Assumptions C14_transformer_is_modelled.
Print Assumptions C14_printer_is_templates.
Print Assumptions C14_words_and_strategy.
Print Assumptions C14_api_is_modelled.
