(* C01 at the store level.  The engine theorems of Props/C01.v assume `restore (save s) = s` for an abstract store.  Here the store
   is the concrete one of simulate/base.py -- an insertion-ordered dict address -> entity (Model/Dispatch.v `store`), saved entity by
   entity (class name + model_dump) and restored entity by entity (class lookup + model_validate) -- and that hypothesis is DERIVED
   from the round trip of a single entity:
     C01_store_roundtrip            parse (dump e) = e for every entity  ->  restore_store (save_store s) = s for every store;
     C01_store_roundtrip_only_if    the converse (the entity-level hypothesis is exactly what is needed, not more);
     C01_store_keys_survive         addresses and their order survive save and restore (independently of the entities);
     C01_lossy_entity_breaks_store  one entity that does not round-trip breaks the round trip of every store that holds it
                                    (what a rounding checkpoint serialiser does -- seeded change C01c);
     C01_resume_concrete_store      C01_resume_fresh_engine instantiated with that store: for every play function over the concrete
                                    store, every plan and cut, under the ENTITY-level round trip only.
   Tested, not proved: `parse (dump e) = e` itself (pydantic's model_dump / model_validate on the entity classes), exercised on
   every recorded checkpoint by the C01 harness (transport fix-point on live objects, in memory and through JSON). *)
From Coq Require Import List String.
From V.Model Require Import Engine Dispatch.
From V.Proofs Require Import StoreRoundtrip.

Theorem C01_store_roundtrip :
  forall (Ent D : Type) (dump : Ent -> D) (parse : D -> Ent),
    (forall e : Ent, parse (dump e) = e) ->
    forall s : store Ent, restore_store Ent D parse (save_store Ent D dump s) = s.
Proof. exact @restore_save. Qed.

Theorem C01_store_roundtrip_only_if :
  forall (Ent D : Type) (dump : Ent -> D) (parse : D -> Ent),
    (forall s : store Ent, restore_store Ent D parse (save_store Ent D dump s) = s) ->
    forall e : Ent, parse (dump e) = e.
Proof. exact @restore_save_only_if. Qed.

Theorem C01_store_keys_survive :
  forall (Ent D : Type) (dump : Ent -> D) (parse : D -> Ent) (s : store Ent),
    map fst (restore_store Ent D parse (save_store Ent D dump s)) = map fst s.
Proof. exact @keys_survive. Qed.

Theorem C01_lossy_entity_breaks_store :
  forall (Ent D : Type) (dump : Ent -> D) (parse : D -> Ent) (k : string) (e : Ent) (s : store Ent),
    parse (dump e) <> e ->
    restore_store Ent D parse (save_store Ent D dump ((k, e) :: s)) <> (k, e) :: s.
Proof. exact @lossy_entity_breaks. Qed.

Theorem C01_resume_concrete_store :
  forall (Ent D Ev Act H T Dv Name : Type) (dump : Ent -> D) (parse : D -> Ent),
    (forall e : Ent, parse (dump e) = e) ->
    forall (play : store Ent -> Act -> store Ent * list Ev)
      (clock : store Ent -> T) (inspect : Name -> store Ent -> Dv)
      (mk_act : Name -> meth -> option T -> Act) (star : Name) (ev_name : Ev -> Name)
      (ev_delay : Ev -> option T) (name_eqb : Name -> Name -> bool)
      (tzero : T) (tpos tis0 : T -> bool) (H0 : H)
      (hashf : H -> cmd T Name -> list (T * Act * list Ev) -> H)
      (init : oplog Ev Act (list (string * D)) H T Dv Name) (cs : list (cmd T Name)) (k : nat)
      (e_full : eng (store Ent) Ev Act (list (string * D)) H T Dv Name),
    last_plog Ev Act (list (string * D)) H T Dv Name (init :: nil) <> None ->
    run (store Ent) Ev Act (list (string * D)) H T Dv Name play (save_store Ent D dump) (restore_store Ent D parse)
      clock inspect mk_act star ev_name ev_delay name_eqb tzero tpos tis0 H0 hashf
      (of_logs (store Ent) Ev Act (list (string * D)) H T Dv Name (init :: nil)) cs = Some e_full ->
    exists e_cut e_res : eng (store Ent) Ev Act (list (string * D)) H T Dv Name,
      run (store Ent) Ev Act (list (string * D)) H T Dv Name play (save_store Ent D dump) (restore_store Ent D parse)
        clock inspect mk_act star ev_name ev_delay name_eqb tzero tpos tis0 H0 hashf
        (of_logs (store Ent) Ev Act (list (string * D)) H T Dv Name (init :: nil)) (List.firstn k cs) = Some e_cut /\
      run (store Ent) Ev Act (list (string * D)) H T Dv Name play (save_store Ent D dump) (restore_store Ent D parse)
        clock inspect mk_act star ev_name ev_delay name_eqb tzero tpos tis0 H0 hashf
        (reload (store Ent) Ev Act (list (string * D)) H T Dv Name
           (logs (store Ent) Ev Act (list (string * D)) H T Dv Name e_cut)) (List.skipn k cs) = Some e_res /\
      logs (store Ent) Ev Act (list (string * D)) H T Dv Name e_res = logs (store Ent) Ev Act (list (string * D)) H T Dv Name e_full /\
      sim (store Ent) Ev Act (list (string * D)) H T Dv Name (restore_store Ent D parse) e_res e_full.
Proof. exact @resume_concrete_store. Qed.

Print Assumptions C01_store_roundtrip.
Print Assumptions C01_store_roundtrip_only_if.
Print Assumptions C01_store_keys_survive.
Print Assumptions C01_lossy_entity_breaks_store.
Print Assumptions C01_resume_concrete_store.
