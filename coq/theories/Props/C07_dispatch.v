(* C07 at the dispatch / store level (Model/Dispatch.v = simulate/base.py stores, message_signature, TandemDispatcher; component/base.py StoreAdapter and ReducerMethodWrappingDispatcher; timer.py; composed with Model/Router.v and Model/Play.v, which are reused unchanged).  For ALL entity and payload types, components (names, mapping keys, default states, binds, addons), reducers (arbitrary partial functions of payload and state), stores, route caches and nesting depths.  C07_write_frame: one call of a component dispatcher changes the store at no address outside the resolved bound names of that component (default-state names, binds, the global dynamics bind), removes nothing, and only appends to the ghost invocation trace.  C07_present_set_unchanged: if all bound addresses are present beforehand the set of present addresses is unchanged.  C07_store_unchanged: if the reducer answers (its input state, one event tagged REJECT) -- what C07_reject_alone proves of every modelled class -- and all bound addresses are present, the store after the dispatch is extensionally the store before, and the returned events are exactly that one event (name, payload, handler kept; method = the mapped method name; tag REJECT), no ACCEPT.  C07_store_unchanged_needs_present: the presence guard is necessary -- read_entity with a default is dict.setdefault, so a rejected dispatch on a store lacking a defaulted entity creates it (witness).  C07_accept_rule / C07_reject_not_accepted / C07_silent_answer_accepted: ACCEPT is appended exactly when no raw event is tagged REJECT or ACCEPT; in particular a silent answer (no events, the ignore_rejected style) IS acknowledged -- as the code behaves.  C07_timer_write_frame: the timer writes only global.time.  C07_router_write_frame (any route cache, coherent or not): a router dispatch changes nothing outside the bound addresses of the installed components and the clock address.  C07_router_write_frame_fine (coherent cache; the empty cache is coherent and dispatch keeps coherence, C02): only the addresses touched statically from the signature: bound addresses of the dispatchers that include it, transitively through the addons that fire on it, the clock for *.elapse.  C07_play_write_frame: a whole play changes only the union over its queue.  Hypotheses that stay tested: the shipped reducers answer (input state, reject) -- proved per class in C07.v / C07_<ext>.v for the models of Model/Comp.v, Spec*.v; the tie of Model/Dispatch.v to the code is the H-dispatch correspondence (tools/lib/h_dispatch.py).  INSTALLED DISPATCHER AND ROUTER (Proofs/DispatchNoop.v).  C07_rejected_base_skips_addons: TandemDispatcher returns a base answer containing an event tagged REJECT as it is (repair of the audit finding on addons; Model/Router.v is_reject): if the component's own answer contains a reject, the installed dispatcher (component + addons) returns exactly that answer and the store the component left, relative to any router, i.e. at any nesting depth; C07_rejected_installed_dispatcher_noop: with C07_store_unchanged, one tagged reject, no ACCEPT, no addon event, store extensionally unchanged; C07_rejected_addons_example replays the audit witness (attack A with addon -> buff B: use A, elapse, use A while cooling down: [A reject] alone, B untouched).  C07_router_rejected_is_noop (true part at ROUTER level): a system with raw_action_listeners cs = [] (Model/DispatchReviewed.v: no listening key is matched by the raw signature <owner>.<method> of another component), distinct names, coherent route cache; the player's action goes to the owner's default key, the owner's reducer answers (input state, [reject]) with all its bound addresses present: the router (components, then the timer) answers with exactly that one tagged reject, the store is extensionally unchanged and the only reducer invoked is the owner's.  C07_router_rejected_refuted: with a raw-action listener this FAILS at router level although every component obeys the component law (reject alone, state unchanged): the router's answer to a rejected X.use contains the listener's damage and its stack is consumed (known finding C07-raw-action-listeners: archmagefb 포이즌 노바 / 플레임 스윕 VI / 포이즌 미스트, adele 크리에이션; the shipped occurrences are the REVIEWED list of Model/DispatchReviewed.v and gen/DispatchData.v proves by vm_compute that the raw-action listeners of every shipped system are inside it, and that the other systems have none -- the premise of the true part). *)
From Coq Require Import List String ZArith. From V.Model Require Import Router Play Engine Dispatch DispatchViews DispatchReviewed. From V.Proofs Require Import DispatchStore DispatchRouter DispatchPlay DispatchExamples DispatchNoop DispatchNoopExamples.

Theorem C07_write_frame :
  forall (Ent Pay : Type) (empty_pay : Pay) (c : component Ent Pay) (a : action Pay) 
          (st : store Ent) (tr : list (invocation Pay)) (st' : store Ent) (tr' : list (invocation Pay))
          (evs : list (event Pay)),
        call_comp Ent Pay empty_pay c a (st, tr) = Some (st', tr', evs) ->
        agree_outside Ent (bound_addrs Ent Pay c) st st' /\
        pres_le Ent st st' /\ (exists l : list (invocation Pay), tr' = tr ++ l).
Proof. exact @call_comp_frame. Qed.

Theorem C07_present_set_unchanged :
  forall (Ent Pay : Type) (empty_pay : Pay) (c : component Ent Pay) (a : action Pay) 
          (st : store Ent) (tr : list (invocation Pay)) (st' : store Ent) (tr' : list (invocation Pay))
          (evs : list (event Pay)),
        call_comp Ent Pay empty_pay c a (st, tr) = Some (st', tr', evs) ->
        (forall x : string, In x (bound_addrs Ent Pay c) -> present Ent st x) ->
        forall x : string, present Ent st' x <-> present Ent st x.
Proof. exact @call_comp_present. Qed.

Theorem C07_store_unchanged :
  forall (Ent Pay : Type) (empty_pay : Pay) (c : component Ent Pay) (a : action Pay) 
          (st : store Ent) (tr : list (invocation Pay)) (key : string) (red : reducer Ent Pay)
          (method : string) (st1 : store Ent) (fs : fields Ent) (me : maybe_events Pay) 
          (e : event Pay),
        find_mapping Ent Pay c (sig_of a) = FFound key ->
        key <> ""%string ->
        dget (c_maps c) key = Some {| m_method := Some method; m_red := Some red |} ->
        (forall x : string, In x (bound_addrs Ent Pay c) -> present Ent st x) ->
        get_state Ent Pay c st = Some (st1, fs) ->
        red (a_pay a) fs = Some (fs, me) ->
        regularize Pay me = e :: nil ->
        ev_tag e = Some REJECT ->
        exists st' : store Ent,
          call_comp Ent Pay empty_pay c a (st, tr) =
          Some
            (st',
             tr ++
             {|
               i_comp := c_name c; i_key := key; i_method := method; i_pay := a_pay a; i_addon := a_addon a
             |} :: nil,
             {|
               ev_name := ev_name e;
               ev_pay := ev_pay e;
               ev_method := method;
               ev_tag := Some REJECT;
               ev_handler := ev_handler e
             |} :: nil) /\ ext_eq Ent st st'.
Proof. exact @store_unchanged_on_reject. Qed.

Theorem C07_accept_rule :
  forall (Pay : Type) (empty_pay : Pay) (name method : string) (raw : list (event Pay)),
        (forallb (fun e : event Pay => negb (is_rej_acc Pay e)) raw = true ->
         tag_events Pay empty_pay name method raw =
         map (tag_event Pay method) raw ++ accept_event Pay empty_pay name method :: nil) /\
        (forallb (fun e : event Pay => negb (is_rej_acc Pay e)) raw = false ->
         tag_events Pay empty_pay name method raw = map (tag_event Pay method) raw).
Proof. exact @accept_rule. Qed.

Theorem C07_silent_answer_accepted :
  forall (Pay : Type) (empty_pay : Pay) (name method : string),
        tag_events Pay empty_pay name method nil = accept_event Pay empty_pay name method :: nil.
Proof. exact @silent_answer_accepted. Qed.

Theorem C07_reject_not_accepted :
  forall (Pay : Type) (empty_pay : Pay) (name method : string) (raw : list (event Pay)),
        existsb
          (fun e : event Pay => match ev_tag e with
                                | Some t => (t =? REJECT)%string
                                | None => false
                                end) raw = true ->
        tag_events Pay empty_pay name method raw = map (tag_event Pay method) raw.
Proof. exact @reject_not_accepted. Qed.

Theorem C07_tag_event_fields :
  forall (Pay : Type) (method : string) (e : event Pay),
        let e' := tag_event Pay method e in
        ev_name e' = ev_name e /\
        ev_pay e' = ev_pay e /\
        ev_handler e' = ev_handler e /\
        ev_method e' = method /\
        ev_tag e' = Some match ev_tag e with
                         | Some (String c r) => String c r
                         | _ => method
                         end.
Proof. exact @tag_event_fields. Qed.

Theorem C07_timer_write_frame :
  forall (Ent Pay : Type) (clock0 : Ent) (spent : Ent -> Pay -> option Ent) 
          (a : action Pay) (st : store Ent) (tr : list (invocation Pay)) (s' : rst Ent Pay)
          (evs : list (event Pay)),
        timer_call Ent Pay clock0 spent a (st, tr) = Some (s', evs) ->
        evs = nil /\
        snd s' = tr /\
        agree_outside Ent (clock_addr :: nil) st (fst s') /\
        pres_le Ent st (fst s') /\
        (if (negb (a_method a =? "elapse")%string && negb (a_name a =? "*")%string)%bool
         then s' = (st, tr)
         else
          exists ck' : Ent,
            spent (clock_in Ent clock0 (dget st clock_addr)) (a_pay a) = Some ck' /\
            dget (fst s') clock_addr = Some ck').
Proof. exact @timer_call_spec. Qed.

Theorem C07_router_write_frame :
  forall (Ent Pay : Type) (empty_pay : Pay) (clock0 : Ent) (spent : Ent -> Pay -> option Ent)
          (sys : list (inst Ent Pay)) (fuel : nat) (c : Router.cache string) (a : action Pay)
          (s : rst Ent Pay) (c' : Router.cache string) (s' : rst Ent Pay) (evs : list (event Pay)),
        dispatch_c Ent Pay fuel (installed Ent Pay empty_pay clock0 spent sys) c a s = (c', Some (s', evs)) ->
        agree_outside Ent (sys_addrs Ent Pay sys) (fst s) (fst s') /\ pres_le Ent (fst s) (fst s').
Proof. exact @router_frame_coarse. Qed.

Theorem C07_router_write_frame_fine :
  forall (Ent Pay : Type) (empty_pay : Pay) (clock0 : Ent) (spent : Ent -> Pay -> option Ent)
          (sys : list (inst Ent Pay)) (fuel : nat) (c : Router.cache string) (a : action Pay)
          (s : rst Ent Pay) (c' : Router.cache string) (s' : rst Ent Pay) (evs : list (event Pay)),
        Router.Coh string (action Pay) (rst Ent Pay) (event Pay) eqb
          (installed Ent Pay empty_pay clock0 spent sys) c ->
        dispatch_c Ent Pay fuel (installed Ent Pay empty_pay clock0 spent sys) c a s = (c', Some (s', evs)) ->
        Router.Coh string (action Pay) (rst Ent Pay) (event Pay) eqb
          (installed Ent Pay empty_pay clock0 spent sys) c' /\
        agree_outside Ent (touched Ent Pay fuel sys (sig_of a)) (fst s) (fst s').
Proof. exact @router_frame_fine. Qed.

Theorem C07_play_write_frame :
  forall (Ent Pay : Type) (empty_pay : Pay) (clock0 : Ent) (spent : Ent -> Pay -> option Ent)
          (pnone : Pay) (ptime : Z -> Pay) (sys : list (inst Ent Pay)) (fuel : nat)
          (st : Play.store (pst Ent Pay) Pay string string (option string))
          (a : Play.action Pay string string (option string)),
        wf Ent Pay empty_pay clock0 spent sys (ent (pst Ent Pay) Pay string string (option string) st) ->
        let
        '(st1, _, q) := pplay Ent Pay pnone ptime fuel (installed Ent Pay empty_pay clock0 spent sys) st a in
         p_ok (ent (pst Ent Pay) Pay string string (option string) st1) = true ->
         agree_outside Ent
           (flat_map
              (fun x : Play.action Pay string string (option string) =>
               touched Ent Pay fuel sys (sig_of (act_of Pay pnone ptime x))) q)
           (p_store (ent (pst Ent Pay) Pay string string (option string) st))
           (p_store (ent (pst Ent Pay) Pay string string (option string) st1)).
Proof. exact @play_frame. Qed.

Theorem C07_store_unchanged_needs_present :
  exists (st' : store Ent) (tr' : list (invocation Pay)) (e : ev),
          call_comp Ent Pay 0%Z rcomp (A "r" "use" 0%Z) (st_missing, nil) = Some (st', tr', e :: nil) /\
          ev_tag e = Some REJECT /\ dget st_missing ".r.cooldown" = None /\ dget st' ".r.cooldown" = Some 9%Z.
Proof. exact @reject_creates_missing_default. Qed.

Theorem C07_dispatch_nonvacuous :
  run (A "atk" "use" 0%Z) st_cd =
        Some
          (st_cd,
           {| i_comp := "atk"; i_key := "atk.use"; i_method := "use"; i_pay := 0%Z; i_addon := false |} :: nil,
           {|
             ev_name := "atk"; ev_pay := 0%Z; ev_method := "use"; ev_tag := Some REJECT; ev_handler := None
           |} :: nil).
Proof. exact @rejected_use. Qed.

Theorem C07_dispatch_theorem_applies :
  exists st' : store Ent,
          call_comp Ent Pay 0%Z atk (A "atk" "use" 0%Z) (st_cd, nil) =
          Some
            (st',
             {| i_comp := "atk"; i_key := "atk.use"; i_method := "use"; i_pay := 0%Z; i_addon := false |}
             :: nil,
             {|
               ev_name := "atk"; ev_pay := 0%Z; ev_method := "use"; ev_tag := Some REJECT; ev_handler := None
             |} :: nil) /\ ext_eq Ent st_cd st'.
Proof. exact @rejected_use_by_theorem. Qed.

Theorem C07_accepted_use_example :
  run (A "atk" "use" 0%Z) st0 =
        Some
          (("global.dynamics"%string, 100%Z)
           :: ("global.time"%string, 0%Z)
              :: (".atk.cooldown"%string, 5%Z) :: (".buff.stack"%string, 0%Z) :: nil,
           {| i_comp := "atk"; i_key := "atk.use"; i_method := "use"; i_pay := 0%Z; i_addon := false |} :: nil,
           {|
             ev_name := "atk";
             ev_pay := 40%Z;
             ev_method := "use";
             ev_tag := Some "global.damage"%string;
             ev_handler := None
           |}
           :: {|
                ev_name := "atk";
                ev_pay := 3%Z;
                ev_method := "use";
                ev_tag := Some "global.delay"%string;
                ev_handler := None
              |}
              :: {|
                   ev_name := "atk";
                   ev_pay := 0%Z;
                   ev_method := "use";
                   ev_tag := Some ACCEPT;
                   ev_handler := None
                 |} :: nil).
Proof. exact @accepted_use. Qed.

Theorem C07_rejected_base_skips_addons :
  forall (Ent Pay : Type) (empty_pay : Pay) (X : Type)
          (rt : X -> action Pay -> rst Ent Pay -> X * result (rst Ent Pay) (event Pay))
          (c : component Ent Pay) (x : X) (a : action Pay) (s s1 : rst Ent Pay) (ev1 : list (event Pay)),
        call_comp Ent Pay empty_pay c a s = Some (s1, ev1) ->
        existsb ev_is_reject ev1 = true ->
        call_d string (action Pay) (rst Ent Pay) (event Pay) eqb sig_of ev_is_reject X rt
          (comp_disp Ent Pay empty_pay c) x a s = (x, Some (s1, ev1)).
Proof. exact @rejected_base_skips_addons. Qed.

Theorem C07_rejected_installed_dispatcher_noop :
  forall (Ent Pay : Type) (empty_pay : Pay) (X : Type)
          (rt : X -> action Pay -> rst Ent Pay -> X * result (rst Ent Pay) (event Pay))
          (c : component Ent Pay) (x : X) (a : action Pay) (st : store Ent) (tr : list (invocation Pay))
          (key : string) (red : reducer Ent Pay) (method : string) (st1 : store Ent) 
          (fs : fields Ent) (me : maybe_events Pay) (e : event Pay),
        find_mapping Ent Pay c (sig_of a) = FFound key ->
        key <> ""%string ->
        dget (c_maps c) key = Some {| m_method := Some method; m_red := Some red |} ->
        (forall y : string, In y (bound_addrs Ent Pay c) -> present Ent st y) ->
        get_state Ent Pay c st = Some (st1, fs) ->
        red (a_pay a) fs = Some (fs, me) ->
        regularize Pay me = e :: nil ->
        ev_tag e = Some REJECT ->
        exists st' : store Ent,
          call_d string (action Pay) (rst Ent Pay) (event Pay) eqb sig_of ev_is_reject X rt
            (comp_disp Ent Pay empty_pay c) x a (st, tr) =
          (x,
           Some
             (st',
              tr ++
              {|
                i_comp := c_name c; i_key := key; i_method := method; i_pay := a_pay a; i_addon := a_addon a
              |} :: nil,
              {|
                ev_name := ev_name e;
                ev_pay := ev_pay e;
                ev_method := method;
                ev_tag := Some REJECT;
                ev_handler := ev_handler e
              |} :: nil)) /\ ext_eq Ent st st'.
Proof. exact @rejected_installed_dispatcher_noop. Qed.

Theorem C07_rejected_addons_example :
  t_run =
        Some
          ({|
             ev_name := "A";
             ev_pay := 40%Z;
             ev_method := "use";
             ev_tag := Some "global.damage"%string;
             ev_handler := None
           |}
           :: {|
                ev_name := "A"; ev_pay := 0%Z; ev_method := "use"; ev_tag := Some ACCEPT; ev_handler := None
              |}
              :: {|
                   ev_name := "B";
                   ev_pay := 0%Z;
                   ev_method := "use";
                   ev_tag := Some "global.delay"%string;
                   ev_handler := None
                 |}
                 :: {|
                      ev_name := "B";
                      ev_pay := 0%Z;
                      ev_method := "use";
                      ev_tag := Some ACCEPT;
                      ev_handler := None
                    |} :: nil,
           {| ev_name := "A"; ev_pay := 0%Z; ev_method := "use"; ev_tag := Some REJECT; ev_handler := None |}
           :: nil,
           ("global.dynamics"%string, 100%Z)
           :: ("global.time"%string, 2%Z) :: (".A.cooldown"%string, 3%Z) :: (".B.lasting"%string, 8%Z) :: nil,
           ("global.dynamics"%string, 100%Z)
           :: ("global.time"%string, 2%Z) :: (".A.cooldown"%string, 3%Z) :: (".B.lasting"%string, 8%Z) :: nil,
           {| i_comp := "A"; i_key := "A.use"; i_method := "use"; i_pay := 0%Z; i_addon := false |} :: nil).
Proof. exact @rejected_use_does_not_run_addons. Qed.

Theorem C07_router_rejected_is_noop :
  forall (Ent Pay : Type) (empty_pay : Pay) (clock0 : Ent) (spent : Ent -> Pay -> option Ent)
          (cs : list (component Ent Pay)) (c : component Ent Pay) (n : nat) (cache : Router.cache string)
          (a : action Pay) (st : store Ent) (tr : list (invocation Pay)) (key method : string)
          (red : reducer Ent Pay) (st1 : store Ent) (fs : fields Ent) (me : maybe_events Pay) 
          (e : event Pay),
        names_distinct Ent Pay cs = true ->
        no_raw_listeners Ent Pay cs = true ->
        In c cs ->
        Router.Coh string (action Pay) (rst Ent Pay) (event Pay) eqb
          (installed Ent Pay empty_pay clock0 spent (shipped_system Ent Pay cs)) cache ->
        sig_of a = key ->
        key = (c_name c ++ "." ++ method)%string ->
        key <> "*.elapse"%string ->
        dget (c_maps c) key = Some {| m_method := Some method; m_red := Some red |} ->
        (forall y : string, In y (bound_addrs Ent Pay c) -> present Ent st y) ->
        get_state Ent Pay c st = Some (st1, fs) ->
        red (a_pay a) fs = Some (fs, me) ->
        regularize Pay me = e :: nil ->
        ev_tag e = Some REJECT ->
        exists (st' : store Ent) (cache' : Router.cache string),
          dispatch_c Ent Pay (S n) (installed Ent Pay empty_pay clock0 spent (shipped_system Ent Pay cs))
            cache a (st, tr) =
          (cache',
           Some
             (st',
              tr ++
              {|
                i_comp := c_name c; i_key := key; i_method := method; i_pay := a_pay a; i_addon := a_addon a
              |} :: nil,
              {|
                ev_name := ev_name e;
                ev_pay := ev_pay e;
                ev_method := method;
                ev_tag := Some REJECT;
                ev_handler := ev_handler e
              |} :: nil)) /\
          ext_eq Ent st st' /\
          Router.Coh string (action Pay) (rst Ent Pay) (event Pay) eqb
            (installed Ent Pay empty_pay clock0 spent (shipped_system Ent Pay cs)) cache'.
Proof. exact @router_rejected_is_noop. Qed.

Theorem C07_router_rejected_refuted :
  exists (cs : list (component Ent Pay)) (st : store Ent),
          (forall (c : component Ent Pay) (key m : string) (red : reducer Ent Pay),
           In c cs ->
           dget (c_maps c) key = Some {| m_method := Some m; m_red := Some red |} -> reject_alone red) /\
          names_distinct Ent Pay cs = true /\
          binds_closed Ent Pay cs = true /\
          (forall c : component Ent Pay,
           In c cs -> forall x : string, In x (bound_addrs Ent Pay c) -> present Ent st x) /\
          raw_action_listeners Ent Pay cs = ("L"%string, "X.use"%string, "X"%string) :: nil /\
          call_comp Ent Pay 0%Z r_X (A "X" "use" 0%Z) (st, nil) =
          Some
            (st,
             {| i_comp := "X"; i_key := "X.use"; i_method := "use"; i_pay := 0%Z; i_addon := false |} :: nil,
             {|
               ev_name := "X"; ev_pay := 0%Z; ev_method := "use"; ev_tag := Some REJECT; ev_handler := None
             |} :: nil) /\
          snd
            (dispatch_c Ent Pay 5 (installed Ent Pay 0%Z 0%Z xspent (shipped_system Ent Pay cs)) nil
               (A "X" "use" 0%Z) (st, nil)) =
          Some
            (("global.dynamics"%string, 100%Z)
             :: ("global.time"%string, 0%Z) :: (".X.cooldown"%string, 5%Z) :: (".L.stack"%string, 2%Z) :: nil,
             {| i_comp := "X"; i_key := "X.use"; i_method := "use"; i_pay := 0%Z; i_addon := false |}
             :: {| i_comp := "L"; i_key := "X.use"; i_method := "burst"; i_pay := 0%Z; i_addon := false |}
                :: nil,
             {|
               ev_name := "X"; ev_pay := 0%Z; ev_method := "use"; ev_tag := Some REJECT; ev_handler := None
             |}
             :: {|
                  ev_name := "L";
                  ev_pay := 7%Z;
                  ev_method := "burst";
                  ev_tag := Some "global.damage"%string;
                  ev_handler := None
                |}
                :: {|
                     ev_name := "L";
                     ev_pay := 0%Z;
                     ev_method := "burst";
                     ev_tag := Some ACCEPT;
                     ev_handler := None
                   |} :: nil).
Proof. exact @router_rejected_refuted. Qed.

Theorem C07_router_noop_without_listener_example :
  no_raw_listeners Ent Pay (r_X :: r_Y :: nil) = true /\
        snd
          (dispatch_c Ent Pay 5
             (installed Ent Pay 0%Z 0%Z xspent (shipped_system Ent Pay (r_X :: r_Y :: nil))) nil
             (A "X" "use" 0%Z)
             (("global.dynamics"%string, 100%Z)
              :: ("global.time"%string, 0%Z) :: (".X.cooldown"%string, 5%Z) :: nil, nil)) =
        Some
          (("global.dynamics"%string, 100%Z)
           :: ("global.time"%string, 0%Z) :: (".X.cooldown"%string, 5%Z) :: nil,
           {| i_comp := "X"; i_key := "X.use"; i_method := "use"; i_pay := 0%Z; i_addon := false |} :: nil,
           {| ev_name := "X"; ev_pay := 0%Z; ev_method := "use"; ev_tag := Some REJECT; ev_handler := None |}
           :: nil).
Proof. exact @router_noop_without_listener. Qed.

Print Assumptions C07_write_frame.
Print Assumptions C07_present_set_unchanged.
Print Assumptions C07_store_unchanged.
Print Assumptions C07_accept_rule.
Print Assumptions C07_silent_answer_accepted.
Print Assumptions C07_reject_not_accepted.
Print Assumptions C07_tag_event_fields.
Print Assumptions C07_timer_write_frame.
Print Assumptions C07_router_write_frame.
Print Assumptions C07_router_write_frame_fine.
Print Assumptions C07_play_write_frame.
Print Assumptions C07_store_unchanged_needs_present.
Print Assumptions C07_dispatch_nonvacuous.
Print Assumptions C07_dispatch_theorem_applies.
Print Assumptions C07_accepted_use_example.
Print Assumptions C07_rejected_base_skips_addons.
Print Assumptions C07_rejected_installed_dispatcher_noop.
Print Assumptions C07_rejected_addons_example.
Print Assumptions C07_router_rejected_is_noop.
Print Assumptions C07_router_rejected_refuted.
Print Assumptions C07_router_noop_without_listener_example.
