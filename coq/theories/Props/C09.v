(* C09  Letting time pass in one step or in several gives the same ticks and status.  Times are integer ticks (exactly representable times; DESIGN section 3).  Entity level (faithful models of component/entity.py and common/mob.py, Model/E*.v): C09_periodic / C09_consumable / C09_keydown / C09_dot: for every well-formed entity state and all a, b >= 0, elapsing a then b equals elapsing a+b: same tick counts, same state (Periodic: up to the interval counter of an expired schedule, which no operation reads: C09_periodic_obs_sound).  Component level (Model/Comp.v, reduce_spec = the reducers of the stateful classes of component/common): C09_elapse_chunk: for every modelled class except HitLimitedPeriodicDamageComponent, the damage events of the two-step run are a permutation of those of the one-step run (same names, values, hits) and the final states agree up to dead interval counters; C09_elapse_chunk_views: hence validity, running, buff and keydown views agree.  C09_wf_invariant: well-formedness is preserved by every modelled reducer, so the theorem applies in every reachable state; C09_elapsed_carries_time: every elapsed notification carries the time of the elapse (C06's component clause).  Not proved here (correspondence and implementation-side search only): the hit-limited loop of HitLimitedPeriodicDamageComponent, the job-specific classes. *)
From Coq Require Import ZArith List Bool Permutation. From V.Model Require Import Comp. From V.Proofs Require EPeriodicP EConsumableP EKeydownP EDotP. From V.Proofs Require Import CompChunk.

Theorem C09_periodic :
  forall (s : EPeriodic.P) (a b : Z),
        EPeriodic.wf s ->
        0 <= a ->
        0 <= b ->
        EPeriodic.obs_eq (EPeriodic.elapse (EPeriodic.elapse s a) b) (EPeriodic.elapse s (a + b)).
Proof. exact @EPeriodicP.elapse_additive. Qed.

Theorem C09_periodic_obs_sound :
  forall (f : nat) (s1 s2 : EPeriodic.P) (t : Z),
        EPeriodic.wf s1 ->
        EPeriodic.wf s2 ->
        EPeriodic.obs_eq s1 s2 -> EPeriodic.obs_eq (EPeriodic.run f s1 t) (EPeriodic.run f s2 t).
Proof. exact @EPeriodicP.run_obs_eq. Qed.

Theorem C09_consumable :
  forall (c : EConsumable.C) (a b : Z),
        EConsumable.wf c ->
        0 <= a ->
        0 <= b -> EConsumable.elapse (EConsumable.elapse c a) b = EConsumable.elapse c (a + b).
Proof. exact @EConsumableP.elapse_additive. Qed.

Theorem C09_keydown :
  forall (s : EKeydown.K) (a b : Z),
        EKeydown.wf s ->
        0 <= a ->
        0 <= b ->
        let
        '(s1, k1) := EKeydown.resolving s a in
         let '(s2, k2) := EKeydown.resolving s1 b in EKeydown.resolving s (a + b) = (s2, k1 + k2).
Proof. exact @EKeydownP.resolving_additive. Qed.

Theorem C09_dot :
  forall (s : EDot.D) (a b : Z),
        EDot.wf s ->
        0 <= a ->
        0 <= b ->
        let
        '(s1, e1) := EDot.elapse s a in
         let '(s2, e2) := EDot.elapse s1 b in EDot.elapse s (a + b) = (s2, e1 ++ e2).
Proof. exact @EDotP.elapse_additive. Qed.

Theorem C09_elapse_chunk :
  forall (c : comp) (p : par) (a b : Z) (s s1 : ust) (e1 : list ev) 
          (s2 : ust) (e2 : list ev) (s3 : ust) (e3 : list ev),
        chunk_proved c = true ->
        wf_ust s ->
        0 <= a ->
        0 <= b ->
        reduce_spec c MElapse p a s = Some (s1, e1) ->
        reduce_spec c MElapse p b s1 = Some (s2, e2) ->
        reduce_spec c MElapse p (a + b) s = Some (s3, e3) ->
        unorm s2 = unorm s3 /\ Permutation (dealts (e1 ++ e2)) (dealts e3).
Proof. exact @elapse_chunk. Qed.

Theorem C09_elapse_chunk_views :
  forall (c : comp) (p : par) (a b : Z) (s s1 : ust) (e1 : list ev) 
          (s2 : ust) (e2 : list ev) (s3 : ust) (e3 : list ev),
        chunk_proved c = true ->
        wf_ust s ->
        0 <= a ->
        0 <= b ->
        reduce_spec c MElapse p a s = Some (s1, e1) ->
        reduce_spec c MElapse p b s1 = Some (s2, e2) ->
        reduce_spec c MElapse p (a + b) s = Some (s3, e3) ->
        view_validity c p s2 = view_validity c p s3 /\
        view_running c p s2 = view_running c p s3 /\
        view_buff c s2 = view_buff c s3 /\ view_keydown c s2 = view_keydown c s3.
Proof. exact @elapse_chunk_views. Qed.

Theorem C09_wf_invariant :
  forall (c : comp) (m : meth) (p : par) (t : Z) (s s' : ust) (es : list ev),
        chunk_proved c = true ->
        wf_ust s ->
        wf_par p s ->
        0 <= t ->
        reduce_spec c m p t s = Some (s', es) ->
        wf_ust s' /\ u_ic1 s' = u_ic1 s /\ u_ic2 s' = u_ic2 s /\ u_ic3 s' = u_ic3 s.
Proof. exact @wf_preserved. Qed.

Theorem C09_elapsed_carries_time :
  forall (c : comp) (p : par) (t : Z) (s s' : ust) (es : list ev),
        chunk_proved c = true ->
        reduce_spec c MElapse p t s = Some (s', es) -> elapsed_times es = t :: nil.
Proof. exact @elapsed_carries_time. Qed.

Print Assumptions C09_periodic.
Print Assumptions C09_periodic_obs_sound.
Print Assumptions C09_consumable.
Print Assumptions C09_keydown.
Print Assumptions C09_dot.
Print Assumptions C09_elapse_chunk.
Print Assumptions C09_elapse_chunk_views.
Print Assumptions C09_wf_invariant.
Print Assumptions C09_elapsed_carries_time.
