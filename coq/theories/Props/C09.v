(* C09  Letting time pass in one step or in several gives the same ticks and status.  Times are integer ticks (exactly representable times; DESIGN section 3).  Entity level (faithful models of component/entity.py and common/mob.py, Model/E*.v): C09_periodic / C09_consumable / C09_keydown / C09_dot: for every well-formed entity state and all a, b >= 0, elapsing a then b equals elapsing a+b: same tick counts, same state (Periodic: up to the interval counter of an expired schedule, which no operation reads: C09_periodic_obs_sound).  Component level (Model/Comp.v, reduce_spec = the reducers of the stateful classes of component/common): C09_elapse_chunk (15 classes) and C09_hitlimited_chunk (HitLimitedPeriodicDamageComponent, under the reachable-state invariant hl_inv: once the hit cap is reached the schedule is disabled; C09_hitlimited_invariant / _established: preserved by every reducer, established by an accepted use): the damage events of the two-step run are a permutation of those of the one-step run (same names, values, hits) and the final states agree up to dead interval counters; C09_elapse_chunk_views / C09_hitlimited_views: hence validity, running, buff and keydown views agree.  C09_wf_invariant / C09_hitlimited_wf: well-formedness is preserved by every modelled reducer, so the theorems apply in every reachable state; C09_elapsed_carries_time / C09_hitlimited_elapsed: every elapsed notification carries the time of the elapse (C06's component clause); C09_hitlimited_fuel: the capped loop of the specification never runs out of fuel.  Not modelled (implementation-side two-execution search only): the job-specific classes. *)
From Coq Require Import ZArith List Bool Permutation. From V.Model Require Import Comp. From V.Proofs Require EPeriodicP EConsumableP EKeydownP EDotP. From V.Proofs Require Import CompChunk CompChunkHL.

Theorem C09_periodic :
  forall (s : EPeriodic.P) (a b : Z),
        EPeriodic.wf s ->
        0 <= a ->
        0 <= b ->
        EPeriodic.obs_eq (EPeriodic.elapse (EPeriodic.elapse s a) b) (EPeriodic.elapse s (a + b)).
Proof. exact @EPeriodicP.elapse_additive. Qed.

Theorem C09_periodic_obs_sound :
  forall (f : nat) (s1 s2 : EPeriodic.P) (t : Z),
        EPeriodic.wf s1 ->
        EPeriodic.wf s2 ->
        EPeriodic.obs_eq s1 s2 -> EPeriodic.obs_eq (EPeriodic.run f s1 t) (EPeriodic.run f s2 t).
Proof. exact @EPeriodicP.run_obs_eq. Qed.

Theorem C09_consumable :
  forall (c : EConsumable.C) (a b : Z),
        EConsumable.wf c ->
        0 <= a ->
        0 <= b -> EConsumable.elapse (EConsumable.elapse c a) b = EConsumable.elapse c (a + b).
Proof. exact @EConsumableP.elapse_additive. Qed.

Theorem C09_keydown :
  forall (s : EKeydown.K) (a b : Z),
        EKeydown.wf s ->
        0 <= a ->
        0 <= b ->
        let
        '(s1, k1) := EKeydown.resolving s a in
         let '(s2, k2) := EKeydown.resolving s1 b in EKeydown.resolving s (a + b) = (s2, k1 + k2).
Proof. exact @EKeydownP.resolving_additive. Qed.

Theorem C09_dot :
  forall (s : EDot.D) (a b : Z),
        EDot.wf s ->
        0 <= a ->
        0 <= b ->
        let
        '(s1, e1) := EDot.elapse s a in
         let '(s2, e2) := EDot.elapse s1 b in EDot.elapse s (a + b) = (s2, e1 ++ e2).
Proof. exact @EDotP.elapse_additive. Qed.

Theorem C09_elapse_chunk :
  forall (c : comp) (p : par) (a b : Z) (s s1 : ust) (e1 : list ev) 
          (s2 : ust) (e2 : list ev) (s3 : ust) (e3 : list ev),
        chunk_proved c = true ->
        wf_ust s ->
        0 <= a ->
        0 <= b ->
        reduce_spec c MElapse p a s = Some (s1, e1) ->
        reduce_spec c MElapse p b s1 = Some (s2, e2) ->
        reduce_spec c MElapse p (a + b) s = Some (s3, e3) ->
        unorm s2 = unorm s3 /\ Permutation (dealts (e1 ++ e2)) (dealts e3).
Proof. exact @elapse_chunk. Qed.

Theorem C09_elapse_chunk_views :
  forall (c : comp) (p : par) (a b : Z) (s s1 : ust) (e1 : list ev) 
          (s2 : ust) (e2 : list ev) (s3 : ust) (e3 : list ev),
        chunk_proved c = true ->
        wf_ust s ->
        0 <= a ->
        0 <= b ->
        reduce_spec c MElapse p a s = Some (s1, e1) ->
        reduce_spec c MElapse p b s1 = Some (s2, e2) ->
        reduce_spec c MElapse p (a + b) s = Some (s3, e3) ->
        view_validity c p s2 = view_validity c p s3 /\
        view_running c p s2 = view_running c p s3 /\
        view_buff c s2 = view_buff c s3 /\ view_keydown c s2 = view_keydown c s3.
Proof. exact @elapse_chunk_views. Qed.

Theorem C09_wf_invariant :
  forall (c : comp) (m : meth) (p : par) (t : Z) (s s' : ust) (es : list ev),
        chunk_proved c = true ->
        wf_ust s ->
        wf_par p s ->
        0 <= t ->
        reduce_spec c m p t s = Some (s', es) ->
        wf_ust s' /\ u_ic1 s' = u_ic1 s /\ u_ic2 s' = u_ic2 s /\ u_ic3 s' = u_ic3 s.
Proof. exact @wf_preserved. Qed.

Theorem C09_elapsed_carries_time :
  forall (c : comp) (p : par) (t : Z) (s s' : ust) (es : list ev),
        chunk_proved c = true ->
        reduce_spec c MElapse p t s = Some (s', es) -> elapsed_times es = t :: nil.
Proof. exact @elapsed_carries_time. Qed.

Theorem C09_hitlimited_chunk :
  forall (p : par) (a b : Z) (s s1 : ust) (e1 : list ev) (s2 : ust) 
          (e2 : list ev) (s3 : ust) (e3 : list ev),
        wf_ust s ->
        hl_inv p s ->
        0 <= a ->
        0 <= b ->
        reduce_spec HitLimitedPeriodic MElapse p a s = Some (s1, e1) ->
        reduce_spec HitLimitedPeriodic MElapse p b s1 = Some (s2, e2) ->
        reduce_spec HitLimitedPeriodic MElapse p (a + b) s = Some (s3, e3) ->
        unorm s2 = unorm s3 /\ Permutation (dealts (e1 ++ e2)) (dealts e3).
Proof. exact @chunk_hitlimited. Qed.

Theorem C09_hitlimited_views :
  forall (p : par) (a b : Z) (s s1 : ust) (e1 : list ev) (s2 : ust) 
          (e2 : list ev) (s3 : ust) (e3 : list ev),
        wf_ust s ->
        hl_inv p s ->
        0 <= a ->
        0 <= b ->
        reduce_spec HitLimitedPeriodic MElapse p a s = Some (s1, e1) ->
        reduce_spec HitLimitedPeriodic MElapse p b s1 = Some (s2, e2) ->
        reduce_spec HitLimitedPeriodic MElapse p (a + b) s = Some (s3, e3) ->
        view_validity HitLimitedPeriodic p s2 = view_validity HitLimitedPeriodic p s3 /\
        view_running HitLimitedPeriodic p s2 = view_running HitLimitedPeriodic p s3 /\
        view_buff HitLimitedPeriodic s2 = view_buff HitLimitedPeriodic s3 /\
        view_keydown HitLimitedPeriodic s2 = view_keydown HitLimitedPeriodic s3.
Proof. exact @chunk_hitlimited_views. Qed.

Theorem C09_hitlimited_invariant :
  forall (m : meth) (p : par) (t : Z) (s s' : ust) (es : list ev),
        hl_inv p s -> reduce_spec HitLimitedPeriodic m p t s = Some (s', es) -> hl_inv p s'.
Proof. exact @hl_inv_preserved. Qed.

Theorem C09_hitlimited_established :
  forall (p : par) (t : Z) (s s' : ust) (es : list ev),
        0 < p_maxcount p ->
        reduce_spec HitLimitedPeriodic MUse p t s = Some (s', es) ->
        rejected es = false -> hl_inv p s'.
Proof. exact @hl_inv_use_established. Qed.

Theorem C09_hitlimited_wf :
  forall (m : meth) (p : par) (t : Z) (s s' : ust) (es : list ev),
        wf_ust s ->
        wf_par p s ->
        0 <= t ->
        reduce_spec HitLimitedPeriodic m p t s = Some (s', es) ->
        wf_ust s' /\ u_ic1 s' = u_ic1 s /\ u_ic2 s' = u_ic2 s /\ u_ic3 s' = u_ic3 s.
Proof. exact @hl_wf_preserved. Qed.

Theorem C09_hitlimited_fuel :
  forall (p : par) (t : Z) (s : ust),
        P.wf (u_p1 s) ->
        0 <= t ->
        hit_limited_loop (P.fuel_of t) (p_maxcount p) (u_p1 s) t (P.cnt (u_p1 s)) 0 <> None.
Proof. exact @hl_fuel_enough. Qed.

Theorem C09_hitlimited_elapsed :
  forall (p : par) (t : Z) (s : ust),
        P.wf (u_p1 s) -> 0 <= t -> elapsed_times (snd (hl_spec p t s)) = t :: nil.
Proof. exact @hl_elapsed_carries_time. Qed.

Theorem C09_hitlimited_nonvacuous :
  wf_ust ex_st /\
        hl_inv ex_par ex_st /\
        reduce_spec HitLimitedPeriodic MElapse ex_par 50 ex_st =
        Some
          (set_p1 (set_cd ex_st (-50))
             {| P.interval := 10; P.counter := 10; P.tl := 0; P.cnt := 3 |},
           EElapsed 50 :: EDealt 7 1 :: EDealt 7 1 :: nil) /\
        reduce_spec HitLimitedPeriodic MElapse ex_par 20
          (set_p1 (set_cd ex_st (-50))
             {| P.interval := 10; P.counter := 10; P.tl := 0; P.cnt := 3 |}) =
        Some
          (set_p1 (set_cd ex_st (-70))
             {| P.interval := 10; P.counter := 10; P.tl := 0; P.cnt := 3 |}, 
           EElapsed 20 :: nil) /\
        reduce_spec HitLimitedPeriodic MElapse ex_par 70 ex_st =
        Some
          (set_p1 (set_cd ex_st (-70))
             {| P.interval := 10; P.counter := 10; P.tl := 0; P.cnt := 3 |},
           EElapsed 70 :: EDealt 7 1 :: EDealt 7 1 :: nil) /\
        P.cnt (P.elapse (u_p1 ex_st) 50) = 5 /\ P.cnt (P.elapse (u_p1 ex_st) 70) = 7.
Proof. exact @hl_nonvacuous. Qed.

Print Assumptions C09_periodic.
Print Assumptions C09_periodic_obs_sound.
Print Assumptions C09_consumable.
Print Assumptions C09_keydown.
Print Assumptions C09_dot.
Print Assumptions C09_elapse_chunk.
Print Assumptions C09_elapse_chunk_views.
Print Assumptions C09_wf_invariant.
Print Assumptions C09_elapsed_carries_time.
Print Assumptions C09_hitlimited_chunk.
Print Assumptions C09_hitlimited_views.
Print Assumptions C09_hitlimited_invariant.
Print Assumptions C09_hitlimited_established.
Print Assumptions C09_hitlimited_wf.
Print Assumptions C09_hitlimited_fuel.
Print Assumptions C09_hitlimited_elapsed.
Print Assumptions C09_hitlimited_nonvacuous.
