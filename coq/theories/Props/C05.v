(* C05  Every event is relayed to listeners exactly once before and once after.  play = simulate/base.py play() with the pending callbacks kept in the store; the third component of its result is the list of actions handed to the router, in order.  emitted e / done e carry e's name, (method, tag) and payload.  For every store type and every router (hence every set of components, job, environment).  C05_ckpt: checkpoint+restore between two actions changes nothing, under restore (save s) = s.  Proofs: Model/Play.v. *)
From V.Model Require Import Play.

Theorem C05_relay_exactly_once :
  forall (S Pay Name Meth Tag : Type)
          (router : action Pay Name Meth Tag -> S -> S * list (event Pay Name Meth Tag))
          (st : store S Pay Name Meth Tag) (a1 a2 : action Pay Name Meth Tag),
        let
        '(st1, E1, _) := play S Pay Name Meth Tag router st a1 in
         let
         '(_, _, tr2) := play S Pay Name Meth Tag router st1 a2 in
          tr2 =
          (List.rev (List.map (emitted Pay Name Meth Tag) E1) ++
           (a2 :: nil) ++ List.map (done Pay Name Meth Tag) E1)%list.
Proof. exact @C05_relay. Qed.

Theorem C05_never_replayed :
  forall (S Pay Name Meth Tag : Type)
          (router : action Pay Name Meth Tag -> S -> S * list (event Pay Name Meth Tag))
          (st : store S Pay Name Meth Tag) (a1 a2 : action Pay Name Meth Tag),
        let
        '(st1, _, _) := play S Pay Name Meth Tag router st a1 in
         let
         '(st2, E2, _) := play S Pay Name Meth Tag router st1 a2 in
          cbs S Pay Name Meth Tag st2 = List.map (callbacks Pay Name Meth Tag) E2.
Proof. exact @C05_no_replay. Qed.

Theorem C05_dispatch_is_queue :
  forall (S Pay Name Meth Tag : Type)
          (router : action Pay Name Meth Tag -> S -> S * list (event Pay Name Meth Tag))
          (st : store S Pay Name Meth Tag) (a : action Pay Name Meth Tag),
        let
        '(_, _, tr) := play S Pay Name Meth Tag router st a in
         tr =
         (List.rev (List.map fst (cbs S Pay Name Meth Tag st)) ++
          (a :: nil) ++ List.map snd (cbs S Pay Name Meth Tag st))%list.
Proof. exact @C05_trace_is_queue. Qed.

Theorem C05_checkpoint_restore_transparent :
  forall (S Pay Name Meth Tag : Type)
          (router : action Pay Name Meth Tag -> S -> S * list (event Pay Name Meth Tag)) 
          (Ck : Type) (save : store S Pay Name Meth Tag -> Ck)
          (restore : Ck -> store S Pay Name Meth Tag),
        (forall s : store S Pay Name Meth Tag, restore (save s) = s) ->
        forall (st1 : store S Pay Name Meth Tag) (a2 : action Pay Name Meth Tag),
        play S Pay Name Meth Tag router (restore (save st1)) a2 =
        play S Pay Name Meth Tag router st1 a2.
Proof. exact @C05_ckpt. Qed.

Print Assumptions C05_relay_exactly_once.
Print Assumptions C05_never_replayed.
Print Assumptions C05_dispatch_is_queue.
Print Assumptions C05_checkpoint_restore_transparent.
