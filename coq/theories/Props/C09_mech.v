(* C09 (extension mech)  Letting time pass in one step or in several gives the same ticks and status -- for the job-specific classes of Model/SpecMech.v (mechanic.py, soulmaster.py, dualblade.py, thief.py UltimateDarkSight, windbreaker.py).  Times are integer ticks.  Entity level: C09_mech_lastingstack (LastingStack.elapse is exactly additive) and C09_mech_dynamic_periodic (DynamicIntervalPeriodic.resolving: the yielded intercepter counts of a then b are those of a+b, same time_left, same state up to the counter/count of a schedule that is over, which nothing reads before use resets them; under DP.wf: interval > 0, penalty >= 0, count >= 0, max >= 0, and the counter is positive once time_left is negative).  Component level: C09_mech_elapse_chunk: for the 16 modelled classes with an elapse reducer (RobotSummon, RobotSetupBuff, HommingMissile, FullMetalBarrage (after the repair f0eb2ac of a defect this check found), MultipleOption, MecaCarrier, Elysion, CosmicBurst, CosmicShower, Cosmos, FlareSlash, FinalCut, BladeStorm, UltimateDarkSight, KarmaBlade, HowlingGale), every well-formed state (xwf) and a, b >= 0: the damage events of elapse a then elapse b are a permutation of those of elapse a+b (same damage+modifier codes, same hits) and the final states agree up to dead interval counters (xnorm); bound entities are part of the state and are returned unchanged.  C09_mech_elapse_chunk_views: hence validity, running, buff and keydown views agree.  C09_mech_wf_invariant: xwf is preserved by EVERY reducer of every modelled class (under the parameter hypotheses xwf_par: non-negative payload times, positive pause time, positive initial counters, non-negative prepare delay; Cosmos: the shortened interval stays positive; MecaCarrier: start count and duration non-negative), so the theorems apply in every reachable state.  FullMetalBarrageComponent: before the repair the penalty_lasting entity was re-armed to the full penalty at the END of the elapse call in which the key-down ran out; C09_mech_barrage_repaired: on the witness of that former finding (a=100, b=900) both paths now leave penalty 1100/2000.  C09_mech_meca_nonvacuous: a concrete run. *)
From Coq Require Import ZArith List Bool Permutation. From V.Model Require Import Comp SpecMech. From V.Proofs Require Import CompReject CompViews CompChunk SpecMechReject SpecMechViews SpecMechDP SpecMechChunk SpecMechWf.

Theorem C09_mech_lastingstack :
  forall (s : LS.T) (a b : Z),
        0 <= a -> 0 <= b -> LS.elapse (LS.elapse s a) b = LS.elapse s (a + b).
Proof. exact @ls_elapse_additive. Qed.

Theorem C09_mech_dynamic_periodic :
  forall (s : DP.D) (a b : Z),
        DP.wf s ->
        0 <= a ->
        0 <= b ->
        DP.norm (fst (DP.resolving (fst (DP.resolving s a)) b)) =
        DP.norm (fst (DP.resolving s (a + b))) /\
        snd (DP.resolving s a) ++ snd (DP.resolving (fst (DP.resolving s a)) b) =
        snd (DP.resolving s (a + b)) /\
        DP.tl (fst (DP.resolving (fst (DP.resolving s a)) b)) = DP.tl (fst (DP.resolving s (a + b))).
Proof. exact @resolving_additive. Qed.

Theorem C09_mech_dynamic_periodic_wf :
  forall (s : DP.D) (t : Z), DP.wf s -> DP.wf (fst (DP.resolving s t)).
Proof. exact @resolving_wf. Qed.

Theorem C09_mech_elapse_chunk :
  forall (c : xcomp) (p : xpar) (a b : Z) (s s1 : xst) (e1 : list ev) 
          (s2 : xst) (e2 : list ev) (s3 : xst) (e3 : list ev),
        xchunk_kind c = true ->
        xwf s ->
        0 <= a ->
        0 <= b ->
        xreduce_spec c XElapse p a s = Some (s1, e1) ->
        xreduce_spec c XElapse p b s1 = Some (s2, e2) ->
        xreduce_spec c XElapse p (a + b) s = Some (s3, e3) ->
        xnorm s2 = xnorm s3 /\ Permutation (dealts (e1 ++ e2)) (dealts e3).
Proof. exact @xelapse_chunk. Qed.

Theorem C09_mech_elapse_chunk_views :
  forall (c : xcomp) (p : xpar) (a b : Z) (s s1 : xst) (e1 : list ev) 
          (s2 : xst) (e2 : list ev) (s3 : xst) (e3 : list ev),
        xchunk_kind c = true ->
        xwf s ->
        0 <= a ->
        0 <= b ->
        xreduce_spec c XElapse p a s = Some (s1, e1) ->
        xreduce_spec c XElapse p b s1 = Some (s2, e2) ->
        xreduce_spec c XElapse p (a + b) s = Some (s3, e3) ->
        xview_validity c p s2 = xview_validity c p s3 /\
        xview_running c p s2 = xview_running c p s3 /\
        xview_buff c s2 = xview_buff c s3 /\ xview_keydown c s2 = xview_keydown c s3.
Proof. exact @xelapse_chunk_views. Qed.

Theorem C09_mech_wf_invariant :
  forall (c : xcomp) (m : xmeth) (p : xpar) (t : Z) (s s' : xst) (es : list ev),
        xwf s ->
        xwf_par c m p t s ->
        xreduce_spec c m p t s = Some (s', es) -> xwf s' /\ u_ic1 (x_u s') = u_ic1 (x_u s).
Proof. exact @xwf_preserved. Qed.

Theorem C09_mech_barrage_repaired :
  xwf fmb_state /\
        x_l2 (fst (fmb_elapse fmb_par 900 (fst (fmb_elapse fmb_par 100 fmb_state)))) = (1100, 2000) /\
        x_l2 (fst (fmb_elapse fmb_par 1000 fmb_state)) = (1100, 2000).
Proof. exact @barrage_chunk_repaired. Qed.

Theorem C09_mech_meca_nonvacuous :
  xwf mc_state /\
        xreduce_spec MecaCarrier XElapse mc_par 25 mc_state =
        Some
          (set_dp (set_u x0 (set_cd u0 (-25)))
             {| DP.ic := 5; DP.itv := 10; DP.tl := 75; DP.cnt := 4; DP.pen := 2; DP.mx := 4 |},
           EElapsed 25 :: EDealt 7 1 :: EDealt 7 1 :: EDealt 7 1 :: EDealt 7 1 :: EDealt 7 1 :: nil) /\
        dealts
          (snd (mc_elapse DP.resolving mc_par 20 (fst (mc_elapse DP.resolving mc_par 25 mc_state)))) =
        repeat (EDealt 7 1) 4 /\
        dealts (snd (mc_elapse DP.resolving mc_par 45 mc_state)) = repeat (EDealt 7 1) 9.
Proof. exact @meca_nonvacuous. Qed.

Print Assumptions C09_mech_lastingstack.
Print Assumptions C09_mech_dynamic_periodic.
Print Assumptions C09_mech_dynamic_periodic_wf.
Print Assumptions C09_mech_elapse_chunk.
Print Assumptions C09_mech_elapse_chunk_views.
Print Assumptions C09_mech_wf_invariant.
Print Assumptions C09_mech_barrage_repaired.
Print Assumptions C09_mech_meca_nonvacuous.
