(* C10 (extension mech)  Status views never advertise a skill that would be rejected -- for the job-specific classes of Model/SpecMech.v.  Views are total functions of the state by construction (Python exceptions are outside the model and are monitored on the implementation); xview_validity c p s = None means the class has no validity view (CosmicOrb, CosmicBurst).  C10_mech_time_left_nonneg: validity never reports a negative remaining time.  C10_mech_valid_accepts: for EVERY modelled class with a validity view, all parameters and all states (bound entities included): whenever validity reports the skill usable, use returns no rejection (key-down classes FullMetalBarrage and BladeStorm with the repaired validity of de960db; CosmicShower/Cosmos: cooldown ready and at least one orb; CrossTheStyx: Elysion running; HowlingGale: a stack left; KarmaBlade.use never rejects).  C10_mech_validity_mirrors_use: except for FlareSlash (never advertised), KarmaBlade (use never rejects) and the classes without a validity view, validity is exactly 'use would not be rejected' (orb stack assumed non-negative).  C10_mech_flare_never_advertised, C10_mech_meca_stack_hidden_when_off (running reports stack 0 when the summon is over), C10_mech_barrage_running_not_advertised, C10_mech_nonvacuous. *)
From Coq Require Import ZArith List Bool Permutation. From V.Model Require Import Comp SpecMech. From V.Proofs Require Import CompReject CompViews CompChunk SpecMechReject SpecMechViews SpecMechDP SpecMechChunk SpecMechWf.

Theorem C10_mech_time_left_nonneg :
  forall (c : xcomp) (p : xpar) (s : xst) (v : validity),
        xview_validity c p s = Some v -> 0 <= v_time_left v.
Proof. exact @xvalidity_time_left_nonneg. Qed.

Theorem C10_mech_valid_accepts :
  forall (c : xcomp) (p : xpar) (t : Z) (s : xst) (v : validity) (s' : xst) (es : list ev),
        xview_validity c p s = Some v ->
        v_valid v = true -> xreduce_spec c XUse p t s = Some (s', es) -> rejected es = false.
Proof. exact @xvalid_accepts. Qed.

Theorem C10_mech_validity_mirrors_use :
  forall (c : xcomp) (p : xpar) (t : Z) (s : xst) (v : validity) (s' : xst) (es : list ev),
        match c with
        | CosmicOrb | CosmicBurst | FlareSlash | KarmaBlade => False
        | _ => True
        end ->
        0 <= LS.stack (x_ls s) ->
        xview_validity c p s = Some v ->
        xreduce_spec c XUse p t s = Some (s', es) -> v_valid v = negb (rejected es).
Proof. exact @xvalidity_mirrors_use. Qed.

Theorem C10_mech_flare_never_advertised :
  forall (p : xpar) (s : xst) (v : validity),
        xview_validity FlareSlash p s = Some v -> v_valid v = false.
Proof. exact @flare_never_advertised. Qed.

Theorem C10_mech_meca_stack_hidden_when_off :
  forall (p : xpar) (s : xst) (r : running),
        xview_running MecaCarrier p s = Some r -> DP.tl (x_dp s) <= 0 -> r_stack r = Some 0.
Proof. exact @meca_stack_hidden_when_off. Qed.

Theorem C10_mech_barrage_running_not_advertised :
  exists (s1 : xst) (e1 : list ev),
          xreduce_spec FullMetalBarrage XUse
            {|
              xp := kd0_par;
              xp_d2 := (0, 0);
              xp_n1 := 0;
              xp_t1 := 2000;
              xp_t2 := 0;
              xp_num := 1;
              xp_den := 1;
              xp_rows := nil
            |} 0 (set_u x0 kd0_state) = Some (s1, e1) /\
          rejected e1 = false /\
          (exists v : validity,
             xview_validity FullMetalBarrage
               {|
                 xp := kd0_par;
                 xp_d2 := (0, 0);
                 xp_n1 := 0;
                 xp_t1 := 2000;
                 xp_t2 := 0;
                 xp_num := 1;
                 xp_den := 1;
                 xp_rows := nil
               |} s1 = Some v /\ v_valid v = false).
Proof. exact @barrage_running_not_advertised. Qed.

Theorem C10_mech_nonvacuous :
  exists v : validity, xview_validity RobotSummon flare_par x0 = Some v /\ v_valid v = true.
Proof. exact @xvalid_state_exists. Qed.

Print Assumptions C10_mech_time_left_nonneg.
Print Assumptions C10_mech_valid_accepts.
Print Assumptions C10_mech_validity_mirrors_use.
Print Assumptions C10_mech_flare_never_advertised.
Print Assumptions C10_mech_meca_stack_hidden_when_off.
Print Assumptions C10_mech_barrage_running_not_advertised.
Print Assumptions C10_mech_nonvacuous.
