(* C01 / C03 for the engine as GENERATED from the source (tools/tr_engine.py, tr_history.py, tr_handlers.py -> gen/EngineSrc.v,
   HistorySrc.v, HandlersSrc.v): the generated exec / rollback / reload are the model's, and the property theorems hold for runs of the
   generated functions.  Abstract stay: play (C05, C07-C10 model it), save/restore with restore (save s) = s (C01_store derives it),
   the console inspector, the digest. *)
From Coq Require Import List ZArith.
Import ListNotations.
From V Require Import Lib.PyHist Lib.PyGen Model.Engine Proofs.EngineTie.
From G Require Import HistorySrc HandlersSrc EngineSrc.

Theorem C01_src_exec_is_model_exec :
  forall (St Ev Act Ck H T D Name : Type) (play : St -> Act -> St * list Ev) (save : St -> Ck) (restore : Ck -> St) (clock : St -> T)
         (inspect : Name -> St -> D) (mk_act : Name -> meth -> option T -> Act) (star : Name) (ev_name : Ev -> Name)
         (ev_delay : Ev -> option T) (name_eqb : Name -> Name -> bool) (tzero : T) (tpos tis0 : T -> bool) (H0 : H)
         (hashf : H -> cmd T Name -> list (T * Act * list Ev) -> H) (e : eng St Ev Act Ck H T D Name) (c : cmd T Name),
    src_exec St Ev Act Ck H T D Name play save restore clock inspect mk_act star ev_name ev_delay name_eqb tzero tpos tis0 H0 hashf e c
    = exec St Ev Act Ck H T D Name play save restore clock inspect mk_act star ev_name ev_delay name_eqb tzero tpos tis0 H0 hashf e c.
Proof. exact @src_exec_is_exec. Qed.

Theorem C01_src_rollback_is_model_rollback :
  forall (St Ev Act Ck H T D Name : Type) (e : eng St Ev Act Ck H T D Name) (i : nat),
    src_rollback St Ev Act Ck H T D Name e (Z.of_nat i) = Some (rollback St Ev Act Ck H T D Name e i).
Proof. exact @src_rollback_is_rollback. Qed.

Theorem C01_src_reload_is_model_reload :
  forall (St Ev Act Ck H T D Name : Type) (e : eng St Ev Act Ck H T D Name) (ls : list (oplog Ev Act Ck H T D Name)),
    src_reload St Ev Act Ck H T D Name e ls = Some (reload St Ev Act Ck H T D Name ls).
Proof. exact @src_reload_is_reload. Qed.

Theorem C01_src_resume_eq_uninterrupted :
  forall (St Ev Act Ck H T D Name : Type) (play : St -> Act -> St * list Ev) (save : St -> Ck) (restore : Ck -> St) (clock : St -> T)
         (inspect : Name -> St -> D) (mk_act : Name -> meth -> option T -> Act) (star : Name) (ev_name : Ev -> Name)
         (ev_delay : Ev -> option T) (name_eqb : Name -> Name -> bool) (tzero : T) (tpos tis0 : T -> bool) (H0 : H)
         (hashf : H -> cmd T Name -> list (T * Act * list Ev) -> H),
    (forall s, restore (save s) = s) ->
    forall (init : oplog Ev Act Ck H T D Name) (cs : list (cmd T Name)) (k : nat) (e_full any : eng St Ev Act Ck H T D Name),
    last_plog Ev Act Ck H T D Name [init] <> None ->
    src_run St Ev Act Ck H T D Name play save restore clock inspect mk_act star ev_name ev_delay name_eqb tzero tpos tis0 H0 hashf
      (of_logs St Ev Act Ck H T D Name [init]) cs = Some e_full ->
    exists e_cut e_loaded e_res,
      src_run St Ev Act Ck H T D Name play save restore clock inspect mk_act star ev_name ev_delay name_eqb tzero tpos tis0 H0 hashf
        (of_logs St Ev Act Ck H T D Name [init]) (firstn k cs) = Some e_cut /\
      src_reload St Ev Act Ck H T D Name any (logs _ _ _ _ _ _ _ _ e_cut) = Some e_loaded /\
      src_run St Ev Act Ck H T D Name play save restore clock inspect mk_act star ev_name ev_delay name_eqb tzero tpos tis0 H0 hashf
        e_loaded (skipn k cs) = Some e_res /\
      logs _ _ _ _ _ _ _ _ e_res = logs _ _ _ _ _ _ _ _ e_full /\ sim St Ev Act Ck H T D Name restore e_res e_full.
Proof. exact @src_resume_eq_uninterrupted. Qed.

Theorem C03_src_rollback_eq_survivors :
  forall (St Ev Act Ck H T D Name : Type) (play : St -> Act -> St * list Ev) (save : St -> Ck) (restore : Ck -> St) (clock : St -> T)
         (inspect : Name -> St -> D) (mk_act : Name -> meth -> option T -> Act) (star : Name) (ev_name : Ev -> Name)
         (ev_delay : Ev -> option T) (name_eqb : Name -> Name -> bool) (tzero : T) (tpos tis0 : T -> bool) (H0 : H)
         (hashf : H -> cmd T Name -> list (T * Act * list Ev) -> H),
    (forall s, restore (save s) = s) ->
    forall (init : oplog Ev Act Ck H T D Name) (ss : list (src_step T Name)) (e : eng St Ev Act Ck H T D Name),
    last_plog Ev Act Ck H T D Name [init] <> None ->
    src_steps St Ev Act Ck H T D Name play save restore clock inspect mk_act star ev_name ev_delay name_eqb tzero tpos tis0 H0 hashf
      (of_logs St Ev Act Ck H T D Name [init]) ss = Some e ->
    exists e',
      src_run St Ev Act Ck H T D Name play save restore clock inspect mk_act star ev_name ev_delay name_eqb tzero tpos tis0 H0 hashf
        (of_logs St Ev Act Ck H T D Name [init]) (surv T Name [] (map (to_model T Name) ss)) = Some e' /\
      logs _ _ _ _ _ _ _ _ e = logs _ _ _ _ _ _ _ _ e' /\ sim St Ev Act Ck H T D Name restore e e'.
Proof. exact @src_rollback_eq_survivors. Qed.

Print Assumptions C01_src_exec_is_model_exec.
Print Assumptions C01_src_rollback_is_model_rollback.
Print Assumptions C01_src_reload_is_model_reload.
Print Assumptions C01_src_resume_eq_uninterrupted.
Print Assumptions C03_src_rollback_eq_survivors.
