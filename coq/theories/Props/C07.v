(* C07  A rejected action is reported alone and changes nothing.  Model: Model/Comp.v (the traits of trait/impl.py and the 16 stateful classes of component/common, tied to the code by the H-entity correspondence).  reduce_spec c m p t s = the reducer m of class c with parameters p, payload t, on state s.  C07_reject_alone: every modelled reducer except StackableBuffSkillComponent.use: if the returned events contain a rejection they are exactly [reject] and the returned state IS the input state.  C07_stackable_* : the shipped StackableBuffSkillComponent.use bumps the stack entity before testing availability: refuted with a witness, and the largest true sub-statement (rejection alone; state equal up to the stack slot).  C07_ignore_rejected_silent: the ignore_rejected variant never reports a rejection and is a no-op when not ready.  C07_not_ready_is_noop: using a skill that is not ready returns the unchanged state and one rejection.  C07_rejected_not_acknowledged: the dispatcher's ACCEPT is appended only when no rejection is present.  Job-specific classes (component/specific) are not modelled: they are monitored on the implementation. *)
From Coq Require Import ZArith List Bool. From V.Model Require Import Comp. From V.Proofs Require Import CompReject.

Theorem C07_reject_alone :
  forall (c : comp) (m : meth) (p : par) (t : Z) (s s' : ust) (es : list ev),
        is_stackable_use c m = false ->
        reduce_spec c m p t s = Some (s', es) -> rejected es = true -> es = EReject :: nil /\ s' = s.
Proof. exact @reject_alone_spec. Qed.

Theorem C07_ignore_rejected_silent :
  forall (p : par) (t : Z) (s s' : ust) (es : list ev),
        reduce_spec AttackSkill MUseIgnoreReject p t s = Some (s', es) ->
        rejected es = false /\ (0 < u_cd s -> es = nil /\ s' = s).
Proof. exact @ignore_reject_silent. Qed.

Theorem C07_not_ready_is_noop :
  forall (c : comp) (p : par) (t : Z) (s : ust),
        cooldown_kind c = true -> 0 < u_cd s -> reduce_spec c MUse p t s = Some (s, EReject :: nil).
Proof. exact @not_ready_noop. Qed.

Theorem C07_consumable_not_ready_is_noop :
  forall (p : par) (t : Z) (s : ust),
        C.stack (u_cons s) <= 0 ->
        reduce_spec ConsumableBuffSkill MUse p t s = Some (s, EReject :: nil).
Proof. exact @consumable_not_ready_noop. Qed.

Theorem C07_stackable_reject_partial :
  forall (p : par) (t : Z) (s s' : ust) (es : list ev),
        reduce_spec StackableBuff MUse p t s = Some (s', es) ->
        rejected es = true -> es = EReject :: nil /\ set_stk s' (u_stk s) = s.
Proof. exact @stackable_reject_partial. Qed.

Theorem C07_stackable_reject_refuted :
  exists (p : par) (s s' : ust) (es : list ev),
          reduce_spec StackableBuff MUse p 0 s = Some (s', es) /\ rejected es = true /\ s' <> s.
Proof. exact @stackable_reject_refuted. Qed.

Theorem C07_rejected_not_acknowledged :
  forall es : list ev, rejected es = true -> accept_appended es = false.
Proof. exact @rejected_not_accepted. Qed.

Theorem C07_nonvacuous :
  reduce_spec AttackSkill MUse stk_witness_par 0 stk_witness_state =
        Some (stk_witness_state, EReject :: nil).
Proof. exact @reject_happens. Qed.

Print Assumptions C07_reject_alone.
Print Assumptions C07_ignore_rejected_silent.
Print Assumptions C07_not_ready_is_noop.
Print Assumptions C07_consumable_not_ready_is_noop.
Print Assumptions C07_stackable_reject_partial.
Print Assumptions C07_stackable_reject_refuted.
Print Assumptions C07_rejected_not_acknowledged.
Print Assumptions C07_nonvacuous.
