(* C18  Bonus-option inference is sound and complete.

   Model: Model/Bonus.v, the whole of BonusCalculator.compute as coded (simaple/gear/compute/bonus.py):
   the seven single-valued options matched greedily in the coded grade order, then the STR/DEX/INT/LUK
   search = the decomposition generator of the maximal stat, the combinations with the cumulative
   `remaining_sdil` decrement exactly as coded, then the recursive search whose candidate kinds come
   from the non-zero-stat bitmask table; the contribution table is SDILTableBuilder's.  A gear is
   (req_level, boss_reward, attack table); the theorems hold for EVERY gear with req_level >= 0 (hence
   every level band, boss and non-boss) and EVERY attack table (hence armour and every weapon), and for
   EVERY observed stat (integer valued; read on the 11 fields the inference reads).

   C18_search_sound    (first sentence of the property) any returned list has <= 4 options, of distinct
                       kinds, with grades valid for the gear (1..7, boss reward 3..7), and per field the
                       improvements add up EXACTLY to the observed stat.  Hypothesis: the seven
                       single-valued observed fields are >= 0 (the code skips a non-positive field, so a
                       negative one would be ignored; observed bonus stats are never negative).
                       The returned decomposition need not be the one that produced the stat.
   C18_search_complete (second sentence) if the observed stat is the per-field sum of <= 4 options of
                       distinct kinds with valid grades, the inference does not reject.  No `_partial`:
                       the heuristic first phase either answers or falls through to the complete
                       recursive search.
   C18_sdil_search_sound / _complete   the same two facts for StatBonusCalculator._search_bonus alone
                       (heuristic phase + recursive phase) for every budget `left`; the soundness proof
                       carries the argument that from the second combination on the cumulatively
                       decremented remainder is negative on the maximal coordinate, so nothing is returned.
   C18_recursive_sound / _complete     the recursive search, generic in kinds, contribution table, grade
                       list and candidate table; completeness needs exactly `cands_complete`.
   C18_candidate_table_complete        `cands_complete` for the coded bitmask index (all four bits) and
                       table, for every gear and every remainder.
   C18_valid_grade_iff what "valid grade" means.
   C18_tables_are_real the literals and tables of the model are those of /repo NOW: gen/BonusTbl.v is
                       regenerated on every run by tools/tr_bonus.py (grade lists, _MAX_BONUS, _stat_types,
                       _dual_bonus_types, single_properties by ast; CachedBonusTypeTable().lookup,
                       SDIL.get_index on the 16 patterns, SDILTableBuilder().build and every per-kind
                       improvement by running the tree's own code at both ends of every 10-level band up to
                       309, boss/non-boss, armour and three weapon classes); the real candidate table is
                       complete.  Decided by vm_compute.
   C18_nonvacuous      a concrete 4-option set (STR 7 + LUK 5 + STR_LUK 3 + all-stat 5 on level-160 armour)
                       satisfies every hypothesis and is decoded to itself; a 5-option stat is rejected.

   Tested, not proved: that Model/Bonus.v is what the Python does (correspondence run of tools/props/c18.py),
   integer-valued stats, binary64 ceil of the weapon attack value = its exact reading on the gears used. *)
From Coq Require Import ZArith List Bool.
From V.Model Require Import Bonus.
From V.Model Require Import BonusTieDefs.
From V.Proofs Require Import BonusRec Bonus BonusTie.
From G Require Import BonusTbl.

Theorem C18_search_sound :
  forall (ge : gear) (obs : coord -> Z) (l : list (kind * Z)),
    (0 <= req_level ge)%Z ->
    (forall p : coord * kind, In p single_props -> (0 <= obs (fst p))%Z) ->
    compute ge obs = Ok l ->
    (length l <= 4)%nat /\
    NoDup (map fst l) /\
    (forall kg : kind * Z, In kg l -> valid_grade ge (snd kg)) /\
    (forall c : coord, ssum ge l c = obs c).
Proof. exact @search_sound. Qed.

Theorem C18_search_complete :
  forall (ge : gear) (obs : coord -> Z) (l : list (kind * Z)),
    (0 <= req_level ge)%Z ->
    (length l <= 4)%nat ->
    NoDup (map fst l) ->
    (forall kg : kind * Z, In kg l -> valid_grade ge (snd kg)) ->
    (forall c : coord, obs c = ssum ge l c) ->
    exists r : list (kind * Z), compute ge obs = Ok r.
Proof. exact @search_complete. Qed.

Theorem C18_sdil_search_sound :
  forall (ge : gear) (target : vec) (left : nat) (l : list (kind * Z)),
    (0 <= req_level ge)%Z ->
    search_bonus ge target left = Some l ->
    vsum kind (sd ge) l = target /\
    NoDup (map fst l) /\
    (length l <= left)%nat /\
    (forall kg : kind * Z, In kg l -> valid_grade ge (snd kg)) /\
    (forall kg : kind * Z, In kg l -> is_sdil (fst kg) = true).
Proof. exact @search_bonus_sound. Qed.

Theorem C18_sdil_search_complete :
  forall (ge : gear) (target : vec) (left : nat) (l : list (kind * Z)),
    (0 <= req_level ge)%Z ->
    NoDup (map fst l) ->
    (length l <= left)%nat ->
    (forall kg : kind * Z, In kg l -> valid_grade ge (snd kg)) ->
    (forall kg : kind * Z, In kg l -> is_sdil (fst kg) = true) ->
    vsum kind (sd ge) l = target ->
    search_bonus ge target left <> None.
Proof. exact @search_bonus_complete. Qed.

Theorem C18_recursive_sound :
  forall (K : Type) (keq : K -> K -> bool),
    (forall a b : K, keq a b = true <-> a = b) ->
    forall (sdK : K -> Z -> vec) (grades : list Z) (candsK : vec -> list K)
           (left : nat) (rem : vec) (forb : list K) (l : list (K * Z)),
      rec K keq sdK grades candsK left rem forb = Some l ->
      vsum K sdK l = rem /\
      NoDup (map fst l) /\
      (forall k : K, In k (map fst l) -> ~ In k forb) /\
      (length l <= left)%nat /\
      (forall kg : K * Z, In kg l -> In (snd kg) grades).
Proof. exact @rec_sound. Qed.

Theorem C18_recursive_complete :
  forall (K : Type) (keq : K -> K -> bool),
    (forall a b : K, keq a b = true <-> a = b) ->
    forall (sdK : K -> Z -> vec) (grades : list Z) (candsK : vec -> list K),
      (forall (k : K) (g : Z), In g grades -> vnonneg (sdK k g)) ->
      (forall (rem : vec) (k : K) (g : Z),
          In g grades -> vle (sdK k g) rem -> sdK k g <> vzero -> In k (candsK rem)) ->
      forall (left : nat) (rem : vec) (forb : list K) (l : list (K * Z)),
        (NoDup (map fst l) /\
         (forall k : K, In k (map fst l) -> ~ In k forb) /\
         (length l <= left)%nat /\
         (forall kg : K * Z, In kg l -> In (snd kg) grades)) ->
        vsum K sdK l = rem ->
        (forall kg : K * Z, In kg l -> sdK (fst kg) (snd kg) <> vzero) ->
        rec K keq sdK grades candsK left rem forb <> None.
Proof. exact @rec_complete. Qed.

Theorem C18_candidate_table_complete :
  forall ge : gear,
    (0 <= req_level ge)%Z ->
    forall (rem : vec) (k : kind) (g : Z),
      In g (grades_sdil ge) -> vle (sd ge k g) rem -> sd ge k g <> vzero -> In k (cands rem).
Proof. exact @cands_complete_ge. Qed.

Theorem C18_valid_grade_iff :
  forall (ge : gear) (g : Z),
    valid_grade ge g <-> ((if boss ge then 3 else 1) <= g <= 7)%Z.
Proof. exact @valid_grade_iff. Qed.

Theorem C18_tables_are_real :
  constants_ok = true /\ lookup_ok = true /\ index_ok = true /\ sdil_tables_ok = true /\
  impr_ok = true /\ real_cands_ok = true /\
  Nat.leb 100 (length real_sdil_tables) = true /\ Nat.leb 500 (length real_impr) = true.
Proof. exact @tables_are_real. Qed.

Theorem C18_nonvacuous :
  ((0 <= req_level ex_gear)%Z /\ (length ex_set <= 4)%nat /\ NoDup (map fst ex_set) /\
   (forall kg : kind * Z, In kg ex_set -> valid_grade ex_gear (snd kg)) /\
   (forall p : coord * kind, In p single_props -> (0 <= ssum ex_gear ex_set (fst p))%Z)) /\
  canon (compute ex_gear (ssum ex_gear ex_set)) = canon (Ok ex_set) /\
  compute ex_gear (ssum ex_gear ((KMHP, 5%Z) :: (KMMP, 5%Z) :: (KBOSS, 5%Z) :: (KDMG, 4%Z) :: (KALL, 5%Z) :: nil)) = ErrTooMany.
Proof. exact (conj ex_hypotheses (conj ex_accepts ex_rejects)). Qed.

Print Assumptions C18_search_sound.
Print Assumptions C18_search_complete.
Print Assumptions C18_sdil_search_sound.
Print Assumptions C18_sdil_search_complete.
Print Assumptions C18_recursive_sound.
Print Assumptions C18_recursive_complete.
Print Assumptions C18_candidate_table_complete.
Print Assumptions C18_valid_grade_iff.
Print Assumptions C18_tables_are_real.
Print Assumptions C18_nonvacuous.
