(* C12  More of a good stat never hurts: damage, cooldown and level gap are monotone.
   All definitions named *_get_damage_factor, ActionStat_calculate_cooldown,
   LevelAdvantage_get_advantage, DamageCalculator_*_get_damage are GENERATED from the
   source on every run (gen/CoreQ.v).  Stat_nonneg / Stat_le quantify over every declared
   stat field (generated list Stat_fields), so "raising any stat" covers all 27 fields. *)
From Coq Require Import QArith Qminmax ZArith List.
From G Require Import CoreQ.
From V.Proofs Require Import DamageMono Cooldown LevelAdv.
Open Scope Q_scope.

Theorem C12_damage_mono_STR : forall (self : STRBasedDamageLogic) s s' armor,
  0 <= STRBasedDamageLogic_attack_range_constant self ->
  0 <= STRBasedDamageLogic_mastery self -> STRBasedDamageLogic_mastery self <= 1 ->
  Stat_nonneg s -> Stat_le s s' -> 0 <= armor -> 0 <= STRBasedDamageLogic_get_armor_factor self s armor ->
  mono_on (fun x => STRBasedDamageLogic_get_damage_factor self x armor) s s'.
Proof. exact STR_damage_factor_mono. Qed.
Theorem C12_damage_mono_INT : forall (self : INTBasedDamageLogic) s s' armor,
  0 <= INTBasedDamageLogic_attack_range_constant self ->
  0 <= INTBasedDamageLogic_mastery self -> INTBasedDamageLogic_mastery self <= 1 ->
  Stat_nonneg s -> Stat_le s s' -> 0 <= armor -> 0 <= INTBasedDamageLogic_get_armor_factor self s armor ->
  mono_on (fun x => INTBasedDamageLogic_get_damage_factor self x armor) s s'.
Proof. exact INT_damage_factor_mono. Qed.
Theorem C12_damage_mono_DEX : forall (self : DEXBasedDamageLogic) s s' armor,
  0 <= DEXBasedDamageLogic_attack_range_constant self ->
  0 <= DEXBasedDamageLogic_mastery self -> DEXBasedDamageLogic_mastery self <= 1 ->
  Stat_nonneg s -> Stat_le s s' -> 0 <= armor -> 0 <= DEXBasedDamageLogic_get_armor_factor self s armor ->
  mono_on (fun x => DEXBasedDamageLogic_get_damage_factor self x armor) s s'.
Proof. exact DEX_damage_factor_mono. Qed.
Theorem C12_damage_mono_LUK : forall (self : LUKBasedDamageLogic) s s' armor,
  0 <= LUKBasedDamageLogic_attack_range_constant self ->
  0 <= LUKBasedDamageLogic_mastery self -> LUKBasedDamageLogic_mastery self <= 1 ->
  Stat_nonneg s -> Stat_le s s' -> 0 <= armor -> 0 <= LUKBasedDamageLogic_get_armor_factor self s armor ->
  mono_on (fun x => LUKBasedDamageLogic_get_damage_factor self x armor) s s'.
Proof. exact LUK_damage_factor_mono. Qed.
Theorem C12_damage_mono_LUKDual : forall (self : LUKBasedDualSubDamageLogic) s s' armor,
  0 <= LUKBasedDualSubDamageLogic_attack_range_constant self ->
  0 <= LUKBasedDualSubDamageLogic_mastery self -> LUKBasedDualSubDamageLogic_mastery self <= 1 ->
  Stat_nonneg s -> Stat_le s s' -> 0 <= armor -> 0 <= LUKBasedDualSubDamageLogic_get_armor_factor self s armor ->
  mono_on (fun x => LUKBasedDualSubDamageLogic_get_damage_factor self x armor) s s'.
Proof. exact Dual_damage_factor_mono. Qed.

Theorem C12_dot_mono_STR : forall (self : STRBasedDamageLogic) s s' armor,
  0 <= STRBasedDamageLogic_attack_range_constant self ->
  0 <= STRBasedDamageLogic_mastery self -> STRBasedDamageLogic_mastery self <= 1 ->
  Stat_nonneg s -> Stat_le s s' -> 0 <= armor -> 0 <= STRBasedDamageLogic_get_armor_factor self s armor ->
  mono_on (fun x => STRBasedDamageLogic_get_dot_factor self x armor) s s'.
Proof. exact STR_dot_factor_mono. Qed.
Theorem C12_dot_mono_INT : forall (self : INTBasedDamageLogic) s s' armor,
  0 <= INTBasedDamageLogic_attack_range_constant self ->
  0 <= INTBasedDamageLogic_mastery self -> INTBasedDamageLogic_mastery self <= 1 ->
  Stat_nonneg s -> Stat_le s s' -> 0 <= armor -> 0 <= INTBasedDamageLogic_get_armor_factor self s armor ->
  mono_on (fun x => INTBasedDamageLogic_get_dot_factor self x armor) s s'.
Proof. exact INT_dot_factor_mono. Qed.
Theorem C12_dot_mono_DEX : forall (self : DEXBasedDamageLogic) s s' armor,
  0 <= DEXBasedDamageLogic_attack_range_constant self ->
  0 <= DEXBasedDamageLogic_mastery self -> DEXBasedDamageLogic_mastery self <= 1 ->
  Stat_nonneg s -> Stat_le s s' -> 0 <= armor -> 0 <= DEXBasedDamageLogic_get_armor_factor self s armor ->
  mono_on (fun x => DEXBasedDamageLogic_get_dot_factor self x armor) s s'.
Proof. exact DEX_dot_factor_mono. Qed.
Theorem C12_dot_mono_LUK : forall (self : LUKBasedDamageLogic) s s' armor,
  0 <= LUKBasedDamageLogic_attack_range_constant self ->
  0 <= LUKBasedDamageLogic_mastery self -> LUKBasedDamageLogic_mastery self <= 1 ->
  Stat_nonneg s -> Stat_le s s' -> 0 <= armor -> 0 <= LUKBasedDamageLogic_get_armor_factor self s armor ->
  mono_on (fun x => LUKBasedDamageLogic_get_dot_factor self x armor) s s'.
Proof. exact LUK_dot_factor_mono. Qed.
Theorem C12_dot_mono_LUKDual : forall (self : LUKBasedDualSubDamageLogic) s s' armor,
  0 <= LUKBasedDualSubDamageLogic_attack_range_constant self ->
  0 <= LUKBasedDualSubDamageLogic_mastery self -> LUKBasedDualSubDamageLogic_mastery self <= 1 ->
  Stat_nonneg s -> Stat_le s s' -> 0 <= armor -> 0 <= LUKBasedDualSubDamageLogic_get_armor_factor self s armor ->
  mono_on (fun x => LUKBasedDualSubDamageLogic_get_dot_factor self x armor) s s'.
Proof. exact Dual_dot_factor_mono. Qed.

(* linear in skill damage% and hit count (same error behaviour for unknown tags) *)
Theorem C12_damage_linear_STR : forall self l c h,
  omap_close (c * h) (DamageCalculator_STR_get_damage self (scale_log c h l)) (DamageCalculator_STR_get_damage self l).
Proof. exact STR_damage_linear. Qed.
Theorem C12_damage_linear_INT : forall self l c h,
  omap_close (c * h) (DamageCalculator_INT_get_damage self (scale_log c h l)) (DamageCalculator_INT_get_damage self l).
Proof. exact INT_damage_linear. Qed.
Theorem C12_damage_linear_DEX : forall self l c h,
  omap_close (c * h) (DamageCalculator_DEX_get_damage self (scale_log c h l)) (DamageCalculator_DEX_get_damage self l).
Proof. exact DEX_damage_linear. Qed.
Theorem C12_damage_linear_LUK : forall self l c h,
  omap_close (c * h) (DamageCalculator_LUK_get_damage self (scale_log c h l)) (DamageCalculator_LUK_get_damage self l).
Proof. exact LUK_damage_linear. Qed.
Theorem C12_damage_linear_LUKDual : forall self l c h,
  omap_close (c * h) (DamageCalculator_LUKDual_get_damage self (scale_log c h l)) (DamageCalculator_LUKDual_get_damage self l).
Proof. exact Dual_damage_linear. Qed.

(* cooldown: x base cooldown (ms), reductions read from the action-stat block *)
Theorem C12_cooldown_mono_rate : forall s x r', 0 <= x -> wf_action s ->
  ActionStat_cooltime_reduce_rate s <= r' -> r' <= 100 ->
  ActionStat_calculate_cooldown (with_rate s r') x <= ActionStat_calculate_cooldown s x.
Proof. exact calc_cooldown_mono_rate. Qed.
Theorem C12_cooldown_mono_flat : forall s x c', 0 <= x -> wf_action s -> ActionStat_cooltime_reduce s <= c' ->
  ActionStat_calculate_cooldown (with_flat s c') x <= ActionStat_calculate_cooldown s x.
Proof. exact calc_cooldown_mono_flat. Qed.
Theorem C12_cooldown_le_base : forall s x, 0 <= x -> wf_action s -> ActionStat_calculate_cooldown s x <= x.
Proof. exact calc_cooldown_le_base. Qed.
Theorem C12_cooldown_floor : forall s x, 0 <= x -> wf_action s ->
  Qmin (Qmin x 1000) 5000 <= ActionStat_calculate_cooldown s x.
Proof. exact calc_cooldown_floor. Qed.
Theorem C12_cooldown_spec : forall s x,
  ActionStat_calculate_cooldown s x == cooldown x (ActionStat_cooltime_reduce_rate s) (ActionStat_cooltime_reduce s).
Proof. exact calculate_cooldown_eq. Qed.

(* level gap: for ALL integer levels *)
Theorem C12_level_adv_total : forall m c : Z, exists q, adv m c = Some q.
Proof. exact level_adv_total. Qed.
Theorem C12_level_adv_range : forall m c q, adv m c = Some q -> 0 <= q <= 12#10.
Proof. exact level_adv_range. Qed.
Theorem C12_level_adv_antitone : forall m1 m2 c q1 q2, (m1 <= m2)%Z ->
  adv m1 c = Some q1 -> adv m2 c = Some q2 -> q2 <= q1.
Proof. exact level_adv_antitone. Qed.

(* non-vacuity: the hypotheses are met by an ordinary character *)
Example C12_example :
  let s := Stat_add (Stat_all_stat 1000) (mkStat 0 0 0 0 10 0 0 0 0 0 0 0 500 0 20 0 50 30 100 50 20 90 0 0 0 0 0) in
  Stat_nonneg s /\ 0 <= STRBasedDamageLogic_get_armor_factor (mkSTRBasedDamageLogic (13#10) (9#10)) s 300
  /\ wf_action (mkActionStat 2000 0 0 5).
Proof.
  cbv zeta. split; [|split].
  - unfold Stat_nonneg, Stat_fields. repeat (apply Forall_cons; [cbn; discriminate|]). apply Forall_nil.
  - vm_compute. discriminate.
  - unfold wf_action; cbn. repeat split; discriminate.
Qed.

Print Assumptions C12_damage_mono_STR.
Print Assumptions C12_damage_mono_INT.
Print Assumptions C12_damage_mono_DEX.
Print Assumptions C12_damage_mono_LUK.
Print Assumptions C12_damage_mono_LUKDual.
Print Assumptions C12_dot_mono_STR.
Print Assumptions C12_dot_mono_INT.
Print Assumptions C12_dot_mono_DEX.
Print Assumptions C12_dot_mono_LUK.
Print Assumptions C12_dot_mono_LUKDual.
Print Assumptions C12_damage_linear_STR.
Print Assumptions C12_damage_linear_INT.
Print Assumptions C12_damage_linear_DEX.
Print Assumptions C12_damage_linear_LUK.
Print Assumptions C12_damage_linear_LUKDual.
Print Assumptions C12_cooldown_mono_rate.
Print Assumptions C12_cooldown_mono_flat.
Print Assumptions C12_cooldown_le_base.
Print Assumptions C12_cooldown_floor.
Print Assumptions C12_cooldown_spec.
Print Assumptions C12_level_adv_total.
Print Assumptions C12_level_adv_range.
Print Assumptions C12_level_adv_antitone.
