(* C07 (and the dispatch layer of C05, C06, C10): the event plumbing of the component dispatcher and the address rules of the store as
   GENERATED from the source (tools/tr_wrapper.py -> gen/WrapperSrc.v) are the definitions of Model/Dispatch.v. *)
From Coq Require Import List String Bool.
Import ListNotations.
From V Require Import Model.Dispatch Proofs.WrapperTie.
From G Require Import WrapperSrc.

Theorem C07_src_regularize_is_model_regularize :
  forall (Pay : Type) (m : maybe_events Pay), src_regularize Pay m = regularize Pay m.
Proof. exact @src_regularize_is_regularize. Qed.

Theorem C07_src_tag_events_is_model_tag_events :
  forall (Pay : Type) (empty_pay : Pay) (name method : string) (raw : list (event Pay)),
    src_tag_events Pay empty_pay name method raw = tag_events Pay empty_pay name method raw.
Proof. exact @src_tag_events_is_tag_events. Qed.

Theorem C07_src_rejected_answer_gets_no_accept :
  forall (Pay : Type) (empty_pay : Pay) (name method : string) (m : maybe_events Pay),
    existsb (fun e => match ev_tag e with Some t => String.eqb t REJECT | None => false end) (src_regularize Pay m) = true ->
    src_tag_events Pay empty_pay name method (src_regularize Pay m) = map (tag_event Pay method) (src_regularize Pay m).
Proof. exact @src_rejected_answer_gets_no_accept. Qed.

Theorem C07_src_find_mapping_name_is_model_find_mapping :
  forall (keys : list string) (target : string), src_find_mapping_name keys target = find_mapping_keys keys target.
Proof. exact @src_find_mapping_name_is_find_mapping_keys. Qed.

Theorem C07_src_bound_names_are_model_bound_names :
  forall (Pay Ent : Type) (c : component Ent Pay),
    src_get_bound_names Ent (c_default c) (src_adapter_binds (c_binds c)) = bound_names Ent Pay c.
Proof. exact @src_bound_names_is_bound_names. Qed.

Theorem C07_src_get_state_is_model_get_state :
  forall (Pay Ent : Type) (c : component Ent Pay) (st : store Ent),
    src_get_state Ent (comp_addr Ent Pay c) (c_default c) (src_adapter_binds (c_binds c)) st = get_state Ent Pay c st.
Proof. exact @src_get_state_is_get_state. Qed.

Theorem C07_src_set_state_is_model_set_state :
  forall (Pay Ent : Type) (c : component Ent Pay) (st : store Ent) (out : list (string * Ent)),
    src_set_state Ent (comp_addr Ent Pay c) (c_default c) (src_adapter_binds (c_binds c)) out st = set_state Ent Pay c st out.
Proof. exact @src_set_state_is_set_state. Qed.

Theorem C06_src_timer_is_model_timer :
  forall (Pay Ent : Type) (clock0 : Ent) (spent : Ent -> Pay -> option Ent) (a : action Pay) (s : rst Ent Pay),
    src_timer_call Pay Ent clock0 spent a s = timer_call Ent Pay clock0 spent a s.
Proof. exact @src_timer_call_is_timer_call. Qed.

Theorem C06_src_timer_includes_is_model_includes :
  forall s : string, src_timer_includes s = timer_includes s.
Proof. exact @src_timer_includes_is_timer_includes. Qed.

Theorem C07_src_message_signature_is_model_msig :
  forall name method : string, src_message_signature name method = msig name method.
Proof. exact @src_message_signature_is_msig. Qed.

Theorem C07_src_resolve_address_is_model_resolve :
  forall cur name : string, src_resolve_address cur name = resolve cur name.
Proof. exact @src_resolve_address_is_resolve. Qed.

Theorem C07_src_local_is_model_local_addr :
  forall cur a : string, src_local cur a = local_addr cur a.
Proof. exact @src_local_is_local_addr. Qed.

Print Assumptions C07_src_regularize_is_model_regularize.
Print Assumptions C07_src_tag_events_is_model_tag_events.
Print Assumptions C07_src_rejected_answer_gets_no_accept.
Print Assumptions C07_src_find_mapping_name_is_model_find_mapping.
Print Assumptions C07_src_bound_names_are_model_bound_names.
Print Assumptions C07_src_get_state_is_model_get_state.
Print Assumptions C07_src_set_state_is_model_set_state.
Print Assumptions C06_src_timer_is_model_timer.
Print Assumptions C06_src_timer_includes_is_model_includes.
Print Assumptions C07_src_message_signature_is_model_msig.
Print Assumptions C07_src_resolve_address_is_model_resolve.
Print Assumptions C07_src_local_is_model_local_addr.
