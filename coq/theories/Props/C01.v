(* C01  Resuming from any recorded point reproduces the uninterrupted run.  Statements quantify over EVERY instantiation of the engine's parameters: store type, play function (hence every router, job, environment), save/restore with restore (save s) = s, clock, console inspector, hash function, and over every plan cs and cut index k.  sim = same logs, same current store, same buffered events.  Proofs: Model/Engine.v. *)
From V.Model Require Import Engine.

Theorem C01_resume_fresh_engine :
  forall (St Ev Act Ck H T D Name : Type) (play : St -> Act -> St * list Ev) 
          (save : St -> Ck) (restore : Ck -> St),
        (forall s : St, restore (save s) = s) ->
        forall (clock : St -> T) (inspect : Name -> St -> D)
          (mk_act : Name -> meth -> option T -> Act) (star : Name) (ev_name : Ev -> Name)
          (ev_delay : Ev -> option T) (name_eqb : Name -> Name -> bool) 
          (tzero : T) (tpos tis0 : T -> bool) (H0 : H)
          (hashf : H -> cmd T Name -> list (T * Act * list Ev) -> H)
          (init : oplog Ev Act Ck H T D Name) (cs : list (cmd T Name)) (k : nat)
          (e_full : eng St Ev Act Ck H T D Name),
        last_plog Ev Act Ck H T D Name (init :: nil) <> None ->
        run St Ev Act Ck H T D Name play save restore clock inspect mk_act star ev_name ev_delay
          name_eqb tzero tpos tis0 H0 hashf (of_logs St Ev Act Ck H T D Name (init :: nil)) cs =
        Some e_full ->
        exists e_cut e_res : eng St Ev Act Ck H T D Name,
          run St Ev Act Ck H T D Name play save restore clock inspect mk_act star ev_name ev_delay
            name_eqb tzero tpos tis0 H0 hashf (of_logs St Ev Act Ck H T D Name (init :: nil))
            (List.firstn k cs) = Some e_cut /\
          run St Ev Act Ck H T D Name play save restore clock inspect mk_act star ev_name ev_delay
            name_eqb tzero tpos tis0 H0 hashf
            (reload St Ev Act Ck H T D Name (logs St Ev Act Ck H T D Name e_cut)) 
            (List.skipn k cs) = Some e_res /\
          logs St Ev Act Ck H T D Name e_res = logs St Ev Act Ck H T D Name e_full /\
          sim St Ev Act Ck H T D Name restore e_res e_full.
Proof. exact @C01_fresh. Qed.

Theorem C01_resume_any_coherent_engine :
  forall (St Ev Act Ck H T D Name : Type) (play : St -> Act -> St * list Ev) 
          (save : St -> Ck) (restore : Ck -> St),
        (forall s : St, restore (save s) = s) ->
        forall (clock : St -> T) (inspect : Name -> St -> D)
          (mk_act : Name -> meth -> option T -> Act) (star : Name) (ev_name : Ev -> Name)
          (ev_delay : Ev -> option T) (name_eqb : Name -> Name -> bool) 
          (tzero : T) (tpos tis0 : T -> bool) (H0 : H)
          (hashf : H -> cmd T Name -> list (T * Act * list Ev) -> H)
          (e0 : eng St Ev Act Ck H T D Name) (cs : list (cmd T Name)) (k : nat)
          (e_full e_cut : eng St Ev Act Ck H T D Name),
        Coh St Ev Act Ck H T D Name restore e0 ->
        run St Ev Act Ck H T D Name play save restore clock inspect mk_act star ev_name ev_delay
          name_eqb tzero tpos tis0 H0 hashf e0 cs = Some e_full ->
        run St Ev Act Ck H T D Name play save restore clock inspect mk_act star ev_name ev_delay
          name_eqb tzero tpos tis0 H0 hashf e0 (List.firstn k cs) = Some e_cut ->
        exists e_res : eng St Ev Act Ck H T D Name,
          run St Ev Act Ck H T D Name play save restore clock inspect mk_act star ev_name ev_delay
            name_eqb tzero tpos tis0 H0 hashf
            (reload St Ev Act Ck H T D Name (logs St Ev Act Ck H T D Name e_cut)) 
            (List.skipn k cs) = Some e_res /\ sim St Ev Act Ck H T D Name restore e_res e_full.
Proof. exact @C01_resume_eq. Qed.

Theorem C01_state_in_log :
  forall (St Ev Act Ck H T D Name : Type) (play : St -> Act -> St * list Ev) 
          (save : St -> Ck) (restore : Ck -> St) (clock : St -> T) (inspect : Name -> St -> D)
          (mk_act : Name -> meth -> option T -> Act) (star : Name) (ev_name : Ev -> Name)
          (ev_delay : Ev -> option T) (name_eqb : Name -> Name -> bool) 
          (tzero : T) (tpos tis0 : T -> bool) (H0 : H)
          (hashf : H -> cmd T Name -> list (T * Act * list Ev) -> H)
          (e1 e2 : eng St Ev Act Ck H T D Name) (cs : list (cmd T Name)),
        Coh St Ev Act Ck H T D Name restore e1 ->
        Coh St Ev Act Ck H T D Name restore e2 ->
        logs St Ev Act Ck H T D Name e1 = logs St Ev Act Ck H T D Name e2 ->
        match
          run St Ev Act Ck H T D Name play save restore clock inspect mk_act star ev_name ev_delay
            name_eqb tzero tpos tis0 H0 hashf e1 cs
        with
        | Some a =>
            match
              run St Ev Act Ck H T D Name play save restore clock inspect mk_act star ev_name
                ev_delay name_eqb tzero tpos tis0 H0 hashf e2 cs
            with
            | Some b =>
                logs St Ev Act Ck H T D Name a = logs St Ev Act Ck H T D Name b /\
                sim St Ev Act Ck H T D Name restore a b
            | None => False
            end
        | None =>
            match
              run St Ev Act Ck H T D Name play save restore clock inspect mk_act star ev_name
                ev_delay name_eqb tzero tpos tis0 H0 hashf e2 cs
            with
            | Some _ => False
            | None => True
            end
        end.
Proof. exact @C01_state_in_log. Qed.

Theorem C01_exec_preserves_coherence :
  forall (St Ev Act Ck H T D Name : Type) (play : St -> Act -> St * list Ev) 
          (save : St -> Ck) (restore : Ck -> St),
        (forall s : St, restore (save s) = s) ->
        forall (clock : St -> T) (inspect : Name -> St -> D)
          (mk_act : Name -> meth -> option T -> Act) (star : Name) (ev_name : Ev -> Name)
          (ev_delay : Ev -> option T) (name_eqb : Name -> Name -> bool) 
          (tzero : T) (tpos tis0 : T -> bool) (H0 : H)
          (hashf : H -> cmd T Name -> list (T * Act * list Ev) -> H)
          (e : eng St Ev Act Ck H T D Name) (c : cmd T Name) (e' : eng St Ev Act Ck H T D Name),
        Coh St Ev Act Ck H T D Name restore e ->
        exec St Ev Act Ck H T D Name play save restore clock inspect mk_act star ev_name ev_delay
          name_eqb tzero tpos tis0 H0 hashf e c = Some e' -> Coh St Ev Act Ck H T D Name restore e'.
Proof. exact @exec_coh. Qed.

Theorem C01_reloaded_engine_coherent :
  forall (St Ev Act Ck H T D Name : Type) (restore : Ck -> St)
          (ls : list (oplog Ev Act Ck H T D Name)),
        last_plog Ev Act Ck H T D Name ls <> None ->
        Coh St Ev Act Ck H T D Name restore (of_logs St Ev Act Ck H T D Name ls).
Proof. exact @coh_of_logs. Qed.

Print Assumptions C01_resume_fresh_engine.
Print Assumptions C01_resume_any_coherent_engine.
Print Assumptions C01_state_in_log.
Print Assumptions C01_exec_preserves_coherence.
Print Assumptions C01_reloaded_engine_coherent.
