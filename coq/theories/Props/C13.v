(* C13  Reports add up: totals, shares, DPM and the best dealing window.

   WINDOW.  WindowSrc.find_maximum_dealing_interval L damage_seq is
   MaximumDealingIntervalFeature(L)._find_maximum_dealing_interval(damage_seq) REGENERATED from the
   current simaple/simulate/report/feature.py by tools/tr_window.py (statement by statement: same
   loop, same index updates, same strict/non-strict comparisons, same returned tuple);
   C13_window_src_is_model proves it equal to the hand-written Model/Window.v.  Clocks, damages
   and L are Z (the code uses only + - and comparisons on them, so dyadic/binary64 data scale to
   integers; rounding of the running float sum is outside the model); damage_seq is any list of
   (clock, damage), of any length.
     sorted l        clocks non-decreasing            nonneg l   damages >= 0
     reaches L l s e   s <= e < len, clk e - clk s >= L  ("a window [s,e) of at least L")
     shortest L l s e  reaches, and no earlier e' >= s reaches ("the shortest one from s")
     slice_sum l s e   damage_seq[s:e] summed (the end entry e is excluded: half-open in time)
     naive L l         exhaustive search: for every start the shortest window, first strict maximum,
                       (0,0,0) when there is none / none positive.
   Proved for ALL L > 0 and ALL sorted l (equal clocks, zero or negative damages, empty and
   singleton lists, L beyond the whole run included):
     C13_window_two_pointer_eq_naive   the two-pointer scan returns exactly naive L l
     C13_window_indices_reproduce      damage_seq[best_start:best_end] sums to best_dealing
     C13_window_is_maximum             best_dealing >= the damage of the shortest window of every
                                       start; it is attained by (best_start, best_end), the first
                                       start attaining it; or it is 0 with indices (0,0)
     C13_window_shortest_is_least      with non-negative damages every window of at least L from s
                                       contains the shortest one and has at least its damage:
                                       the reported value is max over starts of min over the
                                       windows of at least L from that start
     C13_window_reaches_has_shortest   a start has a window of at least L iff it has a shortest one
   READING of "maximum damage over all windows of at least the requested length": the family is
   one window per start position, the shortest that reaches L (this is what the code, its unit
   tests and DESIGN section 7 mean).  The other reading -- maximum over ALL windows whose span is
   >= L -- is not what the function computes and is trivial for non-negative damages (the whole
   run wins): C13_window_literal_reading_differs exhibits [0,1,2,3] x damage 1, L = 1.
   OUTSIDE the domain: C13_window_nonpositive_length_raises -- L <= 0 on a non-empty sorted list
   raises IndexError (start overtakes end); the empty list returns (0,0,0) for every L.
   C13_window_fuel_enough: the model's loop fuel 2*len+2 is never exhausted, on any input
   (the Python loop terminates).  C13_window_feature: the public method is the scan applied to
   [(entry.clock, calculate_damage(entry))].

   REPORTS (Model/Report.v, hand-written, tied by tools/lib/h_report.py), over Q, for every name
   type and key equality neqb, buff type and addition, damage function gd = get_damage, every
   event list / entry list:
     C13_damage_log_once       no log iff tag not DAMAGE/DOT or damage = 0 or hit = 0; otherwise
                               exactly one log, carrying the entry's buff (+ the event's modifier);
                               an entry's logs are the contributing events' logs in order
     C13_total_eq_sum_actions  calculate_total_damage = sum of calculate_damage over entries
                               = sum of gd over all logs
     C13_total_eq_sum_skills   the share table's values sum to the total;  C13_skill_value: each
                               value is the sum of that skill's logs (neqb = equality of names)
     C13_shares_nonneg         gd >= 0 -> every share >= 0      (whenever compute() is defined)
     C13_shares_sum_1          total <> 0 -> shares defined, sum to 1, one per table key
     C13_dpm_def               non-empty, final clock <> 0 -> dpm = total / clock * 60000, i.e.
                               dpm * (clock / 60000 ms) = total;  C13_dpm_undefined: exactly the
                               empty list (IndexError) and final clock 0 (ZeroDivisionError) fail *)

From Coq Require Import ZArith QArith List.
From V.Lib Require Import PyLoop.
From V.Model Require Import Window Report.
From V.Proofs Require Import Window WindowSpec WindowTie Report.
From G Require WindowSrc.

Open Scope Z_scope.

Theorem C13_window_two_pointer_eq_naive :
  forall (L : Z) (l : damage_seq_t),
        0 < L -> sorted l -> WindowSrc.find_maximum_dealing_interval L l = Ok (naive L l).
Proof. exact @window_two_pointer_eq_naive. Qed.

Theorem C13_window_indices_reproduce :
  forall (L : Z) (l : damage_seq_t) (w : Z) (bs be : nat),
        0 < L ->
        sorted l ->
        WindowSrc.find_maximum_dealing_interval L l = Ok (w, bs, be) -> slice_sum l bs be = w.
Proof. exact @window_indices_reproduce. Qed.

Theorem C13_window_is_maximum :
  forall (L : Z) (l : damage_seq_t) (w : Z) (bs be : nat),
        0 < L ->
        sorted l ->
        WindowSrc.find_maximum_dealing_interval L l = Ok (w, bs, be) ->
        0 <= w /\
        (forall s e : nat, shortest L l s e -> slice_sum l s e <= w) /\
        (w = 0 /\ bs = 0%nat /\ be = 0%nat \/
         shortest L l bs be /\
         0 < w /\ (forall s e : nat, (s < bs)%nat -> shortest L l s e -> slice_sum l s e < w)).
Proof. exact @window_is_maximum. Qed.

Theorem C13_window_shortest_is_least :
  forall (L : Z) (l : damage_seq_t) (s e e' : nat),
        nonneg l ->
        shortest L l s e -> reaches L l s e' -> (e <= e')%nat /\ slice_sum l s e <= slice_sum l s e'.
Proof. exact @shortest_is_least. Qed.

Theorem C13_window_reaches_has_shortest :
  forall (L : Z) (l : damage_seq_t) (s e' : nat),
        reaches L l s e' -> exists e : nat, shortest L l s e.
Proof. exact @reaches_has_shortest. Qed.

Theorem C13_window_literal_reading_differs :
  exists (L : Z) (l : damage_seq_t) (s e : nat) (w : Z) (bs be : nat),
          0 < L /\
          sorted l /\
          nonneg l /\
          reaches L l s e /\
          WindowSrc.find_maximum_dealing_interval L l = Ok (w, bs, be) /\ w < slice_sum l s e.
Proof. exact @window_literal_reading_differs. Qed.

Theorem C13_window_nonpositive_length_raises :
  forall (L : Z) (l : damage_seq_t),
        L <= 0 -> sorted l -> l <> nil -> WindowSrc.find_maximum_dealing_interval L l = IndexError.
Proof. exact @window_nonpositive_length_raises. Qed.

Theorem C13_window_empty_run :
  forall L : Z, WindowSrc.find_maximum_dealing_interval L nil = Ok (0, 0%nat, 0%nat).
Proof. exact @window_empty_run. Qed.

Theorem C13_window_fuel_enough :
  forall (L : Z) (l : list (Z * Z)), WindowSrc.find_maximum_dealing_interval L l <> OutOfFuel.
Proof. exact @window_fuel_enough. Qed.

Theorem C13_window_src_is_model :
  forall (L : Z) (l : list (Z * Z)),
        WindowSrc.find_maximum_dealing_interval L l = find_maximum_dealing_interval L l.
Proof. exact @src_find_maximum_dealing_interval. Qed.

Theorem C13_window_feature :
  forall (Entry : Type) (clock damage : Entry -> Z) (L : Z) (es : list Entry),
        WindowSrc.feature_find_maximum_dealing_interval clock damage L es =
        WindowSrc.find_maximum_dealing_interval L (map (fun e : Entry => (clock e, damage e)) es).
Proof. exact @window_feature. Qed.

Close Scope Z_scope.

Open Scope Q_scope.

Theorem C13_damage_log_once :
  forall (Name Buff : Type) (badd : Buff -> Buff -> Buff) (evs : list (event Name Buff))
          (b : Buff),
        (forall e : event Name Buff,
         create_damage_log Name Buff badd e b = None <->
         is_damage_tag (ev_tag Name Buff e) = false \/
         ev_damage Name Buff e == 0 \/ ev_hit Name Buff e == 0) /\
        (forall e : event Name Buff,
         create_damage_log Name Buff badd e b <> None ->
         create_damage_log Name Buff badd e b =
         Some
           {|
             l_name := ev_name Name Buff e;
             l_damage := ev_damage Name Buff e;
             l_hit := ev_hit Name Buff e;
             l_buff := match ev_modifier Name Buff e with
                       | Some m => badd b m
                       | None => b
                       end;
             l_tag := ev_tag Name Buff e
           |}) /\
        build_logs Name Buff badd evs b =
        map (log_of Name Buff badd b) (filter (contributes Name Buff) evs) /\
        length (build_logs Name Buff badd evs b) = length (filter (contributes Name Buff) evs) /\
        build_logs Name Buff badd (filter (contributes Name Buff) evs) b =
        build_logs Name Buff badd evs b.
Proof. exact @damage_log_once_thm. Qed.

Theorem C13_total_eq_sum_actions :
  forall (Name Buff : Type) (gd : dlog Name Buff -> Q) (es : list (entry Name Buff)),
        calculate_total_damage Name Buff gd es == qsum (map (calculate_damage Name Buff gd) es) /\
        calculate_total_damage Name Buff gd es == qsum (map gd (all_logs Name Buff es)).
Proof. exact @total_eq_sum_actions_thm. Qed.

Theorem C13_total_eq_sum_skills :
  forall (Name : Type) (neqb : Name -> Name -> bool) (Buff : Type) 
          (gd : dlog Name Buff -> Q) (es : list (entry Name Buff)),
        py_sum (map snd (share_acc Name neqb Buff gd es)) == calculate_total_damage Name Buff gd es.
Proof. exact @total_eq_sum_skills_thm. Qed.

Theorem C13_skill_value :
  forall (Name : Type) (neqb : Name -> Name -> bool) (Buff : Type) (gd : dlog Name Buff -> Q),
        (forall a b : Name, neqb a b = true <-> a = b) ->
        forall (es : list (entry Name Buff)) (n : Name),
        lookup_val Name neqb (share_acc Name neqb Buff gd es) n ==
        skill_damage Name neqb Buff gd es n.
Proof. exact @skill_value_thm. Qed.

Theorem C13_shares_nonneg :
  forall (Name : Type) (neqb : Name -> Name -> bool) (Buff : Type) 
          (gd : dlog Name Buff -> Q) (es : list (entry Name Buff)) (sh : list (Name * Q)),
        (forall l : dlog Name Buff, 0 <= gd l) ->
        shares Name neqb Buff gd es = Some sh -> Forall (fun p : Name * Q => 0 <= snd p) sh.
Proof. exact @shares_nonneg_thm. Qed.

Theorem C13_shares_sum_1 :
  forall (Name : Type) (neqb : Name -> Name -> bool) (Buff : Type) 
          (gd : dlog Name Buff -> Q) (es : list (entry Name Buff)),
        ~ calculate_total_damage Name Buff gd es == 0 ->
        exists sh : list (Name * Q),
          shares Name neqb Buff gd es = Some sh /\
          py_sum (map snd sh) == 1 /\ map fst sh = map fst (share_acc Name neqb Buff gd es).
Proof. exact @shares_sum_1_thm. Qed.

Theorem C13_dpm_def :
  forall (Name Buff : Type) (gd : dlog Name Buff -> Q) (es : list (entry Name Buff))
          (last : entry Name Buff) (front : list (entry Name Buff)),
        es = front ++ last :: nil ->
        ~ e_clock Name Buff last == 0 ->
        exists d : Q,
          calculate_dpm Name Buff gd es = Some d /\
          d == calculate_total_damage Name Buff gd es / e_clock Name Buff last * 60000 /\
          d * (e_clock Name Buff last / 60000) == calculate_total_damage Name Buff gd es.
Proof. exact @dpm_def_thm. Qed.

Theorem C13_dpm_undefined :
  forall (Name Buff : Type) (gd : dlog Name Buff -> Q) (es : list (entry Name Buff)),
        calculate_dpm Name Buff gd es = None <->
        es = nil \/
        (exists (front : list (entry Name Buff)) (last : entry Name Buff),
           es = front ++ last :: nil /\ e_clock Name Buff last == 0).
Proof. exact @dpm_undefined_thm. Qed.

Close Scope Q_scope.

Print Assumptions C13_window_two_pointer_eq_naive.
Print Assumptions C13_window_indices_reproduce.
Print Assumptions C13_window_is_maximum.
Print Assumptions C13_window_shortest_is_least.
Print Assumptions C13_window_reaches_has_shortest.
Print Assumptions C13_window_literal_reading_differs.
Print Assumptions C13_window_nonpositive_length_raises.
Print Assumptions C13_window_empty_run.
Print Assumptions C13_window_fuel_enough.
Print Assumptions C13_window_src_is_model.
Print Assumptions C13_window_feature.
Print Assumptions C13_damage_log_once.
Print Assumptions C13_total_eq_sum_actions.
Print Assumptions C13_total_eq_sum_skills.
Print Assumptions C13_skill_value.
Print Assumptions C13_shares_nonneg.
Print Assumptions C13_shares_sum_1.
Print Assumptions C13_dpm_def.
Print Assumptions C13_dpm_undefined.
