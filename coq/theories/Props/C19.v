(* C19  Optimizers stay within budget and bounds, keep presets, never do worse.

   Model: Model/Greedy.v = simaple/optimizer/optimizer.py (get_stepped_target = stepped, get_reward = reward with the
   sentinel -999 for an illegal step / a step over budget and None for ZeroDivisionError, get_optimal_increment,
   optimize = run with fuel maximum_iteration_count), step_iterator.py (cumulated), weapon_potential_optimizer.py
   (wp_candidates, wp_optimal, wp_full_optimal).  All theorems are for ALL value, cost : state -> Q, all maxima
   mx : slot -> nat, all budgets, all start states, all increment lists (hence every DiscreteTarget subclass, damage
   logic, reference stat, armour, preset); the C19_coded theorems specialise to what the code configures: one maximum M
   for all slots and the increments of cumulated_iterator(len(state), step_size).

   Step-wise optimizers (hyper stat, union squad, union occupation, link):
   * C19_along_the_run / C19_run_result: every state visited after the start state costs at most the budget, is
     slot-wise >= the start state (pre-assigned choices kept, no slot dropped) and every slot is <= max(its start
     value, its maximum); the result is the last visited state.  If the START state is already over budget the
     guarantee is only "result = start or cost(result) <= budget"; with a cost that never falls along a legal
     increment the result then IS the start state (C19_over_budget_start_unchanged).
   * never worse: the code accepts the best increment while its reward (value'/value - 1)/(cost' - cost) exceeds
     INITIAL_REWARD = -1, NOT 0.  So value(result) >= value(start) is not unconditional
     (C19_never_worse_needs_monotone: positive values 100, 90, 80, unit costs: the optimizer ends at 80).  It holds
     under the weakest natural hypothesis "the value does not fall along an accepted (C19_never_worse) / any legal
     (C19_coded_never_worse) increment", which for the real targets is C12's monotone damage factor plus non-negative
     option tables, monitored on every run.  What an accepted step does guarantee: C19_accepted_step_gain.
   * local optimality at termination (C19_local_optimality, C19_coded_locally_optimal): no multiset of at most
     min(step_size, 4) raises that is legal, affordable and costs more has a value >= the result's (for a positive
     value); with a monotone objective nothing legal is affordable any more (C19_coded_exhausts_budget).
     C19_increment_order_irrelevant: legality and result of an increment do not depend on the order of its raises.
   * C19_deterministic_up_to_Qeq (the result is a function of value, cost, budget up to ==), C19_termination /
     C19_coded_terminates (fuel >= sum of maxima - state never raises MaximumOptimizationStepExceed;
     C19_termination_by_measure / C19_coded_terminates_by_cost: likewise with any measure every accepted step lowers,
     e.g. the integer budget left, for the hyper stat target whose maximum step is 999999),
     C19_steps_bound, C19_no_type_error (`raise TypeError` is dead code), C19_no_zero_division / C19_total /
     C19_coded_total (non-zero value, cost changing with every increment).
   * iterator (the four C19_iterator theorems): cumulated_iterator(n, d) yields each multiset of 1..min(d, 4) slot indices below n
     exactly once and nothing else (depths above 4 add nothing).
   Weapon potential: C19_wp_full_is_argmax / C19_wp_single_is_argmax: the result is the empty potential (only when no
   legal combination has a positive reward) or a legal combination of the useful lines (a line of each tier, at most
   two boss-damage and two ignored-defence lines, no boss-damage line on the emblem) whose reward is >= that of every
   such combination.  C19_wp_prune_safe: it is also >= every legal combination of ALL lines, provided each tier has a
   useful line that is neither boss damage nor ignored defence and replacing useless lines by it does not lower the
   objective (hypotheses; checked by brute force on every monitored configuration).
   Clone: C19_clone_targets_ok (vm_compute over gen/CloneFields.v, regenerated from the source on every run): for every
   DiscreteTarget subclass each attribute read by get_value/get_cost/get_result is assigned in __init__ from a
   parameter that clone() forwards from that same attribute, and every constructor parameter is forwarded;
   C19_clone_preserves_objective: hence any objective depending on those attributes only is unchanged by clone();
   C19_clone_objective_reads_armor: the configured armour is one of them. *)
From Coq Require Import List QArith Bool Arith ZArith Permutation String.
From V.Model Require Import Greedy GreedyInst GreedyClone.
From V.Proofs Require Import GreedyP GreedyIter GreedyCoded GreedyWP GreedyCloneP.
From G Require Import CloneFields.

Theorem C19_along_the_run :
  forall (value cost : state -> Q) (mx : nat -> nat) (budget : Q) (incs : list (list nat)) 
          (fuel : nat) (st : state),
        Forall (fun s : state => visited_ok mx st s /\ (cost s <= budget)%Q)
          (trace value cost mx budget incs fuel st).
Proof. exact @trace_inv. Qed.

Theorem C19_result_is_last_visited :
  forall (value cost : state -> Q) (mx : nat -> nat) (budget : Q) (incs : list (list nat)) 
          (fuel : nat) (st : state) (k : nat) (st' : state) (k' : nat),
        run value cost mx budget incs fuel st k = Done st' k' ->
        st' = last (trace value cost mx budget incs fuel st) st /\
        k' = k + Datatypes.length (trace value cost mx budget incs fuel st) /\
        all_rejected value cost mx budget incs st'.
Proof. exact @run_trace. Qed.

Theorem C19_run_result :
  forall (value cost : state -> Q) (mx : nat -> nat) (budget : Q) (incs : list (list nat)) 
          (fuel : nat) (st : state) (k : nat) (st' : state) (k' : nat),
        run value cost mx budget incs fuel st k = Done st' k' ->
        le_state st st' /\
        (forall j : nat, nth j st' 0 <= Nat.max (nth j st 0) (mx j)) /\
        (st' = st /\ k' = k \/ k < k' /\ (cost st' <= budget)%Q) /\ all_rejected value cost mx budget incs st'.
Proof. exact @run_result. Qed.

Theorem C19_local_optimality :
  forall (value cost : state -> Q) (mx : nat -> nat) (budget : Q) (incs : list (list nat)) (st : state),
        all_rejected value cost mx budget incs st ->
        (0 < value st)%Q ->
        forall (inc : list nat) (st2 : state),
        In inc incs ->
        stepped mx st inc = Some st2 ->
        (cost st2 <= budget)%Q ->
        (cost st < cost st2)%Q ->
        (value st2 <= value st * (1 - (cost st2 - cost st)))%Q /\ (value st2 < value st)%Q.
Proof. exact @rejected_no_gain. Qed.

Theorem C19_never_worse :
  forall (value cost : state -> Q) (mx : nat -> nat) (budget : Q) (incs : list (list nat)),
        (forall (s : state) (inc : list nat) (s' : state),
         chosen value cost mx budget incs s inc s' -> (value s <= value s')%Q) ->
        forall (fuel : nat) (st : state) (k : nat) (st' : state) (k' : nat),
        run value cost mx budget incs fuel st k = Done st' k' -> (value st <= value st')%Q.
Proof. exact @run_never_worse. Qed.

Theorem C19_values_along_run :
  forall (value cost : state -> Q) (mx : nat -> nat) (budget : Q) (incs : list (list nat)),
        (forall (s : state) (inc : list nat) (s' : state),
         chosen value cost mx budget incs s inc s' -> (value s <= value s')%Q) ->
        forall (fuel : nat) (st : state),
        chain (fun a b : state => (value a <= value b)%Q) st (trace value cost mx budget incs fuel st) /\
        (value st <= value (last (trace value cost mx budget incs fuel st) st))%Q.
Proof. exact @trace_values_mono. Qed.

Theorem C19_accepted_step_gain :
  forall (value cost : state -> Q) (mx : nat -> nat) (budget : Q) (incs : list (list nat)) 
          (s : state) (inc : list nat) (s' : state),
        chosen value cost mx budget incs s inc s' ->
        (0 < value s)%Q -> (cost s < cost s')%Q -> (value s * (1 - (cost s' - cost s)) < value s')%Q.
Proof. exact @chosen_gain. Qed.

Theorem C19_never_worse_needs_monotone :
  exists
          (value cost : state -> Q) (M : nat) (budget : Q) (step_size max_iter : nat) 
        (st st' : state) (k : nat),
          (forall s : state, (0 < value s)%Q) /\
          optimize_coded value cost M budget step_size max_iter st = Done st' k /\ (value st' < value st)%Q.
Proof. exact @never_worse_needs_monotone. Qed.

Theorem C19_over_budget_start_unchanged :
  forall (value cost : state -> Q) (mx : nat -> nat) (budget : Q) (incs : list (list nat)),
        (forall (s : state) (inc : list nat) (s' : state), stepped mx s inc = Some s' -> (cost s <= cost s')%Q) ->
        forall (fuel : nat) (st : state) (k : nat),
        (budget < cost st)%Q -> run value cost mx budget incs fuel st k = Done st k.
Proof. exact @over_budget_start_unchanged. Qed.

Theorem C19_no_type_error :
  forall (value cost : state -> Q) (mx : nat -> nat) (budget : Q) (incs : list (list nat)) 
          (fuel : nat) (st : state) (k : nat), run value cost mx budget incs fuel st k <> Impossible.
Proof. exact @run_not_impossible. Qed.

Theorem C19_termination :
  forall (value cost : state -> Q) (mx : nat -> nat) (budget : Q) (incs : list (list nat)) 
          (fuel : nat) (st : list nat) (k : nat),
        in_range incs (Datatypes.length st) ->
        pot mx 0 st <= fuel -> run value cost mx budget incs fuel st k <> IterExceeded.
Proof. exact @run_fuel_enough. Qed.

Theorem C19_termination_by_measure :
  forall (value cost : state -> Q) (mx : nat -> nat) (budget : Q) (incs : list (list nat))
          (mu : state -> nat),
        (forall (s : state) (inc : list nat) (s' : state),
         chosen value cost mx budget incs s inc s' -> mu s' < mu s) ->
        forall (fuel : nat) (st : state) (k : nat),
        mu st <= fuel -> run value cost mx budget incs fuel st k <> IterExceeded.
Proof. exact @run_fuel_enough_measure. Qed.

Theorem C19_steps_bound :
  forall (value cost : state -> Q) (mx : nat -> nat) (budget : Q) (incs : list (list nat)) 
          (fuel : nat) (st : list nat) (k : nat) (st' : state) (k' : nat),
        in_range incs (Datatypes.length st) ->
        run value cost mx budget incs fuel st k = Done st' k' -> k' + pot mx 0 st' <= k + pot mx 0 st.
Proof. exact @run_steps_bound. Qed.

Theorem C19_no_zero_division :
  forall (value cost : state -> Q) (mx : nat -> nat) (budget : Q) (incs : list (list nat)),
        (forall s : state, ~ (value s == 0)%Q) ->
        (forall (s : state) (inc : list nat) (s' : state),
         In inc incs -> stepped mx s inc = Some s' -> ~ (cost s' - cost s == 0)%Q) ->
        forall (fuel : nat) (st : state) (k : nat), run value cost mx budget incs fuel st k <> Crash.
Proof. exact @run_no_crash. Qed.

Theorem C19_total :
  forall (value cost : state -> Q) (mx : nat -> nat) (budget : Q) (incs : list (list nat)),
        (forall s : state, ~ (value s == 0)%Q) ->
        (forall (s : state) (inc : list nat) (s' : state),
         In inc incs -> stepped mx s inc = Some s' -> ~ (cost s' - cost s == 0)%Q) ->
        forall (fuel : nat) (st : list nat) (k : nat),
        in_range incs (Datatypes.length st) ->
        pot mx 0 st <= fuel ->
        exists (st' : state) (k' : nat), run value cost mx budget incs fuel st k = Done st' k'.
Proof. exact @run_total. Qed.

Theorem C19_deterministic_up_to_Qeq :
  forall (value cost value' cost' : state -> Q) (mx mx' : nat -> nat) (budget budget' : Q)
          (incs : list (list nat)),
        (forall s : state, (value s == value' s)%Q) ->
        (forall s : state, (cost s == cost' s)%Q) ->
        (forall i : nat, mx i = mx' i) ->
        (budget == budget')%Q ->
        forall (fuel : nat) (st : state) (k : nat),
        run value cost mx budget incs fuel st k = run value' cost' mx' budget' incs fuel st k.
Proof. exact @run_ext. Qed.

Theorem C19_increment_order_irrelevant :
  forall (mx : nat -> nat) (a b : list nat) (st : state),
        Permutation a b -> stepped mx st a = stepped mx st b.
Proof. exact @stepped_perm. Qed.

Theorem C19_coded_result :
  forall (value cost : state -> Q) (M : nat) (budget : Q) (step_size max_iter : nat) 
          (st st' : state) (k : nat),
        optimize_coded value cost M budget step_size max_iter st = Done st' k ->
        le_state st st' /\
        (forall j : nat, nth j st' 0 <= Nat.max (nth j st 0) M) /\
        (st' = st /\ k = 0 \/ 0 < k /\ (cost st' <= budget)%Q).
Proof. exact @coded_result. Qed.

Theorem C19_coded_locally_optimal :
  forall (value cost : state -> Q) (M : nat) (budget : Q) (step_size max_iter : nat) 
          (st st' : state) (k : nat),
        optimize_coded value cost M budget step_size max_iter st = Done st' k ->
        (0 < value st')%Q ->
        forall (m : list nat) (s2 : state),
        candidate step_size st' m ->
        stepped (fun _ : nat => M) st' m = Some s2 ->
        (cost s2 <= budget)%Q ->
        (cost st' < cost s2)%Q ->
        (value s2 <= value st' * (1 - (cost s2 - cost st')))%Q /\ (value s2 < value st')%Q.
Proof. exact @coded_locally_optimal. Qed.

Theorem C19_coded_never_worse :
  forall (value cost : state -> Q) (M : nat) (budget : Q) (step_size max_iter : nat),
        (forall (s : state) (inc : list nat) (s' : state),
         stepped (fun _ : nat => M) s inc = Some s' -> (value s <= value s')%Q) ->
        forall (st st' : state) (k : nat),
        optimize_coded value cost M budget step_size max_iter st = Done st' k -> (value st <= value st')%Q.
Proof. exact @coded_never_worse. Qed.

Theorem C19_coded_exhausts_budget :
  forall (value cost : state -> Q) (M : nat) (budget : Q) (step_size max_iter : nat),
        (forall s : state, (0 < value s)%Q) ->
        (forall (s : state) (inc : list nat) (s' : state),
         stepped (fun _ : nat => M) s inc = Some s' -> (value s <= value s')%Q) ->
        (forall (s : state) (inc : list nat) (s' : state),
         inc <> nil -> stepped (fun _ : nat => M) s inc = Some s' -> (cost s < cost s')%Q) ->
        forall (st st' : state) (k : nat),
        optimize_coded value cost M budget step_size max_iter st = Done st' k ->
        forall (m : list nat) (s2 : state),
        candidate step_size st' m -> stepped (fun _ : nat => M) st' m = Some s2 -> (budget < cost s2)%Q.
Proof. exact @coded_exhausts. Qed.

Theorem C19_coded_terminates :
  forall (value cost : state -> Q) (M : nat) (budget : Q) (step_size max_iter : nat) (st : state),
        room M st <= max_iter -> optimize_coded value cost M budget step_size max_iter st <> IterExceeded.
Proof. exact @coded_terminates. Qed.

Theorem C19_coded_terminates_by_cost :
  forall (value cost : state -> Q) (M : nat) (budget : Q) (step_size max_iter : nat) 
          (c : state -> Z) (B : Z),
        (forall s : state, (cost s == inject_Z (c s))%Q) ->
        (budget == inject_Z B)%Q ->
        (forall (s : state) (inc : list nat) (s' : state),
         inc <> nil -> stepped (fun _ : nat => M) s inc = Some s' -> (c s < c s')%Z) ->
        forall st : state,
        Z.to_nat (B - c st) <= max_iter ->
        optimize_coded value cost M budget step_size max_iter st <> IterExceeded.
Proof. exact @coded_terminates_by_cost. Qed.

Theorem C19_coded_steps_bound :
  forall (value cost : state -> Q) (M : nat) (budget : Q) (step_size max_iter : nat) 
          (st st' : state) (k : nat),
        optimize_coded value cost M budget step_size max_iter st = Done st' k -> k + room M st' <= room M st.
Proof. exact @coded_steps_bound. Qed.

Theorem C19_coded_total :
  forall (value cost : state -> Q) (M : nat) (budget : Q) (step_size max_iter : nat),
        (forall s : state, ~ (value s == 0)%Q) ->
        (forall (s : state) (inc : list nat) (s' : state),
         inc <> nil -> stepped (fun _ : nat => M) s inc = Some s' -> ~ (cost s' - cost s == 0)%Q) ->
        forall st : state,
        room M st <= max_iter ->
        exists (st' : state) (k : nat), optimize_coded value cost M budget step_size max_iter st = Done st' k.
Proof. exact @coded_total. Qed.

Theorem C19_example_run :
  optimize_coded (eval_fn ex_value) (eval_fn ex_cost) 3 4 2 999 (0 :: 0 :: nil) = Done (3 :: 1 :: nil) 4 /\
        trace_coded (eval_fn ex_value) (eval_fn ex_cost) 3 4 2 999 (0 :: 0 :: nil) =
        (1 :: 0 :: nil) :: (2 :: 0 :: nil) :: (2 :: 1 :: nil) :: (3 :: 1 :: nil) :: nil.
Proof. exact @ex_run. Qed.

Theorem C19_iterator_no_duplicates :
  forall n d : nat, NoDup (cumulated n d).
Proof. exact @cumulated_NoDup. Qed.

Theorem C19_iterator_sound :
  forall (n d : nat) (t : list nat),
        In t (cumulated n d) ->
        t <> nil /\ Datatypes.length t <= Nat.min d 4 /\ Forall (fun i : nat => i < n) t.
Proof. exact @cumulated_sound. Qed.

Theorem C19_iterator_complete :
  forall (n d : nat) (m : list nat),
        m <> nil ->
        Datatypes.length m <= Nat.min d 4 ->
        Forall (fun i : nat => i < n) m -> exists t : list nat, In t (cumulated n d) /\ Permutation t m.
Proof. exact @cumulated_complete. Qed.

Theorem C19_iterator_unique :
  forall (n d : nat) (t t' : list nat),
        In t (cumulated n d) -> In t' (cumulated n d) -> Permutation t t' -> t = t'.
Proof. exact @cumulated_unique. Qed.

Theorem C19_wp_full_is_argmax :
  forall (opt : Type) (useful is_boss is_ied : opt -> bool) (value : list opt -> Q)
          (tiers : list (list opt)),
        let res := wp_full_optimal opt useful is_boss is_ied value tiers in
        (0 <= snd res)%Q /\
        (forall t : list opt * list opt * list opt,
         legal_triple opt is_boss is_ied (useful_tiers opt useful tiers) t ->
         (triple_value opt value t <= snd res)%Q) /\
        (res = (nil, nil, nil, 0%Q) \/
         legal_triple opt is_boss is_ied (useful_tiers opt useful tiers) (fst res) /\
         snd res = triple_value opt value (fst res) /\ (0 < snd res)%Q).
Proof. exact @wp_full_is_argmax. Qed.

Theorem C19_wp_single_is_argmax :
  forall (opt : Type) (useful is_boss is_ied : opt -> bool) (value : list opt -> Q)
          (tiers : list (list opt)),
        let res := wp_optimal opt useful is_boss is_ied value tiers in
        (0 <= snd res)%Q /\
        (forall c : list opt,
         combination opt is_boss is_ied (useful_tiers opt useful tiers) false c -> (value c <= snd res)%Q) /\
        (res = (nil, 0%Q) \/
         combination opt is_boss is_ied (useful_tiers opt useful tiers) false (fst res) /\
         snd res = value (fst res) /\ (0 < snd res)%Q).
Proof. exact @wp_single_is_argmax. Qed.

Theorem C19_wp_prune_safe :
  forall (opt : Type) (useful is_boss is_ied : opt -> bool) (value : list opt -> Q)
          (tiers : list (list opt)) (free : list opt),
        Forall2 (fun (u : opt) (l : list opt) => In u l /\ useful u = true) free tiers ->
        Forall (fun u : opt => is_boss u = false) free ->
        Forall (fun u : opt => is_ied u = false) free ->
        (forall t : list opt * list opt * list opt,
         legal_triple opt is_boss is_ied tiers t ->
         (triple_value opt value t <= triple_value opt value (repair3 opt useful free t))%Q) ->
        forall t : list opt * list opt * list opt,
        legal_triple opt is_boss is_ied tiers t ->
        (triple_value opt value t <= snd (wp_full_optimal opt useful is_boss is_ied value tiers))%Q.
Proof. exact @wp_prune_safe. Qed.

Theorem C19_clone_preserves_objective :
  forall d : target_desc,
        In d clone_targets ->
        forall (V R : Type) (dflt : string -> V) (f : obj V -> R),
        depends_only_on (t_reads d) f -> forall t : obj V, f (clone V dflt d t) = f t.
Proof. exact @clone_preserves_objective_all. Qed.

Theorem C19_clone_targets_ok :
  forallb clone_ok clone_targets = true.
Proof. exact @clone_targets_ok. Qed.

Theorem C19_clone_targets_cover :
  covers_expected clone_targets = true.
Proof. exact @clone_targets_cover. Qed.

Theorem C19_clone_objective_reads_armor :
  forallb (reads_attr "armor") clone_targets = true.
Proof. exact @clone_targets_read_armor. Qed.

Theorem C19_clone_dropping_armor_rejected :
  clone_ok desc_dropping_armor = false.
Proof. exact @dropping_armor_rejected. Qed.

Theorem C19_clone_dropping_armor_changes_objective :
  exists t : obj nat, clone nat (fun _ : string => 300) desc_dropping_armor t "armor" <> t "armor".
Proof. exact @dropping_armor_changes_objective. Qed.

Print Assumptions C19_along_the_run.
Print Assumptions C19_result_is_last_visited.
Print Assumptions C19_run_result.
Print Assumptions C19_local_optimality.
Print Assumptions C19_never_worse.
Print Assumptions C19_values_along_run.
Print Assumptions C19_accepted_step_gain.
Print Assumptions C19_never_worse_needs_monotone.
Print Assumptions C19_over_budget_start_unchanged.
Print Assumptions C19_no_type_error.
Print Assumptions C19_termination.
Print Assumptions C19_termination_by_measure.
Print Assumptions C19_steps_bound.
Print Assumptions C19_no_zero_division.
Print Assumptions C19_total.
Print Assumptions C19_deterministic_up_to_Qeq.
Print Assumptions C19_increment_order_irrelevant.
Print Assumptions C19_coded_result.
Print Assumptions C19_coded_locally_optimal.
Print Assumptions C19_coded_never_worse.
Print Assumptions C19_coded_exhausts_budget.
Print Assumptions C19_coded_terminates.
Print Assumptions C19_coded_terminates_by_cost.
Print Assumptions C19_coded_steps_bound.
Print Assumptions C19_coded_total.
Print Assumptions C19_example_run.
Print Assumptions C19_iterator_no_duplicates.
Print Assumptions C19_iterator_sound.
Print Assumptions C19_iterator_complete.
Print Assumptions C19_iterator_unique.
Print Assumptions C19_wp_full_is_argmax.
Print Assumptions C19_wp_single_is_argmax.
Print Assumptions C19_wp_prune_safe.
Print Assumptions C19_clone_preserves_objective.
Print Assumptions C19_clone_targets_ok.
Print Assumptions C19_clone_targets_cover.
Print Assumptions C19_clone_objective_reads_armor.
Print Assumptions C19_clone_dropping_armor_rejected.
Print Assumptions C19_clone_dropping_armor_changes_objective.
