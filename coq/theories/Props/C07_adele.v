(* C07 (extension adele)  A rejected action is reported alone and changes nothing, for the job-specific classes modelled in Model/SpecAdele.v: ProgrammedPeriodicComponent (common_v.py), UltimateDarkSightComponent (thief.py), PenalizedBuffSkill (pirate.py), MagicCurcuitFullDriveComponent (flora.py), TranscendentCygnusBlessing (cygnus.py) and the eight classes of adele.py (Ether, Creation, Order, Gathering, Blossom, Ruin, RestoreBuff, Storm).  xreduce_spec c m p t s = the reducer m of class c with parameters p, payload t, on state s; the state record contains the entities the class binds from other components (ether gauge, restore lasting, order swords).  C07_adele_reject_alone: EVERY reducer of EVERY modelled class (use, elapse, trigger, resonance, order), all parameters and states: if the returned events contain a rejection they are exactly [reject] and the returned state IS the input state (no exception: none of these classes changes a gauge, stack or sword before its availability test).  C07_adele_creation_trigger_silent: the ignore_rejected trigger of AdeleCreationComponent never reports a rejection and is a no-op while cooling down.  C07_adele_not_ready_is_noop / _order_without_ether / _without_sword / _cygnus_not_ready: using a skill that lacks its cooldown / ether / swords / charge returns the unchanged state and one rejection.  C07_adele_nonvacuous: rejecting uses exist.  Hypotheses: none (the statements hold for every record value, well-formed or not). *)
From Coq Require Import ZArith List Bool Permutation. From V.Model Require Import Comp SpecAdele. From V.Proofs Require Import CompReject CompChunk SpecAdelePG SpecAdeleReject SpecAdeleViews SpecAdeleChunk SpecAdeleOrder.

Theorem C07_adele_reject_alone :
  forall (c : xcomp) (m : xmeth) (p : xpar) (t : Z) (s s' : xst) (es : list ev),
        xreduce_spec c m p t s = Some (s', es) ->
        rejected es = true -> es = EReject :: nil /\ s' = s.
Proof. exact @xreject_alone_spec. Qed.

Theorem C07_adele_creation_trigger_silent :
  forall (p : xpar) (t : Z) (s s' : xst) (es : list ev),
        xreduce_spec Creation XTrigger p t s = Some (s', es) ->
        rejected es = false /\ (0 < u_cd (x_u s) -> es = nil /\ s' = s).
Proof. exact @creation_trigger_silent. Qed.

Theorem C07_adele_not_ready_is_noop :
  forall (c : xcomp) (p : xpar) (t : Z) (s : xst),
        xcooldown_kind c = true ->
        0 < u_cd (x_u s) -> xreduce_spec c XUse p t s = Some (s, EReject :: nil).
Proof. exact @xnot_ready_noop. Qed.

Theorem C07_adele_order_without_ether_is_noop :
  forall (p : xpar) (t : Z) (s : xst),
        x_gauge s < xp_ocons p -> xreduce_spec Order XUse p t s = Some (s, EReject :: nil).
Proof. exact @order_without_ether_noop. Qed.

Theorem C07_adele_without_sword_is_noop :
  forall (c : xcomp) (p : xpar) (t : Z) (s : xst),
        c = Blossom \/ c = Storm ->
        x_sw s = nil -> xreduce_spec c XUse p t s = Some (s, EReject :: nil).
Proof. exact @sword_skills_without_sword_noop. Qed.

Theorem C07_adele_cygnus_not_ready_is_noop :
  forall (p : xpar) (t : Z) (s : xst),
        C.stack (u_cons (x_u s)) <= 0 ->
        xreduce_spec CygnusBlessing XUse p t s = Some (s, EReject :: nil).
Proof. exact @cygnus_not_ready_noop. Qed.

Theorem C07_adele_nonvacuous :
  (exists (s1 : xst) (e1 : list ev),
           xreduce_spec ProgrammedPeriodic XUse x_p0 0 x_s0 = Some (s1, e1) /\
           rejected e1 = false /\
           xreduce_spec ProgrammedPeriodic XUse x_p0 0 s1 = Some (s1, EReject :: nil)) /\
        xreduce_spec Order XUse x_p0 0 x_s0 = Some (x_s0, EReject :: nil).
Proof. exact @xreject_happens. Qed.

Print Assumptions C07_adele_reject_alone.
Print Assumptions C07_adele_creation_trigger_silent.
Print Assumptions C07_adele_not_ready_is_noop.
Print Assumptions C07_adele_order_without_ether_is_noop.
Print Assumptions C07_adele_without_sword_is_noop.
Print Assumptions C07_adele_cygnus_not_ready_is_noop.
Print Assumptions C07_adele_nonvacuous.
