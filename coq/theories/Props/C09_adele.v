(* C09 (extension adele)  Letting time pass in one step or in several gives the same ticks and status, for the classes of Model/SpecAdele.v.  Times are integer ticks.  Entity level: C09_adele_programmed_additive: ProgrammedPeriodic.resolving (common_v.py) a then b = a+b (same entity, tick counts add) for every entity whose interval list is non-empty and positive; C09_adele_programmed_fuel / _fuel_independent: the specification loop never runs out of fuel and any sufficient fuel (the executable one used in correspondence runs) computes the same answer.  C09_adele_order_resolving_additive: OrderSword.resolving (adele.py) a then b = a+b for EVERY sword list and capacity (same surviving swords with the same counters, tick counts add), only interval > 0.  Component level: C09_adele_elapse_chunk: for EVERY modelled class (no exception list: AdeleOrderComponent is inside the theorem after the repair 4d5f5f0 of a defect this check found, see below), under wf_x (Periodic/Consumable well-formed, interval list positive, and the two parameter conditions stack_per_period >= 0 and OrderSword.interval > 0), the damage events of the two-step run are a permutation of those of the one-step run and the final states agree up to dead interval counters; C09_adele_elapse_chunk_views: hence validity, running and buff views agree.  C09_adele_wf_invariant: wf_x is preserved by every reducer of every class, so the theorems apply in every reachable state; C09_adele_elapsed_carries_time: every elapsed notification carries the elapse time (C06 clause).  AdeleOrderComponent: the full statement used to be FALSE of the shipped code (known finding C09-adele-order-tick-cap, now fixed): OrderSword.resolving capped the ticks of one call by int(time_left // interval) taken at the start of the call, and dropped a sword beyond the capacity only at the END of the call after it had ticked for all of it.  Since 4d5f5f0 a sword ticks while it is alive (`while counter <= 0 and counter < time_left`) and swords beyond the capacity leave before ticking; the model follows the repaired code and the class needs no hypothesis beyond interval > 0 (no capacity, sortedness or counter invariant).  C09_adele_order_repaired: regression replay of the two old witnesses on the model: after an accepted use of an Order with interval 1020 lasting 45000, elapse 100 then 44800 and elapse 44900 both deal 45 ticks and leave the sword (1000, 100) (old code: 45 versus 44 ticks, counter 1000 versus -20); 4 swords over a capacity of 6, elapse 100 then 9900 and elapse 10000 both deal 30 ticks and leave 3 swords (old code: 31 versus 40); both witness states satisfy wf_x, the second one is outside the capacity.  C09_adele_order_fuel: with interval > 0 the executable reducer used in correspondence runs (count-based fuel (-counter)/interval + 2) never answers out-of-fuel for this class and equals the specification instance; C09_adele_order_capacity: every accepted reducer of the class leaves the sword list within the capacity.  C09_adele_nonvacuous: a concrete programmed-periodic run. *)
From Coq Require Import ZArith List Bool Permutation. From V.Model Require Import Comp SpecAdele. From V.Proofs Require Import CompReject CompChunk SpecAdelePG SpecAdeleReject SpecAdeleViews SpecAdeleOrder SpecAdeleChunk SpecAdeleOrderFix.

Theorem C09_adele_programmed_additive :
  forall (s : PG.T) (a b : Z),
        PG.wf s ->
        0 <= a ->
        0 <= b ->
        let
        '(s1, n1) := PG.resolving s a in
         let '(s2, n2) := PG.resolving s1 b in PG.resolving s (a + b) = (s2, (n1 + n2)%nat).
Proof. exact @resolving_additive. Qed.

Theorem C09_adele_programmed_fuel :
  forall (g : PG.T) (t : Z), PG.wf g -> PG.resolving_fuel (PG.fuel_of g) g t <> None.
Proof. exact @xpg_fuel_enough. Qed.

Theorem C09_adele_programmed_fuel_independent :
  forall (f : nat) (s : PG.T) (time : Z) (r : PG.T * nat),
        PG.wf s -> PG.resolving_fuel f s time = Some r -> PG.resolving s time = r.
Proof. exact @resolving_fuel_spec. Qed.

Theorem C09_adele_elapse_chunk :
  forall (c : xcomp) (p : xpar) (a b : Z) (s s1 : xst) (e1 : list ev) 
          (s2 : xst) (e2 : list ev) (s3 : xst) (e3 : list ev),
        wf_x p s ->
        0 <= a ->
        0 <= b ->
        xreduce_spec c XElapse p a s = Some (s1, e1) ->
        xreduce_spec c XElapse p b s1 = Some (s2, e2) ->
        xreduce_spec c XElapse p (a + b) s = Some (s3, e3) ->
        xnorm s2 = xnorm s3 /\ Permutation (dealts (e1 ++ e2)) (dealts e3).
Proof. exact @xelapse_chunk. Qed.

Theorem C09_adele_elapse_chunk_views :
  forall (c : xcomp) (p : xpar) (a b : Z) (s s1 : xst) (e1 : list ev) 
          (s2 : xst) (e2 : list ev) (s3 : xst) (e3 : list ev),
        wf_x p s ->
        0 <= a ->
        0 <= b ->
        xreduce_spec c XElapse p a s = Some (s1, e1) ->
        xreduce_spec c XElapse p b s1 = Some (s2, e2) ->
        xreduce_spec c XElapse p (a + b) s = Some (s3, e3) ->
        xview_validity c p s2 = xview_validity c p s3 /\
        xview_running c p s2 = xview_running c p s3 /\ xview_buff c p s2 = xview_buff c p s3.
Proof. exact @xelapse_chunk_views. Qed.

Theorem C09_adele_wf_invariant :
  forall (c : xcomp) (m : xmeth) (p : xpar) (t : Z) (s s' : xst) (es : list ev),
        wf_x p s ->
        xwf_par p s ->
        0 <= t ->
        xreduce_spec c m p t s = Some (s', es) ->
        wf_x p s' /\
        u_ic1 (x_u s') = u_ic1 (x_u s) /\
        u_ic2 (x_u s') = u_ic2 (x_u s) /\ u_ic3 (x_u s') = u_ic3 (x_u s).
Proof. exact @xwf_preserved. Qed.

Theorem C09_adele_elapsed_carries_time :
  forall (c : xcomp) (p : xpar) (t : Z) (s s' : xst) (es : list ev),
        xreduce_spec c XElapse p t s = Some (s', es) -> elapsed_times es = t :: nil.
Proof. exact @xelapsed_carries_time. Qed.

Theorem C09_adele_order_resolving_additive :
  forall (mx I a b : Z) (l : list sword),
        0 < I ->
        0 <= a ->
        0 <= b ->
        fst (sw_resolve mx I b (fst (sw_resolve mx I a l))) = fst (sw_resolve mx I (a + b) l) /\
        (snd (sw_resolve mx I a l) + snd (sw_resolve mx I b (fst (sw_resolve mx I a l))))%nat =
        snd (sw_resolve mx I (a + b) l).
Proof. exact @sw_resolve_add. Qed.

Theorem C09_adele_order_fuel :
  forall (m : xmeth) (p : xpar) (t : Z) (s : xst),
        0 < xp_swi p ->
        xexec_ok s t = true -> xreduce_exec Order m p t s = xreduce pe_exec pg_exec Order m p t s.
Proof. exact @order_exec_spec. Qed.

Theorem C09_adele_order_capacity :
  forall (m : xmeth) (p : xpar) (t : Z) (s s' : xst) (es : list ev),
        0 <= max_sw p s ->
        xreduce_spec Order m p t s = Some (s', es) -> rejected es = false -> within_capacity p s'.
Proof. exact @order_capacity_established. Qed.

Theorem C09_adele_order_repaired :
  xreduce_spec Order XUse ord_p 0 ord_s0 =
        Some (ord_s, dealt (p_pd1 (xp ord_p)) :: EDelay 0 :: nil) /\
        wf_x ord_p ord_s /\
        wf_x ord_p ord_s4 /\
        within_capacity ord_p ord_s /\
        ~ within_capacity ord_p ord_s4 /\
        (exists (s1 : xst) (e1 : list ev) (s2 : xst) (e2 e3 : list ev),
           xreduce_spec Order XElapse ord_p 100 ord_s = Some (s1, e1) /\
           xreduce_spec Order XElapse ord_p 44800 s1 = Some (s2, e2) /\
           xreduce_spec Order XElapse ord_p 44900 ord_s = Some (s2, e3) /\
           dealts (e1 ++ e2) = dealts e3 /\
           length (dealts e3) = 45%nat /\ x_sw s2 = (1000, 100) :: nil) /\
        (exists (s1 : xst) (e1 : list ev) (s2 : xst) (e2 e3 : list ev),
           xreduce_spec Order XElapse ord_p 100 ord_s4 = Some (s1, e1) /\
           xreduce_spec Order XElapse ord_p 9900 s1 = Some (s2, e2) /\
           xreduce_spec Order XElapse ord_p 10000 ord_s4 = Some (s2, e3) /\
           dealts (e1 ++ e2) = dealts e3 /\
           length (dealts e3) = 30%nat /\ length (x_sw s1) = 3%nat /\ length (x_sw s2) = 3%nat).
Proof. exact @order_witnesses_repaired. Qed.

Theorem C09_adele_nonvacuous :
  wf_x x_p0 x_s1 /\
        xreduce_spec ProgrammedPeriodic XElapse x_p0 1000 x_s1 =
        Some
          ({|
             x_u := set_cd x_u0 249000;
             x_pg :=
               {|
                 PG.ic := 750;
                 PG.ivs := 900 :: 850 :: 750 :: 650 :: 5730 :: nil;
                 PG.tl := 48250;
                 PG.cnt := 2
               |};
             x_gauge := 0;
             x_rl := 0;
             x_rlad := 0;
             x_sw := nil
           |}, EElapsed 1000 :: EDealt 3 4 :: EDealt 3 4 :: nil) /\
        xreduce_spec ProgrammedPeriodic XElapse x_p0 2000
          {|
            x_u := set_cd x_u0 249000;
            x_pg :=
              {|
                PG.ic := 750;
                PG.ivs := 900 :: 850 :: 750 :: 650 :: 5730 :: nil;
                PG.tl := 48250;
                PG.cnt := 2
              |};
            x_gauge := 0;
            x_rl := 0;
            x_rlad := 0;
            x_sw := nil
          |} =
        Some
          ({|
             x_u := set_cd x_u0 247000;
             x_pg :=
               {|
                 PG.ic := 150;
                 PG.ivs := 900 :: 850 :: 750 :: 650 :: 5730 :: nil;
                 PG.tl := 46850;
                 PG.cnt := 4
               |};
             x_gauge := 0;
             x_rl := 0;
             x_rlad := 0;
             x_sw := nil
           |}, EElapsed 2000 :: EDealt 3 4 :: EDealt 3 4 :: nil) /\
        xreduce_spec ProgrammedPeriodic XElapse x_p0 3000 x_s1 =
        Some
          ({|
             x_u := set_cd x_u0 247000;
             x_pg :=
               {|
                 PG.ic := 150;
                 PG.ivs := 900 :: 850 :: 750 :: 650 :: 5730 :: nil;
                 PG.tl := 46850;
                 PG.cnt := 4
               |};
             x_gauge := 0;
             x_rl := 0;
             x_rlad := 0;
             x_sw := nil
           |}, EElapsed 3000 :: EDealt 3 4 :: EDealt 3 4 :: EDealt 3 4 :: EDealt 3 4 :: nil).
Proof. exact @xchunk_nonvacuous. Qed.

Print Assumptions C09_adele_programmed_additive.
Print Assumptions C09_adele_programmed_fuel.
Print Assumptions C09_adele_programmed_fuel_independent.
Print Assumptions C09_adele_elapse_chunk.
Print Assumptions C09_adele_elapse_chunk_views.
Print Assumptions C09_adele_wf_invariant.
Print Assumptions C09_adele_elapsed_carries_time.
Print Assumptions C09_adele_order_resolving_additive.
Print Assumptions C09_adele_order_fuel.
Print Assumptions C09_adele_order_capacity.
Print Assumptions C09_adele_order_repaired.
Print Assumptions C09_adele_nonvacuous.
