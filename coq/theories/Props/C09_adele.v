(* C09 (extension adele)  Letting time pass in one step or in several gives the same ticks and status, for the classes of Model/SpecAdele.v.  Times are integer ticks.  Entity level: C09_adele_programmed_additive: ProgrammedPeriodic.resolving (common_v.py) a then b = a+b (same entity, tick counts add) for every entity whose interval list is non-empty and positive; C09_adele_programmed_fuel / _fuel_independent: the specification loop never runs out of fuel and any sufficient fuel (the executable one used in correspondence runs) computes the same answer.  Component level: C09_adele_elapse_chunk: for every modelled class except AdeleOrderComponent, under wf_x (Periodic/Consumable well-formed, interval list positive, stack_per_period >= 0), the damage events of the two-step run are a permutation of those of the one-step run and the final states agree up to dead interval counters; C09_adele_elapse_chunk_views: hence validity, running and buff views agree.  C09_adele_wf_invariant: wf_x is preserved by every reducer of every class (Order included), so the theorems apply in every reachable state; C09_adele_elapsed_carries_time: every elapsed notification carries the elapse time (C06 clause).  AdeleOrderComponent: the full statement (same ticks) is FALSE of the shipped code, in two ways.  C09_adele_order_chunk_refuted: OrderSword.resolving caps the ticks of one call by int(time_left // interval) taken at the start of the call; witness with the shipped parameters of the skill (interval 1020, lasting 45000), the state right after an accepted use: 100 then 44800 gives 45 ticks and counter 1000, 44900 at once gives 44 ticks and counter -20.  C09_adele_order_chunk_refuted_capacity: a sword beyond the capacity (4 swords while the restore buff, owned by another component, has run out) is dropped at the END of the call, after ticking for the whole call: 100 then 9900 gives 31 ticks, 10000 at once gives 40 (same final state, no cap reached).  C09_adele_order_chunk_partial: largest true sub-statement: for a sword list within its capacity, (i) the cooldown, the remaining time of every surviving sword and all bound entities never depend on the chunking; (ii) if no sword reaches the cap in any of the three elapses (and counters are <= interval, an invariant) also the interval counters and the ticks agree.  C09_adele_order_chunk_views: hence the views of the class agree whatever the chunking.  C09_adele_order_invariant / _capacity: the invariant of (ii) is preserved, the capacity hypothesis is re-established by every accepted reducer of the class.  C09_adele_nonvacuous: a concrete programmed-periodic run. *)
From Coq Require Import ZArith List Bool Permutation. From V.Model Require Import Comp SpecAdele. From V.Proofs Require Import CompReject CompChunk SpecAdelePG SpecAdeleReject SpecAdeleViews SpecAdeleChunk SpecAdeleOrder.

Theorem C09_adele_programmed_additive :
  forall (s : PG.T) (a b : Z),
        PG.wf s ->
        0 <= a ->
        0 <= b ->
        let
        '(s1, n1) := PG.resolving s a in
         let '(s2, n2) := PG.resolving s1 b in PG.resolving s (a + b) = (s2, (n1 + n2)%nat).
Proof. exact @resolving_additive. Qed.

Theorem C09_adele_programmed_fuel :
  forall (g : PG.T) (t : Z), PG.wf g -> PG.resolving_fuel (PG.fuel_of g) g t <> None.
Proof. exact @xpg_fuel_enough. Qed.

Theorem C09_adele_programmed_fuel_independent :
  forall (f : nat) (s : PG.T) (time : Z) (r : PG.T * nat),
        PG.wf s -> PG.resolving_fuel f s time = Some r -> PG.resolving s time = r.
Proof. exact @resolving_fuel_spec. Qed.

Theorem C09_adele_elapse_chunk :
  forall (c : xcomp) (p : xpar) (a b : Z) (s s1 : xst) (e1 : list ev) 
          (s2 : xst) (e2 : list ev) (s3 : xst) (e3 : list ev),
        xchunk_proved c = true ->
        wf_x p s ->
        0 <= a ->
        0 <= b ->
        xreduce_spec c XElapse p a s = Some (s1, e1) ->
        xreduce_spec c XElapse p b s1 = Some (s2, e2) ->
        xreduce_spec c XElapse p (a + b) s = Some (s3, e3) ->
        xnorm s2 = xnorm s3 /\ Permutation (dealts (e1 ++ e2)) (dealts e3).
Proof. exact @xelapse_chunk. Qed.

Theorem C09_adele_elapse_chunk_views :
  forall (c : xcomp) (p : xpar) (a b : Z) (s s1 : xst) (e1 : list ev) 
          (s2 : xst) (e2 : list ev) (s3 : xst) (e3 : list ev),
        xchunk_proved c = true ->
        wf_x p s ->
        0 <= a ->
        0 <= b ->
        xreduce_spec c XElapse p a s = Some (s1, e1) ->
        xreduce_spec c XElapse p b s1 = Some (s2, e2) ->
        xreduce_spec c XElapse p (a + b) s = Some (s3, e3) ->
        xview_validity c p s2 = xview_validity c p s3 /\
        xview_running c p s2 = xview_running c p s3 /\ xview_buff c p s2 = xview_buff c p s3.
Proof. exact @xelapse_chunk_views. Qed.

Theorem C09_adele_wf_invariant :
  forall (c : xcomp) (m : xmeth) (p : xpar) (t : Z) (s s' : xst) (es : list ev),
        wf_x p s ->
        xwf_par p s ->
        0 <= t ->
        xreduce_spec c m p t s = Some (s', es) ->
        wf_x p s' /\
        u_ic1 (x_u s') = u_ic1 (x_u s) /\
        u_ic2 (x_u s') = u_ic2 (x_u s) /\ u_ic3 (x_u s') = u_ic3 (x_u s).
Proof. exact @xwf_preserved. Qed.

Theorem C09_adele_elapsed_carries_time :
  forall (c : xcomp) (p : xpar) (t : Z) (s s' : xst) (es : list ev),
        xreduce_spec c XElapse p t s = Some (s', es) -> elapsed_times es = t :: nil.
Proof. exact @xelapsed_carries_time. Qed.

Theorem C09_adele_order_chunk_refuted :
  exists
          (p : xpar) (s0 s s1 : xst) (e1 : list ev) (s2 : xst) (e2 : list ev) 
        (s3 : xst) (e3 : list ev) (a b : Z),
          xreduce_spec Order XUse p 0 s0 = Some (s, dealt (p_pd1 (xp p)) :: EDelay 0 :: nil) /\
          wf_x p s /\
          order_inv p s /\
          within_capacity p s /\
          0 <= a /\
          0 <= b /\
          xreduce_spec Order XElapse p a s = Some (s1, e1) /\
          xreduce_spec Order XElapse p b s1 = Some (s2, e2) /\
          xreduce_spec Order XElapse p (a + b) s = Some (s3, e3) /\
          length (dealts (e1 ++ e2)) = 45%nat /\
          length (dealts e3) = 44%nat /\
          ~ Permutation (dealts (e1 ++ e2)) (dealts e3) /\
          x_sw s2 = (1000, 100) :: nil /\ x_sw s3 = (-20, 100) :: nil.
Proof. exact @order_chunk_refuted. Qed.

Theorem C09_adele_order_chunk_refuted_capacity :
  exists
          (p : xpar) (s s1 : xst) (e1 : list ev) (s2 : xst) (e2 : list ev) 
        (s3 : xst) (e3 : list ev) (a b : Z),
          order_inv p s /\
          ~ within_capacity p s /\
          0 <= a /\
          0 <= b /\
          xreduce_spec Order XElapse p a s = Some (s1, e1) /\
          xreduce_spec Order XElapse p b s1 = Some (s2, e2) /\
          xreduce_spec Order XElapse p (a + b) s = Some (s3, e3) /\
          Forall (uncapped (xp_swi p) a) (x_sw s) /\
          Forall (uncapped (xp_swi p) b) (x_sw s1) /\
          Forall (uncapped (xp_swi p) (a + b)) (x_sw s) /\
          length (dealts (e1 ++ e2)) = 31%nat /\ length (dealts e3) = 40%nat /\ s2 = s3.
Proof. exact @order_chunk_refuted_capacity. Qed.

Theorem C09_adele_order_chunk_partial :
  forall (p : xpar) (a b : Z) (s s1 : xst) (e1 : list ev) (s2 : xst) 
          (e2 : list ev) (s3 : xst) (e3 : list ev),
        0 <= a ->
        0 <= b ->
        within_capacity p s ->
        xreduce_spec Order XElapse p a s = Some (s1, e1) ->
        xreduce_spec Order XElapse p b s1 = Some (s2, e2) ->
        xreduce_spec Order XElapse p (a + b) s = Some (s3, e3) ->
        (x_u s2 = x_u s3 /\
         tls s2 = tls s3 /\
         x_gauge s2 = x_gauge s3 /\ x_rl s2 = x_rl s3 /\ x_pg s2 = x_pg s3 /\ x_rlad s2 = x_rlad s3) /\
        (order_inv p s ->
         Forall (uncapped (xp_swi p) a) (x_sw s) ->
         Forall (uncapped (xp_swi p) b) (x_sw s1) ->
         Forall (uncapped (xp_swi p) (a + b)) (x_sw s) -> s2 = s3 /\ dealts (e1 ++ e2) = dealts e3).
Proof. exact @order_chunk_partial. Qed.

Theorem C09_adele_order_chunk_views :
  forall (p : xpar) (a b : Z) (s s1 : xst) (e1 : list ev) (s2 : xst) 
          (e2 : list ev) (s3 : xst) (e3 : list ev),
        0 <= a ->
        0 <= b ->
        within_capacity p s ->
        xreduce_spec Order XElapse p a s = Some (s1, e1) ->
        xreduce_spec Order XElapse p b s1 = Some (s2, e2) ->
        xreduce_spec Order XElapse p (a + b) s = Some (s3, e3) ->
        xview_validity Order p s2 = xview_validity Order p s3 /\
        xview_running Order p s2 = xview_running Order p s3 /\
        xview_buff Order p s2 = xview_buff Order p s3.
Proof. exact @order_chunk_views. Qed.

Theorem C09_adele_order_invariant :
  forall (m : xmeth) (p : xpar) (t : Z) (s s' : xst) (es : list ev),
        order_inv p s -> 0 <= t -> xreduce_spec Order m p t s = Some (s', es) -> order_inv p s'.
Proof. exact @order_inv_preserved. Qed.

Theorem C09_adele_order_capacity :
  forall (m : xmeth) (p : xpar) (t : Z) (s s' : xst) (es : list ev),
        0 <= max_sw p s ->
        xreduce_spec Order m p t s = Some (s', es) -> rejected es = false -> within_capacity p s'.
Proof. exact @order_capacity_established. Qed.

Theorem C09_adele_nonvacuous :
  wf_x x_p0 x_s1 /\
        xreduce_spec ProgrammedPeriodic XElapse x_p0 1000 x_s1 =
        Some
          ({|
             x_u := set_cd x_u0 249000;
             x_pg :=
               {|
                 PG.ic := 750;
                 PG.ivs := 900 :: 850 :: 750 :: 650 :: 5730 :: nil;
                 PG.tl := 48250;
                 PG.cnt := 2
               |};
             x_gauge := 0;
             x_rl := 0;
             x_rlad := 0;
             x_sw := nil
           |}, EElapsed 1000 :: EDealt 3 4 :: EDealt 3 4 :: nil) /\
        xreduce_spec ProgrammedPeriodic XElapse x_p0 2000
          {|
            x_u := set_cd x_u0 249000;
            x_pg :=
              {|
                PG.ic := 750;
                PG.ivs := 900 :: 850 :: 750 :: 650 :: 5730 :: nil;
                PG.tl := 48250;
                PG.cnt := 2
              |};
            x_gauge := 0;
            x_rl := 0;
            x_rlad := 0;
            x_sw := nil
          |} =
        Some
          ({|
             x_u := set_cd x_u0 247000;
             x_pg :=
               {|
                 PG.ic := 150;
                 PG.ivs := 900 :: 850 :: 750 :: 650 :: 5730 :: nil;
                 PG.tl := 46850;
                 PG.cnt := 4
               |};
             x_gauge := 0;
             x_rl := 0;
             x_rlad := 0;
             x_sw := nil
           |}, EElapsed 2000 :: EDealt 3 4 :: EDealt 3 4 :: nil) /\
        xreduce_spec ProgrammedPeriodic XElapse x_p0 3000 x_s1 =
        Some
          ({|
             x_u := set_cd x_u0 247000;
             x_pg :=
               {|
                 PG.ic := 150;
                 PG.ivs := 900 :: 850 :: 750 :: 650 :: 5730 :: nil;
                 PG.tl := 46850;
                 PG.cnt := 4
               |};
             x_gauge := 0;
             x_rl := 0;
             x_rlad := 0;
             x_sw := nil
           |}, EElapsed 3000 :: EDealt 3 4 :: EDealt 3 4 :: EDealt 3 4 :: EDealt 3 4 :: nil).
Proof. exact @xchunk_nonvacuous. Qed.

Print Assumptions C09_adele_programmed_additive.
Print Assumptions C09_adele_programmed_fuel.
Print Assumptions C09_adele_programmed_fuel_independent.
Print Assumptions C09_adele_elapse_chunk.
Print Assumptions C09_adele_elapse_chunk_views.
Print Assumptions C09_adele_wf_invariant.
Print Assumptions C09_adele_elapsed_carries_time.
Print Assumptions C09_adele_order_chunk_refuted.
Print Assumptions C09_adele_order_chunk_refuted_capacity.
Print Assumptions C09_adele_order_chunk_partial.
Print Assumptions C09_adele_order_chunk_views.
Print Assumptions C09_adele_order_invariant.
Print Assumptions C09_adele_order_capacity.
Print Assumptions C09_adele_nonvacuous.
