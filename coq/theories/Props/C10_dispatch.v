(* C10, the STORE-ACCESS part of the status views (Model/DispatchViews.v over Model/Dispatch.v: WrappedView = get_state over the same bound names as the dispatcher, then a total view function; AggregationView = the results of its children in order; BuffParentView = fold of add over the Some results; clock_view = read_entity global.time with a default; initialisation = install_global_properties + every component own default entities).  For all entity / payload / view-result types, components, view functions, reducers, route caches, plays.  C10_view_store_access_total: if every bound name is present or has a default the view call does not raise; C10_view_present_read_only: if all are present it also returns the store as it was; C10_view_raises_when_absent + C10_view_raises_witness: an absent bound address that no defaulted name resolves to makes it raise -- presence is exactly the guard.  C10_presence_kept_by_dispatch / _by_play: presence of all bound addresses (and of the clock) only grows, for every router dispatch from any cache and every play.  C10_presence_established_by_init: after initialisation all bound addresses are present PROVIDED binds_closed (every bind target is some component own entity or a global property: a boolean over the component data, evaluated by vm_compute on the extracted components in gen/DispatchData.v, together with the same test against the address set of the real initial store).  C10_presence_invariant: hence in every store reachable from the initial store by plays.  C10_views_never_raise_on_reachable: there, every component view, every aggregation view over installed components and the clock view evaluate (no ValueError from store access) and return the store unchanged; C10_views_read_only: under the invariant no view changes the store (in general, C10_view_frame: a view writes only setdefault of absent DEFAULTED bound entities -- C10_view_creates_missing_default is the witness).  C10_total_buff_is_sum: the buff aggregation is fold_left add (the Some results, installation order) zero, the store untouched, and for any permutation of the children the total is equivalent -- hypotheses: eqv an equivalence, add compatible, commutative, associative: exactly C11_stat_add_comm / C11_stat_add_assoc for Stat_add and Stat_seq, and C11_stat_sum_eq_fold identifies Stat.sum with this fold (not re-proved here).  Tested, not proved: view METHODS are total (the component-level part of C10, Props/C10.v and its monitor); the tie of the model to the code (H-dispatch: read sets of real view calls = the model bound addresses, store unchanged, children of the installed aggregation views, buff = Stat.sum in order). *)
From Coq Require Import List String ZArith Permutation. From V.Model Require Import Router Play Engine Dispatch DispatchViews. From V.Proofs Require Import DispatchStore DispatchRouter DispatchPlay DispatchExamples DispatchViews DispatchViewsExamples.

Theorem C10_view_store_access_total :
  forall (Ent Pay V : Type) (c : component Ent Pay) (vf : view_fn Ent V) (st : store Ent),
        (forall n a : string,
         In (n, a) (bound_names Ent Pay c) ->
         present Ent st (resolve (comp_addr Ent Pay c) a) \/ dget (c_default c) n <> None) ->
        exists (st' : store Ent) (v : V), view_call Ent Pay V c vf st = Some (st', v).
Proof. exact @view_total. Qed.

Theorem C10_view_present_read_only :
  forall (Ent Pay V : Type) (c : component Ent Pay) (vf : view_fn Ent V) (st : store Ent),
        (forall x : string, In x (bound_addrs Ent Pay c) -> present Ent st x) ->
        exists fs : fields Ent,
          get_state Ent Pay c st = Some (st, fs) /\ view_call Ent Pay V c vf st = Some (st, vf fs).
Proof. exact @view_present_read_only. Qed.

Theorem C10_view_raises_when_absent :
  forall (Ent Pay V : Type) (c : component Ent Pay) (vf : view_fn Ent V) (st : store Ent) (x : string),
        In x (bound_addrs Ent Pay c) ->
        ~ In x (defaulted_addrs Ent Pay c) -> ~ present Ent st x -> view_call Ent Pay V c vf st = None.
Proof. exact @view_raises_when_absent. Qed.

Theorem C10_view_raises_witness :
  view_call Ent Pay Z orphan v_cd (initial_store Ent Pay 100%Z 0%Z (comps ++ orphan :: nil)) = None.
Proof. exact @orphan_view_raises. Qed.

Theorem C10_presence_kept_by_dispatch :
  forall (Ent Pay : Type) (empty_pay : Pay) (clock0 : Ent) (spent : Ent -> Pay -> option Ent)
          (sys : list (inst Ent Pay)) (cs : list (component Ent Pay)) (fuel : nat) 
          (c : Router.cache string) (a : action Pay) (s : rst Ent Pay) (c' : Router.cache string)
          (s' : rst Ent Pay) (evs : list (event Pay)),
        dispatch_c Ent Pay fuel (installed Ent Pay empty_pay clock0 spent sys) c a s = (c', Some (s', evs)) ->
        all_present Ent Pay cs (fst s) -> all_present Ent Pay cs (fst s').
Proof. exact @presence_kept_by_dispatch. Qed.

Theorem C10_presence_kept_by_play :
  forall (Ent Pay : Type) (empty_pay : Pay) (clock0 : Ent) (spent : Ent -> Pay -> option Ent)
          (pnone : Pay) (ptime : Z -> Pay) (sys : list (inst Ent Pay)) (cs : list (component Ent Pay))
          (fuel : nat) (st : Play.store (pst Ent Pay) Pay string string (option string))
          (a : Play.action Pay string string (option string)),
        all_present Ent Pay cs (p_store (ent (pst Ent Pay) Pay string string (option string) st)) ->
        all_present Ent Pay cs
          (p_store
             (ent (pst Ent Pay) Pay string string (option string)
                (fst
                   (fst (pplay Ent Pay pnone ptime fuel (installed Ent Pay empty_pay clock0 spent sys) st a))))).
Proof. exact @presence_kept_by_play. Qed.

Theorem C10_presence_established_by_init :
  forall (Ent Pay : Type) (dyn clk : Ent) (cs : list (component Ent Pay)),
        binds_closed Ent Pay cs = true -> all_present Ent Pay cs (initial_store Ent Pay dyn clk cs).
Proof. exact @presence_established_by_init. Qed.

Theorem C10_presence_invariant :
  forall (Ent Pay : Type) (empty_pay : Pay) (clock0 : Ent) (spent : Ent -> Pay -> option Ent)
          (pnone : Pay) (ptime : Z -> Pay) (sys : list (inst Ent Pay)) (fuel : nat) 
          (dyn clk : Ent) (cs : list (component Ent Pay))
          (ps : Play.store (pst Ent Pay) Pay string string (option string)),
        binds_closed Ent Pay cs = true ->
        reachable Ent Pay empty_pay clock0 spent pnone ptime sys fuel (initial_store Ent Pay dyn clk cs) ps ->
        all_present Ent Pay cs (p_store (ent (pst Ent Pay) Pay string string (option string) ps)).
Proof. exact @presence_invariant. Qed.

Theorem C10_views_never_raise_on_reachable :
  forall (Ent Pay V : Type) (empty_pay : Pay) (clock0 : Ent) (spent : Ent -> Pay -> option Ent)
          (pnone : Pay) (ptime : Z -> Pay) (sys : list (inst Ent Pay)) (fuel : nat) 
          (dyn clk : Ent) (cs : list (component Ent Pay))
          (ps : Play.store (pst Ent Pay) Pay string string (option string)),
        binds_closed Ent Pay cs = true ->
        reachable Ent Pay empty_pay clock0 spent pnone ptime sys fuel (initial_store Ent Pay dyn clk cs) ps ->
        let st := p_store (ent (pst Ent Pay) Pay string string (option string) ps) in
        (forall (c : component Ent Pay) (vf : view_fn Ent V),
         In c cs -> exists v : V, view_call Ent Pay V c vf st = Some (st, v)) /\
        (forall children : list (cview Ent Pay V),
         (forall cv : cview Ent Pay V, In cv children -> In (cv_comp cv) cs) ->
         exists rs : list V,
           agg_call Ent Pay V children st = Some (st, rs) /\ Datatypes.length rs = Datatypes.length children) /\
        (exists ck : Ent, clock_view Ent clock0 st = Some (st, ck)).
Proof. exact @views_never_raise_on_reachable. Qed.

Theorem C10_views_read_only :
  forall (Ent Pay V : Type) (clock0 : Ent) (cs : list (component Ent Pay)) (st : store Ent),
        all_present Ent Pay cs st ->
        (forall (c : component Ent Pay) (vf : view_fn Ent V) (st' : store Ent) (v : V),
         In c cs -> view_call Ent Pay V c vf st = Some (st', v) -> st' = st) /\
        (forall (children : list (cview Ent Pay V)) (st' : store Ent) (rs : list V),
         (forall cv : cview Ent Pay V, In cv children -> In (cv_comp cv) cs) ->
         agg_call Ent Pay V children st = Some (st', rs) -> st' = st) /\
        (forall (st' : store Ent) (ck : Ent), clock_view Ent clock0 st = Some (st', ck) -> st' = st).
Proof. exact @views_read_only. Qed.

Theorem C10_view_frame :
  forall (Ent Pay V : Type) (c : component Ent Pay) (vf : view_fn Ent V) (st st' : store Ent) (v : V),
        view_call Ent Pay V c vf st = Some (st', v) ->
        agree_outside Ent (defaulted_addrs Ent Pay c) st st' /\ pres_le Ent st st'.
Proof. exact @view_frame. Qed.

Theorem C10_view_creates_missing_default :
  view_call Ent Pay Z atk v_cd (("global.dynamics"%string, 100%Z) :: nil) =
        Some (("global.dynamics"%string, 100%Z) :: (".atk.cooldown"%string, 0%Z) :: nil, 0%Z).
Proof. exact @view_creates_missing_default. Qed.

Theorem C10_aggregation_order_irrelevant :
  forall (Ent Pay V : Type) (cs : list (component Ent Pay)) (st : store Ent)
          (children children' : list (cview Ent Pay V)) (rs : list V),
        all_present Ent Pay cs st ->
        (forall cv : cview Ent Pay V, In cv children -> In (cv_comp cv) cs) ->
        Permutation children children' ->
        agg_call Ent Pay V children st = Some (st, rs) ->
        exists rs' : list V, agg_call Ent Pay V children' st = Some (st, rs') /\ Permutation rs rs'.
Proof. exact @agg_order_irrelevant. Qed.

Theorem C10_total_buff_is_sum :
  forall (B : Type) (add : B -> B -> B) (zero : B) (eqv : B -> B -> Prop),
        (forall a : B, eqv a a) ->
        (forall a b : B, eqv a b -> eqv b a) ->
        (forall a b c : B, eqv a b -> eqv b c -> eqv a c) ->
        (forall a a' b : B, eqv a a' -> eqv (add a b) (add a' b)) ->
        (forall a b : B, eqv (add a b) (add b a)) ->
        (forall a b c : B, eqv (add (add a b) c) (add a (add b c))) ->
        (forall a b b' : B, eqv b b' -> eqv (add a b) (add a b')) ->
        forall (Ent Pay : Type) (cs : list (component Ent Pay)) (st : store Ent)
          (children : list (cview Ent Pay (option B))),
        all_present Ent Pay cs st ->
        (forall cv : cview Ent Pay (option B), In cv children -> In (cv_comp cv) cs) ->
        exists rs : list (option B),
          agg_call Ent Pay (option B) children st = Some (st, rs) /\
          buff_view Ent Pay B add zero children st = Some (st, fold_left add (somes B rs) zero) /\
          (forall children' : list (cview Ent Pay (option B)),
           Permutation children children' ->
           exists total' : B,
             buff_view Ent Pay B add zero children' st = Some (st, total') /\
             eqv (fold_left add (somes B rs) zero) total').
Proof. exact @total_buff_is_sum. Qed.

Theorem C10_total_buff_permutation :
  forall (B : Type) (add : B -> B -> B) (zero : B) (eqv : B -> B -> Prop),
        (forall a : B, eqv a a) ->
        (forall a b : B, eqv a b -> eqv b a) ->
        (forall a b c : B, eqv a b -> eqv b c -> eqv a c) ->
        (forall a a' b : B, eqv a a' -> eqv (add a b) (add a' b)) ->
        (forall a b : B, eqv (add a b) (add b a)) ->
        (forall a b c : B, eqv (add (add a b) c) (add a (add b c))) ->
        (forall a b b' : B, eqv b b' -> eqv (add a b) (add a b')) ->
        forall rs rs' : list (option B),
        Permutation rs rs' -> eqv (buff_total B add zero rs) (buff_total B add zero rs').
Proof. exact @buff_total_perm. Qed.

Theorem C10_dispatch_nonvacuous :
  (let '(_, _, _, st, _) := two_plays in st) = st_after /\
        view_call Ent Pay Z atk v_cd st_after = Some (st_after, 3%Z) /\
        view_call Ent Pay Z buff v_stack st_after = Some (st_after, 3001%Z) /\
        clock_view Ent 0%Z st_after = Some (st_after, 2%Z).
Proof. exact @views_after_two_plays. Qed.

Theorem C10_binds_closed_example :
  binds_closed Ent Pay comps = true.
Proof. exact @binds_are_closed. Qed.

Theorem C10_binds_not_closed_example :
  binds_closed Ent Pay (comps ++ orphan :: nil) = false.
Proof. exact @orphan_not_closed. Qed.

Theorem C10_total_buff_example :
  agg_call Ent Pay (option Z) kids st_after = Some (st_after, Some 30%Z :: Some 5%Z :: None :: nil) /\
        buff_view Ent Pay Z Z.add 0%Z kids st_after = Some (st_after, 35%Z) /\
        buff_view Ent Pay Z Z.add 0%Z (rev kids) st_after = Some (st_after, 35%Z).
Proof. exact @total_buff_example. Qed.

Theorem C10_children_by_pattern_example :
  agg_children
          ("clock"%string
           :: "atk.validity"%string
              :: "atk.buff"%string
                 :: "buff.validity"%string
                    :: "buff.buff"%string :: "x.buffer"%string :: "info"%string :: "buff"%string :: nil)
          "buff" = "atk.buff"%string :: "buff.buff"%string :: "x.buffer"%string :: nil.
Proof. exact @children_by_pattern. Qed.

Print Assumptions C10_view_store_access_total.
Print Assumptions C10_view_present_read_only.
Print Assumptions C10_view_raises_when_absent.
Print Assumptions C10_view_raises_witness.
Print Assumptions C10_presence_kept_by_dispatch.
Print Assumptions C10_presence_kept_by_play.
Print Assumptions C10_presence_established_by_init.
Print Assumptions C10_presence_invariant.
Print Assumptions C10_views_never_raise_on_reachable.
Print Assumptions C10_views_read_only.
Print Assumptions C10_view_frame.
Print Assumptions C10_view_creates_missing_default.
Print Assumptions C10_aggregation_order_irrelevant.
Print Assumptions C10_total_buff_is_sum.
Print Assumptions C10_total_buff_permutation.
Print Assumptions C10_dispatch_nonvacuous.
Print Assumptions C10_binds_closed_example.
Print Assumptions C10_binds_not_closed_example.
Print Assumptions C10_total_buff_example.
Print Assumptions C10_children_by_pattern_example.
