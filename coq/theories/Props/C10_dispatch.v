(* C10, the STORE-ACCESS part of the status views (Model/DispatchViews.v over Model/Dispatch.v: WrappedView = get_state over the same bound names as the dispatcher, then a total view function; AggregationView = the results of its children in order; BuffParentView = fold of add over the Some results; clock_view = read_entity global.time with a default; initialisation = install_global_properties + every component own default entities).  For all entity / payload / view-result types, components, view functions, reducers, route caches, plays.  C10_view_store_access_total: if every bound name is present or has a default the view call does not raise; C10_view_present_read_only: if all are present it also returns the store as it was; C10_view_raises_when_absent + C10_view_raises_witness: an absent bound address that no defaulted name resolves to makes it raise -- presence is exactly the guard.  C10_presence_kept_by_dispatch / _by_play: presence of all bound addresses (and of the clock) only grows, for every router dispatch from any cache and every play.  C10_presence_established_by_init: after initialisation all bound addresses are present PROVIDED binds_closed (every bind target is some component own entity or a global property: a boolean over the component data, evaluated by vm_compute on the extracted components in gen/DispatchData.v, together with the same test against the address set of the real initial store).  C10_presence_invariant: hence in every store reachable from the initial store by plays.  C10_views_never_raise_on_reachable: there, every component view, every aggregation view over installed components and the clock view evaluate (no ValueError from store access) and return the store unchanged; C10_views_read_only: under the invariant no view changes the store (in general, C10_view_frame: a view writes only setdefault of absent DEFAULTED bound entities -- C10_view_creates_missing_default is the witness).  C10_total_buff_is_sum: the buff aggregation is fold_left add (the Some results, installation order) zero, the store untouched, and for any permutation of the children the total is equivalent -- hypotheses: eqv an equivalence, add compatible, commutative, associative: exactly C11_stat_add_comm / C11_stat_add_assoc for Stat_add and Stat_seq, and C11_stat_sum_eq_fold identifies Stat.sum with this fold (not re-proved here).  Tested, not proved: view METHODS are total (the component-level part of C10, Props/C10.v and its monitor); the tie of the model to the code (H-dispatch: read sets of real view calls = the model bound addresses, store unchanged, children of the installed aggregation views, buff = Stat.sum in order). ENGINE LEVEL (Proofs/DispatchValidUse.v; known finding C10-validity-ignores-pending-callbacks).  The sentence 'whenever the validity view reports a skill as usable, using that skill at that moment is accepted', read at the engine (view on the current store, then play of B.use), is FALSE of the composition although it holds of every component: play relays the pending emitted callbacks of the previous action BEFORE the action (C05) and a listener may write an entity B depends on.  C10_engine_valid_accepts_refuted: a three-component system (a gauge with a listener on A.use.emitted.global.delay, a skill A announcing a delay, a skill B bound to the gauge) in which B's view and reducer satisfy the component-level law valid -> use not rejected on the SAME state (stated in the theorem, together with binds_closed, distinct names, reachability from the initial store, coherent route cache, nothing raised), the validity view of B on the current store says usable, and pplay of B.use returns B's rejection and no acknowledgement (vm_compute).  C10_engine_refuted_needs_pending: on the SAME store with no pending callbacks the use is accepted -- the pending relay is exactly what breaks it; C10_engine_refuted_flush_by_elapse0: one play of the action (name *, method elapse, payload 0) relays them and B is then no longer advertised (the finding's match criterion); C10_engine_witness_violates_hypothesis: of the hypotheses of the partial theorem only (1) fails in the witness.  TRUE PART: C10_engine_reducer_gets_view_state: if all bound addresses of B are present, no pending emitted callback can write one (statically: touched of its signature) and no dispatcher installed before B that includes the signature can write one (touched_part), then in play (store, B.use) B's reducer is called on exactly the state get_state -- hence every view of B -- reads on the current store, and the play's events contain B's tagged answer to it; C10_engine_valid_accepts_partial: hence for every view / reducer pair with the component law, valid -> B's own events contain no rejection; C10_engine_valid_accepts_no_pending: the special case of an empty pending list; C10_engine_pending_after_play: after ANY play (so after ELAPSE 0) the pending callbacks are those of that play's own events only and the queue of a play is rev(emitted pending) ++ [action] ++ done pending; C10_engine_partial_nonvacuous: the partial theorem applied to the flushed witness.  Hypotheses of the true part that stay hypotheses: coherent route cache (empty cache is, dispatch keeps it), no dispatch raised (p_ok), the method is not literally named global.reject. *)
From Coq Require Import List String ZArith Permutation. From V.Model Require Import Router Play Engine Dispatch DispatchViews. From V.Proofs Require Import DispatchStore DispatchRouter DispatchPlay DispatchExamples DispatchViews DispatchViewsExamples DispatchValidUse DispatchValidUseExamples.

Theorem C10_view_store_access_total :
  forall (Ent Pay V : Type) (c : component Ent Pay) (vf : view_fn Ent V) (st : store Ent),
        (forall n a : string,
         In (n, a) (bound_names Ent Pay c) ->
         present Ent st (resolve (comp_addr Ent Pay c) a) \/ dget (c_default c) n <> None) ->
        exists (st' : store Ent) (v : V), view_call Ent Pay V c vf st = Some (st', v).
Proof. exact @view_total. Qed.

Theorem C10_view_present_read_only :
  forall (Ent Pay V : Type) (c : component Ent Pay) (vf : view_fn Ent V) (st : store Ent),
        (forall x : string, In x (bound_addrs Ent Pay c) -> present Ent st x) ->
        exists fs : fields Ent,
          get_state Ent Pay c st = Some (st, fs) /\ view_call Ent Pay V c vf st = Some (st, vf fs).
Proof. exact @view_present_read_only. Qed.

Theorem C10_view_raises_when_absent :
  forall (Ent Pay V : Type) (c : component Ent Pay) (vf : view_fn Ent V) (st : store Ent) (x : string),
        In x (bound_addrs Ent Pay c) ->
        ~ In x (defaulted_addrs Ent Pay c) -> ~ present Ent st x -> view_call Ent Pay V c vf st = None.
Proof. exact @view_raises_when_absent. Qed.

Theorem C10_view_raises_witness :
  view_call Ent Pay Z orphan v_cd (initial_store Ent Pay 100%Z 0%Z (comps ++ orphan :: nil)) = None.
Proof. exact @orphan_view_raises. Qed.

Theorem C10_presence_kept_by_dispatch :
  forall (Ent Pay : Type) (empty_pay : Pay) (clock0 : Ent) (spent : Ent -> Pay -> option Ent)
          (sys : list (inst Ent Pay)) (cs : list (component Ent Pay)) (fuel : nat) 
          (c : Router.cache string) (a : action Pay) (s : rst Ent Pay) (c' : Router.cache string)
          (s' : rst Ent Pay) (evs : list (event Pay)),
        dispatch_c Ent Pay fuel (installed Ent Pay empty_pay clock0 spent sys) c a s = (c', Some (s', evs)) ->
        all_present Ent Pay cs (fst s) -> all_present Ent Pay cs (fst s').
Proof. exact @presence_kept_by_dispatch. Qed.

Theorem C10_presence_kept_by_play :
  forall (Ent Pay : Type) (empty_pay : Pay) (clock0 : Ent) (spent : Ent -> Pay -> option Ent)
          (pnone : Pay) (ptime : Z -> Pay) (sys : list (inst Ent Pay)) (cs : list (component Ent Pay))
          (fuel : nat) (st : Play.store (pst Ent Pay) Pay string string (option string))
          (a : Play.action Pay string string (option string)),
        all_present Ent Pay cs (p_store (ent (pst Ent Pay) Pay string string (option string) st)) ->
        all_present Ent Pay cs
          (p_store
             (ent (pst Ent Pay) Pay string string (option string)
                (fst
                   (fst (pplay Ent Pay pnone ptime fuel (installed Ent Pay empty_pay clock0 spent sys) st a))))).
Proof. exact @presence_kept_by_play. Qed.

Theorem C10_presence_established_by_init :
  forall (Ent Pay : Type) (dyn clk : Ent) (cs : list (component Ent Pay)),
        binds_closed Ent Pay cs = true -> all_present Ent Pay cs (initial_store Ent Pay dyn clk cs).
Proof. exact @presence_established_by_init. Qed.

Theorem C10_presence_invariant :
  forall (Ent Pay : Type) (empty_pay : Pay) (clock0 : Ent) (spent : Ent -> Pay -> option Ent)
          (pnone : Pay) (ptime : Z -> Pay) (sys : list (inst Ent Pay)) (fuel : nat) 
          (dyn clk : Ent) (cs : list (component Ent Pay))
          (ps : Play.store (pst Ent Pay) Pay string string (option string)),
        binds_closed Ent Pay cs = true ->
        reachable Ent Pay empty_pay clock0 spent pnone ptime sys fuel (initial_store Ent Pay dyn clk cs) ps ->
        all_present Ent Pay cs (p_store (ent (pst Ent Pay) Pay string string (option string) ps)).
Proof. exact @presence_invariant. Qed.

Theorem C10_views_never_raise_on_reachable :
  forall (Ent Pay V : Type) (empty_pay : Pay) (clock0 : Ent) (spent : Ent -> Pay -> option Ent)
          (pnone : Pay) (ptime : Z -> Pay) (sys : list (inst Ent Pay)) (fuel : nat) 
          (dyn clk : Ent) (cs : list (component Ent Pay))
          (ps : Play.store (pst Ent Pay) Pay string string (option string)),
        binds_closed Ent Pay cs = true ->
        reachable Ent Pay empty_pay clock0 spent pnone ptime sys fuel (initial_store Ent Pay dyn clk cs) ps ->
        let st := p_store (ent (pst Ent Pay) Pay string string (option string) ps) in
        (forall (c : component Ent Pay) (vf : view_fn Ent V),
         In c cs -> exists v : V, view_call Ent Pay V c vf st = Some (st, v)) /\
        (forall children : list (cview Ent Pay V),
         (forall cv : cview Ent Pay V, In cv children -> In (cv_comp cv) cs) ->
         exists rs : list V,
           agg_call Ent Pay V children st = Some (st, rs) /\ Datatypes.length rs = Datatypes.length children) /\
        (exists ck : Ent, clock_view Ent clock0 st = Some (st, ck)).
Proof. exact @views_never_raise_on_reachable. Qed.

Theorem C10_views_read_only :
  forall (Ent Pay V : Type) (clock0 : Ent) (cs : list (component Ent Pay)) (st : store Ent),
        all_present Ent Pay cs st ->
        (forall (c : component Ent Pay) (vf : view_fn Ent V) (st' : store Ent) (v : V),
         In c cs -> view_call Ent Pay V c vf st = Some (st', v) -> st' = st) /\
        (forall (children : list (cview Ent Pay V)) (st' : store Ent) (rs : list V),
         (forall cv : cview Ent Pay V, In cv children -> In (cv_comp cv) cs) ->
         agg_call Ent Pay V children st = Some (st', rs) -> st' = st) /\
        (forall (st' : store Ent) (ck : Ent), clock_view Ent clock0 st = Some (st', ck) -> st' = st).
Proof. exact @views_read_only. Qed.

Theorem C10_view_frame :
  forall (Ent Pay V : Type) (c : component Ent Pay) (vf : view_fn Ent V) (st st' : store Ent) (v : V),
        view_call Ent Pay V c vf st = Some (st', v) ->
        agree_outside Ent (defaulted_addrs Ent Pay c) st st' /\ pres_le Ent st st'.
Proof. exact @view_frame. Qed.

Theorem C10_view_creates_missing_default :
  view_call Ent Pay Z atk v_cd (("global.dynamics"%string, 100%Z) :: nil) =
        Some (("global.dynamics"%string, 100%Z) :: (".atk.cooldown"%string, 0%Z) :: nil, 0%Z).
Proof. exact @view_creates_missing_default. Qed.

Theorem C10_aggregation_order_irrelevant :
  forall (Ent Pay V : Type) (cs : list (component Ent Pay)) (st : store Ent)
          (children children' : list (cview Ent Pay V)) (rs : list V),
        all_present Ent Pay cs st ->
        (forall cv : cview Ent Pay V, In cv children -> In (cv_comp cv) cs) ->
        Permutation children children' ->
        agg_call Ent Pay V children st = Some (st, rs) ->
        exists rs' : list V, agg_call Ent Pay V children' st = Some (st, rs') /\ Permutation rs rs'.
Proof. exact @agg_order_irrelevant. Qed.

Theorem C10_total_buff_is_sum :
  forall (B : Type) (add : B -> B -> B) (zero : B) (eqv : B -> B -> Prop),
        (forall a : B, eqv a a) ->
        (forall a b : B, eqv a b -> eqv b a) ->
        (forall a b c : B, eqv a b -> eqv b c -> eqv a c) ->
        (forall a a' b : B, eqv a a' -> eqv (add a b) (add a' b)) ->
        (forall a b : B, eqv (add a b) (add b a)) ->
        (forall a b c : B, eqv (add (add a b) c) (add a (add b c))) ->
        (forall a b b' : B, eqv b b' -> eqv (add a b) (add a b')) ->
        forall (Ent Pay : Type) (cs : list (component Ent Pay)) (st : store Ent)
          (children : list (cview Ent Pay (option B))),
        all_present Ent Pay cs st ->
        (forall cv : cview Ent Pay (option B), In cv children -> In (cv_comp cv) cs) ->
        exists rs : list (option B),
          agg_call Ent Pay (option B) children st = Some (st, rs) /\
          buff_view Ent Pay B add zero children st = Some (st, fold_left add (somes B rs) zero) /\
          (forall children' : list (cview Ent Pay (option B)),
           Permutation children children' ->
           exists total' : B,
             buff_view Ent Pay B add zero children' st = Some (st, total') /\
             eqv (fold_left add (somes B rs) zero) total').
Proof. exact @total_buff_is_sum. Qed.

Theorem C10_total_buff_permutation :
  forall (B : Type) (add : B -> B -> B) (zero : B) (eqv : B -> B -> Prop),
        (forall a : B, eqv a a) ->
        (forall a b : B, eqv a b -> eqv b a) ->
        (forall a b c : B, eqv a b -> eqv b c -> eqv a c) ->
        (forall a a' b : B, eqv a a' -> eqv (add a b) (add a' b)) ->
        (forall a b : B, eqv (add a b) (add b a)) ->
        (forall a b c : B, eqv (add (add a b) c) (add a (add b c))) ->
        (forall a b b' : B, eqv b b' -> eqv (add a b) (add a b')) ->
        forall rs rs' : list (option B),
        Permutation rs rs' -> eqv (buff_total B add zero rs) (buff_total B add zero rs').
Proof. exact @buff_total_perm. Qed.

Theorem C10_dispatch_nonvacuous :
  (let '(_, _, _, st, _) := two_plays in st) = st_after /\
        view_call Ent Pay Z atk v_cd st_after = Some (st_after, 3%Z) /\
        view_call Ent Pay Z buff v_stack st_after = Some (st_after, 3001%Z) /\
        clock_view Ent 0%Z st_after = Some (st_after, 2%Z).
Proof. exact @views_after_two_plays. Qed.

Theorem C10_binds_closed_example :
  binds_closed Ent Pay comps = true.
Proof. exact @binds_are_closed. Qed.

Theorem C10_binds_not_closed_example :
  binds_closed Ent Pay (comps ++ orphan :: nil) = false.
Proof. exact @orphan_not_closed. Qed.

Theorem C10_total_buff_example :
  agg_call Ent Pay (option Z) kids st_after = Some (st_after, Some 30%Z :: Some 5%Z :: None :: nil) /\
        buff_view Ent Pay Z Z.add 0%Z kids st_after = Some (st_after, 35%Z) /\
        buff_view Ent Pay Z Z.add 0%Z (rev kids) st_after = Some (st_after, 35%Z).
Proof. exact @total_buff_example. Qed.

Theorem C10_children_by_pattern_example :
  agg_children
          ("clock"%string
           :: "atk.validity"%string
              :: "atk.buff"%string
                 :: "buff.validity"%string
                    :: "buff.buff"%string :: "x.buffer"%string :: "info"%string :: "buff"%string :: nil)
          "buff" = "atk.buff"%string :: "buff.buff"%string :: "x.buffer"%string :: nil.
Proof. exact @children_by_pattern. Qed.

Theorem C10_engine_valid_accepts_refuted :
  exists
          (cs : list (component Ent Pay)) (B : component Ent Pay) (vB : fields Ent -> bool) 
        (redB : reducer Ent Pay) (ps : wpstore),
          let ds := installed Ent Pay 0%Z 0%Z xspent (shipped_system Ent Pay cs) in
          let st := p_store (ent (pst Ent Pay) Pay string string (option string) ps) in
          In B cs /\
          dget (c_maps B) "B.use" = Some {| m_method := Some "use"%string; m_red := Some redB |} /\
          valid_accepts Ent Pay vB redB /\
          (forall (p : Pay) (fs : fields Ent),
           exists (out : fields Ent) (me : maybe_events Pay), redB p fs = Some (out, me)) /\
          binds_closed Ent Pay cs = true /\
          names_distinct Ent Pay cs = true /\
          reachable Ent Pay 0%Z 0%Z xspent 0%Z (fun t : Z => t) (shipped_system Ent Pay cs) 5
            (initial_store Ent Pay 100%Z 0%Z cs) ps /\
          wf Ent Pay 0%Z 0%Z xspent (shipped_system Ent Pay cs)
            (ent (pst Ent Pay) Pay string string (option string) ps) /\
          p_ok (ent (pst Ent Pay) Pay string string (option string) ps) = true /\
          view_call Ent Pay bool B vB st = Some (st, true) /\
          (let
           '(ps', E, _) := pplay Ent Pay 0%Z (fun t : Z => t) 5 ds ps (PA "B" "use" (PNone Pay)) in
            p_ok (ent (pst Ent Pay) Pay string string (option string) ps') = true /\
            own_reject "B" E = true /\ own_accept "B" E = false).
Proof. exact @engine_valid_accepts_refuted. Qed.

Theorem C10_engine_refuted_needs_pending :
  p_store (ent (pst Ent Pay) Pay string string (option string) w_ps1_flushed) =
        p_store (ent (pst Ent Pay) Pay string string (option string) w_ps1) /\
        cbs (pst Ent Pay) Pay string string (option string) w_ps1 <> nil /\
        view_call Ent Pay bool w_B v_B
          (p_store (ent (pst Ent Pay) Pay string string (option string) w_ps1_flushed)) =
        Some (p_store (ent (pst Ent Pay) Pay string string (option string) w_ps1_flushed), true) /\
        (let
         '(ps', E, _) := w_play w_ps1_flushed (PA "B" "use" (PNone Pay)) in
          p_ok (ent (pst Ent Pay) Pay string string (option string) ps') = true /\
          own_reject "B" E = false /\ own_accept "B" E = true).
Proof. exact @engine_refuted_needs_pending. Qed.

Theorem C10_engine_refuted_flush_by_elapse0 :
  let
        '(ps2, _, q) := w_play w_ps1 (PA "*" "elapse" (PTime Pay 0)) in
         Datatypes.length q = 5 /\
         p_ok (ent (pst Ent Pay) Pay string string (option string) ps2) = true /\
         view_call Ent Pay bool w_B v_B (p_store (ent (pst Ent Pay) Pay string string (option string) ps2)) =
         Some (p_store (ent (pst Ent Pay) Pay string string (option string) ps2), false).
Proof. exact @engine_refuted_flush_by_elapse0. Qed.

Theorem C10_engine_witness_component_law :
  valid_accepts Ent Pay v_B b_use /\
        (forall (p : Pay) (fs : fields Ent),
         exists (out : fields Ent) (me : maybe_events Pay), b_use p fs = Some (out, me)).
Proof. exact @w_B_law. Qed.

Theorem C10_engine_witness_violates_hypothesis :
  existsb (eqb ".gauge.amount") (bound_addrs Ent Pay w_B) = true /\
        existsb (eqb ".gauge.amount")
          (flat_map (fun q : pact => touched Ent Pay 5 w_sys (sig_of (act_of Pay 0%Z (fun t : Z => t) q)))
             (emitted_of Pay (cbs (pst Ent Pay) Pay string string (option string) w_ps1))) = true /\
        touched_part Ent Pay 4 w_sys (IComp w_gauge :: IComp w_A :: nil) "B.use" = nil.
Proof. exact @witness_violates_hypothesis_1. Qed.

Theorem C10_engine_reducer_gets_view_state :
  forall (Ent Pay : Type) (empty_pay : Pay) (clock0 : Ent) (spent : Ent -> Pay -> option Ent)
          (pnone : Pay) (ptime : Z -> Pay) (pre post : list (inst Ent Pay)) (B : component Ent Pay) 
          (n : nat) (ps : Play.store (pst Ent Pay) Pay string string (option string))
          (a : Play.action Pay string string (option string)) (key method : string) 
          (red : reducer Ent Pay),
        let sys := pre ++ IComp B :: post in
        let st := p_store (ent (pst Ent Pay) Pay string string (option string) ps) in
        wf Ent Pay empty_pay clock0 spent sys (ent (pst Ent Pay) Pay string string (option string) ps) ->
        find_mapping Ent Pay B (sig_of (act_of Pay pnone ptime a)) = FFound key ->
        dget (c_maps B) key = Some {| m_method := Some method; m_red := Some red |} ->
        (forall x : string, In x (bound_addrs Ent Pay B) -> present Ent st x) ->
        (forall x : string,
         In x (bound_addrs Ent Pay B) ->
         ~
         In x
           (flat_map
              (fun q : Play.action Pay string string (option string) =>
               touched Ent Pay (S n) sys (sig_of (act_of Pay pnone ptime q)))
              (emitted_of Pay (cbs (pst Ent Pay) Pay string string (option string) ps)))) ->
        (forall x : string,
         In x (bound_addrs Ent Pay B) ->
         ~ In x (touched_part Ent Pay n sys pre (sig_of (act_of Pay pnone ptime a)))) ->
        let
        '(ps1, E, _) := pplay Ent Pay pnone ptime (S n) (installed Ent Pay empty_pay clock0 spent sys) ps a in
         p_ok (ent (pst Ent Pay) Pay string string (option string) ps1) = true ->
         exists
           (fs out : fields Ent) (me : maybe_events Pay) (before
                                                          after : list
                                                                    (Play.event Pay string string
                                                                       (option string))),
           get_state Ent Pay B st = Some (st, fs) /\
           red (a_pay (act_of Pay pnone ptime a)) fs = Some (out, me) /\
           E =
           before ++
           map (pev_of Pay) (tag_events Pay empty_pay (c_name B) method (regularize Pay me)) ++ after.
Proof. exact @play_gives_view_state. Qed.

Theorem C10_engine_valid_accepts_partial :
  forall (Ent Pay : Type) (empty_pay : Pay) (clock0 : Ent) (spent : Ent -> Pay -> option Ent)
          (pnone : Pay) (ptime : Z -> Pay) (pre post : list (inst Ent Pay)) (B : component Ent Pay) 
          (n : nat) (ps : Play.store (pst Ent Pay) Pay string string (option string))
          (a : Play.action Pay string string (option string)) (key method : string) 
          (red : reducer Ent Pay) (vf : fields Ent -> bool),
        let sys := pre ++ IComp B :: post in
        let st := p_store (ent (pst Ent Pay) Pay string string (option string) ps) in
        wf Ent Pay empty_pay clock0 spent sys (ent (pst Ent Pay) Pay string string (option string) ps) ->
        find_mapping Ent Pay B (sig_of (act_of Pay pnone ptime a)) = FFound key ->
        dget (c_maps B) key = Some {| m_method := Some method; m_red := Some red |} ->
        method <> REJECT ->
        (forall x : string, In x (bound_addrs Ent Pay B) -> present Ent st x) ->
        (forall x : string,
         In x (bound_addrs Ent Pay B) ->
         ~
         In x
           (flat_map
              (fun q : Play.action Pay string string (option string) =>
               touched Ent Pay (S n) sys (sig_of (act_of Pay pnone ptime q)))
              (emitted_of Pay (cbs (pst Ent Pay) Pay string string (option string) ps)))) ->
        (forall x : string,
         In x (bound_addrs Ent Pay B) ->
         ~ In x (touched_part Ent Pay n sys pre (sig_of (act_of Pay pnone ptime a)))) ->
        valid_accepts Ent Pay vf red ->
        view_call Ent Pay bool B vf st = Some (st, true) ->
        let
        '(ps1, E, _) := pplay Ent Pay pnone ptime (S n) (installed Ent Pay empty_pay clock0 spent sys) ps a in
         p_ok (ent (pst Ent Pay) Pay string string (option string) ps1) = true ->
         exists (own : list (event Pay)) (before after : list (Play.event Pay string string (option string))),
           E = before ++ map (pev_of Pay) own ++ after /\
           (exists (fs out : fields Ent) (me : maybe_events Pay),
              get_state Ent Pay B st = Some (st, fs) /\
              red (a_pay (act_of Pay pnone ptime a)) fs = Some (out, me) /\
              own = tag_events Pay empty_pay (c_name B) method (regularize Pay me)) /\
           existsb (raw_reject Pay) own = false.
Proof. exact @valid_use_accepted_when_nothing_interferes. Qed.

Theorem C10_engine_valid_accepts_no_pending :
  forall (Ent Pay : Type) (empty_pay : Pay) (clock0 : Ent) (spent : Ent -> Pay -> option Ent)
          (pnone : Pay) (ptime : Z -> Pay) (pre post : list (inst Ent Pay)) (B : component Ent Pay) 
          (n : nat) (ps : Play.store (pst Ent Pay) Pay string string (option string))
          (a : Play.action Pay string string (option string)) (key method : string) 
          (red : reducer Ent Pay) (vf : fields Ent -> bool),
        let sys := pre ++ IComp B :: post in
        let st := p_store (ent (pst Ent Pay) Pay string string (option string) ps) in
        cbs (pst Ent Pay) Pay string string (option string) ps = nil ->
        wf Ent Pay empty_pay clock0 spent sys (ent (pst Ent Pay) Pay string string (option string) ps) ->
        find_mapping Ent Pay B (sig_of (act_of Pay pnone ptime a)) = FFound key ->
        dget (c_maps B) key = Some {| m_method := Some method; m_red := Some red |} ->
        method <> REJECT ->
        (forall x : string, In x (bound_addrs Ent Pay B) -> present Ent st x) ->
        (forall x : string,
         In x (bound_addrs Ent Pay B) ->
         ~ In x (touched_part Ent Pay n sys pre (sig_of (act_of Pay pnone ptime a)))) ->
        valid_accepts Ent Pay vf red ->
        view_call Ent Pay bool B vf st = Some (st, true) ->
        let
        '(ps1, E, _) := pplay Ent Pay pnone ptime (S n) (installed Ent Pay empty_pay clock0 spent sys) ps a in
         p_ok (ent (pst Ent Pay) Pay string string (option string) ps1) = true ->
         exists (own : list (event Pay)) (before after : list (Play.event Pay string string (option string))),
           E = before ++ map (pev_of Pay) own ++ after /\
           (exists (fs out : fields Ent) (me : maybe_events Pay),
              get_state Ent Pay B st = Some (st, fs) /\
              red (a_pay (act_of Pay pnone ptime a)) fs = Some (out, me) /\
              own = tag_events Pay empty_pay (c_name B) method (regularize Pay me)) /\
           existsb (raw_reject Pay) own = false.
Proof. exact @valid_use_accepted_without_pending. Qed.

Theorem C10_engine_pending_after_play :
  forall (Ent Pay : Type) (pnone : Pay) (ptime : Z -> Pay) (ds : list (disp Ent Pay)) 
          (fuel : nat) (ps : Play.store (pst Ent Pay) Pay string string (option string))
          (a : Play.action Pay string string (option string)),
        let
        '(ps1, E1, q) := pplay Ent Pay pnone ptime fuel ds ps a in
         cbs (pst Ent Pay) Pay string string (option string) ps1 =
         map (callbacks Pay string string (option string)) E1 /\
         emitted_of Pay (cbs (pst Ent Pay) Pay string string (option string) ps1) =
         rev (map (emitted Pay string string (option string)) E1) /\
         q =
         emitted_of Pay (cbs (pst Ent Pay) Pay string string (option string) ps) ++
         (a :: nil) ++ map snd (cbs (pst Ent Pay) Pay string string (option string) ps).
Proof. exact @pending_after_play. Qed.

Theorem C10_engine_partial_nonvacuous :
  let
        '(ps1, E, _) :=
         pplay Ent Pay 0%Z (fun t : Z => t) 5
           (installed Ent Pay 0%Z 0%Z xspent
              ((IComp w_gauge :: IComp w_A :: nil) ++ IComp w_B :: ITimer :: nil)) w_ps1_flushed
           (PA "B" "use" (PNone Pay)) in
         p_ok (ent (pst Ent Pay) Pay string string (option string) ps1) = true ->
         exists (own : list ev) (before after : list (Play.event Pay string string (option string))),
           E = before ++ map (pev_of Pay) own ++ after /\
           (exists (fs out : fields Ent) (me : maybe_events Pay),
              get_state Ent Pay w_B
                (p_store (ent (pst Ent Pay) Pay string string (option string) w_ps1_flushed)) =
              Some (p_store (ent (pst Ent Pay) Pay string string (option string) w_ps1_flushed), fs) /\
              b_use (a_pay (act_of Pay 0%Z (fun t : Z => t) (PA "B" "use" (PNone Pay)))) fs = Some (out, me) /\
              own = tag_events Pay 0%Z (c_name w_B) "use" (regularize Pay me)) /\
           existsb (raw_reject Pay) own = false.
Proof. exact @partial_applies_to_flushed_witness. Qed.

Print Assumptions C10_view_store_access_total.
Print Assumptions C10_view_present_read_only.
Print Assumptions C10_view_raises_when_absent.
Print Assumptions C10_view_raises_witness.
Print Assumptions C10_presence_kept_by_dispatch.
Print Assumptions C10_presence_kept_by_play.
Print Assumptions C10_presence_established_by_init.
Print Assumptions C10_presence_invariant.
Print Assumptions C10_views_never_raise_on_reachable.
Print Assumptions C10_views_read_only.
Print Assumptions C10_view_frame.
Print Assumptions C10_view_creates_missing_default.
Print Assumptions C10_aggregation_order_irrelevant.
Print Assumptions C10_total_buff_is_sum.
Print Assumptions C10_total_buff_permutation.
Print Assumptions C10_dispatch_nonvacuous.
Print Assumptions C10_binds_closed_example.
Print Assumptions C10_binds_not_closed_example.
Print Assumptions C10_total_buff_example.
Print Assumptions C10_children_by_pattern_example.
Print Assumptions C10_engine_valid_accepts_refuted.
Print Assumptions C10_engine_refuted_needs_pending.
Print Assumptions C10_engine_refuted_flush_by_elapse0.
Print Assumptions C10_engine_witness_component_law.
Print Assumptions C10_engine_witness_violates_hypothesis.
Print Assumptions C10_engine_reducer_gets_view_state.
Print Assumptions C10_engine_valid_accepts_partial.
Print Assumptions C10_engine_valid_accepts_no_pending.
Print Assumptions C10_engine_pending_after_play.
Print Assumptions C10_engine_partial_nonvacuous.
