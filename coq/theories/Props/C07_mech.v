(* C07 (extension mech)  A rejected action is reported alone and changes nothing -- for the job-specific classes of Model/SpecMech.v: RobotSummonSkill, RobotSetupBuff, HommingMissile, FullMetalBarrageComponent, MultipleOptionComponent, MecaCarrier (mechanic.py); CosmicOrb, Elysion, CrossTheStyx, CosmicBurst, CosmicShower, Cosmos, FlareSlash (soulmaster.py); FinalCutComponent, BladeStormComponent, KarmaBladeTriggerComponent (dualblade.py); UltimateDarkSightComponent (thief.py); HowlingGaleComponent (windbreaker.py).  xreduce_spec c m p t s = the reducer m of class c with parameters p and payload t on the state s (own entities AND the bound entities the class reads through binds); the model is tied to the code by the H-entity correspondence of tools/lib/ext_mech.py.  C07_mech_reject_alone: every reducer of every modelled class (use, elapse, stop, pause, increase, maximize, crack, trigger, sudden_raid) except the two FlareSlash triggers: if the returned events contain a rejection they are exactly [reject] and the returned state IS the input state, bound entities included.  C07_mech_flareslash_refuted / _partial: FlareSlash.change_stance_trigger and styx_trigger reduce the cooldown BEFORE the availability test of use_simple_attack, so a rejected trigger has changed the cooldown: refuted with a witness; largest true sub-statement: the rejection is alone and the state is unchanged except that the cooldown went down by exactly the configured amount (known finding).  C07_mech_silent_triggers: Elysion.crack and KarmaBlade.trigger, when their guard fails, return no event and the input state.  C07_mech_not_ready_is_noop: a use while the cooldown is running returns the unchanged state and one rejection (12 cooldown-gated classes).  C07_mech_nonvacuous: a rejecting use exists. *)
From Coq Require Import ZArith List Bool Permutation. From V.Model Require Import Comp SpecMech. From V.Proofs Require Import CompReject CompViews CompChunk SpecMechReject SpecMechViews SpecMechDP SpecMechChunk SpecMechWf.

Theorem C07_mech_reject_alone :
  forall (c : xcomp) (m : xmeth) (p : xpar) (t : Z) (s s' : xst) (es : list ev),
        is_flare_trigger c m = false ->
        xreduce_spec c m p t s = Some (s', es) ->
        rejected es = true -> es = EReject :: nil /\ s' = s.
Proof. exact @xreject_alone_spec. Qed.

Theorem C07_mech_flareslash_partial :
  forall (c : xcomp) (m : xmeth) (p : xpar) (t : Z) (s s' : xst) (es : list ev),
        is_flare_trigger c m = true ->
        xreduce_spec c m p t s = Some (s', es) ->
        rejected es = true ->
        es = EReject :: nil /\
        restore_cd s' s = s /\
        u_cd (x_u s') = u_cd (x_u s) - match m with
                                       | XChangeStance => xp_t1 p
                                       | _ => xp_t2 p
                                       end.
Proof. exact @flare_trigger_reject_partial. Qed.

Theorem C07_mech_flareslash_refuted :
  exists (p : xpar) (s s' : xst) (es : list ev),
          xreduce_spec FlareSlash XChangeStance p 0 s = Some (s', es) /\
          rejected es = true /\ s' <> s.
Proof. exact @flare_trigger_reject_refuted. Qed.

Theorem C07_mech_silent_triggers :
  forall (p : xpar) (t : Z) (s : xst),
        (las_on (x_u s) = false \/ avail2 (x_u s) = false ->
         xreduce_spec Elysion XCrack p t s = Some (s, nil)) /\
        (LS.enabled (x_ls s) = false \/ avail (x_u s) = false ->
         xreduce_spec KarmaBlade XTrigger p t s = Some (s, nil)).
Proof. exact @silent_triggers. Qed.

Theorem C07_mech_not_ready_is_noop :
  forall (c : xcomp) (p : xpar) (t : Z) (s : xst),
        cooldown_gated c = true ->
        0 < u_cd (x_u s) -> xreduce_spec c XUse p t s = Some (s, EReject :: nil).
Proof. exact @xnot_ready_noop. Qed.

Theorem C07_mech_nonvacuous :
  xreduce_spec FinalCut XUse flare_par 0 flare_state = Some (flare_state, EReject :: nil).
Proof. exact @xreject_happens. Qed.

Print Assumptions C07_mech_reject_alone.
Print Assumptions C07_mech_flareslash_partial.
Print Assumptions C07_mech_flareslash_refuted.
Print Assumptions C07_mech_silent_triggers.
Print Assumptions C07_mech_not_ready_is_noop.
Print Assumptions C07_mech_nonvacuous.
