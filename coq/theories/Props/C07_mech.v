(* C07 (extension mech)  A rejected action is reported alone and changes nothing -- for the job-specific classes of Model/SpecMech.v: RobotSummonSkill, RobotSetupBuff, HommingMissile, FullMetalBarrageComponent, MultipleOptionComponent, MecaCarrier (mechanic.py); CosmicOrb, Elysion, CrossTheStyx, CosmicBurst, CosmicShower, Cosmos, FlareSlash (soulmaster.py); FinalCutComponent, BladeStormComponent, KarmaBladeTriggerComponent (dualblade.py); UltimateDarkSightComponent (thief.py); HowlingGaleComponent (windbreaker.py).  xreduce_spec c m p t s = the reducer m of class c with parameters p and payload t on the state s (own entities AND the bound entities the class reads through binds); the model is tied to the code by the H-entity correspondence of tools/lib/ext_mech.py.  C07_mech_reject_alone: every reducer of every modelled class (use, elapse, stop, pause, increase, maximize, crack, trigger, sudden_raid) (the two FlareSlash triggers included, after the repair 5aadaec of a defect this check found): if the returned events contain a rejection they are exactly [reject] and the returned state IS the input state, bound entities included.  C07_mech_flareslash_silent: FlareSlash.change_stance_trigger and styx_trigger (now @ignore_rejected) never report a rejection; while the slash is still cooling down after the reduction they return no event and the input state with the cooldown shortened by exactly the configured amount.  C07_mech_flareslash_repaired: the witnesses of the two former known findings (cooldown 10000, reductions 800 / 1200) now answer with no event.  C07_mech_silent_triggers: Elysion.crack and KarmaBlade.trigger, when their guard fails, return no event and the input state.  C07_mech_not_ready_is_noop: a use while the cooldown is running returns the unchanged state and one rejection (12 cooldown-gated classes).  C07_mech_nonvacuous: a rejecting use exists. *)
From Coq Require Import ZArith List Bool Permutation. From V.Model Require Import Comp SpecMech. From V.Proofs Require Import CompReject CompViews CompChunk SpecMechReject SpecMechViews SpecMechDP SpecMechChunk SpecMechWf.

Theorem C07_mech_reject_alone :
  forall (c : xcomp) (m : xmeth) (p : xpar) (t : Z) (s s' : xst) (es : list ev),
        xreduce_spec c m p t s = Some (s', es) ->
        rejected es = true -> es = EReject :: nil /\ s' = s.
Proof. exact @xreject_alone_spec. Qed.

Theorem C07_mech_flareslash_silent :
  forall (c : xcomp) (m : xmeth) (p : xpar) (t : Z) (s s' : xst) (es : list ev),
        c = FlareSlash /\ (m = XChangeStance \/ m = XStyx) ->
        xreduce_spec c m p t s = Some (s', es) ->
        rejected es = false /\
        (let r := match m with
                  | XChangeStance => xp_t1 p
                  | _ => xp_t2 p
                  end in
         0 < u_cd (x_u s) - r ->
         es = nil /\ s' = set_u s (set_cd (x_u s) (u_cd (x_u s) - r))).
Proof. exact @flare_trigger_silent. Qed.

Theorem C07_mech_flareslash_repaired :
  xreduce_spec FlareSlash XChangeStance flare_par 0 flare_state = Some (set_u x0 (set_cd u0 9200), nil) /\
        xreduce_spec FlareSlash XStyx flare_par 0 flare_state = Some (set_u x0 (set_cd u0 8800), nil).
Proof. exact @flare_trigger_repaired. Qed.

Theorem C07_mech_silent_triggers :
  forall (p : xpar) (t : Z) (s : xst),
        (las_on (x_u s) = false \/ avail2 (x_u s) = false ->
         xreduce_spec Elysion XCrack p t s = Some (s, nil)) /\
        (LS.enabled (x_ls s) = false \/ avail (x_u s) = false ->
         xreduce_spec KarmaBlade XTrigger p t s = Some (s, nil)).
Proof. exact @silent_triggers. Qed.

Theorem C07_mech_not_ready_is_noop :
  forall (c : xcomp) (p : xpar) (t : Z) (s : xst),
        cooldown_gated c = true ->
        0 < u_cd (x_u s) -> xreduce_spec c XUse p t s = Some (s, EReject :: nil).
Proof. exact @xnot_ready_noop. Qed.

Theorem C07_mech_nonvacuous :
  xreduce_spec FinalCut XUse flare_par 0 flare_state = Some (flare_state, EReject :: nil).
Proof. exact @xreject_happens. Qed.

Print Assumptions C07_mech_reject_alone.
Print Assumptions C07_mech_flareslash_silent.
Print Assumptions C07_mech_flareslash_repaired.
Print Assumptions C07_mech_silent_triggers.
Print Assumptions C07_mech_not_ready_is_noop.
Print Assumptions C07_mech_nonvacuous.
