(* C10 (extension mage)  Status views never advertise a skill that would be rejected, for the classes of Model/SpecMage.v.  Views are total functions of the state by construction (Python exceptions are outside the model and are monitored on the implementation).  C10_mage_time_left_nonneg: validity never reports a negative remaining time.  C10_mage_valid_accepts: for every modelled class with a validity view (FlameSwipVI included), all parameters and all states: whenever validity reports the skill usable, use returns no rejection.  C10_mage_validity_mirrors_use: except for DivineMinion (whose validity can be switched off by configuration) validity is exactly 'use would not be rejected'.  C10_mage_nonvacuous: a usable and a cooling state, and a value of the Infinity buff view (70 + 3 * floor((20000-9000)/5000) = 76). *)
From Coq Require Import ZArith List Bool. From V.Model Require Import Comp SpecMage. From V.Proofs Require Import SpecMageReject.

Theorem C10_mage_time_left_nonneg :
  forall (c : xcomp) (p : xpar) (s : xst) (v : validity),
        xview_validity c p s = Some v -> 0 <= v_time_left v.
Proof. exact @xvalidity_time_left_nonneg. Qed.

Theorem C10_mage_valid_accepts :
  forall (c : xcomp) (p : xpar) (t : Z) (s : xst) (v : validity) (s' : xst) (es : list xev),
        xview_validity c p s = Some v ->
        v_valid v = true -> xreduce_spec c XUse p t s = Some (s', es) -> xrejected es = false.
Proof. exact @xvalid_accepts. Qed.

Theorem C10_mage_validity_mirrors_use :
  forall (c : xcomp) (p : xpar) (t : Z) (s : xst) (v : validity) (s' : xst) (es : list xev),
        c <> DivineMinion ->
        xview_validity c p s = Some v ->
        xreduce_spec c XUse p t s = Some (s', es) -> v_valid v = negb (xrejected es).
Proof. exact @xvalidity_mirrors_use. Qed.

Theorem C10_mage_nonvacuous :
  xview_validity ThunderAttack xp0 x0 =
        Some {| v_valid := true; v_time_left := 0; v_stack := None |} /\
        xview_validity ThunderAttack xp0 x0_cooling =
        Some {| v_valid := false; v_time_left := 500; v_stack := None |} /\
        xview_buff Infinity xp0 (xset_u x0 (set_las (x_u x0) 9000 20000)) = Some (76 * 1).
Proof. exact @xvalid_state_exists. Qed.

Print Assumptions C10_mage_time_left_nonneg.
Print Assumptions C10_mage_valid_accepts.
Print Assumptions C10_mage_validity_mirrors_use.
Print Assumptions C10_mage_nonvacuous.
