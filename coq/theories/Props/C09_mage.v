(* C09 (extension mage)  Letting time pass in one step or in several gives the same ticks and status, for the classes of Model/SpecMage.v that have an elapse reducer (all but FlameSwipVI, FerventDrain, FrostEffect, which have none).  Times are integer ticks.  C09_mage_elapse_chunk: for every such class, all parameters, every well-formed state (xwf) satisfying the capped-schedule invariant (xinv: for JupyterThunder / ThunderBreak, once the tick count has reached max_count the schedule is disabled; True for the others) and all a, b >= 0: the damage events of elapse a followed by elapse b are, in order, exactly those of elapse (a+b) (same damage, hit and modifier: the frost stacks consumed and the shock advantage included), and the final states (own AND bound entities) have the same observation xnorm (= the state with the interval counter and tick count of a schedule that is over forgotten).  C09_mage_observation_sound: states with the same observation answer every reducer with the same events and states with the same observation, and show the same views: the forgotten data is dead.  C09_mage_elapse_chunk_views: hence validity, running and buff views agree.  C09_mage_wf_invariant / C09_mage_capped_invariant / C09_mage_capped_established: xwf and xinv are preserved by every reducer and xinv is established by an accepted use (0 < max_count), so the theorem applies in every reachable state.  C09_mage_elapse_total: the specification's fuelled loops never run out of fuel.  C09_mage_elapsed_carries_time: every elapsed notification carries the time of the elapse.  C09_mage_field_chunk: the FIFO list of electric-current schedules of ChainLightningVI (drop the ones that are over, sum the ticks) is chunk-additive.  C09_mage_nonvacuous_capped / _fields: concrete runs that reach the cap / drop a field.  Hypotheses recorded in xwf_par: lasting durations are positive (Periodic.set_time_left raises otherwise). *)
From Coq Require Import ZArith List Bool. From V.Model Require Import Comp SpecMage. From V.Proofs Require Import SpecMageReject SpecMageChunk SpecMageLoop SpecMageField SpecMageC09 SpecMageObs.

Theorem C09_mage_elapse_chunk :
  forall (c : xcomp) (p : xpar) (a b : Z) (s s1 : xst) (e1 : list xev) 
          (s2 : xst) (e2 : list xev) (s3 : xst) (e3 : list xev),
        xhas_elapse c = true ->
        xwf s ->
        xinv c p s ->
        0 <= a ->
        0 <= b ->
        xreduce_spec c XElapse p a s = Some (s1, e1) ->
        xreduce_spec c XElapse p b s1 = Some (s2, e2) ->
        xreduce_spec c XElapse p (a + b) s = Some (s3, e3) ->
        xnorm s2 = xnorm s3 /\ xdealts (e1 ++ e2) = xdealts e3.
Proof. exact @xelapse_chunk. Qed.

Theorem C09_mage_elapse_chunk_views :
  forall (c : xcomp) (p : xpar) (a b : Z) (s s1 : xst) (e1 : list xev) 
          (s2 : xst) (e2 : list xev) (s3 : xst) (e3 : list xev),
        xhas_elapse c = true ->
        xwf s ->
        xinv c p s ->
        0 <= a ->
        0 <= b ->
        xreduce_spec c XElapse p a s = Some (s1, e1) ->
        xreduce_spec c XElapse p b s1 = Some (s2, e2) ->
        xreduce_spec c XElapse p (a + b) s = Some (s3, e3) ->
        xview_validity c p s2 = xview_validity c p s3 /\
        xview_running c p s2 = xview_running c p s3 /\ xview_buff c p s2 = xview_buff c p s3.
Proof. exact @xelapse_chunk_views. Qed.

Theorem C09_mage_observation_sound :
  forall (c : xcomp) (m : xmeth) (p : xpar) (t : Z) (s s' : xst),
        0 <= P.tl (u_p1 (x_u s)) ->
        0 <= P.tl (u_p1 (x_u s')) ->
        xnorm s = xnorm s' ->
        xres_eq (xreduce_spec c m p t s) (xreduce_spec c m p t s') /\
        xview_validity c p s = xview_validity c p s' /\
        xview_running c p s = xview_running c p s' /\ xview_buff c p s = xview_buff c p s'.
Proof. exact @xnorm_sound. Qed.

Theorem C09_mage_wf_invariant :
  forall (c : xcomp) (m : xmeth) (p : xpar) (t : Z) (s s' : xst) (es : list xev),
        xwf s ->
        xwf_par p s ->
        0 <= t -> xreduce_spec c m p t s = Some (s', es) -> xwf s' /\ u_ic1 (x_u s') = u_ic1 (x_u s).
Proof. exact @xwf_preserved. Qed.

Theorem C09_mage_capped_invariant :
  forall (c : xcomp) (m : xmeth) (p : xpar) (t : Z) (s s' : xst) (es : list xev),
        xcapped c = true -> xinv c p s -> xreduce_spec c m p t s = Some (s', es) -> xinv c p s'.
Proof. exact @xinv_preserved. Qed.

Theorem C09_mage_capped_established :
  forall (c : xcomp) (p : xpar) (t : Z) (s s' : xst) (es : list xev),
        xcapped c = true ->
        0 < p_maxcount (xp p) ->
        xreduce_spec c XUse p t s = Some (s', es) -> xrejected es = false -> xinv c p s'.
Proof. exact @xinv_use_established. Qed.

Theorem C09_mage_elapse_total :
  forall (c : xcomp) (p : xpar) (t : Z) (s : xst),
        xhas_elapse c = true -> xwf s -> 0 <= t -> xreduce_spec c XElapse p t s <> None.
Proof. exact @xelapse_total. Qed.

Theorem C09_mage_elapsed_carries_time :
  forall (c : xcomp) (p : xpar) (t : Z) (s s' : xst) (es : list xev),
        xhas_elapse c = true ->
        xwf s ->
        xinv c p s ->
        0 <= t -> xreduce_spec c XElapse p t s = Some (s', es) -> xelapsed_times es = t :: nil.
Proof. exact @xelapsed_carries_time. Qed.

Theorem C09_mage_field_chunk :
  forall a b : Z,
        0 <= a ->
        0 <= b ->
        forall l : list P.P,
        Forall P.wf l ->
        filter P.enabled
          (map (fun q : P.P => P.elapse q b)
             (filter P.enabled (map (fun q : P.P => P.elapse q a) l))) =
        filter P.enabled (map (fun q : P.P => P.elapse q (a + b)) l) /\
        (cf_tick_sum P.elapse a l +
         cf_tick_sum P.elapse b (filter P.enabled (map (fun q : P.P => P.elapse q a) l)))%nat =
        cf_tick_sum P.elapse (a + b) l.
Proof. exact @field_chunk. Qed.

Theorem C09_mage_nonvacuous_capped :
  xwf jt_st /\
        xinv JupyterThunder jt_par jt_st /\
        (let r1 := xreduce_spec JupyterThunder XElapse jt_par 55 jt_st in
         let r2 := xreduce_spec JupyterThunder XElapse jt_par 30 (st_of r1) in
         let r3 := xreduce_spec JupyterThunder XElapse jt_par 85 jt_st in
         evs_of r1 =
         XE (EElapsed 55)
         :: XDealtM 7 1 2 0
            :: XDealtM 7 1 2 0 :: XDealtM 7 1 2 0 :: XDealtM 7 1 2 0 :: XDealtM 7 1 1 0 :: nil /\
         evs_of r2 = XE (EElapsed 30) :: XDealtM 7 1 1 0 :: nil /\
         evs_of r3 =
         XE (EElapsed 85)
         :: XDealtM 7 1 2 0
            :: XDealtM 7 1 2 0
               :: XDealtM 7 1 2 0 :: XDealtM 7 1 2 0 :: XDealtM 7 1 1 0 :: XDealtM 7 1 1 0 :: nil /\
         xnorm (st_of r2) = xnorm (st_of r3) /\
         sk (x_frost (st_of r3)) = 1 /\ P.tl (u_p1 (x_u (st_of r3))) = 0).
Proof. exact @jt_nonvacuous. Qed.

Theorem C09_mage_nonvacuous_fields :
  xwf cl_st /\
        (exists s1 s2 : xst,
           xreduce_spec ChainLightningVI XElapse xp0 1500 cl_st =
           Some
             (s1, XE (EElapsed 1500) :: XE (EDealt 8 1) :: XE (EDealt 8 1) :: XE (EDealt 8 1) :: nil) /\
           xreduce_spec ChainLightningVI XElapse xp0 1500 s1 =
           Some
             (s2, XE (EElapsed 1500) :: XE (EDealt 8 1) :: XE (EDealt 8 1) :: XE (EDealt 8 1) :: nil) /\
           xreduce_spec ChainLightningVI XElapse xp0 3000 cl_st =
           Some
             (s2,
              XE (EElapsed 3000)
              :: XE (EDealt 8 1)
                 :: XE (EDealt 8 1)
                    :: XE (EDealt 8 1)
                       :: XE (EDealt 8 1) :: XE (EDealt 8 1) :: XE (EDealt 8 1) :: nil) /\
           length (cf_per (x_cf s1)) = 2%nat /\ length (cf_per (x_cf s2)) = 1%nat).
Proof. exact @cl_nonvacuous. Qed.

Print Assumptions C09_mage_elapse_chunk.
Print Assumptions C09_mage_elapse_chunk_views.
Print Assumptions C09_mage_observation_sound.
Print Assumptions C09_mage_wf_invariant.
Print Assumptions C09_mage_capped_invariant.
Print Assumptions C09_mage_capped_established.
Print Assumptions C09_mage_elapse_total.
Print Assumptions C09_mage_elapsed_carries_time.
Print Assumptions C09_mage_field_chunk.
Print Assumptions C09_mage_nonvacuous_capped.
Print Assumptions C09_mage_nonvacuous_fields.
