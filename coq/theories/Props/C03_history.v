(* C03, the history layer as GENERATED from simaple/simulate/policy/base.py (tools/tr_history.py -> gen/HistorySrc.v):
   "a hash locates its log", and the generated methods are the definitions the engine model is written with. *)
From Coq Require Import List ZArith Bool.
Import ListNotations.
From V Require Import Lib.PyHist Model.Engine Proofs.HistoryTie.
From G Require Import HistorySrc.

Theorem C03_hash_locates_its_log :
  forall (Ev Act Ck H T D Name : Type) (H0 : H) (hashf : H -> cmd T Name -> list (T * Act * list Ev) -> H) (H_eqb : H -> H -> bool),
    (forall a b, H_eqb a b = true <-> a = b) ->
    (forall p c x p' c' x', hashf p c x = hashf p' c' x' -> p = p') ->          (* the digest is injective in the previous hash *)
    (forall p c x, hashf p c x <> H0) ->                                         (* "" is not a digest *)
    forall ls : list (oplog Ev Act Ck H T D Name), chain_from Ev Act Ck H T D Name hashf H0 ls ->
    forall i l, nth_error ls i = Some l ->
      src_get_hash_index Ev Act Ck H T D Name hashf H_eqb ls (lhash Ev Act Ck H T D Name hashf l) = Some (Z.of_nat i).
Proof. exact @get_hash_index_locates. Qed.

Theorem C03_hash_index_sound :
  forall (Ev Act Ck H T D Name : Type) (H0 : H) (hashf : H -> cmd T Name -> list (T * Act * list Ev) -> H) (H_eqb : H -> H -> bool),
    (forall a b, H_eqb a b = true <-> a = b) ->
    forall ls : list (oplog Ev Act Ck H T D Name), chain_from Ev Act Ck H T D Name hashf H0 ls ->
    forall h z, h <> H0 -> src_get_hash_index Ev Act Ck H T D Name hashf H_eqb ls h = Some z ->
      (0 <= z)%Z /\ exists l, nth_error ls (Z.to_nat z) = Some l /\ lhash Ev Act Ck H T D Name hashf l = h.
Proof. exact @get_hash_index_sound. Qed.

Theorem C03_unknown_hash_is_refused :
  forall (Ev Act Ck H T D Name : Type) (H0 : H) (hashf : H -> cmd T Name -> list (T * Act * list Ev) -> H) (H_eqb : H -> H -> bool),
    (forall a b, H_eqb a b = true <-> a = b) ->
    forall ls : list (oplog Ev Act Ck H T D Name), chain_from Ev Act Ck H T D Name hashf H0 ls ->
    forall h, h <> H0 -> (forall l, In l ls -> lhash Ev Act Ck H T D Name hashf l <> h) ->
      src_get_hash_index Ev Act Ck H T D Name hashf H_eqb ls h = None.
Proof. exact @get_hash_index_unknown_hash_raises. Qed.

(* outside the statement ("" is no log's hash), recorded so that it is not mistaken for it: *)
Theorem C03_hash_index_of_the_empty_string_is_minus_one :
  forall (Ev Act Ck H T D Name : Type) (H0 : H) (hashf : H -> cmd T Name -> list (T * Act * list Ev) -> H) (H_eqb : H -> H -> bool),
    (forall a b, H_eqb a b = true <-> a = b) ->
    forall (ls : list (oplog Ev Act Ck H T D Name)) x, chain_from Ev Act Ck H T D Name hashf H0 (x :: ls) ->
      src_get_hash_index Ev Act Ck H T D Name hashf H_eqb (x :: ls) H0 = Some (-1)%Z.
Proof. exact @get_hash_index_of_the_empty_string. Qed.

(* the generated methods are the model's definitions *)
Theorem C03_src_last_playlog :
  forall (Ev Act Ck H T D Name : Type) (ls : list (oplog Ev Act Ck H T D Name)),
    src_last_playlog Ev Act Ck H T D Name ls = last_plog Ev Act Ck H T D Name ls.
Proof. exact @src_last_playlog_is_last_plog. Qed.

Theorem C03_src_last_events :
  forall (Ev Act Ck H T D Name : Type) (ls : list (oplog Ev Act Ck H T D Name)),
    src_last_events Ev Act Ck H T D Name ls = Some (last_events Ev Act Ck H T D Name ls).
Proof. exact @src_last_events_is_last_events. Qed.

Theorem C03_src_current_checkpoint :
  forall (Ev Act Ck H T D Name : Type) (ls : list (oplog Ev Act Ck H T D Name)),
    src_current_ckpt Ev Act Ck H T D Name ls = option_map (pck Ev Act Ck T) (last_plog Ev Act Ck H T D Name ls).
Proof. exact @src_current_ckpt_is_last_checkpoint. Qed.

Theorem C03_src_commit :
  forall (Ev Act Ck H T D Name : Type) (H0 : H) (hashf : H -> cmd T Name -> list (T * Act * list Ev) -> H)
         (ls : list (oplog Ev Act Ck H T D Name)) c pls d,
    src_commit Ev Act Ck H T D Name H0 hashf ls c pls d =
    Some (ls ++ [Build_oplog Ev Act Ck H T D Name c pls d (last_hash Ev Act Ck H T D Name H0 hashf ls)]).
Proof. exact @src_commit_appends. Qed.

Theorem C03_src_discard_after :
  forall (Ev Act Ck H T D Name : Type) (ls : list (oplog Ev Act Ck H T D Name)) (i : nat),
    src_discard_after Ev Act Ck H T D Name ls (Z.of_nat i) = Some (firstn (S i) ls).
Proof. exact @src_discard_after_is_firstn. Qed.

(* the hash chain (each log's previous hash is the hash of the log before it, the first one's is "") is kept by the GENERATED
   commit and discard_after, hence by every sequence of them *)
Theorem C03_src_commit_keeps_the_chain :
  forall (Ev Act Ck H T D Name : Type) (H0 : H) (hashf : H -> cmd T Name -> list (T * Act * list Ev) -> H)
         (ls ls' : list (oplog Ev Act Ck H T D Name)) c pls d,
    chain_from Ev Act Ck H T D Name hashf H0 ls ->
    src_commit Ev Act Ck H T D Name H0 hashf ls c pls d = Some ls' -> chain_from Ev Act Ck H T D Name hashf H0 ls'.
Proof. exact @src_commit_keeps_chain. Qed.

Theorem C03_src_discard_after_keeps_the_chain :
  forall (Ev Act Ck H T D Name : Type) (H0 : H) (hashf : H -> cmd T Name -> list (T * Act * list Ev) -> H)
         (ls ls' : list (oplog Ev Act Ck H T D Name)) (i : nat),
    chain_from Ev Act Ck H T D Name hashf H0 ls ->
    src_discard_after Ev Act Ck H T D Name ls (Z.of_nat i) = Some ls' -> chain_from Ev Act Ck H T D Name hashf H0 ls'.
Proof. exact @src_discard_after_keeps_chain. Qed.

Theorem C03_src_every_history_is_chained :
  forall (Ev Act Ck H T D Name : Type) (H0 : H) (hashf : H -> cmd T Name -> list (T * Act * list Ev) -> H)
         (os : list (hist_op Ev Act Ck T D Name)) (ls' : list (oplog Ev Act Ck H T D Name)),
    src_hist_steps Ev Act Ck H T D Name H0 hashf [] os = Some ls' -> chain_from Ev Act Ck H T D Name hashf H0 ls'.
Proof. intros Ev Act Ck H T D Name H0 hashf os ls'. apply src_hist_steps_keep_chain. exact I. Qed.

(* rollback lands on the tip: after the generated discard_after(i) log i is the last log, the history has i+1 logs, log i's
   hash is still located at i, and discarding after i again changes nothing *)
Theorem C03_src_rollback_lands_on_the_tip :
  forall (Ev Act Ck H T D Name : Type) (H0 : H) (hashf : H -> cmd T Name -> list (T * Act * list Ev) -> H) (H_eqb : H -> H -> bool),
    (forall a b, H_eqb a b = true <-> a = b) ->
    (forall p c x p' c' x', hashf p c x = hashf p' c' x' -> p = p') ->
    (forall p c x, hashf p c x <> H0) ->
    forall ls ls' : list (oplog Ev Act Ck H T D Name), chain_from Ev Act Ck H T D Name hashf H0 ls ->
    forall i l, nth_error ls i = Some l ->
      src_discard_after Ev Act Ck H T D Name ls (Z.of_nat i) = Some ls' ->
      py_last ls' = Some l /\ length ls' = S i /\
      src_get_hash_index Ev Act Ck H T D Name hashf H_eqb ls' (lhash Ev Act Ck H T D Name hashf l) = Some (Z.of_nat i) /\
      src_discard_after Ev Act Ck H T D Name ls' (Z.of_nat i) = Some ls'.
Proof. exact @src_discard_after_lands_on_tip. Qed.

Print Assumptions C03_hash_locates_its_log.
Print Assumptions C03_hash_index_sound.
Print Assumptions C03_unknown_hash_is_refused.
Print Assumptions C03_hash_index_of_the_empty_string_is_minus_one.
Print Assumptions C03_src_last_playlog.
Print Assumptions C03_src_last_events.
Print Assumptions C03_src_current_checkpoint.
Print Assumptions C03_src_commit.
Print Assumptions C03_src_discard_after.
Print Assumptions C03_src_commit_keeps_the_chain.
Print Assumptions C03_src_discard_after_keeps_the_chain.
Print Assumptions C03_src_every_history_is_chained.
Print Assumptions C03_src_rollback_lands_on_the_tip.
