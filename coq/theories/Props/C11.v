(* C11  Stat blocks form a commutative monoid and every field takes part.
   Statements only; proofs live in Proofs/StatLaws.v.  `Stat_seq` etc. are the generated
   field-wise equalities over Q (one conjunct per declared field), `*_fields` the generated
   lists of all numeric projections, `Stat_additive_fields` all of them except
   final_damage_multiplier and ignored_defence. *)
From Coq Require Import QArith List Permutation.
From G Require Import CoreQ.
From V.Proofs Require Import StatLaws.
Import ListNotations.
Open Scope Q_scope.

Theorem C11_stat_add_comm : forall a b, Stat_seq (Stat_add a b) (Stat_add b a).
Proof. exact Stat_add_comm. Qed.
Theorem C11_stat_add_assoc : forall a b c, Stat_seq (Stat_add (Stat_add a b) c) (Stat_add a (Stat_add b c)).
Proof. exact Stat_add_assoc. Qed.
Theorem C11_stat_add_0_r : forall a, Stat_seq (Stat_add a Stat_zero) a.
Proof. exact Stat_add_0_r. Qed.
Theorem C11_stat_add_0_l : forall a, Stat_seq (Stat_add Stat_zero a) a.
Proof. exact Stat_add_0_l. Qed.
Theorem C11_stat_iadd_eq_add : forall a b, Stat_seq (Stat_iadd a b) (Stat_add a b).
Proof. exact Stat_iadd_eq_add. Qed.
Theorem C11_stat_iadd_self_eq_add : forall a, Stat_seq (Stat_iadd_self a) (Stat_add a a).
Proof. exact Stat_iadd_self_eq_add. Qed.
Theorem C11_stat_iadd_fold : forall l a, Stat_seq (fold_left Stat_iadd l a) (fold_left Stat_add l a).
Proof. exact Stat_iadd_fold. Qed.
Theorem C11_stat_sum_eq_fold : forall l, Stat_seq (Stat_sum l) (fold_left Stat_add l Stat_zero).
Proof. exact Stat_sum_eq_fold. Qed.
Theorem C11_stat_sum_perm : forall l l', Permutation l l' -> Stat_seq (Stat_sum l) (Stat_sum l').
Proof. exact Stat_sum_perm. Qed.
Theorem C11_stat_sum_app : forall l1 l2, Stat_seq (Stat_sum (l1 ++ l2)) (Stat_add (Stat_sum l1) (Stat_sum l2)).
Proof. exact Stat_sum_app. Qed.
Theorem C11_stat_fd_multiplicative : forall a b,
  1 + (1#100) * Stat_final_damage_multiplier (Stat_add a b)
  == (1 + (1#100) * Stat_final_damage_multiplier a) * (1 + (1#100) * Stat_final_damage_multiplier b).
Proof. exact Stat_fd_multiplicative. Qed.
Theorem C11_stat_ied_multiplicative : forall a b,
  1 - (1#100) * Stat_ignored_defence (Stat_add a b)
  == (1 - (1#100) * Stat_ignored_defence a) * (1 - (1#100) * Stat_ignored_defence b).
Proof. exact Stat_ied_multiplicative. Qed.
Theorem C11_stat_other_fields_additive : forall a b,
  Forall (fun f => f (Stat_add a b) == f a + f b) Stat_additive_fields.
Proof. exact Stat_add_additive. Qed.
Theorem C11_stat_stack_scales : forall a n, Forall (fun f => f (Stat_stack a n) == f a * n) Stat_fields.
Proof. exact Stat_stack_scales. Qed.

Theorem C11_action_add_comm : forall a b, ActionStat_seq (ActionStat_add a b) (ActionStat_add b a).
Proof. exact ActionStat_add_comm. Qed.
Theorem C11_action_add_assoc : forall a b c,
  ActionStat_seq (ActionStat_add (ActionStat_add a b) c) (ActionStat_add a (ActionStat_add b c)).
Proof. exact ActionStat_add_assoc. Qed.
Theorem C11_action_add_0_r : forall a, ActionStat_seq (ActionStat_add a ActionStat_zero) a.
Proof. exact ActionStat_add_0_r. Qed.
Theorem C11_action_add_0_l : forall a, ActionStat_seq (ActionStat_add ActionStat_zero a) a.
Proof. exact ActionStat_add_0_l. Qed.
Theorem C11_action_iadd_eq_add : forall a b, ActionStat_seq (ActionStat_iadd a b) (ActionStat_add a b).
Proof. exact ActionStat_iadd_eq_add. Qed.
Theorem C11_action_iadd_self_eq_add : forall a, ActionStat_seq (ActionStat_iadd_self a) (ActionStat_add a a).
Proof. exact ActionStat_iadd_self_eq_add. Qed.
Theorem C11_action_additive : forall a b,
  Forall (fun f => f (ActionStat_add a b) == f a + f b) ActionStat_fields.
Proof. exact ActionStat_add_additive. Qed.

Theorem C11_level_add_comm : forall a b, LevelStat_seq (LevelStat_add a b) (LevelStat_add b a).
Proof. exact LevelStat_add_comm. Qed.
Theorem C11_level_add_assoc : forall a b c,
  LevelStat_seq (LevelStat_add (LevelStat_add a b) c) (LevelStat_add a (LevelStat_add b c)).
Proof. exact LevelStat_add_assoc. Qed.
Theorem C11_level_add_0_r : forall a, LevelStat_seq (LevelStat_add a LevelStat_zero) a.
Proof. exact LevelStat_add_0_r. Qed.
Theorem C11_level_add_0_l : forall a, LevelStat_seq (LevelStat_add LevelStat_zero a) a.
Proof. exact LevelStat_add_0_l. Qed.
Theorem C11_level_additive : forall a b,
  Forall (fun f => f (LevelStat_add a b) == f a + f b) LevelStat_fields.
Proof. exact LevelStat_add_additive. Qed.

Theorem C11_extended_add_comm : forall a b, ExtendedStat_seq (ExtendedStat_add a b) (ExtendedStat_add b a).
Proof. exact ExtendedStat_add_comm. Qed.
Theorem C11_extended_add_assoc : forall a b c,
  ExtendedStat_seq (ExtendedStat_add (ExtendedStat_add a b) c) (ExtendedStat_add a (ExtendedStat_add b c)).
Proof. exact ExtendedStat_add_assoc. Qed.
Theorem C11_extended_add_0_r : forall a, ExtendedStat_seq (ExtendedStat_add a ExtendedStat_zero) a.
Proof. exact ExtendedStat_add_0_r. Qed.
Theorem C11_extended_add_0_l : forall a, ExtendedStat_seq (ExtendedStat_add ExtendedStat_zero a) a.
Proof. exact ExtendedStat_add_0_l. Qed.

(* non-vacuity / sanity: a populated block *)
Example C11_example :
  let a := Stat_add (Stat_stack (Stat_all_stat 3) 2) (Stat_all_stat_multiplier 7) in
  Stat_STR a == 6 /\ Stat_LUK_multiplier a == 7.
Proof. cbn. split; reflexivity. Qed.

Print Assumptions C11_stat_add_comm.
Print Assumptions C11_stat_add_assoc.
Print Assumptions C11_stat_add_0_r.
Print Assumptions C11_stat_add_0_l.
Print Assumptions C11_stat_iadd_eq_add.
Print Assumptions C11_stat_iadd_self_eq_add.
Print Assumptions C11_stat_iadd_fold.
Print Assumptions C11_stat_sum_eq_fold.
Print Assumptions C11_stat_sum_perm.
Print Assumptions C11_stat_sum_app.
Print Assumptions C11_stat_fd_multiplicative.
Print Assumptions C11_stat_ied_multiplicative.
Print Assumptions C11_stat_other_fields_additive.
Print Assumptions C11_stat_stack_scales.
Print Assumptions C11_action_add_comm.
Print Assumptions C11_action_add_assoc.
Print Assumptions C11_action_add_0_r.
Print Assumptions C11_action_add_0_l.
Print Assumptions C11_action_iadd_eq_add.
Print Assumptions C11_action_iadd_self_eq_add.
Print Assumptions C11_action_additive.
Print Assumptions C11_level_add_comm.
Print Assumptions C11_level_add_assoc.
Print Assumptions C11_level_add_0_r.
Print Assumptions C11_level_add_0_l.
Print Assumptions C11_level_additive.
Print Assumptions C11_extended_add_comm.
Print Assumptions C11_extended_add_assoc.
Print Assumptions C11_extended_add_0_r.
Print Assumptions C11_extended_add_0_l.
