(* C17  Star force is incremental, monotone and capped; blueprints add up.

   Everything named g_* / t_* / gt_* is GENERATED on every run by tools/tr_starforce.py from the
   current simaple source (gen/SfGen.v): the seven increment tables and their level-band bounds,
   the two bonus rows, the star_data cap table, the GearType predicates, max_star (with its
   break-scan and its comparisons), get_starforce_increment (reversed band scan), the five
   increment providers, get_single_starforce_improvement, calculate_improvement (the fold),
   apply_star_cutoff, GeneralizedGearBlueprint.build (composition order over abstract stat
   blocks) and PracticalGearBlueprint's translation.  Exceptions are `None`.

   Quantification: EVERY meta (m_type any integer = any gear kind, any job bits incl. negative,
   superior or not, any scroll chance) with req_level >= 0, EVERY reference stat whose eight
   star-force fields are non-negative rationals (snonneg = all eight fields >= 0; sle = fieldwise
   <=; both defined in Proofs/SfProofs.v), every star as stated.  The shipped database is a
   subset of these metas (the harness checks that every shipped gear has req_level >= 0 and a
   non-negative integer base stat).

   * C17_increment_defined_nonneg   per-star increment within the cap: defined, every field >= 0
   * C17_bonus_is_fold_of_increments bonus(n+1) = bonus(n) + increment computed on (bonus(n) + ref),
                                    bonus(0) = empty: the cumulative bonus IS the fold of the
                                    per-star increments on the gear as enhanced so far
   * C17_bonus_defined_nonneg       bonus defined and non-negative for every star <= cap
   * C17_bonus_monotone             non-decreasing fieldwise as stars grow (within the cap)
   * C17_star_beyond_cap_refused    increment and bonus are refused (None) for star > cap
   * C17_cap_bounds                 0 <= cap <= 25 (15 for superior gear)
   * C17_cutoff_is_min / _accepted  apply_star_cutoff = min(star, cap); the cut star is always accepted
   * C17_build_decomposes           build = base + traces + scrolls + starforce(on base+traces+scrolls)
                                    + bonuses + exceptional, each once, in every commutative monoid of
                                    stat blocks (up to its equivalence); _any_order: in any order;
                                    _Stat: instance for the generated 27-field Stat algebra of C11
   * C17_build_refused_iff          build fails exactly when star force refuses
   * C17_practical_translation      practical blueprint = max_scroll_chance copies of the trace (else of the
                                    scroll) and stars cut to min(star, cap)
   * C17_practical_build_defined    hence a practical blueprint builds for ANY requested star count, with
                                    star force = bonus of min(star, cap) stars on the scrolled stat
   * C17_generalized_beyond_cap_refused  a generalized blueprint with star > cap does not build

   NOT provable in a functional model, covered by the harness only (deep dumps before/after):
   "building never alters the blueprint or the base gear" is a statement about Python object
   mutation.  Stat fields other than the eight modelled ones are 0 in every increment: enforced by
   the translator (unknown keyword = error) and by the full-dump comparison in the harness. *)
From Coq Require Import ZArith QArith List Bool Setoid Morphisms Permutation.
From V.Model Require Import SfBase SfBlueprint.
From V.Proofs Require Import SfProofs SfBlueprintProofs.
From G Require Import SfGen CoreQ.

Theorem C17_increment_defined_nonneg : forall (m : Meta) (ref : SStat) (star : Z) (cur : SStat),
  (0 <= m_req_level m)%Z -> snonneg ref -> snonneg cur -> (1 <= star <= g_max_star m)%Z ->
  exists inc : SStat, g_single m ref star cur = Some inc /\ snonneg inc.
Proof. exact single_defined_nonneg. Qed.

Theorem C17_bonus_is_fold_of_increments : forall (m : Meta) (ref : SStat),
  (forall star : Z, (star <= 0)%Z -> g_calc m ref star = Some szero) /\
  (forall n : Z, (0 <= n)%Z ->
     g_calc m ref (n + 1) =
     match g_calc m ref n with
     | Some cur => match g_single m ref (n + 1) cur with
                   | Some inc => Some (sadd cur inc)
                   | None => None
                   end
     | None => None
     end).
Proof. intros m ref. split; [exact (calc_zero m ref)|exact (calc_step m ref)]. Qed.

Theorem C17_bonus_defined_nonneg : forall (m : Meta) (ref : SStat) (star : Z),
  (0 <= m_req_level m)%Z -> snonneg ref -> (star <= g_max_star m)%Z ->
  exists v : SStat, g_calc m ref star = Some v /\ snonneg v.
Proof. exact calc_defined_nonneg. Qed.

Theorem C17_bonus_monotone : forall (m : Meta) (ref : SStat) (n k : Z) (a b : SStat),
  (0 <= m_req_level m)%Z -> snonneg ref -> (0 <= n)%Z -> (0 <= k)%Z -> (n + k <= g_max_star m)%Z ->
  g_calc m ref n = Some a -> g_calc m ref (n + k) = Some b -> sle a b.
Proof. exact calc_monotone. Qed.

Theorem C17_star_beyond_cap_refused : forall (m : Meta) (ref : SStat) (star : Z), (g_max_star m < star)%Z ->
  g_calc m ref star = None /\ forall cur : SStat, g_single m ref star cur = None.
Proof. intros m ref star H. split; [exact (calc_refused m ref star H)|intros cur; exact (single_refused m ref star cur H)]. Qed.

Theorem C17_cap_bounds : forall m : Meta, (0 <= g_max_star m <= (if m_superior m then 15 else 25))%Z.
Proof. exact max_star_bound. Qed.

Theorem C17_cutoff_is_min : forall (m : Meta) (star : Z), g_cutoff m star = Z.min star (g_max_star m).
Proof. exact cutoff_is_min. Qed.

Theorem C17_cutoff_accepted : forall (m : Meta) (ref : SStat) (star : Z),
  (0 <= m_req_level m)%Z -> snonneg ref -> exists v : SStat, g_calc m ref (g_cutoff m star) = Some v /\ snonneg v.
Proof. exact cutoff_always_accepted. Qed.

Theorem C17_build_decomposes : forall (S : Type) (eqv : S -> S -> Prop) (add : S -> S -> S) (zero : S),
  Equivalence eqv -> Proper (eqv ==> eqv ==> eqv) add ->
  (forall a b c : S, eqv (add (add a b) c) (add a (add b c))) ->
  (forall a b : S, eqv (add a b) (add b a)) ->
  (forall a : S, eqv (add zero a) a) ->
  forall (sf : S -> option S) (base : S) (traces scrolls bonuses : list S) (exc : option S),
  opt_rel eqv (g_build add zero sf base traces scrolls bonuses exc)
              (spec_build add zero sf base traces scrolls bonuses exc).
Proof. exact @build_decomposes. Qed.

Theorem C17_build_any_order : forall (S : Type) (eqv : S -> S -> Prop) (add : S -> S -> S) (zero : S),
  Equivalence eqv -> Proper (eqv ==> eqv ==> eqv) add ->
  (forall a b c : S, eqv (add (add a b) c) (add a (add b c))) ->
  (forall a b : S, eqv (add a b) (add b a)) ->
  (forall a : S, eqv (add zero a) a) ->
  forall (sf : S -> option S) (base : S) (traces scrolls bonuses : list S) (exc : option S) (s : S) (parts : list S),
  sf (scrolled add zero base traces scrolls) = Some s ->
  Permutation parts (base :: traces ++ scrolls ++ s :: bonuses ++ opt_list exc) ->
  exists g : S, g_build add zero sf base traces scrolls bonuses exc = Some g /\ eqv g (msum add zero parts).
Proof. exact @build_any_order. Qed.

Theorem C17_build_decomposes_Stat : forall (sf : Stat -> option Stat) (base : Stat) (traces scrolls bonuses : list Stat)
    (exc : option Stat),
  opt_rel Stat_seq (g_build Stat_add Stat_zero sf base traces scrolls bonuses exc)
                   (spec_build Stat_add Stat_zero sf base traces scrolls bonuses exc).
Proof. exact build_decomposes_Stat. Qed.

Theorem C17_build_refused_iff : forall (S : Type) (add : S -> S -> S) (zero : S) (sf : S -> option S) (base : S)
    (traces scrolls bonuses : list S) (exc : option S),
  g_build add zero sf base traces scrolls bonuses exc = None <-> sf (scrolled add zero base traces scrolls) = None.
Proof. exact @build_refused_iff. Qed.

Theorem C17_practical_translation : forall (S : Type) (m : Meta) (trace scroll : option S) (star : Z),
  g_practical m trace scroll star =
  (match trace with Some t => repeat t (Z.to_nat (m_tuc m)) | None => nil end,
   match trace with
   | Some _ => nil
   | None => match scroll with Some s => repeat s (Z.to_nat (m_tuc m)) | None => nil end
   end,
   Z.min star (g_max_star m)).
Proof. exact @practical_translation. Qed.

Theorem C17_practical_build_defined : forall (m : Meta) (trace scroll : option SStat) (star : Z) (base : SStat)
    (bonuses : list SStat),
  (0 <= m_req_level m)%Z ->
  let '(tr, sc, st) := g_practical m trace scroll star in
  snonneg (scrolled sadd szero base tr sc) ->
  exists sfv g : SStat,
    g_calc m (scrolled sadd szero base tr sc) (Z.min star (g_max_star m)) = Some sfv /\ snonneg sfv /\
    g_build sadd szero (fun ref : SStat => g_calc m ref st) base tr sc bonuses None = Some g /\
    g = sadd (sadd (scrolled sadd szero base tr sc) sfv) (msum sadd szero bonuses).
Proof. exact practical_build_defined. Qed.

Theorem C17_generalized_beyond_cap_refused : forall (m : Meta) (star : Z) (base : SStat)
    (traces scrolls bonuses : list SStat) (exc : option SStat),
  (g_max_star m < star)%Z ->
  g_build sadd szero (fun ref : SStat => g_calc m ref star) base traces scrolls bonuses exc = None.
Proof. exact generalized_build_refused_beyond_cap. Qed.

Print Assumptions C17_increment_defined_nonneg.
Print Assumptions C17_bonus_is_fold_of_increments.
Print Assumptions C17_bonus_defined_nonneg.
Print Assumptions C17_bonus_monotone.
Print Assumptions C17_star_beyond_cap_refused.
Print Assumptions C17_cap_bounds.
Print Assumptions C17_cutoff_is_min.
Print Assumptions C17_cutoff_accepted.
Print Assumptions C17_build_decomposes.
Print Assumptions C17_build_any_order.
Print Assumptions C17_build_decomposes_Stat.
Print Assumptions C17_build_refused_iff.
Print Assumptions C17_practical_translation.
Print Assumptions C17_practical_build_defined.
Print Assumptions C17_generalized_beyond_cap_refused.
