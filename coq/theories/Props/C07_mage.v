(* C07 (extension mage)  A rejected action is reported alone and changes nothing, for the job-specific classes of component/specific/{magician,bishop,archmagefb,archmagetc}.py.  Model: Model/SpecMage.v (16 classes: DotPunisherComponent, Infinity, DivineAttackSkillComponent, DivineMinion, HexaAngelRayComponent, IfrittComponent, PoisonNovaComponent, PoisonChainComponent, InfernalVenom, FlameSwipVI, FerventDrain, FrostEffect, ThunderAttackSkillComponent, JupyterThunder, ThunderBreak, ChainLightningVIComponent), tied to the code by the correspondence of tools/lib/ext_mage.py.  xreduce_spec c m p t s = the reducer m of class c with parameters p and payload t on the state s, where s holds the class's own entities AND the entities it reaches through binds (divine mark, frost stack, Jupiter-Thunder schedule, drain stack).  C07_mage_reject_alone: every modelled reducer (FlameSwipVI.use included, after the repair 385777f of a defect this check found): if the returned events contain a rejection they are exactly [reject] and the returned state IS the input state (bound entities included).  C07_mage_only_use_rejects: elapse and the listening reducers (trigger, stack, explode, increase_step, increase_three, reset_cooldown) never reject.  C07_mage_not_ready_is_noop: use on a skill that is cooling down returns the unchanged state and one rejection.  C07_mage_flameswip_reject_repaired: the witness of the former known finding C07-flameswip-use-after-reject (a cooling FlameSwipVI answered use with [reject; add_dot] and a larger stack) now returns the rejection alone and the input state.  C07_mage_nonvacuous: rejections do occur. *)
From Coq Require Import ZArith List Bool. From V.Model Require Import Comp SpecMage. From V.Proofs Require Import SpecMageReject.

Theorem C07_mage_reject_alone :
  forall (c : xcomp) (m : xmeth) (p : xpar) (t : Z) (s s' : xst) (es : list xev),
        xreduce_spec c m p t s = Some (s', es) ->
        xrejected es = true -> es = XE EReject :: nil /\ s' = s.
Proof. exact @xreject_alone_spec. Qed.

Theorem C07_mage_only_use_rejects :
  forall (c : xcomp) (m : xmeth) (p : xpar) (t : Z) (s s' : xst) (es : list xev),
        m <> XUse -> xreduce_spec c m p t s = Some (s', es) -> xrejected es = false.
Proof. exact @xonly_use_rejects_spec. Qed.

Theorem C07_mage_not_ready_is_noop :
  forall (c : xcomp) (p : xpar) (t : Z) (s : xst),
        has_use c = true ->
        0 < u_cd (x_u s) -> xreduce_spec c XUse p t s = Some (s, XE EReject :: nil).
Proof. exact @xnot_ready_noop. Qed.

Theorem C07_mage_flameswip_reject_repaired :
  xreduce_spec FlameSwipVI XUse xp0 0 x0_cooling = Some (x0_cooling, XE EReject :: nil).
Proof. exact @flameswip_reject_repaired. Qed.

Theorem C07_mage_nonvacuous :
  xreduce_spec ThunderAttack XUse xp0 0 x0_cooling = Some (x0_cooling, XE EReject :: nil) /\
        xreduce_spec HexaAngelRay XUse xp0 0 x0_cooling = Some (x0_cooling, XE EReject :: nil) /\
        xreduce_spec ChainLightningVI XUse xp0 0 x0_cooling = Some (x0_cooling, XE EReject :: nil).
Proof. exact @xreject_happens. Qed.

Print Assumptions C07_mage_reject_alone.
Print Assumptions C07_mage_only_use_rejects.
Print Assumptions C07_mage_not_ready_is_noop.
Print Assumptions C07_mage_flameswip_reject_repaired.
Print Assumptions C07_mage_nonvacuous.
