(* C06  The clock equals the time asked for; commands advance it as documented.  router = every component dispatcher (which never writes the clock: hypothesis Hframe, monitored on the implementation) followed by the timer.  C06_play: one play advances the clock by exactly the payload of a direct *.elapse action and by nothing else (relayed callbacks add nothing).  C06_command: ELAPSE t advances by t, CAST by the first positive delay its use-play announces (else 0), RESOLVE by the pending delay of the named skill among the buffered events, USE and KEYDOWNSTOP by 0; the play logs' elapse payloads add up to the advance.  C06_monotone: the clock never decreases under non-negative ELAPSE.  Time in integer ticks.  Proofs: Model/Play.v, Proofs/EngineClock.v. *)
From V.Model Require Import Engine Play. From V.Proofs Require Import EngineClock.
From V.Model Require Comp EPeriodic. From V.Proofs Require CompChunk CompChunkHL.

Theorem C06_play :
  forall (S Pay Name Meth Tag : Type) (clock : S -> BinNums.Z)
          (set_clock : S -> BinNums.Z -> S),
        (forall (s : S) (t : BinNums.Z), clock (set_clock s t) = t) ->
        forall comp : action Pay Name Meth Tag -> S -> S * list (event Pay Name Meth Tag),
        (forall (a : action Pay Name Meth Tag) (s : S), clock (fst (comp a s)) = clock s) ->
        forall (is_star : Name -> bool) (is_elapse : Meth -> bool) (st : store S Pay Name Meth Tag)
          (a : action Pay Name Meth Tag) (E0 : list (event Pay Name Meth Tag)),
        cbs S Pay Name Meth Tag st = List.map (callbacks Pay Name Meth Tag) E0 ->
        clock
          (ent S Pay Name Meth Tag
             (fst
                (fst
                   (play S Pay Name Meth Tag
                      (router S Pay Name Meth Tag clock set_clock comp is_star is_elapse) st a)))) =
        BinInt.Z.add (clock (ent S Pay Name Meth Tag st))
          (elapse_time Pay Name Meth Tag is_star is_elapse a).
Proof. exact @C06_play_clock. Qed.

Theorem C06_command :
  forall (S Pay Name Meth Tag Ck : Type) (clock : S -> BinNums.Z)
          (set_clock : S -> BinNums.Z -> S),
        (forall (s : S) (t : BinNums.Z), clock (set_clock s t) = t) ->
        forall comp : action Pay Name Meth Tag -> S -> S * list (event Pay Name Meth Tag),
        (forall (a : action Pay Name Meth Tag) (s : S), clock (fst (comp a s)) = clock s) ->
        forall (is_star : Name -> bool) (is_elapse : Meth -> bool) (star : Name),
        is_star star = true ->
        forall m_use m_elapse m_stop : Meth,
        is_elapse m_elapse = true ->
        forall (name_eqb : Name -> Name -> bool) (is_delay : Tag -> bool)
          (time_of : Pay -> BinNums.Z) (save : store S Pay Name Meth Tag -> Ck)
          (o : op BinNums.Z Name) (st : store S Pay Name Meth Tag)
          (b : list (event Pay Name Meth Tag)),
        cb_wf S Pay Name Meth Tag st ->
        let
        '(st', pls, _) :=
         exec_op (store S Pay Name Meth Tag) (event Pay Name Meth Tag) (action Pay Name Meth Tag) Ck
           BinNums.Z Name (eplay S Pay Name Meth Tag clock set_clock comp is_star is_elapse) save
           (sclock S Pay Name Meth Tag clock) (mk_act Pay Name Meth Tag m_use m_elapse m_stop) star
           (ev_name Pay Name Meth Tag) (ev_delay Pay Name Meth Tag is_delay time_of) name_eqb
           BinNums.Z0 (fun t : BinNums.Z => BinInt.Z.ltb BinNums.Z0 t)
           (fun t : BinNums.Z => BinInt.Z.eqb t BinNums.Z0) o st b in
         cb_wf S Pay Name Meth Tag st' /\
         sclock S Pay Name Meth Tag clock st' =
         BinInt.Z.add (sclock S Pay Name Meth Tag clock st)
           (advance (event Pay Name Meth Tag) BinNums.Z Name (ev_name Pay Name Meth Tag)
              (ev_delay Pay Name Meth Tag is_delay time_of) name_eqb BinNums.Z0
              (fun t : BinNums.Z => BinInt.Z.ltb BinNums.Z0 t) o b
              (snd
                 (eplay S Pay Name Meth Tag clock set_clock comp is_star is_elapse st
                    (first_action (event Pay Name Meth Tag) (action Pay Name Meth Tag) BinNums.Z
                       Name (mk_act Pay Name Meth Tag m_use m_elapse m_stop) star
                       (ev_name Pay Name Meth Tag) (ev_delay Pay Name Meth Tag is_delay time_of)
                       name_eqb BinNums.Z0 (fun t : BinNums.Z => BinInt.Z.ltb BinNums.Z0 t) o b)))) /\
         sclock S Pay Name Meth Tag clock st' =
         BinInt.Z.add (sclock S Pay Name Meth Tag clock st)
           (List.fold_right
              (fun (p0 : playlog (event Pay Name Meth Tag) (action Pay Name Meth Tag) Ck BinNums.Z)
                 (acc : BinNums.Z) =>
               BinInt.Z.add
                 (elapse_time Pay Name Meth Tag is_star is_elapse
                    (pact (event Pay Name Meth Tag) (action Pay Name Meth Tag) Ck BinNums.Z p0)) acc)
              BinNums.Z0 pls) /\
         List.Forall
           (fun p0 : playlog (event Pay Name Meth Tag) (action Pay Name Meth Tag) Ck BinNums.Z =>
            BinInt.Z.le (sclock S Pay Name Meth Tag clock st)
              (pclock (event Pay Name Meth Tag) (action Pay Name Meth Tag) Ck BinNums.Z p0) \/
            (exists q : playlog (event Pay Name Meth Tag) (action Pay Name Meth Tag) Ck BinNums.Z,
               List.In q pls /\
               BinInt.Z.lt
                 (elapse_time Pay Name Meth Tag is_star is_elapse
                    (pact (event Pay Name Meth Tag) (action Pay Name Meth Tag) Ck BinNums.Z q))
                 BinNums.Z0)) pls.
Proof. exact @C06_exec_op. Qed.

Theorem C06_monotone :
  forall (S Pay Name Meth Tag Ck : Type) (clock : S -> BinNums.Z)
          (set_clock : S -> BinNums.Z -> S),
        (forall (s : S) (t : BinNums.Z), clock (set_clock s t) = t) ->
        forall comp : action Pay Name Meth Tag -> S -> S * list (event Pay Name Meth Tag),
        (forall (a : action Pay Name Meth Tag) (s : S), clock (fst (comp a s)) = clock s) ->
        forall (is_star : Name -> bool) (is_elapse : Meth -> bool) (star : Name),
        is_star star = true ->
        forall m_use m_elapse m_stop : Meth,
        is_elapse m_elapse = true ->
        forall (name_eqb : Name -> Name -> bool) (is_delay : Tag -> bool)
          (time_of : Pay -> BinNums.Z) (save : store S Pay Name Meth Tag -> Ck)
          (o : op BinNums.Z Name) (st : store S Pay Name Meth Tag)
          (b : list (event Pay Name Meth Tag)),
        cb_wf S Pay Name Meth Tag st ->
        (forall t : BinNums.Z, o = ELAPSE BinNums.Z Name t -> BinInt.Z.le BinNums.Z0 t) ->
        BinInt.Z.le (sclock S Pay Name Meth Tag clock st)
          (sclock S Pay Name Meth Tag clock
             (fst
                (fst
                   (exec_op (store S Pay Name Meth Tag) (event Pay Name Meth Tag)
                      (action Pay Name Meth Tag) Ck BinNums.Z Name
                      (eplay S Pay Name Meth Tag clock set_clock comp is_star is_elapse) save
                      (sclock S Pay Name Meth Tag clock)
                      (mk_act Pay Name Meth Tag m_use m_elapse m_stop) star
                      (ev_name Pay Name Meth Tag) (ev_delay Pay Name Meth Tag is_delay time_of)
                      name_eqb BinNums.Z0 (fun t : BinNums.Z => BinInt.Z.ltb BinNums.Z0 t)
                      (fun t : BinNums.Z => BinInt.Z.eqb t BinNums.Z0) o st b)))).
Proof. exact @C06_monotone. Qed.

(* "every 'elapsed' notification carries exactly the time of the elapse that caused it": for the
   stateful classes of component/common (Model/Comp.v; proofs with C09) *)
Theorem C06_elapsed_carries_time :
  forall (c : Comp.comp) (p : Comp.par) (t : BinNums.Z) (s s' : Comp.ust) (es : list Comp.ev),
    CompChunk.chunk_proved c = true ->
    Comp.reduce_spec c Comp.MElapse p t s = Some (s', es) -> CompChunk.elapsed_times es = (t :: nil)%list.
Proof. exact @CompChunk.elapsed_carries_time. Qed.

Theorem C06_elapsed_carries_time_hit_limited :
  forall (p : Comp.par) (t : BinNums.Z) (s : Comp.ust),
    EPeriodic.wf (Comp.u_p1 s) -> BinInt.Z.le BinNums.Z0 t ->
    CompChunk.elapsed_times (snd (Comp.hl_spec p t s)) = (t :: nil)%list.
Proof. exact @CompChunkHL.hl_elapsed_carries_time. Qed.

Print Assumptions C06_play.
Print Assumptions C06_command.
Print Assumptions C06_monotone.
Print Assumptions C06_elapsed_carries_time.
Print Assumptions C06_elapsed_carries_time_hit_limited.
