(* C01 at the store level for ConcreteStore.save / load as GENERATED from simaple/simulate/base.py (tools/tr_store.py). *)
From Coq Require Import List String.
Import ListNotations.
From V Require Import Model.Dispatch Proofs.StoreRoundtrip Proofs.StoreTie.
From G Require Import StoreSrc.

Theorem C01_src_save_is_model_save :
  forall (Ent D : Type) (dump : Ent -> D) (s : store Ent), src_save Ent D dump s = save_store Ent D dump s.
Proof. exact @src_save_is_save_store. Qed.

Theorem C01_src_load_is_model_restore :
  forall (Ent D : Type) (parse : D -> Ent) (c : list (string * D)), src_load Ent D parse c = restore_store Ent D parse c.
Proof. exact @src_load_is_restore_store. Qed.

Theorem C01_src_store_roundtrip :
  forall (Ent D : Type) (dump : Ent -> D) (parse : D -> Ent) (s : store Ent),
    (forall e, parse (dump e) = e) -> src_load Ent D parse (src_save Ent D dump s) = s.
Proof. exact @src_load_save. Qed.

Theorem C01_src_store_roundtrip_only_if :
  forall (Ent D : Type) (dump : Ent -> D) (parse : D -> Ent),
    (forall s : store Ent, src_load Ent D parse (src_save Ent D dump s) = s) -> forall e, parse (dump e) = e.
Proof. exact @src_load_save_only_if. Qed.

Theorem C01_src_checkpoint_survives_roundtrips :
  forall (Ent D : Type) (dump : Ent -> D) (parse : D -> Ent) (s : store Ent) (n : nat),
    (forall e, parse (dump e) = e) ->
    Nat.iter n (fun c => src_save Ent D dump (src_load Ent D parse c)) (src_save Ent D dump s) = src_save Ent D dump s.
Proof. exact @src_roundtrips_fix_checkpoint. Qed.

Print Assumptions C01_src_save_is_model_save.
Print Assumptions C01_src_load_is_model_restore.
Print Assumptions C01_src_store_roundtrip.
Print Assumptions C01_src_store_roundtrip_only_if.
Print Assumptions C01_src_checkpoint_survives_roundtrips.
