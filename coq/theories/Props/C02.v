(* C02  Same plan, same environment, same result -- always and everywhere.

   The property is dominated by runtime behaviour (threads, process-wide singletons, the interpreter's
   hash seed).  What is LOGIC is modelled and proved here; the rest is explored by the isolation
   harness H-iso (tools/lib/h_iso.py) and is labelled PARTIAL below.

   (1) The route cache (Model/Router.v, proofs in Proofs/RouterCache.v).  Model of
       simaple/simulate/base.py RouterDispatcher: a growing list of dispatchers (primitive = any partial
       function of action and store with an `includes` predicate; ContextDispatcher = re-entrant call of
       the router with a fixed action; TandemDispatcher = base + followers, the followers skipped when
       the base answer contains a rejection -- `is_reject`, a parameter: every theorem holds for every choice),
       `_route_cache` filled on
       the first dispatch of a signature AFTER the scan loop (so a raising dispatch leaves it
       unwritten), `install` = append WITHOUT touching the cache (as the code does), fuel = nesting
       depth of re-entrant dispatch (out of fuel = RecursionError).  For EVERY dispatcher list, EVERY
       sequence of (action, store) dispatches, every fuel, under the single hypothesis that equal
       cache keys are equal signatures (`sig_eqb a b = true -> a = b`):
         C02_route_cache               installs first, then any dispatches: the caching router answers
                                       (store and events, or the failure) exactly like the router that
                                       filters on every call;
         C02_route_cache_built_router  the same, as the list of cache-free answers;
         C02_route_cache_any_client    the same for any interactive client (engine, play, a
                                       ContextDispatcher ...) whose next question may depend on the answers, after
                                       ANY other client ran before on the same router;
         C02_route_cache_history_free  two routers built alike answer alike to whatever comes next,
                                       whatever each was asked before (the cache content never changes
                                       a result);
         C02_route_cache_stays_coherent  one dispatch from a coherent cache leaves it coherent (also
                                       when it raised, at every nesting depth) and gives the cache-free answer.
       Install AFTER a dispatch is outside these theorems, and for a reason:
         C02_late_install_is_stale     (computed) the code keeps the old entry, so a dispatcher installed
                                       late is skipped for signatures dispatched before: caching and
                                       cache-free router differ;
         C02_rejected_base_skips_followers (computed) a Tandem whose base answer is a rejection does not run its
                                       followers (repair of the C07 audit finding on addons);
         C02_late_install_prefix       what the code does guarantee then: every entry is the filter over
                                       SOME prefix of the installed list.
       No path of simaple installs after dispatch: get_builder adds every component and the timer, then
       builds the engine (EngineBuilder keeps the router it handed out, so a caller could).
   (2) C02_deterministic_engine = C01_state_in_log (Model/Engine.v): given a play function, the engine
       is a function of its logs -- nothing outside the recorded logs influences what it produces.
       With (1), the play function of an engine with the caching router is the one of the cache-free
       router, a function of (store, action) whenever the components are (C08).
   (3) Generated obligations (tools/tr_isolation.py -> gen/Isolation.v, decided by vm_compute against
       the reviewed lists of Model/IsolationSpec.v, Proofs/IsolationP.v):
         C02_no_entropy_imports          no module of the simulation path (simaple.simulate, simaple.spec, simaple.data.jobs
                                         and the other anchored files) imports or uses random / time / datetime /
                                         uuid / secrets / os.urandom / threads / hash() / id() ...;
         C02_process_wide_state_reviewed the module-level and class-level mutable bindings, `global`
                                         statements, memo decorators, mutable default arguments and import-time
                                         statements found in the source are EXACTLY the reviewed list -- a new process-wide
                                         cache or singleton breaks this obligation;
         C02_spec_repository_hands_out_copies  DirectorySpecRepository.get / get_all return None, copies or a
                                         list of copies made in the call, Spec.interpret binds `data` to a copy of
                                         self.data or to patch.apply of it and returns only that; none of them (nor the
                                         helpers they reach through self) writes through an attribute or subscript.
         C02_directory_order_not_observed  no module of the simulation path enumerates a directory (rglob / glob / iterdir /
                                         listdir / scandir / walk) without sorting the result at once: the order in which a file
                                         system lists a directory cannot reach component order, event order or log hashes (the one
                                         place that did -- the specification repository -- was repaired, dc5ff5b).
   PARTIAL, explored by H-iso and not proved: thread interleavings of CPython over the process-wide objects; hash-seed
   dependence of set/dict iteration; Lark / PyYAML / pydantic internals; the copies of (3) are shallow
   (model_copy, dict.copy), so that interpreting never alters the stored spec also rests on every
   Patch.apply / modify rebuilding or deep-copying -- carried by digests of the repository before and after
   every batch (the effect checker of C08 was not available), not by a theorem. *)
From Coq Require Import List String.
From V.Model Require Import Router Engine IsolationSpec.
From V.Proofs Require Import RouterCache IsolationP.
From G Require Import Isolation.

Theorem C02_route_cache :
  forall (Sig Act St Ev : Type) (sig_eqb : Sig -> Sig -> bool) (sig_of : Act -> Sig)
          (is_reject : Ev -> bool),
        (forall a b : Sig, sig_eqb a b = true -> a = b) ->
        forall (fuel : nat) (ds : list (disp Sig Act St Ev)) (l : list (Act * St)),
        serve_c Sig Act St Ev sig_eqb sig_of is_reject fuel (new_router Sig Act St Ev)
          (map Install ds ++ calls Sig Act St Ev l) =
        serve_nc Sig Act St Ev sig_eqb sig_of is_reject fuel nil (map Install ds ++ calls Sig Act St Ev l).
Proof. exact @route_cache_ops. Qed.

Theorem C02_route_cache_built_router :
  forall (Sig Act St Ev : Type) (sig_eqb : Sig -> Sig -> bool) (sig_of : Act -> Sig)
          (is_reject : Ev -> bool),
        (forall a b : Sig, sig_eqb a b = true -> a = b) ->
        forall (fuel : nat) (ds : list (disp Sig Act St Ev)) (l : list (Act * St)),
        serve_c Sig Act St Ev sig_eqb sig_of is_reject fuel (built Sig Act St Ev ds) (calls Sig Act St Ev l) =
        map (fun p : Act * St => answer_nc Sig Act St Ev sig_eqb sig_of is_reject fuel ds (fst p) (snd p)) l.
Proof. exact @route_cache. Qed.

Theorem C02_route_cache_any_client :
  forall (Sig Act St Ev : Type) (sig_eqb : Sig -> Sig -> bool) (sig_of : Act -> Sig)
          (is_reject : Ev -> bool),
        (forall a b : Sig, sig_eqb a b = true -> a = b) ->
        forall (fuel : nat) (ds : list (disp Sig Act St Ev)) (R1 R2 : Type) (before : client Act St Ev R1)
          (cl : client Act St Ev R2),
        snd
          (run_client Act St Ev (Router.cache Sig) (dispatch_c Sig Act St Ev sig_eqb sig_of is_reject fuel ds)
             cl
             (fst
                (run_client Act St Ev (Router.cache Sig)
                   (dispatch_c Sig Act St Ev sig_eqb sig_of is_reject fuel ds) before nil))) =
        snd (run_client Act St Ev unit (dispatch_nc Sig Act St Ev sig_eqb sig_of is_reject fuel ds) cl tt).
Proof. exact @any_client. Qed.

Theorem C02_route_cache_history_free :
  forall (Sig Act St Ev : Type) (sig_eqb : Sig -> Sig -> bool) (sig_of : Act -> Sig)
          (is_reject : Ev -> bool),
        (forall a b : Sig, sig_eqb a b = true -> a = b) ->
        forall (fuel : nat) (ds : list (disp Sig Act St Ev)) (h1 h2 l : list (Act * St)),
        snd
          (run_ops Sig Act St Ev sig_eqb sig_of is_reject fuel
             (fst
                (run_ops Sig Act St Ev sig_eqb sig_of is_reject fuel (built Sig Act St Ev ds)
                   (calls Sig Act St Ev h1))) (calls Sig Act St Ev l)) =
        snd
          (run_ops Sig Act St Ev sig_eqb sig_of is_reject fuel
             (fst
                (run_ops Sig Act St Ev sig_eqb sig_of is_reject fuel (built Sig Act St Ev ds)
                   (calls Sig Act St Ev h2))) (calls Sig Act St Ev l)).
Proof. exact @history_free. Qed.

Theorem C02_route_cache_stays_coherent :
  forall (Sig Act St Ev : Type) (sig_eqb : Sig -> Sig -> bool) (sig_of : Act -> Sig)
          (is_reject : Ev -> bool),
        (forall a b : Sig, sig_eqb a b = true -> a = b) ->
        forall (ds : list (disp Sig Act St Ev)) (fuel : nat) (c : Router.cache Sig) (a : Act) (st : St),
        Router.Coh Sig Act St Ev sig_eqb ds c ->
        Router.Coh Sig Act St Ev sig_eqb ds
          (fst (dispatch_c Sig Act St Ev sig_eqb sig_of is_reject fuel ds c a st)) /\
        snd (dispatch_c Sig Act St Ev sig_eqb sig_of is_reject fuel ds c a st) =
        snd (dispatch_nc Sig Act St Ev sig_eqb sig_of is_reject fuel ds tt a st).
Proof. exact @dispatch_coh. Qed.

Theorem C02_late_install_prefix :
  forall (Sig Act St Ev : Type) (sig_eqb : Sig -> Sig -> bool) (sig_of : Act -> Sig)
          (is_reject : Ev -> bool),
        (forall a b : Sig, sig_eqb a b = true -> a = b) ->
        forall (fuel : nat) (ops : list (rop Sig Act St Ev)),
        CohPrefix Sig Act St Ev sig_eqb
          (dsp (fst (run_ops Sig Act St Ev sig_eqb sig_of is_reject fuel (new_router Sig Act St Ev) ops)))
          (rc (fst (run_ops Sig Act St Ev sig_eqb sig_of is_reject fuel (new_router Sig Act St Ev) ops))).
Proof. exact @late_install_prefix_new. Qed.

Theorem C02_late_install_is_stale :
  let ops :=
          Install (RouterExamples.P 0 (1 :: 7 :: nil))
          :: Dispatch 1 nil
             :: Install (RouterExamples.P 3 (1 :: 7 :: nil)) :: Dispatch 1 nil :: Dispatch 7 nil :: nil in
        serve_c nat nat (list (nat * nat)) nat PeanoNat.Nat.eqb RouterExamples.sg RouterExamples.norej 5
          (new_router nat nat (list (nat * nat)) nat) ops =
        Some ((0, 1) :: nil, 0 :: nil)
        :: Some ((0, 1) :: nil, 0 :: nil) :: Some ((0, 7) :: (3, 7) :: nil, 0 :: 3 :: nil) :: nil /\
        serve_nc nat nat (list (nat * nat)) nat PeanoNat.Nat.eqb RouterExamples.sg RouterExamples.norej 5 nil
          ops =
        Some ((0, 1) :: nil, 0 :: nil)
        :: Some ((0, 1) :: (3, 1) :: nil, 0 :: 3 :: nil)
           :: Some ((0, 7) :: (3, 7) :: nil, 0 :: 3 :: nil) :: nil.
Proof. exact @RouterExamples.late_install_is_stale. Qed.

Theorem C02_deterministic_engine :
  forall (St Ev Act Ck H T D Name : Type) (play : St -> Act -> St * list Ev) 
          (save : St -> Ck) (restore : Ck -> St) (clock : St -> T) (inspect : Name -> St -> D)
          (mk_act : Name -> meth -> option T -> Act) (star : Name) (ev_name : Ev -> Name)
          (ev_delay : Ev -> option T) (name_eqb : Name -> Name -> bool) (tzero : T) 
          (tpos tis0 : T -> bool) (H0 : H) (hashf : H -> cmd T Name -> list (T * Act * list Ev) -> H)
          (e1 e2 : eng St Ev Act Ck H T D Name) (cs : list (cmd T Name)),
        Coh St Ev Act Ck H T D Name restore e1 ->
        Coh St Ev Act Ck H T D Name restore e2 ->
        logs St Ev Act Ck H T D Name e1 = logs St Ev Act Ck H T D Name e2 ->
        match
          run St Ev Act Ck H T D Name play save restore clock inspect mk_act star ev_name ev_delay name_eqb
            tzero tpos tis0 H0 hashf e1 cs
        with
        | Some a =>
            match
              run St Ev Act Ck H T D Name play save restore clock inspect mk_act star ev_name ev_delay
                name_eqb tzero tpos tis0 H0 hashf e2 cs
            with
            | Some b =>
                logs St Ev Act Ck H T D Name a = logs St Ev Act Ck H T D Name b /\
                sim St Ev Act Ck H T D Name restore a b
            | None => False
            end
        | None =>
            match
              run St Ev Act Ck H T D Name play save restore clock inspect mk_act star ev_name ev_delay
                name_eqb tzero tpos tis0 H0 hashf e2 cs
            with
            | Some _ => False
            | None => True
            end
        end.
Proof. exact @C01_state_in_log. Qed.

Theorem C02_no_entropy_imports :
  (forall m i : string, In (m, i) iso_imports -> entropy_import i = false) /\
        (forall m u : string, In (m, u) iso_uses -> use_ok (m, u) = true) /\
        (forall m : string, In m required_modules -> In m iso_modules).
Proof. exact @no_entropy_imports. Qed.

Theorem C02_process_wide_state_reviewed :
  nonbenign iso_state = reviewed_state.
Proof. exact @process_wide_state_reviewed. Qed.

Theorem C02_spec_repository_hands_out_copies :
  (forall i : string * string * string, In i iso_repo_get -> get_item_ok i = true) /\
        (forall i : string * string * string, In i iso_repo_get_all -> get_all_item_ok i = true) /\
        (forall i : string * string * string, In i iso_interpret -> interpret_item_ok i = true) /\
        interpret_copies_self_data iso_interpret = true /\
        (forall i : string * string * string, In i iso_helpers -> no_write i = true) /\
        has_return iso_repo_get = true /\
        has_return iso_repo_get_all = true /\ has_return iso_interpret = true.
Proof. exact @repository_hands_out_copies. Qed.

Theorem C02_rejected_base_skips_followers :
  serve_c nat nat (list (nat * nat)) nat PeanoNat.Nat.eqb RouterExamples.sg 
          (PeanoNat.Nat.eqb 1) 5 (built nat nat (list (nat * nat)) nat RouterExamples.ds3)
          (calls nat nat (list (nat * nat)) nat ((1, nil) :: (7, nil) :: nil)) =
        Some ((0, 1) :: (1, 1) :: nil, 0 :: 1 :: nil) :: Some ((0, 7) :: (2, 7) :: nil, 0 :: 2 :: nil) :: nil.
Proof. exact @RouterExamples.rejected_base_skips_followers. Qed.

Theorem C02_directory_order_not_observed :
  iso_unsorted_enumerations = reviewed_unsorted_enumerations.
Proof. exact @directory_order_not_observed. Qed.

Print Assumptions C02_route_cache.
Print Assumptions C02_route_cache_built_router.
Print Assumptions C02_route_cache_any_client.
Print Assumptions C02_route_cache_history_free.
Print Assumptions C02_route_cache_stays_coherent.
Print Assumptions C02_late_install_prefix.
Print Assumptions C02_late_install_is_stale.
Print Assumptions C02_deterministic_engine.
Print Assumptions C02_no_entropy_imports.
Print Assumptions C02_process_wide_state_reviewed.
Print Assumptions C02_spec_repository_hands_out_copies.
Print Assumptions C02_rejected_base_skips_followers.
Print Assumptions C02_directory_order_not_observed.
