From Coq Require Import QArith Lqa List.
Import ListNotations.
Open Scope Q_scope.
Record Stat := mkStat {
  STR_ : Q;
  LUK_ : Q;
  INT_ : Q;
  DEX_ : Q;
  STR_multiplier_ : Q;
  LUK_multiplier_ : Q;
  INT_multiplier_ : Q;
  DEX_multiplier_ : Q;
  STR_static_ : Q;
  LUK_static_ : Q;
  INT_static_ : Q;
  DEX_static_ : Q;
  attack_power_ : Q;
  magic_attack_ : Q;
  attack_power_multiplier_ : Q;
  magic_attack_multiplier_ : Q;
  critical_rate_ : Q;
  critical_damage_ : Q;
  boss_damage_multiplier_ : Q;
  damage_multiplier_ : Q;
  final_damage_multiplier_ : Q;
  ignored_defence_ : Q;
  MHP_ : Q;
  MMP_ : Q;
  MHP_multiplier_ : Q;
  MMP_multiplier_ : Q;
  elemental_resistance_ : Q }.
Definition zero : Stat := mkStat 0 0 0 0 0 0 0 0 0 0 0 0 0 0 0 0 0 0 0 0 0 0 0 0 0 0 0.
Definition add (a b : Stat) : Stat := mkStat
  ((STR_ a) + (STR_ b))
  ((LUK_ a) + (LUK_ b))
  ((INT_ a) + (INT_ b))
  ((DEX_ a) + (DEX_ b))
  ((STR_multiplier_ a) + (STR_multiplier_ b))
  ((LUK_multiplier_ a) + (LUK_multiplier_ b))
  ((INT_multiplier_ a) + (INT_multiplier_ b))
  ((DEX_multiplier_ a) + (DEX_multiplier_ b))
  ((STR_static_ a) + (STR_static_ b))
  ((LUK_static_ a) + (LUK_static_ b))
  ((INT_static_ a) + (INT_static_ b))
  ((DEX_static_ a) + (DEX_static_ b))
  ((attack_power_ a) + (attack_power_ b))
  ((magic_attack_ a) + (magic_attack_ b))
  ((attack_power_multiplier_ a) + (attack_power_multiplier_ b))
  ((magic_attack_multiplier_ a) + (magic_attack_multiplier_ b))
  ((critical_rate_ a) + (critical_rate_ b))
  ((critical_damage_ a) + (critical_damage_ b))
  ((boss_damage_multiplier_ a) + (boss_damage_multiplier_ b))
  ((damage_multiplier_ a) + (damage_multiplier_ b))
  (((final_damage_multiplier_ a) + (final_damage_multiplier_ b)) + (((1#100) * (final_damage_multiplier_ a)) * (final_damage_multiplier_ b)))
  ((100#1) - ((1#100) * (((100#1) - (ignored_defence_ a)) * ((100#1) - (ignored_defence_ b)))))
  ((MHP_ a) + (MHP_ b))
  ((MMP_ a) + (MMP_ b))
  ((MHP_multiplier_ a) + (MHP_multiplier_ b))
  ((MMP_multiplier_ a) + (MMP_multiplier_ b))
  ((elemental_resistance_ a) + (elemental_resistance_ b)).
Definition iadd (a b : Stat) : Stat := mkStat
  ((STR_ a) + (STR_ b))
  ((LUK_ a) + (LUK_ b))
  ((INT_ a) + (INT_ b))
  ((DEX_ a) + (DEX_ b))
  ((STR_multiplier_ a) + (STR_multiplier_ b))
  ((LUK_multiplier_ a) + (LUK_multiplier_ b))
  ((INT_multiplier_ a) + (INT_multiplier_ b))
  ((DEX_multiplier_ a) + (DEX_multiplier_ b))
  ((STR_static_ a) + (STR_static_ b))
  ((LUK_static_ a) + (LUK_static_ b))
  ((INT_static_ a) + (INT_static_ b))
  ((DEX_static_ a) + (DEX_static_ b))
  ((attack_power_ a) + (attack_power_ b))
  ((magic_attack_ a) + (magic_attack_ b))
  ((attack_power_multiplier_ a) + (attack_power_multiplier_ b))
  ((magic_attack_multiplier_ a) + (magic_attack_multiplier_ b))
  ((critical_rate_ a) + (critical_rate_ b))
  ((critical_damage_ a) + (critical_damage_ b))
  ((boss_damage_multiplier_ a) + (boss_damage_multiplier_ b))
  ((damage_multiplier_ a) + (damage_multiplier_ b))
  ((final_damage_multiplier_ a) + ((final_damage_multiplier_ b) + (((1#100) * (final_damage_multiplier_ a)) * (final_damage_multiplier_ b))))
  ((100#1) - ((1#100) * (((100#1) - (ignored_defence_ a)) * ((100#1) - (ignored_defence_ b)))))
  ((MHP_ a) + (MHP_ b))
  ((MMP_ a) + (MMP_ b))
  ((MHP_multiplier_ a) + (MHP_multiplier_ b))
  ((MMP_multiplier_ a) + (MMP_multiplier_ b))
  ((elemental_resistance_ a) + (elemental_resistance_ b)).
Definition stack (a : Stat) (n : Q) : Stat := mkStat
  ((STR_ a) * n)
  ((LUK_ a) * n)
  ((INT_ a) * n)
  ((DEX_ a) * n)
  ((STR_multiplier_ a) * n)
  ((LUK_multiplier_ a) * n)
  ((INT_multiplier_ a) * n)
  ((DEX_multiplier_ a) * n)
  ((STR_static_ a) * n)
  ((LUK_static_ a) * n)
  ((INT_static_ a) * n)
  ((DEX_static_ a) * n)
  ((attack_power_ a) * n)
  ((magic_attack_ a) * n)
  ((attack_power_multiplier_ a) * n)
  ((magic_attack_multiplier_ a) * n)
  ((critical_rate_ a) * n)
  ((critical_damage_ a) * n)
  ((boss_damage_multiplier_ a) * n)
  ((damage_multiplier_ a) * n)
  ((final_damage_multiplier_ a) * n)
  ((ignored_defence_ a) * n)
  ((MHP_ a) * n)
  ((MMP_ a) * n)
  ((MHP_multiplier_ a) * n)
  ((MMP_multiplier_ a) * n)
  ((elemental_resistance_ a) * n).
Definition fd_acc (l : list Stat) : Q := fold_left (fun acc s => acc + final_damage_multiplier_ s * acc * (1#100)) l 1.
Definition def_acc (l : list Stat) : Q := fold_left (fun acc s => acc - acc * (1#100) * ignored_defence_ s) l 1.
Definition sum (l : list Stat) : Stat := mkStat
  (fold_left (fun acc s => acc + STR_ s) l 0)
  (fold_left (fun acc s => acc + LUK_ s) l 0)
  (fold_left (fun acc s => acc + INT_ s) l 0)
  (fold_left (fun acc s => acc + DEX_ s) l 0)
  (fold_left (fun acc s => acc + STR_multiplier_ s) l 0)
  (fold_left (fun acc s => acc + LUK_multiplier_ s) l 0)
  (fold_left (fun acc s => acc + INT_multiplier_ s) l 0)
  (fold_left (fun acc s => acc + DEX_multiplier_ s) l 0)
  (fold_left (fun acc s => acc + STR_static_ s) l 0)
  (fold_left (fun acc s => acc + LUK_static_ s) l 0)
  (fold_left (fun acc s => acc + INT_static_ s) l 0)
  (fold_left (fun acc s => acc + DEX_static_ s) l 0)
  (fold_left (fun acc s => acc + attack_power_ s) l 0)
  (fold_left (fun acc s => acc + magic_attack_ s) l 0)
  (fold_left (fun acc s => acc + attack_power_multiplier_ s) l 0)
  (fold_left (fun acc s => acc + magic_attack_multiplier_ s) l 0)
  (fold_left (fun acc s => acc + critical_rate_ s) l 0)
  (fold_left (fun acc s => acc + critical_damage_ s) l 0)
  (fold_left (fun acc s => acc + boss_damage_multiplier_ s) l 0)
  (fold_left (fun acc s => acc + damage_multiplier_ s) l 0)
  ((fd_acc l - 1) * 100)
  (100 * (1 - def_acc l))
  (fold_left (fun acc s => acc + MHP_ s) l 0)
  (fold_left (fun acc s => acc + MMP_ s) l 0)
  (fold_left (fun acc s => acc + MHP_multiplier_ s) l 0)
  (fold_left (fun acc s => acc + MMP_multiplier_ s) l 0)
  (fold_left (fun acc s => acc + elemental_resistance_ s) l 0).
Definition seq (a b : Stat) : Prop :=
  STR_ a == STR_ b /\
  LUK_ a == LUK_ b /\
  INT_ a == INT_ b /\
  DEX_ a == DEX_ b /\
  STR_multiplier_ a == STR_multiplier_ b /\
  LUK_multiplier_ a == LUK_multiplier_ b /\
  INT_multiplier_ a == INT_multiplier_ b /\
  DEX_multiplier_ a == DEX_multiplier_ b /\
  STR_static_ a == STR_static_ b /\
  LUK_static_ a == LUK_static_ b /\
  INT_static_ a == INT_static_ b /\
  DEX_static_ a == DEX_static_ b /\
  attack_power_ a == attack_power_ b /\
  magic_attack_ a == magic_attack_ b /\
  attack_power_multiplier_ a == attack_power_multiplier_ b /\
  magic_attack_multiplier_ a == magic_attack_multiplier_ b /\
  critical_rate_ a == critical_rate_ b /\
  critical_damage_ a == critical_damage_ b /\
  boss_damage_multiplier_ a == boss_damage_multiplier_ b /\
  damage_multiplier_ a == damage_multiplier_ b /\
  final_damage_multiplier_ a == final_damage_multiplier_ b /\
  ignored_defence_ a == ignored_defence_ b /\
  MHP_ a == MHP_ b /\
  MMP_ a == MMP_ b /\
  MHP_multiplier_ a == MHP_multiplier_ b /\
  MMP_multiplier_ a == MMP_multiplier_ b /\
  elemental_resistance_ a == elemental_resistance_ b.

Lemma add_comm a b : seq (add a b) (add b a). Proof. unfold seq, add; cbn. repeat split; ring. Qed.
Lemma add_assoc a b c : seq (add (add a b) c) (add a (add b c)). Proof. unfold seq, add; cbn. repeat split; ring. Qed.
Lemma add_0_r a : seq (add a zero) a. Proof. unfold seq, add, zero; cbn. repeat split; ring. Qed.
Lemma add_0_l a : seq (add zero a) a. Proof. unfold seq, add, zero; cbn. repeat split; ring. Qed.
Lemma iadd_eq_add a b : seq (iadd a b) (add a b). Proof. unfold seq, iadd, add; cbn. repeat split; ring. Qed.
Lemma stack_1 a : seq (stack a 1) a. Proof. unfold seq, stack; cbn. repeat split; ring. Qed.
Lemma fd_multiplicative a b : 1 + (1#100) * final_damage_multiplier_ (add a b) == (1 + (1#100) * final_damage_multiplier_ a) * (1 + (1#100) * final_damage_multiplier_ b).
Proof. unfold add; cbn. ring. Qed.
Lemma ied_multiplicative a b : 100 - ignored_defence_ (add a b) == (1#100) * ((100 - ignored_defence_ a) * (100 - ignored_defence_ b)).
Proof. unfold add; cbn. ring. Qed.

(* ---- sum = left fold of add from zero (so any order of summation agrees, by add_comm/add_assoc) ---- *)
Definition fold_add (l : list Stat) (acc : Stat) : Stat := fold_left add l acc.

Lemma fold_plus_ext (f : Stat -> Q) l : forall a a', a == a' -> fold_left (fun acc s => acc + f s) l a == fold_left (fun acc s => acc + f s) l a'.
Proof. induction l as [|x l IH]; intros a a' H; cbn [fold_left]; [exact H|]. apply IH. rewrite H. reflexivity. Qed.

Ltac field_fold f_ :=
  let l := fresh "l" in let IH := fresh "IH" in
  intros l; induction l as [|x l IH]; intros acc; cbn [fold_left fold_add]; [reflexivity|];
  unfold fold_add in IH; rewrite <- IH; apply fold_plus_ext; unfold add; cbn; ring.

Lemma sum_STR : forall l acc, fold_left (fun a s => a + STR_ s) l (STR_ acc) == STR_ (fold_add l acc).
Proof. field_fold STR_. Qed.
Lemma sum_MHP : forall l acc, fold_left (fun a s => a + MHP_ s) l (MHP_ acc) == MHP_ (fold_add l acc).
Proof. field_fold MHP_. Qed.

Lemma fd_ext l : forall a a', a == a' -> fold_left (fun acc s => acc + final_damage_multiplier_ s * acc * (1#100)) l a == fold_left (fun acc s => acc + final_damage_multiplier_ s * acc * (1#100)) l a'.
Proof. induction l as [|x l IH]; intros a a' H; cbn [fold_left]; [exact H|]. apply IH. rewrite H. reflexivity. Qed.
Lemma sum_fd : forall l acc, fold_left (fun a s => a + final_damage_multiplier_ s * a * (1#100)) l (1 + (1#100) * final_damage_multiplier_ acc)
                   == 1 + (1#100) * final_damage_multiplier_ (fold_add l acc).
Proof.
  intros l; induction l as [|x l IH]; intros acc; cbn [fold_left fold_add]; [reflexivity|].
  unfold fold_add in IH. rewrite <- IH. apply fd_ext. unfold add; cbn. ring.
Qed.
Theorem sum_fd_eq l : final_damage_multiplier_ (sum l) == final_damage_multiplier_ (fold_add l zero).
Proof.
  unfold sum; cbn [final_damage_multiplier_]. unfold fd_acc.
  pose proof (sum_fd l zero) as H. cbn [final_damage_multiplier_ zero] in H.
  assert (E : fold_left (fun acc s => acc + final_damage_multiplier_ s * acc * (1 # 100)) l 1 == 1 + (1 # 100) * final_damage_multiplier_ (fold_add l zero)).
  { rewrite <- H. apply fd_ext. ring. }
  rewrite E. ring.
Qed.

Lemma def_ext l : forall a a', a == a' -> fold_left (fun acc s => acc - acc * (1#100) * ignored_defence_ s) l a == fold_left (fun acc s => acc - acc * (1#100) * ignored_defence_ s) l a'.
Proof. induction l as [|x l IH]; intros a a' H; cbn [fold_left]; [exact H|]. apply IH. rewrite H. reflexivity. Qed.
Lemma sum_def : forall l acc, fold_left (fun a s => a - a * (1#100) * ignored_defence_ s) l (1 - (1#100) * ignored_defence_ acc)
                   == 1 - (1#100) * ignored_defence_ (fold_add l acc).
Proof.
  intros l; induction l as [|x l IH]; intros acc; cbn [fold_left fold_add]; [reflexivity|].
  unfold fold_add in IH. rewrite <- IH. apply def_ext. unfold add; cbn. ring.
Qed.
Theorem sum_ied_eq l : ignored_defence_ (sum l) == ignored_defence_ (fold_add l zero).
Proof.
  unfold sum; cbn [ignored_defence_]. unfold def_acc.
  pose proof (sum_def l zero) as H. cbn [ignored_defence_ zero] in H.
  assert (E : fold_left (fun acc s => acc - acc * (1 # 100) * ignored_defence_ s) l 1 == 1 - (1 # 100) * ignored_defence_ (fold_add l zero)).
  { rewrite <- H. apply def_ext. ring. }
  rewrite E. ring.
Qed.
Print Assumptions sum_fd_eq.
