From Coq Require Import QArith Lqa.
Open Scope Q_scope.
Record Stat := mkStat {
  STR_ : Q;
  LUK_ : Q;
  INT_ : Q;
  DEX_ : Q;
  STR_multiplier_ : Q;
  LUK_multiplier_ : Q;
  INT_multiplier_ : Q;
  DEX_multiplier_ : Q;
  STR_static_ : Q;
  LUK_static_ : Q;
  INT_static_ : Q;
  DEX_static_ : Q;
  attack_power_ : Q;
  magic_attack_ : Q;
  attack_power_multiplier_ : Q;
  magic_attack_multiplier_ : Q;
  critical_rate_ : Q;
  critical_damage_ : Q;
  boss_damage_multiplier_ : Q;
  damage_multiplier_ : Q;
  final_damage_multiplier_ : Q;
  ignored_defence_ : Q;
  MHP_ : Q;
  MMP_ : Q;
  MHP_multiplier_ : Q;
  MMP_multiplier_ : Q;
  elemental_resistance_ : Q }.
Definition zero : Stat := mkStat 0 0 0 0 0 0 0 0 0 0 0 0 0 0 0 0 0 0 0 0 0 0 0 0 0 0 0.
Definition add (a b : Stat) : Stat := mkStat
  ((STR_ a) + (STR_ b))
  ((LUK_ a) + (LUK_ b))
  ((INT_ a) + (INT_ b))
  ((DEX_ a) + (DEX_ b))
  ((STR_multiplier_ a) + (STR_multiplier_ b))
  ((LUK_multiplier_ a) + (LUK_multiplier_ b))
  ((INT_multiplier_ a) + (INT_multiplier_ b))
  ((DEX_multiplier_ a) + (DEX_multiplier_ b))
  ((STR_static_ a) + (STR_static_ b))
  ((LUK_static_ a) + (LUK_static_ b))
  ((INT_static_ a) + (INT_static_ b))
  ((DEX_static_ a) + (DEX_static_ b))
  ((attack_power_ a) + (attack_power_ b))
  ((magic_attack_ a) + (magic_attack_ b))
  ((attack_power_multiplier_ a) + (attack_power_multiplier_ b))
  ((magic_attack_multiplier_ a) + (magic_attack_multiplier_ b))
  ((critical_rate_ a) + (critical_rate_ b))
  ((critical_damage_ a) + (critical_damage_ b))
  ((boss_damage_multiplier_ a) + (boss_damage_multiplier_ b))
  ((damage_multiplier_ a) + (damage_multiplier_ b))
  (((final_damage_multiplier_ a) + (final_damage_multiplier_ b)) + (((1#100) * (final_damage_multiplier_ a)) * (final_damage_multiplier_ b)))
  ((100#1) - ((1#100) * (((100#1) - (ignored_defence_ a)) * ((100#1) - (ignored_defence_ b)))))
  ((MHP_ a) + (MHP_ b))
  ((MMP_ a) + (MMP_ b))
  ((MHP_multiplier_ a) + (MHP_multiplier_ b))
  ((MMP_multiplier_ a) + (MMP_multiplier_ b))
  ((elemental_resistance_ a) + (elemental_resistance_ b)).
Definition seq (a b : Stat) : Prop :=
  STR_ a == STR_ b /\
  LUK_ a == LUK_ b /\
  INT_ a == INT_ b /\
  DEX_ a == DEX_ b /\
  STR_multiplier_ a == STR_multiplier_ b /\
  LUK_multiplier_ a == LUK_multiplier_ b /\
  INT_multiplier_ a == INT_multiplier_ b /\
  DEX_multiplier_ a == DEX_multiplier_ b /\
  STR_static_ a == STR_static_ b /\
  LUK_static_ a == LUK_static_ b /\
  INT_static_ a == INT_static_ b /\
  DEX_static_ a == DEX_static_ b /\
  attack_power_ a == attack_power_ b /\
  magic_attack_ a == magic_attack_ b /\
  attack_power_multiplier_ a == attack_power_multiplier_ b /\
  magic_attack_multiplier_ a == magic_attack_multiplier_ b /\
  critical_rate_ a == critical_rate_ b /\
  critical_damage_ a == critical_damage_ b /\
  boss_damage_multiplier_ a == boss_damage_multiplier_ b /\
  damage_multiplier_ a == damage_multiplier_ b /\
  final_damage_multiplier_ a == final_damage_multiplier_ b /\
  ignored_defence_ a == ignored_defence_ b /\
  MHP_ a == MHP_ b /\
  MMP_ a == MMP_ b /\
  MHP_multiplier_ a == MHP_multiplier_ b /\
  MMP_multiplier_ a == MMP_multiplier_ b /\
  elemental_resistance_ a == elemental_resistance_ b.
Lemma add_comm a b : seq (add a b) (add b a).
Proof. unfold seq, add; cbn. repeat split; ring. Qed.
Lemma add_assoc a b c : seq (add (add a b) c) (add a (add b c)).
Proof. unfold seq, add; cbn. repeat split; ring. Qed.
Lemma add_0_r a : seq (add a zero) a.
Proof. unfold seq, add, zero; cbn. repeat split; ring. Qed.
Print Assumptions add_assoc.
