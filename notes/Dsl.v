(* Token-level model of the plan DSL body: printer (the `expr` templates) and parser; round trip. *)
From Coq Require Import List Arith Lia Bool.
Import ListNotations.

Section Dsl.
  Variables Wd Str Num : Type.          (* WORD, ESCAPED_STRING contents, SIGNED_NUMBER as the float it denotes *)
  Inductive tok := TW (w : Wd) | TS (s : Str) | TN (t : Num) | TNL | TX (n : nat) | TDebug.
  Inductive op := Full (c : Wd) (n : Str) (t : Num) | TimeOp (c : Wd) (t : Num) | SkillOp (c : Wd) (n : Str).
  Inductive cmd := Op (o : op) | Console (s : Str).

  Definition print_op (o : op) : list tok :=
    match o with Full c n t => [TW c; TS n; TN t] | TimeOp c t => [TW c; TN t] | SkillOp c n => [TW c; TS n] end.
  Definition print_cmd (c : cmd) : list tok := match c with Op o => print_op o | Console s => [TDebug; TS s] end.
  Fixpoint print (cs : list cmd) : list tok :=
    match cs with [] => [] | [c] => print_cmd c | c :: r => print_cmd c ++ TNL :: print r end.

  (* one item: optional multiplier, then an operation or a console line *)
  Definition parse_op (ts : list tok) : option (op * list tok) :=
    match ts with
    | TW c :: TS n :: TN t :: r => Some (Full c n t, r)
    | TW c :: TS n :: r => Some (SkillOp c n, r)
    | TW c :: TN t :: r => Some (TimeOp c t, r)
    | _ => None
    end.
  Definition parse_item (ts : list tok) : option (list cmd * list tok) :=
    match ts with
    | TX n :: r => match parse_op r with Some (o, r') => Some (repeat (Op o) n, r') | None => None end
    | TDebug :: TS s :: r => Some ([Console s], r)
    | _ => match parse_op ts with Some (o, r') => Some ([Op o], r') | None => None end
    end.
  Fixpoint parse_body (fuel : nat) (ts : list tok) : option (list cmd) :=
    match fuel with
    | O => None
    | S f => match parse_item ts with
             | None => None
             | Some (cs, []) => Some cs
             | Some (cs, TNL :: r) => match parse_body f r with Some cs' => Some (cs ++ cs') | None => None end
             | Some (_, _) => None
             end
    end.
  Definition parse (ts : list tok) := parse_body (S (length ts)) ts.

  Definition not_num (r : list tok) : Prop := match r with TN _ :: _ => False | _ => True end.

  Lemma parse_op_print o r : not_num r -> parse_op (print_op o ++ r) = Some (o, r).
  Proof.
    intros Hr. destruct o as [c n t|c t|c n]; cbn [print_op app parse_op]; try reflexivity.
    destruct r as [|x r']; [reflexivity|]. destruct x; try reflexivity. destruct Hr.
  Qed.
  Lemma parse_item_print c r : not_num r -> parse_item (print_cmd c ++ r) = Some ([c], r).
  Proof.
    intros Hr. destruct c as [o|s]; cbn [print_cmd]; [|reflexivity].
    pose proof (parse_op_print o r Hr) as P.
    destruct o as [c n t|c t|c n]; cbn [print_op app parse_item] in *; rewrite P; reflexivity.
  Qed.

  Theorem parse_print : forall cs fuel, cs <> [] -> length (print cs) < fuel -> parse_body fuel (print cs) = Some cs.
  Proof.
    induction cs as [|c cs IH]; intros fuel Hne Hf; [congruence|].
    destruct fuel as [|f]; [lia|]. destruct cs as [|c2 cs'].
    - cbn [print parse_body]. rewrite <- (app_nil_r (print_cmd c)). rewrite parse_item_print by exact I. reflexivity.
    - change (print (c :: c2 :: cs')) with (print_cmd c ++ TNL :: print (c2 :: cs')) in *. cbn [parse_body].
      rewrite parse_item_print by exact I.
      rewrite IH; [reflexivity|discriminate|]. rewrite app_length in Hf. cbn [length] in Hf. lia.
  Qed.
  Corollary parse_print' cs : cs <> [] -> parse (print cs) = Some cs.
  Proof. intros H. apply parse_print; auto. Qed.

  (* xN <op> means that operation N times *)
  Theorem multiplier_replicates n o : parse (TX n :: print_op o) = Some (repeat (Op o) n).
  Proof.
    unfold parse. cbn [parse_body length]. cbn [parse_item]. rewrite <- (app_nil_r (print_op o)).
    rewrite parse_op_print by exact I. reflexivity.
  Qed.
End Dsl.
Print Assumptions parse_print'.
